(* Proofs/CmTotal.v — the formatter model returns Ok on trees satisfying the shape clauses
   K1-K3 of Spec/CmSpec.v, in release mode (dbg = false) where usize arithmetic wraps; witnesses
   showing that each clause is needed, and that debug builds need more (K4). *)
From Coq Require Import List NArith Bool Lia Arith Strings.String.
From V Require Import Base.Bytes Base.Res Gen.Ctype Gen.CmGen Model.Ast Model.Cm Spec.CmSpec Proofs.CmProofs.
Import ListNotations.
Local Open Scope list_scope.

(* an Item ancestor directly above has a List above it *)
Definition anc_ok (anc : list node_value) : bool :=
  match anc with
  | p :: up => if is_item p then match up with NList _ :: _ => true | _ => false end else true
  | [] => true
  end.

Lemma anc_ok_cons v anc next : cm_node_ok v anc next = true -> anc_ok (v :: anc) = true.
Proof.
  intro H. unfold anc_ok. destruct v; cbn [is_item]; try reflexivity; cbn [cm_node_ok] in H; exact H.
Qed.

Lemma get_in_tight_ok v anc :
  anc_ok anc = true -> (match anc with p :: _ => is_item p | [] => false end) = true ->
  exists t, get_in_tight_list_item v anc = Ok t.
Proof.
  intros Ha Hp. destruct anc as [|p up]; [discriminate|]. cbn [anc_ok] in Ha. rewrite Hp in Ha.
  destruct up as [|g up]; [discriminate|]. destruct g; try discriminate.
  unfold get_in_tight_list_item. cbn [containing_block].
  destruct (is_block v) eqn:Ev.
  - destruct (is_item v).
    + destruct p; eexists; reflexivity.
    + rewrite Hp. eexists; reflexivity.
  - assert (is_block p = true) as Ebp by (destruct p; try discriminate; reflexivity).
    rewrite Ebp. rewrite Hp. eexists; reflexivity.
Qed.

Lemma update_tight_ok c v e s :
  anc_ok (c_anc c) = true -> exists s', update_tight c v e s = Ok s'.
Proof.
  intro Ha. unfold update_tight, parent_is_item.
  destruct e.
  - destruct (match c_anc c with p :: _ => is_item p | [] => false end) eqn:Hp; [|eexists; reflexivity].
    destruct (get_in_tight_ok v _ Ha Hp) as [t ->]. eexists; reflexivity.
  - destruct v; try (eexists; reflexivity).
    destruct (match c_anc c with p :: _ => is_item p | [] => false end) eqn:Hp; [|eexists; reflexivity].
    destruct (get_in_tight_ok (NList l) _ Ha Hp) as [t ->]. eexists; reflexivity.
Qed.

Lemma sus_ok lit f : exists n, shortest_unused_sequence lit f = Ok n.
Proof. destruct (shortest_unused_spec lit f) as [n [E _]]. exists n. exact E. Qed.

Lemma format_item_ok o v c e s :
  is_item v = true -> cm_node_ok v (c_anc c) (c_next c) = true ->
  exists s', format_item o false v c e s = Ok s'.
Proof.
  intros Hi Hn. unfold format_item.
  destruct (c_anc c) as [|p up]; [destruct v; discriminate|].
  destruct p; try (destruct v; discriminate).
  destruct (l_type l).
  - destruct e; eexists; reflexivity.
  - destruct (ol_stack s) as [|ls rest].
    + destruct v; try discriminate; cbn [bind]; destruct e; eexists; reflexivity.
    + destruct e.
      * destruct (N.ltb (ls + 1) two64); cbn [bind]; eexists; reflexivity.
      * destruct (N.ltb 0 ls); cbn [bind]; eexists; reflexivity.
Qed.

Lemma prefix_pop_release site k s : exists s', prefix_pop false site k s = Ok s'.
Proof. unfold prefix_pop. destruct (N.ltb (plen s) k); eexists; reflexivity. Qed.

Lemma format_node_body_ok o c v sp ch e s :
  cm_node_ok v (c_anc c) (c_next c) = true ->
  exists r, format_node_body o false c (Node v sp ch) e s = Ok r.
Proof.
  intro Hn. unfold format_node_body.
  destruct v; cbn [bind];
    try (eexists; reflexivity);
    try (destruct e; eexists; reflexivity).
  - (* BlockQuote *)
    unfold format_block_quote. destruct e; [eexists; reflexivity|].
    destruct (prefix_pop_release "cm.rs:format_block_quote:prefix.len() - 2" 2 s) as [s' ->]. eexists; reflexivity.
  - (* List *)
    unfold format_list. destruct e; [eexists; reflexivity|].
    destruct (c_next c) as [nx|]; [destruct nx|]; eexists; reflexivity.
  - (* Item *)
    destruct (format_item_ok o (Item l) c e s eq_refl Hn) as [s' ->]. eexists; reflexivity.
  - (* CodeBlock *)
    unfold format_code_block. destruct e; [|eexists; reflexivity].
    match goal with |- context [if ?b then _ else _] => destruct b end.
    + match goal with |- context [prefix_pop false ?site ?k ?st] => destruct (prefix_pop_release site k st) as [s' ->] end.
      eexists; reflexivity.
    + eexists; reflexivity.
  - (* FootnoteDefinition *)
    destruct e; [eexists; reflexivity|].
    destruct (prefix_pop_release "cm.rs:format_footnote_definition:prefix.len() - 4" 4 s) as [s' ->]. eexists; reflexivity.
  - (* TableCell *)
    unfold format_table_cell. destruct e; [eexists; reflexivity|].
    cbn [cm_node_ok] in Hn. destruct (c_anc c) as [|p up]; [discriminate|]. destruct p; try discriminate.
    destruct (header && match c_next c with None => true | Some _ => false end).
    + destruct up as [|g up]; [discriminate|]. destruct g; try discriminate. eexists; reflexivity.
    + eexists; reflexivity.
  - (* TaskItem *)
    destruct (format_item_ok o (TaskItem symbol) c e s eq_refl Hn) as [s' ->]. cbn [bind]. eexists; reflexivity.
  - (* Code *)
    unfold format_code. destruct e; [|eexists; reflexivity].
    destruct (sus_ok lit x60) as [n ->]. cbn [bind].
    cbn [cm_node_ok] in Hn. destruct lit; [discriminate|]. eexists; reflexivity.
  - (* Link *)
    destruct (is_autolink url title ch); destruct e; eexists; reflexivity.
  - (* MultilineBlockQuote *)
    unfold format_block_quote. destruct e; [eexists; reflexivity|].
    destruct (prefix_pop_release "cm.rs:format_block_quote:prefix.len() - 2" 2 s) as [s' ->]. eexists; reflexivity.
  - (* Alert *)
    unfold format_alert. destruct e; [eexists; reflexivity|].
    destruct (prefix_pop_release "cm.rs:format_alert:prefix.len() - 2" 2 s) as [s' ->]. eexists; reflexivity.
Qed.

Lemma format_node_ok o c v sp ch e s :
  anc_ok (c_anc c) = true -> cm_node_ok v (c_anc c) (c_next c) = true ->
  exists r, format_node o false c (Node v sp ch) e s = Ok r.
Proof.
  intros Ha Hn. unfold format_node. cbn [nval].
  destruct (update_tight_ok c v e s Ha) as [s1 ->]. cbn [bind].
  apply format_node_body_ok. exact Hn.
Qed.

Theorem cm_total_release o : forall n c s,
  anc_ok (c_anc c) = true -> cm_shape (c_anc c) (c_next c) n = true ->
  exists s', fmt o false c n s = Ok s'.
Proof.
  induction n as [v sp ch IH] using node_ind2. intros c s Ha Hs.
  cbn [cm_shape] in Hs. apply andb_true_iff in Hs. destruct Hs as [Hn Hch].
  cbn [fmt].
  destruct (format_node_ok o c v sp ch true s Ha Hn) as [[s1 d] E1]. rewrite E1. cbn [bind].
  destruct d; [|eexists; reflexivity].
  assert (Hgo : forall (prev : option node_value) (s : st),
    exists s2,
      (fix go (l : list node) (prev : option node_value) (s : st) {struct l} : res st :=
         match l with
         | [] => Ok s
         | x :: r => bind (fmt o false (mkC (v :: c_anc c) prev (next_val r)) x s) (fun sx => go r (Some (nval x)) sx)
         end) ch prev s = Ok s2).
  { clear E1 s1 s. induction ch as [|x r IHr]; intros prev s.
    - eexists; reflexivity.
    - apply andb_true_iff in Hch. destruct Hch as [Hx Hr].
      inversion IH as [|x' r' Hx' Hr']; subst.
      destruct (Hx' (mkC (v :: c_anc c) prev (next_val r)) s) as [sx Ex].
      + cbn [c_anc]. eapply anc_ok_cons. exact Hn.
      + cbn [c_anc c_next]. unfold next_val. exact Hx.
      + rewrite Ex. cbn [bind]. apply IHr; assumption. }
  destruct (Hgo None s1) as [s2 E2]. rewrite E2. cbn [bind].
  destruct (format_node_ok o c v sp ch false s2 Ha Hn) as [r3 E3]. rewrite E3. cbn [bind].
  eexists; reflexivity.
Qed.

Theorem cm_total_partial o root :
  o_experimental_minimize o = false ->
  cm_shape [] None root = true ->
  exists out, format_document o false root = CmOk out.
Proof.
  intros Hm Hs. unfold format_document.
  destruct (cm_total_release o root root_cctx st0 eq_refl Hs) as [s' ->].
  rewrite Hm. eexists; reflexivity.
Qed.

(* the statement for debug builds (overflow checks on): K1-K3 and K4; NOT proved — it needs the
   balance of prefix pushes/pops and of the ol_stack through the traversal; the check evaluates it
   on every tree it formats (tools/checks/cm_tie.py, spec_checks) *)
Definition cm_total_debug_full_statement : Prop :=
  forall o root, o_experimental_minimize o = false ->
    cm_shape [] None root = true -> cm_no_ol_overflow root = true ->
    exists out, format_document o true root = CmOk out.

(* ---- every clause is needed: witnesses (replayed on the compiled formatter by the check) ---- *)
Definition cm_opts0 : opts :=
  mkOpts false None false false false false false false false 0 false false 45 false false false false false false 0 false false.
Definition sp0 : sourcepos := mkSp 1 1 1 1.
Definition nl (ty : list_type) (start : N) : node_list := mkList ty 0 2 start Period 45 true false.
Definition txt (b : bytes) : node := Node (Text b) sp0 [].
Definition para (ch : list node) : node := Node Paragraph sp0 ch.
Definition doc (ch : list node) : node := Node Document sp0 ch.

Definition is_panic (r : cm_result) : bool := match r with CmPanic _ => true | _ => false end.
Definition is_cmok (r : cm_result) : bool := match r with CmOk _ => true | _ => false end.

(* K1: an Item whose parent is not a List *)
Definition w_item_under_document : node := doc [Node (Item (nl Bullet 1)) sp0 [para [txt [x78]]]].
(* K1: an Item at the root with a child (get_in_tight_list_item unwraps the missing parent) *)
Definition w_item_root : node := Node (Item (nl Bullet 1)) sp0 [para [txt [x78]]].
(* K2: an empty code span literal *)
Definition w_empty_code : node := doc [para [Node (Code 1 []) sp0 []]].
(* K3: a table cell outside a row; the last header cell of a row outside a table *)
Definition w_cell_under_paragraph : node := doc [para [Node TableCell sp0 []]].
Definition w_header_cell_no_table : node := doc [Node (TableRow true) sp0 [Node TableCell sp0 []]].
(* K4: an ordered list whose counter overflows usize: debug builds panic, release builds wrap *)
Definition w_ol_overflow : node :=
  doc [Node (NList (nl Ordered 18446744073709551615)) sp0 [Node (Item (nl Ordered 1)) sp0 [para [txt [x78]]]]].

Theorem cm_total_refuted_without_K1 :
  cm_shape [] None w_item_under_document = false /\
  is_panic (format_document cm_opts0 false w_item_under_document) = true /\
  is_panic (format_document cm_opts0 true w_item_under_document) = true /\
  cm_shape [] None w_item_root = false /\
  is_panic (format_document cm_opts0 false w_item_root) = true /\
  is_panic (format_document cm_opts0 true w_item_root) = true.
Proof. vm_compute. repeat split. Qed.

Theorem cm_total_refuted_without_K2 :
  cm_shape [] None w_empty_code = false /\
  is_panic (format_document cm_opts0 false w_empty_code) = true /\
  is_panic (format_document cm_opts0 true w_empty_code) = true.
Proof. vm_compute. repeat split. Qed.

Theorem cm_total_refuted_without_K3 :
  cm_shape [] None w_cell_under_paragraph = false /\
  is_panic (format_document cm_opts0 false w_cell_under_paragraph) = true /\
  is_panic (format_document cm_opts0 true w_cell_under_paragraph) = true /\
  cm_shape [] None w_header_cell_no_table = false /\
  is_panic (format_document cm_opts0 false w_header_cell_no_table) = true /\
  is_panic (format_document cm_opts0 true w_header_cell_no_table) = true.
Proof. vm_compute. repeat split. Qed.

(* K1-K3 do not suffice in debug builds *)
Theorem cm_total_debug_refuted_without_K4 :
  cm_shape [] None w_ol_overflow = true /\
  cm_no_ol_overflow w_ol_overflow = false /\
  is_cmok (format_document cm_opts0 false w_ol_overflow) = true /\
  is_panic (format_document cm_opts0 true w_ol_overflow) = true.
Proof. vm_compute. repeat split. Qed.
