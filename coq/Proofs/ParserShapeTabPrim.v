(* Proofs/ParserShapeTabPrim.v — the state invariant for the table clause s3 of the block-phase model and its
   preservation by the tree primitives (modify_info, append_child, bdetach, add_child_gen, finalize, add_line)
   and by the table builders of parser/table.rs (try_inserting_table_header_paragraph, try_opening_header,
   try_opening_row).

     TI o ex st :=  NI o st (Proofs/ParserShapeBlocks.v)
                 /\ UQ ex st: the identifiers of the tree together with the list `ex` (identifiers of a subtree
                    that is detached at the moment: parse_desc_list_details takes a paragraph out and puts it
                    back under a new DescriptionTerm) are pairwise distinct and below ps_next
                 /\ btab (ps_root st): the table shape (Proofs/ParserShapeTree.v).

   Distinct identifiers are what makes `bdetach st id` remove THE node `get st id` returned (the model's
   edit_kids looks the identifier up again). *)
From Coq Require Import List NArith Arith Bool Lia Strings.String.
From V Require Import Base.Bytes Base.Res Gen.Nodes Model.Ast Model.Strings Model.Feed Model.FrontMatter Model.RefDef
  Model.Scan Model.Blocks Spec.Shape Spec.HtmlSpec Spec.Valid Proofs.BlocksProofs Proofs.BlocksCursor
  Proofs.ParserShapeBlocks Proofs.ParserShapeTree.
From V Require Proofs.ValidProofs.
Import ListNotations.
Local Open Scope string_scope.
Local Open Scope list_scope.

Definition UQ (ex : list nat) (st : pstate) : Prop :=
  forall x, cnt x (ids (ps_root st)) + cnt x ex <= 1 /\
            (1 <= cnt x (ids (ps_root st)) + cnt x ex -> x < ps_next st).

Definition TI (o : bopts) (ex : list nat) (st : pstate) : Prop :=
  NI o st /\ UQ ex st /\ btab (ps_root st) = true.

Lemma TI_st_current o ex st n : TI o ex st -> TI o ex (st_current st n). Proof. exact (fun H => H). Qed.
Lemma TI_st_refmap o ex st m : TI o ex st -> TI o ex (st_refmap st m). Proof. exact (fun H => H). Qed.
Lemma TI_st_line_number o ex st n : TI o ex st -> TI o ex (st_line_number st n). Proof. exact (fun H => H). Qed.
Lemma TI_st_cur o ex st c : TI o ex st -> TI o ex (st_cur st c). Proof. exact (fun H => H). Qed.
Lemma TI_st_curline o ex st a b : TI o ex st -> TI o ex (st_curline st a b). Proof. exact (fun H => H). Qed.
Lemma TI_st_last_line_length o ex st n : TI o ex st -> TI o ex (st_last_line_length st n). Proof. exact (fun H => H). Qed.

Lemma TI_NI o ex st : TI o ex st -> NI o st. Proof. intros [N _]. exact N. Qed.
Lemma TI_distinct o ex st : TI o ex st -> forall x, cnt x (ids (ps_root st)) <= 1.
Proof. intros [_ [U _]] x. specialize (U x). lia. Qed.

Lemma TI_ex_ext o ex ex' st : (forall x, cnt x ex' = cnt x ex) -> TI o ex st -> TI o ex' st.
Proof. intros E [N [U B]]. split; [exact N|]. split; [|exact B]. intro x. rewrite E. apply U. Qed.

Lemma get_btab o ex st id n : TI o ex st -> get st id = Ok n -> btab n = true.
Proof. intros [_ [_ B]] G. apply get_find in G. eapply find_node_btab; eassumption. Qed.

(* ================================================================== small facts about the shape predicates *)
Definition vplain (v : node_value) : bool := match v with Table _ | TableRow _ => false | _ => true end.

Lemma kshape_plain v sg : vplain v = true -> kshape v sg = forallb g_free sg.
Proof. destruct v; try reflexivity; discriminate. Qed.

Lemma vfree_plain v : vfree v = true -> vplain v = true.
Proof. destruct v; try reflexivity; discriminate. Qed.
Lemma vfree_norowcell v : vfree v = true -> vrowcell v = false.
Proof. destruct v; try reflexivity; discriminate. Qed.

Lemma g_row_not_free h n s : g_row h n s = true -> g_free s = true -> False.
Proof. destruct s; discriminate. Qed.
Lemma g_cell_not_free s : g_cell s = true -> g_free s = true -> False.
Proof. destruct s; discriminate. Qed.

Lemma free_kid_plain i ch c : btab (BNode i ch) = true -> In c ch -> g_free (tsig c) = true -> vplain (bi_val i) = true.
Proof.
  intros V Hc Fc. apply btab_node in V. destruct V as [K _].
  destruct (bi_val i); try reflexivity; exfalso; cbn [kshape] in K.
  - apply andb_true_iff in K. destruct K as [_ K]. destruct ch as [|h rs]; [destruct Hc|]. cbn [map] in K.
    apply andb_true_iff in K. destruct K as [Kh Krs]. destruct Hc as [<-|Hc]; [eapply g_row_not_free; eassumption|].
    rewrite forallb_map_c in Krs. rewrite forallb_forall in Krs. eapply g_row_not_free; [apply (Krs c Hc) | exact Fc].
  - rewrite forallb_map_c in K. rewrite forallb_forall in K. eapply g_cell_not_free; [apply (K c Hc) | exact Fc].
Qed.

Lemma plain_kids_inv i ch : vplain (bi_val i) = true -> btab (BNode i ch) = true ->
  forallb (fun c => g_free (tsig c)) ch = true /\ forallb btab ch = true.
Proof.
  intros P V. apply btab_node in V. destruct V as [K Vk]. rewrite (kshape_plain _ _ P), forallb_map_c in K. auto.
Qed.

Lemma plain_kids i ch ch' : vplain (bi_val i) = true ->
  forallb (fun c => g_free (tsig c)) ch' = true -> forallb btab ch' = true ->
  btab (BNode i ch') = true /\ tsig (BNode i ch') = tsig (BNode i ch).
Proof.
  intros P F V. split.
  - apply btab_node. rewrite (kshape_plain _ _ P), forallb_map_c. auto.
  - unfold tsig, bval. cbn [binf bkids]. destruct (bi_val i); try reflexivity; discriminate P.
Qed.

Lemma can_contain_plain p k : can_contain p k = true -> k <> KTableRow -> k <> KTableCell -> p <> KTable /\ p <> KTableRow.
Proof.
  intros C R Ce. split; intros ->.
  - apply ValidProofs.table_accepts_rows_only in C. contradiction.
  - apply ValidProofs.row_accepts_cells_only in C. contradiction.
Qed.

Lemma kind_plain v : kind_of v <> KTable -> kind_of v <> KTableRow -> vplain v = true.
Proof. destruct v; intros A B; try reflexivity; exfalso; [apply A | apply B]; reflexivity. Qed.

Lemma norowcell_kind v : vrowcell v = false -> kind_of v <> KTableRow /\ kind_of v <> KTableCell.
Proof. destruct v; intro H; try discriminate H; split; discriminate. Qed.

Lemma bsub_trans : forall t p c, In p (bsub t) -> In c (bsub p) -> In c (bsub t).
Proof.
  induction t as [i ch IH] using bnode_ind2. intros p c Hp Hc. cbn [bsub] in Hp. destruct Hp as [<-|Hp]; [exact Hc|].
  apply in_flat_map in Hp. destruct Hp as [x [Hx Hp]]. rewrite Forall_forall in IH.
  eapply bsub_kid; [exact Hx | eapply IH; eassumption].
Qed.

Lemma bsub_kid_of t p c : In p (bsub t) -> In c (bkids p) -> In c (bsub t).
Proof.
  intros Hp Hc. eapply bsub_trans; [exact Hp|]. destruct p as [i ch]. cbn [bkids] in Hc.
  eapply bsub_kid; [exact Hc | apply bsub_self].
Qed.

(* ================================================================== modify_info *)
Definition vsame (v v' : node_value) : Prop := v' = v \/ (vfree v = true /\ vfree v' = true).

Lemma on_info_btab f i ch : vsame (bi_val i) (bi_val (f i)) -> btab (BNode i ch) = true ->
  btab (BNode (f i) ch) = true /\ tsig (BNode (f i) ch) = tsig (BNode i ch).
Proof.
  intros [E|[A B]] V.
  - apply btab_node in V. split; [apply btab_node; rewrite E; exact V|].
    unfold tsig, bval. cbn [binf bkids]. rewrite E. reflexivity.
  - destruct (plain_kids_inv _ _ (vfree_plain _ A) V) as [K Vk]. split.
    + apply (plain_kids (f i) ch ch (vfree_plain _ B) K Vk).
    + rewrite !tsig_free; [reflexivity | |]; unfold bval; cbn [binf]; now apply vfree_norowcell.
Qed.

Lemma modify_info_TI o ex st id f st' :
  TI o ex st -> modify_info st id f = Ok st' ->
  (forall n, find_node id (ps_root st) = Some n ->
     bi_id (f (binf n)) = bi_id (binf n) /\ bvok o (bi_val (f (binf n))) = true /\
     (bi_val (binf n) = Document -> bi_val (f (binf n)) = Document) /\
     vsame (bi_val (binf n)) (bi_val (f (binf n)))) ->
  TI o ex st'.
Proof.
  intros [N [U B]] M Hf. split; [|split].
  - eapply modify_info_NI; [exact N | exact M |]. intros n Fn. destruct (Hf n Fn) as (_ & A & D & _). auto.
  - unfold modify_info, modify in M. destruct (upd id (on_info f) (ps_root st)) as [r|] eqn:E; [|discriminate].
    inversion M; subst. intro x. cbn [ps_root ps_next st_root].
    rewrite (upd_cnt _ _ _ _ (fun _ => 0) E); [rewrite Nat.add_0_r; apply U|].
    intros n Fn y. destruct (Hf n Fn) as (I & _). destruct n as [i ch]. cbn [on_info binf] in *. cnt_norm. rewrite I. lia.
  - unfold modify_info, modify in M. destruct (upd id (on_info f) (ps_root st)) as [r|] eqn:E; [|discriminate].
    inversion M; subst. cbn [ps_root st_root].
    eapply upd_btab; [exact B | exact E |].
    intros n Fn Vn. destruct (Hf n Fn) as (_ & _ & _ & S). destruct n as [i ch]. cbn [on_info binf] in *.
    now apply on_info_btab.
Qed.

Lemma modify_info_set_TI o ex st id f st' :
  modify_info st id f = Ok st' -> (forall i, bi_val (f i) = bi_val i /\ bi_id (f i) = bi_id i) -> TI o ex st -> TI o ex st'.
Proof.
  intros M Hf V. eapply modify_info_TI; [exact V | exact M |]. intros n Fn. destruct (Hf (binf n)) as [A B].
  rewrite A, B. split; [reflexivity|]. split; [|split; [exact (fun H => H) | left; reflexivity]].
  destruct V as [[_ V] _]. pose proof (find_node_ball _ _ _ _ V Fn) as Vn. destruct n as [i ch]. apply ball_node in Vn. tauto.
Qed.

Lemma modify_info_find st id f st' n :
  modify_info st id f = Ok st' -> find_node id (ps_root st) = Some n ->
  bi_id (f (binf n)) = bi_id (binf n) -> find_node id (ps_root st') = Some (on_info f n).
Proof.
  unfold modify_info, modify. intros M F I.
  destruct (upd id (on_info f) (ps_root st)) as [r|] eqn:U; [|discriminate]. inversion M; subst. cbn [ps_root st_root].
  eapply upd_find; [exact U | exact F |]. destruct (find_node_sub _ _ _ F) as [A _].
  destruct n as [i ch]. unfold bid in *. cbn [on_info binf] in *. rewrite I, A. apply Nat.eqb_refl.
Qed.

(* ================================================================== detach *)
Lemma detach_btab id t r :
  btab t = true -> edit_kids id (fun _ pre _ post => pre ++ post) t = Some r ->
  (forall c, In c (bsub t) -> bid c = id -> g_free (tsig c) = true) -> btab r = true.
Proof.
  intros B E HQ.
  eapply (edit_kids_btab _ _ (fun c => g_free (tsig c) = true)); [exact B | exact E | exact HQ |].
  intros i pre c post Qc V. cbv beta.
  assert (P : vplain (bi_val i) = true).
  { eapply free_kid_plain; [exact V | | exact Qc]. apply in_or_app. right. left. reflexivity. }
  destruct (plain_kids_inv _ _ P V) as [K Vk].
  apply forallb_app_iff in K. destruct K as [K1 K2]. apply forallb_cons in K2. destruct K2 as [_ K2].
  apply forallb_app_iff in Vk. destruct Vk as [V1 V2]. apply forallb_cons in V2. destruct V2 as [_ V2].
  apply plain_kids; [exact P | |]; apply forallb_app_iff; auto.
Qed.

Lemma unique_free o ex st id :
  TI o ex st -> (forall n, find_node id (ps_root st) = Some n -> vrowcell (bval n) = false) ->
  forall c, In c (bsub (ps_root st)) -> bid c = id -> g_free (tsig c) = true.
Proof.
  intros V Hn c Hc Hb. pose proof (find_node_unique _ c (TI_distinct _ _ _ V) Hc) as F. rewrite Hb in F.
  rewrite (tsig_free _ (Hn c F)). reflexivity.
Qed.

(* the node leaves the tree for good (finalize of a paragraph that held only reference definitions) *)
Lemma bdetach_TI o ex st id st' :
  bdetach st id = Ok st' -> TI o ex st ->
  (forall n, find_node id (ps_root st) = Some n -> vrowcell (bval n) = false) -> TI o ex st'.
Proof.
  intros D V Hn. pose proof (unique_free _ _ _ _ V Hn) as HQ. destruct V as [N [U B]].
  pose proof (bdetach_NI _ _ _ _ D N) as N'. unfold bdetach in D.
  destruct (edit_kids id (fun _ pre _ post => pre ++ post) (ps_root st)) as [r|] eqn:E.
  - inversion D; subst. split; [exact N'|]. split.
    + destruct (edit_kids_cnt _ _ _ _ E) as (pk & pre & c & post & _ & _ & C). intro x. specialize (C x). specialize (U x).
      cbn [ps_root ps_next st_root]. cbv beta in C. cnt_norm. lia.
    + cbn [ps_root st_root]. eapply detach_btab; eassumption.
  - inversion D; subst. exact (conj N (conj U B)).
Qed.

(* the node leaves the tree and is kept aside: its identifiers move to `ex` *)
Lemma bdetach_TI_keep o ex st p lc st' :
  bdetach st (bid lc) = Ok st' -> TI o ex st -> In p (bsub (ps_root st)) -> In lc (bkids p) ->
  vrowcell (bval lc) = false -> TI o (ids lc ++ ex) st'.
Proof.
  intros D V Hp Hl Fl.
  assert (Hs : In lc (bsub (ps_root st))) by (eapply bsub_kid_of; eassumption).
  pose proof (find_node_unique _ lc (TI_distinct _ _ _ V) Hs) as Fu.
  assert (HQ : forall c, In c (bsub (ps_root st)) -> bid c = bid lc -> c = lc).
  { intros c Hc Hb. pose proof (find_node_unique _ c (TI_distinct _ _ _ V) Hc) as F. rewrite Hb, Fu in F. now inversion F. }
  destruct V as [N [U B]].
  pose proof (bdetach_NI _ _ _ _ D N) as N'. unfold bdetach in D.
  destruct (edit_kids (bid lc) (fun _ pre _ post => pre ++ post) (ps_root st)) as [r|] eqn:E;
    [|exfalso; exact (edit_kids_some _ _ _ _ Hp Hl E)].
  inversion D; subst. split; [exact N'|]. split.
  - destruct (edit_kids_cnt _ _ _ _ E) as (pk & pre & c & post & Hb & Hc & C). rewrite (HQ c Hc Hb) in C.
    intro x. specialize (C x). specialize (U x). cbn [ps_root ps_next st_root]. cbv beta in C. cnt_norm. lia.
  - cbn [ps_root st_root]. eapply detach_btab; [exact B | exact E |].
    intros c Hc Hb. rewrite (HQ c Hc Hb). rewrite (tsig_free _ Fl). reflexivity.
Qed.

(* ================================================================== append *)
Lemma append_child_TI o ex st pid c st' :
  append_child st pid c = Ok st' -> TI o (ids c ++ ex) st -> ball o c = true -> btab c = true -> g_free (tsig c) = true ->
  (forall p, find_node pid (ps_root st) = Some p -> vplain (bval p) = true) -> TI o ex st'.
Proof.
  intros A [N [U B]] Vc Bc Fc Hp. split; [eapply append_child_NI; eassumption|].
  unfold append_child, modify in A.
  match type of A with match upd ?i ?f ?t with _ => _ end = _ => destruct (upd i f t) as [r|] eqn:E; [|discriminate] end.
  inversion A; subst. cbn [ps_root ps_next st_root]. split.
  - intro x. cbn [ps_root ps_next st_root].
    rewrite (upd_cnt _ _ _ _ (fun y => cnt y (ids c)) E).
    + specialize (U x). cnt_norm. lia.
    + intros n Fn y. destruct n as [i ch]. cnt_norm. lia.
  - eapply upd_btab; [exact B | exact E |].
    intros n Fn Vn. specialize (Hp n Fn). destruct n as [i ch]. unfold bval in Hp. cbn [binf] in Hp.
    destruct (plain_kids_inv _ _ Hp Vn) as [K Vk].
    apply plain_kids; [exact Hp | |]; apply forallb_app_iff; split; auto; apply forallb_cons; auto.
Qed.

(* ================================================================== retighten *)
Lemma retighten_TI o ex st p st' : retighten st p = Ok st' -> TI o ex st -> TI o ex st'.
Proof.
  unfold retighten. intros H V. destruct p as [item|]; [|inversion H; subst; exact V].
  destruct (parent_of item (ps_root st)) as [lid|]; [|inversion H; subst; exact V].
  destruct (get st lid) as [l| |] eqn:G; cbn [bind] in H; try discriminate H.
  destruct (bi_open (binf l)); [inversion H; subst; exact V|].
  destruct (bval l) eqn:Bv; try (inversion H; subst; exact V).
  eapply modify_info_TI; [exact V | exact H |].
  intros n Fn. rewrite (get_find _ _ _ G) in Fn. inversion Fn; subst. unfold bval in Bv. cbn. rewrite Bv.
  split; [reflexivity|]. split; [reflexivity|]. split; [intro HD; discriminate HD | right; split; reflexivity].
Qed.

Lemma retighten_next st p st' : retighten st p = Ok st' -> ps_next st' = ps_next st.
Proof.
  unfold retighten. intro H. destruct p as [item|]; [|inversion H; reflexivity].
  destruct (parent_of item (ps_root st)) as [lid|]; [|inversion H; reflexivity].
  destruct (get st lid) as [l| |] eqn:G; cbn [bind] in H; try discriminate H.
  destruct (bi_open (binf l)); [inversion H; reflexivity|].
  destruct (bval l) eqn:Bv; try (inversion H; reflexivity).
  unfold modify_info, modify in H.
  match type of H with match upd ?a ?b ?c with _ => _ end = _ => destruct (upd a b c); [|discriminate H] end.
  inversion H; reflexivity.
Qed.

(* ================================================================== finalize *)
Lemma finalize_TI o ex st id p st' : finalize o st id = Ok (p, st') -> TI o ex st -> TI o ex st'.
Proof.
  intros F V. unfold finalize in F.
  mstep F. pose proof (get_ball _ _ _ _ (TI_NI _ _ _ V) E) as Va. apply get_find in E.
  mstep F; [discriminate F|].
  mstep F. clear E1.
  assert (Vv : bvok o (bi_val (binf a)) = true) by (destruct a as [i ch]; apply ball_node in Va; tauto).
  assert (MI : forall f st1, modify_info st id (fun _ => f) = Ok st1 -> bi_id f = bi_id (binf a) ->
                 bvok o (bi_val f) = true -> (bi_val (binf a) = Document -> bi_val f = Document) ->
                 vsame (bi_val (binf a)) (bi_val f) -> TI o ex st1).
  { intros f st1 M I1 I2 I3 I4. eapply modify_info_TI; [exact V | exact M |].
    intros n Fn. rewrite E in Fn. inversion Fn; subst. auto. }
  destruct (bi_val (binf a)) eqn:Ev; mon F;
  try apply TI_st_refmap;
  try (eapply MI; [eassumption | reflexivity
                  | cbn; rewrite ?Ev; first [exact Vv | reflexivity]
                  | cbn; rewrite ?Ev; intro HD; first [discriminate HD | exact HD | reflexivity]
                  | cbn; rewrite ?Ev; first [left; reflexivity | right; split; reflexivity]]).
  (* the paragraph that is removed *)
  all: try match goal with R : retighten _ _ = Ok _ |- _ => eapply retighten_TI; [exact R|] end.
  all: match goal with D : bdetach (st_refmap ?s1 _) _ = Ok _, M : modify_info _ _ (fun _ => ?f) = Ok ?s1 |- _ =>
         eapply bdetach_TI; [exact D | apply TI_st_refmap | ];
         [ eapply MI; [exact M | reflexivity | cbn; rewrite ?Ev; reflexivity | cbn; rewrite ?Ev; intro HD; discriminate HD
                      | cbn; rewrite ?Ev; left; reflexivity]
         | intros n Fn; cbn [ps_root st_refmap] in Fn;
           rewrite (modify_info_find _ _ _ _ _ M E eq_refl) in Fn; inversion Fn; subst;
           destruct a as [ia cha]; unfold bval; cbn; cbn in Ev; rewrite Ev; reflexivity ]
       end.
Qed.

Lemma unwrap_parent_fin_TI site o ex st id p st' :
  unwrap_parent site (finalize o st id) = Ok (p, st') -> TI o ex st -> TI o ex st'.
Proof.
  unfold unwrap_parent. intros H V.
  destruct (finalize o st id) as [[op s1]| |] eqn:E; cbn [bind fst snd] in H; try discriminate H.
  destruct op; inversion H; subst. eapply finalize_TI; eassumption.
Qed.

(* ================================================================== add_child *)
Lemma add_child_loop_TI o ex k : forall fuel st parent p' st',
  add_child_loop fuel o st parent k = Ok (p', st') -> TI o ex st ->
  TI o ex st' /\ ps_next st' = ps_next st /\
  exists pn, find_node p' (ps_root st') = Some pn /\ can_contain (bkind pn) k = true.
Proof.
  induction fuel as [|f IH]; intros st parent p' st' H V; [discriminate|].
  cbn [add_child_loop] in H.
  destruct (get st parent) as [pn| |] eqn:G; cbn [bind] in H; try discriminate H.
  destruct (can_contain (bkind pn) k) eqn:C.
  - inversion H; subst. split; [exact V|]. split; [reflexivity|]. exists pn. split; [now apply get_find | exact C].
  - match type of H with bind ?r _ = _ => destruct r as [[q s1]| |] eqn:U; cbn [bind fst snd] in H; try discriminate H end.
    destruct (IH _ _ _ _ H (unwrap_parent_fin_TI _ _ _ _ _ _ _ U V)) as (A & B & C').
    split; [exact A|]. split; [|exact C'].
    rewrite B. clear - U. unfold unwrap_parent in U.
    destruct (finalize o st parent) as [[op s2]| |] eqn:E; cbn [bind fst snd] in U; try discriminate U.
    destruct op; inversion U; subst. clear U. unfold finalize in E.
    repeat match type of E with
           | bind ?r _ = Ok _ => let E' := fresh "E" in destruct r eqn:E'; cbn [bind] in E; [ | discriminate E | discriminate E]
           | (if ?b then _ else _) = Ok _ => destruct b
           | Panic _ = Ok _ => discriminate E
           | match ?x with _ => _ end = Ok _ => destruct x
           | (let (_, _) := ?x in _) = Ok _ => destruct x
           end;
    repeat match goal with
           | H : Ok _ = Ok _ |- _ => inversion H; subst; clear H
           | H : modify_info _ _ _ = Ok _ |- _ => unfold modify_info, modify in H
           | H : match upd ?a ?b ?c with _ => _ end = Ok _ |- _ => destruct (upd a b c); [|discriminate H]
           | H : bdetach _ _ = Ok _ |- _ => unfold bdetach in H
           | H : match edit_kids ?a ?b ?c with _ => _ end = Ok _ |- _ => destruct (edit_kids a b c)
           | H : retighten _ _ = Ok _ |- _ => apply retighten_next in H; cbn [ps_next st_root st_refmap] in H
           end; try reflexivity; try congruence.
Qed.

Lemma UQ_fresh ex st new n' :
  UQ ex st ->
  (forall x, cnt x new <= 1 /\ (1 <= cnt x new -> ps_next st <= x < n')) -> ps_next st <= n' ->
  UQ (new ++ ex) (st_next st n').
Proof.
  intros U Hn Le x. specialize (U x). specialize (Hn x). cbn [ps_root ps_next st_next]. cnt_norm. lia.
Qed.

Lemma add_child_gen_TI o ex st parent v col post kids id st' :
  add_child_gen o st parent v col post kids = Ok (id, st') -> TI o (fids kids ++ ex) st ->
  (forall id l c, bvok o (bi_val (post (new_info id v l c))) = true /\ bi_id (post (new_info id v l c)) = id /\
                  vrowcell (bi_val (post (new_info id v l c))) = false /\
                  kshape (bi_val (post (new_info id v l c))) (map tsig kids) = true) ->
  vrowcell v = false -> forallb (ball o) kids = true -> forallb btab kids = true -> TI o ex st'.
Proof.
  unfold add_child_gen. intros H V Hp Hv Hk Hb.
  match type of H with bind ?r _ = _ => destruct r as [[p' s1]| |] eqn:E; cbn [bind] in H; try discriminate H end.
  destruct (add_child_loop_TI _ _ _ _ _ _ _ _ E V) as (V1 & _ & pn & Fp & Cp).
  mon H.
  match goal with A : append_child _ _ ?node = Ok _ |- _ => set (nd := node) in * end.
  destruct (Hp (ps_next s1) (ps_line_number s1) col) as (P1 & P2 & P3 & P4).
  eapply (append_child_TI _ _ _ _ nd); [eassumption | | | | |].
  - (* the identifiers of the new node are fresh *)
    destruct V1 as [N [U B]]. split; [exact N|]. split; [|exact B].
    intro x. specialize (U x). cbn [ps_root ps_next st_next]. subst nd. cnt_norm. rewrite P2.
    unfold one. destruct (Nat.eq_dec (ps_next s1) x); cnt_norm; lia.
  - subst nd. apply ball_node. split; assumption.
  - subst nd. apply btab_node. split; assumption.
  - subst nd. rewrite tsig_free; [reflexivity | exact P3].
  - intros p0 F0. cbn [ps_root st_next] in F0. rewrite Fp in F0. inversion F0; subst.
    destruct (norowcell_kind _ Hv) as [K1 K2]. destruct (can_contain_plain _ _ Cp K1 K2) as [A B].
    now apply kind_plain.
Qed.

Lemma add_child_TI o ex st parent v col id st' :
  add_child o st parent v col = Ok (id, st') -> bvok o v = true -> vrowcell v = false -> vplain v = true ->
  TI o ex st -> TI o ex st'.
Proof.
  unfold add_child. intros H Hv Hr Hp V.
  eapply add_child_gen_TI; [exact H | exact V | | exact Hr | reflexivity | reflexivity].
  intros id0 l c. cbn [new_info bi_val bi_id map]. repeat split; try assumption. now rewrite kshape_plain.
Qed.

(* ================================================================== add_line *)
Lemma add_line_TI o ex st id line st' : add_line st id line = Ok st' -> TI o ex st -> TI o ex st'.
Proof.
  unfold add_line. intros H V.
  destruct (get st id) as [n| |] eqn:G; cbn [bind] in H; try discriminate H.
  pose proof (get_ball _ _ _ _ (TI_NI _ _ _ V) G) as Vn.
  assert (Vv : bvok o (bi_val (binf n)) = true) by (destruct n as [i ch]; apply ball_node in Vn; tauto).
  mon H; monall; apply TI_st_cur;
  (eapply modify_info_TI; [exact V | eassumption |];
   intros nn Fn; rewrite (get_find _ _ _ G) in Fn; inversion Fn; subst; cbn;
   split; [reflexivity|]; split; [exact Vv|]; split; [exact (fun HD => HD) | left; reflexivity]).
Qed.

(* ================================================================== tables *)
Lemma seq_cnt x a n : cnt x (seq a n) <= 1 /\ (1 <= cnt x (seq a n) -> a <= x < a + n).
Proof.
  split.
  - unfold cnt. apply (proj1 (NoDup_count_occ Nat.eq_dec (seq a n))). apply seq_NoDup.
  - intro H. apply cnt_in in H. apply in_seq in H. exact H.
Qed.

Definition cells_ok (l : list bnode) : Prop :=
  forallb (fun c => g_cell (tsig c)) l = true /\ forallb btab l = true.

Lemma header_cells_ids : forall cells id ln sl sc po l,
  header_cells cells id ln sl sc po = Ok l ->
  fids l = seq id (List.length cells) /\ List.length l = List.length cells /\ cells_ok l.
Proof.
  induction cells as [|c r IH]; intros id ln sl sc po l H; cbn [header_cells] in H.
  - inversion H. repeat split.
  - mon H. match goal with E : header_cells r _ _ _ _ _ = Ok _ |- _ => destruct (IH _ _ _ _ _ _ E) as (A & B & C1 & C2) end.
    cbn [List.length seq]. rewrite fids_cons. cbn [ids]. rewrite A. cbn. split; [reflexivity|]. split; [now rewrite B|].
    split; apply forallb_cons; split; try assumption; reflexivity.
Qed.

Lemma row_cells_ids : forall n cells id ln sc lc l lc',
  row_cells n cells id ln sc lc = Ok (l, lc') -> n <= List.length cells ->
  fids l = seq id n /\ List.length l = n /\ cells_ok l.
Proof.
  induction n as [|m IH]; intros cells id ln sc lc l lc' H Le; cbn [row_cells] in H.
  - destruct cells; inversion H; repeat split.
  - destruct cells as [|c r]; [cbn in Le; lia|]. cbn [List.length] in Le.
    mon H. repeat match goal with p : (_ * _)%type |- _ => destruct p end. cbn [fst snd] in *.
    match goal with E : row_cells m r _ _ _ _ = Ok _ |- _ => destruct (IH _ _ _ _ _ _ _ E ltac:(lia)) as (A & B & C1 & C2) end.
    cbn [seq]. rewrite fids_cons. cbn [ids]. rewrite A. cbn. split; [reflexivity|]. split; [now rewrite B|].
    split; apply forallb_cons; split; try assumption; reflexivity.
Qed.

Lemma filler_cells_ids : forall n id ln lc,
  fids (filler_cells n id ln lc) = seq id n /\ List.length (filler_cells n id ln lc) = n /\ cells_ok (filler_cells n id ln lc).
Proof.
  induction n as [|m IH]; intros; cbn [filler_cells]; [repeat split|].
  destruct (IH (S id) ln lc) as (A & B & C1 & C2).
  cbn [seq]. rewrite fids_cons. cbn [ids]. rewrite A. cbn. split; [reflexivity|]. split; [now rewrite B|].
  split; apply forallb_cons; split; try assumption; reflexivity.
Qed.

Lemma cells_row_btab i l : (exists h, bi_val i = TableRow h) -> cells_ok l -> btab (BNode i l) = true.
Proof.
  intros [h E] [C1 C2]. apply btab_node. rewrite E. cbn [kshape]. rewrite forallb_map_c. auto.
Qed.

Lemma can_contain_para_plain v : can_contain (kind_of v) KParagraph = true -> vplain v = true.
Proof.
  intro C. apply kind_plain; intro K; rewrite K in C.
  - apply ValidProofs.table_accepts_rows_only in C. discriminate C.
  - apply ValidProofs.row_accepts_cells_only in C. discriminate C.
Qed.

Lemma TI_st_next_le o ex st n : ps_next st <= n -> TI o ex st -> TI o ex (st_next st n).
Proof.
  intros Le [N [U B]]. split; [exact N|]. split; [|exact B]. intro x. specialize (U x). cbn [ps_root ps_next st_next]. lia.
Qed.

Lemma modify_info_same_cnt st id f st' :
  modify_info st id f = Ok st' -> (forall i, bi_id (f i) = bi_id i) ->
  (forall x, cnt x (ids (ps_root st')) = cnt x (ids (ps_root st))) /\ ps_next st' = ps_next st.
Proof.
  unfold modify_info, modify. intros M Hf.
  destruct (upd id (on_info f) (ps_root st)) as [r|] eqn:E; [|discriminate]. inversion M; subst. cbn [ps_root ps_next st_root].
  split; [|reflexivity]. intro x. rewrite (upd_cnt _ _ _ _ (fun _ => 0) E); [lia|].
  intros n Fn y. destruct n as [i ch]. cbn [on_info]. cnt_norm. rewrite Hf. lia.
Qed.

Lemma try_inserting_TI o ex st c po st' :
  try_inserting_table_header_paragraph st c po = Ok st' -> TI o ex st -> TI o ex st' /\ ps_next st <= ps_next st'.
Proof.
  unfold try_inserting_table_header_paragraph. intros H V. mon H; monall; try (split; [exact V | lia]).
  match goal with M : modify_info (st_next _ ?n1) ?cc ?f = Ok ?s1, E : edit_kids _ _ (ps_root ?s1) = Some ?r |- _ =>
    assert (V1 : TI o ex (st_next st n1)) by (apply TI_st_next_le; [lia | exact V]);
    assert (V2 : TI o ex s1) by (eapply modify_info_set_TI; [exact M | intro; split; reflexivity | exact V1]);
    destruct (modify_info_same_cnt _ _ _ _ M) as [Cn Nx]; [intro; reflexivity|];
    cbn [ps_root ps_next st_next] in Cn, Nx;
    destruct (edit_kids_cnt _ _ _ _ E) as (pk & pre & cc0 & post & _ & _ & C);
    destruct V2 as [N2 [U2 B2]]
  end.
  split; [|cbn [ps_next st_root]; lia].
  split; [|split].
  - eapply edit_root_NI; [eassumption | exact N2 |].
    intros pk0 pre0 x post0 K. cbv beta. destruct (can_contain pk0 KParagraph) eqn:C0; [|exact K].
    apply forallb_app_iff in K. destruct K as [K1 K2]. apply forallb_app_iff. split; [exact K1|].
    cbn [app]. apply forallb_cons. split; [reflexivity | exact K2].
  - intro x. specialize (C x). cbv beta in C. cbn [ps_root ps_next st_root]. rewrite Nx.
    destruct V as [_ [U0 _]]. specialize (U0 x). rewrite <- Cn in U0.
    destruct (can_contain pk KParagraph); cnt_norm; [|lia].
    cbn [set_lo set_content set_end new_info bi_id] in C. cnt_norm.
    unfold one in *. destruct (Nat.eq_dec (ps_next st) x); lia.
  - cbn [ps_root st_root].
    match goal with E : edit_kids _ _ _ = Some _ |- _ => eapply (edit_kids_btab _ _ (fun _ => True)); [exact B2 | exact E | auto |] end.
    intros i pre0 x post0 _ Vp. cbv beta. destruct (can_contain (kind_of (bi_val i)) KParagraph) eqn:C0; [|split; [exact Vp | reflexivity]].
    pose proof (can_contain_para_plain _ C0) as P. destruct (plain_kids_inv _ _ P Vp) as [K Vk].
    apply forallb_app_iff in K. destruct K as [K1 K2]. apply forallb_app_iff in Vk. destruct Vk as [W1 W2].
    apply plain_kids; [exact P | |]; apply forallb_app_iff; (split; [assumption|]); cbn [app]; apply forallb_cons; (split; [reflexivity | assumption]).
Qed.
