(* Proofs/BlocksTotal4Line.v — totality of the block phase, fourth round, step 2 (cursor), part 5: open_new_blocks,
   add_text_to_container, process_line, the whole parse.

   The tree invariant J / LI of the first walk (Proofs/BlocksTotal2Walk.v, BlocksTotal3Tab.v) is carried along (its
   post-conditions are reused through sg_bind_safe / safe_ok): the cursor walk needs it in exactly one place, the ATX
   heading whose scanner may consume the final LF (the loop of open_new_blocks must stop there).

   Result: parse_blocks_no_cursor_panic — for EVERY input byte string and EVERY option set, parse_blocks never
   answers Panic at one of the sites of cur_sites (Proofs/BlocksTotal4Frame.v). *)
From Coq Require Import List NArith Arith Bool Lia Strings.String.
From V Require Import Base.Bytes Base.Res Gen.Nodes Gen.BlocksConst Gen.FeedConst Model.Ast Model.Strings Model.Entity Model.LinkUrl Model.ListMarker
  Model.Feed Model.FrontMatter Model.RefDef Model.Scan Model.Blocks Spec.EscapeSpec
  Proofs.FeedProofs Proofs.StrLeafProofs Proofs.StrLeafEntity Proofs.BlocksProofs Proofs.BlocksCursor Proofs.BlocksTotal
  Proofs.BlocksTotal2Safe Proofs.BlocksTotal2Root Proofs.BlocksTotal2Tree Proofs.BlocksTotal2Walk Proofs.BlocksTotal3Tab
  Proofs.BlocksTotal3Cur Proofs.BlocksTotal4Safe Proofs.BlocksTotal4Cur Proofs.BlocksTotal4Frame
  Proofs.BlocksTotal4Walk Proofs.BlocksTotal4Open Proofs.BlocksTotal4Atx.
Import ListNotations.
Local Open Scope string_scope.
Local Open Scope list_scope.

Section Line.
Variables (o : bopts) (lmc cur0 : nat) (line : bytes).
Hypothesis LN : lf_terminated line.
Notation Jx := (J o lmc cur0).
Notation HJx := (HJ o lmc cur0).

Lemma HRc_indent s0 s1 r : c_indent (ps_cur s1) = c_indent (ps_cur s0) -> HRc line s1 r -> HRc line s0 r.
Proof. intros E. destruct r as [[h c] s]. unfold HRc. destruct h; [exact (fun H => H)|]. intros [A B]. split; [exact A | congruence]. Qed.

Lemma sgc_indent s0 s1 (r : hres) : c_indent (ps_cur s1) = c_indent (ps_cur s0) -> sgc (HRc line s1) r -> sgc (HRc line s0) r.
Proof. intros E S. eapply sg_weaken; [exact S|]. intros a _ H. eapply HRc_indent; eassumption. Qed.

Lemma or_else_cur s0 (r : hres) k :
  safe HJx r -> sgc (HRc line s0) r ->
  (forall c s, Jx s c -> F1 line s -> c_indent (ps_cur s) = c_indent (ps_cur s0) -> sgc (HRc line s0) (k c s)) ->
  sgc (HRc line s0) (or_else_h r k).
Proof.
  intros S1 S2 K. unfold or_else_h. destruct r as [[[h c] s]| |]; cbn [bind safe sg] in *; [|exact S2 | exact S2].
  destruct h; [exact S2|]. destruct S2 as [A B]. apply K; [exact S1 | exact A | exact B].
Qed.

Lemma handle_atx_HR st c ind : Jx st c -> F1 line st -> sgc (HRc line st) (handle_atx_heading o st c line ind).
Proof.
  intros Jc F. eapply sg_weaken; [apply handle_atx_cur; [exact LN | exact F]|].
  intros [[h c'] s'] E H. cbn [HRc]. destruct h; [|exact H].
  split; [exact H | right]. eapply handle_atx_eol; eassumption.
Qed.

Definition STc (r : bool * nat * pstate) : Prop := let '(go, c, st') := r in if go then C1 line st' else C0 line st'.

Definition GOc (r : bool * nat * pstate) : Prop :=
  let '(g, c, s) := r in
  C0 line s /\ (g = true -> c_offset (ps_cur s) < List.length line \/ forall n, get s c = Ok n -> accepts_lines (bkind n) = true).

Lemma step_tail (r : bool * nat * pstate) : GOc r ->
  sgc STc (let '(go_on, container, st) := r in
           if negb go_on then Ok (false, container, st) else
           do c <- get st container;
           if accepts_lines (bkind c) then Ok (false, container, st) else Ok (true, container, st)).
Proof.
  destruct r as [[g c] s]. intros [C K]. destruct g; cbn [negb]; [|exact C].
  eapply sg_bind; [apply ng_sg; [apply ngc_get | intros a E; exact E]|]. intros n _ G. cbv beta in G.
  destruct (accepts_lines (bkind n)) eqn:A; cbn [sg STc]; [exact C|].
  split; [exact C|]. destruct (K eq_refl) as [L|L]; [exact L|]. rewrite (L _ G) in A. discriminate A.
Qed.

Lemma step_cur st c am ml d : Jx st c -> C1 line st -> sgc STc (open_new_blocks_step o st c line am ml d).
Proof.
  intros Jc C. unfold open_new_blocks_step.
  eapply sg_bind; [apply ffn_cur; exact (proj1 C)|]. intros s0 E0 (F0' & Eo & _).
  assert (F : F1 line s0) by (split; [exact F0' | rewrite Eo; exact (proj2 C)]).
  assert (J0 : Jx s0 c) by (eapply J_eqtree; [eapply ffn_eqtree; exact E0 | exact Jc]).
  match goal with |- sg _ _ _ (bind ?r _) => assert (S : sgc (HRc line s0) r) end.
  { apply or_else_cur; [now apply handle_alert_spec | now apply handle_alert_cur |]. intros c1 s1 J1 F1' I1.
    apply or_else_cur; [now apply handle_mbq_spec | eapply sgc_indent; [exact I1|]; now apply handle_mbq_cur |].
    clear c1 s1 J1 F1' I1. intros c1 s1 J1 F1' I1.
    apply or_else_cur; [now apply handle_blockquote_spec | eapply sgc_indent; [exact I1|]; now apply handle_blockquote_cur |].
    clear c1 s1 J1 F1' I1. intros c1 s1 J1 F1' I1.
    apply or_else_cur; [now apply handle_atx_spec | eapply sgc_indent; [exact I1|]; now apply handle_atx_HR |].
    clear c1 s1 J1 F1' I1. intros c1 s1 J1 F1' I1.
    apply or_else_cur; [now apply handle_code_fence_spec | eapply sgc_indent; [exact I1|]; now apply handle_code_fence_cur |].
    clear c1 s1 J1 F1' I1. intros c1 s1 J1 F1' I1.
    apply or_else_cur; [now apply handle_html_block_spec | eapply sgc_indent; [exact I1|]; now apply handle_html_block_cur |].
    clear c1 s1 J1 F1' I1. intros c1 s1 J1 F1' I1.
    apply or_else_cur; [now apply handle_setext_spec | eapply sgc_indent; [exact I1|]; now apply handle_setext_cur |].
    clear c1 s1 J1 F1' I1. intros c1 s1 J1 F1' I1.
    apply or_else_cur; [now apply handle_thematic_break_spec | eapply sgc_indent; [exact I1|]; now apply handle_thematic_break_cur |].
    clear c1 s1 J1 F1' I1. intros c1 s1 J1 F1' I1.
    apply or_else_cur; [now apply handle_footnote_spec | eapply sgc_indent; [exact I1|]; now apply handle_footnote_cur |].
    clear c1 s1 J1 F1' I1. intros c1 s1 J1 F1' I1.
    apply or_else_cur; [now apply handle_description_list_spec' | eapply sgc_indent; [exact I1|]; now apply handle_description_list_cur |].
    clear c1 s1 J1 F1' I1. intros c1 s1 J1 F1' I1.
    apply or_else_cur; [now apply handle_list_spec | eapply sgc_indent; [exact I1|]; now apply handle_list_cur |].
    clear c1 s1 J1 F1' I1. intros c1 s1 J1 F1' I1.
    eapply sgc_indent; [exact I1|]. apply handle_code_block_cur; [exact LN | exact F1' |]. unfold indent. now rewrite I1. }
  eapply sg_bind; [exact S|]. intros [[handled c1] s1] _ H1. cbn [HRc] in H1.
  eapply sg_bind with (P := GOc); [|intros r _ G; now apply step_tail].
  destruct handled.
  { cbn [sg GOc]. destruct H1 as [A B]. split; [exact A | intros _; exact B]. }
  destruct H1 as [F1s _].
  eapply sg_bind with (P := TBc line).
  { destruct (_ && _); [now apply try_opening_block_cur | cbn [sg TBc fst snd]; apply F0_C0; exact (proj1 F1s)]. }
  intros [t s2] _ T. unfold TBc in T. cbn [fst snd] in T. destruct t as [|mk|id].
  - cbn [sg GOc]. split; [exact T | discriminate].
  - eapply sg_bind with (P := fun s => F1 line s).
    { destruct mk; [|exact T]. eapply sg_weaken; [apply modify_info_kc|]. intros s3 _ K. eapply F1_KC; eassumption. }
    intros s3 _ F3. cbn [sg GOc]. split; [apply F0_C0; exact (proj1 F3) | intros _; left; exact (proj2 F3)].
  - cbn [sg GOc]. split; [exact (proj1 T) | intros _; left; exact (proj2 T)].
Qed.

Lemma loop_cur am : forall fuel st c ml d, Jx st c -> C1 line st ->
  sgc (fun r => C0 line (snd r)) (open_new_blocks_loop fuel o st c line am ml d).
Proof.
  induction fuel as [|f IH]; intros st c ml d Jc C; cbn [open_new_blocks_loop]; [reflexivity|].
  apply sgb; [auto with ngc|]. intros n _. destruct (is_code_or_html n); [exact (proj1 C)|].
  eapply sg_bind_safe; [apply (open_new_blocks_step_spec' o lmc cur0 st c line am ml (S d) Jc) | apply step_cur; assumption |].
  intros [[go c1] s1] _ J1 S1. cbn [HJ fst snd STc] in J1, S1. destruct go; [now apply IH | exact S1].
Qed.
End Line.

Lemma open_new_blocks_cur o line st c am : lf_terminated line ->
  W o st -> has st c -> has st (ps_current st) -> C1 line st ->
  sgc (fun r => C0 line (snd r)) (open_new_blocks o st c line am).
Proof.
  intros LN V Hc Hcur C. unfold open_new_blocks. apply sgb; [auto with ngc|]. intros n _.
  apply (loop_cur o c (ps_current st) line LN); [|exact C].
  split; [exact V|]. split; [exact Hc|]. split; [reflexivity|]. split; [reflexivity | now right].
Qed.

(* ================================================================== add_text_to_container *)
Lemma add_line_fns st id line st' : add_line st id line = Ok st' ->
  c_fns (ps_cur st') = c_fns (ps_cur st) /\ ps_curline_len st' = ps_curline_len st.
Proof.
  unfold add_line. intro H. mstep H. mstep H; [discriminate H|].
  destruct (c_pct (ps_cur st)); mon H; cbn [ps_cur st_cur ps_curline_len c_fns];
    match goal with M : modify_info st id _ = Ok ?s |- _ => destruct (modify_info_KC _ _ _ _ _ _ M (KC_self st)) as [K1 K2]; rewrite ?K1, ?K2 end;
    split; reflexivity.
Qed.

Lemma clear_llb_up_kc fuel st id : sgc (fun s => KC (ps_cur st) (ps_curline_len st) s) (clear_llb_up fuel st id).
Proof. apply ng_sg; [apply ngc_clear_llb_up|]. intros s E. eapply clear_llb_up_KC; [exact E | apply KC_self]. Qed.

Lemma finalize_up_to_kc fuel o st target site : al site = true ->
  sgc (fun s => KC (ps_cur st) (ps_curline_len st) s) (finalize_up_to fuel o st target site).
Proof. intro A. apply ng_sg; [now apply ngc_finalize_up_to|]. intros s E. eapply finalize_up_to_KC; [exact E | apply KC_self]. Qed.

Lemma add_text_to_container_cur o st c lmc line : C0 line st ->
  sgc (fun _ => True) (add_text_to_container o st c lmc line).
Proof.
  intro C. unfold add_text_to_container.
  eapply sg_bind; [apply ffn_cur; exact C|]. intros s0 _ (F & _).
  apply sgb; [auto with ngc|]. intros cn _.
  eapply sg_bind with (P := fun s1 => KC (ps_cur s0) (ps_curline_len s0) s1).
  { destruct (blank s0); [|apply KC_self]. destruct (last_opt (bkids cn)); [|apply KC_self].
    apply ng_sg; [auto with ngc|]. intros s1 E. eapply modify_info_KC; [exact E | apply KC_self]. }
  intros sa _ Ka.
  eapply sg_bind with (P := fun s1 => KC (ps_cur s0) (ps_curline_len s0) s1).
  { apply ng_sg; [auto with ngc|]. intros s1 E. eapply modify_info_KC; eassumption. }
  intros sb _ Kb.
  eapply sg_bind with (P := fun s1 => KC (ps_cur s0) (ps_curline_len s0) s1).
  { apply ng_sg; [auto with ngc|]. intros s1 E. eapply clear_llb_up_KC; eassumption. }
  intros sc _ Kc.
  apply sgb; [destruct (_ && _ && _ && _); nggo|]. intros lz _.
  destruct lz; [eapply sg_weaken; [apply ngc_add_line | auto]|].
  eapply sg_bind with (P := fun s1 => KC (ps_cur s0) (ps_curline_len s0) s1).
  { apply ng_sg; [apply ngc_finalize_up_to; allowed|]. intros s1 E. eapply finalize_up_to_KC; eassumption. }
  intros s _ K.
  apply sgb; [auto with ngc|]. intros c4 _.
  destruct F as (Fr & B & Ind & Bl & Len).
  assert (Ks : c_offset (ps_cur s) <= c_fns (ps_cur s) <= List.length line) by (destruct K as [-> _]; exact B).
  eapply sgb; [|intros; exact I].
  destruct (bval c4) eqn:Bv;
    try (destruct (blank s); [exact I|];
         match goal with |- ng _ _ (if ?b then _ else _) => destruct b end;
         [ apply ng_bind; [nggo|]; intros line1 _; unfold fns, offset;
           eapply sg_bind; [apply sg_sub; left; lia|]; intros count _ [-> _];
           destruct (Nat.leb _ _) eqn:Lb; [|exact I]; apply Nat.leb_le in Lb;
           eapply sg_bind; [apply adv_bytes_cur; lia|]; intros s5 _ _;
           apply ng_bind; [auto with ngc | intros; exact I]
         | eapply sg_bind; [apply add_child_kc|]; intros [pp s5] _ [K5 _]; cbn [fst snd] in *; unfold fns, offset;
           eapply sg_bind; [apply sg_sub; left; rewrite K5; lia|]; intros count _ [-> _];
           eapply sg_bind; [apply adv_bytes_cur; rewrite K5; lia|]; intros s6 _ _;
           apply ng_bind; [auto with ngc | intros; exact I] ]).
  - apply ng_bind; [auto with ngc | intros; exact I].
  - eapply sg_bind; [apply ng_sg; [apply ngc_add_line | intros a E; exact E]|]. intros s5 _ E5. cbv beta in E5.
    destruct (add_line_fns _ _ _ _ E5) as [Ef _]. unfold fns.
    eapply sg_bind; [apply sg_slice_from; left; rewrite Ef; lia|]. intros rest _ _.
    destruct (html_end_condition _ rest); [apply ngc_unwrap_parent; allowed | exact I].
Qed.

(* ================================================================== process_line *)
Lemma bom_inside line : lf_terminated line -> starts_with line bom_bytes = true -> 3 < List.length line.
Proof.
  intros [l El] S. apply starts_with_app in S. destruct S as [r Er]. subst line.
  destruct r as [|x r].
  - rewrite app_nil_r in Er. change bom_bytes with ([xef; xbb] ++ [xbf]) in Er. apply app_inj_tail in Er.
    destruct Er as [_ Er]. discriminate Er.
  - rewrite Er. unfold bom_bytes. cbn [app List.length]. lia.
Qed.

Lemma process_line_cur o st line0 : lf_terminated (norm_line line0) -> LI o st ->
  sgc (fun _ => True) (process_line o st line0).
Proof.
  intros LN L0. unfold process_line. cbv zeta.
  match goal with |- sg _ _ _ (bind (check_open_blocks o ?sa ?lx) _) =>
    assert (La : LI o sa) by (eapply LI_eqtree; [|exact L0]; repeat split); set (s_a := sa) in *; set (ln := lx) in * end.
  assert (Ca : C1 ln s_a).
  { unfold s_a, C1, C0. cbn [ps_cur st_cur st_line_number st_curline ps_curline_len c_offset].
    match goal with |- context [if ?b then 3 else 0] => destruct b eqn:Bm end.
    - apply andb_true_iff in Bm. destruct Bm as [Bm1 Bm2]. pose proof (bom_inside _ LN Bm2) as B3. fold ln in B3.
      split; [split; [apply CI_start; lia | reflexivity] | lia].
    - destruct (lf_last _ LN) as [_ L1]. fold ln in L1. split; [split; [apply CI_start; lia | reflexivity] | lia]. }
  destruct La as [Va Ha].
  eapply sg_bind_safe; [apply (check_open_blocks_spec o s_a ln Va) | apply check_open_blocks_cur; [exact LN | exact Ca] |].
  intros [r s1] _ K Kc. cbn [fst snd] in Kc.
  eapply sgb; [|intros; exact I].
  destruct r as [[lm am]|]; [|exact I]. cbn in K. destruct K as [T Hl]. pose proof (W_eqtree _ _ _ T Va) as V1.
  assert (H1 : has s1 (ps_current s1)) by (destruct T as (T1 & T2 & T3); unfold has in *; now rewrite T1, T3).
  cbv zeta.
  eapply sg_bind; [apply (open_new_blocks_cur o ln s1 lm am LN V1 Hl H1 Kc)|]. intros [c s2] _ C2. cbn [snd] in C2.
  destruct (Nat.eqb (ps_current s1) (ps_current s2)); [|exact I]. apply add_text_to_container_cur. exact C2.
Qed.

Lemma process_lines_cur o : forall ls st, Forall (fun l => lf_terminated (norm_line l)) ls -> LI o st ->
  ngc (process_lines o st ls).
Proof.
  induction ls as [|l r IH]; intros st Fa L0; cbn [process_lines]; [exact I|].
  inversion Fa as [|? ? Hl Hr]; subst.
  eapply sg_bind_safe; [apply (process_line_spec' o st l L0) | apply process_line_cur; assumption |].
  intros s1 _ L1 _. apply IH; assumption.
Qed.

Lemma finalize_document_ngc o st : ngc (finalize_document o st).
Proof.
  unfold finalize_document. apply ng_bind; [apply ngc_finalize_up_to; allowed|]. intros s1 _.
  apply ng_bind; [auto with ngc | intros; exact I].
Qed.

Lemma run_lines_cur o st ls : Forall (fun l => lf_terminated (norm_line l)) ls -> LI o st -> ngc (run_lines o st ls).
Proof.
  intros Fa L0. unfold run_lines. apply ng_bind; [now apply process_lines_cur|]. intros s1 _. apply finalize_document_ngc.
Qed.

Lemma front_matter_prologue_ngc o st s : ngc (front_matter_prologue o st s).
Proof.
  unfold front_matter_prologue. destruct (bo_front_matter_delimiter o); [|exact I].
  apply ng_bind; [auto with ngc|]. intros sp _. destruct sp as [[fm rest]|]; [|exact I].
  apply ng_bind; [auto with ngc|]. intros stripped _.
  apply ng_bind; [auto with ngc|]. intros [node s1] _.
  apply ng_bind; [apply ngc_unwrap_parent; allowed|]. intros r _.
  apply ng_bind; [auto with ngc | intros; exact I].
Qed.

Lemma lines_lf x : Forall (fun l => lf_terminated (norm_line l)) (lines x).
Proof.
  pose proof (norm_lines x) as N.
  induction (lines x) as [|l r IH]; constructor.
  - cbn [map] in N. inversion N as [[H1 H2]]. rewrite H1. now exists l.
  - apply IH. cbn [map] in N. now inversion N.
Qed.

Theorem parse_blocks_ngc o x : ngc (parse_blocks o x).
Proof.
  unfold parse_blocks.
  eapply sg_bind_safe; [apply (front_matter_prologue_spec o init_state x (LI_init o)) | apply front_matter_prologue_ngc |].
  intros [st rest] _ L0 _. cbn [fst] in L0.
  pose proof (lines_lf rest) as Fa.
  unfold lines in Fa. destruct (feed_lines rest) as [lines total]. cbn [fst] in Fa.
  apply ng_bind; [now apply run_lines_cur | intros; exact I].
Qed.

(* no cursor / line Panic site is reachable: every input, every option set *)
Theorem parse_blocks_no_cursor_panic o x s : In s cur_sites -> parse_blocks o x <> Panic s.
Proof. intro H. eapply sg_no_panic; [apply parse_blocks_ngc | exact H]. Qed.
