(* Proofs/XmlProofs.v — lemmas behind Props/C09.v, part 1: the audit tie, the escaper, totality,
   and "the model writes xml_write of the mirror tree". *)
From Coq Require Import List NArith Bool Lia Strings.String Arith PeanoNat.
From V Require Import Base.Bytes Base.Res Model.Ast Gen.NodesXml Model.Xml Spec.EscapeSpec Spec.XmlLex.
From V Require Import Gen.Tables Model.Escape Proofs.EscapeProofs.
Import ListNotations.
Local Open Scope list_scope.

(* ---------------------------------------------------------------- audit tie *)
Lemma format_node_audit_ok : format_node_audit = expected_format_node_audit.
Proof. reflexivity. Qed.

(* ---------------------------------------------------------------- escape *)
Definition xml_byte_ok (b : byte) : bool :=
  if xml_unsafe b then
    match xml_escape_arm b with Some e => bytes_eqb e (esc1_spec b) | None => false end
  else bytes_eqb (esc1_spec b) [b].

Lemma xml_byte_ok_all : forall b, xml_byte_ok b = true.
Proof. apply forall_bytes. vm_compute. reflexivity. Qed.

Lemma emit_st c y acc : emit c (rev y ++ acc) = rev (y ++ c) ++ acc.
Proof. unfold emit. rewrite rev_append_rev, rev_app_distr, app_assoc. reflexivity. Qed.

Lemma esc_st : forall s y acc,
  xml_escape_acc s (rev y ++ acc) = Ok (rev (y ++ escape_spec s) ++ acc).
Proof.
  induction s as [|b s IH]; intros y acc; cbn [xml_escape_acc escape_spec flat_map].
  - rewrite app_nil_r. reflexivity.
  - pose proof (xml_byte_ok_all b) as Hb. unfold xml_byte_ok in Hb.
    destruct (xml_unsafe b).
    + destruct (xml_escape_arm b) as [e|]; [|discriminate].
      apply bytes_eqb_eq in Hb. subst e. rewrite emit_st, IH.
      fold (escape_spec s). rewrite <- !app_assoc. reflexivity.
    + apply bytes_eqb_eq in Hb. rewrite Hb.
      change (b :: rev y ++ acc) with (rev [b] ++ rev y ++ acc).
      rewrite app_assoc, <- rev_app_distr, IH. fold (escape_spec s).
      rewrite <- !app_assoc. reflexivity.
Qed.

Lemma xml_escape_per_byte s : xml_escape s = Ok (escape_spec s).
Proof.
  unfold xml_escape. pose proof (esc_st s [] []) as H. cbn [rev app] in H. rewrite H. cbn [bind].
  rewrite rev_append_rev, !app_nil_r, rev_involutive. reflexivity.
Qed.

Lemma xml_escape_total s : exists o, xml_escape s = Ok o.
Proof. eexists. apply xml_escape_per_byte. Qed.

Lemma xml_escape_no_active s o : xml_escape s = Ok o -> forallb no_active_byte o = true.
Proof. rewrite xml_escape_per_byte. intro H. inversion H; subst. apply escape_no_active. Qed.

Lemma xml_escape_roundtrip s o : xml_escape s = Ok o -> xml_unescape o = Some s.
Proof. rewrite xml_escape_per_byte. intro H. inversion H; subst. apply unescape_escape. Qed.

(* decimal numbers pass through the escaper unchanged *)
Lemma digit_safe d : (d < 10)%N -> esc1_spec (byte_of_N (48 + d)) = [byte_of_N (48 + d)].
Proof.
  intro H. rewrite <- (Nnat.N2Nat.id d). assert (N.to_nat d < 10) as Hk by lia.
  clear H. revert Hk. generalize (N.to_nat d). intros k Hk.
  do 10 (destruct k as [|k]; [vm_compute; reflexivity|]). lia.
Qed.

Lemma esc_dec_aux : forall fuel n acc,
  escape_spec acc = acc -> escape_spec (dec_aux fuel n acc) = dec_aux fuel n acc.
Proof.
  induction fuel as [|f IH]; intros n acc Hacc; cbn [dec_aux]; [exact Hacc|].
  assert (escape_spec (byte_of_N (48 + n mod 10) :: acc) = byte_of_N (48 + n mod 10) :: acc) as H1.
  { cbn [escape_spec flat_map]. rewrite digit_safe by (apply N.mod_lt; discriminate).
    fold (escape_spec acc). rewrite Hacc. reflexivity. }
  destruct (n <? 10)%N; [exact H1 | apply IH; exact H1].
Qed.

Lemma esc_dec n : escape_spec (dec n) = dec n.
Proof. unfold dec. apply esc_dec_aux. reflexivity. Qed.

(* ---------------------------------------------------------------- the generic writer *)
(* attr_str (k, v) = SP k EQ QUOTE escape(v) QUOTE   (Proofs/EscapeProofs.v) *)
Definition s_close_gt_nl : bytes := [x3e; x0a].

Fixpoint xml_body (ind : nat) (x : xtree) : bytes :=
  match x with
  | XText n attrs t =>
    x3c :: n ++ flat_map attr_str attrs ++ [x3e] ++ escape_spec t ++ [x3c; x2f] ++ n ++ [x3e]
  | XElem n attrs cs =>
    match cs with
    | [] => x3c :: n ++ flat_map attr_str attrs ++ [x20; x2f; x3e]
    | _ :: _ =>
      x3c :: n ++ flat_map attr_str attrs ++ [x3e; x0a]
        ++ flat_map (fun c => indent_bytes (ind + 2) ++ xml_body (ind + 2) c ++ [x0a]) cs
        ++ indent_bytes ind ++ [x3c; x2f] ++ n ++ [x3e]
    end
  end.

Definition xml_write (ind : nat) (x : xtree) : bytes := indent_bytes ind ++ xml_body ind x ++ [x0a].

(* ---------------------------------------------------------------- names *)
Lemma spec_name_eq k : spec_name k = xml_node_name k.
Proof. destruct k; reflexivity. Qed.

(* ---------------------------------------------------------------- the arms *)
Definition is_lit (v : node_value) : bool := match spec_text v with Some _ => true | None => false end.

Definition arm_bytes (name : bytes) (v : node_value) (par gp : option node_value) (ix : nat) : bytes :=
  flat_map attr_str (spec_attrs v par gp ix) ++
  match spec_text v with
  | Some t => [x3e] ++ escape_spec t ++ [x3c; x2f] ++ name
  | None => []
  end.

Lemma literal_st name lit y acc :
  xml_literal name lit (rev y ++ acc) =
  Ok (rev (y ++ s_preserve_gt ++ escape_spec lit ++ s_close_open ++ name) ++ acc, true).
Proof.
  unfold xml_literal. rewrite emit_st, esc_st. cbn [bind]. rewrite !emit_st.
  rewrite <- !app_assoc. reflexivity.
Qed.

Lemma attr_esc_st pre v y acc :
  xml_attr_esc pre v (rev y ++ acc) = Ok (rev (y ++ pre ++ escape_spec v ++ s_quote) ++ acc).
Proof.
  unfold xml_attr_esc. rewrite emit_st, esc_st. cbn [bind]. rewrite emit_st.
  rewrite <- !app_assoc. reflexivity.
Qed.

Lemma cell_match {A} (p g : node_value) (F : node_table -> A) (D : A) :
  match p, g with TableRow true, Table t => F t | _, _ => D end =
  match header_table (Some p) (Some g) with Some t => F t | None => D end.
Proof. destruct p; try reflexivity. destruct header; try reflexivity. destruct g; reflexivity. Qed.

Ltac st_norm :=
  repeat (rewrite emit_st || rewrite esc_st || rewrite literal_st || rewrite attr_esc_st || cbn [bind]).

Ltac st_done :=
  st_norm;
  match goal with
  | |- Ok (rev ?a ++ ?acc, ?b) = Ok (rev ?c ++ ?acc, ?d) =>
    replace a with c; [reflexivity|]
  end;
  cbn [flat_map attr_str fst snd app];
  rewrite ?esc_dec; repeat (progress (cbn [app]; rewrite <- ?app_assoc)); reflexivity.

Lemma arm_st v par gp ix y acc :
  (match v with TableCell => cell_ok par gp ix = true | _ => True end) ->
  xml_arm (xml_node_name (kind_of v)) v (mkCtx par gp ix) (rev y ++ acc) =
  Ok (rev (y ++ arm_bytes (xml_node_name (kind_of v)) v par gp ix) ++ acc, is_lit v).
Proof.
  intro Hc. unfold arm_bytes, is_lit.
  destruct v; cbn [xml_arm spec_attrs spec_text kind_of c_parent c_grand c_ix];
    try (rewrite app_nil_r; reflexivity); try st_done.
  - (* NList *)
    destruct l as [ty mo pad start delim bul tight task]. cbn [l_type l_task l_tight l_start l_delim].
    destruct ty, task, delim, tight; st_done.
  - (* CodeBlock *)
    destruct cb as [fenced fc fl fo info lit]. cbn [cb_info cb_literal].
    destruct info as [|i0 info]; [st_done|].
    change (B "math") with s_math.
    destruct (bytes_eqb (i0 :: info) s_math); st_done.
  - (* TableCell *)
    destruct par as [p|]; [|discriminate]. destruct gp as [g|]; [|discriminate].
    rewrite cell_match. unfold cell_ok in Hc.
    destruct (header_table (Some p) (Some g)) as [t|]; [|rewrite app_nil_r; reflexivity].
    apply Nat.ltb_lt in Hc.
    destruct (nth_error (t_aligns t) ix) as [a|] eqn:E; [|apply nth_error_None in E; lia].
    destruct a; cbn [align_xml_name spec_align]; try (rewrite app_nil_r; reflexivity); st_done.
  - (* TaskItem *)
    destruct symbol; st_done.
  - (* Math *)
    destruct display; st_done.
  - (* Alert *)
    destruct a as [ty title ml fl fo]. cbn [a_type a_title a_multiline].
    destruct ty, title, ml; st_done.
Qed.

(* ---------------------------------------------------------------- entering, the whole node *)
Definition enter_bytes (o : opts) (v : node_value) (sp : sourcepos) (par gp : option node_value)
           (ix ind : nat) (has : bool) : bytes :=
  indent_bytes ind ++ [x3c] ++ xml_node_name (kind_of v) ++ flat_map attr_str (spec_sp_attr o sp) ++
  arm_bytes (xml_node_name (kind_of v)) v par gp ix ++
  (if has then [] else if is_lit v then [] else s_selfclose) ++ s_gt_nl.

Lemma esc_sourcepos sp : escape_spec (spec_sourcepos sp) = sourcepos_str sp.
Proof.
  unfold spec_sourcepos, sourcepos_str. rewrite !escape_spec_app, !esc_dec. reflexivity.
Qed.

Definition cell_pre (v : node_value) (par gp : option node_value) (ix : nat) : Prop :=
  match v with TableCell => cell_ok par gp ix = true | _ => True end.

Lemma enter_st o v sp par gp ix ind has y acc :
  cell_pre v par gp ix ->
  xml_enter o (mkCtx par gp ix) ind v sp has (rev y ++ acc) =
  Ok (rev (y ++ enter_bytes o v sp par gp ix ind has) ++ acc).
Proof.
  intro Hc. unfold xml_enter, enter_bytes, spec_sp_attr. rewrite !emit_st.
  destruct (o_sourcepos o && negb (sl sp =? 0)%N).
  - rewrite ?emit_st, (arm_st v par gp ix _ acc Hc). cbn [bind].
    cbn [flat_map]. unfold attr_str. cbn [fst snd]. rewrite esc_sourcepos.
    destruct has, (is_lit v); rewrite ?emit_st; f_equal; f_equal; f_equal;
      repeat (progress (cbn [app]; rewrite <- ?app_assoc)); reflexivity.
  - rewrite (arm_st v par gp ix _ acc Hc). cbn [bind].
    destruct has, (is_lit v); rewrite ?emit_st; f_equal; f_equal; f_equal;
      repeat (progress (cbn [app]; rewrite <- ?app_assoc)); reflexivity.
Qed.

Definition exit_bytes (ind : nat) (v : node_value) : bytes :=
  indent_bytes ind ++ s_close_open ++ xml_node_name (kind_of v) ++ s_gt_nl.

Lemma exit_st ind v y acc : xml_exit ind v (rev y ++ acc) = rev (y ++ exit_bytes ind v) ++ acc.
Proof. unfold xml_exit, exit_bytes. rewrite !emit_st. rewrite <- !app_assoc. reflexivity. Qed.

Definition flat_map_ix (f : nat -> node -> bytes) :=
  fix go (l : list node) (i : nat) : bytes :=
    match l with
    | [] => []
    | c :: r => f i c ++ go r (S i)
    end.

(* the bytes the model writes for a node, as a function (no shape assumption on literal kinds) *)
Fixpoint node_bytes (o : opts) (par gp : option node_value) (ix ind : nat) (n : node) : bytes :=
  match n with
  | Node v sp ch =>
    let has := match ch with [] => false | _ :: _ => true end in
    let ind' := if has then ind + 2 else ind in
    enter_bytes o v sp par gp ix ind has
    ++ flat_map_ix (fun i c => node_bytes o (Some v) par i ind' c) ch 0
    ++ (if has then exit_bytes ind v else [])
  end.

Lemma node_st o : forall t par gp ix ind y acc,
  cells_ok_at par gp ix t = true ->
  xml_node o par gp ix ind t (rev y ++ acc) = Ok (rev (y ++ node_bytes o par gp ix ind t) ++ acc).
Proof.
  induction t as [v sp ch IH] using node_ind2. intros par gp ix ind y acc Hc.
  cbn [cells_ok_at] in Hc. apply andb_true_iff in Hc. destruct Hc as [Hv Hch].
  cbn [xml_node node_bytes].
  set (has := match ch with [] => false | _ :: _ => true end).
  set (ind' := if has then ind + 2 else ind).
  rewrite enter_st by (unfold cell_pre; destruct v; try exact I; exact Hv).
  cbn [bind].
  assert (forall l i y0,
    Forall (fun t => forall par gp ix ind y acc, cells_ok_at par gp ix t = true ->
       xml_node o par gp ix ind t (rev y ++ acc) = Ok (rev (y ++ node_bytes o par gp ix ind t) ++ acc)) l ->
    forallb_ix (fun i c => cells_ok_at (Some v) par i c) l i = true ->
    xml_list (fun i c a => xml_node o (Some v) par i ind' c a) l i (rev y0 ++ acc) =
    Ok (rev (y0 ++ flat_map_ix (fun i c => node_bytes o (Some v) par i ind' c) l i) ++ acc)) as Hl.
  { induction l as [|c r IHr]; intros i y0 HF Hok; cbn [xml_list flat_map_ix].
    - rewrite app_nil_r. reflexivity.
    - inversion HF as [|? ? Hc Hr]; subst. cbn [forallb_ix] in Hok.
      apply andb_true_iff in Hok. destruct Hok as [Hok1 Hok2].
      rewrite (Hc _ _ _ _ _ _ Hok1). cbn [bind]. rewrite (IHr _ _ Hr Hok2).
      rewrite <- !app_assoc. reflexivity. }
  rewrite (Hl ch 0 _ IH Hch). cbn [bind].
  destruct has.
  - rewrite exit_st. rewrite <- !app_assoc. reflexivity.
  - rewrite app_nil_r, <- !app_assoc. reflexivity.
Qed.

Definition doc_bytes (o : opts) (t : node) : bytes := xml_prolog ++ node_bytes o None None 0 0 t.

Lemma xml_is_doc_bytes o t : cells_ok t = true -> xml o t = Ok (doc_bytes o t).
Proof.
  intro Hc. unfold xml, doc_bytes.
  pose proof (node_st o t None None 0 0 xml_prolog [] Hc) as H.
  unfold emit. rewrite rev_append_rev, app_nil_r.
  change (rev xml_prolog) with (rev xml_prolog ++ []).
  rewrite H. cbn [bind]. rewrite rev_append_rev, !app_nil_r, rev_involutive. reflexivity.
Qed.

Lemma xml_total o t : cells_ok t = true -> exists b, xml o t = Ok b.
Proof. intro H. eexists. apply xml_is_doc_bytes. exact H. Qed.

(* ---------------------------------------------------------------- model output = writer of the mirror *)
Lemma node_bytes_is_write o : forall t par gp ix ind,
  literal_leaves t = true ->
  node_bytes o par gp ix ind t = xml_write ind (tree_to_xtree_at o par gp ix t).
Proof.
  induction t as [v sp ch IH] using node_ind2. intros par gp ix ind Hl.
  cbn [literal_leaves] in Hl. apply andb_true_iff in Hl. destruct Hl as [Hv Hch].
  cbn [node_bytes tree_to_xtree_at]. unfold xml_write, enter_bytes, arm_bytes, is_lit.
  rewrite !(spec_name_eq (kind_of v)).
  destruct (spec_text v) as [t|] eqn:Et.
  - destruct ch as [|c r]; [|discriminate].
    cbn [flat_map_ix xml_body]. rewrite flat_map_app.
    repeat (progress (cbn [app]; rewrite <- ?app_assoc)). reflexivity.
  - destruct ch as [|c r].
    + cbn [flat_map_ix map_ix xml_body]. rewrite flat_map_app.
      repeat (progress (cbn [app]; rewrite <- ?app_assoc)). reflexivity.
    + remember (c :: r) as l eqn:El.
      assert (forall l i,
        Forall (fun t => forall par gp ix ind, literal_leaves t = true ->
                 node_bytes o par gp ix ind t = xml_write ind (tree_to_xtree_at o par gp ix t)) l ->
        forallb literal_leaves l = true ->
        flat_map_ix (fun i c => node_bytes o (Some v) par i (ind + 2) c) l i =
        flat_map (fun c => indent_bytes (ind + 2) ++ xml_body (ind + 2) c ++ [x0a])
                 (map_ix (fun i c => tree_to_xtree_at o (Some v) par i c) l i)) as Hk.
      { induction l0 as [|c0 r0 IHr]; intros i HF Hok; cbn [flat_map_ix map_ix flat_map]; [reflexivity|].
        inversion HF as [|? ? Hc Hr]; subst. cbn [forallb] in Hok.
        apply andb_true_iff in Hok. destruct Hok as [Hok1 Hok2].
        rewrite (Hc _ _ _ _ Hok1), (IHr _ Hr Hok2). unfold xml_write.
        rewrite <- !app_assoc. reflexivity. }
      rewrite (Hk l 0 IH Hch).
      assert (xml_body ind (XElem (xml_node_name (kind_of v)) (spec_sp_attr o sp ++ spec_attrs v par gp ix)
                (map_ix (fun i c => tree_to_xtree_at o (Some v) par i c) l 0)) =
              x3c :: xml_node_name (kind_of v) ++ flat_map attr_str (spec_sp_attr o sp ++ spec_attrs v par gp ix) ++ [x3e; x0a]
                ++ flat_map (fun c => indent_bytes (ind + 2) ++ xml_body (ind + 2) c ++ [x0a])
                            (map_ix (fun i c => tree_to_xtree_at o (Some v) par i c) l 0)
                ++ indent_bytes ind ++ [x3c; x2f] ++ xml_node_name (kind_of v) ++ [x3e]) as Hb.
      { subst l. reflexivity. }
      rewrite Hb. unfold exit_bytes. rewrite flat_map_app.
      repeat (progress (cbn [app]; rewrite <- ?app_assoc)). reflexivity.
Qed.

Lemma xml_is_write o t :
  shape_ok t = true -> xml o t = Ok (xml_prolog ++ xml_write 0 (tree_to_xtree o t)).
Proof.
  unfold shape_ok. intro H. apply andb_true_iff in H. destruct H as [Hc Hl].
  rewrite (xml_is_doc_bytes o t Hc). unfold doc_bytes, tree_to_xtree.
  rewrite node_bytes_is_write by exact Hl. reflexivity.
Qed.

(* ---------------------------------------------------------------- totality is exactly cells_ok *)
Lemma arm_ok_cell name par gp ix acc r :
  xml_arm name TableCell (mkCtx par gp ix) acc = Ok r -> cell_ok par gp ix = true.
Proof.
  cbn [xml_arm c_parent c_grand c_ix]. destruct par as [p|]; [|discriminate].
  destruct gp as [g|]; [|discriminate]. rewrite cell_match. unfold cell_ok.
  destruct (header_table (Some p) (Some g)) as [t|]; [|reflexivity].
  destruct (nth_error (t_aligns t) ix) as [a|] eqn:E; [|discriminate].
  intros _. apply Nat.ltb_lt. apply nth_error_Some. rewrite E. discriminate.
Qed.

Lemma node_ok_cells o : forall t par gp ix ind acc a,
  xml_node o par gp ix ind t acc = Ok a -> cells_ok_at par gp ix t = true.
Proof.
  induction t as [v sp ch IH] using node_ind2. intros par gp ix ind acc a H.
  cbn [xml_node] in H. cbn [cells_ok_at].
  destruct (xml_enter o (mkCtx par gp ix) ind v sp match ch with [] => false | _ :: _ => true end acc) as [a1| |] eqn:Ee;
    try discriminate.
  cbn [bind] in H.
  set (ind' := if match ch with [] => false | _ :: _ => true end then ind + 2 else ind) in *.
  destruct (xml_list (fun i c a => xml_node o (Some v) par i ind' c a) ch 0 a1) as [a2| |] eqn:El; try discriminate.
  apply andb_true_iff. split.
  - destruct v; try reflexivity. unfold xml_enter in Ee.
    match type of Ee with context [xml_arm ?n TableCell ?c ?x] => destruct (xml_arm n TableCell c x) eqn:Ea end;
      try discriminate.
    eapply arm_ok_cell. exact Ea.
  - clear Ee H. clearbody ind'. revert a1 a2 El. generalize 0 as i.
    induction ch as [|c r IHr]; intros i a1 a2 El; cbn [forallb_ix]; [reflexivity|].
    inversion IH as [|? ? Hc Hr]; subst. cbn [xml_list] in El.
    destruct (xml_node o (Some v) par i ind' c a1) as [a3| |] eqn:Ec; try discriminate.
    cbn [bind] in El. rewrite (Hc _ _ _ _ _ _ Ec). cbn [andb]. eapply IHr; [exact Hr | exact El].
Qed.

Lemma xml_ok_iff o t : (exists b, xml o t = Ok b) <-> cells_ok t = true.
Proof.
  split; [|apply xml_total].
  intros [b H]. unfold xml in H.
  destruct (xml_node o None None 0 0 t (emit xml_prolog [])) as [a| |] eqn:E; try discriminate.
  eapply node_ok_cells. exact E.
Qed.

(* witnesses: without the cell conditions the model panics *)
Definition sp0 : sourcepos := mkSp 0 0 0 0.
Definition orphan_cell : node := Node TableCell sp0 [].
Definition wide_header : node :=
  Node Document sp0
    [Node (Table (mkTable 1 1 1 [ALeft])) sp0
       [Node (TableRow true) sp0 [Node TableCell sp0 []; Node TableCell sp0 []]]].

Lemma xml_total_refuted :
  forall o, (exists s, xml o orphan_cell = Panic s) /\ (exists s, xml o wide_header = Panic s).
Proof.
  intro o. split; eexists.
  - unfold xml, orphan_cell. cbn [xml_node]. unfold xml_enter. cbn [xml_arm c_parent bind].
    destruct (o_sourcepos o && negb (sl sp0 =? 0)%N); reflexivity.
  - unfold xml, wide_header. cbn. reflexivity.
Qed.

(* ---------------------------------------------------------------- indentation *)
Lemma repeat_bytes_length n b : List.length (repeat_bytes n b) = n.
Proof. induction n as [|n IH]; [reflexivity|]. cbn [repeat_bytes List.length]. rewrite IH. reflexivity. Qed.

Lemma indent_capped ind : List.length (indent_bytes ind) <= 40 /\ forallb (beqb x20) (indent_bytes ind) = true.
Proof.
  unfold indent_bytes. rewrite repeat_bytes_length. split.
  - change max_indent with 40. lia.
  - induction (Nat.min ind max_indent) as [|n IH]; [reflexivity|]. cbn [repeat_bytes forallb]. exact IH.
Qed.

(* kinds are recoverable from element names *)
Definition names_distinct : bool :=
  forallb (fun a => forallb (fun b => implb (bytes_eqb (spec_name a) (spec_name b)) (kind_eqb a b)) all_kinds) all_kinds.

Lemma spec_name_injective a b : spec_name a = spec_name b -> a = b.
Proof.
  intro H. assert (names_distinct = true) as D by (vm_compute; reflexivity).
  unfold names_distinct in D. rewrite forallb_forall in D. specialize (D a (all_kinds_complete a)).
  rewrite forallb_forall in D. specialize (D b (all_kinds_complete b)).
  apply bytes_eqb_eq in H. rewrite H in D. cbn [implb] in D. apply kind_eqb_eq. exact D.
Qed.
