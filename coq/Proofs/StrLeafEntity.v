(* Proofs/StrLeafEntity.v — Model/Entity.v: totality, bounds, UTF-8 validity of unescape / unescape_html. *)
From Coq Require Import List NArith Bool Lia Arith.
From Coq Require Import Strings.String.
From V Require Import Base.Bytes Base.Res Gen.StrLeafGen Gen.Entities Spec.EscapeSpec Proofs.EscapeProofs.
From V Require Import Model.Entity Proofs.StrLeafEntityNum.
Import ListNotations.
Local Open Scope string_scope.
Local Open Scope list_scope.

(* ------------------------------------------------------------------ named entities *)
Lemma named_scan_spec : forall left s i j, named_scan s i left = Some j ->
  i <= j /\ j < i + left /\ j - i < List.length s /\ nth (j - i) s x00 = x3b.
Proof.
  induction left as [|l IH]; intros s i j H; destruct s as [|b r]; cbn [named_scan] in H; try discriminate.
  destruct (beqb b x20); [discriminate|].
  destruct (beqb b x3b) eqn:E.
  - inversion H; subst. rewrite Nat.sub_diag. cbn. apply beqb_eq in E. repeat split; try lia. exact E.
  - apply IH in H. destruct H as [H1 [H2 [H3 H4]]].
    replace (j - i) with (S (j - S i)) by lia. cbn [nth List.length]. repeat split; try lia. exact H4.
Qed.

Lemma firstn_S_nth_local : forall (l : bytes) n, n < List.length l -> firstn (S n) l = firstn n l ++ [nth n l x00].
Proof.
  induction l as [|x l IH]; intros n H; [simpl in H; lia|].
  destruct n; [reflexivity|]. cbn [firstn nth app]. f_equal. apply IH. simpl in H. lia.
Qed.

Lemma nth_skipn_local : forall (l : bytes) k n, nth n (skipn k l) x00 = nth (k + n) l x00.
Proof.
  induction l as [|x l IH]; intros k n.
  - rewrite skipn_nil. destruct n, k; reflexivity.
  - destruct k; [reflexivity|]. cbn [skipn plus nth]. apply IH.
Qed.

Definition entity_result_ok (text : bytes) (r : option (bytes * nat)) : Prop :=
  match r with
  | None => True
  | Some (chs, n) =>
    1 <= n /\ n <= List.length text /\ n <= entity_max_length /\ utf8_valid chs = true /\
    forallb is_ascii (firstn n text) = true
  end.

Lemma named_ok text : entity_result_ok text (named text).
Proof.
  unfold named. set (size := Nat.min (List.length text) entity_max_length).
  destruct (named_scan (skipn entity_min_length text) entity_min_length (size - entity_min_length)) as [j|] eqn:E; [|exact I].
  destruct (lookup (firstn j text)) as [e|] eqn:L; [|exact I].
  apply named_scan_spec in E. destruct E as [H1 [H2 [H3 H4]]].
  apply lookup_ok in L. destruct L as [La Lu].
  rewrite skipn_length in H3. rewrite nth_skipn_local in H4.
  unfold entity_min_length in *.
  assert (j < size) as Hj by lia.
  assert (j < List.length text /\ j < entity_max_length) as [Hjl Hjm] by (unfold size in Hj; lia).
  replace (2 + (j - 2)) with j in H4 by lia.
  cbn [entity_result_ok]. repeat split; try lia; [exact Lu|].
  rewrite firstn_S_nth_local by exact Hjl. rewrite forallb_app, La, H4. reflexivity.
Qed.

(* ------------------------------------------------------------------ unescape: totality and bounds *)
Theorem entity_unescape_total text : exists r, Entity.unescape text = Ok r /\ entity_result_ok text r.
Proof.
  unfold Entity.unescape.
  destruct text as [|t0 [|t1 [|t2 tl]]]; try (eexists; split; [reflexivity | apply named_ok]).
  set (text := t0 :: t1 :: t2 :: tl).
  destruct (beqb t0 x23) eqn:E0; [|eexists; split; [reflexivity | apply named_ok]].
  apply beqb_eq in E0.
  destruct (sl_isdigit t1) eqn:Ed.
  - (* decimal *)
    destruct (dec_digits_spec (skipn 1 text) 0 0%N) as [pre [rest [cp [H1 [H2 H3]]]]].
    rewrite H1. cbn [bind]. cbn [plus].
    destruct rest as [|c rest']; [eexists; split; [reflexivity | apply named_ok]|].
    destruct (beqb c x3b && in_digit_limit (beqb t1 x78 || beqb t1 x58) (List.length pre)) eqn:Ec;
      [|eexists; split; [reflexivity | apply named_ok]].
    eexists; split; [reflexivity|]. cbn [entity_result_ok].
    apply andb_true_iff in Ec. destruct Ec as [Ec El]. apply beqb_eq in Ec. subst c.
    assert (List.length pre <= 7) as Hn.
    { unfold in_digit_limit, entity_hex_digits, entity_dec_digits in El.
      apply orb_true_iff in El. destruct El as [El|El].
      - apply andb_true_iff in El. destruct El as [_ El]. apply Nat.leb_le in El. lia.
      - apply andb_true_iff in El. destruct El as [_ El]. apply Nat.leb_le in El. lia. }
    unfold text in H2. cbn in H2.
    assert (List.length (t1 :: t2 :: tl) = List.length pre + S (List.length rest')) as Hlen.
    { rewrite H2, app_length. reflexivity. }
    repeat split.
    + lia.
    + unfold text. cbn [List.length] in *. lia.
    + unfold entity_max_length. lia.
    + apply numeric_result_utf8.
    + unfold text. rewrite H2. cbn [plus]. rewrite !firstn_cons.
      replace (S (List.length pre)) with (List.length pre + 1) by lia.
      rewrite firstn_app_2. cbn [firstn forallb]. rewrite forallb_app, H3. subst t0. reflexivity.
  - destruct (beqb t1 x78 || beqb t1 x58) eqn:Ex.
    + (* hexadecimal *)
      destruct (hex_digits_spec (skipn 2 text) 0 0%N) as [pre [rest [cp [H1 [H2 H3]]]]].
      rewrite H1. cbn [bind]. cbn [plus].
      destruct rest as [|c rest']; [eexists; split; [reflexivity | apply named_ok]|].
      destruct (beqb c x3b && in_digit_limit true (List.length pre)) eqn:Ec;
        [|eexists; split; [reflexivity | apply named_ok]].
      eexists; split; [reflexivity|]. cbn [entity_result_ok].
      apply andb_true_iff in Ec. destruct Ec as [Ec El]. apply beqb_eq in Ec. subst c.
      assert (List.length pre <= 7) as Hn.
      { unfold in_digit_limit, entity_hex_digits, entity_dec_digits in El.
        apply orb_true_iff in El. destruct El as [El|El].
        - apply andb_true_iff in El. destruct El as [_ El]. apply Nat.leb_le in El. lia.
        - apply andb_true_iff in El. destruct El as [_ El]. apply Nat.leb_le in El. lia. }
      unfold text in H2. cbn in H2.
      assert (List.length (t2 :: tl) = List.length pre + S (List.length rest')) as Hlen.
      { rewrite H2, app_length. reflexivity. }
      assert (is_ascii t1 = true) as Ha1.
      { apply orb_true_iff in Ex. destruct Ex as [Ex|Ex]; apply beqb_eq in Ex; subst t1; reflexivity. }
      repeat split.
      * lia.
      * unfold text. cbn [List.length] in *. lia.
      * unfold entity_max_length. lia.
      * apply numeric_result_utf8.
      * unfold text. rewrite H2. cbn [plus]. rewrite !firstn_cons.
        replace (S (List.length pre)) with (List.length pre + 1) by lia.
        rewrite firstn_app_2. cbn [firstn forallb]. rewrite forallb_app, H3, Ha1. subst t0. reflexivity.
    + (* neither: i = 0, text[0] is the number sign *)
      cbn [bind]. unfold text at 1. subst t0. cbn [beqb andb]. 
      eexists; split; [reflexivity | apply named_ok].
Qed.

(* ------------------------------------------------------------------ unescape_html *)
Lemma html_loop_skip : forall s k, unescape_html_loop s k = unescape_html_loop (skipn k s) 0.
Proof.
  induction s as [|c r IH]; intros k.
  - rewrite skipn_nil. destruct k; reflexivity.
  - destruct k; [reflexivity|]. cbn [unescape_html_loop skipn]. apply IH.
Qed.

Lemma utf8_run_app_valid a : forall st b, utf8_run st a = true -> utf8_run st (a ++ b) = utf8_run U0 b.
Proof.
  induction a as [|x a IH]; intros st b H.
  - cbn in H. destruct st; try discriminate. reflexivity.
  - cbn [app utf8_run] in *. destruct (ustep st x); [apply IH, H | discriminate].
Qed.

Theorem unescape_html_total_utf8 : forall n s, List.length s <= n ->
  exists o, unescape_html_loop s 0 = Ok o /\
            forall st, utf8_run st s = true -> utf8_run st o = true.
Proof.
  induction n as [|n IH]; intros s Hn.
  - destruct s; [|simpl in Hn; lia]. exists []. split; [reflexivity | auto].
  - destruct s as [|c r]; [exists []; split; [reflexivity | auto]|].
    cbn [List.length] in Hn. cbn [unescape_html_loop].
    destruct (beqb c x26) eqn:Ec.
    + apply beqb_eq in Ec. subst c.
      destruct (entity_unescape_total r) as [e [He Hok]]. rewrite He. cbn [bind].
      destruct e as [[chs k]|].
      * cbn [entity_result_ok] in Hok. destruct Hok as [Hk1 [Hk2 [_ [Hu Ha]]]].
        rewrite html_loop_skip.
        destruct (IH (skipn k r)) as [o [Ho Hv]]; [rewrite skipn_length; lia|].
        rewrite Ho. cbn [res_map]. exists (chs ++ o). split; [reflexivity|].
        intros st H. cbn [utf8_run] in H.
        rewrite (ustep_ascii st x26 eq_refl) in H. destruct st; try discriminate.
        rewrite (utf8_run_app_valid chs U0 o Hu). apply Hv.
        rewrite <- (firstn_skipn k r) in H. rewrite utf8_run_ascii_prefix in H by exact Ha. exact H.
      * destruct (IH r) as [o [Ho Hv]]; [lia|]. rewrite Ho. cbn [res_map].
        exists (x26 :: o). split; [reflexivity|]. intros st H. cbn [utf8_run] in *.
        destruct (ustep st x26); [apply Hv, H | discriminate].
    + destruct (IH r) as [o [Ho Hv]]; [lia|]. rewrite Ho. cbn [res_map].
      exists (c :: o). split; [reflexivity|]. intros st H. cbn [utf8_run] in *.
      destruct (ustep st c); [apply Hv, H | discriminate].
Qed.

Theorem unescape_html_total s : exists o, unescape_html s = Ok o.
Proof. destruct (unescape_html_total_utf8 (List.length s) s (le_n _)) as [o [H _]]. exists o. exact H. Qed.

Theorem unescape_html_utf8 s o : unescape_html s = Ok o -> utf8_valid s = true -> utf8_valid o = true.
Proof.
  intros H V. destruct (unescape_html_total_utf8 (List.length s) s (le_n _)) as [o' [H' Hv]].
  unfold unescape_html in H. rewrite H' in H. inversion H; subst. apply Hv, V.
Qed.
