(* Proofs/ParseCells.v — C04, tree clause, for the ONE function Model/Parse.parse_document_model, WITHOUT premise:

     parse_valid                  structurally_valid t for every tree t the parser model returns
                                  (= ParseValid.parse_valid_cells + ParseCellsWalk.parse_blocks_cells)
     parse_validator_accepts      the validator (Spec.Valid.validate, the model of nodes::Node::validate) accepts it
     parse_formatters_total       the HTML and the XML renderer models return Ok on it
     parse_valid_report_true      the executable report of Spec/ParseValidSpec.v answers (true, true) whenever it answers

   NO Model file is changed. *)
From Coq Require Import List NArith Arith Bool Strings.String.
From V Require Import Base.Bytes Base.Res Model.Ast Model.Blocks Model.Inlines Model.Parse Model.Html Model.Xml
  Spec.Valid Spec.ParseValidSpec Proofs.ValidProofs Proofs.ParseValid Proofs.ParseCellsRow Proofs.ParseCellsWalk.
Import ListNotations.
Local Open Scope list_scope.

Theorem parse_valid o u x t : parse_document_model o u x = Ok t -> structurally_valid t = true.
Proof.
  intro H. destruct (parse_valid_cells _ _ _ _ H) as (r & B & C). apply C. exact (parse_blocks_cells _ _ _ B).
Qed.

Theorem parse_validator_accepts o u x t : parse_document_model o u x = Ok t -> validate t = None.
Proof.
  intro H. apply valid_iff_validate. pose proof (parse_valid _ _ _ _ H) as V.
  rewrite structurally_valid_reduced in V. rewrite !andb_true_iff in V. apply V.
Qed.

Theorem parse_formatters_total o u x t slug ro :
  parse_document_model o u x = Ok t -> (exists b, html slug ro t = Ok b) /\ (exists b, xml ro t = Ok b).
Proof. intro H. apply structurally_valid_formatters. exact (parse_valid _ _ _ _ H). Qed.

Theorem parse_valid_report_true o u x c v : parse_valid_report o u x = Some (c, v) -> c = true /\ v = true.
Proof.
  unfold parse_valid_report.
  destruct (parse_blocks (bopts_of o u) x) as [r| |] eqn:B; try discriminate.
  destruct (parse_document_model o u x) as [t| |] eqn:P; try discriminate.
  intro H. inversion H; subst. split; [exact (parse_blocks_cells _ _ _ B) | exact (parse_valid _ _ _ _ P)].
Qed.
