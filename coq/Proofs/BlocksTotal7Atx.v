(* Proofs/BlocksTotal7Atx.v — totality of the block phase, seventh round: the site

     strings.rs:chop_trailing_hashtags:line.len() - 1

   alA = but atx_sites.  chop_trailing_hashtags panics there iff every byte of its argument is white space
   (rtrim_slice s = []); a '#' in the argument suffices.  Its one caller, add_text_to_container, hands it the whole
   line when the container is an ATX heading (Heading _ false).  With PI c st := "no node with identifier c is an ATX
   heading" (Proofs/BlocksTotal7AtxInv.v: a node-wise clause of the tree kept by every function of the block phase
   except handle_atx_heading, which needs position_hash = Some, i.e. a '#' in the line):
     - check_open_blocks answers the root (a Document: R0, NI), a node whose prefix matched (check_container never
       matches a Heading) or the parent of the unmatched node (a node with a child: no Heading, by containment SV and
       ball); pairwise distinct identifiers (TI) turn these facts about ONE node into PI (PI_intro);
     - on a line without '#' every handler answers the same container or a node with a fresh identifier
       (PI_fresh, then the frame) that is no ATX heading; parse_desc_list_details may answer the parent of the
       paragraph, again a node with a child; try_opening_block answers the same container or a fresh Table/TableRow;
     - add_text_to_container: ffn / modify_info / clear_llb_up / finalize_up_to keep PI c, so the container read
       after them is no ATX heading unless the line has a '#'.
   Everything else is the unconditional walk (the add_child site is allowed in this walk). *)
From Coq Require Import List NArith Arith Bool Lia Strings.String.
From V Require Import Base.Bytes Base.Res Gen.Nodes Gen.BlocksConst Gen.FeedConst Model.Ast Model.Strings Model.Entity Model.LinkUrl Model.ListMarker
  Model.Feed Model.FrontMatter Model.RefDef Model.Scan Model.Blocks Spec.EscapeSpec Spec.Shape Spec.Valid
  Proofs.StrLeafProofs Proofs.StrLeafEntity Proofs.StrLeafParse Proofs.BlocksProofs Proofs.BlocksCursor Proofs.BlocksTight Proofs.BlocksTotal
  Proofs.ParserShapeBlocks Proofs.ParserShapeTree Proofs.ParserShapeTabPrim Proofs.ParserShapeTables
  Proofs.BlocksTotal2Safe Proofs.BlocksTotal2Root Proofs.BlocksTotal3Cur Proofs.BlocksTotal4Safe Proofs.BlocksTotal4Frame Proofs.BlocksTotal7AtxInv.
From V Require Proofs.BlocksTotal4Row Proofs.BlocksTotal4Scan Proofs.BlocksTotal4Fuel Proofs.BlocksTotal2Tree Proofs.BlocksTotal4Spine.
Import ListNotations.
Local Open Scope string_scope.
Local Open Scope list_scope.

Definition atx_sites : list string := [ "strings.rs:chop_trailing_hashtags:line.len() - 1" ].

Definition alA : string -> bool := but atx_sites.
Notation ngA := (ng alA true).

Ltac allowed := vm_compute; reflexivity.

Create HintDb ngA.

Ltac ngstep :=
  match goal with
  | |- ng _ _ (bind ?r _) => apply ng_bind; [ try solve [auto with ngA] | intros ]
  | |- ng _ _ (Ok _) => exact I
  | |- ng _ _ OutOfFuel => reflexivity
  | |- ng _ _ (Panic _) => first [assumption | allowed]
  | |- ng _ _ no_node => allowed
  | |- ng _ _ (not_handled _ _) => exact I
  | |- ng _ _ (res_map _ _) => apply ng_res_map
  | |- ng _ _ (if ?b then _ else _) => destruct b
  | |- ng _ _ (match ?x with _ => _ end) => destruct x
  | |- ng _ _ (let (_, _) := ?x in _) => destruct x
  end.
Ltac nggo := repeat ngstep; auto with ngA.

Lemma ngA_idx site l i : alA site = true -> ngA (idx site l i).
Proof. intro H. apply ng_idx. now right. Qed.
Lemma ngA_sub site a b : alA site = true -> ngA (sub site a b).
Proof. intro H. apply ng_sub. now right. Qed.
Lemma ngA_slice_from site l i : alA site = true -> ngA (Blocks.slice_from site l i).
Proof. intro H. apply ng_slice_from. now right. Qed.
Lemma ngA_from_utf8 site b : alA site = true -> ngA (from_utf8 site b).
Proof. intro H. apply ng_from_utf8. now right. Qed.
#[export] Hint Extern 1 (ng _ _ (idx _ _ _)) => (apply ngA_idx; first [assumption | allowed]) : ngA.
#[export] Hint Extern 1 (ng _ _ (sub _ _ _)) => (apply ngA_sub; first [assumption | allowed]) : ngA.
#[export] Hint Extern 1 (ng _ _ (Blocks.slice_from _ _ _)) => (apply ngA_slice_from; first [assumption | allowed]) : ngA.
#[export] Hint Extern 1 (ng _ _ (from_utf8 _ _)) => (apply ngA_from_utf8; first [assumption | allowed]) : ngA.

(* ---- leaf functions: total for all arguments *)
Lemma ngA_trim s : ngA (Strings.trim s). Proof. rewrite trim_ok. exact I. Qed.
Lemma ngA_rtrim s : ngA (Strings.rtrim s). Proof. rewrite rtrim_ok. exact I. Qed.
Lemma ngA_unescape s : ngA (Strings.unescape s). Proof. rewrite unescape_is_spec. exact I. Qed.
Lemma ngA_unescape_html s : ngA (unescape_html s). Proof. apply ng_ex. apply unescape_html_total. Qed.
Lemma ngA_manual_scan_link_url s : ngA (manual_scan_link_url s).
Proof. apply ng_ex. destruct (manual_scan_link_url_total s) as [r [E _]]. exists r. exact E. Qed.
Lemma ngA_row s sp : ngA (row s sp). Proof. apply ng_ex. apply BlocksTotal4Row.row_total. Qed.
Lemma ngA_table_matches s sp : ngA (table_matches s sp). Proof. apply ng_ex. apply BlocksTotal4Row.table_matches_total. Qed.
#[export] Hint Resolve ngA_trim ngA_rtrim ngA_unescape ngA_unescape_html ngA_manual_scan_link_url ngA_row ngA_table_matches : ngA.

(* ---- leaf functions with sites of their own *)
Lemma ngA_remove_trailing_blank_lines s : ngA (remove_trailing_blank_lines s).
Proof. unfold remove_trailing_blank_lines. nggo. Qed.
(* chop_trailing_hashtags panics at its first site iff every byte is white space *)
Lemma drop_while_nil p : forall s, drop_while p s = [] -> forall b, In b s -> p b = true.
Proof.
  induction s as [|a r IH]; intros H b Hb; [destruct Hb|]. cbn [drop_while] in H.
  destruct (p a) eqn:E; [|discriminate H]. destruct Hb as [<-|Hb]; [exact E | now apply IH].
Qed.
Lemma rtrim_slice_nonempty s b : In b s -> StrLeafGen.sl_isspace b = false -> rtrim_slice s <> [].
Proof.
  intros Hb Hs E. unfold rtrim_slice in E. apply (f_equal (@rev byte)) in E. rewrite rev_involutive in E. cbn [rev] in E.
  pose proof (drop_while_nil _ _ E b) as K. rewrite K in Hs; [discriminate Hs|]. now apply in_rev in Hb.
Qed.
Lemma ngA_chop_trailing_hashtags s : In x23 s -> ngA (chop_trailing_hashtags s).
Proof.
  intro H. unfold chop_trailing_hashtags. rewrite rtrim_ok. cbn [bind fst]. cbv zeta.
  destruct (rtrim_slice s) as [|x r] eqn:R; [exfalso; eapply rtrim_slice_nonempty; [exact H | reflexivity | exact R]|].
  nggo.
Qed.
#[export] Hint Extern 1 (ng _ _ (chop_trailing_hashtags _)) => (apply ngA_chop_trailing_hashtags; assumption) : ngA.
Lemma ngA_clean_url s : ngA (clean_url s). Proof. unfold clean_url. nggo. Qed.
(* clean_title panics on a title of length 1 only (Props/StrLeaf.v); its one caller hands it a scan_link_title match *)
Lemma ngA_clean_title s : List.length s <> 1 -> ngA (clean_title s).
Proof. intro H. apply ng_ex. now apply clean_title_total. Qed.
#[export] Hint Resolve ngA_remove_trailing_blank_lines ngA_clean_url : ngA.
Lemma scan_link_title_ge s m : scan_link_title s = Some m -> 2 <= m.
Proof. BlocksTotal4Scan.scan_ge. Qed.
Lemma scan_link_title_le s m : scan_link_title s = Some m -> m <= List.length s.
Proof. intro H. eapply as_opt_usize_cursor_le; [|exact H]. vm_compute. reflexivity. Qed.
(* line_at: bytes[end..] is inside the string as long as the start is; split_off_front_matter starts at 0 and goes on
   from the `next` of the line before *)
Lemma sgA_fm_line_at s k : k <= List.length s -> sg alA true (fun r => snd r <= List.length s) (fm_line_at s k).
Proof.
  intro H. unfold fm_line_at. pose proof (BlocksTotal4Fuel.scan_line_end_bounds (skipn k s) k) as B. rewrite skipn_length in B.
  set (e := scan_line_end (skipn k s) k) in *. unfold byte_slice_from.
  destruct (Nat.leb e (List.length s)) eqn:L; [|apply Nat.leb_gt in L; lia]. apply Nat.leb_le in L. cbn [bind].
  unfold fm_slice. destruct (_ && _ && _); [cbn [bind sg snd] | allowed].
  destruct (starts_with (skipn e s) fm_crlf) eqn:Sw.
  - apply starts_with_app in Sw. destruct Sw as [r Er]. apply (f_equal (@List.length byte)) in Er.
    rewrite skipn_length, app_length in Er. change (List.length fm_crlf) with 2 in Er. lia.
  - destruct (Nat.ltb e (List.length s)) eqn:Lt; [apply Nat.ltb_lt in Lt; lia | lia].
Qed.
Lemma sgA_find_closing_line : forall fuel s d e, e <= List.length s ->
  sg alA true (fun c => match c with Some e' => e' <= List.length s | None => True end) (find_closing_line fuel s d e).
Proof.
  induction fuel as [|f IH]; intros s d e H; cbn [find_closing_line]; [reflexivity|].
  destruct (Nat.eqb e (List.length s)); [exact I|].
  eapply sg_bind; [now apply sgA_fm_line_at|]. intros ln _ Hn.
  destruct (bytes_eqb (fst ln) d); [exact Hn | now apply IH].
Qed.
Lemma ngA_split_off_front_matter s d : ngA (split_off_front_matter s d).
Proof.
  unfold split_off_front_matter, slice_to, FrontMatter.slice_from.
  eapply sg_bind; [apply sgA_fm_line_at; lia|]. intros l0 _ H0.
  destruct (_ || _); [exact I|].
  eapply sg_bind; [now apply sgA_find_closing_line|]. intros [e|] _ He; [|exact I].
  eapply sg_bind; [now apply sgA_fm_line_at|]. intros l1 _ _. cbv zeta. match goal with |- sg ?a ?f _ ?r => change (ng a f r) end. nggo.
Qed.
#[export] Hint Resolve ngA_split_off_front_matter : ngA.
Lemma ngA_peek s p : ngA (peek s p). Proof. unfold peek. nggo. Qed.
#[export] Hint Resolve ngA_peek : ngA.
Lemma ngA_skip_spaces : forall s, ngA (skip_spaces s).
Proof. induction s as [|c r IH]; cbn [skip_spaces]; nggo. Qed.
#[export] Hint Resolve ngA_skip_spaces : ngA.
Lemma ngA_skip_line_end s p : ngA (skip_line_end s p). Proof. unfold skip_line_end. nggo. Qed.
#[export] Hint Resolve ngA_skip_line_end : ngA.
Lemma ngA_spnl s p : ngA (spnl s p). Proof. unfold spnl. nggo. Qed.
#[export] Hint Resolve ngA_spnl : ngA.
Lemma ngA_label_loop : forall fuel s pos len c, ngA (label_loop fuel s pos len c).
Proof. induction fuel as [|f IH]; intros s pos len c; cbn [label_loop]; nggo. Qed.
#[export] Hint Resolve ngA_label_loop : ngA.
Lemma ngA_link_label s : ngA (link_label s). Proof. unfold link_label. nggo. Qed.
#[export] Hint Resolve ngA_link_label : ngA.
Lemma ngA_parse_reference_inline fold m s : ngA (parse_reference_inline fold m s).
Proof.
  unfold parse_reference_inline.
  apply ng_bind; [auto with ngA|]. intros [[lab pos]|] _; [|exact I]. destruct lab as [|l0 lab]; [exact I|].
  apply ng_bind; [auto with ngA|]. intros [c|] _; [|exact I]. destruct (negb (beqb c x3a)); [exact I|]. cbv zeta.
  apply ng_bind; [auto with ngA|]. intros pos1 _.
  apply ng_bind; [auto with ngA|]. intros [[url matchlen]|] _; [|exact I].
  apply ng_bind; [auto with ngA|]. intros pos2 _.
  match goal with |- ng _ _ (let '(title, pos) := ?tp in _) =>
    assert (HT : List.length (fst tp) <> 1); [|destruct tp as [title pos3]; cbn [fst] in HT] end.
  { destruct (Nat.eqb pos2 (pos1 + matchlen)); [cbn; lia|].
    destruct (scan_link_title (skipn pos2 s)) as [ml|] eqn:Sc; [|cbn; lia].
    pose proof (scan_link_title_ge _ _ Sc). pose proof (scan_link_title_le _ _ Sc). cbn [fst]. rewrite firstn_length. lia. }
  apply ng_bind; [auto with ngA|]. intros n _.
  apply ng_bind; [auto with ngA|]. intros [p1 ok] _.
  eapply sg_bind with (P := fun fin : option (nat * bytes) => match fin with Some (_, t) => List.length t <> 1 | None => True end).
  { destruct ok; [exact HT|]. destruct title; [exact I|].
    apply sgb; [auto with ngA|]. intros n2 _. apply sgb; [auto with ngA|]. intros [p2 ok2] _.
    destruct ok2; cbn [sg List.length]; [lia | exact I]. }
  intros [[posf t]|] _ Hf; [|exact I].
  destruct (normalize_label fold (l0 :: lab) true); [exact I|].
  apply ng_bind; [auto with ngA|]. intros cu _.
  apply ng_bind; [now apply ngA_clean_title|]. intros ct _. nggo.
Qed.
#[export] Hint Resolve ngA_parse_reference_inline : ngA.
Lemma ngA_resolve_loop fold : forall fuel m seek seeked, ngA (resolve_loop fuel fold m seek seeked).
Proof. induction fuel as [|f IH]; intros m seek seeked; cbn [resolve_loop]; nggo. Qed.
#[export] Hint Resolve ngA_resolve_loop : ngA.
Lemma ngA_resolve_refdefs fold m c : ngA (resolve_refdefs fold m c).
Proof. unfold resolve_refdefs. nggo. Qed.
#[export] Hint Resolve ngA_resolve_refdefs : ngA.
Lemma ngA_copy_line_offsets : forall n lo k, ngA (copy_line_offsets n lo k).
Proof. induction n as [|m IH]; intros lo k; cbn [copy_line_offsets]; nggo. Qed.
Lemma ngA_header_cells : forall cells id ln sl sc po, ngA (header_cells cells id ln sl sc po).
Proof. induction cells as [|c r IH]; intros; cbn [header_cells]; nggo. Qed.
Lemma ngA_row_cells : forall n cells id ln sc lc, ngA (row_cells n cells id ln sc lc).
Proof. induction n as [|m IH]; intros cells id ln sc lc; destruct cells; cbn [row_cells]; nggo. Qed.
#[export] Hint Resolve ngA_copy_line_offsets ngA_header_cells ngA_row_cells : ngA.
Lemma ngA_parse_html_block_prefix st t : ngA (parse_html_block_prefix st t).
Proof. unfold parse_html_block_prefix. nggo. Qed.
#[export] Hint Resolve ngA_parse_html_block_prefix : ngA.
Lemma ngA_after_spaces : forall s, ngA (after_spaces s).
Proof. induction s as [|b r IH]; cbn [after_spaces]; nggo. Qed.
Lemma ngA_digits_loop : forall left s start digits, ngA (digits_loop left s start digits).
Proof.
  induction left as [|l IH]; intros s start digits; destruct s as [|d r]; cbn [digits_loop]; try allowed.
  - destruct (N.ltb _ _); [allowed | exact I].
  - destruct (N.ltb _ _); [allowed|]. destruct l; [exact I|]. destruct r as [|e r']; [allowed|].
    destruct (StrLeafGen.sl_isdigit e); [apply IH | exact I].
Qed.
#[export] Hint Resolve ngA_after_spaces ngA_digits_loop : ngA.
Lemma ngA_parse_list_marker line pos ip : ngA (parse_list_marker line pos ip).
Proof. unfold parse_list_marker. nggo. Qed.
#[export] Hint Resolve ngA_parse_list_marker : ngA.
Lemma ngA_alert_title_loop line : forall fuel pos fl, ngA (alert_title_loop fuel line pos fl).
Proof. induction fuel as [|f IH]; intros pos fl; cbn [alert_title_loop]; nggo. Qed.
Lemma ngA_count_hashes : forall s, ngA (count_hashes s).
Proof. induction s as [|b r IH]; cbn [count_hashes]; nggo. Qed.
#[export] Hint Resolve ngA_alert_title_loop ngA_count_hashes : ngA.

(* ---- the cursor *)
Lemma ngA_find_first_nonspace c line : ngA (find_first_nonspace c line).
Proof. unfold find_first_nonspace. destruct (if Nat.leb _ _ then _ else _) as [f fc]. nggo. Qed.
Lemma ngA_advance_loop line columns : forall fuel off col pct count, ngA (advance_loop fuel line off col pct count columns).
Proof. induction fuel as [|f IH]; intros off col pct count; destruct count; cbn [advance_loop]; nggo. Qed.
#[export] Hint Resolve ngA_find_first_nonspace ngA_advance_loop : ngA.
Lemma ngA_advance_offset c line count columns : ngA (advance_offset c line count columns).
Proof. unfold advance_offset. nggo. Qed.
#[export] Hint Resolve ngA_advance_offset : ngA.
Lemma ngA_adv st line n b : ngA (adv st line n b). Proof. unfold adv. nggo. Qed.
Lemma ngA_ffn st line : ngA (ffn st line). Proof. unfold ffn. nggo. Qed.
#[export] Hint Resolve ngA_adv ngA_ffn : ngA.
Lemma ngA_skip_one_space st line site : alA site = true -> ngA (skip_one_space st line site).
Proof. intro H. unfold skip_one_space. nggo. Qed.
Lemma ngA_skip_fence_offset line site : alA site = true -> forall i st, ngA (skip_fence_offset i st line site).
Proof. intro H. induction i as [|j IH]; intro st; cbn [skip_fence_offset]; nggo. Qed.
Lemma ngA_list_spaces_loop line sc : forall fuel st, ngA (list_spaces_loop fuel st line sc).
Proof. induction fuel as [|f IH]; intro st; cbn [list_spaces_loop]; nggo. Qed.
#[export] Hint Resolve ngA_list_spaces_loop : ngA.
#[export] Hint Extern 1 (ng _ _ (skip_one_space _ _ _)) => (apply ngA_skip_one_space; first [assumption | allowed]) : ngA.
#[export] Hint Extern 1 (ng _ _ (skip_fence_offset _ _ _ _)) => (apply ngA_skip_fence_offset; first [assumption | allowed]) : ngA.

(* ---- tree primitives *)
Lemma ngA_get st x : ngA (get st x).
Proof. unfold get. destruct (find_node x (ps_root st)); [exact I | allowed]. Qed.
Lemma ngA_modify st x f : ngA (modify st x f).
Proof. unfold modify. destruct (upd x f (ps_root st)); [exact I | allowed]. Qed.
Lemma ngA_modify_info st x f : ngA (modify_info st x f).
Proof. apply ngA_modify. Qed.
Lemma ngA_bdetach st x : ngA (bdetach st x).
Proof. unfold bdetach. destruct (edit_kids _ _ _); exact I. Qed.
Lemma ngA_retighten st p : ngA (retighten st p).
Proof. apply ng_ex. apply retighten_total. Qed.
#[export] Hint Resolve ngA_get ngA_modify ngA_modify_info ngA_bdetach ngA_retighten : ngA.
Lemma ngA_append_child st p c : ngA (append_child st p c).
Proof. apply ngA_modify. Qed.
Lemma ngA_last_child st x : ngA (last_child st x). Proof. unfold last_child. nggo. Qed.
#[export] Hint Resolve ngA_append_child ngA_last_child : ngA.
Lemma ngA_last_child_is_open st x : ngA (last_child_is_open st x).
Proof. unfold last_child_is_open. nggo. Qed.
#[export] Hint Resolve ngA_last_child_is_open : ngA.
Lemma ngA_finalize o st id : ngA (finalize o st id).
Proof. unfold finalize. nggo. Qed.
#[export] Hint Resolve ngA_finalize : ngA.
Lemma ngA_unwrap_parent site o st id : alA site = true -> ngA (unwrap_parent site (finalize o st id)).
Proof. intro H. unfold unwrap_parent. nggo. Qed.
#[export] Hint Extern 1 (ng _ _ (unwrap_parent _ _)) => (apply ngA_unwrap_parent; first [assumption | allowed]) : ngA.

(* ================================================================== add_child: its site is allowed here *)
Lemma ngA_add_child_loop o k : forall fuel st parent, ngA (add_child_loop fuel o st parent k).
Proof. induction fuel as [|f IH]; intros st parent; cbn [add_child_loop]; nggo. Qed.
#[export] Hint Resolve ngA_add_child_loop : ngA.
Lemma ngA_add_child_gen o st parent v col post kids : ngA (add_child_gen o st parent v col post kids).
Proof. unfold add_child_gen. nggo. Qed.
Lemma ngA_add_child o st parent v col : ngA (add_child o st parent v col).
Proof. apply ngA_add_child_gen. Qed.
#[export] Hint Resolve ngA_add_child_gen ngA_add_child : ngA.
Lemma ngA_clear_llb_up : forall fuel st id, ngA (clear_llb_up fuel st id).
Proof. induction fuel as [|f IH]; intros st id; cbn [clear_llb_up]; nggo. Qed.
Lemma ngA_finalize_up_to o target site : alA site = true -> forall fuel st, ngA (finalize_up_to fuel o st target site).
Proof. intro H. induction fuel as [|f IH]; intros st; cbn [finalize_up_to]; nggo. Qed.
Lemma ngA_reopen : forall fuel st id, ngA (reopen_ast_nodes fuel st id).
Proof. induction fuel as [|f IH]; intros st id; cbn [reopen_ast_nodes]; nggo. Qed.
#[export] Hint Resolve ngA_clear_llb_up ngA_reopen : ngA.
#[export] Hint Extern 1 (ng _ _ (finalize_up_to _ _ _ _ _)) => (apply ngA_finalize_up_to; first [assumption | allowed]) : ngA.

Lemma ngA_parse_desc_list_details o st c m : ngA (parse_desc_list_details o st c m).
Proof. unfold parse_desc_list_details. nggo. Qed.
#[export] Hint Resolve ngA_parse_desc_list_details : ngA.
Lemma ngA_try_inserting st c po : ngA (try_inserting_table_header_paragraph st c po).
Proof. unfold try_inserting_table_header_paragraph. nggo. Qed.
#[export] Hint Resolve ngA_try_inserting : ngA.
Lemma ngA_add_line st id line : ngA (add_line st id line).
Proof. unfold add_line. nggo. Qed.
#[export] Hint Resolve ngA_add_line : ngA.

(* ---- check_open_blocks *)
Lemma ngA_is_not_greentext o st line : ngA (is_not_greentext o st line).
Proof. unfold is_not_greentext. nggo. Qed.
#[export] Hint Resolve ngA_is_not_greentext : ngA.
Lemma ngA_pbq o st line : ngA (parse_block_quote_prefix o st line).
Proof. unfold parse_block_quote_prefix. nggo. Qed.
Lemma ngA_pfn st line : ngA (parse_footnote_definition_block_prefix st line).
Proof. unfold parse_footnote_definition_block_prefix. nggo. Qed.
Lemma ngA_pip st line c mo pad : ngA (parse_item_prefix st line c mo pad).
Proof. unfold parse_item_prefix. nggo. Qed.
#[export] Hint Resolve ngA_pbq ngA_pfn ngA_pip : ngA.
Lemma ngA_pcbp o st line cid cb : ngA (parse_code_block_prefix o st line cid cb).
Proof. unfold parse_code_block_prefix. nggo. Qed.
Lemma ngA_pmbq o st line cid fl fo : ngA (parse_multiline_block_quote_prefix o st line cid fl fo).
Proof. unfold parse_multiline_block_quote_prefix. nggo. Qed.
#[export] Hint Resolve ngA_pcbp ngA_pmbq : ngA.
Lemma ngA_check_container o st line c : ngA (check_container o st line c).
Proof. unfold check_container. destruct (bval c); nggo. Qed.
#[export] Hint Resolve ngA_check_container : ngA.
Lemma ngA_cobi o line : forall fuel st c, ngA (check_open_blocks_inner fuel o st line c).
Proof. induction fuel as [|f IH]; intros st c; cbn [check_open_blocks_inner]; nggo. Qed.
#[export] Hint Resolve ngA_cobi : ngA.
Lemma ngA_check_open_blocks o st line : ngA (check_open_blocks o st line).
Proof. unfold check_open_blocks. nggo. Qed.
#[export] Hint Resolve ngA_check_open_blocks : ngA.

(* ---- open_new_blocks *)
Lemma ngA_try_opening_header o st c line : ngA (try_opening_header o st c line).
Proof. unfold try_opening_header. nggo. Qed.
Lemma ngA_try_opening_row o st c t line : ngA (try_opening_row o st c t line).
Proof. unfold try_opening_row. nggo. Qed.
Lemma ngA_try_opening_block o st c line : ngA (try_opening_block o st c line).
Proof.
  unfold try_opening_block. apply ng_bind; [auto with ngA|]. intros cn _.
  destruct (bval cn); try exact I; [apply ngA_try_opening_header | apply ngA_try_opening_row].
Qed.
#[export] Hint Resolve ngA_try_opening_block : ngA.


Section Handlers.
Variables (o : bopts) (line : bytes).
Lemma ngA_handle_alert st c ind : ngA (handle_alert o st c line ind).
Proof. unfold handle_alert. nggo. Qed.
Lemma ngA_handle_mbq st c ind : ngA (handle_multiline_blockquote o st c line ind).
Proof. unfold handle_multiline_blockquote, rest_at_fns. nggo. Qed.
Lemma ngA_handle_blockquote st c ind : ngA (handle_blockquote o st c line ind).
Proof. unfold handle_blockquote. nggo. Qed.
Lemma ngA_handle_atx st c ind : ngA (handle_atx_heading o st c line ind).
Proof. unfold handle_atx_heading, rest_at_fns. nggo. Qed.
Lemma ngA_handle_code_fence st c ind : ngA (handle_code_fence o st c line ind).
Proof. unfold handle_code_fence, rest_at_fns. nggo. Qed.
Lemma ngA_handle_html_block st c ind : ngA (handle_html_block o st c line ind).
Proof. unfold handle_html_block, rest_at_fns. nggo. Qed.
Lemma ngA_handle_setext st c ind : ngA (handle_setext_heading o st c line ind).
Proof. unfold handle_setext_heading, rest_at_fns. nggo. Qed.
Lemma ngA_handle_thematic_break st c ind am : ngA (handle_thematic_break o st c line ind am).
Proof. unfold handle_thematic_break. nggo. Qed.
Lemma ngA_handle_footnote st c ind d : ngA (handle_footnote o st c line ind d).
Proof. unfold handle_footnote, rest_at_fns. nggo. Qed.
Lemma ngA_handle_description_list st c ind : ngA (handle_description_list o st c line ind).
Proof. unfold handle_description_list, rest_at_fns. nggo. Qed.
Lemma ngA_handle_list st c ind d : ngA (handle_list o st c line ind d).
Proof. unfold handle_list. nggo. Qed.
Lemma ngA_handle_code_block st c ind ml : ngA (handle_code_block o st c line ind ml).
Proof. unfold handle_code_block. nggo. Qed.
Hint Resolve ngA_handle_alert ngA_handle_mbq ngA_handle_blockquote ngA_handle_atx ngA_handle_code_fence ngA_handle_html_block
  ngA_handle_setext ngA_handle_thematic_break ngA_handle_footnote ngA_handle_description_list ngA_handle_list ngA_handle_code_block : ngA.

Lemma ngA_step st c am ml d : ngA (open_new_blocks_step o st c line am ml d).
Proof. unfold open_new_blocks_step, or_else_h. nggo. Qed.
Lemma ngA_loop am : forall fuel st c ml d, ngA (open_new_blocks_loop fuel o st c line am ml d).
Proof.
  induction fuel as [|f IH]; intros st c ml d; cbn [open_new_blocks_loop]; [reflexivity|].
  apply ng_bind; [auto with ngA|]. intros n _. destruct (is_code_or_html n); [exact I|].
  apply ng_bind; [apply ngA_step|]. intros [[go c1] s1] E. destruct go; [apply IH | exact I].
Qed.
Lemma ngA_open_new_blocks st c am : ngA (open_new_blocks o st c line am).
Proof. unfold open_new_blocks. apply ng_bind; [auto with ngA|]. intros n _. apply ngA_loop. Qed.
End Handlers.

(* ================================================================== the container of add_text_to_container *)
Lemma In_x23_dec (line : bytes) : In x23 line \/ ~ In x23 line.
Proof.
  destruct (existsb (beqb x23) line) eqn:E.
  - left. apply existsb_exists in E. destruct E as [b [Hb Eb]]. apply beqb_eq in Eb. now subst.
  - right. intro H. assert (K : existsb (beqb x23) line = true) by (apply existsb_exists; exists x23; split; [exact H | apply beqb_refl]).
    congruence.
Qed.

Lemma pall_forall c0 : forall t, (forall n, In n (bsub t) -> pok c0 (binf n) = true) -> pall c0 t = true.
Proof.
  induction t as [i ch IH] using bnode_ind2. intro H. apply pall_node. split.
  - apply (H (BNode i ch)). apply bsub_self.
  - apply forallb_forall. intros x Hx. rewrite Forall_forall in IH. apply IH; [exact Hx|].
    intros n Hn. apply H. eapply bsub_kid; eassumption.
Qed.

(* with pairwise distinct identifiers PI c is a statement about the one node `get` answers *)
Lemma PI_intro o st c : TI o [] st -> (forall n, get st c = Ok n -> atxv (bval n) = false) -> PI c st.
Proof.
  intros T H. apply pall_forall. intros n Hn.
  destruct (Nat.eq_dec (bid n) c) as [E|E]; [|now apply pok_other].
  apply pok_not_atx. apply H. unfold get. rewrite <- E. rewrite (find_node_unique _ _ (TI_distinct _ _ _ T) Hn). reflexivity.
Qed.

Lemma PI_get c st n : PI c st -> get st c = Ok n -> atxv (bval n) = false.
Proof.
  intros P G. pose proof (get_pall _ _ _ _ P G) as Pn. apply get_find in G. destruct (find_node_sub _ _ _ G) as [B _].
  destruct n as [i ch]. apply pall_node in Pn. destruct Pn as [Pi _]. apply (pok_inv _ _ Pi). exact B.
Qed.

(* an identifier that is not in use yet *)
Lemma PI_fresh o st c : TI o [] st -> ps_next st <= c -> PI c st.
Proof.
  intros T L. eapply PI_intro; [exact T|]. intros n G. exfalso. apply get_find in G. pose proof (find_node_cnt _ _ _ G) as C.
  destruct T as [_ [U _]]. destruct (U c) as [_ B]. assert (c < ps_next st) by (apply B; rewrite cnt_nil; lia). lia.
Qed.

(* the node add_child creates *)
Lemma add_child_new_PI o st parent v col id st' :
  add_child o st parent v col = Ok (id, st') -> TI o [] st -> atxv v = false -> PI id st'.
Proof.
  intros H T Hv. eapply add_child_PI; [exact H | exact Hv|]. eapply PI_fresh; [exact T|].
  unfold add_child in H.
  destruct (BlocksTotal4Spine.add_child_gen_last_open _ _ _ _ _ _ _ _ _ H (fun _ => eq_refl)) as (p' & st1 & pn & new & L & _ & _ & _ & _ & _ & Ei).
  destruct (add_child_loop_TI _ _ _ _ _ _ _ _ L T) as (_ & N & _). lia.
Qed.

(* the same with the invariant of the RESULT state *)
Lemma add_child_new_PI' o st parent v col id st' :
  add_child o st parent v col = Ok (id, st') -> TI o [] st' -> atxv v = false -> PI id st'.
Proof.
  intros H T Hv. eapply PI_intro; [exact T|]. intros p G. unfold add_child in H.
  destruct (BlocksTotal4Spine.add_child_gen_last_open _ _ _ _ _ _ _ _ _ H (fun _ => eq_refl)) as (p' & st1 & pn & new & L & F1 & F2 & Bn & Kn & _ & Ei).
  assert (Hn : In new (bsub (ps_root st'))).
  { destruct (find_node_sub _ _ _ F2) as [_ Hs]. eapply bsub_kid_of; [exact Hs|]. cbn [bkids]. apply in_or_app. right. now left. }
  assert (Bi : bid new = id) by (unfold bid; rewrite Bn; reflexivity).
  unfold get in G. rewrite <- Bi in G. rewrite (find_node_unique _ _ (TI_distinct _ _ _ T) Hn) in G. inversion G; subst p.
  unfold bval. rewrite Bn. exact Hv.
Qed.

(* a node with a child is no heading: a heading contains inlines only, every node of the tree is a block *)
Lemma bvok_not_in_heading o v : bvok o v = true -> can_contain KHeading (kind_of v) = false.
Proof. destruct v; intro H; try discriminate H; reflexivity. Qed.

Lemma has_kid_PI o st p pn k : TI o [] st -> SV st -> get st p = Ok pn -> In k (bkids pn) -> PI p st.
Proof.
  intros T Sv G Hk. eapply PI_intro; [exact T|]. intros n Gn. rewrite G in Gn. inversion Gn; subst n.
  pose proof (get_valid _ _ _ Sv G) as Tv. pose proof (get_ball _ _ _ _ (TI_NI _ _ _ T) G) as Bv.
  destruct pn as [i ch]. cbn [bkids] in Hk. unfold bval. cbn [binf].
  destruct (atxv (bi_val i)) eqn:Ea; [|reflexivity]. exfalso.
  assert (Kh : kind_of (bi_val i) = KHeading) by (destruct (bi_val i); try discriminate Ea; reflexivity).
  cbn [tvalid] in Tv. apply andb_true_iff in Tv. destruct Tv as [A _]. rewrite forallb_forall in A. specialize (A k Hk).
  apply ball_node in Bv. destruct Bv as [_ Bk]. rewrite forallb_forall in Bk. specialize (Bk k Hk).
  destruct k as [j kk]. apply ball_node in Bk. destruct Bk as [Bj _].
  rewrite Kh in A. unfold allowed, bkind, bval in A. cbn [binf] in A. rewrite (bvok_not_in_heading _ _ Bj) in A. discriminate A.
Qed.

(* ---- check_open_blocks: the last matched container is the root, a node that matched, or a node with a child *)
Lemma cobi_PI o line : forall fuel st container a c b st',
  check_open_blocks_inner fuel o st line container = Ok (a, c, b, st') -> TI o [] st -> PI container st ->
  a = true -> PI c st'.
Proof.
  induction fuel as [|f IH]; intros st container a c b st' H T P A; cbn [check_open_blocks_inner] in H; [discriminate H|].
  destruct (last_child_is_open st container) as [lc| |] eqn:L; cbn [bind] in H; try discriminate H.
  destruct lc as [cid|]; [|inversion H; subst; exact P].
  destruct (ffn st line) as [s1| |] eqn:F; cbn [bind] in H; try discriminate H.
  destruct (get s1 cid) as [cn| |] eqn:G; cbn [bind] in H; try discriminate H.
  destruct (check_container o s1 line cn) as [[[m sc] s2]| |] eqn:C; cbn [bind] in H; try discriminate H.
  destruct m; [|inversion H; congruence].
  assert (T1 : TI o [] s1) by eauto with ti.
  eapply IH; [exact H | eauto with ti | | exact A].
  eapply check_container_PI; [exact C|]. eapply PI_intro; [exact T1|]. intros n Gn. rewrite G in Gn. inversion Gn; subst n.
  unfold check_container in C. destruct (bval cn) eqn:Bv; try reflexivity. cbv zeta in C. discriminate C.
Qed.

Lemma check_open_blocks_lmc o st line lmc am s1 :
  check_open_blocks o st line = Ok (Some (lmc, am), s1) -> TI o [] st -> SV st -> R0 o st -> PI lmc s1.
Proof.
  unfold check_open_blocks. intros H T Sv R.
  destruct (check_open_blocks_inner (S (ps_next st)) o st line root_id) as [[[[a c] b] s2]| |] eqn:E; cbn [bind] in H; try discriminate H.
  assert (T2 : TI o [] s2) by eauto with ti. assert (S2 : SV s2) by eauto with sv.
  destruct a.
  - cbn [bind] in H. destruct b; inversion H; subst. eapply cobi_PI; [exact E | exact T | | reflexivity].
    eapply PI_intro; [exact T|]. intros n G.
    apply get_find in G. destruct (TI_NI _ _ _ T) as [D _]. unfold R0 in R. destruct (ps_root st) as [i ch] eqn:Er.
    unfold bid in R. cbn [binf] in R. cbn [find_node] in G. rewrite R, Nat.eqb_refl in G. inversion G; subst n.
    unfold bval in *. cbn [binf] in *. rewrite D. reflexivity.
  - destruct (parent_of c (ps_root s2)) as [p|] eqn:Pp; cbn [bind] in H; try discriminate H.
    destruct b; inversion H; subst.
    destruct (BlocksTotal2Tree.parent_of_kid _ _ _ Pp) as (pn & k & Hp & Bp & Hk & _).
    eapply has_kid_PI; [exact T2 | exact S2 | | exact Hk].
    unfold get. rewrite <- Bp. rewrite (find_node_unique _ _ (TI_distinct _ _ _ T2) Hp). reflexivity.
Qed.

(* ---- a new Table / TableRow: its identifier is fresh *)
Lemma try_opening_block_new o st c line id st' : try_opening_block o st c line = Ok (TNew id, st') -> TI o [] st -> ps_next st <= id.
Proof.
  unfold try_opening_block. intros H T.
  destruct (get st c) as [cn| |] eqn:G; cbn [bind] in H; try discriminate H.
  destruct (bval cn) eqn:Bv; try discriminate H.
  - unfold try_opening_header in H. mon H; monall;
      try (match goal with E : try_inserting_table_header_paragraph _ _ _ = Ok _ |- _ =>
             destruct (try_inserting_TI _ _ _ _ _ _ E T) as [_ L]; exact L end); try apply le_n.
  - unfold try_opening_row in H. mon H; monall; try apply le_n.
Qed.

Create HintDb hI.

Section Container.
Variables (o : bopts) (line : bytes).
Hypothesis Hn : ~ In x23 line.

Ltac pairs := repeat match goal with p : (_ * _)%type |- _ => destruct p end; cbn [fst snd] in *.
Ltac newnode :=
  match goal with A : add_child _ ?s1 _ ?v _ = Ok (?id, ?s2) |- PI ?id _ =>
    let Q := fresh "Q" in
    assert (Q : PI id s2) by (eapply add_child_new_PI; [exact A | eauto 12 with ti | reflexivity]); eauto 12 with pi end.
Ltac hpi H := mon H; monall; pairs; first [ newnode | solve [eauto 12 with pi] ].

Lemma handle_alert_AH st c ind b c' st' : handle_alert o st c line ind = Ok (b, c', st') -> TI o [] st -> PI c st -> PI c' st'.
Proof. unfold handle_alert. intros H T P. hpi H. Qed.
Lemma handle_mbq_AH st c ind b c' st' : handle_multiline_blockquote o st c line ind = Ok (b, c', st') -> TI o [] st -> PI c st -> PI c' st'.
Proof. unfold handle_multiline_blockquote, rest_at_fns. intros H T P. hpi H. Qed.
Lemma handle_blockquote_AH st c ind b c' st' : handle_blockquote o st c line ind = Ok (b, c', st') -> TI o [] st -> PI c st -> PI c' st'.
Proof. unfold handle_blockquote. intros H T P. hpi H. Qed.
Lemma handle_atx_AH st c ind b c' st' : handle_atx_heading o st c line ind = Ok (b, c', st') -> TI o [] st -> PI c st -> PI c' st'.
Proof.
  unfold handle_atx_heading, rest_at_fns, Blocks.slice_from. intros H T P.
  mon H; monall; pairs; eauto with pi.
  exfalso. apply Hn.
  match goal with Q : position_hash _ = Some _ |- _ => apply position_hash_in in Q; eapply in_skipn; exact Q end.
Qed.
Lemma handle_code_fence_AH st c ind b c' st' : handle_code_fence o st c line ind = Ok (b, c', st') -> TI o [] st -> PI c st -> PI c' st'.
Proof. unfold handle_code_fence, rest_at_fns. intros H T P. hpi H. Qed.
Lemma handle_html_block_AH st c ind b c' st' : handle_html_block o st c line ind = Ok (b, c', st') -> TI o [] st -> PI c st -> PI c' st'.
Proof. unfold handle_html_block, rest_at_fns. intros H T P. hpi H. Qed.
Lemma handle_setext_AH st c ind b c' st' : handle_setext_heading o st c line ind = Ok (b, c', st') -> TI o [] st -> PI c st -> PI c' st'.
Proof.
  intros H T P. assert (E : c' = c) by (unfold handle_setext_heading, rest_at_fns in H; mon H; reflexivity).
  subst c'. eapply handle_setext_PI; eassumption.
Qed.
Lemma handle_thematic_break_AH st c ind am b c' st' : handle_thematic_break o st c line ind am = Ok (b, c', st') -> TI o [] st -> PI c st -> PI c' st'.
Proof. unfold handle_thematic_break. intros H T P. hpi H. Qed.
Lemma handle_footnote_AH st c ind d b c' st' : handle_footnote o st c line ind d = Ok (b, c', st') -> TI o [] st -> PI c st -> PI c' st'.
Proof. unfold handle_footnote, rest_at_fns. intros H T P. hpi H. Qed.
Lemma handle_list_AH st c ind d b c' st' : handle_list o st c line ind d = Ok (b, c', st') -> TI o [] st -> PI c st -> PI c' st'.
Proof. unfold handle_list. intros H T P. hpi H. Qed.
Lemma handle_code_block_AH st c ind ml b c' st' : handle_code_block o st c line ind ml = Ok (b, c', st') -> TI o [] st -> PI c st -> PI c' st'.
Proof. unfold handle_code_block. intros H T P. hpi H. Qed.

(* parse_desc_list_details may hand on the parent of the paragraph: a node with a child *)
Lemma pdld_AH st c m b c' st' : parse_desc_list_details o st c m = Ok (b, c', st') -> TI o [] st -> SV st -> PI c st -> PI c' st'.
Proof.
  intros H T Sv P. pose proof (parse_desc_list_details_TI _ _ _ _ _ _ _ _ H T) as T'.
  unfold parse_desc_list_details in H.
  destruct (get st c) as [cn| |] eqn:G; cbn [bind] in H; try discriminate H.
  match type of H with bind ?r _ = _ => destruct r as [[[[tight c1] lc]|]| |] eqn:R; cbn [bind] in H; try discriminate H end;
    [|inversion H; subst; exact P].
  assert (K : PI c1 st).
  { destruct (last_opt (bkids cn)) eqn:L.
    - inversion R; subst. exact P.
    - mon R. eapply has_kid_PI; [exact T | exact Sv | eassumption | eapply last_opt_in; eassumption]. }
  clear R.
  destruct (bval lc) eqn:Bl; try (inversion H; subst; exact K);
    mon H; monall; pairs; (eapply add_child_new_PI'; [eassumption | exact T' | reflexivity]).
Qed.

Lemma handle_description_list_AH st c ind b c' st' :
  handle_description_list o st c line ind = Ok (b, c', st') -> TI o [] st -> SV st -> PI c st -> PI c' st'.
Proof.
  unfold handle_description_list, rest_at_fns. intros H T Sv P.
  mon H; monall; pairs;
  first [ match goal with D : parse_desc_list_details _ _ _ _ = Ok (_, ?c1, ?s1) |- _ =>
            assert (K : PI c1 s1) by (eapply pdld_AH; eassumption) end; solve [eauto 12 with pi]
        | solve [eauto 12 with pi] ].
Qed.

(* the three invariants together *)
Definition I3 (c : nat) (st : pstate) : Prop := TI o [] st /\ SV st /\ PI c st.

Ltac hI L1 L2 L3 := intros H [T [Sv P]]; split; [eapply L1; eassumption | split; [eapply L2; eassumption | eapply L3; eassumption]].

Lemma handle_alert_I st c ind b c' st' : handle_alert o st c line ind = Ok (b, c', st') -> I3 c st -> I3 c' st'.
Proof. hI handle_alert_TI handle_alert_valid handle_alert_AH. Qed.
Lemma handle_mbq_I st c ind b c' st' : handle_multiline_blockquote o st c line ind = Ok (b, c', st') -> I3 c st -> I3 c' st'.
Proof. hI handle_mbq_TI handle_mbq_valid handle_mbq_AH. Qed.
Lemma handle_blockquote_I st c ind b c' st' : handle_blockquote o st c line ind = Ok (b, c', st') -> I3 c st -> I3 c' st'.
Proof. hI handle_blockquote_TI handle_blockquote_valid handle_blockquote_AH. Qed.
Lemma handle_atx_I st c ind b c' st' : handle_atx_heading o st c line ind = Ok (b, c', st') -> I3 c st -> I3 c' st'.
Proof. hI handle_atx_TI handle_atx_valid handle_atx_AH. Qed.
Lemma handle_code_fence_I st c ind b c' st' : handle_code_fence o st c line ind = Ok (b, c', st') -> I3 c st -> I3 c' st'.
Proof. hI handle_code_fence_TI handle_code_fence_valid handle_code_fence_AH. Qed.
Lemma handle_html_block_I st c ind b c' st' : handle_html_block o st c line ind = Ok (b, c', st') -> I3 c st -> I3 c' st'.
Proof. hI handle_html_block_TI handle_html_block_valid handle_html_block_AH. Qed.
Lemma handle_setext_I st c ind b c' st' : handle_setext_heading o st c line ind = Ok (b, c', st') -> I3 c st -> I3 c' st'.
Proof. hI handle_setext_TI handle_setext_valid handle_setext_AH. Qed.
Lemma handle_thematic_break_I st c ind am b c' st' : handle_thematic_break o st c line ind am = Ok (b, c', st') -> I3 c st -> I3 c' st'.
Proof. hI handle_thematic_break_TI handle_thematic_break_valid handle_thematic_break_AH. Qed.
Lemma handle_footnote_I st c ind d b c' st' : handle_footnote o st c line ind d = Ok (b, c', st') -> I3 c st -> I3 c' st'.
Proof. hI handle_footnote_TI handle_footnote_valid handle_footnote_AH. Qed.
Lemma handle_description_list_I st c ind b c' st' : handle_description_list o st c line ind = Ok (b, c', st') -> I3 c st -> I3 c' st'.
Proof. hI handle_description_list_TI handle_description_list_valid handle_description_list_AH. Qed.
Lemma handle_list_I st c ind d b c' st' : handle_list o st c line ind d = Ok (b, c', st') -> I3 c st -> I3 c' st'.
Proof. hI handle_list_TI handle_list_valid handle_list_AH. Qed.
Lemma handle_code_block_I st c ind ml b c' st' : handle_code_block o st c line ind ml = Ok (b, c', st') -> I3 c st -> I3 c' st'.
Proof. hI handle_code_block_TI handle_code_block_valid handle_code_block_AH. Qed.
Hint Resolve handle_alert_I handle_mbq_I handle_blockquote_I handle_atx_I handle_code_fence_I handle_html_block_I handle_setext_I
  handle_thematic_break_I handle_footnote_I handle_description_list_I handle_list_I handle_code_block_I : hI.

Lemma or_else_h_I (r : hres) k b c' st' :
  or_else_h r k = Ok (b, c', st') ->
  (forall b1 c1 s1, r = Ok (b1, c1, s1) -> I3 c1 s1) ->
  (forall c1 s1 b2 c2 s2, k c1 s1 = Ok (b2, c2, s2) -> I3 c1 s1 -> I3 c2 s2) ->
  I3 c' st'.
Proof.
  unfold or_else_h. intros H Hr Hk.
  destruct r as [[[b1 c1] s1]| |]; cbn [bind] in H; try discriminate H.
  destruct b1.
  - inversion H; subst. eapply Hr; reflexivity.
  - eapply Hk; [exact H|]. eapply Hr; reflexivity.
Qed.

Ltac chain_I :=
  match goal with
  | R : or_else_h _ _ = Ok _ |- I3 _ _ =>
    eapply (or_else_h_I _ _ _ _ _ R); clear R;
    [ intros ? ? ? ?; eauto with hI | intros ? ? ? ? ? R ?; cbv beta in R; chain_I ]
  | |- I3 _ _ => eauto with hI
  end.

Lemma step_PI st c am ml d g c' st' : open_new_blocks_step o st c line am ml d = Ok (g, c', st') -> I3 c st -> PI c' st'.
Proof.
  unfold open_new_blocks_step. intros H V.
  destruct (ffn st line) as [s0| |] eqn:F0; cbn [bind] in H; try discriminate H.
  assert (V0 : I3 c s0). { destruct V as [T [Sv P]]. split; [eauto with ti | split; [eauto with sv | eauto with pi]]. }
  match type of H with bind ?r _ = _ => destruct r as [[[hd c1] s1]| |] eqn:R; cbn [bind] in H; try discriminate H end.
  assert (V1 : I3 c1 s1) by chain_I.
  clear R. destruct V1 as [T1 [Sv1 P1]].
  destruct hd.
  - mon H; monall; assumption.
  - destruct (negb (Nat.leb code_indent (indent s0)) && bo_table o) eqn:ET.
    + match type of H with bind (bind ?r _) _ = _ => destruct r as [[tr s2]| |] eqn:TB; cbn [bind] in H; try discriminate H end.
      destruct tr as [|mark|id].
      * pose proof (try_opening_block_PI _ _ _ _ _ _ _ TB P1) as P2. mon H; monall; eauto 10 with pi.
      * pose proof (try_opening_block_PI _ _ _ _ _ _ _ TB P1) as P2. mon H; monall; eauto 10 with pi.
      * pose proof (try_opening_block_PI _ _ _ _ _ _ _ TB (PI_fresh _ _ _ T1 (try_opening_block_new _ _ _ _ _ _ TB T1))) as P2.
        mon H; monall; eauto 10 with pi.
    + mon H; monall; eauto 10 with pi.
Qed.

Lemma step_I st c am ml d g c' st' : open_new_blocks_step o st c line am ml d = Ok (g, c', st') -> I3 c st -> I3 c' st'.
Proof.
  intros H V. split; [|split].
  - destruct V as [T _]. eapply open_new_blocks_step_TI; eassumption.
  - destruct V as [_ [Sv _]]. eapply open_new_blocks_step_valid; eassumption.
  - eapply step_PI; eassumption.
Qed.

Lemma loop_I am : forall fuel st c ml d c' st',
  open_new_blocks_loop fuel o st c line am ml d = Ok (c', st') -> I3 c st -> I3 c' st'.
Proof.
  induction fuel as [|f IH]; intros st c ml d c' st' H V; cbn [open_new_blocks_loop] in H; [discriminate H|].
  destruct (get st c) as [n| |]; cbn [bind] in H; try discriminate H.
  destruct (is_code_or_html n); [inversion H; subst; exact V|].
  destruct (open_new_blocks_step o st c line am ml (S d)) as [[[go c1] s1]| |] eqn:E; cbn [bind] in H; try discriminate H.
  pose proof (step_I _ _ _ _ _ _ _ _ E V) as V1.
  destruct go; [eapply IH; eassumption | inversion H; subst; exact V1].
Qed.

Lemma open_new_blocks_I st c am c' st' : open_new_blocks o st c line am = Ok (c', st') -> I3 c st -> I3 c' st'.
Proof.
  unfold open_new_blocks. intros H V.
  destruct (get st (ps_current st)) as [n| |]; cbn [bind] in H; try discriminate H.
  eapply loop_I; eassumption.
Qed.
End Container.

(* ---- add_text_to_container: the container is no ATX heading, or the line has a '#' *)
Lemma ngA_add_text_to_container o line st c lmc : NI o st -> (In x23 line \/ PI c st) -> ngA (add_text_to_container o st c lmc line).
Proof.
  intros V A. unfold add_text_to_container. cbv zeta.
  apply ng_bind; [auto with ngA|]. intros s0 E0.
  apply ng_bind; [auto with ngA|]. intros cn G.
  apply ng_bind; [nggo|]. intros s1 E1.
  apply ng_bind; [auto with ngA|]. intros s2 E2.
  apply ng_bind; [auto with ngA|]. intros s3 E3.
  apply ng_bind; [nggo|]. intros lazy _.
  destruct lazy; [auto with ngA|].
  apply ng_bind; [auto with ngA|]. intros s4 E4.
  apply ng_bind; [auto with ngA|]. intros c4 G4.
  assert (K : In x23 line \/ atxv (bval c4) = false).
  { destruct A as [A|A]; [left; exact A | right]. eapply PI_get; [|exact G4].
    assert (P0 : PI c s0) by eauto with pi.
    assert (P1 : PI c s1) by (clear - E1 P0; monall; eauto with pi).
    eauto 10 with pi. }
  apply ng_bind; [|intros; exact I].
  destruct (bval c4) eqn:Bv; try solve [nggo].
  destruct setext; cbn [negb].
  - nggo.
  - destruct K as [K|K]; [|discriminate K]. nggo.
Qed.

Lemma ngA_process_line o st line0 : BlocksTotal2Tree.W o st -> ngA (process_line o st line0).
Proof.
  intros [T [Sv R]]. unfold process_line. cbv zeta.
  match goal with |- context [check_open_blocks o ?s ?l] =>
    assert (T0 : TI o [] s) by (apply TI_st_line_number, TI_st_cur, TI_st_curline; exact T);
    assert (S0 : SV s) by exact Sv; assert (R0' : R0 o s) by exact R end.
  apply ng_bind; [auto with ngA|]. intros [r s1] E.
  assert (T1 : TI o [] s1) by (eapply check_open_blocks_TI; eassumption).
  assert (S1 : SV s1) by (eapply check_open_blocks_valid; eassumption).
  apply ng_bind; [|intros; exact I].
  destruct r as [[lm am]|]; [|exact I]. cbv zeta.
  apply ng_bind; [apply ngA_open_new_blocks|]. intros [c s2] E2.
  assert (T2 : TI o [] s2) by (eapply open_new_blocks_TI; eassumption).
  destruct (Nat.eqb (ps_current s1) (ps_current s2)); [|exact I].
  apply ngA_add_text_to_container; [exact (TI_NI _ _ _ T2)|].
  destruct (In_x23_dec (norm_line line0)) as [D|D]; [left; exact D | right].
  assert (P1 : PI lm s1) by (eapply check_open_blocks_lmc; eassumption).
  destruct (open_new_blocks_I o _ D _ _ _ _ _ E2 (conj T1 (conj S1 P1))) as (_ & _ & P2). exact P2.
Qed.

Lemma process_line_W o st line st' : process_line o st line = Ok st' -> BlocksTotal2Tree.W o st -> BlocksTotal2Tree.W o st'.
Proof.
  intros H [T [Sv R]]. split; [eapply process_line_TI; eassumption | split; [eapply process_line_valid; eassumption | eapply process_line_R0; eassumption]].
Qed.

Lemma ngA_process_lines o : forall ls st, BlocksTotal2Tree.W o st -> ngA (process_lines o st ls).
Proof.
  induction ls as [|l r IH]; intros st T; cbn [process_lines]; [exact I|].
  apply ng_bind; [now apply ngA_process_line|]. intros s1 E. apply IH. eapply process_line_W; eassumption.
Qed.

Lemma ngA_finalize_document o st : ngA (finalize_document o st).
Proof. unfold finalize_document. nggo. Qed.

Lemma ngA_front_matter_prologue o s : ngA (front_matter_prologue o init_state s).
Proof.
  pose proof (TI_NI _ _ _ (BlocksTotal2Tree.W_TI _ _ (BlocksTotal2Tree.W_init o))) as V.
  unfold front_matter_prologue. nggo.
Qed.

Theorem parse_blocks_ngA o x : ngA (parse_blocks o x).
Proof.
  unfold parse_blocks. apply ng_bind; [apply ngA_front_matter_prologue|]. intros [st rest] E.
  assert (T : BlocksTotal2Tree.W o st).
  { destruct (BlocksTotal2Tree.W_init o) as [T0 [S0 R0']].
    split; [eapply front_matter_prologue_TI; eassumption | split; [eapply front_matter_prologue_valid; eassumption | eapply front_matter_prologue_R0; eassumption]]. }
  destruct (feed_lines rest) as [lines total].
  apply ng_bind; [|intros; exact I]. unfold run_lines.
  apply ng_bind; [now apply ngA_process_lines | intros; apply ngA_finalize_document].
Qed.

Theorem parse_blocks_no_atx_panic o x s : In s atx_sites -> parse_blocks o x <> Panic s.
Proof. intro H. eapply sg_no_panic; [apply parse_blocks_ngA | exact H]. Qed.
