(* Proofs/BlocksSliceScan.v — C12 for the START of block constructs, part 1: what the byte at `first_nonspace` is when a
   detector of open_new_blocks answers yes.  Each fact for ALL byte strings.

     hd_ok P r            every non-empty match of the regex r starts with a byte of the set P (boolean, by recursion on r)
     run_rules_first      a block of re2c rules (any actions, no padding) whose regexes all are hd_ok P and have
                          min_len >= 1: either no rule fires (the default outcome) or the input starts with a byte of P
     scan_*_first         atx_heading_start: '#';  open_code_fence: backtick or tilde;  html_block_start and
                          html_block_start_7: '<';  footnote_definition: '[';  open_multiline_block_quote_fence: '>';
                          description_item_start: ':' or '~'
     thematic_first       scan_thematic_break_inner line fns = (_, true): line[fns] is '*', '_' or '-'
     list_marker_first    parse_list_marker line pos _ = Ok (Some (m, nl)): line[pos] is '*', '-' or '+' and is the bullet
                          character recorded in nl (bullet list), or a digit (ordered list)
   NO Model file is changed. *)
From Coq Require Import List NArith Arith Bool Lia Strings.String.
From V Require Import Base.Bytes Base.Res Base.Regex Base.Re2c Gen.StrLeafGen Gen.ScannersRe Model.Ast Model.Strings Model.Scan
  Model.ListMarker Proofs.RegexProofs Proofs.ScanProofs.
Import ListNotations.
Local Open Scope string_scope.
Local Open Scope list_scope.

(* ================================================================== the first byte of a match *)
Fixpoint hd_ok (P : byte -> bool) (r : re) : bool :=
  match r with
  | Empty | Eps => true
  | Chr cs => forallb (fun c => implb (cs_mem cs c) (P c)) all_bytes
  | Cat a c => hd_ok P a && (if Nat.eqb (min_len a) 0 then hd_ok P c else true)
  | Alt a c => hd_ok P a && hd_ok P c
  | Star a => hd_ok P a
  end.

Definition hd_in (P : byte -> bool) (s : bytes) : Prop :=
  match s with [] => True | b :: _ => P b = true end.

Lemma matches_hd P r s : matches r s -> hd_ok P r = true -> hd_in P s.
Proof.
  induction 1 as [|cs c Hc|a c s t Ma IHa _ IHc|a c s _ IH|a c s _ IH| |a s t Ma IHa _ IHs]; cbn [hd_ok]; intros Hv.
  - exact I.
  - pose proof (forall_bytes _ Hv c) as G. cbn beta in G. rewrite Hc in G. exact G.
  - apply andb_true_iff in Hv. destruct Hv as [Va Vc]. destruct s as [|b s].
    + apply min_len_le in Ma. cbn [List.length] in Ma. replace (min_len a) with 0 in Vc by lia. cbn [Nat.eqb] in Vc.
      cbn [app]. now apply IHc.
    + cbn [app hd_in]. exact (IHa Va).
  - apply andb_true_iff in Hv. now apply IH.
  - apply andb_true_iff in Hv. now apply IH.
  - exact I.
  - destruct s as [|b s]; [cbn [app]; now apply IHs | cbn [app hd_in]; exact (IHa Hv)].
Qed.

Definition first_rule (P : byte -> bool) (x : rule) : bool :=
  hd_ok P (rule_re x) && Nat.leb 1 (min_len (rule_re x)).

Lemma run_rules_first P rules d s :
  forallb (first_rule P) rules = true ->
  run_rules rules d 0 s = mkOutcome d 1 0 \/ exists b t, s = b :: t /\ P b = true.
Proof.
  intros Hq. unfold run_rules. cbn [repeat]. rewrite app_nil_r.
  destruct (pick_rule rules s None) as [[L x]|] eqn:E; [right | left; reflexivity].
  apply pick_rule_sound in E. destruct E as [E|[Hin E]]; [discriminate E|].
  apply longest_match_spec in E. destruct E as (HL & HM & _).
  rewrite forallb_forall in Hq. specialize (Hq _ Hin). unfold first_rule in Hq. apply andb_true_iff in Hq.
  destruct Hq as [H1 H2]. apply Nat.leb_le in H2.
  pose proof (min_len_le _ _ HM) as Hm. pose proof (matches_hd P _ _ HM H1) as Hh.
  destruct s as [|b t]; [rewrite firstn_nil in Hm; cbn in Hm; lia|].
  destruct L as [|L]; [cbn in Hm; lia|]. cbn [firstn hd_in] in Hh. eauto.
Qed.

Ltac scan_first P :=
  let H := fresh "H" in
  intro H;
  match type of H with
  | as_opt_usize (run_rules ?rules ?d ?p ?s) = Some _ =>
    change p with 0 in H; change d with ActNone in H;
    destruct (run_rules_first P rules ActNone s) as [E|E]; [vm_compute; reflexivity | rewrite E in H; discriminate H | exact E]
  end.

Definition is_hash (b : byte) : bool := beqb b x23.
Definition is_fence (b : byte) : bool := beqb b x60 || beqb b x7e.
Definition is_lt (b : byte) : bool := beqb b x3c.
Definition is_gt (b : byte) : bool := beqb b x3e.
Definition is_lbracket (b : byte) : bool := beqb b x5b.
Definition is_dmark (b : byte) : bool := beqb b x3a || beqb b x7e.
Definition is_tb (b : byte) : bool := beqb b x2a || beqb b x5f || beqb b x2d.
Definition is_bullet (b : byte) : bool := beqb b x2a || beqb b x2d || beqb b x2b.

Lemma scan_atx_heading_start_first s m : scan_atx_heading_start s = Some m -> exists b t, s = b :: t /\ is_hash b = true.
Proof. unfold scan_atx_heading_start. scan_first is_hash. Qed.
Lemma scan_open_code_fence_first s m : scan_open_code_fence s = Some m -> exists b t, s = b :: t /\ is_fence b = true.
Proof. unfold scan_open_code_fence. scan_first is_fence. Qed.
Lemma scan_html_block_start_first s m : scan_html_block_start s = Some m -> exists b t, s = b :: t /\ is_lt b = true.
Proof. unfold scan_html_block_start. scan_first is_lt. Qed.
Lemma scan_html_block_start_7_first s m : scan_html_block_start_7 s = Some m -> exists b t, s = b :: t /\ is_lt b = true.
Proof. unfold scan_html_block_start_7. scan_first is_lt. Qed.
Lemma scan_footnote_definition_first s m : scan_footnote_definition s = Some m -> exists b t, s = b :: t /\ is_lbracket b = true.
Proof. unfold scan_footnote_definition. scan_first is_lbracket. Qed.
Lemma scan_open_mbq_fence_first s m : scan_open_multiline_block_quote_fence s = Some m -> exists b t, s = b :: t /\ is_gt b = true.
Proof. unfold scan_open_multiline_block_quote_fence. scan_first is_gt. Qed.
Lemma scan_description_item_start_first s m : scan_description_item_start s = Some m -> exists b t, s = b :: t /\ is_dmark b = true.
Proof. unfold scan_description_item_start. scan_first is_dmark. Qed.

(* ================================================================== thematic break, list marker *)
Lemma thematic_first line fns off :
  scan_thematic_break_inner line fns = (off, true) -> exists b t, skipn fns line = b :: t /\ is_tb b = true.
Proof.
  unfold scan_thematic_break_inner. destruct (skipn fns line) as [|c r]; [discriminate|].
  destruct (negb (beqb c x2a) && negb (beqb c x5f) && negb (beqb c x2d)) eqn:E; [discriminate|].
  intros _. exists c, r. split; [reflexivity|]. unfold is_tb.
  destruct (beqb c x2a), (beqb c x5f), (beqb c x2d); cbn in *; congruence.
Qed.

(* what a list payload says about the byte its marker starts with *)
Definition list_byte_ok (nl : node_list) (b : byte) : bool :=
  match l_type nl with
  | Bullet => is_bullet b && N.eqb (bN b) (l_bullet nl)
  | Ordered => sl_isdigit b
  end.

Lemma list_marker_first line pos ip m nl :
  parse_list_marker line pos ip = Ok (Some (m, nl)) -> exists b t, skipn pos line = b :: t /\ list_byte_ok nl b = true.
Proof.
  unfold parse_list_marker. destruct (skipn pos line) as [|c s1]; [discriminate|]. intro H. exists c, s1. split; [reflexivity|].
  destruct (beqb c x2a || beqb c x2d || beqb c x2b) eqn:Eb.
  - destruct s1 as [|d s1']; [discriminate|]. destruct (negb (sl_isspace d)); [discriminate|].
    match type of H with bind ?e _ = _ => destruct e as [stop| |]; cbn [bind] in H; try discriminate H end.
    destruct stop; [discriminate|]. inversion H; subst. unfold list_byte_ok, bullet_list, is_bullet. cbn [l_type l_bullet].
    rewrite Eb, N.eqb_refl. reflexivity.
  - destruct (sl_isdigit c) eqn:Ed; [|discriminate].
    match type of H with bind ?e _ = _ => destruct e as [[[start digits] s2]| |]; cbn [bind] in H; try discriminate H end.
    destruct (ip && negb (start =? 1)%N); [discriminate|].
    destruct s2 as [|c2 s3]; [discriminate|]. destruct (negb (beqb c2 x2e) && negb (beqb c2 x29)); [discriminate|].
    destruct s3 as [|d s3']; [discriminate|]. destruct (negb (sl_isspace d)); [discriminate|].
    match type of H with bind ?e _ = _ => destruct e as [stop| |]; cbn [bind] in H; try discriminate H end.
    destruct stop; [discriminate|]. inversion H; subst. unfold list_byte_ok, ordered_list. cbn [l_type]. exact Ed.
Qed.
