(* Proofs/InlinesTotal3Main.v — C01, inline phase, third wave: totality theorems.

   inlines_total_noautolink: with the autolink extension OFF the inline phase of a block answers Ok on every
   right-trimmed content whose first line is not blank, whose line endings are covered by the line-offset table,
   with the reference budget within its maximum: ALL 76 Panic sites are unreachable (no premise on NUL bytes or
   UTF-8).  No axioms. *)
From Coq Require Import List NArith ZArith Arith Bool Strings.String Lia.
From V Require Spec.EscapeSpec.
From V Require Import Base.Bytes Base.Res Model.Strings Model.Ast Model.Inlines
     Proofs.InlinesProofs Proofs.InlinesTotal2 Proofs.InlinesTotal2Sites Proofs.InlinesTotal2Walk
     Proofs.InlinesTotal2Pe Proofs.InlinesTotal3Emb Proofs.InlinesTotal3Pe Proofs.InlinesTotal3Step Proofs.InlinesTotal3Walk.
Import ListNotations.
Local Open Scope list_scope.

Theorem inlines_total_noautolink memo o u inp lo sl refmap maxref rs0 :
  io_autolink o = false ->
  rtrim_slice inp = inp -> first_line_not_blank inp = true -> line_endings inp < List.length lo -> (rs0 <= maxref)%N ->
  exists ch rs, parse_inlines memo o u inp lo sl refmap maxref rs0 = Ok (ch, rs).
Proof.
  intros Ha Hrt Hfl Hlo Hr.
  apply (inlines_total_section memo o u inp lo sl refmap maxref Hrt Hfl (fun _ => True)).
  - intros s _ _ _ Hau. congruence.
  - intros; exact I.
  - exact Hlo.
  - exact Hr.
  - exact I.
Qed.

Lemma process_emphasis_nopanic o inp s n0 items ds bottom site :
  (- coloff s <= Z.of_nat (pos s))%Z ->
  Forall (fun d => dchar_ok o (d_char d) = true) ds ->
  emb (map ED ds) items -> uniq items -> fresh items n0 ->
  process_emphasis o inp s n0 items ds bottom <> Panic site.
Proof. intros C D E U F H. eapply process_emphasis_S; eassumption. Qed.

(* ***a**b* *[c*](u) ~~d~~ : overlapping emphasis, a link whose text closes an emphasis opened outside, strikethrough *)
Definition ex3_input : bytes :=
  [x2a; x2a; x2a; x61; x2a; x2a; x62; x2a; x20; x2a; x5b; x63; x2a; x5d; x28; x75; x29; x20; x7e; x7e; x64; x7e; x7e].
Lemma ex3_premises :
  rtrim_slice ex3_input = ex3_input /\ first_line_not_blank ex3_input = true /\ line_endings ex3_input < 1.
Proof. vm_compute. repeat split; try reflexivity. Qed.

(* ------------------------------------------------------------------ what is left: invariant (T)
   The states the main loop reaches, and the statement that in each of them, when url_match answers at pos, the
   trailing Text siblings spell its rewind (TESTED by evaluation together with (S): InlinesTotal3Walk.TH held in
   every state of 24 536 runs, valid UTF-8 contents with autolinks behind every kind of inline).  With it the
   corrected full statement InlinesTotal2.inlines_total_statement follows. *)
Inductive reach (memo : bool) (o : iopts) (u : oracle) (inp : bytes) (lo : list N) (sl : N)
          (refmap : list (bytes * (bytes * bytes))) (maxref rs0 : N) : st -> Prop :=
| reach_init : reach memo o u inp lo sl refmap maxref rs0 (init_st sl rs0)
| reach_step s s' : reach memo o u inp lo sl refmap maxref rs0 s ->
                    parse_inline memo o u inp lo sl refmap maxref s = Ok (Some s') ->
                    reach memo o u inp lo sl refmap maxref rs0 s'.

Definition inlines_T_statement : Prop :=
  forall memo o u inp lo sl refmap maxref rs0,
    has_nul inp = false -> rtrim_slice inp = inp -> Spec.EscapeSpec.utf8_valid inp = true ->
    first_line_not_blank inp = true -> line_endings inp < List.length lo -> (rs0 <= maxref)%N ->
    forall s, reach memo o u inp lo sl refmap maxref rs0 s -> TH o u inp s.

Theorem inlines_total_from_T : inlines_T_statement -> inlines_total_statement.
Proof.
  intros HT o u inp lo sl refmap maxref rs0 Hn Hrt Hu Hfl Hlo Hr.
  apply (inlines_total_section true o u inp lo sl refmap maxref Hrt Hfl (reach true o u inp lo sl refmap maxref rs0)).
  - intros s _ _ Hs. eapply HT; eassumption.
  - intros s s' _ _ Hs E. eapply reach_step; eassumption.
  - exact Hlo.
  - exact Hr.
  - apply reach_init.
Qed.
