(* Proofs/InlinesTotal3Main.v — C01, inline phase, third wave: totality theorems.

   inlines_total_noautolink: with the autolink extension OFF the inline phase of a block answers Ok on every
   right-trimmed content whose first line is not blank, whose line endings are covered by the line-offset table,
   with the reference budget within its maximum: ALL 76 Panic sites are unreachable (no premise on NUL bytes or
   UTF-8).  No axioms. *)
From Coq Require Import List NArith ZArith Arith Bool Strings.String Lia.
From V Require Import Base.Bytes Base.Res Model.Strings Model.Ast Model.Inlines
     Proofs.InlinesProofs Proofs.InlinesTotal2 Proofs.InlinesTotal2Sites Proofs.InlinesTotal2Walk
     Proofs.InlinesTotal3Emb Proofs.InlinesTotal3Step Proofs.InlinesTotal3Walk.
Import ListNotations.
Local Open Scope list_scope.

Theorem inlines_total_noautolink memo o u inp lo sl refmap maxref rs0 :
  io_autolink o = false ->
  rtrim_slice inp = inp -> first_line_not_blank inp = true -> line_endings inp < List.length lo -> (rs0 <= maxref)%N ->
  exists ch rs, parse_inlines memo o u inp lo sl refmap maxref rs0 = Ok (ch, rs).
Proof.
  intros Ha Hrt Hfl Hlo Hr.
  apply (inlines_total_section memo o u inp lo sl refmap maxref Hrt Hfl (fun _ => True)).
  - intros s _ _ _ Hau. congruence.
  - intros; exact I.
  - exact Hlo.
  - exact Hr.
  - exact I.
Qed.
