(* Proofs/ParserShapeFn.v — the footnote post-pass (Model/Footnotes.process) establishes the footnote
   shape clauses (s6w, defs_at_root_tail, s6 under no_nested_defs) and preserves the others
   (s2, s3, s4, s7).  No assumption on fold / pres / perm anywhere. *)
From Coq Require Import List NArith Bool Lia.
From V Require Import Base.Bytes Model.Ast Model.Footnotes Spec.Shape Spec.HtmlSpec Spec.FootnoteSpec
  Proofs.FootnoteProofs.
Import ListNotations.
Local Open Scope list_scope.

(* ------------------------------------------------------------------ list helpers *)
Lemma fnp_forallb_eq {A} (f g : A -> bool) l :
  Forall (fun c => f c = g c) l -> forallb f l = forallb g l.
Proof. induction 1 as [|x r Hx _ IH]; cbn [forallb]; [reflexivity|]. rewrite Hx, IH. reflexivity. Qed.

Lemma fnp_F2_forallb {A} (R : A -> A -> Prop) (f g : A -> bool) l l' :
  Forall2 R l l' -> Forall (fun c => forall c', R c c' -> f c' = g c) l -> forallb f l' = forallb g l.
Proof.
  induction 1 as [|x x' r r' Hx _ IH]; intro F; cbn [forallb]; [reflexivity|].
  inversion F as [|? ? Fx Fr]; subst. rewrite (Fx _ Hx), (IH Fr). reflexivity.
Qed.

Lemma fnp_F2_forallb_imp {A} (R : A -> A -> Prop) (f g : A -> bool) l l' :
  Forall2 R l l' -> Forall (fun c => forall c', R c c' -> g c = true -> f c' = true) l ->
  forallb g l = true -> forallb f l' = true.
Proof.
  induction 1 as [|x x' r r' Hx _ IH]; intros F G; cbn [forallb] in *; [reflexivity|].
  inversion F as [|? ? Fx Fr]; subst. apply andb_true_iff in G as [G1 G2].
  rewrite (Fx _ Hx G1), (IH Fr G2). reflexivity.
Qed.

Lemma fnp_F2_length {A} (R : A -> A -> Prop) l l' : Forall2 R l l' -> length l' = length l.
Proof. induction 1; cbn [length]; congruence. Qed.

Lemma fnp_flat_map_nil {A B} (f : A -> list B) l x : flat_map f l = [] -> In x l -> f x = [].
Proof.
  induction l as [|y r IH]; cbn [flat_map]; intros E I; [contradiction|].
  apply app_eq_nil in E as [E1 E2]. destruct I as [<-|I]; auto.
Qed.

Lemma fnp_filter_id {A} (p : A -> bool) l : forallb p l = true -> filter p l = l.
Proof.
  induction l as [|x r IH]; cbn [forallb filter]; [reflexivity|].
  intro H. apply andb_true_iff in H as [H1 H2]. rewrite H1, (IH H2). reflexivity.
Qed.

Lemma fnp_exists_negb_forall {A} (f g : A -> bool) l :
  Forall (fun c => f c = negb (g c)) l -> existsb f l = negb (forallb g l).
Proof.
  induction 1 as [|x r Hx _ IH]; cbn [existsb forallb]; [reflexivity|].
  rewrite Hx, IH, negb_andb. reflexivity.
Qed.

(* ------------------------------------------------------------------ a value predicate on every node *)
Fixpoint fnp_allv (P : node_value -> bool) (n : node) : bool :=
  match n with Node v _ ch => P v && forallb (fnp_allv P) ch end.

Definition fnp_p4 (v : node_value) : bool :=
  match v with Heading level _ => (1 <=? level)%N && (level <=? 6)%N | _ => true end.
Definition fnp_p7 (v : node_value) : bool :=
  match v with Raw _ => false | EscapedTag l => forallb inert_byte l | _ => true end.

Lemma fnp_s4_allv : forall n, s4 n = fnp_allv fnp_p4 n.
Proof.
  induction n as [v sp ch IH] using node_ind2. cbn [s4 fnp_allv].
  rewrite (fnp_forallb_eq s4 (fnp_allv fnp_p4) ch IH). reflexivity.
Qed.

Lemma fnp_s7_allv : forall n, s7 n = fnp_allv fnp_p7 n.
Proof.
  induction n as [v sp ch IH] using node_ind2. cbn [s7 fnp_allv].
  rewrite (fnp_forallb_eq s7 (fnp_allv fnp_p7) ch IH). reflexivity.
Qed.

(* ------------------------------------------------------------------ unfolding lemmas by value class *)
Lemma fnp_is_def_eq n : is_def n = is_fndef (nval n).
Proof. reflexivity. Qed.
Lemma fnp_is_fdef_eq n : is_fdef n = is_fndef (nval n).
Proof. reflexivity. Qed.

Lemma fnp_top_defs_def v sp ch : is_fndef v = true -> top_defs (Node v sp ch) = [Node v sp ch].
Proof. destruct v; cbn [is_fndef]; intro H; try discriminate; reflexivity. Qed.
Lemma fnp_top_defs_node v sp ch : is_fndef v = false -> top_defs (Node v sp ch) = flat_map top_defs ch.
Proof. destruct v; cbn [is_fndef]; intro H; try discriminate; reflexivity. Qed.

Lemma fnp_has_def_def v sp ch : is_fndef v = true -> has_def (Node v sp ch) = true.
Proof. destruct v; cbn [is_fndef]; intro H; try discriminate; reflexivity. Qed.
Lemma fnp_has_def_node v sp ch : is_fndef v = false -> has_def (Node v sp ch) = existsb has_def ch.
Proof. destruct v; cbn [is_fndef]; intro H; try discriminate; reflexivity. Qed.

Lemma fnp_nnd_def v sp ch : is_fndef v = true -> no_nested_defs (Node v sp ch) = negb (existsb has_def ch).
Proof. destruct v; cbn [is_fndef]; intro H; try discriminate; reflexivity. Qed.
Lemma fnp_nnd_node v sp ch : is_fndef v = false -> no_nested_defs (Node v sp ch) = forallb no_nested_defs ch.
Proof. destruct v; cbn [is_fndef]; intro H; try discriminate; reflexivity. Qed.

Fixpoint fnp_cleanup_go (l : list node) : list node :=
  match l with
  | [] => []
  | c :: r => if is_def c then fnp_cleanup_go r else cleanup c :: fnp_cleanup_go r
  end.

Lemma fnp_cleanup_def v sp ch : is_fndef v = true -> cleanup (Node v sp ch) = Node v sp ch.
Proof. destruct v; cbn [is_fndef]; intro H; try discriminate; reflexivity. Qed.
Lemma fnp_cleanup_node v sp ch : is_fndef v = false -> cleanup (Node v sp ch) = Node v sp (fnp_cleanup_go ch).
Proof. destruct v; cbn [is_fndef]; intro H; try discriminate; reflexivity. Qed.

Lemma fnp_cleanup_go_map l : fnp_cleanup_go l = map cleanup (filter (fun c => negb (is_def c)) l).
Proof.
  induction l as [|c r IH]; cbn [fnp_cleanup_go filter map]; [reflexivity|].
  destruct (is_def c); cbn [negb map]; rewrite IH; reflexivity.
Qed.

Lemma fnp_set_def_def f d : is_def d = true ->
  set_def f d = Node (FootnoteDefinition (f_name f) (f_total f)) (nsp d) (nch d).
Proof.
  destruct d as [v sp ch]. rewrite fnp_is_def_eq. cbn [nval nsp nch].
  destruct v; cbn [is_fndef]; intro H; try discriminate; reflexivity.
Qed.

(* ------------------------------------------------------------------ nofn / has_def / contains_def *)
Lemma fnp_nofn_not_def x : nofn x = true -> is_fndef (nval x) = false.
Proof.
  destruct x as [v sp ch]. cbn [nofn nval]. intro H. apply andb_true_iff in H as [H _].
  destruct (is_fndef v); [discriminate|reflexivity].
Qed.

Lemma fnp_nofn_children x : nofn x = true -> forallb nofn (nch x) = true.
Proof. destruct x as [v sp ch]. cbn [nofn nch]. intro H. apply andb_true_iff in H as [_ H]. exact H. Qed.

Lemma fnp_has_def_nofn : forall n, has_def n = negb (nofn n).
Proof.
  induction n as [v sp ch IH] using node_ind2. cbn [nofn].
  destruct (is_fndef v) eqn:D.
  - rewrite fnp_has_def_def by exact D. reflexivity.
  - rewrite fnp_has_def_node by exact D. cbn [negb andb]. apply fnp_exists_negb_forall, IH.
Qed.

Lemma fnp_contains_def_nofn : forall n, contains_def n = negb (nofn n).
Proof.
  induction n as [v sp ch IH] using node_ind2. cbn [nofn contains_def].
  rewrite fnp_is_fdef_eq. cbn [nval].
  destruct (is_fndef v); [reflexivity|]. cbn [negb andb orb]. apply fnp_exists_negb_forall, IH.
Qed.

Lemma fnp_nnd_def' v sp ch : is_fndef v = true -> no_nested_defs (Node v sp ch) = forallb nofn ch.
Proof.
  intro D. rewrite fnp_nnd_def by exact D.
  rewrite (fnp_exists_negb_forall has_def nofn ch).
  - rewrite negb_involutive. reflexivity.
  - apply Forall_forall. intros c _. apply fnp_has_def_nofn.
Qed.

(* ------------------------------------------------------------------ top_defs *)
Lemma fnp_top_defs_are_defs : forall n, Forall (fun d => is_def d = true) (top_defs n).
Proof.
  induction n as [v sp ch IH] using node_ind2.
  destruct (is_fndef v) eqn:D.
  - rewrite fnp_top_defs_def by exact D. constructor; [exact D|constructor].
  - rewrite fnp_top_defs_node by exact D. apply Forall_forall. intros d Hd.
    apply in_flat_map in Hd as [c [Hc Hd]]. rewrite Forall_forall in IH.
    specialize (IH c Hc). rewrite Forall_forall in IH. apply IH, Hd.
Qed.

Lemma fnp_top_defs_nil_nofn : forall n, top_defs n = [] -> nofn n = true.
Proof.
  induction n as [v sp ch IH] using node_ind2. intro E.
  destruct (is_fndef v) eqn:D.
  - rewrite fnp_top_defs_def in E by exact D. discriminate.
  - rewrite fnp_top_defs_node in E by exact D. cbn [nofn]. rewrite D. cbn [negb andb].
    apply forallb_forall. intros c Hc. rewrite Forall_forall in IH. apply IH; [exact Hc|].
    eapply fnp_flat_map_nil; eassumption.
Qed.

Lemma fnp_top_defs_allv P : forall n, fnp_allv P n = true -> Forall (fun d => fnp_allv P d = true) (top_defs n).
Proof.
  induction n as [v sp ch IH] using node_ind2. intro A.
  destruct (is_fndef v) eqn:D.
  - rewrite fnp_top_defs_def by exact D. constructor; [exact A|constructor].
  - rewrite fnp_top_defs_node by exact D. cbn [fnp_allv] in A. apply andb_true_iff in A as [_ A].
    rewrite forallb_forall in A. apply Forall_forall. intros d Hd.
    apply in_flat_map in Hd as [c [Hc Hd]]. rewrite Forall_forall in IH.
    specialize (IH c Hc (A c Hc)). rewrite Forall_forall in IH. apply IH, Hd.
Qed.

Lemma fnp_top_defs_leaf : forall n, no_nested_defs n = true -> Forall (fun d => fn_leaf d = true) (top_defs n).
Proof.
  induction n as [v sp ch IH] using node_ind2. intro A.
  destruct (is_fndef v) eqn:D.
  - rewrite fnp_top_defs_def by exact D. constructor; [|constructor].
    rewrite fnp_nnd_def' in A by exact D. unfold fn_leaf. cbn [nval nch]. rewrite D, A. reflexivity.
  - rewrite fnp_top_defs_node by exact D. rewrite fnp_nnd_node in A by exact D.
    rewrite forallb_forall in A. apply Forall_forall. intros d Hd.
    apply in_flat_map in Hd as [c [Hc Hd]]. rewrite Forall_forall in IH.
    specialize (IH c Hc (A c Hc)). rewrite Forall_forall in IH. apply IH, Hd.
Qed.

(* ------------------------------------------------------------------ s3: the context lemma *)
Definition fnp_pkind (o : option node_value) : option (option nat) :=
  match o with
  | Some (Table t) => Some (Some (length (t_aligns t)))
  | Some (TableRow _) => Some None
  | _ => None
  end.
Definition fnp_gkind (o : option node_value) : bool :=
  match o with Some (Table _) => true | _ => false end.

Lemma fnp_pk_gk a b : fnp_pkind a = fnp_pkind b -> fnp_gkind a = fnp_gkind b.
Proof. destruct a as [[]|], b as [[]|]; cbn [fnp_pkind fnp_gkind]; intro H; try reflexivity; discriminate. Qed.

Lemma fnp_s3_ctx : forall n pv gv pv' gv',
  fnp_pkind pv = fnp_pkind pv' -> fnp_gkind gv = fnp_gkind gv' -> s3_go pv gv n = s3_go pv' gv' n.
Proof.
  induction n as [v sp ch IH] using node_ind2. intros pv gv pv' gv' Hp Hg.
  cbn [s3_go]. f_equal.
  - destruct v; try reflexivity.
    + (* TableRow *)
      destruct pv as [[]|], pv' as [[]|]; cbn [fnp_pkind] in Hp; try discriminate; try reflexivity.
      injection Hp as Hp. rewrite Hp. reflexivity.
    + (* TableCell *)
      destruct pv as [[]|], pv' as [[]|]; cbn [fnp_pkind] in Hp; try discriminate; try reflexivity.
      destruct gv as [[]|], gv' as [[]|]; cbn [fnp_gkind] in Hg; try discriminate; reflexivity.
  - apply fnp_forallb_eq. eapply Forall_impl; [|exact IH].
    intros c Hc. apply Hc; [reflexivity | apply fnp_pk_gk, Hp].
Qed.

(* a definition looks at its context only through: is the parent a Table *)
Lemma fnp_s3_ctx_def v sp ch pv gv pv' gv' : is_fndef v = true -> fnp_gkind pv = fnp_gkind pv' ->
  s3_go pv gv (Node v sp ch) = s3_go pv' gv' (Node v sp ch).
Proof.
  destruct v; cbn [is_fndef]; intros D G; try discriminate. cbn [s3_go andb].
  apply fnp_forallb_eq, Forall_forall. intros c _. apply fnp_s3_ctx; [reflexivity|exact G].
Qed.

Lemma fnp_row_not_def h c : is_row_of h c = true -> negb (is_def c) = true.
Proof. unfold is_row_of, is_def. destruct (nval c); intro H; try discriminate; reflexivity. Qed.
Lemma fnp_cell_not_def c : is_cell c = true -> negb (is_def c) = true.
Proof. unfold is_cell, is_def. destruct (nval c); intro H; try discriminate; reflexivity. Qed.

Lemma fnp_tco_no_def ch : table_children_ok ch = true -> forallb (fun c => negb (is_def c)) ch = true.
Proof.
  destruct ch as [|r rs]; cbn [table_children_ok forallb]; [discriminate|].
  intro H. apply andb_true_iff in H as [H1 H2]. rewrite (fnp_row_not_def _ _ H1). cbn [andb].
  apply forallb_forall. intros c Hc. rewrite forallb_forall in H2. eapply fnp_row_not_def, H2, Hc.
Qed.

(* a definition whose parent is not a Table satisfies s3_go in the root context *)
Lemma fnp_top_defs_s3 : forall n pv gv,
  s3_go pv gv n = true -> (is_def n = true -> fnp_gkind pv = false) ->
  Forall (fun d => s3_go None None d = true) (top_defs n).
Proof.
  induction n as [v sp ch IH] using node_ind2. intros pv gv S G.
  destruct (is_fndef v) eqn:D.
  - rewrite fnp_top_defs_def by exact D. constructor; [|constructor].
    etransitivity; [|exact S]. apply fnp_s3_ctx_def; [exact D|]. rewrite (G D). reflexivity.
  - rewrite fnp_top_defs_node by exact D. cbn [s3_go] in S. apply andb_true_iff in S as [Sv Sc].
    rewrite forallb_forall in Sc. apply Forall_forall. intros d Hd.
    apply in_flat_map in Hd as [c [Hc Hd]]. rewrite Forall_forall in IH.
    assert (is_def c = true -> fnp_gkind (Some v) = false) as Gc.
    { intro Dc. destruct v; try reflexivity.
      apply fnp_tco_no_def in Sv. rewrite forallb_forall in Sv. specialize (Sv c Hc).
      rewrite Dc in Sv. discriminate. }
    specialize (IH c Hc (Some v) pv (Sc c Hc) Gc). rewrite Forall_forall in IH. apply IH, Hd.
Qed.

(* ------------------------------------------------------------------ cleanup *)
Lemma fnp_cleanup_nval n : nval (cleanup n) = nval n.
Proof.
  destruct n as [v sp ch]. destruct (is_fndef v) eqn:D.
  - rewrite fnp_cleanup_def by exact D. reflexivity.
  - rewrite fnp_cleanup_node by exact D. reflexivity.
Qed.

Lemma fnp_cleanup_nofn : forall n, is_def n = false -> nofn (cleanup n) = true.
Proof.
  induction n as [v sp ch IH] using node_ind2. rewrite fnp_is_def_eq. cbn [nval]. intro D.
  rewrite fnp_cleanup_node by exact D. cbn [nofn]. rewrite D. cbn [negb andb].
  rewrite fnp_cleanup_go_map. apply forallb_forall. intros x Hx.
  apply in_map_iff in Hx as [c [<- Hc]]. apply filter_In in Hc as [Hc Dc].
  rewrite Forall_forall in IH. apply IH; [exact Hc|]. destruct (is_def c); [discriminate|reflexivity].
Qed.

Lemma fnp_cleanup_allv P : forall n, fnp_allv P n = true -> fnp_allv P (cleanup n) = true.
Proof.
  induction n as [v sp ch IH] using node_ind2. intro A.
  destruct (is_fndef v) eqn:D.
  - rewrite fnp_cleanup_def by exact D. exact A.
  - rewrite fnp_cleanup_node by exact D. cbn [fnp_allv] in *. apply andb_true_iff in A as [A1 A2].
    rewrite A1. cbn [andb]. rewrite fnp_cleanup_go_map. apply forallb_forall. intros x Hx.
    apply in_map_iff in Hx as [c [<- Hc]]. apply filter_In in Hc as [Hc _].
    rewrite Forall_forall in IH. rewrite forallb_forall in A2. apply IH; auto.
Qed.

Lemma fnp_forallb_map_cleanup (p : node -> bool) l :
  (forall c, p (cleanup c) = p c) -> forallb p (map cleanup l) = forallb p l.
Proof. intro H. induction l as [|c r IH]; cbn [map forallb]; [reflexivity|]. rewrite H, IH. reflexivity. Qed.

Lemma fnp_is_row_of_cleanup h c : is_row_of h (cleanup c) = is_row_of h c.
Proof. unfold is_row_of. rewrite fnp_cleanup_nval. reflexivity. Qed.
Lemma fnp_is_cell_cleanup c : is_cell (cleanup c) = is_cell c.
Proof. unfold is_cell. rewrite fnp_cleanup_nval. reflexivity. Qed.

Lemma fnp_cleanup_s3 : forall n pv gv, s3_go pv gv n = true -> s3_go pv gv (cleanup n) = true.
Proof.
  induction n as [v sp ch IH] using node_ind2. intros pv gv S.
  destruct (is_fndef v) eqn:D.
  - rewrite fnp_cleanup_def by exact D. exact S.
  - rewrite fnp_cleanup_node by exact D. cbn [s3_go] in *. apply andb_true_iff in S as [Sv Sc].
    apply andb_true_iff. split.
    + destruct v; try exact Sv.
      * (* Table *)
        rewrite fnp_cleanup_go_map, (fnp_filter_id _ _ (fnp_tco_no_def _ Sv)).
        destruct ch as [|r rs]; cbn [table_children_ok map] in *; [discriminate|].
        rewrite fnp_is_row_of_cleanup, (fnp_forallb_map_cleanup (is_row_of false) rs (fnp_is_row_of_cleanup false)).
        exact Sv.
      * (* TableRow *)
        destruct pv as [[]|]; try discriminate.
        apply andb_true_iff in Sv as [S1 S2].
        assert (forallb (fun c => negb (is_def c)) ch = true) as ND.
        { apply forallb_forall. intros c Hc. rewrite forallb_forall in S1. apply fnp_cell_not_def, S1, Hc. }
        rewrite fnp_cleanup_go_map, (fnp_filter_id _ _ ND), map_length, S2.
        rewrite (fnp_forallb_map_cleanup _ _ fnp_is_cell_cleanup), S1. reflexivity.
    + rewrite fnp_cleanup_go_map. apply forallb_forall. intros x Hx.
      apply in_map_iff in Hx as [c [<- Hc]]. apply filter_In in Hc as [Hc _].
      rewrite Forall_forall in IH. rewrite forallb_forall in Sc. apply IH; auto.
Qed.

(* ------------------------------------------------------------------ the reference walk as a relation *)
Definition fnp_is_tr (v : node_value) : bool :=
  match v with Text _ => true | FootnoteReference _ _ _ => true | _ => false end.

(* what refs does to a tree, with the state forgotten *)
Inductive fnp_rr : node -> node -> Prop :=
| fnp_rr_ref : forall v sp ch v', is_ref v = true -> fnp_is_tr v' = true -> fnp_rr (Node v sp ch) (Node v' sp ch)
| fnp_rr_other : forall v sp ch ch', is_ref v = false -> Forall2 fnp_rr ch ch' -> fnp_rr (Node v sp ch) (Node v sp ch').

Lemma fnp_ref_tr_fndef v v' : is_ref v = true -> fnp_is_tr v' = true -> is_fndef v = false /\ is_fndef v' = false.
Proof.
  destruct v; cbn [is_ref]; intro H; try discriminate.
  destruct v'; cbn [fnp_is_tr]; intro H'; try discriminate; split; reflexivity.
Qed.

Lemma fnp_ref_tr_pkind v v' : is_ref v = true -> fnp_is_tr v' = true -> fnp_pkind (Some v') = fnp_pkind (Some v).
Proof.
  destruct v; cbn [is_ref]; intro H; try discriminate.
  destruct v'; cbn [fnp_is_tr]; intro H'; try discriminate; reflexivity.
Qed.

Lemma fnp_ref_tr_s3val v v' pv gv sp ch : is_ref v = true -> fnp_is_tr v' = true ->
  s3_go pv gv (Node v' sp ch) = s3_go pv gv (Node v sp ch).
Proof.
  intros H H'.
  destruct v; cbn [is_ref] in H; try discriminate.
  destruct v'; cbn [fnp_is_tr] in H'; try discriminate; cbn [s3_go andb];
    apply fnp_forallb_eq, Forall_forall; intros c _; apply fnp_s3_ctx; reflexivity.
Qed.

Lemma fnp_rr_nval n n' : fnp_rr n n' ->
  nval n' = nval n \/ (is_ref (nval n) = true /\ fnp_is_tr (nval n') = true).
Proof. inversion 1; subst; cbn [nval]; auto. Qed.

Lemma fnp_rr_is_fndef n n' : fnp_rr n n' -> is_fndef (nval n') = is_fndef (nval n).
Proof.
  intro H. destruct (fnp_rr_nval _ _ H) as [->|[A B]]; [reflexivity|].
  destruct (fnp_ref_tr_fndef _ _ A B) as [-> ->]. reflexivity.
Qed.

Lemma fnp_rr_is_row_of h n n' : fnp_rr n n' -> is_row_of h n' = is_row_of h n.
Proof.
  intro H. unfold is_row_of. destruct (fnp_rr_nval _ _ H) as [->|[A B]]; [reflexivity|].
  destruct (nval n); cbn [is_ref] in A; try discriminate.
  destruct (nval n'); cbn [fnp_is_tr] in B; try discriminate; reflexivity.
Qed.

Lemma fnp_rr_is_cell n n' : fnp_rr n n' -> is_cell n' = is_cell n.
Proof.
  intro H. unfold is_cell. destruct (fnp_rr_nval _ _ H) as [->|[A B]]; [reflexivity|].
  destruct (nval n); cbn [is_ref] in A; try discriminate.
  destruct (nval n'); cbn [fnp_is_tr] in B; try discriminate; reflexivity.
Qed.

Lemma fnp_rr_nofn : forall n n', fnp_rr n n' -> nofn n' = nofn n.
Proof.
  induction n as [v sp ch IH] using node_ind2. intros n' H.
  inversion H as [? ? ? v' R T|? ? ? ch' R F]; subst.
  - cbn [nofn]. destruct (fnp_ref_tr_fndef _ _ R T) as [-> ->]. reflexivity.
  - cbn [nofn]. rewrite (fnp_F2_forallb fnp_rr nofn nofn ch ch' F IH). reflexivity.
Qed.

Lemma fnp_rr_allv P : (forall v, fnp_is_tr v = true -> P v = true) ->
  forall n n', fnp_rr n n' -> fnp_allv P n = true -> fnp_allv P n' = true.
Proof.
  intro HP. induction n as [v sp ch IH] using node_ind2. intros n' H A.
  inversion H as [? ? ? v' R T|? ? ? ch' R F]; subst; cbn [fnp_allv] in *;
    apply andb_true_iff in A as [A1 A2].
  - rewrite (HP _ T), A2. reflexivity.
  - rewrite A1. cbn [andb]. eapply fnp_F2_forallb_imp; [exact F|exact IH|exact A2].
Qed.

Lemma fnp_rr_nnd : forall n n', fnp_rr n n' -> no_nested_defs n' = no_nested_defs n.
Proof.
  induction n as [v sp ch IH] using node_ind2. intros n' H.
  inversion H as [? ? ? v' R T|? ? ? ch' R F]; subst.
  - destruct (fnp_ref_tr_fndef _ _ R T) as [D D'].
    rewrite !fnp_nnd_node by assumption. reflexivity.
  - destruct (is_fndef v) eqn:D.
    + rewrite !fnp_nnd_def' by exact D. eapply fnp_F2_forallb; [exact F|].
      apply Forall_forall. intros c _ c' Hc. apply fnp_rr_nofn, Hc.
    + rewrite !fnp_nnd_node by exact D. eapply fnp_F2_forallb; [exact F|exact IH].
Qed.

Lemma fnp_rr_tco ch ch' : Forall2 fnp_rr ch ch' -> table_children_ok ch' = table_children_ok ch.
Proof.
  intro F. inversion F as [|x x' r r' Hx Hr]; subst; [reflexivity|].
  cbn [table_children_ok]. rewrite (fnp_rr_is_row_of _ _ _ Hx). f_equal.
  eapply fnp_F2_forallb; [exact Hr|]. apply Forall_forall. intros c _ c' Hc. apply fnp_rr_is_row_of, Hc.
Qed.

Lemma fnp_rr_s3 : forall n n', fnp_rr n n' -> forall pv gv, s3_go pv gv n' = s3_go pv gv n.
Proof.
  induction n as [v sp ch IH] using node_ind2. intros n' H pv gv.
  inversion H as [? ? ? v' R T|? ? ? ch' R F]; subst.
  - apply fnp_ref_tr_s3val; assumption.
  - cbn [s3_go]. f_equal.
    + destruct v; try reflexivity.
      * apply fnp_rr_tco, F.
      * destruct pv as [[]|]; try reflexivity.
        rewrite (fnp_F2_length _ _ _ F). f_equal.
        eapply fnp_F2_forallb; [exact F|]. apply Forall_forall. intros c _ c' Hc. apply fnp_rr_is_cell, Hc.
    + eapply fnp_F2_forallb; [exact F|]. eapply Forall_impl; [|exact IH].
      intros c Hc c' Hcc. apply Hc, Hcc.
Qed.

Lemma fnp_map_set_length e m : length (map_set e m) = length m.
Proof.
  induction m as [|x r IH]; cbn [map_set length]; [reflexivity|].
  destruct (bytes_eqb (f_key x) (f_key e)); cbn [length]; congruence.
Qed.

Lemma fnp_map_insert_not_nil e m : map_insert e m <> [].
Proof. destruct m as [|x r]; cbn [map_insert]; [discriminate|]. destruct (bytes_eqb _ _); discriminate. Qed.

Section FnP.
  Variable fold : bytes -> bytes.
  Variable pres : bytes -> bytes.
  Variable perm : list fdef -> list fdef.

  Lemma fnp_refs_rr : forall n st, fnp_rr n (fst (refs fold pres n st)).
  Proof.
    induction n as [v sp ch IH] using node_ind2. intros st.
    destruct (is_ref v) eqn:R.
    - destruct v; try discriminate. cbn [refs].
      destruct (map_get (fold name) (fst st)) as [f|].
      + destruct (f_ix f); cbn [fst]; apply fnp_rr_ref; reflexivity.
      + cbn [fst]. apply fnp_rr_ref; reflexivity.
    - rewrite refs_nonref by exact R.
      assert (forall st, Forall2 fnp_rr ch (fst (refs_list fold pres ch st))) as L.
      { clear st. induction IH as [|c r Hc _ IHr]; intros st; cbn [refs_list]; [constructor|].
        specialize (Hc st). destruct (refs fold pres c st) as [c' st1]. cbn [fst] in Hc.
        specialize (IHr st1). destruct (refs_list fold pres r st1) as [r' st2]. cbn [fst] in *.
        constructor; assumption. }
      specialize (L st). destruct (refs_list fold pres ch st) as [ch' st']. cbn [fst] in *.
      apply fnp_rr_other; assumption.
  Qed.

  Lemma fnp_refs_maplen : forall n st,
    length (fst (snd (refs fold pres n st))) = length (fst st).
  Proof.
    induction n as [v sp ch IH] using node_ind2. intros st.
    destruct (is_ref v) eqn:R.
    - destruct v; try discriminate. cbn [refs].
      destruct (map_get (fold name) (fst st)) as [f|]; [|reflexivity].
      destruct (f_ix f); cbn [fst snd]; apply fnp_map_set_length.
    - rewrite refs_nonref by exact R.
      assert (forall st, length (fst (snd (refs_list fold pres ch st))) = length (fst st)) as L.
      { clear st. induction IH as [|c r Hc _ IHr]; intros st; cbn [refs_list]; [reflexivity|].
        specialize (Hc st). destruct (refs fold pres c st) as [c' st1]. cbn [fst snd] in Hc.
        specialize (IHr st1). destruct (refs_list fold pres r st1) as [r' st2]. cbn [fst snd] in *.
        congruence. }
      specialize (L st). destruct (refs_list fold pres ch st) as [ch' st']. cbn [fst snd] in *. exact L.
  Qed.

  Lemma fnp_collect_nil : forall defs idx m, collect fold pres defs idx m = [] -> defs = [] /\ m = [].
  Proof.
    induction defs as [|d r IH]; intros idx m H; cbn [collect] in H; [auto|].
    apply IH in H as [_ H]. exfalso. exact (fnp_map_insert_not_nil _ _ H).
  Qed.

  Lemma fnp_appended_from m defs :
    Forall (fun a => exists f d, In d defs /\ a = set_def f d) (appended perm m defs).
  Proof.
    unfold appended. apply Forall_forall. intros a Ha.
    apply in_flat_map in Ha as [f [_ Ha]]. cbv beta in Ha.
    destruct (nth_error defs (f_idx f)) as [d|] eqn:E; [|contradiction].
    destruct Ha as [<-|[]]. exists f, d. split; [eapply nth_error_In, E|reflexivity].
  Qed.

  (* the result of process: the walked tree, cleaned (or free of definitions), plus appended nodes that
     are renamed top-level definitions of the walked tree *)
  Lemma fnp_process_shape root :
    exists root1 root2 app,
      fnp_rr root root1 /\
      ((root2 = root1 /\ top_defs root = []) \/ root2 = cleanup root1) /\
      Forall (fun a => exists f d, In d (top_defs root1) /\ a = set_def f d) app /\
      process fold pres perm root = Node (nval root2) (nsp root2) (nch root2 ++ app).
  Proof.
    unfold process.
    pose proof (fnp_refs_rr root (collect fold pres (top_defs root) 0 [], 0%N)) as R.
    pose proof (fnp_refs_maplen root (collect fold pres (top_defs root) 0 [], 0%N)) as L.
    destruct (refs fold pres root (collect fold pres (top_defs root) 0 [], 0%N)) as [root1 [m1 ix]].
    cbn [fst snd] in *. cbv beta iota zeta.
    remember (match m1 with [] => root1 | _ :: _ => cleanup root1 end) as root2 eqn:E2.
    assert ((root2 = root1 /\ top_defs root = []) \/ root2 = cleanup root1) as Dj.
    { destruct m1 as [|x r]; [left|right; exact E2]. split; [exact E2|].
      cbn [length] in L. symmetry in L. apply length_zero_iff_nil in L.
      apply fnp_collect_nil in L as [L _]. exact L. }
    destruct (0 <? ix)%N.
    - exists root1, root2, (appended perm m1 (top_defs root1)).
      split; [exact R|]. split; [exact Dj|]. split; [apply fnp_appended_from|].
      destruct root2 as [v sp ch]. reflexivity.
    - exists root1, root2, []. split; [exact R|]. split; [exact Dj|]. split; [constructor|].
      rewrite app_nil_r. destruct root2 as [v sp ch]. reflexivity.
  Qed.

  (* common facts about the pieces *)
  Lemma fnp_root2_facts root root1 root2 :
    is_def root = false -> fnp_rr root root1 ->
    ((root2 = root1 /\ top_defs root = []) \/ root2 = cleanup root1) ->
    is_fndef (nval root2) = false /\ forallb nofn (nch root2) = true.
  Proof.
    intros D R Dj. rewrite fnp_is_def_eq in D.
    assert (is_fndef (nval root1) = false) as D1 by (rewrite (fnp_rr_is_fndef _ _ R); exact D).
    destruct Dj as [[-> T]| ->].
    - split; [exact D1|]. apply fnp_nofn_children. rewrite (fnp_rr_nofn _ _ R).
      apply fnp_top_defs_nil_nofn, T.
    - split; [rewrite fnp_cleanup_nval; exact D1|]. apply fnp_nofn_children, fnp_cleanup_nofn. exact D1.
  Qed.

  Lemma fnp_app_defs root1 app :
    Forall (fun a => exists f d, In d (top_defs root1) /\ a = set_def f d) app ->
    Forall (fun a => is_fndef (nval a) = true) app.
  Proof.
    intro F. eapply Forall_impl; [|exact F]. intros a [f [d [Hd ->]]].
    pose proof (fnp_top_defs_are_defs root1) as T. rewrite Forall_forall in T.
    rewrite (fnp_set_def_def f d (T d Hd)). reflexivity.
  Qed.
End FnP.

(* ------------------------------------------------------------------ list-level clauses *)
Lemma fnp_s6w_list_app ch app :
  forallb nofn ch = true -> Forall (fun a => is_fndef (nval a) = true) app -> s6w_list (ch ++ app) = true.
Proof.
  intros N F. induction ch as [|x r IH]; cbn [List.app s6w_list].
  - destruct F as [|a l Ha _]; cbn [s6w_list]; [reflexivity|]. rewrite Ha. reflexivity.
  - cbn [forallb] in N. apply andb_true_iff in N as [N1 N2].
    rewrite (fnp_nofn_not_def _ N1), N1, (IH N2). reflexivity.
Qed.

Lemma fnp_tail_body_app ch app :
  forallb nofn ch = true -> Forall (fun a => is_fndef (nval a) = true) app ->
  tail_part (ch ++ app) = app /\ body_part (ch ++ app) = ch.
Proof.
  intros N F. induction ch as [|x r IH]; cbn [List.app tail_part body_part].
  - destruct F as [|a l Ha _]; cbn [tail_part body_part]; [auto|].
    rewrite fnp_is_fdef_eq, Ha. auto.
  - cbn [forallb] in N. apply andb_true_iff in N as [N1 N2].
    rewrite fnp_is_fdef_eq, (fnp_nofn_not_def _ N1). destruct (IH N2) as [-> ->]. auto.
Qed.

Lemma fnp_s6_list_app ch app :
  forallb nofn ch = true -> Forall (fun a => fn_leaf a = true) app -> s6_list (ch ++ app) = true.
Proof.
  intros N F. induction ch as [|x r IH]; cbn [List.app s6_list].
  - destruct F as [|a l Fa Fl]; [reflexivity|]. cbn [s6_list].
    pose proof Fa as Fa'. unfold fn_leaf in Fa'. apply andb_true_iff in Fa' as [Fd _].
    rewrite Fd. cbn [forallb]. rewrite Fa. cbn [andb].
    apply forallb_forall. rewrite Forall_forall in Fl. exact Fl.
  - cbn [forallb] in N. apply andb_true_iff in N as [N1 N2].
    rewrite (fnp_nofn_not_def _ N1), N1, (IH N2). reflexivity.
Qed.

(* ------------------------------------------------------------------ the theorems *)
Section FnT.
  Variable fold : bytes -> bytes.
  Variable pres : bytes -> bytes.
  Variable perm : list fdef -> list fdef.

  (* A *)
  Theorem fnp_s6w_process root :
    is_def root = false -> s6w (process fold pres perm root) = true.
  Proof.
    intro D. destruct (fnp_process_shape fold pres perm root) as [root1 [root2 [app [R [Dj [FA E]]]]]].
    rewrite E. destruct (fnp_root2_facts root root1 root2 D R Dj) as [_ N].
    unfold s6w. cbn [nch]. apply fnp_s6w_list_app; [exact N|]. eapply fnp_app_defs, FA.
  Qed.

  (* B: Props/C15.v C15_defs_at_root_tail_full_statement, WITHOUT its Permutation hypothesis *)
  Theorem fnp_defs_at_root_tail root :
    is_def root = false -> defs_at_root_tail (process fold pres perm root) = true.
  Proof.
    intro D. destruct (fnp_process_shape fold pres perm root) as [root1 [root2 [app [R [Dj [FA E]]]]]].
    rewrite E. destruct (fnp_root2_facts root root1 root2 D R Dj) as [D2 N].
    pose proof (fnp_app_defs _ _ FA) as FD.
    unfold defs_at_root_tail. rewrite fnp_is_fdef_eq. cbn [nval nch]. rewrite D2. cbn [negb andb].
    destruct (fnp_tail_body_app _ _ N FD) as [-> ->].
    apply andb_true_iff. split.
    - apply forallb_forall. rewrite Forall_forall in FD. intros a Ha. rewrite fnp_is_fdef_eq. apply FD, Ha.
    - rewrite (fnp_exists_negb_forall contains_def nofn), N; [reflexivity|].
      apply Forall_forall. intros c _. apply fnp_contains_def_nofn.
  Qed.

  (* C *)
  Theorem fnp_s6_process root :
    is_def root = false -> no_nested_defs root = true -> s6 (process fold pres perm root) = true.
  Proof.
    intros D NN. destruct (fnp_process_shape fold pres perm root) as [root1 [root2 [app [R [Dj [FA E]]]]]].
    rewrite E. destruct (fnp_root2_facts root root1 root2 D R Dj) as [D2 N].
    unfold s6. cbn [nval nch]. rewrite D2. cbn [negb andb].
    apply fnp_s6_list_app; [exact N|].
    assert (no_nested_defs root1 = true) as NN1 by (rewrite (fnp_rr_nnd _ _ R); exact NN).
    pose proof (fnp_top_defs_leaf _ NN1) as TL. rewrite Forall_forall in TL.
    pose proof (fnp_top_defs_are_defs root1) as TD. rewrite Forall_forall in TD.
    eapply Forall_impl; [|exact FA]. intros a [f [d [Hd ->]]].
    rewrite (fnp_set_def_def f d (TD d Hd)). specialize (TL d Hd).
    unfold fn_leaf in *. cbn [nval nch is_fndef andb]. apply andb_true_iff in TL as [_ TL]. exact TL.
  Qed.

  (* D *)
  Theorem fnp_s2_process root : s2 root = true -> s2 (process fold pres perm root) = true.
  Proof.
    intro S. destruct (fnp_process_shape fold pres perm root) as [root1 [root2 [app [R [Dj [FA E]]]]]].
    rewrite E. unfold s2 in *. cbn [nval].
    assert (nval root1 = nval root) as E1.
    { destruct (fnp_rr_nval _ _ R) as [H|[H _]]; [exact H|].
      destruct (nval root); cbn [is_document is_ref] in *; discriminate. }
    destruct Dj as [[-> _]| ->]; [|rewrite fnp_cleanup_nval]; rewrite E1; exact S.
  Qed.

  Lemma fnp_allv_process P root :
    (forall v, fnp_is_tr v = true -> P v = true) -> (forall a b, P (FootnoteDefinition a b) = true) ->
    fnp_allv P root = true -> fnp_allv P (process fold pres perm root) = true.
  Proof.
    intros PT PD A.
    destruct (fnp_process_shape fold pres perm root) as [root1 [root2 [app [R [Dj [FA E]]]]]].
    rewrite E.
    assert (fnp_allv P root1 = true) as A1 by (eapply fnp_rr_allv; eassumption).
    assert (fnp_allv P root2 = true) as A2.
    { destruct Dj as [[-> _]| ->]; [exact A1|apply fnp_cleanup_allv, A1]. }
    destruct root2 as [v sp ch]. cbn [nval nsp nch fnp_allv] in *. apply andb_true_iff in A2 as [A21 A22].
    rewrite A21, forallb_app, A22. cbn [andb].
    pose proof (fnp_top_defs_allv P _ A1) as TA. rewrite Forall_forall in TA.
    pose proof (fnp_top_defs_are_defs root1) as TD. rewrite Forall_forall in TD.
    apply forallb_forall. rewrite Forall_forall in FA. intros a Ha.
    destruct (FA a Ha) as [f [d [Hd ->]]].
    rewrite (fnp_set_def_def f d (TD d Hd)). specialize (TA d Hd).
    destruct d as [dv dsp dch]. cbn [fnp_allv nsp nch] in *. apply andb_true_iff in TA as [_ TA].
    rewrite PD, TA. reflexivity.
  Qed.

  Theorem fnp_s4_process root : s4 root = true -> s4 (process fold pres perm root) = true.
  Proof.
    rewrite !fnp_s4_allv. apply fnp_allv_process.
    - intros v; destruct v; cbn [fnp_is_tr]; intro H; try discriminate; reflexivity.
    - intros a b; reflexivity.
  Qed.

  Theorem fnp_s7_process root : s7 root = true -> s7 (process fold pres perm root) = true.
  Proof.
    rewrite !fnp_s7_allv. apply fnp_allv_process.
    - intros v; destruct v; cbn [fnp_is_tr]; intro H; try discriminate; reflexivity.
    - intros a b; reflexivity.
  Qed.

  Theorem fnp_s3_process root :
    s2 root = true -> s3 root = true -> s3 (process fold pres perm root) = true.
  Proof.
    intros S2 S3.
    pose proof (fnp_s2_process root S2) as S2'.
    destruct (fnp_process_shape fold pres perm root) as [root1 [root2 [app [R [Dj [FA E]]]]]].
    rewrite E in S2'. rewrite E. unfold s3 in *. unfold s2 in S2'. cbn [nval] in S2'.
    assert (s3_go None None root1 = true) as S1 by (rewrite (fnp_rr_s3 _ _ R); exact S3).
    assert (s3_go None None root2 = true) as SR2.
    { destruct Dj as [[-> _]| ->]; [exact S1|apply fnp_cleanup_s3, S1]. }
    destruct root2 as [v sp ch]. cbn [nval nsp nch] in *.
    destruct v; cbn [is_document] in S2'; try discriminate.
    cbn [s3_go andb] in *. rewrite forallb_app, SR2. cbn [andb].
    pose proof (fnp_top_defs_s3 root1 None None S1 (fun _ => eq_refl)) as TS. rewrite Forall_forall in TS.
    pose proof (fnp_top_defs_are_defs root1) as TD. rewrite Forall_forall in TD.
    apply forallb_forall. rewrite Forall_forall in FA. intros a Ha.
    destruct (FA a Ha) as [f [d [Hd ->]]].
    rewrite (fnp_set_def_def f d (TD d Hd)). specialize (TS d Hd). specialize (TD d Hd).
    destruct d as [dv dsp dch]. rewrite fnp_is_def_eq in TD. cbn [nval nsp nch] in *.
    destruct dv; cbn [is_fndef] in TD; try discriminate.
    cbn [s3_go andb] in *. etransitivity; [|exact TS].
    apply fnp_forallb_eq, Forall_forall. intros c _. apply fnp_s3_ctx; reflexivity.
  Qed.
End FnT.

(* C, second half: without no_nested_defs the strong clause s6 fails (finding F22's witness) *)
Lemma fnp_s6_needs_no_nested : s6 (process idb idb idp w_nested) = false.
Proof. vm_compute. reflexivity. Qed.

(* ------------------------------------------------------------------ E: non-vacuity *)
(* x[^a] / [^a]: a table (header row + one body row, one column) / [^b]: never referenced *)
Definition fnp_w_table : node :=
  nd Document
     [nd Paragraph [nd (Text [x78]) []; nd (FootnoteReference [x61] 0 0) []];
      nd (FootnoteDefinition [x61] 0)
         [nd (Table (mkTable 1 2 1 [ALeft]))
             [nd (TableRow true) [nd TableCell [nd (Text [x68]) []]];
              nd (TableRow false) [nd TableCell [nd (Text [x63]) []]]]];
      nd (FootnoteDefinition [x62] 0) [nd Paragraph [nd (Text [x79]) []]];
      nd (Heading 2 false) [nd (Text [x74]) []]].

Example fnp_example :
  is_def fnp_w_table = false /\ no_nested_defs fnp_w_table = true /\
  s2 fnp_w_table = true /\ s3 fnp_w_table = true /\ s4 fnp_w_table = true /\ s7 fnp_w_table = true /\
  s6 fnp_w_table = false /\
  process idb idb idp fnp_w_table =
    nd Document
       [nd Paragraph [nd (Text [x78]) []; nd (FootnoteReference [x61] 1 1) []];
        nd (Heading 2 false) [nd (Text [x74]) []];
        nd (FootnoteDefinition [x61] 1)
           [nd (Table (mkTable 1 2 1 [ALeft]))
               [nd (TableRow true) [nd TableCell [nd (Text [x68]) []]];
                nd (TableRow false) [nd TableCell [nd (Text [x63]) []]]]]] /\
  let t := process idb idb idp fnp_w_table in
  s2 t = true /\ s3 t = true /\ s4 t = true /\ s7 t = true /\ s6 t = true /\ s6w t = true /\
  defs_at_root_tail t = true.
Proof. repeat split; vm_compute; reflexivity. Qed.

Print Assumptions fnp_s6w_process.
Print Assumptions fnp_defs_at_root_tail.
Print Assumptions fnp_s6_process.
Print Assumptions fnp_s6_needs_no_nested.
Print Assumptions fnp_s2_process.
Print Assumptions fnp_s4_process.
Print Assumptions fnp_s7_process.
Print Assumptions fnp_s3_process.
Print Assumptions fnp_example.

