(* Proofs/BlocksTotal.v — towards Blocks_total_full_statement (Props/Blocks.v): `parse_blocks o x` answers Ok for
   every option set and every valid UTF-8 input.

   INVENTORY of the Panic sites of Model/Blocks.v and Model/RefDef.v, with the invariant that excludes each.
   Notation: L = the line process_line works on (norm_line of a line of Model/Feed.v), off / fns / col / fnsc =
   the cursor fields, `boundary k` = k is a character boundary of L.

   the line            (I-line)  L = l ++ [LF], l has no LF / CR / NUL, L is valid UTF-8
                                 PROVED here: lines_lf_utf8 (for every valid input)
   the cursor          (I-cur)   off <= |L|;  fns <= off (stale, rescanned by the next find_first_nonspace)  or
                                 fns = off + (number of spaces / tabs from off) and fnsc = the column reached after
                                 them (tab stops of 4, a partially consumed tab included);  after a rescan
                                 fns < |L| (look_ahead_in_bounds: the LF stops the scan)
     find_first_nonspace:first_nonspace_column - column      (I-cur): col <= fnsc.   PROVED: ffn_total
     advance_offset:line[self.offset]                        off + bytes consumed <= |L|.  PROVED for count <= |L| - off
                                                             (BlocksCursor.advance_offset_ok) and, in column mode from
                                                             a fresh cursor, for count <= indent + bytes from fns on
                                                             (advance_columns_total); where the cursor lands is not
     is_not_greentext / parse_block_quote_prefix / detect_* / handle_*: line[fns], line[fns + 1], line[off],
     line[fns..]: fns < |L| after a rescan; line[fns + 1] is read after line[fns] = `>` which is not the LF;
     line[off] after an advance that stopped before the LF (every scanner match stops before or at the LF)
     `a - b` on usize (first_nonspace - offset, fns + matched - offset, line.len() - 1 - offset,
     curline_len - offset - 1, column - save_column):   off <= fns, off <= |L| - 1, save_column <= column
     handle_alert:line[title_startpos]                        the scanner alert_start matched `[!type]`, so `]` exists
     handle_atx_heading: position(..).unwrap(), line[hashpos], level += 1 (u8)   Blocks_atx_level_1_6 (proved)
     handle_footnote: slice, str::from_utf8(c)                matched >= 2 (the scanner matched `[^x]:`), c ends before
                                                              `]` (ASCII) in valid UTF-8
     parse_html_block_prefix:unreachable!()                   block_type is 1..7 (the scanners html_block_start /
                                                              html_block_start_7 return 1..7)
     add_child:assert!(start_column > 0)                      every caller passes fns + 1, off + 1 or a start column
   the tree            (I-tree)  identifiers handed around are in the tree (PROVED for the ones read from the tree:
                                 get_of_parent, modify_total, ..); self.current and every node on the way up to the
                                 last matched container are open; only the root has no parent
     model:no-such-node, finalize_borrowed:assert!(ast.open), add_line:assert!(ast.open), every
     `.finalize(..).unwrap()`, check_open_blocks:container.parent().unwrap(), parse_desc_list_details: unwraps,
     arena_tree insert_after
     finalize_borrowed:self.line_number - 1                   process_line increments line_number first
     finalize_borrowed (fenced code): assert!(pos < content.len()), content[pos], String::from_utf8(tmp)
                                                              the content of a fenced block starts with the rest of
                                                              the fence line, which ends with LF; valid UTF-8.
                                                              PROVED under these two premises: finalize_total
     remove_trailing_blank_lines (indented code)              the content is not empty (add_line ran)
   UTF-8               (I-utf8)  off (and off + 1 when a tab is partially consumed) is a character boundary of L; every
                                 node content is valid UTF-8
     add_line: str::from_utf8(&line[self.offset..]).unwrap()  PROVED from (I-line) + boundary: add_line_total;
                                                              boundary from: off = 0, off >= |L|, L[off] ASCII
                                                              (e.g. the LF) or L[off - 1] ASCII: skipn_utf8
     resolve_reference_link_definitions: content[seeked..]    seeked = sum of positions after a line end (ASCII)
     link_label from_utf8, clean_url / clean_title from_utf8  slices of valid UTF-8 cut at ASCII bytes; entity
                                                              replacement yields valid UTF-8 (unescape_html_utf8)
     inlines.rs:peek_char_n:assert (c > 0)                    the content has no NUL: (I-line) and nothing inserts one
     table.rs: row slices, String::from_utf8(cell), try_inserting_table_header_paragraph slices / from_utf8,
     try_opening_header `content.len() - 2`, cell columns     scanner matches stay inside the string; cells are cut at
                                                              `|` (ASCII); the header paragraph has at least 2 bytes
   fuel                every loop on fuel decreases a measure bounded by the fuel it is given (ps_next bounds the depth of
                       the tree, |L| the cursor loops); NOT proved here.

   What this file proves (all Qed, for all inputs):
     lines_lf_utf8        (I-line) for every valid UTF-8 input
     skipn_utf8           a suffix of valid UTF-8 from a boundary is valid UTF-8 (four sufficient boundary conditions)
     fns_loop_spec, ffn_total, ffn_establishes   (I-cur) makes find_first_nonspace total and is established by it
     advance_columns_total  advance_offset in column mode (tabs, partially consumed tabs) from a fresh cursor
     modify_total, get_of_parent      tree access through identifiers read from the tree
     add_line_total       add_line under (I-line), open node, boundary
     finalize_total       finalize under: node present and open, line_number >= 1 or no current line, and per kind:
                          Paragraph: the reference-definition loop answers Ok; fenced code: content valid UTF-8 with a
                          line end that is LF; indented code: content not empty
   What is missing for the full statement: the preservation of (I-cur), (I-tree), (I-utf8) by every handler of
   open_new_blocks / check_open_blocks (this needs, per scanner, that a match ends inside the line at an ASCII
   byte, and where a column-mode advance lands), the closing loops (finalize_up_to, add_child_loop: chains of open
   ancestors), totality of parse_reference_inline on NUL-free valid content, the table functions, and the fuel bounds. *)
From Coq Require Import List NArith Arith Bool Lia Strings.String.
From V Require Import Base.Bytes Base.Res Gen.BlocksConst Gen.Nodes Gen.StrLeafGen Gen.Ctype Model.Ast Model.Strings Model.Entity Model.Scan
  Model.Feed Model.FrontMatter Model.RefDef Model.Blocks Spec.LineEndings Spec.EscapeSpec Spec.StrLeafSpec
  Proofs.FeedProofs Proofs.BlocksProofs Proofs.BlocksCursor Proofs.StrLeafProofs Proofs.StrLeafEntity.
From V Require Proofs.FrontMatterProofs Proofs.EscapeProofs.
Import ListNotations.
Local Open Scope string_scope.
Local Open Scope list_scope.

(* ================================================================== UTF-8: the decoder state after a prefix *)
Fixpoint ustate (st : ust) (s : bytes) : option ust :=
  match s with
  | [] => Some st
  | b :: r => match ustep st b with Some st' => ustate st' r | None => None end
  end.

Lemma utf8_run_ustate st s : utf8_run st s = true <-> ustate st s = Some U0.
Proof.
  revert st. induction s as [|b r IH]; intro st; cbn [utf8_run ustate].
  - destruct st; split; intro H; try reflexivity; try discriminate H; inversion H.
  - destruct (ustep st b); [apply IH | split; discriminate].
Qed.

Lemma ustate_app st a b :
  ustate st (a ++ b) = match ustate st a with Some st' => ustate st' b | None => None end.
Proof.
  revert st. induction a as [|x a IH]; intro st; cbn [app ustate]; [reflexivity|].
  destruct (ustep st x); [apply IH | reflexivity].
Qed.

(* the state before an ASCII byte of a valid string is the initial one, and so is the state after it *)
Lemma ustate_before_ascii a c b :
  ustate U0 (a ++ c :: b) = Some U0 -> is_ascii c = true -> ustate U0 a = Some U0 /\ ustate U0 (a ++ [c]) = Some U0.
Proof.
  intros H Hc. rewrite ustate_app in H. rewrite ustate_app.
  destruct (ustate U0 a) as [st|]; [|discriminate H]. cbn [ustate] in *.
  destruct (ustep st c) as [st'|] eqn:E; [|discriminate H].
  destruct (FrontMatterProofs.ustep_ascii _ _ _ Hc E) as [-> ->]. split; reflexivity.
Qed.

Lemma utf8_suffix a b : utf8_valid (a ++ b) = true -> ustate U0 a = Some U0 -> utf8_valid b = true.
Proof.
  unfold utf8_valid. intros H Ha. apply utf8_run_ustate in H. apply utf8_run_ustate.
  rewrite ustate_app, Ha in H. exact H.
Qed.

Lemma utf8_prefix a b : utf8_valid (a ++ b) = true -> ustate U0 a = Some U0 -> utf8_valid a = true.
Proof. intros _ Ha. apply utf8_run_ustate. exact Ha. Qed.

Lemma utf8_app a b : utf8_valid a = true -> utf8_valid b = true -> utf8_valid (a ++ b) = true.
Proof.
  unfold utf8_valid. intros Ha Hb. apply utf8_run_ustate in Ha. apply utf8_run_ustate in Hb. apply utf8_run_ustate.
  now rewrite ustate_app, Ha.
Qed.

(* k is a character boundary of line: four sufficient conditions the block parser meets *)
Definition at_boundary (line : bytes) (k : nat) : Prop :=
  k = 0 \/ List.length line <= k
  \/ (exists c, nth_error line k = Some c /\ is_ascii c = true)
  \/ (exists j c, k = S j /\ nth_error line j = Some c /\ is_ascii c = true).

Lemma nth_error_split_at (l : bytes) k c : nth_error l k = Some c -> l = firstn k l ++ c :: skipn (S k) l.
Proof.
  revert k. induction l as [|x r IH]; intros k H; [destruct k; discriminate H|].
  destruct k as [|k]; cbn in *; [now inversion H|]. f_equal. now apply IH.
Qed.

Lemma skipn_S_cons (l : bytes) k c : nth_error l k = Some c -> skipn k l = c :: skipn (S k) l.
Proof.
  revert k. induction l as [|x r IH]; intros k H; [destruct k; discriminate H|].
  destruct k as [|k]; cbn in *; [now inversion H|]. now apply IH.
Qed.

Theorem skipn_utf8 line k : utf8_valid line = true -> at_boundary line k -> utf8_valid (skipn k line) = true.
Proof.
  intros V [-> | [H | [[c [N A]] | [j [c [-> [N A]]]]]]].
  - exact V.
  - rewrite skipn_all2 by exact H. reflexivity.
  - pose proof (nth_error_split_at _ _ _ N) as E.
    assert (V' := V). rewrite E in V'. unfold utf8_valid in V'. apply utf8_run_ustate in V'.
    destruct (ustate_before_ascii _ _ _ V' A) as [S0 _].
    apply (utf8_suffix (firstn k line)); [now rewrite firstn_skipn | exact S0].
  - pose proof (nth_error_split_at _ _ _ N) as E.
    assert (V' := V). rewrite E in V'. unfold utf8_valid in V'. apply utf8_run_ustate in V'.
    destruct (ustate_before_ascii _ _ _ V' A) as [_ S1].
    apply (utf8_suffix (firstn j line ++ [c])); [|exact S1].
    rewrite <- app_assoc. cbn [app]. now rewrite <- E.
Qed.

(* ================================================================== (I-line): the lines of a valid input *)
Lemma fffd_state : ustate U0 fffd = Some U0.
Proof. reflexivity. Qed.

Lemma lines_from_utf8 : forall n s cur st, List.length s <= n ->
  ustate U0 cur = Some st -> utf8_run st s = true ->
  Forall (fun l => utf8_valid l = true) (lines_from cur s).
Proof.
  induction n as [|n IH]; intros s cur st Hn Hc Hs.
  - destruct s; [|cbn in Hn; lia]. cbn [lines_from]. cbn in Hs.
    destruct st; try discriminate Hs. destruct cur; constructor; [|constructor]. now apply utf8_run_ustate.
  - destruct s as [|b s']. { apply (IH [] cur st); [cbn; lia | exact Hc | exact Hs]. }
    cbn [List.length] in Hn. cbn [lines_from]. cbn [utf8_run] in Hs.
    destruct (ustep st b) as [st1|] eqn:E; [|discriminate Hs].
    assert (ASCII : is_ascii b = true -> st = U0 /\ st1 = U0) by (intro A; exact (FrontMatterProofs.ustep_ascii _ _ _ A E)).
    destruct (beqb b CR) eqn:Ecr.
    { apply beqb_eq in Ecr. subst b. destruct (ASCII eq_refl) as [-> ->].
      constructor; [now apply utf8_run_ustate|].
      destruct s' as [|c s'']; [apply (IH [] [] U0); [cbn; lia | reflexivity | exact Hs]|].
      destruct (beqb c LF) eqn:Elf.
      - apply beqb_eq in Elf. subst c. cbn [utf8_run] in Hs. change (ustep U0 LF) with (Some U0) in Hs.
        apply (IH s'' [] U0); [cbn in Hn; lia | reflexivity | exact Hs].
      - apply (IH (c :: s'') [] U0); [lia | reflexivity | exact Hs]. }
    destruct (beqb b LF) eqn:Elf.
    { apply beqb_eq in Elf. subst b. destruct (ASCII eq_refl) as [-> ->].
      constructor; [now apply utf8_run_ustate|]. apply (IH s' [] U0); [lia | reflexivity | exact Hs]. }
    destruct (beqb b NUL) eqn:Enul.
    { apply beqb_eq in Enul. subst b. destruct (ASCII eq_refl) as [-> ->].
      apply (IH s' (cur ++ fffd) U0); [lia | | exact Hs]. rewrite ustate_app, Hc. exact fffd_state. }
    apply (IH s' (cur ++ [b]) st1); [lia | | exact Hs]. rewrite ustate_app, Hc. cbn [ustate]. now rewrite E.
Qed.

Theorem lines_lf_utf8 x : utf8_valid x = true ->
  Forall (fun l => lf_terminated (norm_line l) /\ utf8_valid (norm_line l) = true /\ clean_line l = true) (lines x).
Proof.
  intro V. pose proof (lines_clean x) as C.
  assert (U : Forall (fun l => utf8_valid l = true) (lines x)).
  { rewrite lines_spec. unfold spec_lines. apply (lines_from_utf8 (List.length x) x [] U0 (le_n _) eq_refl V). }
  induction (lines x) as [|l r IH]; constructor.
  - inversion C; subst. inversion U; subst. rewrite (norm_line_clean l) by assumption.
    split; [now exists l|]. split; [|assumption]. apply utf8_app; [assumption | reflexivity].
  - inversion C; subst. inversion U; subst. now apply IH.
Qed.

(* ================================================================== (I-cur): find_first_nonspace *)
Definition ctt_of (col : nat) : nat := tab_stop - col mod tab_stop.

(* the column reached after the spaces and tabs at the front of s, starting in column col *)
Fixpoint col_after (s : bytes) (col : nat) : nat :=
  match s with
  | [] => col
  | b :: r => if beqb b x20 then col_after r (S col)
              else if beqb b x09 then col_after r (col + ctt_of col)
              else col
  end.

Fixpoint ws_len (s : bytes) : nat :=
  match s with
  | [] => 0
  | b :: r => if beqb b x20 then S (ws_len r) else if beqb b x09 then S (ws_len r) else 0
  end.

Lemma ctt_of_S col : (if Nat.eqb (ctt_of col - 1) 0 then tab_stop else ctt_of col - 1) = ctt_of (S col).
Proof.
  unfold ctt_of, tab_stop, gen_tab_stop.
  pose proof (Nat.div_mod_eq col 4). pose proof (Nat.mod_upper_bound col 4 ltac:(lia)).
  pose proof (Nat.div_mod_eq (S col) 4). pose proof (Nat.mod_upper_bound (S col) 4 ltac:(lia)).
  destruct (Nat.eqb (4 - col mod 4 - 1) 0) eqn:E; [apply Nat.eqb_eq in E | apply Nat.eqb_neq in E]; lia.
Qed.

Lemma ctt_of_tab col : tab_stop = ctt_of (col + ctt_of col).
Proof.
  unfold ctt_of, tab_stop, gen_tab_stop.
  pose proof (Nat.div_mod_eq col 4). pose proof (Nat.mod_upper_bound col 4 ltac:(lia)).
  pose proof (Nat.div_mod_eq (col + (4 - col mod 4)) 4). pose proof (Nat.mod_upper_bound (col + (4 - col mod 4)) 4 ltac:(lia)).
  lia.
Qed.

Lemma fns_loop_spec : forall s fns fnsc,
  fns_loop s fns fnsc (ctt_of fnsc) = (fns + ws_len s, col_after s fnsc).
Proof.
  induction s as [|b r IH]; intros fns fnsc; cbn [fns_loop ws_len col_after]. { f_equal; lia. }
  destruct (beqb b x20).
  - rewrite ctt_of_S, IH. f_equal; lia.
  - destruct (beqb b x09).
    + rewrite (ctt_of_tab fnsc), IH. f_equal; lia.
    + f_equal; lia.
Qed.

Lemma col_after_ge : forall s col, col <= col_after s col.
Proof.
  induction s as [|b r IH]; intro col; cbn [col_after]; [lia|].
  destruct (beqb b x20); [specialize (IH (S col)); lia|].
  destruct (beqb b x09); [specialize (IH (col + ctt_of col)); lia | lia].
Qed.

Lemma ws_len_le : forall s, ws_len s <= List.length s.
Proof. induction s as [|b r IH]; cbn [ws_len List.length]; [lia|]. destruct (beqb b x20); [lia|]. destruct (beqb b x09); lia. Qed.

(* the invariant of the cursor with respect to the line *)
Definition fresh_fns (c : cursor) (line : bytes) : Prop :=
  c_fns c = c_offset c + ws_len (skipn (c_offset c) line) /\
  c_fnsc c = col_after (skipn (c_offset c) line) (c_column c).

Definition CI (c : cursor) (line : bytes) : Prop :=
  c_offset c <= List.length line /\ (c_fns c <= c_offset c \/ fresh_fns c line).

Theorem ffn_total c line :
  CI c line ->
  exists c', find_first_nonspace c line = Ok c' /\ fresh_fns c' line /\ CI c' line
             /\ c_offset c' = c_offset c /\ c_column c' = c_column c /\ c_pct c' = c_pct c
             /\ c_offset c' <= c_fns c' <= List.length line /\ c_indent c' = c_fnsc c' - c_column c'.
Proof.
  intros [Hoff Hd]. unfold find_first_nonspace.
  assert (F : exists f fc, (if Nat.leb (c_fns c) (c_offset c)
                            then fns_loop (skipn (c_offset c) line) (c_offset c) (c_column c) (tab_stop - c_column c mod tab_stop)
                            else (c_fns c, c_fnsc c)) = (f, fc)
                           /\ f = c_offset c + ws_len (skipn (c_offset c) line)
                           /\ fc = col_after (skipn (c_offset c) line) (c_column c)).
  { destruct (Nat.leb (c_fns c) (c_offset c)) eqn:L.
    - change (tab_stop - c_column c mod tab_stop) with (ctt_of (c_column c)). rewrite fns_loop_spec. eauto.
    - apply Nat.leb_gt in L. destruct Hd as [Hd | [H1 H2]]; [lia|]. eauto. }
  destruct F as [f [fc [E [Ef Efc]]]]. rewrite E.
  pose proof (col_after_ge (skipn (c_offset c) line) (c_column c)) as G.
  pose proof (ws_len_le (skipn (c_offset c) line)) as W. rewrite skipn_length in W.
  unfold sub. destruct (Nat.ltb fc (c_column c)) eqn:L; [apply Nat.ltb_lt in L; lia|].
  cbn [bind]. eexists. split; [reflexivity|].
  match goal with |- fresh_fns ?c' _ /\ _ => assert (FR : fresh_fns c' line) by (split; cbn; [exact Ef | exact Efc]) end.
  split; [exact FR|]. split; [split; [cbn; exact Hoff | right; exact FR]|].
  cbn. subst f fc. repeat split; lia.
Qed.

(* at the start of a line (process_line resets the cursor, 3 after a byte order mark) the invariant holds *)
Lemma CI_start line k : k <= List.length line -> CI (mkCur k 0 0 0 0 false false 0) line.
Proof. intro H. split; [exact H|]. left. cbn. lia. Qed.

(* an advance that reaches or passes first_nonspace leaves a stale first_nonspace: the invariant holds *)
Lemma CI_after_advance c line count columns c' :
  c_offset c + count <= List.length line -> c_fns c <= c_offset c ->
  advance_offset c line count columns = Ok c' -> CI c' line.
Proof.
  intros H S A. destruct (advance_offset_ok c line count columns H) as [c2 [E [B F]]].
  rewrite E in A. inversion A; subst. split; [lia|]. left. lia.
Qed.

(* ================================================================== (I-tree): access through identifiers read from the tree *)
Lemma upd_some id f t n : find_node id t = Some n -> exists t', upd id f t = Some t'.
Proof. intro F. destruct (upd id f t) eqn:U; [eauto|]. apply upd_none_find in U. congruence. Qed.

Lemma modify_total st id f n : get st id = Ok n -> exists st', modify st id f = Ok st'.
Proof.
  intro G. apply get_find in G. destruct (upd_some id f _ _ G) as [t' U]. unfold modify. rewrite U. eauto.
Qed.

Lemma modify_info_total st id f n : get st id = Ok n -> exists st', modify_info st id f = Ok st'.
Proof. apply modify_total. Qed.

Lemma find_node_kid i ch id c n : In c ch -> find_node id c = Some n -> exists m, find_node id (BNode i ch) = Some m.
Proof.
  intros I F. cbn [find_node]. destruct (Nat.eqb (bi_id i) id); [eauto|].
  induction ch as [|x r IH]; [destruct I|].
  destruct (find_node id x) eqn:Fx; [eauto|]. destruct I as [-> | I]; [congruence | now apply IH].
Qed.

(* the identifier parent_of answers is the identifier of a node of the tree *)
Lemma find_of_parent x t : forall p, parent_of x t = Some p -> exists n, find_node p t = Some n.
Proof.
  induction t as [i ch IH] using bnode_ind2. intros p H. cbn [parent_of] in H.
  destruct (split_kid x ch) as [[[pre c] post]|].
  - inversion H; subst. exists (BNode i ch). cbn [find_node]. now rewrite Nat.eqb_refl.
  - assert (K : exists c n, In c ch /\ find_node p c = Some n).
    { clear -IH H. induction ch as [|c r IHr]; [discriminate H|].
      inversion IH as [|? ? Hc Hr]; subst.
      destruct (parent_of x c) as [q|] eqn:Pc.
      - inversion H; subst. destruct (Hc _ eq_refl) as [n Fn]. exists c, n. split; [now left | exact Fn].
      - destruct (IHr Hr H) as [c' [n [I F]]]. exists c', n. split; [now right | exact F]. }
    destruct K as [c [n [I F]]]. eapply find_node_kid; eassumption.
Qed.

Lemma get_of_parent st x p : parent_of x (ps_root st) = Some p -> exists n, get st p = Ok n.
Proof. intro H. destruct (find_of_parent _ _ _ H) as [n F]. exists n. unfold get. now rewrite F. Qed.

(* ================================================================== add_line *)
Theorem add_line_total st id line n :
  get st id = Ok n -> bi_open (binf n) = true -> utf8_valid line = true ->
  at_boundary line (if c_pct (ps_cur st) then S (c_offset (ps_cur st)) else c_offset (ps_cur st)) ->
  exists st', add_line st id line = Ok st'.
Proof.
  intros G O V B. unfold add_line. rewrite G. cbn [bind]. rewrite O. cbn [negb]. cbv zeta.
  destruct (c_pct (ps_cur st)); cbn [c_offset];
  match goal with |- context [Nat.ltb ?k (List.length line)] => destruct (Nat.ltb k (List.length line)) end;
  unfold from_utf8; rewrite ?(skipn_utf8 _ _ V B); cbn [bind];
  match goal with |- context [modify_info st id ?f] => destruct (modify_info_total st id f n G) as [st' M]; rewrite M end;
  cbn [bind]; eauto.
Qed.

(* ================================================================== finalize *)
Lemma retighten_total st p : exists st', retighten st p = Ok st'.
Proof.
  unfold retighten. destruct p as [item|]; [|eauto].
  destruct (parent_of item (ps_root st)) as [lid|] eqn:P; [|eauto].
  destruct (get_of_parent _ _ _ P) as [l G]. rewrite G. cbn [bind].
  destruct (bi_open (binf l)); [eauto|].
  destruct (bval l); eauto. eapply modify_info_total; exact G.
Qed.

Lemma bdetach_total st id : exists st', bdetach st id = Ok st'.
Proof. unfold bdetach. destruct (edit_kids _ _ _); eauto. Qed.

Lemma sl_isspace_ascii : forall b, (negb (sl_isspace b) || is_ascii b) = true.
Proof. apply forall_bytes. vm_compute. reflexivity. Qed.

Lemma ispunct_ascii : forall b, (negb (ispunct b) || is_ascii b) = true.
Proof. apply forall_bytes. vm_compute. reflexivity. Qed.

Lemma space_run_ascii p : forallb sl_isspace p = true -> forallb is_ascii p = true.
Proof.
  induction p as [|x p IH]; [reflexivity|]. cbn [forallb]. intro H. apply andb_true_iff in H. destruct H as [Hx Hp].
  rewrite (IH Hp), andb_true_r. pose proof (sl_isspace_ascii x) as A. rewrite Hx in A. exact A.
Qed.

(* a valid string stays valid when an ASCII suffix is removed *)
Lemma utf8_drop_ascii_suffix a p : forallb is_ascii p = true -> utf8_valid (a ++ p) = true -> utf8_valid a = true.
Proof.
  intros Hp V. unfold utf8_valid in *. apply utf8_run_ustate in V. apply utf8_run_ustate. rewrite ustate_app in V.
  destruct (ustate U0 a) as [st|]; [|discriminate V].
  destruct p as [|x p]; [exact V|]. cbn [forallb] in Hp. apply andb_true_iff in Hp. destruct Hp as [Hx _].
  cbn [ustate] in V. destruct (ustep st x) eqn:E; [|discriminate V].
  now destruct (FrontMatterProofs.ustep_ascii _ _ _ Hx E) as [-> _].
Qed.

Lemma trim_slice_valid s : utf8_valid s = true -> utf8_valid (trim_slice s) = true.
Proof.
  intro V. unfold trim_slice.
  destruct (ltrim_slice_spec s) as [pre [E1 [H1 _]]].
  assert (V1 : utf8_valid (ltrim_slice s) = true).
  { rewrite E1 in V. unfold utf8_valid in *. now rewrite (EscapeProofs.utf8_run_ascii_prefix pre _ (space_run_ascii _ H1)) in V. }
  destruct (rtrim_slice_spec (ltrim_slice s)) as [post [E2 [H2 _]]].
  rewrite E2 in V1. eapply utf8_drop_ascii_suffix; [apply space_run_ascii; exact H2 | exact V1].
Qed.

Lemma unescape_spec_valid : forall n s st, List.length s <= n -> utf8_run st s = true -> utf8_run st (unescape_spec s) = true.
Proof.
  induction n as [|n IH]; intros s st Hn V.
  - destruct s; [exact V | cbn in Hn; lia].
  - destruct s as [|c [|d s2]]; [exact V | exact V |].
    change (unescape_spec (c :: d :: s2)) with (if beqb c x5c && ispunct d then d :: unescape_spec s2 else c :: unescape_spec (d :: s2)).
    cbn [List.length] in Hn.
    destruct (beqb c x5c && ispunct d) eqn:C.
    + apply andb_true_iff in C. destruct C as [C1 C2]. apply beqb_eq in C1. subst c.
      cbn [utf8_run] in V. destruct (ustep st x5c) as [st1|] eqn:E1; [|discriminate V].
      destruct (FrontMatterProofs.ustep_ascii st x5c st1 eq_refl E1) as [-> ->].
      destruct (ustep U0 d) as [st2|] eqn:E2; [|discriminate V].
      pose proof (ispunct_ascii d) as A. rewrite C2 in A. cbn [negb orb] in A.
      destruct (FrontMatterProofs.ustep_ascii _ _ _ A E2) as [_ ->].
      cbn [utf8_run]. rewrite E2. apply IH; [lia | exact V].
    + change (utf8_run st (c :: d :: s2)) with (match ustep st c with Some st' => utf8_run st' (d :: s2) | None => false end) in V.
      change (match ustep st c with Some st' => utf8_run st' (unescape_spec (d :: s2)) | None => false end = true).
      destruct (ustep st c) as [st1|]; [|discriminate V]. apply IH; [cbn [List.length]; lia | exact V].
Qed.

Lemma first_line_end_nth : forall s, first_line_end s < List.length s ->
  exists b, nth_error s (first_line_end s) = Some b /\ is_line_end_char b = true.
Proof.
  induction s as [|b r IH]; cbn [first_line_end List.length]; intro H; [lia|].
  destruct (is_line_end_char b) eqn:E; [exists b; split; [reflexivity | exact E]|].
  cbn [nth_error]. apply IH. lia.
Qed.

Lemma line_end_ascii b : is_line_end_char b = true -> is_ascii b = true.
Proof. destruct b; intro H; try discriminate H; reflexivity. Qed.

(* what finalize needs from the node it closes, per kind *)
Definition finalize_pre (o : bopts) (st : pstate) (n : bnode) : Prop :=
  match bval n with
  | Paragraph => exists r, resolve_refdefs (bo_fold o) (ps_refmap st) (bi_content (binf n)) = Ok r
  | CodeBlock cb =>
    if cb_fenced cb
    then utf8_valid (bi_content (binf n)) = true
         /\ first_line_end (bi_content (binf n)) < List.length (bi_content (binf n))
         /\ nth_error (bi_content (binf n)) (first_line_end (bi_content (binf n))) = Some x0a
    else bi_content (binf n) <> []
  | _ => True
  end.

Theorem finalize_total o st id n :
  get st id = Ok n -> bi_open (binf n) = true ->
  (ps_curline_len st = 0 \/ 1 <= ps_line_number st) ->
  finalize_pre o st n ->
  exists p st', finalize o st id = Ok (p, st').
Proof.
  intros G O L Pre. unfold finalize. rewrite G. cbn [bind]. rewrite O. cbn [negb].
  match goal with |- context [bind ?e _] =>
    assert (E : exists ends, e = Ok ends); [|destruct E as [ends E]; rewrite E; cbn [bind]] end.
  { destruct (Nat.eqb (ps_curline_len st) 0) eqn:Z; [eauto|]. apply Nat.eqb_neq in Z.
    destruct (ends_fenced_like (bi_val (binf n))); [eauto|].
    assert (S1 : exists l, sub "mod.rs:finalize_borrowed:self.line_number - 1" (ps_line_number st) 1 = Ok l).
    { unfold sub. destruct (Nat.ltb (ps_line_number st) 1) eqn:LL; [apply Nat.ltb_lt in LL; lia | eauto]. }
    destruct S1 as [l S1]. destruct (bi_val (binf n)); rewrite ?S1; cbn [bind]; eauto. }
  clear E. unfold finalize_pre, bval in Pre.
  destruct (bi_val (binf n)) eqn:Ev;
    try (match goal with |- context [modify_info st id ?f] => destruct (modify_info_total st id f n G) as [st' M]; rewrite M end;
         cbn [bind]; eauto).
  - (* CodeBlock *)
    match type of Pre with (if cb_fenced ?cb then _ else _) => destruct (cb_fenced cb) eqn:F end; cbn [negb].
    + destruct Pre as [V [Lt Nl]].
      set (content := bi_content (binf n)) in *. set (pos := first_line_end content) in *.
      apply Nat.ltb_lt in Lt. rewrite Lt. cbn [negb]. apply Nat.ltb_lt in Lt.
      assert (Vp : utf8_valid (firstn pos content) = true).
      { pose proof (nth_error_split_at _ _ _ Nl) as Es. assert (V' := V). rewrite Es in V'.
        unfold utf8_valid in V'. apply utf8_run_ustate in V'.
        destruct (ustate_before_ascii _ _ _ V' eq_refl) as [S0 _]. now apply utf8_run_ustate. }
      destruct (unescape_html_total (firstn pos content)) as [t0 H0]. rewrite H0. cbn [bind].
      pose proof (unescape_html_utf8 _ _ H0 Vp) as V0.
      rewrite trim_ok. cbn [bind]. rewrite unescape_is_spec. cbn [bind].
      assert (V2 : utf8_valid (unescape_spec (trim_slice t0)) = true).
      { apply (unescape_spec_valid (List.length (trim_slice t0)) _ U0 (le_n _)). apply trim_slice_valid. exact V0. }
      assert (I : exists info, (match unescape_spec (trim_slice t0) with
                                | [] => Ok (match bo_default_info_string o with Some s => s | None => [] end)
                                | _ :: _ => from_utf8 "mod.rs:finalize_borrowed:String::from_utf8(tmp).unwrap()" (unescape_spec (trim_slice t0))
                                end) = Ok info).
      { destruct (unescape_spec (trim_slice t0)) eqn:Eu; [eauto|]. unfold from_utf8. rewrite V2. eauto. }
      destruct I as [info I]. rewrite I. cbn [bind].
      unfold idx. rewrite Nl. cbn [bind]. change (beqb x0a x0d) with false. cbv iota. rewrite Nl. cbn [bind].
      match goal with |- context [modify_info st id ?f] => destruct (modify_info_total st id f n G) as [st' M]; rewrite M end.
      cbn [bind]. eauto.
    + destruct (remove_trailing_blank_lines_total _ Pre) as [c Hc]. rewrite Hc. cbn [bind].
      match goal with |- context [modify_info st id ?f] => destruct (modify_info_total st id f n G) as [st' M]; rewrite M end.
      cbn [bind]. eauto.
  - (* Paragraph *)
    destruct Pre as [[[content' hc] m'] R]. rewrite R. cbn [bind].
    match goal with |- context [modify_info st id ?f] => destruct (modify_info_total st id f n G) as [st' M]; rewrite M end.
    cbn [bind]. destruct hc; [eauto|].
    destruct (bdetach_total (st_refmap st' m') id) as [st3 D]. rewrite D. cbn [bind].
    destruct (retighten_total st3 (parent_of id (ps_root st))) as [st4 T]. rewrite T. cbn [bind]. eauto.
Qed.

(* ================================================================== advance_offset in column mode *)
(* the columns the bytes of s span from column col (a tab spans up to the next stop, every other byte one column) *)
Fixpoint avail (s : bytes) (col : nat) : nat :=
  match s with
  | [] => 0
  | b :: r => if beqb b x09 then ctt_of col + avail r (col + ctt_of col) else 1 + avail r (S col)
  end.

Lemma ctt_of_pos col : 1 <= ctt_of col.
Proof. unfold ctt_of, tab_stop, gen_tab_stop. pose proof (Nat.mod_upper_bound col 4 ltac:(lia)). lia. Qed.

Lemma idx_mid site (pre : bytes) b r : idx site (pre ++ b :: r) (List.length pre) = Ok b.
Proof. unfold idx. rewrite nth_error_app2 by lia. now rewrite Nat.sub_diag. Qed.

Lemma advance_cols_total : forall s pre col pct count fuel,
  count <= fuel -> count <= avail s col ->
  exists off' col' pct', advance_loop fuel (pre ++ s) (List.length pre) col pct count true = Ok (off', col', pct')
                         /\ List.length pre <= off' <= List.length (pre ++ s).
Proof.
  induction s as [|b r IH]; intros pre col pct count fuel Hf Ha.
  - cbn [avail] in Ha. assert (count = 0) by lia. subst. exists (List.length pre), col, pct.
    split; [destruct fuel; reflexivity | rewrite app_nil_r; lia].
  - destruct count as [|k].
    { exists (List.length pre), col, pct. split; [destruct fuel; reflexivity | rewrite app_length; lia]. }
    destruct fuel as [|f]; [lia|]. cbn [advance_loop]. rewrite idx_mid. cbn [bind]. cbn [avail] in Ha.
    assert (EL : pre ++ b :: r = (pre ++ [b]) ++ r) by (rewrite <- app_assoc; reflexivity).
    assert (LL : S (List.length pre) = List.length (pre ++ [b])) by (rewrite app_length; cbn; lia).
    destruct (beqb b x09).
    + change (tab_stop - col mod tab_stop) with (ctt_of col). pose proof (ctt_of_pos col) as P.
      destruct (Nat.ltb (S k) (ctt_of col)) eqn:Lt.
      * apply Nat.ltb_lt in Lt. rewrite Nat.min_l by lia. replace (S k - S k) with 0 by lia.
        exists (List.length pre), (col + S k), true. split; [destruct f; reflexivity | rewrite app_length; lia].
      * apply Nat.ltb_ge in Lt. rewrite Nat.min_r by lia. rewrite EL, LL.
        destruct (IH (pre ++ [b]) (col + ctt_of col) false (S k - ctt_of col) f ltac:(lia) ltac:(lia)) as [o' [c' [p' [E B]]]].
        exists o', c', p'. split; [exact E|]. rewrite <- LL in B. lia.
    + replace (S k - 1) with k by lia. rewrite EL, LL.
      destruct (IH (pre ++ [b]) (S col) false k f ltac:(lia) ltac:(lia)) as [o' [c' [p' [E B]]]].
      exists o', c', p'. split; [exact E|]. rewrite <- LL in B. lia.
Qed.

Lemma avail_len : forall s col, List.length s <= avail s col.
Proof.
  induction s as [|b r IH]; intro col; cbn [avail List.length]; [lia|].
  destruct (beqb b x09); [specialize (IH (col + ctt_of col)); pose proof (ctt_of_pos col); lia | specialize (IH (S col)); lia].
Qed.

(* the white space in front spans col_after - col columns, every byte behind it at least one *)
Lemma avail_ge : forall s col, (col_after s col - col) + (List.length s - ws_len s) <= avail s col.
Proof.
  induction s as [|b r IH]; intro col; cbn [avail col_after ws_len List.length]; [lia|].
  destruct (beqb b x20) eqn:E1.
  - assert (beqb b x09 = false) as -> by (apply beqb_eq in E1; subst; reflexivity).
    specialize (IH (S col)). pose proof (col_after_ge r (S col)). lia.
  - destruct (beqb b x09).
    + specialize (IH (col + ctt_of col)). pose proof (col_after_ge r (col + ctt_of col)). lia.
    + pose proof (avail_len r (S col)). lia.
Qed.

(* advance_offset(line, count, true) from a freshly scanned cursor: total as long as count does not exceed the
   indent plus the number of bytes from first_nonspace on *)
Theorem advance_columns_total c line count :
  c_offset c <= List.length line -> fresh_fns c line ->
  count <= (c_fnsc c - c_column c) + (List.length line - c_fns c) ->
  exists c', advance_offset c line count true = Ok c'
             /\ c_offset c <= c_offset c' <= List.length line /\ c_fns c' = c_fns c /\ c_fnsc c' = c_fnsc c.
Proof.
  intros Ho [F1 F2] Hc. unfold advance_offset.
  pose proof (avail_ge (skipn (c_offset c) line) (c_column c)) as A. rewrite skipn_length in A.
  pose proof (advance_cols_total (skipn (c_offset c) line) (firstn (c_offset c) line) (c_column c) (c_pct c) count count (le_n _)) as T.
  rewrite firstn_skipn, firstn_length, Nat.min_l in T by exact Ho.
  destruct T as [o' [c' [p' [E B]]]]; [rewrite <- F2, F1 in *; lia|].
  rewrite E. cbn [bind]. eexists. split; [reflexivity|]. cbn. repeat split; lia.
Qed.
