(* Proofs/ParseProofs.v — Model/Parse.parse_document_model is the composition Proofs/ParserShapeCompose.final_tree talks
   about, with the per-leaf inline lists no longer parameters but the outputs of the inline model on the leaves of the
   block tree; consequences: the shape clauses, the renderer theorems and line invariance for ONE function.

   final_tree_sp = final_tree plus the one effect final_tree does not have: process_tasklist moves the start column
   of the paragraph it shortens (`recol`).  The shape clauses do not read positions, so every lemma about final_tree
   carries over (final_shape_sp); the renderers do read positions (render.sourcepos), which is why the statements
   below are about the tree the model returns and not about an erased one. *)
From Coq Require Import List NArith Arith Bool Lia Strings.String.
From V Require Import Base.Bytes Base.Res Gen.Nodes Gen.FeedConst Model.Ast Model.Strings Model.Feed Model.RefDef Model.Blocks Model.Inlines
  Model.Footnotes Model.Parse Model.Html Model.Xml
  Spec.Shape Spec.HtmlSpec Spec.XmlLex Spec.Valid Spec.NestSpec Spec.LineEndings
  Proofs.FeedProofs Proofs.BlocksProofs Proofs.HtmlSafe Proofs.HtmlNest Proofs.XmlProofs Proofs.InlinesProofs Proofs.FootnoteProofs
  Proofs.ParserShapeBlocks Proofs.ParserShapeBlocksRead Proofs.ParserShapeTree Proofs.ParserShapeInl Proofs.ParserShapeFn
  Proofs.ParserShapeAttach Proofs.ParserShapeCompose.
From V Require Proofs.ValidProofs.
Import ListNotations.
Local Open Scope string_scope.
Local Open Scope list_scope.

(* ================================================================== 1. the tree functions of Model/Parse.v are those of
   ParserShapeAttach.v *)
Lemma contains_inlines_eq v : contains_inlines v = inline_leaf v.
Proof. reflexivity. Qed.

Lemma p_attach_eq : p_attach = attach.
Proof. reflexivity. Qed.

Definition act_of_fns (sym : list nat -> option (option bytes)) (drop : list nat -> bool) (p : list nat) : tl_act :=
  mkAct (sym p) (drop p).

Fixpoint p_taskify_kids (sym : list nat -> option (option bytes)) (drop : list nat -> bool) (path : list nat) (i : nat)
  (l : list node) : list node :=
  match l with
  | [] => []
  | c :: r =>
    if is_paragraph_node c && drop (path ++ [i]) then p_taskify_kids sym drop path (S i) r
    else p_taskify sym drop (path ++ [i]) c :: p_taskify_kids sym drop path (S i) r
  end.

Lemma p_taskify_node sym drop path v sp ch :
  p_taskify sym drop path (Node v sp ch) = Node (p_taskify_val (sym path) v) sp (p_taskify_kids sym drop path 0 ch).
Proof.
  cbn [p_taskify]. f_equal. generalize 0. induction ch as [|c r IH]; intro i; [reflexivity|]. cbn [p_taskify_kids].
  destruct (is_paragraph_node c && drop (path ++ [i])); now rewrite IH.
Qed.

Lemma p_taskify_val_eq s d v : p_taskify_val s v = taskify_val (mkAct s d) v.
Proof. unfold p_taskify_val, taskify_val. cbn [ta_symbol]. destruct s; destruct v; reflexivity. Qed.

Lemma p_taskify_eq sym drop : forall n path, p_taskify sym drop path n = taskify (act_of_fns sym drop) path n.
Proof.
  induction n as [v sp ch IH] using node_ind2. intro path. rewrite p_taskify_node, taskify_node.
  assert (E1 : p_taskify_val (sym path) v = taskify_val (act_of_fns sym drop path) v)
    by (unfold act_of_fns; apply p_taskify_val_eq).
  rewrite E1. clear E1.
  assert (E2 : forall i, p_taskify_kids sym drop path i ch = taskify_kids (act_of_fns sym drop) path i ch).
  { induction ch as [|c r IHr]; intro i; [reflexivity|]. cbn [p_taskify_kids taskify_kids].
    inversion IH as [|? ? Hc Hr]; subst.
    assert (E3 : ta_drop (act_of_fns sym drop (path ++ [i])) = drop (path ++ [i])) by reflexivity.
    rewrite E3. change (is_par c) with (is_paragraph_node c).
    destruct (is_paragraph_node c && drop (path ++ [i])); [now apply IHr|]. rewrite Hc. f_equal. now apply IHr. }
  now rewrite E2.
Qed.

(* ================================================================== 2. recol: positions only *)
Fixpoint recol_kids (col : list nat -> option N) (path : list nat) (i : nat) (l : list node) : list node :=
  match l with
  | [] => []
  | c :: r => recol col (path ++ [i]) c :: recol_kids col path (S i) r
  end.

Definition recol_sp (col : list nat -> option N) (path : list nat) (sp : sourcepos) : sourcepos :=
  match col path with Some c => mkSp (sl sp) c (el sp) (ec sp) | None => sp end.

Lemma recol_node col path v sp ch :
  recol col path (Node v sp ch) =
  if inline_leaf v then Node v (recol_sp col path sp) ch else Node v sp (recol_kids col path 0 ch).
Proof.
  cbn [recol]. rewrite contains_inlines_eq. destruct (inline_leaf v); [reflexivity|]. f_equal.
  generalize 0. induction ch as [|c r IH]; intro i; [reflexivity|]. cbn [recol_kids]. now rewrite IH.
Qed.

Lemma recol_val col path n : nval (recol col path n) = nval n.
Proof. destruct n as [v sp ch]. rewrite recol_node. destruct (inline_leaf v); reflexivity. Qed.

Lemma recol_kids_length col path : forall l i, List.length (recol_kids col path i l) = List.length l.
Proof. induction l as [|c r IH]; intro i; cbn [recol_kids List.length]; [reflexivity|]. now rewrite IH. Qed.

Lemma recol_kids_forallb col path (Q Q' : node -> bool) : forall l i,
  Forall (fun c => forall p, Q c = true -> Q' (recol col p c) = true) l ->
  forallb Q l = true -> forallb Q' (recol_kids col path i l) = true.
Proof.
  induction l as [|c r IH]; intros i F H; [reflexivity|]. cbn [recol_kids forallb] in *.
  apply andb_true_iff in H. destruct H as [Hc Hr]. inversion F as [|? ? Fc Fr]; subst.
  apply andb_true_iff. split; [now apply Fc | now apply IH].
Qed.

Lemma recol_kids_val_pred col path (f : node -> bool) :
  (forall a b, nval a = nval b -> f a = f b) ->
  forall l i, forallb f (recol_kids col path i l) = forallb f l.
Proof.
  intros Hf. induction l as [|c r IH]; intro i; [reflexivity|]. cbn [recol_kids forallb].
  rewrite IH. f_equal. apply Hf. apply recol_val.
Qed.

Lemma recol_s2 col path t : s2 t = true -> s2 (recol col path t) = true.
Proof. unfold s2. now rewrite recol_val. Qed.

Lemma recol_s4 col : forall t path, s4 t = true -> s4 (recol col path t) = true.
Proof.
  induction t as [v sp ch IH] using node_ind2. intros path H. rewrite recol_node.
  destruct (inline_leaf v); [exact H|].
  cbn [s4] in H |- *. apply andb_true_iff in H. destruct H as [Hv Hc]. rewrite Hv. cbn [andb].
  eapply recol_kids_forallb; [|exact Hc]. eapply Forall_impl; [|exact IH]. intros c Hc' p. apply Hc'.
Qed.

Lemma recol_s7 col : forall t path, s7 t = true -> s7 (recol col path t) = true.
Proof.
  induction t as [v sp ch IH] using node_ind2. intros path H. rewrite recol_node.
  destruct (inline_leaf v); [exact H|].
  cbn [s7] in H |- *. apply andb_true_iff in H. destruct H as [Hv Hc]. rewrite Hv. cbn [andb].
  eapply recol_kids_forallb; [|exact Hc]. eapply Forall_impl; [|exact IH]. intros c Hc' p. apply Hc'.
Qed.

Lemma recol_nofn col : forall t path, nofn t = true -> nofn (recol col path t) = true.
Proof.
  induction t as [v sp ch IH] using node_ind2. intros path H. rewrite recol_node.
  destruct (inline_leaf v); [exact H|].
  cbn [nofn] in H |- *. apply andb_true_iff in H. destruct H as [Hv Hc]. rewrite Hv. cbn [andb].
  eapply recol_kids_forallb; [|exact Hc]. eapply Forall_impl; [|exact IH]. intros c Hc' p. apply Hc'.
Qed.

Lemma recol_s6w_list col path : forall l i, s6w_list l = true -> s6w_list (recol_kids col path i l) = true.
Proof.
  induction l as [|x r IH]; intros i H; [reflexivity|]. cbn [recol_kids s6w_list] in *. rewrite recol_val.
  destruct (is_fndef (nval x)); [reflexivity|]. apply andb_true_iff in H. destruct H as [Hx Hr].
  rewrite (recol_nofn _ _ _ Hx). cbn [andb]. now apply IH.
Qed.

Lemma recol_s6w col path t : s6w t = true -> s6w (recol col path t) = true.
Proof.
  destruct t as [v sp ch]. unfold s6w. rewrite recol_node. destruct (inline_leaf v); cbn [nch]; [tauto|].
  apply recol_s6w_list.
Qed.

Lemma recol_s3_go col : forall t path pv gv, s3_go pv gv t = true -> s3_go pv gv (recol col path t) = true.
Proof.
  induction t as [v sp ch IH] using node_ind2. intros path pv gv H. rewrite recol_node.
  destruct (inline_leaf v) eqn:L; [exact H|].
  cbn [s3_go] in H. apply andb_true_iff in H. destruct H as [Hv Hc].
  cbn [s3_go]. apply andb_true_iff. split.
  - destruct v; try exact Hv; try reflexivity.
    + (* Table *)
      destruct ch as [|h rs]; [discriminate Hv|]. cbn [recol_kids table_children_ok] in *.
      apply andb_true_iff in Hv. destruct Hv as [Hh Hrs]. apply andb_true_iff. split.
      * unfold is_row_of in *. now rewrite recol_val.
      * rewrite recol_kids_val_pred; [exact Hrs|]. intros a b E. unfold is_row_of. now rewrite E.
    + (* TableRow *)
      destruct pv as [[]|]; try exact Hv. apply andb_true_iff in Hv. destruct Hv as [H1 H2].
      rewrite recol_kids_length, H2, andb_true_r.
      rewrite recol_kids_val_pred; [exact H1|]. intros a b E. unfold is_cell. now rewrite E.
  - eapply recol_kids_forallb; [|exact Hc]. eapply Forall_impl; [|exact IH]. intros c Hc' p. apply Hc'.
Qed.

Lemma recol_s3 col path t : s3 t = true -> s3 (recol col path t) = true.
Proof. apply recol_s3_go. Qed.

(* ================================================================== 3. the composition with the position effect *)
Definition final_tree_sp (fn : bool) (fold pres : bytes -> bytes) (perm : list fdef -> list fdef)
  (inl1 inl2 : list nat -> list node) (act : list nat -> tl_act) (col : list nat -> option N) (t0 : node) : node :=
  let t1 := attach inl1 [] t0 in
  let t2 := if fn then process fold pres perm t1 else t1 in
  taskify act [] (recol col [] (attach inl2 [] t2)).

(* final_tree is the case where no paragraph is shortened *)
Lemma recol_none : forall t path, recol (fun _ => None) path t = t.
Proof.
  induction t as [v sp ch IH] using node_ind2. intro path. rewrite recol_node.
  destruct (inline_leaf v); [reflexivity|]. f_equal.
  generalize 0. induction ch as [|c r IHr]; intro i; [reflexivity|]. cbn [recol_kids].
  inversion IH as [|? ? Hc Hr]; subst. rewrite Hc. f_equal. now apply IHr.
Qed.

Lemma final_tree_sp_none fn fold pres perm inl1 inl2 act t0 :
  final_tree_sp fn fold pres perm inl1 inl2 act (fun _ => None) t0 = final_tree fn fold pres perm inl1 inl2 act t0.
Proof. unfold final_tree_sp, final_tree. cbv zeta. now rewrite recol_none. Qed.

Theorem final_shape_sp o x r fold pres perm inl1 inl2 act col :
  parse_blocks o x = Ok r -> inl_ok inl1 -> inl_ok inl2 ->
  let t := final_tree_sp (bo_footnotes o) fold pres perm inl1 inl2 act col (to_node (br_root r)) in
  s2 t = true /\ s3 t = true /\ s4 t = true /\ s7 t = true /\ s6w t = true.
Proof.
  intros H I1 I2. destruct (blocks_shape _ _ _ H) as (A2 & A3 & A4 & A7). cbv zeta in *.
  set (t0 := to_node (br_root r)) in *. unfold final_tree_sp.
  set (t1 := attach inl1 [] t0).
  assert (B2 : s2 t1 = true) by (apply attach_s2; exact A2).
  assert (B3 : s3 t1 = true) by (apply attach_s3; assumption).
  assert (B4 : s4 t1 = true) by (apply attach_s4; assumption).
  assert (B7 : s7 t1 = true) by (apply attach_s7; assumption).
  set (t2 := if bo_footnotes o then process fold pres perm t1 else t1).
  assert (C : s2 t2 = true /\ s3 t2 = true /\ s4 t2 = true /\ s7 t2 = true /\ s6w t2 = true).
  { subst t2. destruct (bo_footnotes o) eqn:F.
    - split; [now apply fnp_s2_process|]. split; [now apply fnp_s3_process|]. split; [now apply fnp_s4_process|].
      split; [now apply fnp_s7_process|]. apply fnp_s6w_process.
      unfold s2 in B2. unfold is_def. destruct (nval t1); try discriminate B2; reflexivity.
    - repeat split; try assumption. apply nofn_s6w. apply attach_nofn; [exact I1|].
      eapply nall_nofn; [exact F|]. eapply parse_blocks_values; exact H. }
  destruct C as (C2 & C3 & C4 & C7 & C6).
  split; [apply taskify_s2; apply recol_s2; apply attach_s2; exact C2|].
  split; [apply taskify_s3; apply recol_s3; apply attach_s3; assumption|].
  split; [apply taskify_s4; apply recol_s4; apply attach_s4; assumption|].
  split; [apply taskify_s7; apply recol_s7; apply attach_s7; assumption|].
  apply taskify_s6w. apply recol_s6w. apply attach_s6w; assumption.
Qed.

(* ================================================================== 4. every leaf of the tree handed to the text post-pass
   holds inline trees: the invariant `lok`, kept by attach and by the footnote pass *)
Fixpoint lok (n : node) : bool :=
  match n with Node v _ ch => if inline_leaf v then forallb inl_tree7 ch else forallb lok ch end.

Lemma inl_tree7_allv : forall n, inl_tree7 n = fnp_allv inl_val7 n.
Proof.
  induction n as [v sp ch IH] using node_ind2. cbn [inl_tree7 fnp_allv]. f_equal. now apply fnp_forallb_eq.
Qed.

Lemma inl_val7_tr v : fnp_is_tr v = true -> inl_val7 v = true.
Proof. destruct v; cbn [fnp_is_tr]; intro H; try discriminate; reflexivity. Qed.

Lemma inl_val7_not_leaf v : inl_val7 v = true -> inline_leaf v = false.
Proof. unfold inl_val7. destruct v; cbn [ival andb inline_leaf]; intro H; try reflexivity; discriminate. Qed.

Lemma rr_tree7 n n' : fnp_rr n n' -> inl_tree7 n = true -> inl_tree7 n' = true.
Proof. rewrite !inl_tree7_allv. apply fnp_rr_allv. exact inl_val7_tr. Qed.

Lemma cleanup_tree7 n : inl_tree7 n = true -> inl_tree7 (cleanup n) = true.
Proof. rewrite !inl_tree7_allv. apply fnp_cleanup_allv. Qed.

Lemma tree7_lok : forall n, inl_tree7 n = true -> lok n = true.
Proof.
  induction n as [v sp ch IH] using node_ind2. intro H. apply inl_tree7_node in H. destruct H as [Hv Hc].
  cbn [lok]. rewrite (inl_val7_not_leaf _ Hv). apply forallb_forall. intros c Hin.
  rewrite Forall_forall in IH. apply IH; [exact Hin|]. rewrite forallb_forall in Hc. now apply Hc.
Qed.

Lemma lok_attach inl : inl_ok inl -> forall t path, lok (attach inl path t) = true.
Proof.
  intro I. induction t as [v sp ch IH] using node_ind2. intro path. rewrite attach_node.
  destruct (inline_leaf v) eqn:L; cbn [lok]; rewrite L; [apply I|].
  generalize 0. induction ch as [|c r IHr]; intro i; [reflexivity|]. cbn [attach_kids forallb].
  inversion IH as [|? ? Hc Hr]; subst. rewrite Hc. cbn [andb]. now apply IHr.
Qed.

Lemma is_ref_not_leaf v : is_ref v = true -> inline_leaf v = false.
Proof. destruct v; cbn [is_ref]; intro H; try discriminate; reflexivity. Qed.

Lemma is_tr_not_leaf v : fnp_is_tr v = true -> inline_leaf v = false.
Proof. destruct v; cbn [fnp_is_tr]; intro H; try discriminate; reflexivity. Qed.

Lemma rr_lok : forall n n', fnp_rr n n' -> lok n = true -> lok n' = true.
Proof.
  induction n as [v sp ch IH] using node_ind2. intros n' H A.
  inversion H as [? ? ? v' R T|? ? ? ch' R F]; subst; cbn [lok] in *.
  - rewrite (is_ref_not_leaf _ R) in A. rewrite (is_tr_not_leaf _ T). exact A.
  - destruct (inline_leaf v).
    + eapply fnp_F2_forallb_imp; [exact F| |exact A]. apply Forall_forall. intros c _ c' Hc. now apply rr_tree7.
    + eapply fnp_F2_forallb_imp; [exact F|exact IH|exact A].
Qed.

Lemma lok_cleanup : forall n, lok n = true -> lok (cleanup n) = true.
Proof.
  induction n as [v sp ch IH] using node_ind2. intro A.
  destruct (is_fndef v) eqn:D; [rewrite fnp_cleanup_def by exact D; exact A|].
  rewrite fnp_cleanup_node by exact D. cbn [lok] in *. rewrite fnp_cleanup_go_map.
  destruct (inline_leaf v).
  - apply forallb_forall. intros x Hx. apply in_map_iff in Hx as [c [<- Hc]]. apply filter_In in Hc as [Hc _].
    apply cleanup_tree7. rewrite forallb_forall in A. now apply A.
  - apply forallb_forall. intros x Hx. apply in_map_iff in Hx as [c [<- Hc]]. apply filter_In in Hc as [Hc _].
    rewrite Forall_forall in IH. apply IH; [exact Hc|]. rewrite forallb_forall in A. now apply A.
Qed.

Lemma lok_top_defs : forall n, lok n = true -> Forall (fun d => lok d = true) (top_defs n).
Proof.
  induction n as [v sp ch IH] using node_ind2. intro A.
  destruct (is_fndef v) eqn:D; [rewrite fnp_top_defs_def by exact D; constructor; [exact A|constructor]|].
  rewrite fnp_top_defs_node by exact D. apply Forall_forall. intros d Hd. apply in_flat_map in Hd as [c [Hc Hd]].
  rewrite Forall_forall in IH. specialize (IH c Hc). cbn [lok] in A.
  assert (Lc : lok c = true).
  { destruct (inline_leaf v); rewrite forallb_forall in A; [apply tree7_lok|]; now apply A. }
  specialize (IH Lc). rewrite Forall_forall in IH. now apply IH.
Qed.

Lemma lok_set_def f d : is_def d = true -> lok d = true -> lok (set_def f d) = true.
Proof.
  intros D A. rewrite (fnp_set_def_def f d D). destruct d as [v sp ch]. rewrite fnp_is_def_eq in D. cbn [nval nsp nch] in *.
  destruct v; cbn [is_fndef] in D; try discriminate. exact A.
Qed.

Lemma lok_process fold pres perm root : s2 root = true -> lok root = true -> lok (process fold pres perm root) = true.
Proof.
  intros S A. destruct (fnp_process_shape fold pres perm root) as [root1 [root2 [app [R [Dj [FA E]]]]]]. rewrite E.
  assert (A1 : lok root1 = true) by (eapply rr_lok; eassumption).
  assert (V1 : nval root1 = Document).
  { unfold s2 in S. destruct (fnp_rr_nval _ _ R) as [->|[B _]].
    - destruct (nval root); try discriminate S; reflexivity.
    - destruct (nval root); try discriminate S; discriminate B. }
  assert (A2 : lok root2 = true /\ nval root2 = Document).
  { destruct Dj as [[-> _]| ->]; [split; assumption|]. split; [now apply lok_cleanup|]. now rewrite fnp_cleanup_nval. }
  destruct A2 as [A2 V2]. destruct root2 as [v2 sp2 ch2]. cbn [nval nsp nch] in *. subst v2. cbn [lok inline_leaf] in *.
  rewrite forallb_app, A2. cbn [andb].
  pose proof (lok_top_defs _ A1) as TL. rewrite Forall_forall in TL.
  pose proof (fnp_top_defs_are_defs root1) as TD. rewrite Forall_forall in TD.
  apply forallb_forall. rewrite Forall_forall in FA. intros a Ha.
  destruct (FA a Ha) as [f [d [Hd ->]]]. apply lok_set_def; [now apply TD | now apply TL].
Qed.

(* ================================================================== 5. the tables of Model/Parse.v *)
Lemma passoc_In {A} (tbl : list (list nat * A)) p a : passoc tbl p = Some a -> exists q, In (q, a) tbl.
Proof.
  induction tbl as [|[q b] r IH]; cbn [passoc]; [discriminate|].
  destruct (path_eqb q p).
  - intro H. inversion H; subst. exists q. now left.
  - intro H. destruct (IH H) as [q' Hq]. exists q'. now right.
Qed.

Lemma run_leaves_ok io u refmap maxref : forall l rs tbl,
  run_leaves io u refmap maxref l rs = Ok tbl -> Forall (fun e => forallb inl_tree7 (snd e) = true) tbl.
Proof.
  induction l as [|[p i] r IH]; intros rs tbl H; cbn [run_leaves] in H.
  - inversion H. constructor.
  - destruct (run_inlines_gen true io u (bi_content i) (map N.of_nat (bi_lo i)) (N.of_nat (bi_sl i)) refmap maxref rs)
      as [out| |] eqn:E; cbn [bind] in H; try discriminate.
    destruct out as [ch rs'|w]; [|discriminate].
    destruct (run_leaves io u refmap maxref r rs') as [rest| |] eqn:E2; cbn [bind] in H; try discriminate.
    inversion H; subst. constructor; [|eapply IH; exact E2]. cbn [snd].
    unfold run_inlines_gen in E. destruct (has_nul (rtrim_slice (bi_content i))); [discriminate|].
    destruct (parse_inlines true io u (rtrim_slice (bi_content i)) (map N.of_nat (bi_lo i)) (N.of_nat (bi_sl i)) refmap maxref rs)
      as [[c q]| |] eqn:E3; cbn [bind fst snd] in E; try discriminate.
    inversion E; subst. eapply inl_parse_inlines_tree7; exact E3.
Qed.

Lemma inl_lookup_ok tbl : Forall (fun e => forallb inl_tree7 (snd e) = true) tbl -> inl_ok (inl_lookup tbl).
Proof.
  intros F p. unfold inl_lookup. destruct (passoc tbl p) as [ch|] eqn:E; [|reflexivity].
  destruct (passoc_In _ _ _ E) as [q Hq]. rewrite Forall_forall in F. exact (F _ Hq).
Qed.

Lemma pleaves_ok : forall n pv gv path k,
  lok n = true -> Forall (fun e => forallb inl_tree7 (snd (snd e)) = true) (pleaves pv gv path k n).
Proof.
  induction n as [v sp ch IH] using node_ind2. intros pv gv path k A. cbn [pleaves]. rewrite contains_inlines_eq.
  cbn [lok] in A. destruct (inline_leaf v).
  - constructor; [exact A|constructor].
  - generalize 0. induction ch as [|c r IHr]; intro i; [constructor|].
    cbn [forallb] in A. apply andb_true_iff in A. destruct A as [Ac Ar]. inversion IH as [|? ? Hc Hr]; subst.
    apply Forall_app. split; [now apply Hc | now apply IHr].
Qed.

Lemma run_post_ok io : forall l tbl,
  Forall (fun e => forallb inl_tree7 (snd (snd e)) = true) l ->
  run_post io l = Ok tbl -> Forall (fun e => forallb inl_tree7 (fst (snd e)) = true) tbl.
Proof.
  induction l as [|[p [ctx ch]] r IH]; intros tbl F H; cbn [run_post] in H.
  - inversion H. constructor.
  - inversion F as [|? ? Fc Fr]; subst. cbn [snd] in Fc.
    destruct (postprocess_block io ctx ch) as [[ch' eff]| |] eqn:E; cbn [bind] in H; try discriminate.
    destruct (run_post io r) as [rest| |] eqn:E2; cbn [bind] in H; try discriminate.
    inversion H; subst. constructor; [|now apply IH]. cbn [snd fst].
    eapply inl_postprocess_tree7; [exact Fc|exact E].
Qed.

Lemma post_lookup_ok tbl : Forall (fun e => forallb inl_tree7 (fst (snd e)) = true) tbl -> inl_ok (post_lookup tbl).
Proof.
  intros F p. unfold post_lookup. destruct (passoc tbl p) as [a|] eqn:E; [|reflexivity].
  destruct (passoc_In _ _ _ E) as [q Hq]. rewrite Forall_forall in F. exact (F _ Hq).
Qed.

(* ================================================================== 6. parse_document_model is final_tree_sp *)
Theorem parse_is_final_tree o u x t :
  parse_document_model o u x = Ok t ->
  exists r inl1 inl2 act col,
    parse_blocks (bopts_of o u) x = Ok r /\ inl_ok inl1 /\ inl_ok inl2 /\
    t = final_tree_sp (bo_footnotes (bopts_of o u)) (fn_fold u) (fn_pres u) fn_perm inl1 inl2 act col (to_node (br_root r)).
Proof.
  unfold parse_document_model. intro H.
  destruct (parse_blocks (bopts_of o u) x) as [r| |] eqn:B; cbn [bind] in H; try discriminate.
  unfold after_blocks, inline_phase in H.
  destruct (run_leaves (iopts_of o) u (br_refmap r) (br_max_ref_size r) (bleaves [] (br_root r)) 0%N) as [tbl1| |] eqn:E1;
    cbn [bind] in H; try discriminate.
  unfold post_phase in H.
  set (t1 := p_attach (inl_lookup tbl1) [] (to_node (br_root r))) in *.
  destruct (run_post (iopts_of o) (pleaves None None [] 0 (footnote_phase o u t1))) as [tbl2| |] eqn:E2;
    cbn [bind] in H; try discriminate.
  inversion H as [Ht]. clear H.
  assert (I1 : inl_ok (inl_lookup tbl1)) by (apply inl_lookup_ok; eapply run_leaves_ok; exact E1).
  assert (L2 : lok (footnote_phase o u t1) = true).
  { unfold footnote_phase. subst t1. rewrite p_attach_eq. destruct (po_footnotes o).
    - apply lok_process; [|now apply lok_attach]. apply attach_s2. eapply parse_blocks_s2; exact B.
    - now apply lok_attach. }
  assert (I2 : inl_ok (post_lookup tbl2)).
  { apply post_lookup_ok. eapply run_post_ok; [|exact E2]. now apply pleaves_ok. }
  exists r, (inl_lookup tbl1), (post_lookup tbl2), (act_of_fns (sym_of tbl2) (drop_of tbl2)), (col_of tbl2).
  split; [reflexivity|]. split; [exact I1|]. split; [exact I2|].
  rewrite p_taskify_eq. unfold final_tree_sp. cbv zeta. subst t1. rewrite p_attach_eq. reflexivity.
Qed.

(* ================================================================== 7. consequences for the one function *)
Theorem parse_shape o u x t :
  parse_document_model o u x = Ok t ->
  s2 t = true /\ s3 t = true /\ s4 t = true /\ s7 t = true /\ s6w t = true.
Proof.
  intro H. destruct (parse_is_final_tree _ _ _ _ H) as (r & inl1 & inl2 & act & col & B & I1 & I2 & ->).
  exact (final_shape_sp _ _ _ _ _ _ _ _ _ _ B I1 I2).
Qed.

Theorem parse_html_safe o u x t slug ro evs :
  parse_document_model o u x = Ok t ->
  o_unsafe ro = false -> (forall h, forallb inert_byte (slug h) = true) ->
  events slug ro t = Ok evs -> forallb safe_ev evs = true.
Proof.
  intros H U S E. destruct (parse_shape _ _ _ _ H) as (_ & _ & A4 & A7 & _). eapply c02_events; eassumption.
Qed.

Theorem parse_html_nested o u x t slug ro evs :
  parse_document_model o u x = Ok t -> events slug ro t = Ok evs -> well_nested evs = true.
Proof.
  intros H E. destruct (parse_shape _ _ _ _ H) as (A2 & A3 & _ & _ & A6). eapply nested_weak; eassumption.
Qed.

Theorem parse_html_total o u x t slug ro :
  parse_document_model o u x = Ok t -> exists evs, events slug ro t = Ok evs.
Proof. intro H. destruct (parse_shape _ _ _ _ H) as (A2 & A3 & _). apply total; assumption. Qed.

Theorem parse_xml_total o u x t ro :
  parse_document_model o u x = Ok t -> exists b, xml ro t = Ok b.
Proof.
  intro H. destruct (parse_shape _ _ _ _ H) as (_ & A3 & _). apply xml_total. apply ValidProofs.s3_cells_ok. exact A3.
Qed.

(* C04, tree clause.  FULL statement (not proved): the final tree is structurally valid. *)
Definition parse_valid_full_statement : Prop :=
  forall o u x t, parse_document_model o u x = Ok t -> structurally_valid t = true.

(* proved: the final tree is the composition of a structurally valid block tree (containment, root, heading levels,
   table shape and column counts) with forests all of whose values are inline kinds, and satisfies the root, heading
   and table-shape clauses itself.  NOT proved: Node::validate's containment relation below the leaves (which inline
   may contain which; TableCell children) and the column-count equation for the final tree *)
Theorem parse_valid_partial o u x t :
  parse_document_model o u x = Ok t ->
  exists r inl1 inl2 act col,
    parse_blocks (bopts_of o u) x = Ok r /\
    structurally_valid (to_node (br_root r)) = true /\
    (forall p, forallb itree (inl1 p) = true) /\ (forall p, forallb itree (inl2 p) = true) /\
    t = final_tree_sp (bo_footnotes (bopts_of o u)) (fn_fold u) (fn_pres u) fn_perm inl1 inl2 act col (to_node (br_root r)) /\
    s2 t = true /\ headings_ok t = true /\ s3 t = true.
Proof.
  intro H. destruct (parse_shape _ _ _ _ H) as (A2 & A3 & A4 & _).
  destruct (parse_is_final_tree _ _ _ _ H) as (r & inl1 & inl2 & act & col & B & I1 & I2 & E).
  exists r, inl1, inl2, act, col. split; [exact B|]. split; [eapply blocks_structurally_valid; exact B|].
  assert (T : forall inl, inl_ok inl -> forall p, forallb itree (inl p) = true).
  { intros inl I p. specialize (I p). apply forallb_forall. intros n Hn. apply inl_tree7_itree.
    rewrite forallb_forall in I. now apply I. }
  split; [now apply T|]. split; [now apply T|]. split; [exact E|]. split; [exact A2|].
  split; [rewrite ValidProofs.headings_ok_is_s4; exact A4 | exact A3].
Qed.

(* ---- line invariance: without a front matter delimiter the whole parser is a function of the lines handed to
   process_line and of the reference budget max_ref_size(total_size) *)
Definition parse_rest (o : popts) (u : oracle) (ls : list bytes) (budget : N) : res node :=
  do st1 <- run_lines (bopts_of o u) init_state ls;
  after_blocks o u (ps_root st1) (ps_refmap st1) budget.

Lemma parse_blocks_lines o x :
  bo_front_matter_delimiter o = None ->
  parse_blocks o x =
  (do st1 <- run_lines o init_state (lines x);
   Ok (mkBR (ps_root st1) (ps_refmap st1) (max_ref_size (Feed.total_size x)))).
Proof. intro H. rewrite parse_blocks_factor. unfold front_matter_prologue. rewrite H. reflexivity. Qed.

Lemma parse_is_pipeline o u x :
  po_front_matter_delimiter o = None -> parse_document_model o u x = pipeline (parse_rest o u) x.
Proof.
  intro F. unfold parse_document_model, pipeline, parse_rest. rewrite parse_blocks_lines by exact F.
  destruct (run_lines (bopts_of o u) init_state (lines x)); reflexivity.
Qed.

Theorem parse_line_invariance o u x y :
  po_front_matter_delimiter o = None -> lines x = lines y ->
  max_ref_size (Feed.total_size x) = max_ref_size (Feed.total_size y) ->
  parse_document_model o u x = parse_document_model o u y.
Proof. intros F L M. rewrite !parse_is_pipeline by exact F. unfold pipeline. now rewrite L, M. Qed.

Theorem parse_line_invariance_small o u x y :
  po_front_matter_delimiter o = None -> lines x = lines y ->
  (N.of_nat (List.length x) <= ref_budget_floor)%N -> (N.of_nat (List.length y) <= ref_budget_floor)%N ->
  parse_document_model o u x = parse_document_model o u y.
Proof. intros F L X Y. apply parse_line_invariance; [exact F|exact L|]. symmetry. now apply budget_same_under_floor. Qed.

Theorem parse_crlf o u x :
  po_front_matter_delimiter o = None -> no_cr x = true -> (N.of_nat (List.length (to_crlf x)) <= ref_budget_floor)%N ->
  parse_document_model o u (to_crlf x) = parse_document_model o u x.
Proof. intros F H L. rewrite !parse_is_pipeline by exact F. now apply factor_crlf. Qed.

Theorem parse_cr o u x :
  po_front_matter_delimiter o = None -> no_cr x = true ->
  parse_document_model o u (to_cr x) = parse_document_model o u x.
Proof. intros F H. rewrite !parse_is_pipeline by exact F. now apply factor_cr. Qed.

Theorem parse_final_newline o u x :
  po_front_matter_delimiter o = None -> x <> [] -> ends_nl x = false ->
  (N.of_nat (List.length (add_final_nl x)) <= ref_budget_floor)%N ->
  parse_document_model o u (add_final_nl x) = parse_document_model o u x.
Proof. intros F N E L. rewrite !parse_is_pipeline by exact F. now apply factor_final_nl. Qed.

Theorem parse_nul o u x :
  po_front_matter_delimiter o = None -> (N.of_nat (List.length (nul_to_fffd x)) <= ref_budget_floor)%N ->
  parse_document_model o u (nul_to_fffd x) = parse_document_model o u x.
Proof. intros F L. rewrite !parse_is_pipeline by exact F. now apply factor_nul. Qed.

(* ================================================================== 8. non-vacuity *)
Definition ex_u : oracle := mkOracle (fun _ => false) (fun _ => false) (fun v => v).
(* table, footnotes, autolink, strikethrough, tasklist on *)
Definition ex_o : popts :=
  mkPO true true false false false false false false None None
       true true false false false false false false false true false false false false false.
Definition ex_doc : bytes :=
  Eval compute in B "- [x] *a* [r] x[^n] [^m]" ++ [x0a; x0a] ++ B "[r]: /u" ++ [x0a; x0a] ++ B "[^n]: www.a.b" ++ [x0a; x0a]
                  ++ B "| h |" ++ [x0a] ++ B "|---|" ++ [x0a] ++ B "| ~c~ |" ++ [x0a].

Lemma parse_example :
  exists t, parse_document_model ex_o ex_u ex_doc = Ok t /\
    map (fun c => kind_of (nval c)) (nch t) = [KList; KTable; KFootnoteDefinition] /\
    (* the item became a task item, its paragraph starts after the marker, the reference was numbered, the
       unresolved one became text, the link was resolved from the definition the block phase collected *)
    match nch t with
    | Node (NList l) _ [Node (TaskItem (Some s)) _ [Node Paragraph psp kids]] :: _ =>
      l_task l = true /\ s = B "x" /\ sc psp = 7%N /\
      map (fun c => kind_of (nval c)) kids = [KEmph; KText; KLink; KText; KFootnoteReference; KText]
    | _ => False
    end /\
    s2 t && s3 t && s4 t && s7 t && s6w t = true /\
    parse_document_model ex_o ex_u (to_crlf ex_doc) = Ok t.
Proof. vm_compute. eexists. repeat split. Qed.
