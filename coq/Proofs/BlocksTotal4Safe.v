(* Proofs/BlocksTotal4Safe.v — totality of the block phase, fourth round, step 1: the predicate transformer of
   Proofs/BlocksTotal2Safe.v made parametric in the set of Panic sites and in the fuel.

     sg al fu Q r  :=  r = Ok a -> Q a,   r = Panic s -> al s = true (s is ALLOWED),   r = OutOfFuel -> fu = true
     ng al fu r    :=  sg al fu (fun _ => True) r

   `safe Q r` of the second round is `sg (fun s => negb (bad s)) true Q r` (safe_sg).  A walk chooses its own `al`:
   `but L` allows every site except those of the list L (the walk proves the sites of L unreachable), `only L` allows
   exactly the sites of L (the walk proves that nothing else is reachable: L is the list of what REMAINS).  Walks are
   independent of each other and are combined afterwards:

     sg_and         two walks of the same computation: the allowed sets intersect, the post-conditions add up
     sg_bind_safe   a walk may use, for the continuation of a bind, the post-condition another walk (`safe`) proved
                    for the same intermediate result: the second walk only redoes the no-panic half
     sg_no_panic / sg_panic_in   the conclusions `r <> Panic s` for s in L / `r = Panic s -> In s L`

   so a later round that excludes further sites proves its own `sg (but L') ..` (or shrinks the list of an `only`
   walk) and intersects; no walk has to be redone for a site another walk already excluded. *)
From Coq Require Import List NArith Arith Bool Lia Strings.String.
From V Require Import Base.Bytes Base.Res Model.Blocks Spec.EscapeSpec Proofs.BlocksTotal2Safe.
Import ListNotations.
Local Open Scope string_scope.
Local Open Scope list_scope.

Definition sg {A} (al : string -> bool) (fu : bool) (Q : A -> Prop) (r : res A) : Prop :=
  match r with Ok a => Q a | Panic s => al s = true | OutOfFuel => fu = true end.

Definition ng {A} (al : string -> bool) (fu : bool) (r : res A) : Prop := sg al fu (fun _ => True) r.

Definition inl (L : list string) (s : string) : bool := existsb (String.eqb s) L.
Definition only (L : list string) : string -> bool := inl L.
Definition but (L : list string) (s : string) : bool := negb (inl L s).

Lemma inl_in L s : inl L s = true <-> In s L.
Proof.
  unfold inl. rewrite existsb_exists. split.
  - intros [x [H E]]. apply String.eqb_eq in E. now subst.
  - intro H. exists s. split; [exact H | apply String.eqb_refl].
Qed.

Lemma inl_app L1 L2 s : inl (L1 ++ L2) s = inl L1 s || inl L2 s.
Proof. unfold inl. apply existsb_app. Qed.

(* ---- composition *)
Lemma sg_bind {A B} al fu (r : res A) (k : A -> res B) (P : A -> Prop) (Q : B -> Prop) :
  sg al fu P r -> (forall a, r = Ok a -> P a -> sg al fu Q (k a)) -> sg al fu Q (bind r k).
Proof. destruct r as [a| |]; cbn [sg bind]; intros H K; [now apply K | exact H | exact H]. Qed.

Lemma sg_weaken {A} al fu (P Q : A -> Prop) (r : res A) :
  sg al fu P r -> (forall a, r = Ok a -> P a -> Q a) -> sg al fu Q r.
Proof. destruct r; cbn [sg]; intros H K; auto. Qed.

Lemma sg_mono {A} (al al' : string -> bool) (fu fu' : bool) (Q : A -> Prop) (r : res A) :
  (forall s, al s = true -> al' s = true) -> (fu = true -> fu' = true) -> sg al fu Q r -> sg al' fu' Q r.
Proof. destruct r; cbn [sg]; intros H1 H2 H; auto. Qed.

Lemma sg_ok {A} al fu (Q : A -> Prop) (r : res A) a : sg al fu Q r -> r = Ok a -> Q a.
Proof. intros S ->. exact S. Qed.

Lemma sg_ng {A} al fu (P : A -> Prop) (r : res A) : sg al fu P r -> ng al fu r.
Proof. intro H. eapply sg_weaken; [exact H | auto]. Qed.

Lemma ng_sg {A} al fu (P : A -> Prop) (r : res A) : ng al fu r -> (forall a, r = Ok a -> P a) -> sg al fu P r.
Proof. intros H K. eapply sg_weaken; [exact H | auto]. Qed.

Lemma ng_bind {A B} al fu (r : res A) (k : A -> res B) :
  ng al fu r -> (forall a, r = Ok a -> ng al fu (k a)) -> ng al fu (bind r k).
Proof. intros H K. eapply sg_bind; [exact H | intros a E _; now apply K]. Qed.

Lemma sgb {A B} al fu (r : res A) (k : A -> res B) (Q : B -> Prop) :
  ng al fu r -> (forall a, r = Ok a -> sg al fu Q (k a)) -> sg al fu Q (bind r k).
Proof. intros H K. eapply sg_bind; [exact H | intros a E _; now apply K]. Qed.

Lemma sg_assoc {A B C} al fu (r : res A) (f : A -> res B) (K : B -> res C) (Q : C -> Prop) :
  sg al fu Q (bind r (fun a => bind (f a) K)) -> sg al fu Q (bind (bind r f) K).
Proof. destruct r; exact (fun H => H). Qed.

Lemma ng_ok {A} al fu (r : res A) a : r = Ok a -> ng al fu r.
Proof. intros ->. exact I. Qed.

Lemma ng_ex {A} al fu (r : res A) : (exists a, r = Ok a) -> ng al fu r.
Proof. intros [a ->]. exact I. Qed.

Lemma ng_res_map {A B} al fu (f : A -> B) (r : res A) : ng al fu r -> ng al fu (res_map f r).
Proof. destruct r; cbn; auto. Qed.

(* ---- two walks of the same computation *)
Lemma sg_and {A} al1 al2 fu1 fu2 (Q1 Q2 : A -> Prop) (r : res A) :
  sg al1 fu1 Q1 r -> sg al2 fu2 Q2 r -> sg (fun s => al1 s && al2 s) (fu1 && fu2) (fun a => Q1 a /\ Q2 a) r.
Proof. destruct r; cbn [sg]; intros H1 H2; [split; assumption | now rewrite H1, H2 | now rewrite H1, H2]. Qed.

(* the second round's `safe` is an instance *)
Lemma safe_sg {A} (Q : A -> Prop) (r : res A) : safe Q r <-> sg (fun s => negb (bad s)) true Q r.
Proof.
  destruct r as [a|s|]; cbn [safe sg]; [tauto | | tauto].
  destruct (bad s); cbn [negb]; split; intro H; try reflexivity; try discriminate H.
Qed.

Lemma bad_inl s : bad s = inl tree_sites s.
Proof. reflexivity. Qed.

Lemma safe_sg_but {A} (Q : A -> Prop) (r : res A) : safe Q r <-> sg (but tree_sites) true Q r.
Proof. apply safe_sg. Qed.

(* the continuation of a bind may use what the first walk proved of the intermediate result *)
Lemma sg_bind_safe {A B} al fu (r : res A) (k : A -> res B) (P P2 : A -> Prop) (Q : B -> Prop) :
  safe P r -> sg al fu P2 r -> (forall a, r = Ok a -> P a -> P2 a -> sg al fu Q (k a)) -> sg al fu Q (bind r k).
Proof. destruct r as [a| |]; cbn [safe sg bind]; intros H1 H2 K; [now apply K | exact H2 | exact H2]. Qed.

Lemma sg_with_safe {A} al fu (P Q : A -> Prop) (r : res A) :
  safe P r -> sg al fu Q r -> sg (fun s => negb (bad s) && al s) fu (fun a => P a /\ Q a) r.
Proof.
  intros H1 H2. apply safe_sg in H1. pose proof (sg_and _ _ _ _ _ _ _ H1 H2) as H. exact H.
Qed.

(* ---- conclusions *)
Lemma sg_no_panic {A} L fu (Q : A -> Prop) (r : res A) s : sg (but L) fu Q r -> In s L -> r <> Panic s.
Proof.
  intros H I E. subst r. cbn [sg] in H. unfold but in H. apply inl_in in I. rewrite I in H. discriminate H.
Qed.

Lemma sg_panic_in {A} L fu (Q : A -> Prop) (r : res A) s : sg (only L) fu Q r -> r = Panic s -> In s L.
Proof. intros H E. subst r. cbn [sg] in H. now apply inl_in. Qed.

Lemma sg_no_fuel {A} al (Q : A -> Prop) (r : res A) : sg al false Q r -> r <> OutOfFuel.
Proof. intros H E. subst r. discriminate H. Qed.

Lemma sg_total {A} (Q : A -> Prop) (r : res A) : sg (only []) false Q r -> exists a, r = Ok a /\ Q a.
Proof. destruct r as [a|s|]; cbn [sg]; intro H; [eauto | discriminate H | discriminate H]. Qed.

(* ---- the helpers of Model/Blocks.v that carry a site *)
Lemma sg_idx al fu site l i :
  (i < List.length l \/ al site = true) -> sg al fu (fun b => nth_error l i = Some b) (idx site l i).
Proof.
  intro H. unfold idx. destruct (nth_error l i) eqn:E; [reflexivity|]. cbn [sg].
  destruct H as [H|H]; [apply nth_error_None in E; lia | exact H].
Qed.

Lemma sg_sub al fu site a b : (b <= a \/ al site = true) -> sg al fu (fun n => n = a - b /\ b <= a) (sub site a b).
Proof.
  intro H. unfold sub. destruct (Nat.ltb a b) eqn:E; cbn [sg].
  - destruct H as [H|H]; [apply Nat.ltb_lt in E; lia | exact H].
  - apply Nat.ltb_ge in E. split; [reflexivity | exact E].
Qed.

Lemma sg_slice_from al fu site (l : bytes) i :
  (i <= List.length l \/ al site = true) -> sg al fu (fun s => s = skipn i l /\ i <= List.length l) (slice_from site l i).
Proof.
  intro H. unfold slice_from. destruct (Nat.ltb (List.length l) i) eqn:E; cbn [sg].
  - destruct H as [H|H]; [apply Nat.ltb_lt in E; lia | exact H].
  - apply Nat.ltb_ge in E. split; [reflexivity | exact E].
Qed.

Lemma sg_from_utf8 al fu site b :
  (utf8_valid b = true \/ al site = true) -> sg al fu (fun s => s = b /\ utf8_valid b = true) (from_utf8 site b).
Proof.
  intro H. unfold from_utf8. destruct (utf8_valid b) eqn:E; cbn [sg]; [split; reflexivity|].
  destruct H as [H|H]; [discriminate H | exact H].
Qed.

Lemma ng_idx al fu site l i : (i < List.length l \/ al site = true) -> ng al fu (idx site l i).
Proof. intro H. eapply sg_ng. apply sg_idx. exact H. Qed.
Lemma ng_sub al fu site a b : (b <= a \/ al site = true) -> ng al fu (sub site a b).
Proof. intro H. eapply sg_ng. apply sg_sub. exact H. Qed.
Lemma ng_slice_from al fu site (l : bytes) i : (i <= List.length l \/ al site = true) -> ng al fu (slice_from site l i).
Proof. intro H. eapply sg_ng. apply sg_slice_from. exact H. Qed.
Lemma ng_from_utf8 al fu site b : (utf8_valid b = true \/ al site = true) -> ng al fu (from_utf8 site b).
Proof. intro H. eapply sg_ng. apply sg_from_utf8. exact H. Qed.

(* a computation that is total needs no allowance at all *)
Lemma ng_total {A} al fu (r : res A) : (exists a, r = Ok a) -> ng al fu r.
Proof. apply ng_ex. Qed.

(* an `nb` fact of the second round is an `ng` fact for every set that allows the non-tree sites *)
Lemma nb_ng {A} al (r : res A) : (forall s, bad s = false -> al s = true) -> nb r -> ng al true r.
Proof. intros H N. destruct r as [a|s|]; cbn in *; auto. Qed.
