(* Proofs/BlocksTotal7CurScan.v — totality of the block phase, seventh round, the cursor-boundary walk, part 1: where a
   scanner match ENDS, structurally over the regenerated rule lists of Gen/ScannersRe.v (the generic style of
   Proofs/BlocksTotal4Scan.v: a boolean check on the rules decided by computation + a lemma over the regex AST).

     re_ascii r        every class of r holds ASCII bytes only; then every match of r is all ASCII (matches_ascii)
     re_last_ascii r   every non-empty match of r ENDS with an ASCII byte (matches_last_ascii): the classes in final
                       position are ASCII (a class in the middle, e.g. the label of a footnote definition, is free)
     scan_last_ascii   for an Option<usize> scanner whose heads are re_last_ascii: a match of m >= 1 bytes has an ASCII
                       byte at m - 1, so the position behind it is a character boundary of every valid UTF-8 string
     scan_all_ascii    for a scanner whose heads are re_ascii: the consumed prefix is all ASCII
   and the byte behind a list marker is white space (marker_space): an ASCII byte AT the new offset. *)
From Coq Require Import List NArith Arith Bool Lia Strings.String.
From V Require Import Base.Bytes Base.Res Base.Regex Base.Re2c Gen.StrLeafGen Gen.ScannersRe Model.Ast Model.Strings Model.Scan
  Model.ListMarker Model.Blocks Proofs.RegexProofs Proofs.ScanProofs Proofs.BlocksCursor Proofs.BlocksTotal3Cur
  Proofs.BlocksTotal4Scan Proofs.BlocksTotal4Marker.
Import ListNotations.
Local Open Scope string_scope.
Local Open Scope list_scope.

Definition cs_ascii (cs : cset) : bool := forallb (fun c => implb (cs_mem cs c) (is_ascii c)) all_bytes.

Lemma cs_ascii_ok cs c : cs_ascii cs = true -> cs_mem cs c = true -> is_ascii c = true.
Proof. intro H. exact (forall_bytes_impl (cs_mem cs) is_ascii H c). Qed.

(* ================================================================== all ASCII *)
Fixpoint re_ascii (r : re) : bool :=
  match r with
  | Empty | Eps => true
  | Chr cs => cs_ascii cs
  | Cat a c | Alt a c => re_ascii a && re_ascii c
  | Star a => re_ascii a
  end.

Lemma matches_ascii r s : matches r s -> re_ascii r = true -> forallb is_ascii s = true.
Proof.
  induction 1 as [|cs c Hc|a c s t Ma IHa Mc IHc|a c s Ma IH|a c s Mc IH| |a s t Ma IHa Ms IHs]; cbn [re_ascii]; intros Hv.
  - reflexivity.
  - cbn [forallb]. rewrite (cs_ascii_ok _ _ Hv Hc). reflexivity.
  - apply andb_true_iff in Hv. destruct Hv as [Va Vc]. rewrite forallb_app, (IHa Va), (IHc Vc). reflexivity.
  - apply andb_true_iff in Hv. destruct Hv as [Va _]. now apply IH.
  - apply andb_true_iff in Hv. destruct Hv as [_ Vc]. now apply IH.
  - reflexivity.
  - rewrite forallb_app, (IHa Hv), (IHs Hv). reflexivity.
Qed.

(* ================================================================== the last byte is ASCII *)
Definition last_ok (s : bytes) : Prop := s = [] \/ exists p c, s = p ++ [c] /\ is_ascii c = true.

Lemma last_ok_app s t : last_ok t -> (t = [] -> last_ok s) -> last_ok (s ++ t).
Proof.
  intros [->|(p & c & -> & A)] H.
  - rewrite app_nil_r. now apply H.
  - right. exists (s ++ p), c. rewrite app_assoc. auto.
Qed.

Fixpoint re_last_ascii (r : re) : bool :=
  match r with
  | Empty | Eps => true
  | Chr cs => cs_ascii cs
  | Cat a c => re_last_ascii c && (re_last_ascii a || Nat.ltb 0 (min_len c))
  | Alt a c => re_last_ascii a && re_last_ascii c
  | Star a => re_last_ascii a
  end.

Lemma matches_last_ascii r s : matches r s -> re_last_ascii r = true -> last_ok s.
Proof.
  induction 1 as [|cs c Hc|a c s t Ma IHa Mc IHc|a c s Ma IH|a c s Mc IH| |a s t Ma IHa Ms IHs]; cbn [re_last_ascii]; intros Hv.
  - now left.
  - right. exists [], c. split; [reflexivity | eapply cs_ascii_ok; eassumption].
  - apply andb_true_iff in Hv. destruct Hv as [Vc Va]. apply last_ok_app; [now apply IHc|]. intros ->.
    apply orb_true_iff in Va. destruct Va as [Va|Va]; [now apply IHa|].
    apply Nat.ltb_lt in Va. apply min_len_le in Mc. cbn [List.length] in Mc. lia.
  - apply andb_true_iff in Hv. destruct Hv as [Va _]. now apply IH.
  - apply andb_true_iff in Hv. destruct Hv as [_ Vc]. now apply IH.
  - now left.
  - apply last_ok_app; [exact (IHs Hv) | intros _; exact (IHa Hv)].
Qed.

Lemma last_ok_nth (s : bytes) m : m <= List.length s -> 1 <= m -> last_ok (firstn m s) ->
  exists c, nth_error s (m - 1) = Some c /\ is_ascii c = true.
Proof.
  intros Hm H1 [E|(p & c & E & A)].
  - apply (f_equal (@List.length byte)) in E. rewrite firstn_length_le in E by lia. cbn [List.length] in E. lia.
  - exists c. split; [|exact A].
    assert (L : List.length p = m - 1).
    { apply (f_equal (@List.length byte)) in E. rewrite firstn_length_le, app_length in E by lia. cbn [List.length] in E. lia. }
    rewrite <- (firstn_skipn m s). rewrite E.
    rewrite nth_error_app1 by (rewrite app_length; cbn [List.length]; lia).
    rewrite nth_error_app2 by lia. rewrite L, Nat.sub_diag. reflexivity.
Qed.

Lemma scan_last_ascii rules s m :
  forallb is_cursor_rule rules = true ->
  forallb (fun x => re_last_ascii (rule_head x)) rules = true ->
  as_opt_usize (run_rules rules ActNone 0 s) = Some m -> 1 <= m ->
  exists c, nth_error s (m - 1) = Some c /\ is_ascii c = true.
Proof.
  intros Hr Hv H H1. destruct (run_rules_cursor_head _ _ _ Hr H) as (Hm & x & Hin & M).
  rewrite forallb_forall in Hv. exact (last_ok_nth _ _ Hm H1 (matches_last_ascii _ _ M (Hv _ Hin))).
Qed.

Lemma scan_all_ascii rules s m :
  forallb is_cursor_rule rules = true ->
  forallb (fun x => re_ascii (rule_head x)) rules = true ->
  as_opt_usize (run_rules rules ActNone 0 s) = Some m -> forallb is_ascii (firstn m s) = true.
Proof.
  intros Hr Hv H. destruct (run_rules_cursor_head _ _ _ Hr H) as (_ & x & Hin & M).
  rewrite forallb_forall in Hv. exact (matches_ascii _ _ M (Hv _ Hin)).
Qed.

Ltac scan_last := let H := fresh "H" in let H1 := fresh "H" in
  intros H H1; eapply scan_last_ascii; [| |exact H|exact H1]; vm_compute; reflexivity.
Ltac scan_ascii := let H := fresh "H" in intro H; eapply scan_all_ascii; [| |exact H]; vm_compute; reflexivity.

(* ---- the scanners whose match length moves the offset (first_nonspace + matched) *)
Lemma scan_atx_heading_start_last s m : scan_atx_heading_start s = Some m -> 1 <= m ->
  exists c, nth_error s (m - 1) = Some c /\ is_ascii c = true.
Proof. scan_last. Qed.
Lemma scan_open_code_fence_last s m : scan_open_code_fence s = Some m -> 1 <= m ->
  exists c, nth_error s (m - 1) = Some c /\ is_ascii c = true.
Proof. scan_last. Qed.
Lemma scan_close_code_fence_last s m : scan_close_code_fence s = Some m -> 1 <= m ->
  exists c, nth_error s (m - 1) = Some c /\ is_ascii c = true.
Proof. scan_last. Qed.
Lemma scan_footnote_definition_last s m : scan_footnote_definition s = Some m -> 1 <= m ->
  exists c, nth_error s (m - 1) = Some c /\ is_ascii c = true.
Proof. scan_last. Qed.
Lemma scan_description_item_start_last s m : scan_description_item_start s = Some m -> 1 <= m ->
  exists c, nth_error s (m - 1) = Some c /\ is_ascii c = true.
Proof. scan_last. Qed.
Lemma scan_open_mbq_fence_last s m : scan_open_multiline_block_quote_fence s = Some m -> 1 <= m ->
  exists c, nth_error s (m - 1) = Some c /\ is_ascii c = true.
Proof. scan_last. Qed.
Lemma scan_close_mbq_fence_last s m : scan_close_multiline_block_quote_fence s = Some m -> 1 <= m ->
  exists c, nth_error s (m - 1) = Some c /\ is_ascii c = true.
Proof. scan_last. Qed.
Lemma scan_table_start_last s m : scan_table_start s = Some m -> 1 <= m ->
  exists c, nth_error s (m - 1) = Some c /\ is_ascii c = true.
Proof. scan_last. Qed.

(* all ASCII: the fences, the ATX opener, the description marker (the footnote label is not) *)
Lemma scan_atx_heading_start_ascii s m : scan_atx_heading_start s = Some m -> forallb is_ascii (firstn m s) = true.
Proof. scan_ascii. Qed.
Lemma scan_close_code_fence_ascii s m : scan_close_code_fence s = Some m -> forallb is_ascii (firstn m s) = true.
Proof. scan_ascii. Qed.
Lemma scan_description_item_start_ascii s m : scan_description_item_start s = Some m -> forallb is_ascii (firstn m s) = true.
Proof. scan_ascii. Qed.
Lemma scan_open_mbq_fence_ascii s m : scan_open_multiline_block_quote_fence s = Some m -> forallb is_ascii (firstn m s) = true.
Proof. scan_ascii. Qed.
Lemma scan_close_mbq_fence_ascii s m : scan_close_multiline_block_quote_fence s = Some m -> forallb is_ascii (firstn m s) = true.
Proof. scan_ascii. Qed.

(* ================================================================== the list marker: white space behind it *)
Lemma digits_loop_suffix : forall left s start digits st' d' rest,
  digits_loop left s start digits = Ok (st', d', rest) -> digits <= d' /\ rest = skipn (d' - digits) s.
Proof.
  induction left as [|l IH]; intros s start digits st' d' rest H; destruct s as [|d r];
    cbn [digits_loop] in H; try discriminate; destruct (bN d <? 48)%N; try discriminate.
  - injection H as Ea Eb Ec; subst. split; [lia|]. replace (S digits - digits) with 1 by lia. reflexivity.
  - destruct l as [|l'].
    + injection H as Ea Eb Ec; subst. split; [lia|]. replace (S digits - digits) with 1 by lia. reflexivity.
    + destruct r as [|e r']; [discriminate|]. destruct (sl_isdigit e).
      * apply IH in H. destruct H as [Hd ->]. split; [lia|].
        replace (d' - digits) with (S (d' - S digits)) by lia. reflexivity.
      * injection H as Ea Eb Ec; subst. split; [lia|]. replace (S digits - digits) with 1 by lia. reflexivity.
Qed.

Theorem marker_space line pos ip n l : parse_list_marker line pos ip = Ok (Some (n, l)) ->
  exists d, nth_error line (pos + n) = Some d /\ sl_isspace d = true.
Proof.
  unfold parse_list_marker.
  destruct (skipn pos line) as [|c s1] eqn:Es; [discriminate|].
  destruct (beqb c x2a || beqb c x2d || beqb c x2b).
  - destruct s1 as [|d s1']; [discriminate|]. destruct (sl_isspace d) eqn:Sd; cbn [negb]; [|discriminate].
    assert (Hd : nth_error line (pos + 1) = Some d) by (rewrite <- nth_error_skipn_add, Es; reflexivity).
    destruct ip.
    + destruct (after_spaces (d :: s1')) as [e| |]; cbn [bind]; try discriminate.
      destruct (beqb e x0a); [discriminate|]. intro H. inversion H; subst. eauto.
    + cbn [bind]. intro H. inversion H; subst. eauto.
  - destruct (sl_isdigit c); [|discriminate].
    destruct (digits_loop list_digits_cap (c :: s1) 0%N 0) as [[[start digits] s2]| |] eqn:El; cbn [bind]; try discriminate.
    apply digits_loop_suffix in El. destruct El as [_ El]. rewrite Nat.sub_0_r in El.
    destruct (ip && negb (start =? 1)%N); [discriminate|].
    destruct s2 as [|c2 s3]; [discriminate|].
    destruct (negb (beqb c2 x2e) && negb (beqb c2 x29)); [discriminate|].
    destruct s3 as [|d s3']; [discriminate|]. destruct (sl_isspace d) eqn:Sd; cbn [negb]; [|discriminate].
    assert (Hd : nth_error line (pos + S digits) = Some d).
    { rewrite <- nth_error_skipn_add, Es. replace (S digits) with (digits + 1) by lia.
      rewrite <- nth_error_skipn_add, <- El. reflexivity. }
    destruct ip.
    + destruct (after_spaces (d :: s3')) as [e| |]; cbn [bind]; try discriminate.
      destruct (is_line_end_char e); [discriminate|]. intro H. inversion H; subst. eauto.
    + cbn [bind]. intro H. inversion H; subst. eauto.
Qed.
