(* Proofs/InlinesTotal4LeafTest.v — C01, fourth wave: the per-leaf premises of InlinesTotal4Leaves.leaf_ok EVALUATED
   (not proved) on the leaves parse_blocks hands over for a small corpus of documents under all block extensions:
   ATX / setext headings, paragraphs with stripped reference definitions, tables, lists with tab continuation,
   block quotes, alerts, footnote definitions, description lists, CR LF / bare CR / missing final line end, NUL.
   No axioms. *)
From Coq Require Import List NArith Arith Bool Strings.String.
From V Require Spec.EscapeSpec.
From V Require Import Base.Bytes Base.Res Model.Strings Model.Ast Model.Blocks Model.Inlines Model.Parse
     Proofs.InlinesTotal2 Proofs.BlocksTotal4Spine.
Import ListNotations.
Local Open Scope list_scope.

Definition leaf_okb (i : binfo) : bool :=
  let c := rtrim_slice (bi_content i) in
  match c with [] => true | _ =>
  negb (has_nul c) && Spec.EscapeSpec.utf8_valid c && first_line_not_blank c
  && Nat.ltb (line_endings c) (List.length (bi_lo i)) end.

(* (all leaves ok, number of leaves) *)
Definition doc_chk (o : bopts) (x : bytes) : bool * nat :=
  match parse_blocks o x with
  | Ok r => let l := bleaves [] (br_root r) in (forallb (fun e => leaf_okb (snd e)) l, List.length l)
  | _ => (false, 0)
  end.

Definition nl : bytes := [x0a].
Definition corpus : list bytes :=
  [ B "# heading  " ++ nl;
    B "para line1" ++ nl ++ B "line2  " ++ nl;
    B "[a]: /u" ++ nl ++ B "text" ++ nl;
    B "[a]: /u" ++ nl;
    B "Setext" ++ nl ++ B "more" ++ nl ++ B "===" ++ nl;
    B "| a | b |" ++ nl ++ B "|---|---|" ++ nl ++ B "| c |  |" ++ nl;
    B "- item" ++ nl ++ B "  cont" ++ nl;
    B "> quote" ++ nl ++ B "> more" ++ nl;
    B "- a" ++ nl ++ [x09] ++ B "b" ++ nl;
    B "#" ++ nl;
    B "a" ++ [x0d; x0a] ++ B "b" ++ [x0d];
    B "a" ++ [x00] ++ B "b";
    B "[a]: /u" ++ nl ++ [x22] ++ B "title" ++ [x22] ++ B " junk" ++ nl;
    B "| a |" ++ nl ++ B "|---|" ++ nl ++ B "| `x` |" ++ nl;
    B "## a ##" ++ nl;
    B "term" ++ nl ++ B ": def" ++ nl;
    B "[^a]: note" ++ nl ++ B "    more" ++ nl;
    B "> [!NOTE]" ++ nl ++ B "> text" ++ nl;
    B "[a]: /u" ++ nl ++ B "Title" ++ nl ++ B "---" ++ nl;
    B "abc";
    B "a" ++ nl ++ B "   b" ++ nl;
    B "  lead" ++ nl ++ [x09] ++ B "tabbed" ++ nl;
    B "1. x" ++ nl ++ nl ++ B "   y" ++ nl;
    B "| a |" ++ nl ++ B "|---|" ++ nl ++ B "para after" ++ nl;
    B "text" ++ nl ++ B "| a |" ++ nl ++ B "|---|" ++ nl ++ B "| b |" ++ nl;
    B ">>> " ++ nl ++ B "mq" ++ nl ++ B ">>>" ++ nl;
    B "# " ++ [xc3; xa9] ++ B " h" ++ nl ++ [xe2; x82; xac] ++ nl ].

Definition run_corpus (o : bopts) : list (bool * nat) := map (doc_chk o) corpus.

(* the strict form (without the exception for empty content) fails on the empty ATX heading: content [], no line offsets *)
Lemma empty_heading_has_no_line_offsets :
  match parse_blocks o_all (B "#" ++ nl) with
  | Ok r => map (fun e => (bi_content (snd e), bi_lo (snd e))) (bleaves [] (br_root r))
  | _ => []
  end = [([], [])].
Proof. vm_compute. reflexivity. Qed.

Lemma leaves_ok_on_corpus :
  forallb (fun r => fst r) (run_corpus o_all) = true /\ forallb (fun r => fst r) (run_corpus o_all_ng) = true
  /\ fold_right (fun r a => snd r + a) 0 (run_corpus o_all) = 36.
Proof. vm_compute. repeat split; reflexivity. Qed.
