(* Proofs/InlinesTotal2Scan.v — what a re2c scanner block of plain rules with action `return Some(cursor)` answers:
   a length between the minimal length of its regular expressions and the length of the slice it was given.
   Instances: the scanners the inline phase uses to compute positions.  No axioms. *)
From Coq Require Import List NArith Arith Bool Lia.
From V Require Import Base.Bytes Base.Regex Base.Re2c Gen.ScannersRe Model.Scan Proofs.RegexProofs Proofs.ScanProofs.
Import ListNotations.
Local Open Scope list_scope.

Fixpoint minlen (r : re) : nat :=
  match r with
  | Empty => 1000
  | Eps => 0
  | Chr _ => 1
  | Cat a b => minlen a + minlen b
  | Alt a b => Nat.min (minlen a) (minlen b)
  | Star _ => 0
  end.

Lemma minlen_sound r p : matches r p -> minlen r <= List.length p.
Proof.
  induction 1; cbn [minlen List.length]; try rewrite app_length; try lia.
Qed.

Definition plain_cursor_min (k : nat) (x : rule) : bool :=
  match x with RPlain r ActCursor => Nat.leb k (minlen r) | _ => false end.

Lemma scan_bound k rules s m :
  forallb (plain_cursor_min k) rules = true ->
  as_opt_usize (run_rules rules ActNone 0 s) = Some m -> k <= m /\ m <= List.length s.
Proof.
  intros Hp H.
  assert (forallb is_plain rules = true) as Hpl.
  { rewrite forallb_forall in *. intros x Hx. specialize (Hp x Hx). destruct x; [reflexivity|discriminate|discriminate]. }
  destruct (run_rules_plain rules ActNone s Hpl) as [[E _]|(r & a & L & Hin & Hl & E & _)]; rewrite E in H.
  - discriminate H.
  - rewrite forallb_forall in Hp. specialize (Hp _ Hin). cbn [plain_cursor_min] in Hp.
    destruct a; try discriminate Hp. apply Nat.leb_le in Hp.
    cbn in H. inversion H; subst m.
    apply longest_match_spec in Hl. destruct Hl as (A & B & _).
    apply minlen_sound in B. rewrite firstn_length in B. lia.
Qed.

Lemma scan_autolink_uri_bound s m : scan_autolink_uri s = Some m -> 1 <= m /\ m <= List.length s.
Proof. apply (scan_bound 1). vm_compute. reflexivity. Qed.
Lemma scan_autolink_email_bound s m : scan_autolink_email s = Some m -> 1 <= m /\ m <= List.length s.
Proof. apply (scan_bound 1). vm_compute. reflexivity. Qed.
Lemma scan_html_tag_bound s m : scan_html_tag s = Some m -> 1 <= m /\ m <= List.length s.
Proof. apply (scan_bound 1). vm_compute. reflexivity. Qed.
Lemma scan_html_comment_bound s m : scan_html_comment s = Some m -> 1 <= m /\ m <= List.length s.
Proof. apply (scan_bound 1). vm_compute. reflexivity. Qed.
Lemma scan_spacechars_bound s m : scan_spacechars s = Some m -> 1 <= m /\ m <= List.length s.
Proof. apply (scan_bound 1). vm_compute. reflexivity. Qed.
Lemma scan_link_title_bound s m : scan_link_title s = Some m -> 2 <= m /\ m <= List.length s.
Proof. apply (scan_bound 2). vm_compute. reflexivity. Qed.
