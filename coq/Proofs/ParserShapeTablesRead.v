(* Proofs/ParserShapeTablesRead.v — the invariant of Proofs/ParserShapeTables.v holds initially, hence for the result
   of parse_blocks; read on the public tree: Spec.Valid.tables_ok, Spec.Shape.s3, pairwise distinct identifiers. *)
From Coq Require Import List NArith Arith Bool Lia Strings.String.
From V Require Import Base.Bytes Base.Res Gen.Nodes Model.Ast Model.Blocks Spec.Shape Spec.HtmlSpec Spec.Valid
  Proofs.BlocksProofs Proofs.ParserShapeBlocks Proofs.ParserShapeTree Proofs.ParserShapeTabPrim Proofs.ParserShapeTables.
From V Require Proofs.ValidProofs.
Import ListNotations.
Local Open Scope list_scope.

Lemma TI_init o : TI o [] init_state.
Proof.
  split; [apply NI_init|]. split; [|reflexivity].
  intro x. unfold init_state, root_id. cbn [ps_root ps_next]. cnt_norm. cbn [bi_id]. unfold one. destruct (Nat.eq_dec 0 x); lia.
Qed.

Theorem parse_blocks_TI o x r : parse_blocks o x = Ok r ->
  btab (br_root r) = true /\ (forall y, cnt y (ids (br_root r)) <= 1).
Proof.
  unfold parse_blocks. intro H. pose proof (TI_init o) as V.
  mon H; monall. cbn [br_root].
  assert (X : TI o [] a) by eauto with ti.
  split; [apply X | eapply TI_distinct; exact X].
Qed.

(* ================================================================== reading it on the public tree *)
Theorem parse_blocks_tables_ok o x r : parse_blocks o x = Ok r -> tables_ok (to_node (br_root r)) = true.
Proof.
  intro H. destruct (parse_blocks_NI _ _ _ H) as [D _]. destruct (parse_blocks_TI _ _ _ H) as [B _].
  now apply btab_tables_ok.
Qed.

Theorem parse_blocks_s3 o x r : parse_blocks o x = Ok r -> s3 (to_node (br_root r)) = true.
Proof. intro H. apply ValidProofs.tables_ok_s3. eapply parse_blocks_tables_ok; exact H. Qed.

Theorem parse_blocks_ids_distinct o x r : parse_blocks o x = Ok r -> NoDup (ids (br_root r)).
Proof.
  intro H. destruct (parse_blocks_TI _ _ _ H) as [_ U]. apply (NoDup_count_occ Nat.eq_dec). exact U.
Qed.
