(* Proofs/InlinesTotal3Test.v — C01, inline phase, third wave: invariants (S) and (T) TESTED BY EVALUATION on the model
   before they were proved.  Executable forms: `sinvb` (the stacks merged by position embed, in order, into the children;
   every named child is the right Text with end column >= its length; sibling ids unique and below the counter),
   `thb` (when the bytes ahead are letters followed by colon slash slash, the trailing Text siblings spell the letters
   behind pos: the rewind of handle_autolink_with finds them), `pe_chk` (pe_loop instrumented: the zipper embeds into the
   item list in every iteration).  run_chk answers (S ok, T ok, zipper ok) for one content; corpus_all_ok: all three
   hold in every state of the main loop for 134 delimiter-heavy contents under 4 option sets (a random corpus of 6000
   more contents x 4 option sets was evaluated the same way while developing, not kept here: 70 s).  No axioms. *)
From Coq Require Import List NArith ZArith Arith Bool Strings.String Lia.
From V Require Import Base.Bytes Base.Res Gen.StrLeafGen Model.Strings Model.Spx Model.Ast Model.AutolinkLeaf Model.Inlines
     Proofs.InlinesProofs.
Import ListNotations.
Local Open Scope list_scope.

Inductive entry := ED (d : delim) | EB (id p : nat) (img : bool).
Definition epos e := match e with ED d => d_pos d | EB _ p _ => p end.
Definition eid e := match e with ED d => d_id d | EB i _ _ => i end.

Fixpoint ins (e : entry) (l : list entry) : list entry :=
  match l with [] => [e] | x :: r => if Nat.ltb (epos e) (epos x) then e :: l else x :: ins e r end.
Definition entries (s : st) : list entry :=
  fold_left (fun acc b => ins (EB (b_id b) (b_pos b) (b_image b)) acc) (rev (brackets s)) (map ED (delims s)).

Fixpoint sortedb (l : list entry) : bool :=
  match l with x :: ((y :: _) as r) => Nat.ltb (epos x) (epos y) && sortedb r | _ => true end.

Definition quoteb (ch : byte) : bool := beqb ch x27 || beqb ch x22.
Definition dtextb (d : delim) (t : bytes) : bool :=
  if quoteb (d_char d) then
    bytes_eqb t utf8_lsquo || bytes_eqb t utf8_rsquo || bytes_eqb t utf8_ldquo || bytes_eqb t utf8_rdquo
  else Nat.leb 1 (List.length t) && Nat.leb (List.length t) (d_len d) && forallb (beqb (d_char d)) t.

Definition enodeb (e : entry) (it : item) : bool :=
  match text_of (snd it) with
  | None => false
  | Some t =>
    match e with
    | ED d => dtextb d t && (quoteb (d_char d) || (N.of_nat (List.length t) <=? ec (nsp (snd it)))%N)
    | EB _ _ img => bytes_eqb t (if img then [x21; x5b] else [x5b])
    end
  end.

Fixpoint embb (es : list entry) (items : list item) : bool :=
  match es with
  | [] => true
  | e :: es' =>
    (fix go (items : list item) : bool :=
       match items with
       | [] => false
       | it :: r => if Nat.eqb (fst it) (eid e) then enodeb e it && embb es' r else go r
       end) items
  end.

Fixpoint nodupb (l : list nat) : bool :=
  match l with [] => true | x :: r => negb (existsb (Nat.eqb x) r) && nodupb r end.

Definition sinvb (s : st) : bool :=
  let es := entries s in
  sortedb es && embb es (rev (sibs s)) && nodupb (map fst (sibs s))
  && forallb (fun e => Nat.leb (epos e) (pos s)) es
  && forallb (fun it => Nat.ltb (fst it) (nid s)) (sibs s).

(* (T) *)
Section T.
Variable inp : bytes.
Definition alpha_back (p : nat) : nat := count_while_b sl_isalpha (rev (firstn p inp)).
Definition colon_ahead (p : nat) : bool :=
  let j := p + count_while_b sl_isalpha (skipn p inp) in
  peek_eq inp j x3a && peek_eq inp (j + 1) x2f && peek_eq inp (j + 2) x2f.
Fixpoint spelledb (l : list item) (k : nat) : bool :=
  match k with
  | O => true
  | _ =>
    match l with
    | [] => false
    | it :: r =>
      match text_of (snd it) with
      | None => false
      | Some t =>
        forallb sl_isalpha (firstn k (rev t)) &&
        (if Nat.ltb k (List.length t) then (N.of_nat k <=? ec (nsp (snd it)))%N
         else spelledb r (k - List.length t))
      end
    end
  end.
Definition thb (s : st) : bool := negb (colon_ahead (pos s)) || spelledb (sibs s) (alpha_back (pos s)).
End T.

Section Run.
Variable o : iopts.
Variable inp : bytes.
Definition lo0 : list N := repeat 0%N 40.

Fixpoint loop_chk (fuel : nat) (s : st) : res (bool * bool * st) :=
  match fuel with
  | O => OutOfFuel
  | S f =>
    if negb (sinvb s) then Ok (false, true, s)
    else if negb (thb inp s) then Ok (true, false, s)
    else
    do r <- parse_inline true o oracle_ascii inp lo0 1%N [([x72], ([x2f; x75], []))] 100000%N s;
    match r with
    | None => Ok (true, true, s)
    | Some s' => loop_chk f s'
    end
  end.

(* pe_loop with the embedding of the zipper checked at every iteration *)
Definition zipb (items : list item) (below : list delim) (c : delim) (above : list delim) : bool :=
  embb (map ED (rev below ++ c :: above)) items.

Fixpoint pe_chk (fuel : nat) (s : st) (n0 : nat) (items : list item) (ob : list nat)
         (below : list delim) (closer : option delim) (above : list delim) : res bool :=
  match fuel with
  | O => OutOfFuel
  | S f =>
    match closer with
    | None => Ok true
    | Some c =>
      if negb (zipb items below c above && nodupb (map fst items) && forallb (fun it => Nat.ltb (fst it) n0) items) then Ok false else
      let next_closer := match above with [] => None | a :: _ => Some a end in
      let above' := match above with [] => [] | _ :: r => r end in
      if d_close c then
        do ix <- ob_index c;
        let (found, mod3) := find_opener c (nth ix ob 0) below [] false in
        let ob_nf := if mod3 then ob else list_set ob ix (d_pos c) in
        let below_nf := if d_open c then c :: below else below in
        if is_emph_char o (d_char c) then
          match found with
          | Some (between, op, rest) =>
            do r <- insert_emph o s n0 items op c;
            match r with
            | None => Ok true
            | Some (items', keep_op, keep_cl, n1) =>
              let below' := if keep_op then op :: rest else rest in
              if keep_cl then pe_chk f s n1 items' ob below' (Some c) above
              else pe_chk f s n1 items' ob below' next_closer above'
            end
          | None => pe_chk f s n0 items ob_nf below_nf next_closer above'
          end
        else if beqb (d_char c) x27 || beqb (d_char c) x22 then
          do items1 <- replace_item_text "c" (d_id c)
                         (if beqb (d_char c) x27 then utf8_rsquo else utf8_rdquo) items;
          match found with
          | Some (between, op, rest) =>
            do items2 <- replace_item_text "o" (d_id op)
                           (if beqb (d_char c) x27 then utf8_lsquo else utf8_ldquo) items1;
            pe_chk f s n0 items2 ob (between ++ rest) next_closer above'
          | None => pe_chk f s n0 items1 ob_nf below_nf next_closer above'
          end
        else OutOfFuel
      else pe_chk f s n0 items ob (c :: below) next_closer above'
    end
  end.

Definition run_chk : res (bool * bool * bool) :=
  do r <- loop_chk (S (List.length inp)) (init_st 1%N 0%N);
  let '(a, b, s) := r in
  if negb (a && b) then Ok (a, b, true) else
  do p <- (match delims s with
           | [] => Ok true
           | c :: above => pe_chk (2 * List.length inp + 2 * List.length (delims s) + 2) s (nid s) (rev (sibs s)) (repeat 0 12) [] (Some c) above
           end);
  do q <- parse_inlines true o oracle_ascii inp lo0 1%N [([x72], ([x2f; x75], []))] 100000%N 0%N;
  Ok (a, b, p).
End Run.

Definition io_all (smart : bool) : iopts :=
  mkIO true true true true true true true true false true true true smart false false true false.
Definition io_relaxed : iopts :=
  mkIO true true false true true true false false true false true false true true true false true.

Local Open Scope string_scope.
Definition corpus : list bytes := map B (

  "*a*" :: "***a**b*" :: "**a*b***" :: "*a **b** c*" :: "_a __b_ c__" :: "***a***" :: "****a****" :: "*a*b*c*" :: "**a* b" :: "*a**" ::
  "[*a*](u)" :: "*[a](u)*" :: "*a [b*](u) c*" :: "[a *b](u) c*" :: "*a [b](u)* c" :: "[*a [b](u) c*](v)" :: "![*a*](u)" :: "![a *b](u)*" ::
  "[r]" :: "[*r*]" :: "*[r]*" :: "[a][r]" :: "*x [a][r] y*" :: "[a *b][r] c*" :: "[a]*b*[r]" :: "[[a]] [r]" :: "[![a](u)](v)" ::
  "~~a~~" :: "~a~" :: "~~a~" :: "~a~~" :: "~~~a~~~" :: "*~~a*~~" :: "~~*a~~*" :: "__a__" :: "___a___" :: "_a_b_" :: "||a||" :: "|a|" :: "|||a|||" ::
  "^a^" :: "^^a^^" :: "[^a^](u)" :: "x^2^ [a^b](u)^" ::
  "'a'" :: "x ""a"" y" :: "'a ""b' c""" :: "*'a'*" :: "'*a'*" :: "[a 'b](u) c'" :: "it's 'x' ""y""" :: "''a''" :: """'" :: "'""a""'" ::
  "[^a]" :: "[^*a*]" :: "*x [^a*] y" :: "[^a `c` b]" :: "[^a <b> c]" :: "*[^a]*" :: "[^[^a]]" :: "[a [^b] c](u)" :: "[^'a']" ::
  "[[a]]" :: "[[a|b]]" :: "*[[a|b*]]" :: "[[*a*|b]]" :: "[x [[a]] y](u)" ::
  "*a http://x.y b*" :: "*http://x.y*" :: "_http://x.y_" :: "[a http://x.y b](u)" :: "**www.a.com**" :: "*x*http://a.b" :: "'http://a.b'" ::
  "a*http://a.b" :: "~http://a.b~" :: "[http://a.b]" :: "![http://a.b" :: "x:http://a.b" :: "<a>http://a.b" :: "&amp;http://a.b" :: "\*http://a.b" ::
  "<?php http://a.b ?>" :: "<?xhttp://a.b" :: "<!-- x -->http://a.b" :: "<!X http://a.b>" :: "<![CDATA[x]]>http://a.b" :: "`c`http://a.b" ::
  "www.a.comhttp://a.b" :: "www.a.com:http://a.b" :: "www.a.com://x" :: "www.a.b&amp;://x" :: "http://a.bhttp://c.d" :: "http://a.b:http://c.d" ::
  "$x$http://a.b" :: "a--http://a.b" :: "a...http://a.b" :: "wwhttp://a.b" :: "wwwhttp://a.b" :: "whttps://a.b" :: "ww w ftp://a.b" ::
  "*a*[b](u)*c*" :: "*a [b]* c](u)" :: "**a [b](u)**c**" :: "*a ![b* c](u)" :: "[a](u)*b*[c](v)" :: "* a *" :: "** a **" :: "a*" :: "*" :: "**" :: "[*]" :: "[*](*)" ::
  "*a\*b*" :: "*a&amp;b*" :: "*a`*`b*" :: "*a<b>*c*" :: "a * b * c" :: "*a*b**c**d***e***" ::
  "[a]: x" :: "[a](<b>)" :: "[a](b ""t"")" :: "[a *b](c ""t"") d*" :: "*[a](b 't')*" ::
  "]" :: "]]" :: "[]" :: "[]()" :: "![]()" :: "[ ](u)" :: "[*](u)" :: "[**](u)" :: "*[*](u)*" ::
 nil)%list.

Local Close Scope string_scope.
Definition run_all (o : iopts) : list (bytes * res (bool * bool * bool)) :=
  filter (fun x => match snd x with Ok (true, true, true) => false | _ => true end)
         (map (fun i => (i, run_chk o i)) corpus).

Lemma corpus_all_ok :
  run_all (io_all true) = [] /\ run_all (io_all false) = [] /\ run_all io_relaxed = [] /\ run_all io_default = [].
Proof. vm_compute. repeat split; reflexivity. Qed.
