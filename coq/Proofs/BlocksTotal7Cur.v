(* Proofs/BlocksTotal7Cur.v — totality of the block phase, seventh round, the cursor-boundary walk, part 5: the site

     mod.rs:add_line:str::from_utf8(&line[self.offset..]).unwrap()

   is unreachable when the input is valid UTF-8.  al7u = but cur7_sites.  The walk is the `only` walk of
   Proofs/BlocksTotal5Only.v with the new allowed set; the one function that carries a premise is add_line: the cursor
   boundary invariant UB of Proofs/BlocksTotal7CurInv.v, which process_line establishes at the start of every line
   (offset 0, or 3 behind a byte order mark: one character) on lines that are valid UTF-8 and end with LF
   (lines_lf_utf8; the text behind a front matter block is valid as well: split_rest_valid_u), and which
   check_open_blocks (check_open_blocks_UB), open_new_blocks (open_new_blocks_UB) and the moves of
   add_text_to_container keep.  The ATX heading hands add_line a CHOPPED line: a prefix of the line cut in front of an
   ASCII byte, which keeps the invariant (chop_pre). *)
From Coq Require Import List NArith Arith Bool Lia Strings.String.
From V Require Import Base.Bytes Base.Res Gen.Nodes Gen.BlocksConst Gen.FeedConst Gen.StrLeafGen Model.Ast Model.Strings Model.Entity Model.LinkUrl Model.ListMarker
  Model.Feed Model.FrontMatter Model.RefDef Model.Scan Model.Blocks Spec.EscapeSpec Spec.LineEndings
  Proofs.FeedProofs Proofs.StrLeafProofs Proofs.StrLeafEntity Proofs.StrLeafParse Proofs.BlocksProofs Proofs.BlocksCursor Proofs.BlocksTotal
  Proofs.BlocksTotal2Safe Proofs.BlocksTotal2Root Proofs.BlocksTotal2Tree Proofs.BlocksTotal2Walk Proofs.BlocksTotal3Tab
  Proofs.BlocksTotal3Cur Proofs.BlocksTotal4Safe Proofs.BlocksTotal4Cur Proofs.BlocksTotal4Frame
  Proofs.BlocksTotal4Walk Proofs.BlocksTotal4Open Proofs.BlocksTotal4Atx Proofs.BlocksTotal4Line Proofs.BlocksTotal5Adv
  Proofs.BlocksTotal7CurInv Proofs.BlocksTotal7CurOpen Proofs.BlocksTotal7CurLine.
From V Require Proofs.BlocksTotal4Row Proofs.BlocksTotal7Fm Proofs.FrontMatterProofs.
Import ListNotations.
Local Open Scope string_scope.
Local Open Scope list_scope.

Definition cur7_sites : list string := [ "mod.rs:add_line:str::from_utf8(&line[self.offset..]).unwrap()" ].

Definition al7u : string -> bool := but cur7_sites.
Notation ng7u := (ng al7u true).

Ltac allowed := vm_compute; reflexivity.

Create HintDb ng7u.

Ltac ngstep :=
  match goal with
  | |- ng _ _ (bind ?r _) => apply ng_bind; [ try solve [auto with ng7u] | intros ]
  | |- ng _ _ (Ok _) => exact I
  | |- ng _ _ OutOfFuel => reflexivity
  | |- ng _ _ (Panic _) => first [assumption | allowed]
  | |- ng _ _ no_node => allowed
  | |- ng _ _ (not_handled _ _) => exact I
  | |- ng _ _ (res_map _ _) => apply ng_res_map
  | |- ng _ _ (if ?b then _ else _) => destruct b
  | |- ng _ _ (match ?x with _ => _ end) => destruct x
  | |- ng _ _ (let (_, _) := ?x in _) => destruct x
  end.
Ltac nggo := repeat ngstep; auto with ng7u.

Lemma ng7u_idx site l i : al7u site = true -> ng7u (idx site l i).
Proof. intro H. apply ng_idx. now right. Qed.
Lemma ng7u_sub site a b : al7u site = true -> ng7u (sub site a b).
Proof. intro H. apply ng_sub. now right. Qed.
Lemma ng7u_slice_from site l i : al7u site = true -> ng7u (Blocks.slice_from site l i).
Proof. intro H. apply ng_slice_from. now right. Qed.
Lemma ng7u_from_utf8 site b : al7u site = true -> ng7u (from_utf8 site b).
Proof. intro H. apply ng_from_utf8. now right. Qed.
#[export] Hint Extern 1 (ng _ _ (idx _ _ _)) => (apply ng7u_idx; first [assumption | allowed]) : ng7u.
#[export] Hint Extern 1 (ng _ _ (sub _ _ _)) => (apply ng7u_sub; first [assumption | allowed]) : ng7u.
#[export] Hint Extern 1 (ng _ _ (Blocks.slice_from _ _ _)) => (apply ng7u_slice_from; first [assumption | allowed]) : ng7u.
#[export] Hint Extern 1 (ng _ _ (from_utf8 _ _)) => (apply ng7u_from_utf8; first [assumption | allowed]) : ng7u.

(* ---- leaf functions: total for all arguments *)
Lemma ng7u_trim s : ng7u (Strings.trim s). Proof. rewrite trim_ok. exact I. Qed.
Lemma ng7u_rtrim s : ng7u (Strings.rtrim s). Proof. rewrite rtrim_ok. exact I. Qed.
Lemma ng7u_unescape s : ng7u (Strings.unescape s). Proof. rewrite unescape_is_spec. exact I. Qed.
Lemma ng7u_unescape_html s : ng7u (unescape_html s). Proof. apply ng_ex. apply unescape_html_total. Qed.
Lemma ng7u_manual_scan_link_url s : ng7u (manual_scan_link_url s).
Proof. apply ng_ex. destruct (manual_scan_link_url_total s) as [r [E _]]. exists r. exact E. Qed.
Lemma ng7u_row s sp : ng7u (row s sp). Proof. apply ng_ex. apply BlocksTotal4Row.row_total. Qed.
Lemma ng7u_table_matches s sp : ng7u (table_matches s sp). Proof. apply ng_ex. apply BlocksTotal4Row.table_matches_total. Qed.
#[export] Hint Resolve ng7u_trim ng7u_rtrim ng7u_unescape ng7u_unescape_html ng7u_manual_scan_link_url ng7u_row ng7u_table_matches : ng7u.

(* ---- leaf functions with sites of their own *)
Lemma ng7u_remove_trailing_blank_lines s : ng7u (remove_trailing_blank_lines s).
Proof. unfold remove_trailing_blank_lines. nggo. Qed.
Lemma ng7u_chop_trailing_hashtags s : ng7u (chop_trailing_hashtags s).
Proof. unfold chop_trailing_hashtags. nggo. Qed.
Lemma ng7u_clean_url s : ng7u (clean_url s). Proof. unfold clean_url. nggo. Qed.
(* clean_title panics on a title of length 1 only (Props/StrLeaf.v); its one caller hands it a scan_link_title match *)
Lemma ng7u_clean_title s : List.length s <> 1 -> ng7u (clean_title s).
Proof. intro H. apply ng_ex. now apply clean_title_total. Qed.
#[export] Hint Resolve ng7u_remove_trailing_blank_lines ng7u_chop_trailing_hashtags ng7u_clean_url : ng7u.
Lemma scan_link_title_ge s m : scan_link_title s = Some m -> 2 <= m.
Proof. BlocksTotal4Scan.scan_ge. Qed.
Lemma scan_link_title_le s m : scan_link_title s = Some m -> m <= List.length s.
Proof. intro H. eapply as_opt_usize_cursor_le; [|exact H]. vm_compute. reflexivity. Qed.
(* line_at: bytes[end..] is inside the string as long as the start is; split_off_front_matter starts at 0 and goes on
   from the `next` of the line before *)
Lemma sgo_fm_line_at s k : k <= List.length s -> sg al7u true (fun r => snd r <= List.length s) (fm_line_at s k).
Proof.
  intro H. unfold fm_line_at. pose proof (BlocksTotal4Fuel.scan_line_end_bounds (skipn k s) k) as B. rewrite skipn_length in B.
  set (e := scan_line_end (skipn k s) k) in *. unfold byte_slice_from.
  destruct (Nat.leb e (List.length s)) eqn:L; [|apply Nat.leb_gt in L; lia]. apply Nat.leb_le in L. cbn [bind].
  unfold fm_slice. destruct (_ && _ && _); [cbn [bind sg snd] | allowed].
  destruct (starts_with (skipn e s) fm_crlf) eqn:Sw.
  - apply starts_with_app in Sw. destruct Sw as [r Er]. apply (f_equal (@List.length byte)) in Er.
    rewrite skipn_length, app_length in Er. change (List.length fm_crlf) with 2 in Er. lia.
  - destruct (Nat.ltb e (List.length s)) eqn:Lt; [apply Nat.ltb_lt in Lt; lia | lia].
Qed.
Lemma sgo_find_closing_line : forall fuel s d e, e <= List.length s ->
  sg al7u true (fun c => match c with Some e' => e' <= List.length s | None => True end) (find_closing_line fuel s d e).
Proof.
  induction fuel as [|f IH]; intros s d e H; cbn [find_closing_line]; [reflexivity|].
  destruct (Nat.eqb e (List.length s)); [exact I|].
  eapply sg_bind; [now apply sgo_fm_line_at|]. intros ln _ Hn.
  destruct (bytes_eqb (fst ln) d); [exact Hn | now apply IH].
Qed.
Lemma ng7u_split_off_front_matter s d : ng7u (split_off_front_matter s d).
Proof.
  unfold split_off_front_matter, slice_to, FrontMatter.slice_from.
  eapply sg_bind; [apply sgo_fm_line_at; lia|]. intros l0 _ H0.
  destruct (_ || _); [exact I|].
  eapply sg_bind; [now apply sgo_find_closing_line|]. intros [e|] _ He; [|exact I].
  eapply sg_bind; [now apply sgo_fm_line_at|]. intros l1 _ _. cbv zeta. match goal with |- sg ?a ?f _ ?r => change (ng a f r) end. nggo.
Qed.
#[export] Hint Resolve ng7u_split_off_front_matter : ng7u.
Lemma ng7u_peek s p : ng7u (peek s p). Proof. unfold peek. nggo. Qed.
#[export] Hint Resolve ng7u_peek : ng7u.
Lemma ng7u_skip_spaces : forall s, ng7u (skip_spaces s).
Proof. induction s as [|c r IH]; cbn [skip_spaces]; nggo. Qed.
#[export] Hint Resolve ng7u_skip_spaces : ng7u.
Lemma ng7u_skip_line_end s p : ng7u (skip_line_end s p). Proof. unfold skip_line_end. nggo. Qed.
#[export] Hint Resolve ng7u_skip_line_end : ng7u.
Lemma ng7u_spnl s p : ng7u (spnl s p). Proof. unfold spnl. nggo. Qed.
#[export] Hint Resolve ng7u_spnl : ng7u.
Lemma ng7u_label_loop : forall fuel s pos len c, ng7u (label_loop fuel s pos len c).
Proof. induction fuel as [|f IH]; intros s pos len c; cbn [label_loop]; nggo. Qed.
#[export] Hint Resolve ng7u_label_loop : ng7u.
Lemma ng7u_link_label s : ng7u (link_label s). Proof. unfold link_label. nggo. Qed.
#[export] Hint Resolve ng7u_link_label : ng7u.
Lemma ng7u_parse_reference_inline fold m s : ng7u (parse_reference_inline fold m s).
Proof.
  unfold parse_reference_inline.
  apply ng_bind; [auto with ng7u|]. intros [[lab pos]|] _; [|exact I]. destruct lab as [|l0 lab]; [exact I|].
  apply ng_bind; [auto with ng7u|]. intros [c|] _; [|exact I]. destruct (negb (beqb c x3a)); [exact I|]. cbv zeta.
  apply ng_bind; [auto with ng7u|]. intros pos1 _.
  apply ng_bind; [auto with ng7u|]. intros [[url matchlen]|] _; [|exact I].
  apply ng_bind; [auto with ng7u|]. intros pos2 _.
  match goal with |- ng _ _ (let '(title, pos) := ?tp in _) =>
    assert (HT : List.length (fst tp) <> 1); [|destruct tp as [title pos3]; cbn [fst] in HT] end.
  { destruct (Nat.eqb pos2 (pos1 + matchlen)); [cbn; lia|].
    destruct (scan_link_title (skipn pos2 s)) as [ml|] eqn:Sc; [|cbn; lia].
    pose proof (scan_link_title_ge _ _ Sc). pose proof (scan_link_title_le _ _ Sc). cbn [fst]. rewrite firstn_length. lia. }
  apply ng_bind; [auto with ng7u|]. intros n _.
  apply ng_bind; [auto with ng7u|]. intros [p1 ok] _.
  eapply sg_bind with (P := fun fin : option (nat * bytes) => match fin with Some (_, t) => List.length t <> 1 | None => True end).
  { destruct ok; [exact HT|]. destruct title; [exact I|].
    apply sgb; [auto with ng7u|]. intros n2 _. apply sgb; [auto with ng7u|]. intros [p2 ok2] _.
    destruct ok2; cbn [sg List.length]; [lia | exact I]. }
  intros [[posf t]|] _ Hf; [|exact I].
  destruct (normalize_label fold (l0 :: lab) true); [exact I|].
  apply ng_bind; [auto with ng7u|]. intros cu _.
  apply ng_bind; [now apply ng7u_clean_title|]. intros ct _. nggo.
Qed.
#[export] Hint Resolve ng7u_parse_reference_inline : ng7u.
Lemma ng7u_resolve_loop fold : forall fuel m seek seeked, ng7u (resolve_loop fuel fold m seek seeked).
Proof. induction fuel as [|f IH]; intros m seek seeked; cbn [resolve_loop]; nggo. Qed.
#[export] Hint Resolve ng7u_resolve_loop : ng7u.
Lemma ng7u_resolve_refdefs fold m c : ng7u (resolve_refdefs fold m c).
Proof. unfold resolve_refdefs. nggo. Qed.
#[export] Hint Resolve ng7u_resolve_refdefs : ng7u.
Lemma ng7u_copy_line_offsets : forall n lo k, ng7u (copy_line_offsets n lo k).
Proof. induction n as [|m IH]; intros lo k; cbn [copy_line_offsets]; nggo. Qed.
Lemma ng7u_header_cells : forall cells id ln sl sc po, ng7u (header_cells cells id ln sl sc po).
Proof. induction cells as [|c r IH]; intros; cbn [header_cells]; nggo. Qed.
Lemma ng7u_row_cells : forall n cells id ln sc lc, ng7u (row_cells n cells id ln sc lc).
Proof. induction n as [|m IH]; intros cells id ln sc lc; destruct cells; cbn [row_cells]; nggo. Qed.
#[export] Hint Resolve ng7u_copy_line_offsets ng7u_header_cells ng7u_row_cells : ng7u.
Lemma ng7u_parse_html_block_prefix st t : ng7u (parse_html_block_prefix st t).
Proof. unfold parse_html_block_prefix. nggo. Qed.
#[export] Hint Resolve ng7u_parse_html_block_prefix : ng7u.
Lemma ng7u_after_spaces : forall s, ng7u (after_spaces s).
Proof. induction s as [|b r IH]; cbn [after_spaces]; nggo. Qed.
Lemma ng7u_digits_loop : forall left s start digits, ng7u (digits_loop left s start digits).
Proof.
  induction left as [|l IH]; intros s start digits; destruct s as [|d r]; cbn [digits_loop]; try allowed.
  - destruct (N.ltb _ _); [allowed | exact I].
  - destruct (N.ltb _ _); [allowed|]. destruct l; [exact I|]. destruct r as [|e r']; [allowed|].
    destruct (StrLeafGen.sl_isdigit e); [apply IH | exact I].
Qed.
#[export] Hint Resolve ng7u_after_spaces ng7u_digits_loop : ng7u.
Lemma ng7u_parse_list_marker line pos ip : ng7u (parse_list_marker line pos ip).
Proof. unfold parse_list_marker. nggo. Qed.
#[export] Hint Resolve ng7u_parse_list_marker : ng7u.
Lemma ng7u_alert_title_loop line : forall fuel pos fl, ng7u (alert_title_loop fuel line pos fl).
Proof. induction fuel as [|f IH]; intros pos fl; cbn [alert_title_loop]; nggo. Qed.
Lemma ng7u_count_hashes : forall s, ng7u (count_hashes s).
Proof. induction s as [|b r IH]; cbn [count_hashes]; nggo. Qed.
#[export] Hint Resolve ng7u_alert_title_loop ng7u_count_hashes : ng7u.

(* ---- the cursor *)
Lemma ng7u_find_first_nonspace c line : ng7u (find_first_nonspace c line).
Proof. unfold find_first_nonspace. destruct (if Nat.leb _ _ then _ else _) as [f fc]. nggo. Qed.
Lemma ng7u_advance_loop line columns : forall fuel off col pct count, ng7u (advance_loop fuel line off col pct count columns).
Proof. induction fuel as [|f IH]; intros off col pct count; destruct count; cbn [advance_loop]; nggo. Qed.
#[export] Hint Resolve ng7u_find_first_nonspace ng7u_advance_loop : ng7u.
Lemma ng7u_advance_offset c line count columns : ng7u (advance_offset c line count columns).
Proof. unfold advance_offset. nggo. Qed.
#[export] Hint Resolve ng7u_advance_offset : ng7u.
Lemma ng7u_adv st line n b : ng7u (adv st line n b). Proof. unfold adv. nggo. Qed.
Lemma ng7u_ffn st line : ng7u (ffn st line). Proof. unfold ffn. nggo. Qed.
#[export] Hint Resolve ng7u_adv ng7u_ffn : ng7u.
Lemma ng7u_skip_one_space st line site : al7u site = true -> ng7u (skip_one_space st line site).
Proof. intro H. unfold skip_one_space. nggo. Qed.
Lemma ng7u_skip_fence_offset line site : al7u site = true -> forall i st, ng7u (skip_fence_offset i st line site).
Proof. intro H. induction i as [|j IH]; intro st; cbn [skip_fence_offset]; nggo. Qed.
Lemma ng7u_list_spaces_loop line sc : forall fuel st, ng7u (list_spaces_loop fuel st line sc).
Proof. induction fuel as [|f IH]; intro st; cbn [list_spaces_loop]; nggo. Qed.
#[export] Hint Resolve ng7u_list_spaces_loop : ng7u.
#[export] Hint Extern 1 (ng _ _ (skip_one_space _ _ _)) => (apply ng7u_skip_one_space; first [assumption | allowed]) : ng7u.
#[export] Hint Extern 1 (ng _ _ (skip_fence_offset _ _ _ _)) => (apply ng7u_skip_fence_offset; first [assumption | allowed]) : ng7u.

(* ---- tree primitives *)
Lemma ng7u_get st x : ng7u (get st x).
Proof. unfold get. destruct (find_node x (ps_root st)); [exact I | allowed]. Qed.
Lemma ng7u_modify st x f : ng7u (modify st x f).
Proof. unfold modify. destruct (upd x f (ps_root st)); [exact I | allowed]. Qed.
Lemma ng7u_modify_info st x f : ng7u (modify_info st x f).
Proof. apply ng7u_modify. Qed.
Lemma ng7u_bdetach st x : ng7u (bdetach st x).
Proof. unfold bdetach. destruct (edit_kids _ _ _); exact I. Qed.
Lemma ng7u_retighten st p : ng7u (retighten st p).
Proof. apply ng_ex. apply retighten_total. Qed.
#[export] Hint Resolve ng7u_get ng7u_modify ng7u_modify_info ng7u_bdetach ng7u_retighten : ng7u.
Lemma ng7u_append_child st p c : ng7u (append_child st p c).
Proof. apply ng7u_modify. Qed.
Lemma ng7u_last_child st x : ng7u (last_child st x). Proof. unfold last_child. nggo. Qed.
#[export] Hint Resolve ng7u_append_child ng7u_last_child : ng7u.
Lemma ng7u_last_child_is_open st x : ng7u (last_child_is_open st x).
Proof. unfold last_child_is_open. nggo. Qed.
#[export] Hint Resolve ng7u_last_child_is_open : ng7u.
Lemma ng7u_finalize o st id : ng7u (finalize o st id).
Proof. unfold finalize. nggo. Qed.
#[export] Hint Resolve ng7u_finalize : ng7u.
Lemma ng7u_unwrap_parent site o st id : al7u site = true -> ng7u (unwrap_parent site (finalize o st id)).
Proof. intro H. unfold unwrap_parent. nggo. Qed.
#[export] Hint Extern 1 (ng _ _ (unwrap_parent _ _)) => (apply ng7u_unwrap_parent; first [assumption | allowed]) : ng7u.
Lemma ng7u_add_child_loop o k : forall fuel st parent, ng7u (add_child_loop fuel o st parent k).
Proof. induction fuel as [|f IH]; intros st parent; cbn [add_child_loop]; nggo. Qed.
#[export] Hint Resolve ng7u_add_child_loop : ng7u.
Lemma ng7u_add_child_gen o st parent v col post kids : ng7u (add_child_gen o st parent v col post kids).
Proof. unfold add_child_gen. nggo. Qed.
Lemma ng7u_add_child o st parent v col : ng7u (add_child o st parent v col).
Proof. apply ng7u_add_child_gen. Qed.
#[export] Hint Resolve ng7u_add_child_gen ng7u_add_child : ng7u.
Lemma ng7u_clear_llb_up : forall fuel st id, ng7u (clear_llb_up fuel st id).
Proof. induction fuel as [|f IH]; intros st id; cbn [clear_llb_up]; nggo. Qed.
Lemma ng7u_finalize_up_to o target site : al7u site = true -> forall fuel st, ng7u (finalize_up_to fuel o st target site).
Proof. intro H. induction fuel as [|f IH]; intros st; cbn [finalize_up_to]; nggo. Qed.
Lemma ng7u_reopen : forall fuel st id, ng7u (reopen_ast_nodes fuel st id).
Proof. induction fuel as [|f IH]; intros st id; cbn [reopen_ast_nodes]; nggo. Qed.
#[export] Hint Resolve ng7u_clear_llb_up ng7u_reopen : ng7u.
#[export] Hint Extern 1 (ng _ _ (finalize_up_to _ _ _ _ _)) => (apply ng7u_finalize_up_to; first [assumption | allowed]) : ng7u.
Lemma ng7u_parse_desc_list_details o st c m : ng7u (parse_desc_list_details o st c m).
Proof. unfold parse_desc_list_details. nggo. Qed.
#[export] Hint Resolve ng7u_parse_desc_list_details : ng7u.
Lemma ng7u_try_inserting st c po : ng7u (try_inserting_table_header_paragraph st c po).
Proof. unfold try_inserting_table_header_paragraph. nggo. Qed.
#[export] Hint Resolve ng7u_try_inserting : ng7u.
(* add_line: the site *)
Lemma ng7u_add_line st id line : UB line st -> ng7u (add_line st id line).
Proof.
  intros [G1 G2]. unfold add_line. apply ng_bind; [auto with ng7u|]. intros n _.
  destruct (negb _); [allowed|]. cbv zeta.
  destruct (c_pct (ps_cur st)) eqn:P; cbv beta iota; cbn [c_offset].
  - apply ng_bind; [|intros; nggo]. destruct (Nat.ltb _ _); [|exact I].
    apply ng_bind; [apply ng_from_utf8; left; apply G2; reflexivity | intros; exact I].
  - apply ng_bind; [|intros; nggo]. destruct (Nat.ltb _ _); [|exact I].
    apply ng_bind; [apply ng_from_utf8; left; exact G1 | intros; exact I].
Qed.


(* ---- check_open_blocks *)
Lemma ng7u_is_not_greentext o st line : ng7u (is_not_greentext o st line).
Proof. unfold is_not_greentext. nggo. Qed.
#[export] Hint Resolve ng7u_is_not_greentext : ng7u.
Lemma ng7u_pbq o st line : ng7u (parse_block_quote_prefix o st line).
Proof. unfold parse_block_quote_prefix. nggo. Qed.
Lemma ng7u_pfn st line : ng7u (parse_footnote_definition_block_prefix st line).
Proof. unfold parse_footnote_definition_block_prefix. nggo. Qed.
Lemma ng7u_pip st line c mo pad : ng7u (parse_item_prefix st line c mo pad).
Proof. unfold parse_item_prefix. nggo. Qed.
#[export] Hint Resolve ng7u_pbq ng7u_pfn ng7u_pip : ng7u.
Lemma ng7u_pcbp o st line cid cb : ng7u (parse_code_block_prefix o st line cid cb).
Proof. unfold parse_code_block_prefix. nggo. Qed.
Lemma ng7u_pmbq o st line cid fl fo : ng7u (parse_multiline_block_quote_prefix o st line cid fl fo).
Proof. unfold parse_multiline_block_quote_prefix. nggo. Qed.
#[export] Hint Resolve ng7u_pcbp ng7u_pmbq : ng7u.
Lemma ng7u_check_container o st line c : ng7u (check_container o st line c).
Proof. unfold check_container. destruct (bval c); nggo. Qed.
#[export] Hint Resolve ng7u_check_container : ng7u.
Lemma ng7u_cobi o line : forall fuel st c, ng7u (check_open_blocks_inner fuel o st line c).
Proof. induction fuel as [|f IH]; intros st c; cbn [check_open_blocks_inner]; nggo. Qed.
#[export] Hint Resolve ng7u_cobi : ng7u.
Lemma ng7u_check_open_blocks o st line : ng7u (check_open_blocks o st line).
Proof. unfold check_open_blocks. nggo. Qed.
#[export] Hint Resolve ng7u_check_open_blocks : ng7u.

(* ---- open_new_blocks *)
Lemma ng7u_try_opening_header o st c line : ng7u (try_opening_header o st c line).
Proof. unfold try_opening_header. nggo. Qed.
Lemma ng7u_try_opening_row o st c t line : ng7u (try_opening_row o st c t line).
Proof. unfold try_opening_row. nggo. Qed.
Lemma ng7u_try_opening_block o st c line : ng7u (try_opening_block o st c line).
Proof.
  unfold try_opening_block. apply ng_bind; [auto with ng7u|]. intros cn _.
  destruct (bval cn); try exact I; [apply ng7u_try_opening_header | apply ng7u_try_opening_row].
Qed.
#[export] Hint Resolve ng7u_try_opening_block : ng7u.

Section Handlers.
Variables (o : bopts) (line : bytes).
Lemma ng7u_handle_alert st c ind : ng7u (handle_alert o st c line ind).
Proof. unfold handle_alert. nggo. Qed.
Lemma ng7u_handle_mbq st c ind : ng7u (handle_multiline_blockquote o st c line ind).
Proof. unfold handle_multiline_blockquote, rest_at_fns. nggo. Qed.
Lemma ng7u_handle_blockquote st c ind : ng7u (handle_blockquote o st c line ind).
Proof. unfold handle_blockquote. nggo. Qed.
Lemma ng7u_handle_atx st c ind : ng7u (handle_atx_heading o st c line ind).
Proof. unfold handle_atx_heading, rest_at_fns. nggo. Qed.
Lemma ng7u_handle_code_fence st c ind : ng7u (handle_code_fence o st c line ind).
Proof. unfold handle_code_fence, rest_at_fns. nggo. Qed.
Lemma ng7u_handle_html_block st c ind : ng7u (handle_html_block o st c line ind).
Proof. unfold handle_html_block, rest_at_fns. nggo. Qed.
Lemma ng7u_handle_setext st c ind : ng7u (handle_setext_heading o st c line ind).
Proof. unfold handle_setext_heading, rest_at_fns. nggo. Qed.
Lemma ng7u_handle_thematic_break st c ind am : ng7u (handle_thematic_break o st c line ind am).
Proof. unfold handle_thematic_break. nggo. Qed.
Lemma ng7u_handle_footnote st c ind d : ng7u (handle_footnote o st c line ind d).
Proof. unfold handle_footnote, rest_at_fns. nggo. Qed.
Lemma ng7u_handle_description_list st c ind : ng7u (handle_description_list o st c line ind).
Proof. unfold handle_description_list, rest_at_fns. nggo. Qed.
Lemma ng7u_handle_list st c ind d : ng7u (handle_list o st c line ind d).
Proof. unfold handle_list. nggo. Qed.
Lemma ng7u_handle_code_block st c ind ml : ng7u (handle_code_block o st c line ind ml).
Proof. unfold handle_code_block. nggo. Qed.

Lemma ng7u_or_else (r : hres) k : ng7u r -> (forall c s, ng7u (k c s)) -> ng7u (or_else_h r k).
Proof. intros H K. unfold or_else_h. apply ng_bind; [exact H|]. intros [[h c] s] _. destruct h; [exact I | apply K]. Qed.

Lemma ng7u_step st c am ml d : ng7u (open_new_blocks_step o st c line am ml d).
Proof.
  unfold open_new_blocks_step. apply ng_bind; [auto with ng7u|]. intros s0 _.
  apply ng_bind.
  { apply ng7u_or_else; [apply ng7u_handle_alert|]. intros c1 s1.
    apply ng7u_or_else; [apply ng7u_handle_mbq|]. clear c1 s1. intros c1 s1.
    apply ng7u_or_else; [apply ng7u_handle_blockquote|]. clear c1 s1. intros c1 s1.
    apply ng7u_or_else; [apply ng7u_handle_atx|]. clear c1 s1. intros c1 s1.
    apply ng7u_or_else; [apply ng7u_handle_code_fence|]. clear c1 s1. intros c1 s1.
    apply ng7u_or_else; [apply ng7u_handle_html_block|]. clear c1 s1. intros c1 s1.
    apply ng7u_or_else; [apply ng7u_handle_setext|]. clear c1 s1. intros c1 s1.
    apply ng7u_or_else; [apply ng7u_handle_thematic_break|]. clear c1 s1. intros c1 s1.
    apply ng7u_or_else; [apply ng7u_handle_footnote|]. clear c1 s1. intros c1 s1.
    apply ng7u_or_else; [apply ng7u_handle_description_list|]. clear c1 s1. intros c1 s1.
    apply ng7u_or_else; [apply ng7u_handle_list|]. clear c1 s1. intros c1 s1.
    apply ng7u_handle_code_block. }
  intros [[handled c1] s1] _. nggo.
Qed.

Lemma ng7u_loop am : forall fuel st c ml d, ng7u (open_new_blocks_loop fuel o st c line am ml d).
Proof.
  induction fuel as [|f IH]; intros st c ml d; cbn [open_new_blocks_loop]; [reflexivity|].
  apply ng_bind; [auto with ng7u|]. intros n _. destruct (is_code_or_html n); [exact I|].
  apply ng_bind; [apply ng7u_step|]. intros [[go c1] s1] _. destruct go; [apply IH | exact I].
Qed.

Lemma ng7u_open_new_blocks st c am : ng7u (open_new_blocks o st c line am).
Proof. unfold open_new_blocks. apply ng_bind; [auto with ng7u|]. intros n _. apply ng7u_loop. Qed.

End Handlers.

Lemma ng7u_finalize_document o st : ng7u (finalize_document o st).
Proof. unfold finalize_document. nggo. Qed.

Lemma ng7u_front_matter_prologue o st s : ng7u (front_matter_prologue o st s).
Proof. unfold front_matter_prologue. nggo. Qed.


(* ================================================================== a chopped line *)
(* line1 is a prefix of line, and a valid suffix of line stays valid when cut to line1 *)
Definition PRE (line line1 : bytes) : Prop :=
  (exists p, line = line1 ++ p) /\ forall k, gp line k -> gp line1 k.

Lemma PRE_refl l : PRE l l.
Proof. split; [exists []; now rewrite app_nil_r | auto]. Qed.

Lemma PRE_trans a b c : PRE a b -> PRE b c -> PRE a c.
Proof.
  intros [[p Ep] H1] [[q Eq] H2]. split; [|auto]. exists (q ++ p). rewrite Ep, Eq, app_assoc. reflexivity.
Qed.

Lemma forallb_skipn {A} (f : A -> bool) : forall k l, forallb f l = true -> forallb f (skipn k l) = true.
Proof.
  induction k as [|k IH]; intros l H; [exact H|]. destruct l as [|x l]; [reflexivity|].
  cbn [skipn]. cbn [forallb] in H. apply andb_true_iff in H. apply IH. tauto.
Qed.

Lemma PRE_drop a p : forallb is_ascii p = true -> PRE (a ++ p) a.
Proof.
  intro Hp. split; [now exists p|]. intros k G. unfold gp in *. rewrite skipn_app in G.
  eapply utf8_drop_ascii_suffix; [|exact G]. now apply forallb_skipn.
Qed.

Lemma PRE_rtrim l : PRE l (rtrim_slice l).
Proof.
  destruct (rtrim_slice_spec l) as [post [E [H _]]]. rewrite E at 1. apply PRE_drop. now apply space_run_ascii.
Qed.

Lemma PRE_firstn (l : bytes) n c : nth_error l n = Some c -> is_ascii c = true -> PRE l (firstn n l).
Proof.
  intros N A. split; [exists (skipn n l); now rewrite firstn_skipn|].
  intros k G. unfold gp in *.
  assert (Ln : n < List.length l) by (apply nth_error_Some; congruence).
  destruct (Nat.le_gt_cases k n) as [Hk|Hk].
  - pose proof (nth_error_split_at _ _ _ N) as E. rewrite E in G. rewrite skipn_app in G.
    rewrite firstn_length, Nat.min_l in G by lia. replace (k - n) with 0 in G by lia. cbn [skipn] in G.
    unfold utf8_valid in G. apply utf8_run_ustate in G.
    destruct (ustate_before_ascii _ _ _ G A) as [S0 _]. apply utf8_run_ustate. exact S0.
  - rewrite skipn_all2 by (rewrite firstn_length; lia). reflexivity.
Qed.

Lemma chop_pre l l1 : chop_trailing_hashtags l = Ok l1 -> PRE l l1.
Proof.
  unfold chop_trailing_hashtags. rewrite rtrim_ok. cbn [bind fst]. intro H.
  pose proof (PRE_rtrim l) as B.
  destruct (rtrim_slice l) as [|x r] eqn:R; [discriminate H|]. rewrite <- R in *. clear R.
  destruct (Nat.leb _ _); [inversion H; subst; exact B|].
  destruct (nth_error _ _) as [c|] eqn:N; [|discriminate H].
  destruct (_ && _) eqn:C; [|inversion H; subst; exact B].
  rewrite rtrim_ok in H. cbn [bind fst] in H. inversion H; subst.
  apply andb_true_iff in C. destruct C as [_ Sp].
  eapply PRE_trans; [exact B|]. eapply PRE_trans; [eapply PRE_firstn; [exact N | now apply sot_ascii] | apply PRE_rtrim].
Qed.

Lemma UB_pre line line1 st : PRE line line1 -> UB line st -> UB line1 st.
Proof. intros [_ P] [G1 G2]. split; [now apply P | intro Q; apply P; now apply G2]. Qed.

(* ================================================================== add_text_to_container *)
Section Text.
Variables (o : bopts) (line : bytes).
Hypothesis LN : lf_terminated line.
Hypothesis UV : utf8_valid line = true.

Lemma text_tail v s4 c : F0 line s4 -> UB line s4 ->
  ng7u (if blank s4 then Ok (c, s4)
        else if accepts_lines (kind_of v) then
          do line1 <- (match v with
                       | Heading _ setext => if negb setext then chop_trailing_hashtags line else Ok line
                       | _ => Ok line
                       end);
          do count <- sub "mod.rs:add_text_to_container:self.first_nonspace - self.offset" (fns s4) (offset s4);
          if Nat.leb (fns s4) (List.length line1) then
            do st1 <- adv s4 line1 count false;
            do st2 <- add_line st1 c line1;
            Ok (c, st2)
          else Ok (c, s4)
        else
          do a <- add_child o s4 c Paragraph (S (fns s4));
          let '(p, st1) := a in
          do count <- sub "mod.rs:add_text_to_container:self.first_nonspace - self.offset" (fns st1) (offset st1);
          do st2 <- adv st1 line count false;
          do st3 <- add_line st2 p line;
          Ok (p, st3)).
Proof.
  intros F4 U4. destruct (blank s4); [exact I|].
  destruct (accepts_lines (kind_of v)).
  - apply ng_bind; [destruct v; nggo|]. intros line1 E1.
    assert (PL : PRE line line1).
    { destruct v; try (inversion E1; subst; apply PRE_refl).
      match type of E1 with (if ?b then _ else _) = _ => destruct b end; [now apply chop_pre | inversion E1; subst; apply PRE_refl]. }
    unfold fns, offset. apply ng_bind; [auto with ng7u|]. intros count Ec. apply sub_ok in Ec. destruct Ec as [-> Hle].
    destruct (Nat.leb _ _) eqn:Lb; [|exact I]. apply Nat.leb_le in Lb.
    apply ng_bind; [auto with ng7u|]. intros s5 E5.
    apply ng_bind; [apply ng7u_add_line | intros; exact I].
    assert (UV1 : utf8_valid line1 = true) by (apply (proj2 PL 0); exact UV).
    eapply adv_bytes_UB; [exact UV1 | eapply UB_pre; eassumption | exact E5 |].
    destruct (Nat.eq_dec (c_fns (ps_cur s4) - c_offset (ps_cur s4)) 0) as [Z|NZ]; [left; exact Z | right].
    replace (c_offset (ps_cur s4) + (c_fns (ps_cur s4) - c_offset (ps_cur s4))) with (S (c_fns (ps_cur s4) - 1)) by lia.
    destruct (F0_ws line s4 (c_fns (ps_cur s4) - 1) F4 ltac:(lia)) as (b & Hb & Sp).
    eapply ab_prev; [|apply sot_ascii; exact Sp].
    destruct PL as [[p EL] _]. rewrite EL in Hb. rewrite nth_error_app1 in Hb by lia. exact Hb.
  - apply ng_bind; [auto with ng7u|]. intros [pp s5] E5.
    pose proof (add_child_KC _ _ _ _ _ _ _ _ _ E5 (KC_self s4)) as K5.
    unfold fns, offset. apply ng_bind; [auto with ng7u|]. intros count Ec. apply sub_ok in Ec. destruct Ec as [-> Hle].
    apply ng_bind; [auto with ng7u|]. intros s6 E6.
    apply ng_bind; [apply ng7u_add_line | intros; exact I].
    eapply adv_to_fns_UB; [exact UV | eapply F0_KC; [exact K5 | exact F4] | eapply UB_KC; [exact K5 | exact U4] | exact E6].
Qed.

Lemma ng7u_add_text_to_container st c lmc : C0 line st -> UB line st -> ng7u (add_text_to_container o st c lmc line).
Proof.
  intros C U. unfold add_text_to_container.
  apply ng_bind; [auto with ng7u|]. intros s0 E0.
  destruct (sg_ok _ _ _ _ _ (ffn_cur line st C) E0) as (F & _).
  assert (U0 : UB line s0) by (eapply ffn_UB; eassumption).
  apply ng_bind; [auto with ng7u|]. intros cn _.
  apply ng_bind; [nggo|]. intros s1 E1.
  assert (K1 : KC (ps_cur s0) (ps_curline_len s0) s1).
  { destruct (blank s0); [|inversion E1; subst; apply KC_self].
    destruct (last_opt (bkids cn)); [|inversion E1; subst; apply KC_self].
    eapply modify_info_KC; [exact E1 | apply KC_self]. }
  apply ng_bind; [auto with ng7u|]. intros s2 E2.
  assert (K2 : KC (ps_cur s0) (ps_curline_len s0) s2) by (eapply modify_info_KC; eassumption).
  apply ng_bind; [auto with ng7u|]. intros s3 E3.
  assert (K3 : KC (ps_cur s0) (ps_curline_len s0) s3) by (eapply clear_llb_up_KC; eassumption).
  apply ng_bind; [nggo|]. intros lz _.
  destruct lz; [apply ng7u_add_line; eapply UB_KC; [exact K3 | exact U0]|].
  apply ng_bind; [auto with ng7u|]. intros s4 E4.
  assert (K4 : KC (ps_cur s0) (ps_curline_len s0) s4) by (eapply finalize_up_to_KC; eassumption).
  assert (U4 : UB line s4) by (eapply UB_KC; eassumption).
  assert (F4 : F0 line s4) by (eapply F0_KC; eassumption).
  apply ng_bind; [auto with ng7u|]. intros c4 _.
  apply ng_bind; [|intros; exact I].
  destruct (bval c4) eqn:Bv;
    try (match goal with BB : bval c4 = ?vv |- _ => exact (text_tail vv s4 c F4 U4) end).
  - apply ng_bind; [apply ng7u_add_line; exact U4 | intros; exact I].
  - apply ng_bind; [apply ng7u_add_line; exact U4|]. intros s5 _. nggo.
Qed.
End Text.

(* ================================================================== process_line *)
Lemma ng7u_process_line o st line0 : lf_terminated (norm_line line0) -> utf8_valid (norm_line line0) = true -> LI o st ->
  ng7u (process_line o st line0).
Proof.
  intros LN UV L0. unfold process_line. cbv zeta.
  match goal with |- ng _ _ (bind (check_open_blocks o ?sa ?lx) _) =>
    assert (La : LI o sa) by (eapply LI_eqtree; [|exact L0]; repeat split); set (s_a := sa) in *; set (ln := lx) in * end.
  assert (Ca : C1 ln s_a).
  { unfold s_a, C1, C0. cbn [ps_cur st_cur st_line_number st_curline ps_curline_len c_offset].
    match goal with |- context [if ?b then 3 else 0] => destruct b eqn:Bm end.
    - apply andb_true_iff in Bm. destruct Bm as [Bm1 Bm2]. pose proof (bom_inside _ LN Bm2) as B3. fold ln in B3.
      split; [split; [apply CI_start; lia | reflexivity] | lia].
    - destruct (lf_last _ LN) as [_ L1]. fold ln in L1. split; [split; [apply CI_start; lia | reflexivity] | lia]. }
  assert (Ua : UB ln s_a).
  { unfold s_a, UB, UBc. cbn [ps_cur st_cur st_line_number c_offset c_pct]. split; [|discriminate].
    match goal with |- context [if ?b then 3 else 0] => destruct b eqn:Bm end; [|exact UV].
    apply andb_true_iff in Bm. destruct Bm as [_ Bm2]. apply starts_with_app in Bm2. destruct Bm2 as [r Er].
    unfold gp. pose proof UV as UV'. rewrite Er in UV' |- *. change (skipn 3 (bom_bytes ++ r)) with r.
    apply (utf8_suffix bom_bytes r); [exact UV' | reflexivity]. }
  destruct La as [Va Ha].
  apply ng_bind; [auto with ng7u|]. intros [r s1] E.
  pose proof (safe_ok _ _ _ (check_open_blocks_spec o s_a ln Va) E) as K.
  pose proof (sg_ok _ _ _ _ _ (check_open_blocks_cur ln LN o s_a Ca) E) as Kc. cbn [fst snd] in Kc.
  apply ng_bind; [|intros; exact I].
  destruct r as [[lm am]|]; [|exact I]. cbn in K. destruct K as [T Hl]. pose proof (W_eqtree _ _ _ T Va) as V1.
  assert (H1 : has s1 (ps_current s1)) by (destruct T as (T1 & T2 & T3); unfold has in *; now rewrite T1, T3).
  assert (U1 : UB ln s1) by (eapply check_open_blocks_UB; [exact LN | exact UV | exact Ca | exact Ua | exact E]).
  cbv zeta.
  apply ng_bind; [apply ng7u_open_new_blocks|]. intros [c s2] E2.
  pose proof (sg_ok _ _ _ _ _ (open_new_blocks_cur o ln s1 lm am LN V1 Hl H1 Kc) E2) as C2. cbn [snd] in C2.
  pose proof (open_new_blocks_UB o ln s1 lm am _ LN UV V1 Hl H1 Kc U1 E2) as U2. cbn [snd] in U2.
  destruct (Nat.eqb (ps_current s1) (ps_current s2)); [|exact I]. apply ng7u_add_text_to_container; assumption.
Qed.

Lemma ng7u_process_lines o : forall ls st,
  Forall (fun l => lf_terminated (norm_line l) /\ utf8_valid (norm_line l) = true /\ clean_line l = true) ls -> LI o st ->
  ng7u (process_lines o st ls).
Proof.
  induction ls as [|l r IH]; intros st Fa L0; cbn [process_lines]; [exact I|].
  inversion Fa as [|? ? (Hl & Hv & _) Hr]; subst.
  apply ng_bind; [now apply ng7u_process_line|]. intros s1 E.
  apply IH; [exact Hr | exact (safe_ok _ _ _ (process_line_spec' o st l L0) E)].
Qed.

(* the text behind a front matter block (Proofs/BlocksTotal7Fm.v: the cuts of split_off_front_matter are boundaries) *)
Lemma split_rest_valid_u s d fm rest : utf8_valid s = true -> split_off_front_matter s d = Ok (Some (fm, rest)) -> utf8_valid rest = true.
Proof.
  intro V0. pose proof (FrontMatterProofs.trim_valid _ V0) as V. unfold split_off_front_matter.
  set (t := trim_start_match s fm_bom) in *.
  assert (B0 : BlocksTotal7Fm.BP t 0) by (split; [lia | now left]).
  destruct (fm_line_at t 0) as [l0| |] eqn:E0; cbn [bind]; try discriminate.
  pose proof (sg_ok _ _ _ _ _ (BlocksTotal7Fm.sg7f_fm_line_at t 0 V B0) E0) as H0. cbn beta in H0.
  destruct (_ || _); [discriminate|].
  destruct (find_closing_line _ t d (snd l0)) as [[e|]| |] eqn:E1; cbn [bind]; try discriminate.
  pose proof (sg_ok _ _ _ _ _ (BlocksTotal7Fm.sg7f_find_closing_line _ t d _ V H0) E1) as He. cbn beta iota in He.
  destruct (fm_line_at t e) as [l1| |] eqn:E2; cbn [bind]; try discriminate.
  pose proof (sg_ok _ _ _ _ _ (BlocksTotal7Fm.sg7f_fm_line_at t e V He) E2) as H1. cbn beta in H1. cbv zeta.
  set (e' := match fst l1 with [] => snd l1 | _ :: _ => e end).
  assert (He' : BlocksTotal7Fm.BP t e') by (subst e'; destruct (fst l1); assumption).
  unfold slice_to, FrontMatter.slice_from. rewrite (BlocksTotal7Fm.boundary_valid t e' V He'). cbn [bind].
  intro H. inversion H; subst. apply skipn_utf8; [exact V | apply He'].
Qed.

Lemma front_matter_rest_valid o st x st' rest : utf8_valid x = true ->
  front_matter_prologue o st x = Ok (st', rest) -> utf8_valid rest = true.
Proof.
  intros V H. unfold front_matter_prologue in H. destruct (bo_front_matter_delimiter o) as [d|]; [|inversion H; subst; exact V].
  destruct (split_off_front_matter x d) as [[[fm rs]|]| |] eqn:Es; cbn [bind] in H; try discriminate H; [|inversion H; subst; exact V].
  pose proof (split_rest_valid_u _ _ _ _ V Es) as Vr.
  mon H. exact Vr.
Qed.

Theorem parse_blocks_ng7u o x : utf8_valid x = true -> ng7u (parse_blocks o x).
Proof.
  intro V. unfold parse_blocks. apply ng_bind; [apply ng7u_front_matter_prologue|]. intros [st rest] E.
  pose proof (safe_ok _ _ _ (front_matter_prologue_spec o init_state x (LI_init o)) E) as L0. cbn [fst] in L0.
  pose proof (lines_lf_utf8 rest (front_matter_rest_valid _ _ _ _ _ V E)) as Fa.
  unfold lines in Fa. destruct (feed_lines rest) as [lines total]. cbn [fst] in Fa.
  apply ng_bind; [|intros; exact I]. unfold run_lines.
  apply ng_bind; [now apply ng7u_process_lines | intros; apply ng7u_finalize_document].
Qed.

(* the add_line site is unreachable on valid UTF-8: every option set *)
Theorem parse_blocks_no_cur_panic o x s : utf8_valid x = true -> In s cur7_sites -> parse_blocks o x <> Panic s.
Proof. intros V H. eapply sg_no_panic; [now apply parse_blocks_ng7u | exact H]. Qed.
