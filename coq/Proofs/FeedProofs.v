(* Proofs/FeedProofs.v — C08: the modelled line splitter computes the CommonMark lines of the text;
   the four rewrites of the property text leave them unchanged. *)
From Coq Require Import List NArith Bool Lia Arith.
From V Require Import Base.Bytes Base.Res Gen.FeedConst Model.Feed Spec.LineEndings.
Import ListNotations.
Local Open Scope list_scope.

(* ---- the generated constants are the ones the specification names ---- *)
Lemma nul_replacement_is_fffd : nul_replacement = fffd.
Proof. reflexivity. Qed.
Lemma bom_bytes_is_bom : bom_bytes = bom.
Proof. reflexivity. Qed.
Lemma line_end_is_cr_lf b : is_line_end_char b = beqb b LF || beqb b CR.
Proof. unfold is_line_end_char, mem_byte, line_end_set. simpl. rewrite orb_false_r. reflexivity. Qed.

Definition plain (b : byte) : bool := negb (is_line_end_char b) && negb (beqb b x00).

Lemma plain_inv b : plain b = true -> beqb b CR = false /\ beqb b LF = false /\ beqb b NUL = false.
Proof.
  unfold plain. rewrite line_end_is_cr_lf. intro H.
  apply andb_true_iff in H. destruct H as [H1 H2].
  apply negb_true_iff in H1. apply negb_true_iff in H2.
  apply orb_false_iff in H1. destruct H1. repeat split; assumption.
Qed.

(* ---- the inner scan ---- *)
Lemma scan_spec : forall s chunk rest p0,
  scan s = (chunk, rest, p0) ->
  s = chunk ++ rest /\ forallb plain chunk = true /\
  match rest with
  | [] => p0 = false
  | b :: _ => (is_line_end_char b = true /\ p0 = true) \/ (is_line_end_char b = false /\ b = x00 /\ p0 = false)
  end.
Proof.
  induction s as [|b s IH]; intros chunk rest p0 H; simpl in H.
  - inversion H; subst. simpl. auto.
  - destruct (is_line_end_char b) eqn:E1.
    + inversion H; subst. simpl. repeat split. left. auto.
    + destruct (beqb b x00) eqn:E2.
      * inversion H; subst. apply beqb_eq in E2. subst. simpl. repeat split. right. auto.
      * destruct (scan s) as [[c r] p] eqn:Es. inversion H; subst.
        destruct (IH c rest p0 eq_refl) as [A [Bq C]]. subst s.
        split; [reflexivity|]. split; [|exact C].
        simpl. unfold plain at 1. rewrite E1, E2. simpl. exact Bq.
Qed.

Lemma lines_from_plain : forall chunk cur rest,
  forallb plain chunk = true -> lines_from cur (chunk ++ rest) = lines_from (cur ++ chunk) rest.
Proof.
  induction chunk as [|b c IH]; intros cur rest H; simpl.
  - rewrite app_nil_r. reflexivity.
  - simpl in H. apply andb_true_iff in H. destruct H as [Hb Hc].
    destruct (plain_inv b Hb) as [A [B0 C]]. rewrite A, B0, C.
    rewrite IH by exact Hc. rewrite <- app_assoc. reflexivity.
Qed.

(* ---- advance: what the end of an iteration skips ---- *)
Lemma advance_shorter : forall b r,
  is_line_end_char b = true \/ b = x00 ->
  (List.length (fst (advance (b :: r))) < List.length (b :: r))%nat.
Proof.
  intros b r H. unfold advance. destruct (beqb b x00) eqn:E0; simpl; [lia|].
  destruct (beqb b x0d) eqn:E1.
  - destruct r as [|c r']; simpl; [lia|]. destruct (beqb c x0a); simpl; lia.
  - destruct H as [H|H]; [|subst; discriminate].
    rewrite line_end_is_cr_lf in H. change (beqb b CR) with (beqb b x0d) in H. rewrite E1, orb_false_r in H.
    change (beqb b LF) with (beqb b x0a) in H. rewrite H. simpl. lia.
Qed.

Lemma lines_from_cons cur b s' :
  lines_from cur (b :: s') =
  if beqb b CR then
    cur :: match s' with
           | c :: s'' => if beqb c LF then lines_from [] s'' else lines_from [] s'
           | [] => lines_from [] s'
           end
  else if beqb b LF then cur :: lines_from [] s'
  else if beqb b NUL then lines_from (cur ++ fffd) s'
  else lines_from (cur ++ [b]) s'.
Proof. reflexivity. Qed.

Lemma advance_line_end : forall b r cur,
  is_line_end_char b = true ->
  lines_from cur (b :: r) = cur :: lines_from [] (fst (advance (b :: r))).
Proof.
  intros b r cur H. rewrite line_end_is_cr_lf in H.
  assert (beqb b x00 = false) as Hn.
  { destruct (beqb b x00) eqn:E; [|reflexivity]. apply beqb_eq in E. subst. discriminate. }
  rewrite lines_from_cons. unfold advance. rewrite Hn.
  change (beqb b x0d) with (beqb b CR).
  destruct (beqb b CR) eqn:Ecr.
  - destruct r as [|c r']; [reflexivity|].
    change (beqb c x0a) with (beqb c LF). destruct (beqb c LF); reflexivity.
  - rewrite orb_false_r in H. rewrite H. change (beqb b x0a) with (beqb b LF). rewrite H. reflexivity.
Qed.

(* ---- one iteration ---- *)
Lemma feed_iter_spec : forall s st st' s',
  s <> [] -> feed_iter true st s = (st', s') ->
  (List.length s' < List.length s)%nat /\
  fs_lines st ++ lines_from (fs_linebuf st) s = fs_lines st' ++ lines_from (fs_linebuf st') s'.
Proof.
  intros s st st' s' Hne H. unfold feed_iter in H.
  destruct (scan s) as [[chunk rest] p0] eqn:Esc.
  destruct (scan_spec _ _ _ _ Esc) as [Hsplit [Hplain Hrest]].
  rewrite Hsplit at 2. rewrite lines_from_plain by exact Hplain.
  destruct rest as [|b r1].
  - (* eol >= end: processed because eof *)
    subst p0. cbn [orb is_nil andb advance] in H.
    rewrite app_nil_r in Hsplit. subst chunk.
    split.
    + inversion H. destruct s; [contradiction|simpl; lia].
    + destruct (fs_linebuf st) as [|l0 lb] eqn:El; cbn [is_nil negb] in H; inversion H; subst; simpl.
      * destruct s; [contradiction|]. rewrite app_nil_r. reflexivity.
      * rewrite app_nil_r. reflexivity.
  - assert (is_line_end_char b = true \/ b = x00) as Hb0 by (destruct Hrest as [[? ?]|[? [? ?]]]; auto).
    pose proof (advance_shorter b r1 Hb0) as Hlen.
    destruct (advance (b :: r1)) as [s2 cr] eqn:Eadv. cbn [fst] in Hlen.
    split.
    { inversion H. subst s2. rewrite Hsplit, app_length. lia. }
    destruct Hrest as [[Hle Hp]|[Hle [Hb Hp]]]; subst p0.
    + (* a line ending *)
      cbn [orb] in H.
      rewrite (advance_line_end b r1 _ Hle). rewrite Eadv. cbn [fst].
      destruct (fs_linebuf st) as [|l0 lb] eqn:El; cbn [is_nil negb] in H; inversion H; subst; simpl;
        rewrite <- app_assoc; reflexivity.
    + (* NUL *)
      subst b. cbn [orb is_nil andb] in H. rewrite beqb_refl in H.
      unfold advance in Eadv. rewrite beqb_refl in Eadv. inversion Eadv; subst s2 cr.
      inversion H; subst. cbn [fs_lines fs_linebuf].
      rewrite lines_from_cons.
      change (beqb x00 CR) with false. change (beqb x00 LF) with false. change (beqb x00 NUL) with true.
      cbv iota. rewrite nul_replacement_is_fffd, app_assoc. reflexivity.
Qed.

(* ---- the outer loop: the flushed result is the lines of the remaining text, continued from linebuf ---- *)
Lemma feed_loop_spec : forall fuel s st,
  (List.length s < fuel)%nat ->
  exists st', feed_loop fuel true st s = Ok st' /\
              finish_flush st' = fs_lines st ++ lines_from (fs_linebuf st) s.
Proof.
  induction fuel as [|f IH]; intros s st Hf; [lia|].
  destruct s as [|b0 s0].
  - simpl. exists st. split; [reflexivity|].
    unfold finish_flush. destruct (fs_linebuf st); simpl; [rewrite app_nil_r|]; reflexivity.
  - cbn [feed_loop].
    destruct (feed_iter true st (b0 :: s0)) as [st1 s1] eqn:Eit.
    assert (b0 :: s0 <> []) as Hne by discriminate.
    destruct (feed_iter_spec _ _ _ _ Hne Eit) as [Hlen Heq].
    destruct (IH s1 st1) as [st' [E1 E2]]; [simpl in *; lia|].
    exists st'. split; [exact E1|]. rewrite E2. symmetry. exact Heq.
Qed.

(* ---- feed + finish for one buffer ---- *)
Lemma add_total_zero n : (n <= usize_max)%N -> add_total 0 n = n.
Proof.
  intro H. unfold add_total. rewrite N.sub_0_r.
  destruct (usize_max <? n)%N eqn:E; [apply N.ltb_lt in E; lia|reflexivity].
Qed.

Lemma feed_lines_res_spec x :
  feed_lines_res x = Ok (spec_lines x, add_total 0 (N.of_nat (List.length x))).
Proof.
  unfold feed_lines_res, feed.
  assert ((match x with b :: s' => if false && beqb b x0a then s' else x | [] => x end) = x) as E
    by (destruct x; reflexivity).
  rewrite E.
  destruct (feed_loop_spec (S (List.length x)) x (mkFS [] [] false)) as [st' [E1 E2]]; [lia|].
  rewrite E1. simpl. rewrite E2. reflexivity.
Qed.

Lemma feed_total x : exists ls n, feed_lines_res x = Ok (ls, n).
Proof. rewrite feed_lines_res_spec. eauto. Qed.

Lemma lines_spec x : lines x = spec_lines x.
Proof. unfold lines, feed_lines. rewrite feed_lines_res_spec. reflexivity. Qed.

Lemma total_size_spec x :
  (N.of_nat (List.length x) <= usize_max)%N -> total_size x = N.of_nat (List.length x).
Proof.
  intro H. unfold total_size, feed_lines. rewrite feed_lines_res_spec. simpl. apply add_total_zero. exact H.
Qed.

(* ================= the rewrites, on the specification's lines ================= *)

Lemma lines_from_crlf : forall x cur, no_cr x = true -> lines_from cur (to_crlf x) = lines_from cur x.
Proof.
  induction x as [|b x IH]; intros cur H; [reflexivity|].
  simpl in H. apply andb_true_iff in H. destruct H as [Hb Hx]. apply negb_true_iff in Hb.
  unfold to_crlf. cbn [flat_map]. fold (to_crlf x).
  destruct (beqb b LF) eqn:El.
  - apply beqb_eq in El. subst b. cbn [app]. rewrite !lines_from_cons.
    change (beqb CR CR) with true. change (beqb LF LF) with true. change (beqb LF CR) with false. cbv iota.
    rewrite IH by exact Hx. reflexivity.
  - cbn [app]. rewrite !lines_from_cons. rewrite Hb, El.
    destruct (beqb b NUL); rewrite IH by exact Hx; reflexivity.
Qed.

Lemma lines_from_cr : forall x cur, no_cr x = true -> lines_from cur (to_cr x) = lines_from cur x.
Proof.
  induction x as [|b x IH]; intros cur H; [reflexivity|].
  simpl in H. apply andb_true_iff in H. destruct H as [Hb Hx]. apply negb_true_iff in Hb.
  unfold to_cr. cbn [map]. fold (to_cr x).
  destruct (beqb b LF) eqn:El.
  - apply beqb_eq in El. subst b. rewrite !lines_from_cons.
    change (beqb CR CR) with true. change (beqb LF LF) with true. change (beqb LF CR) with false. cbv iota.
    f_equal.
    assert (lines_from [] (to_cr x) = lines_from [] x) as E by (apply IH; exact Hx).
    destruct x as [|c x']; [reflexivity|].
    unfold to_cr in *. cbn [map] in *. fold (to_cr x') in *.
    destruct (beqb c LF) eqn:Ec.
    + change (beqb CR LF) with false. cbv iota. exact E.
    + rewrite Ec. exact E.
  - rewrite !lines_from_cons. rewrite Hb, El.
    destruct (beqb b NUL); rewrite IH by exact Hx; reflexivity.
Qed.

Lemma ends_nl_cons b c x : ends_nl (b :: c :: x) = ends_nl (c :: x).
Proof. reflexivity. Qed.

Lemma lines_from_final_nl_aux : forall n x cur,
  (List.length x <= n)%nat -> ends_nl x = false -> (x <> [] \/ cur <> []) ->
  lines_from cur (x ++ [LF]) = lines_from cur x.
Proof.
  induction n as [|n IH]; intros x cur Hn He Hne.
  - destruct x; [|simpl in Hn; lia]. destruct Hne as [Hx|Hc]; [contradiction|].
    simpl. destruct cur; [contradiction|reflexivity].
  - destruct x as [|b x].
    + destruct Hne as [Hx|Hc]; [contradiction|]. simpl. destruct cur; [contradiction|reflexivity].
    + simpl in Hn. cbn [app]. rewrite !lines_from_cons.
      assert (forall cur', cur' <> [] -> lines_from cur' (x ++ [LF]) = lines_from cur' x) as IHc.
      { intros cur' Hc'. apply IH; [lia| |right; exact Hc'].
        destruct x as [|c x']; [reflexivity|]. rewrite ends_nl_cons in He. exact He. }
      destruct (beqb b CR) eqn:Ecr.
      * f_equal. destruct x as [|c x']; [reflexivity|]. rewrite ends_nl_cons in He.
        cbn [app]. destruct (beqb c LF) eqn:Ec.
        -- apply IH; [simpl in Hn; lia| |].
           ++ destruct x' as [|d x'']; [simpl in He; rewrite Ec in He; discriminate|].
              rewrite ends_nl_cons in He. exact He.
           ++ left. intro E. subst x'. simpl in He. rewrite Ec in He. discriminate.
        -- change (c :: x' ++ [LF]) with ((c :: x') ++ [LF]).
           apply IH; [simpl in *; lia|exact He|left; discriminate].
      * destruct (beqb b LF) eqn:Elf.
        -- f_equal. destruct x as [|c x']; [simpl in He; rewrite Elf in He; discriminate|].
           rewrite ends_nl_cons in He. apply IH; [lia|exact He|left; discriminate].
        -- destruct (beqb b NUL).
           ++ apply IHc. intro E. apply app_eq_nil in E. destruct E; discriminate.
           ++ apply IHc. intro E. apply app_eq_nil in E. destruct E; discriminate.
Qed.

Lemma lines_from_nul : forall x cur, lines_from cur (nul_to_fffd x) = lines_from cur x.
Proof.
  induction x as [|b x IH]; intros cur; [reflexivity|].
  unfold nul_to_fffd. cbn [flat_map]. fold (nul_to_fffd x).
  destruct (beqb b NUL) eqn:En.
  - apply beqb_eq in En. subst b. unfold fffd at 1. cbn [app].
    rewrite (lines_from_cons cur NUL). change (beqb NUL CR) with false. change (beqb NUL LF) with false.
    change (beqb NUL NUL) with true. cbv iota.
    rewrite (lines_from_cons cur xef). change (beqb xef CR) with false. change (beqb xef LF) with false.
    change (beqb xef NUL) with false. cbv iota.
    rewrite (lines_from_cons _ xbf). change (beqb xbf CR) with false. change (beqb xbf LF) with false.
    change (beqb xbf NUL) with false. cbv iota.
    rewrite (lines_from_cons _ xbd). change (beqb xbd CR) with false. change (beqb xbd LF) with false.
    change (beqb xbd NUL) with false. cbv iota.
    rewrite IH. rewrite <- !app_assoc. reflexivity.
  - cbn [app]. rewrite !lines_from_cons. rewrite En.
    destruct (beqb b CR).
    + f_equal. destruct x as [|c x']; [reflexivity|].
      pose proof (IH []) as E0.
      unfold nul_to_fffd in *. cbn [flat_map] in *. fold (nul_to_fffd x') in *.
      destruct (beqb c NUL) eqn:Ec.
      * apply beqb_eq in Ec. subst c. unfold fffd at 1. cbn [app].
        change (beqb xef LF) with false. change (beqb NUL LF) with false. cbv iota. exact E0.
      * cbn [app]. destruct (beqb c LF) eqn:Elf.
        -- assert (beqb c CR = false) as Hc.
           { apply beqb_eq in Elf. subst c. reflexivity. }
           cbn [app] in E0. rewrite !lines_from_cons in E0. rewrite Hc, Elf in E0.
           inversion E0. reflexivity.
        -- exact E0.
    + destruct (beqb b LF); rewrite IH; reflexivity.
Qed.

Lemma clean_line_app a b : clean_line a = true -> clean_line b = true -> clean_line (a ++ b) = true.
Proof. unfold clean_line. intros. rewrite forallb_app, H, H0. reflexivity. Qed.

Lemma lines_from_clean : forall x cur, clean_line cur = true -> Forall (fun l => clean_line l = true) (lines_from cur x).
Proof.
  induction x as [|b x IH]; intros cur Hc.
  - simpl. destruct cur; constructor; [exact Hc|constructor].
  - rewrite lines_from_cons.
    pose proof (IH [] eq_refl) as I0.
    destruct (beqb b CR) eqn:Ecr.
    + constructor; [exact Hc|].
      destruct x as [|c x']; [exact I0|].
      destruct (beqb c LF) eqn:Elf; [|exact I0].
      rewrite lines_from_cons in I0. rewrite Elf in I0.
      assert (beqb c CR = false) as E by (apply beqb_eq in Elf; subst c; reflexivity).
      rewrite E in I0. inversion I0; assumption.
    + destruct (beqb b LF) eqn:Elf; [constructor; assumption|].
      destruct (beqb b NUL) eqn:En.
      * apply IH. apply clean_line_app; [exact Hc|reflexivity].
      * apply IH. apply clean_line_app; [exact Hc|].
        unfold clean_line, clean_byte. simpl. rewrite Ecr, Elf, En. reflexivity.
Qed.

(* a prefix of non-terminator bytes stays at the front of the first line *)
Lemma lines_from_prefix : forall x c cur, c <> [] ->
  lines_from (c ++ cur) x = match lines_from cur x with l :: r => (c ++ l) :: r | [] => [c] end.
Proof.
  induction x as [|b x IH]; intros c cur Hc.
  - simpl. destruct cur.
    + rewrite app_nil_r. destruct c; [contradiction|reflexivity].
    + destruct (c ++ b :: cur) eqn:E; [apply app_eq_nil in E; destruct E; discriminate|reflexivity].
  - rewrite !lines_from_cons.
    destruct (beqb b CR); [reflexivity|].
    destruct (beqb b LF); [reflexivity|].
    destruct (beqb b NUL); rewrite <- app_assoc; apply IH; exact Hc.
Qed.

Lemma lines_from_bom : forall x cur, lines_from cur (bom ++ x) = lines_from (cur ++ bom) x.
Proof. intros. apply lines_from_plain. reflexivity. Qed.

(* ================= the same statements about the model ================= *)

Lemma feed_lines_eq x : feed_lines x = (spec_lines x, add_total 0 (N.of_nat (List.length x))).
Proof. unfold feed_lines. rewrite feed_lines_res_spec. reflexivity. Qed.

Lemma lines_crlf x : no_cr x = true -> lines (to_crlf x) = lines x.
Proof. intro H. rewrite !lines_spec. apply lines_from_crlf. exact H. Qed.

Lemma lines_cr x : no_cr x = true -> lines (to_cr x) = lines x.
Proof. intro H. rewrite !lines_spec. apply lines_from_cr. exact H. Qed.

Lemma lines_final_nl x : x <> [] -> ends_nl x = false -> lines (add_final_nl x) = lines x.
Proof.
  intros Hne He. rewrite !lines_spec. unfold add_final_nl, spec_lines.
  apply (lines_from_final_nl_aux (List.length x)); [lia|exact He|left; exact Hne].
Qed.

(* the side condition cannot be dropped: the empty text has no line, a lone line feed has one *)
Lemma lines_final_nl_empty_differs : lines (add_final_nl []) = [[]] /\ lines [] = [].
Proof. split; reflexivity. Qed.

Lemma lines_nul x : lines (nul_to_fffd x) = lines x.
Proof. rewrite !lines_spec. apply lines_from_nul. Qed.

Lemma lines_clean x : Forall (fun l => clean_line l = true) (lines x).
Proof. rewrite lines_spec. apply lines_from_clean. reflexivity. Qed.

(* process_line always appends the line feed: no slice it is handed ends in a line-end character *)
Lemma clean_line_last l b : clean_line l = true -> last_byte l = Some b -> is_line_end_char b = false.
Proof.
  unfold last_byte, clean_line. intros Hc Hl.
  assert (In b l) as Hin.
  { apply in_rev. destruct (rev l); [discriminate|]. inversion Hl; subst. left. reflexivity. }
  rewrite forallb_forall in Hc. specialize (Hc b Hin). unfold clean_byte in Hc.
  rewrite line_end_is_cr_lf.
  destruct (beqb b CR); [discriminate|]. destruct (beqb b LF); [discriminate|]. reflexivity.
Qed.

Lemma norm_line_clean l : clean_line l = true -> norm_line l = l ++ [LF].
Proof.
  intro Hc. unfold norm_line. destruct (last_byte l) as [b|] eqn:E; [|reflexivity].
  rewrite (clean_line_last l b Hc E). reflexivity.
Qed.

Lemma norm_lines x : map norm_line (lines x) = map (fun l => l ++ [LF]) (lines x).
Proof.
  pose proof (lines_clean x) as H. induction H as [|l r Hl Hr IH]; [reflexivity|].
  simpl. rewrite IH, norm_line_clean by exact Hl. reflexivity.
Qed.

(* ---- total_size and the reference budget ---- *)
Lemma length_to_crlf x : List.length (to_crlf x) = (List.length x + count_lf x)%nat.
Proof.
  induction x as [|b x IH]; [reflexivity|].
  unfold to_crlf, count_lf in *. cbn [flat_map filter]. destruct (beqb b LF); simpl in *; lia.
Qed.

Lemma length_to_cr x : List.length (to_cr x) = List.length x.
Proof. apply map_length. Qed.

Lemma length_add_final_nl x : List.length (add_final_nl x) = S (List.length x).
Proof. unfold add_final_nl. rewrite app_length. simpl. lia. Qed.

Lemma length_nul_to_fffd x : List.length (nul_to_fffd x) = (List.length x + 2 * count_nul x)%nat.
Proof.
  induction x as [|b x IH]; [reflexivity|].
  unfold nul_to_fffd, count_nul in *. cbn [flat_map filter]. destruct (beqb b NUL); simpl in *; lia.
Qed.

Lemma total_size_small x :
  (N.of_nat (List.length x) <= ref_budget_floor)%N -> total_size x = N.of_nat (List.length x).
Proof.
  intro H. apply total_size_spec. unfold ref_budget_floor, usize_max in *. lia.
Qed.

Lemma budget_not_binding x :
  (N.of_nat (List.length x) <= ref_budget_floor)%N -> max_ref_size (total_size x) = ref_budget_floor.
Proof.
  intro H. rewrite total_size_small by exact H. unfold max_ref_size.
  destruct (ref_budget_floor <? N.of_nat (List.length x))%N eqn:E; [apply N.ltb_lt in E; lia|reflexivity].
Qed.

Lemma budget_same_under_floor x y :
  (N.of_nat (List.length x) <= ref_budget_floor)%N -> (N.of_nat (List.length y) <= ref_budget_floor)%N ->
  max_ref_size (total_size y) = max_ref_size (total_size x).
Proof. intros Hx Hy. rewrite !budget_not_binding by assumption. reflexivity. Qed.

Lemma total_size_crlf x :
  (N.of_nat (List.length (to_crlf x)) <= usize_max)%N ->
  total_size (to_crlf x) = (total_size x + N.of_nat (count_lf x))%N.
Proof.
  intro H. pose proof (length_to_crlf x) as L.
  rewrite !total_size_spec by lia. rewrite L. lia.
Qed.

(* F18: above the floor the budget of the CRLF copy is larger *)
Lemma repeat_bytes_length n b : List.length (repeat_bytes n b) = n.
Proof. induction n; simpl; congruence. Qed.
Lemma no_cr_repeat_lf n : no_cr (repeat_bytes n LF) = true.
Proof. induction n; simpl; auto. Qed.
Lemma count_lf_repeat_lf n : count_lf (repeat_bytes n LF) = n.
Proof. induction n; [reflexivity|]. unfold count_lf in *. simpl. congruence. Qed.

Lemma budget_crlf_differs :
  exists x, no_cr x = true /\ max_ref_size (total_size (to_crlf x)) <> max_ref_size (total_size x).
Proof.
  exists (repeat_bytes (N.to_nat 100001) LF). split; [apply no_cr_repeat_lf|].
  pose proof (length_to_crlf (repeat_bytes (N.to_nat 100001) LF)) as L.
  rewrite count_lf_repeat_lf, repeat_bytes_length in L.
  rewrite !total_size_spec; rewrite ?L, ?repeat_bytes_length; unfold usize_max; try lia.
  unfold max_ref_size, ref_budget_floor.
  destruct (100000 <? N.of_nat (N.to_nat 100001 + N.to_nat 100001))%N eqn:E1;
  destruct (100000 <? N.of_nat (N.to_nat 100001))%N eqn:E2;
  try apply N.ltb_lt in E1; try apply N.ltb_ge in E1; try apply N.ltb_lt in E2; try apply N.ltb_ge in E2; lia.
Qed.

(* ---- byte-order mark ---- *)
Lemma lines_bom x :
  lines (prepend_bom x) = match lines x with l :: r => (bom ++ l) :: r | [] => [bom] end.
Proof.
  rewrite !lines_spec. unfold prepend_bom, spec_lines. rewrite lines_from_bom. cbn [app].
  rewrite <- (app_nil_r bom) at 1. apply lines_from_prefix. discriminate.
Qed.

Lemma first_line_prefix : forall x cur l r,
  lines_from cur x = l :: r -> exists t, cur ++ nul_to_fffd x = l ++ t.
Proof.
  induction x as [|b x IH]; intros cur l r H.
  - simpl in H. destruct cur; [discriminate|]. inversion H; subst. exists []. reflexivity.
  - rewrite lines_from_cons in H. unfold nul_to_fffd. cbn [flat_map]. fold (nul_to_fffd x).
    destruct (beqb b CR) eqn:Ecr.
    { inversion H; subst. eexists. reflexivity. }
    destruct (beqb b LF) eqn:Elf.
    { inversion H; subst. eexists. reflexivity. }
    destruct (beqb b NUL) eqn:En.
    + destruct (IH _ _ _ H) as [t Ht]. exists t. rewrite <- Ht, <- app_assoc. reflexivity.
    + destruct (IH _ _ _ H) as [t Ht]. exists t. rewrite <- Ht, <- app_assoc. reflexivity.
Qed.

Lemma has_bom_nul x : starts_with (nul_to_fffd x) bom = starts_with x bom.
Proof.
  unfold bom.
  destruct x as [|b1 x]; [reflexivity|].
  unfold nul_to_fffd. cbn [flat_map]. fold (nul_to_fffd x).
  destruct (beqb b1 NUL) eqn:E1; [apply beqb_eq in E1; subst; reflexivity|].
  cbn [app starts_with]. f_equal.
  destruct x as [|b2 x]; [reflexivity|].
  unfold nul_to_fffd. cbn [flat_map]. fold (nul_to_fffd x).
  destruct (beqb b2 NUL) eqn:E2; [apply beqb_eq in E2; subst; reflexivity|].
  cbn [app starts_with]. f_equal.
  destruct x as [|b3 x]; [reflexivity|].
  unfold nul_to_fffd. cbn [flat_map]. fold (nul_to_fffd x).
  destruct (beqb b3 NUL) eqn:E3; [apply beqb_eq in E3; subst; reflexivity|].
  cbn [app starts_with]. destruct (nul_to_fffd x); destruct x; reflexivity.
Qed.

Lemma first_line_no_bom x l r :
  has_bom x = false -> lines x = l :: r -> starts_with l bom = false.
Proof.
  intros Hb Hl. rewrite lines_spec in Hl. unfold spec_lines in Hl.
  destruct (first_line_prefix _ _ _ _ Hl) as [t Ht]. cbn [app] in Ht.
  destruct (starts_with l bom) eqn:E; [|reflexivity].
  apply starts_with_app in E. destruct E as [l' ->].
  assert (starts_with (nul_to_fffd x) bom = true) as A.
  { apply starts_with_app. exists (l' ++ t). rewrite Ht, app_assoc. reflexivity. }
  rewrite has_bom_nul in A. unfold has_bom in Hb. congruence.
Qed.

Lemma starts_with_bom_snoc l : starts_with l bom = false -> starts_with (l ++ [LF]) bom = false.
Proof.
  unfold bom. destruct l as [|a [|b [|c l]]]; cbn [app starts_with]; intro H.
  - reflexivity.
  - rewrite andb_false_r. reflexivity.
  - rewrite !andb_false_r. reflexivity.
  - exact H.
Qed.

Lemma seen_lines_bom x :
  x <> [] -> has_bom x = false -> seen_lines (prepend_bom x) = seen_lines x.
Proof.
  intros Hne Hb. unfold seen_lines. rewrite lines_bom.
  pose proof (lines_clean x) as Hc.
  destruct (lines x) as [|l r] eqn:El.
  - exfalso. rewrite lines_spec in El. unfold spec_lines in El.
    destruct x as [|b x']; [contradiction|]. rewrite lines_from_cons in El.
    destruct (beqb b CR); [discriminate|]. destruct (beqb b LF); [discriminate|].
    destruct (beqb b NUL).
    + pose proof (lines_from_prefix x' fffd [] ltac:(discriminate)) as P. rewrite app_nil_r in P.
      change ([] ++ fffd) with fffd in El. rewrite P in El. destruct (lines_from [] x'); discriminate.
    + pose proof (lines_from_prefix x' [b] [] ltac:(discriminate)) as P. rewrite app_nil_r in P.
      change ([] ++ [b]) with [b] in El. rewrite P in El. destruct (lines_from [] x'); discriminate.
  - inversion Hc as [|? ? Hl Hr]; subst.
    pose proof (first_line_no_bom x l r Hb El) as Hnb.
    assert (clean_line (bom ++ l) = true) as Hcb by (apply clean_line_app; [reflexivity|exact Hl]).
    rewrite (norm_line_clean _ Hcb), (norm_line_clean _ Hl).
    f_equal.
    assert (bom_offset 0 ((bom ++ l) ++ [LF]) = 3%N) as O1.
    { unfold bom_offset. rewrite bom_bytes_is_bom.
      assert (starts_with ((bom ++ l) ++ [LF]) bom = true) as S1
        by (apply starts_with_app; exists (l ++ [LF]); rewrite app_assoc; reflexivity).
      rewrite S1.
      assert ((bom_min_len <=? N.of_nat (List.length ((bom ++ l) ++ [LF])))%N = true) as L1.
      { apply N.leb_le. unfold bom_min_len. rewrite !app_length. unfold bom. cbn [List.length]. lia. }
      rewrite L1. reflexivity. }
    assert (bom_offset 0 (l ++ [LF]) = 0%N) as O2.
    { unfold bom_offset. rewrite bom_bytes_is_bom, (starts_with_bom_snoc l Hnb), andb_false_r. reflexivity. }
    rewrite O1, O2. rewrite <- app_assoc. reflexivity.
Qed.

(* without the side conditions the statement is false of the model *)
Lemma seen_lines_bom_on_bom_refuted :
  exists x, x <> [] /\ has_bom x = true /\ seen_lines (prepend_bom x) <> seen_lines x.
Proof. exists bom. split; [discriminate|]. split; [reflexivity|]. vm_compute. discriminate. Qed.

Lemma seen_lines_bom_empty : seen_lines (prepend_bom []) = [[LF]] /\ seen_lines [] = [].
Proof. split; reflexivity. Qed.

(* ================= factorisation: whatever the rest of the parser does with the lines and the budget ================= *)
(* parse_document hands the text to feed exactly once and process_line is called from feed and finish only
   (translator item `feed` checks both), so everything after the splitter is a function of the sequence of
   lines and of max_ref_size(total_size).  `rest` stands for that function; nothing is assumed about it. *)
Definition pipeline {A : Type} (rest : list bytes -> N -> A) (x : bytes) : A :=
  rest (lines x) (max_ref_size (total_size x)).

Lemma le_floor_trans (a b : nat) : (a <= b)%nat -> (N.of_nat b <= ref_budget_floor)%N -> (N.of_nat a <= ref_budget_floor)%N.
Proof. unfold ref_budget_floor. lia. Qed.

Lemma factor_crlf A (rest : list bytes -> N -> A) x :
  no_cr x = true -> (N.of_nat (List.length (to_crlf x)) <= ref_budget_floor)%N ->
  pipeline rest (to_crlf x) = pipeline rest x.
Proof.
  intros H L. unfold pipeline. rewrite (lines_crlf x H).
  rewrite (budget_same_under_floor x (to_crlf x)); [reflexivity| |exact L].
  apply (le_floor_trans _ _ (ltac:(rewrite length_to_crlf; lia) : (List.length x <= List.length (to_crlf x))%nat) L).
Qed.

Lemma total_size_cr x : total_size (to_cr x) = total_size x.
Proof. unfold total_size. rewrite !feed_lines_eq. simpl. rewrite length_to_cr. reflexivity. Qed.

Lemma factor_cr A (rest : list bytes -> N -> A) x :
  no_cr x = true -> pipeline rest (to_cr x) = pipeline rest x.
Proof. intros H. unfold pipeline. rewrite (lines_cr x H), total_size_cr. reflexivity. Qed.

Lemma factor_final_nl A (rest : list bytes -> N -> A) x :
  x <> [] -> ends_nl x = false -> (N.of_nat (List.length (add_final_nl x)) <= ref_budget_floor)%N ->
  pipeline rest (add_final_nl x) = pipeline rest x.
Proof.
  intros Hne He L. unfold pipeline. rewrite (lines_final_nl x Hne He).
  rewrite (budget_same_under_floor x (add_final_nl x)); [reflexivity| |exact L].
  apply (le_floor_trans _ _ (ltac:(rewrite length_add_final_nl; lia) : (List.length x <= List.length (add_final_nl x))%nat) L).
Qed.

Lemma factor_nul A (rest : list bytes -> N -> A) x :
  (N.of_nat (List.length (nul_to_fffd x)) <= ref_budget_floor)%N ->
  pipeline rest (nul_to_fffd x) = pipeline rest x.
Proof.
  intros L. unfold pipeline. rewrite (lines_nul x).
  rewrite (budget_same_under_floor x (nul_to_fffd x)); [reflexivity| |exact L].
  apply (le_floor_trans _ _ (ltac:(rewrite length_nul_to_fffd; lia) : (List.length x <= List.length (nul_to_fffd x))%nat) L).
Qed.

Lemma known_above_floor_iff x :
  known_above_floor ref_budget_floor x = false <-> (N.of_nat (List.length x) <= ref_budget_floor)%N.
Proof. unfold known_above_floor. rewrite N.ltb_ge. reflexivity. Qed.
