(* Proofs/SourcePosProofs.v — what the executable predicates of Spec/SourcePos.v mean: the numeric
   content of node_in_bounds, order facts of the nesting relations, and that `slice` at the position of a
   piece of a line returns exactly that piece (the verbatim clause is satisfiable and says what it
   should). *)
From Coq Require Import List NArith Bool Lia Arith PeanoNat.
From V Require Import Base.Bytes Model.Ast Spec.SourcePos.
Import ListNotations.
Local Open Scope list_scope.
Local Open Scope N_scope.

Lemma lex_le_spec l1 c1 l2 c2 :
  lex_le l1 c1 l2 c2 = true <-> l1 < l2 \/ (l1 = l2 /\ c1 <= c2).
Proof.
  unfold lex_le. rewrite orb_true_iff, andb_true_iff, N.ltb_lt, N.eqb_eq, N.leb_le. tauto.
Qed.
Lemma lex_lt_spec l1 c1 l2 c2 :
  lex_lt l1 c1 l2 c2 = true <-> l1 < l2 \/ (l1 = l2 /\ c1 < c2).
Proof.
  unfold lex_lt. rewrite orb_true_iff, andb_true_iff, !N.ltb_lt, N.eqb_eq. tauto.
Qed.

(* the in-bounds predicate says exactly what the property text says *)
Theorem node_in_bounds_spec : forall L sp, node_in_bounds L sp = true ->
  1 <= sl sp /\ sl sp <= el sp /\ el sp <= nlines L /\
  (sl sp < el sp \/ (sl sp = el sp /\ sc sp <= ec sp)) /\
  exists a b, line_at L (sl sp) = Some a /\ line_at L (el sp) = Some b /\
    1 <= sc sp /\ sc sp <= blen (ln_body a) + N.max 1 (blen (ln_term a)) /\
    1 <= ec sp /\ ec sp <= blen (ln_body b) + N.max 1 (blen (ln_term b)).
Proof.
  intros L sp H. unfold node_in_bounds in H.
  repeat (apply andb_true_iff in H; destruct H as [H ?]).
  apply N.leb_le in H. apply N.leb_le in H3. apply N.leb_le in H2. apply lex_le_spec in H1.
  destruct (line_at L (sl sp)) as [a|]; [|discriminate].
  destruct (line_at L (el sp)) as [b|]; [|discriminate].
  apply andb_true_iff in H0. destruct H0 as [Ha Hb]. unfold col_ok in Ha, Hb.
  apply andb_true_iff in Ha. apply andb_true_iff in Hb. destruct Ha as [A1 A2], Hb as [B1 B2].
  apply N.leb_le in A1, A2, B1, B2.
  repeat split; try assumption. exists a, b. repeat split; assumption.
Qed.

(* nesting is transitive, order is transitive and incompatible with containment the wrong way round *)
Theorem sp_within_trans : forall a b c, sp_within a b = true -> sp_within b c = true -> sp_within a c = true.
Proof.
  intros a b c H1 H2. unfold sp_within in *.
  apply andb_true_iff in H1. apply andb_true_iff in H2. destruct H1 as [A1 A2], H2 as [B1 B2].
  apply lex_le_spec in A1, A2, B1, B2. apply andb_true_iff. split; apply lex_le_spec; lia.
Qed.

Theorem sp_before_trans : forall a b c,
  lex_le (sl b) (sc b) (el b) (ec b) = true ->
  sp_before a b = true -> sp_before b c = true -> sp_before a c = true.
Proof.
  intros a b c Hb H1 H2. unfold sp_before in *. apply lex_le_spec in Hb.
  apply lex_lt_spec in H1, H2. apply lex_lt_spec. lia.
Qed.

(* children of ordered siblings stay ordered: the two clauses of sp_nested compose *)
Theorem sp_before_within : forall a b x y,
  sp_before a b = true -> sp_within x a = true -> sp_within y b = true -> sp_before x y = true.
Proof.
  intros a b x y H Hx Hy. unfold sp_before, sp_within in *.
  apply andb_true_iff in Hx. apply andb_true_iff in Hy. destruct Hx as [X1 X2], Hy as [Y1 Y2].
  apply lex_le_spec in X1, X2, Y1, Y2. apply lex_lt_spec in H. apply lex_lt_spec. lia.
Qed.

(* ---- slice on a single line ---- *)
Definition no_nl (s : bytes) : Prop := forall b, In b s -> beqb b CR = false /\ beqb b LF = false.

Lemma lines_from_no_nl : forall s cur, no_nl s ->
  lines_from cur s = match rev cur ++ s with [] => [] | l => [mkLine l []] end.
Proof.
  induction s as [|b s IH]; intros cur H.
  - cbn [lines_from]. rewrite app_nil_r. destruct cur as [|c cur]; [reflexivity|].
    destruct (rev (c :: cur)) eqn:E; [|reflexivity].
    apply (f_equal (@List.length byte)) in E. rewrite rev_length in E. discriminate.
  - cbn [lines_from]. destruct (H b (or_introl eq_refl)) as [-> ->].
    rewrite IH by (intros x Hx; apply H; right; exact Hx).
    cbn [rev]. rewrite <- app_assoc. reflexivity.
Qed.

Lemma no_nl_app a b : no_nl (a ++ b) <-> no_nl a /\ no_nl b.
Proof.
  unfold no_nl. split.
  - intro H. split; intros x Hx; apply H; apply in_or_app; tauto.
  - intros [Ha Hb] x Hx. apply in_app_or in Hx. destruct Hx; auto.
Qed.

(* the source line  a ++ lit ++ b  sliced at columns |a|+1 .. |a|+|lit|  gives lit *)
Theorem slice_piece_of_line : forall a lit b, no_nl (a ++ lit ++ b) -> lit <> [] ->
  slice (lines_of (a ++ lit ++ b)) (mkSp 1 (blen a + 1) 1 (blen a + blen lit)) = Some lit.
Proof.
  intros a lit b Hn Hlit.
  unfold lines_of. rewrite lines_from_no_nl by exact Hn.
  change (rev [] ++ (a ++ lit ++ b)) with (a ++ lit ++ b).
  assert (Hm : forall l : bytes, l <> [] ->
            match l with [] => [] | x :: r => [mkLine (x :: r) []] end = [mkLine l []])
    by (intros [|? ?] ?; [congruence | reflexivity]).
  rewrite Hm by (destruct a; [destruct lit; [congruence | discriminate] | discriminate]).
  cbn iota.
  unfold slice. cbn [sl sc el ec].
  assert (Hl : forall l : srcline, line_at [l] 1 = Some l) by reflexivity.
  rewrite !Hl.
  assert (1 <=? 1 = true) as -> by reflexivity.
  assert (1 <=? blen a + 1 = true) as -> by (apply N.leb_le; lia).
  cbn [andb negb].
  rewrite N.eqb_refl. unfold ln_full. cbn [ln_body ln_term]. rewrite app_nil_r.
  assert (blen a + 1 - 1 = blen a) as -> by lia.
  assert ((blen a <=? blen a + blen lit) = true) as -> by (apply N.leb_le; lia).
  assert ((blen a + blen lit <=? blen (a ++ lit ++ b)) = true) as ->.
  { apply N.leb_le. unfold blen. rewrite !app_length. lia. }
  cbn [andb].
  assert (blen a + blen lit - blen a = blen lit) as -> by lia.
  unfold blen. rewrite !Nnat.Nat2N.id.
  rewrite skipn_app, skipn_all, Nat.sub_diag. cbn [skipn app].
  rewrite firstn_app, firstn_all, Nat.sub_diag. cbn [firstn]. rewrite app_nil_r. reflexivity.
Qed.

(* and the verbatim clause accepts exactly that literal there *)
Theorem verbatim_clause_at_piece : forall a lit b v,
  no_nl (a ++ lit ++ b) -> lit <> [] -> has_special lit = false ->
  slice_clause (lines_of (a ++ lit ++ b)) false
    (Node (Text v) (mkSp 1 (blen a + 1) 1 (blen a + blen lit)) []) = bytes_eqb lit v.
Proof.
  intros a lit b v Hn Hl Hs. unfold slice_clause. cbn [nval nsp negb].
  rewrite slice_piece_of_line by assumption. rewrite Hs. reflexivity.
Qed.
