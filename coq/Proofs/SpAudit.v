(* Proofs/SpAudit.v — C18 (d): the audit of the reads of the sourcepos render option, generated from
   /repo/src on every run (Gen/AuditSp.v, translator item audit_sp), compared with the lists this
   development was written for.

   What the lists say:
   * src/cm.rs never mentions sourcepos at all: no read of the option, no access to a node's
     sourcepos field, no identifier of that name.  The CommonMark writer can not depend on the option
     (nor on source positions).
   * no file of the parser (src/parser/*.rs), nor nodes.rs / strings.rs / scanners.rs / entity.rs / ...
     reads `render.sourcepos`; the parser only reads and writes the sourcepos FIELD of nodes, through
     the receivers listed (node data borrowed from the arena).
   * src/html.rs reads the option in render_sourcepos, render_code_block, render_heading (the
     heading-adapter branch), render_math, render_math_code_block and nowhere else; src/xml.rs in
     format_node only.
   A read through an alias (let r = &options.render; r.sourcepos) would appear as a new receiver, a
   destructuring pattern as a new entry of the bare-identifier list. *)
From Coq Require Import List Strings.String.
From V Require Import Gen.AuditSp.
Import ListNotations.
Local Open Scope string_scope.

(* every textual read `render.sourcepos`, by file and enclosing fn *)
Definition expected_sp_option_reads : list (string * list string) := [
  ("src/adapters.rs", []);
  ("src/arena_tree.rs", []);
  ("src/character_set.rs", []);
  ("src/cm.rs", []);
  ("src/ctype.rs", []);
  ("src/entity.rs", []);
  ("src/html.rs", ["render_sourcepos"; "render_code_block"; "render_heading"; "render_math"; "render_math_code_block"]);
  ("src/html/anchorizer.rs", []);
  ("src/html/context.rs", []);
  ("src/lib.rs", []);
  ("src/nodes.rs", []);
  ("src/parser/alert.rs", []);
  ("src/parser/autolink.rs", []);
  ("src/parser/inlines.rs", []);
  ("src/parser/math.rs", []);
  ("src/parser/mod.rs", []);
  ("src/parser/multiline_block_quote.rs", []);
  ("src/parser/shortcodes.rs", []);
  ("src/parser/table.rs", []);
  ("src/plugins/mod.rs", []);
  ("src/plugins/syntect.rs", []);
  ("src/scanners.rs", []);
  ("src/strings.rs", []);
  ("src/xml.rs", ["format_node"])
].
(* receivers of every other `.sourcepos` field access *)
Definition expected_sp_receivers : list (string * list string) := [
  ("src/adapters.rs", []);
  ("src/arena_tree.rs", []);
  ("src/character_set.rs", []);
  ("src/cm.rs", []);
  ("src/ctype.rs", []);
  ("src/entity.rs", []);
  ("src/html.rs", ["ast"; "borrow()"]);
  ("src/html/anchorizer.rs", []);
  ("src/html/context.rs", []);
  ("src/lib.rs", []);
  ("src/nodes.rs", []);
  ("src/parser/alert.rs", []);
  ("src/parser/autolink.rs", ["borrow_mut()"]);
  ("src/parser/inlines.rs", ["borrow()"; "borrow_mut()"; "last_child"; "node_ast"]);
  ("src/parser/math.rs", []);
  ("src/parser/mod.rs", ["ast"; "borrow()"; "borrow_mut()"; "n_ast"; "node_data"]);
  ("src/parser/multiline_block_quote.rs", []);
  ("src/parser/shortcodes.rs", []);
  ("src/parser/table.rs", ["ast"; "borrow()"; "borrow_mut()"; "cell_ast"; "container_ast"; "header_ast"; "paragraph"]);
  ("src/plugins/mod.rs", []);
  ("src/plugins/syntect.rs", []);
  ("src/scanners.rs", []);
  ("src/strings.rs", []);
  ("src/xml.rs", ["ast"])
].
(* functions in which the bare identifier sourcepos occurs (<field> = a field declaration) *)
Definition expected_sp_bare : list (string * list string) := [
  ("src/adapters.rs", ["<field>"]);
  ("src/arena_tree.rs", []);
  ("src/character_set.rs", []);
  ("src/cm.rs", []);
  ("src/ctype.rs", []);
  ("src/entity.rs", []);
  ("src/html.rs", []);
  ("src/html/anchorizer.rs", []);
  ("src/html/context.rs", []);
  ("src/lib.rs", []);
  ("src/nodes.rs", ["<field>"; "new"]);
  ("src/parser/alert.rs", []);
  ("src/parser/autolink.rs", ["<field>"; "process_email_autolinks"]);
  ("src/parser/inlines.rs", ["<field>"; "make_inline"]);
  ("src/parser/math.rs", []);
  ("src/parser/mod.rs", ["<field>"; "parse_document"; "postprocess_text_node"; "postprocess_text_nodes"; "process_tasklist"]);
  ("src/parser/multiline_block_quote.rs", []);
  ("src/parser/shortcodes.rs", []);
  ("src/parser/table.rs", ["try_opening_row"]);
  ("src/plugins/mod.rs", []);
  ("src/plugins/syntect.rs", []);
  ("src/scanners.rs", []);
  ("src/strings.rs", []);
  ("src/xml.rs", [])
].

Lemma sp_option_reads_ok : sp_option_reads = expected_sp_option_reads.
Proof. reflexivity. Qed.
Lemma sp_receivers_ok : sp_receivers = expected_sp_receivers.
Proof. reflexivity. Qed.
Lemma sp_bare_ok : sp_bare = expected_sp_bare.
Proof. reflexivity. Qed.

(* the facts used, extracted from the lists *)
Definition reads_of (f : string) (l : list (string * list string)) : option (list string) :=
  match find (fun p => String.eqb (fst p) f) l with Some p => Some (snd p) | None => None end.

Lemma cm_never_mentions_sourcepos :
  reads_of "src/cm.rs" sp_option_reads = Some [] /\ reads_of "src/cm.rs" sp_receivers = Some [] /\ reads_of "src/cm.rs" sp_bare = Some [].
Proof. repeat split; reflexivity. Qed.

Lemma parser_never_reads_option :
  forallb (fun p => match snd p with [] => true | _ => false end)
          (filter (fun p => negb (String.eqb (fst p) "src/html.rs" || String.eqb (fst p) "src/xml.rs")) sp_option_reads) = true.
Proof. reflexivity. Qed.

Lemma html_xml_reads :
  reads_of "src/html.rs" sp_option_reads =
    Some ["render_sourcepos"; "render_code_block"; "render_heading"; "render_math"; "render_math_code_block"] /\
  reads_of "src/xml.rs" sp_option_reads = Some ["format_node"].
Proof. split; reflexivity. Qed.
