(* Proofs/DocRender.v — C03, renderer half: the HTML renderer model (Model/Html.v) applied to the
   intended tree of a canonical document gives the reference HTML of Spec/Doc.v.
   Part 1: serialisation with the carriage-return state made explicit (`run`).
   Part 2: inlines (all of them, footnote references included).
   Part 3: blocks of the fragment without tables and footnote definitions, documents. *)
From Coq Require Import List NArith Bool Lia Strings.String.
From V Require Import Base.Bytes Base.Res Gen.Tables Gen.Ctype Gen.Scanners Model.Escape Model.Tagfilter0
     Model.Ast Spec.EscapeSpec Model.Html Proofs.EscapeProofs Proofs.HtmlSafe Spec.Doc.
Import ListNotations.
Local Open Scope string_scope.
Local Open Scope list_scope.

(* ------------------------------------------------------------------ Part 1: run *)
Fixpoint run (lf : bool) (evs : list ev) : bytes * bool :=
  match evs with
  | [] => ([], lf)
  | Cr :: r => if lf then run lf r else let (b, l) := run true r in (x0a :: b, l)
  | e :: r => let c := ser_ev e in let (b, l) := run (ends_lf lf c) r in (c ++ b, l)
  end.

Lemma run_ser : forall evs lf, fst (run lf evs) = List.concat (ser_chunks lf evs).
Proof.
  induction evs as [|e r IH]; intro lf; [reflexivity|].
  assert (G : forall c, fst (let (b, l) := run (ends_lf lf c) r in (c ++ b, l)) =
                        c ++ List.concat (ser_chunks (ends_lf lf c) r)).
  { intro c. rewrite <- IH. destruct (run _ r). reflexivity. }
  destruct e; cbn [run ser_chunks List.concat]; try apply G.
  destruct lf; [apply IH|]. cbn [List.concat]. rewrite <- IH. destruct (run true r); reflexivity.
Qed.

Lemma run_app : forall a b lf,
  run lf (a ++ b) = let (x, l1) := run lf a in let (y, l2) := run l1 b in (x ++ y, l2).
Proof.
  induction a as [|e r IH]; intros b lf.
  - cbn. destruct (run lf b). reflexivity.
  - destruct e; cbn [app run];
      try (rewrite IH; destruct (run (ends_lf lf _) r) as [x l1]; destruct (run l1 b) as [y l2];
           rewrite app_assoc; reflexivity).
    destruct lf.
    + apply IH.
    + rewrite IH. destruct (run true r) as [x l1]. destruct (run l1 b) as [y l2]. reflexivity.
Qed.

Definition is_cr (e : ev) : bool := match e with Cr => true | _ => false end.
Definition nocr (evs : list ev) : bool := forallb (fun e => negb (is_cr e)) evs.

Lemma last_app_ne {A} : forall (a b : list A) d, b <> [] -> last (a ++ b) d = last b d.
Proof.
  induction a as [|x a IH]; intros b d H; [reflexivity|].
  cbn [app]. specialize (IH b d H). destruct (a ++ b) eqn:E.
  - destruct a; [cbn in E; subst; contradiction | discriminate].
  - cbn [last]. exact IH.
Qed.

Lemma ends_lf_app lf a b : ends_lf (ends_lf lf a) b = ends_lf lf (a ++ b).
Proof.
  destruct b as [|y b]; [rewrite app_nil_r; reflexivity|].
  unfold ends_lf at 1. destruct (a ++ y :: b) eqn:E.
  - destruct a; discriminate.
  - cbn [ends_lf]. rewrite <- E. rewrite last_app_ne by discriminate. reflexivity.
Qed.

Lemma run_nocr : forall evs lf, nocr evs = true ->
  run lf evs = (flat_map ser_ev evs, ends_lf lf (flat_map ser_ev evs)).
Proof.
  induction evs as [|e r IH]; intros lf H; [reflexivity|].
  cbn [nocr forallb] in H. apply andb_true_iff in H. destruct H as [He Hr].
  destruct e; try discriminate He; cbn [run flat_map]; rewrite (IH _ Hr), ends_lf_app; reflexivity.
Qed.

Lemma nocr_app a b : nocr (a ++ b) = nocr a && nocr b.
Proof. apply forallb_app. Qed.

(* ------------------------------------------------------------------ Part 2: inlines *)
Section Inl.
  Variable slug : bytes -> bytes.
  Notation o := std_opts.

  (* what an inline is proved to do: it renders in any context and state, leaves the state alone,
     writes no Cr, and its bytes are the reference bytes *)
  Definition inl_ok (E : env) (k : nat) (i : inline) : Prop :=
    forall c st, exists evs,
      render slug o c (t_inl E k i) st = Ok (evs, st) /\ nocr evs = true /\ flat_map ser_ev evs = r_inl E k i.

  Lemma render_list_inls E v pv : forall l k,
    Forall (fun i => forall k, inl_ok E k i) l ->
    forall j prev st, exists evs,
      render_list slug o v pv (thread (t_inl E) cnt_i k l) j prev st = Ok (evs, st) /\ nocr evs = true /\
      flat_map ser_ev evs = List.concat (thread (r_inl E) cnt_i k l).
  Proof.
    induction l as [|x r IH]; intros k H j prev st.
    - exists []. repeat split; reflexivity.
    - inversion H as [|? ? Hx Hr]; subst. cbn [thread render_list].
      destruct (Hx k (mkCtx (Some v) pv prev j (negb match thread (t_inl E) cnt_i (k + cnt_i x) r with [] => true | _ => false end)) st)
        as (ex & Rx & Nx & Sx).
      rewrite Rx. cbn [bind].
      destruct (IH (k + cnt_i x) Hr (S j) (Some (nval (t_inl E k x))) st) as (er & Rr & Nr & Sr).
      rewrite Rr. cbn [bind]. exists (ex ++ er). repeat split.
      + rewrite nocr_app, Nx, Nr. reflexivity.
      + rewrite flat_map_app, Sx, Sr. reflexivity.
  Qed.

  Lemma plain_thread E : forall l,
    Forall (fun i => forall k, plain (t_inl E k i) = escape_spec (alt_inl i)) l ->
    forall k, flat_map plain (thread (t_inl E) cnt_i k l) = escape_spec (flat_map alt_inl l).
  Proof.
    induction 1 as [|x r Hx Hr IH]; intro k; [reflexivity|].
    cbn [thread flat_map]. rewrite escape_spec_app, Hx, IH. reflexivity.
  Qed.

  Lemma plain_inl E : forall i kk, plain (t_inl E kk i) = escape_spec (alt_inl i).
  Proof.
    induction i using inline_ind2; intro kk; cbn [t_inl alt_inl nd plain]; rewrite ?app_nil_r; try reflexivity;
      try (cbn [app]; apply plain_thread; assumption).
    all: try (destruct img; cbn [plain app]; apply plain_thread; assumption).
    all: cbn; rewrite ?app_nil_r; reflexivity.
  Qed.

  Lemma plain_alt E l k : flat_map plain (thread (t_inl E) cnt_i k l) = escape_spec (flat_map alt_inl l).
  Proof. apply plain_thread. apply Forall_forall. intros i _ kk. apply plain_inl. Qed.
  Arguments fr_num : simpl never.
  Arguments fr_ix : simpl never.
  Arguments dec : simpl never.
  Arguments escape_spec : simpl never.
  Arguments escape_href_spec : simpl never.
  Arguments lookup_def : simpl never.
  Arguments thread : simpl never.
  Arguments code_ticks : simpl never.

  Ltac norm_app := repeat progress (rewrite <- ?app_assoc; cbn [app]; rewrite ?app_nil_r).
  Ltac leaf := intros cx0 st0; cbn [t_inl]; unfold nd; eexists; split; [rewrite render_unfold; cbn; reflexivity|];
               split; [reflexivity|]; cbn; rewrite ?app_nil_r; reflexivity.

  (* containers whose enter / exit do not look at context, state or children *)
  Lemma container_ok E v e1 e3 l k :
    (forall c st ch, enter slug o c (Node v sp0 ch) st = Ok (e1, st, MHtml)) ->
    (forall c st ch, exit_ o c (Node v sp0 ch) st = Ok (e3, st)) ->
    nocr e1 = true -> nocr e3 = true ->
    Forall (fun i => forall k, inl_ok E k i) l ->
    forall c st, exists evs,
      render slug o c (nd v (thread (t_inl E) cnt_i k l)) st = Ok (evs, st) /\ nocr evs = true /\
      flat_map ser_ev evs = flat_map ser_ev e1 ++ List.concat (thread (r_inl E) cnt_i k l) ++ flat_map ser_ev e3.
  Proof.
    intros He Hx N1 N3 H c st. unfold nd. rewrite render_unfold, He. cbn [bind].
    destruct (render_list_inls E v (c_parent c) l k H 0 None st) as (e2 & R2 & N2 & S2).
    rewrite R2. cbn [bind]. rewrite Hx. cbn [bind].
    exists (e1 ++ e2 ++ e3). split; [reflexivity|]. split.
    - rewrite !nocr_app, N1, N2, N3. reflexivity.
    - rewrite !flat_map_app, S2. reflexivity.
  Qed.

  Lemma title_attr_ser t :
    flat_map ser_attr (match t with [] => [] | _ => [Attr (B "title") [PEsc t]] end) =
    title_attr t.
  Proof. destruct t; [reflexivity|]. cbn. rewrite !app_nil_r. reflexivity. Qed.

  Lemma link_ok E u t l k body :
    Forall (fun i => forall k, inl_ok E k i) l ->
    body = List.concat (thread (r_inl E) cnt_i k l) ->
    forall c st, exists evs,
      render slug o c (nd (Link u t) (thread (t_inl E) cnt_i k l)) st = Ok (evs, st) /\ nocr evs = true /\
      flat_map ser_ev evs = B "<a href=""" ++ escape_href_spec u ++ [x22] ++
                            title_attr t ++ [x3e] ++ body ++ B "</a>".
  Proof.
    intros H -> c st.
    destruct (container_ok E (Link u t)
                [Open (B "a") ([] ++ [Attr (B "href") [PHref u]] ++ match t with [] => [] | _ => [Attr (B "title") [PEsc t]] end)]
                [Close (B "a")] l k (fun _ _ _ => eq_refl) (fun _ _ _ => eq_refl) eq_refl eq_refl H c st) as (evs & R & N & S).
    exists evs. split; [exact R|]. split; [exact N|]. rewrite S.
    cbn [flat_map ser_ev app]. rewrite title_attr_ser. cbn. rewrite !app_nil_r, <- !app_assoc. reflexivity.
  Qed.

  Lemma img_ok E u t l k :
    forall c st, exists evs,
      render slug o c (nd (Image u t) (thread (t_inl E) cnt_i k l)) st = Ok (evs, st) /\ nocr evs = true /\
      flat_map ser_ev evs = B "<img src=""" ++ escape_href_spec u ++ B """ alt=""" ++ escape_spec (flat_map alt_inl l) ++ [x22] ++
                            title_attr t ++ B " />".
  Proof.
    intros c st. unfold nd. rewrite render_unfold. cbn [enter bind exit_].
    eexists. split; [cbn; reflexivity|]. split; [reflexivity|].
    cbn [flat_map ser_ev app]. rewrite plain_alt.
    destruct t; cbn; norm_app; reflexivity.
  Qed.

  Lemma inl_all : forall i E k, inl_ok E k i.
  Proof.
    induction i using inline_ind2; intros E kk; cbn [t_inl].
    - leaf.
    - leaf.
    - leaf.
    - leaf.
    - leaf.
    - leaf.
    - intros c st.
      assert (H' : Forall (fun i => forall k, inl_ok E k i) l) by (eapply Forall_impl; [|exact H]; intros a Ha k0; apply Ha).
      destruct (container_ok E Emph [Open (B "em") []] [Close (B "em")] l kk
                  (fun _ _ _ => eq_refl) (fun _ _ _ => eq_refl) eq_refl eq_refl H' c st) as (evs & R & N & S).
      exists evs. split; [exact R|]. split; [exact N|]. rewrite S. reflexivity.
    - intros c st.
      assert (H' : Forall (fun i => forall k, inl_ok E k i) l) by (eapply Forall_impl; [|exact H]; intros a Ha k0; apply Ha).
      destruct (container_ok E Strong [Open (B "strong") []] [Close (B "strong")] l kk
                  (fun _ _ _ => eq_refl) (fun _ _ _ => eq_refl) eq_refl eq_refl H' c st) as (evs & R & N & S).
      exists evs. split; [exact R|]. split; [exact N|]. rewrite S. reflexivity.
    - intros c st.
      assert (H' : Forall (fun i => forall k, inl_ok E k i) l) by (eapply Forall_impl; [|exact H]; intros a Ha k0; apply Ha).
      destruct (container_ok E Strikethrough [Open (B "del") []] [Close (B "del")] l kk
                  (fun _ _ _ => eq_refl) (fun _ _ _ => eq_refl) eq_refl eq_refl H' c st) as (evs & R & N & S).
      exists evs. split; [exact R|]. split; [exact N|]. rewrite S. reflexivity.
    - leaf.
    - intros c st.
      assert (H' : Forall (fun i => forall k, inl_ok E k i) l) by (eapply Forall_impl; [|exact H]; intros a Ha k0; apply Ha).
      destruct (link_ok E (d_url d) (title_of d) l kk _ H' eq_refl c st) as (evs & R & N & S).
      exists evs. split; [exact R|]. split; [exact N|]. rewrite S. reflexivity.
    - intros c st. destruct (img_ok E (d_url d) (title_of d) l kk c st) as (evs & R & N & S).
      exists evs. split; [exact R|]. split; [exact N|]. rewrite S. reflexivity.
    - intros c st0. cbn [t_inl r_inl]. destruct img.
      + destruct (img_ok E (d_url (lookup_def E lb)) (title_of (lookup_def E lb)) l kk c st0) as (evs & R & N & S).
        exists evs. split; [exact R|]. split; [exact N|]. rewrite S. reflexivity.
      + assert (H' : Forall (fun i => forall k, inl_ok E k i) l) by (eapply Forall_impl; [|exact H]; intros a Ha k0; apply Ha).
        destruct (link_ok E (d_url (lookup_def E lb)) (title_of (lookup_def E lb)) l kk _ H' eq_refl c st0) as (evs & R & N & S).
        exists evs. split; [exact R|]. split; [exact N|]. rewrite S. reflexivity.
    - intros c st. cbn [t_inl]. unfold nd. eexists. split; [rewrite render_unfold; cbn; reflexivity|].
      split; [reflexivity|]. cbn. norm_app. reflexivity.
    - intros c st. cbn [t_inl]. unfold nd. eexists. split; [rewrite render_unfold; cbn; reflexivity|].
      split; [reflexivity|]. cbn. rewrite ?app_nil_r. unfold r_footref, suffix_n.
      cbn. norm_app. reflexivity.
  Qed.
End Inl.
