(* Proofs/DocRender.v — C03, renderer half: the HTML renderer model (Model/Html.v) applied to the
   intended tree of a canonical document gives the reference HTML of Spec/Doc.v.
   Part 1: serialisation with the carriage-return state made explicit (`run`).
   Part 2: inlines (all of them, footnote references included).
   Part 3: blocks of the fragment without tables and footnote definitions, documents. *)
From Coq Require Import List NArith Bool Lia PeanoNat Strings.String.
From V Require Import Base.Bytes Base.Res Gen.Tables Gen.Ctype Gen.Scanners Model.Escape Model.Tagfilter
     Model.Ast Spec.EscapeSpec Model.Html Proofs.EscapeProofs Proofs.HtmlSafe Spec.Doc.
Import ListNotations.
Local Open Scope string_scope.
Local Open Scope list_scope.

(* ------------------------------------------------------------------ Part 1: run *)
Fixpoint run (lf : bool) (evs : list ev) : bytes * bool :=
  match evs with
  | [] => ([], lf)
  | Cr :: r => if lf then run lf r else let (b, l) := run true r in (x0a :: b, l)
  | e :: r => let c := ser_ev e in let (b, l) := run (ends_lf lf c) r in (c ++ b, l)
  end.

Lemma run_ser : forall evs lf, fst (run lf evs) = List.concat (ser_chunks lf evs).
Proof.
  induction evs as [|e r IH]; intro lf; [reflexivity|].
  assert (G : forall c, fst (let (b, l) := run (ends_lf lf c) r in (c ++ b, l)) =
                        c ++ List.concat (ser_chunks (ends_lf lf c) r)).
  { intro c. rewrite <- IH. destruct (run _ r). reflexivity. }
  destruct e; cbn [run ser_chunks List.concat]; try apply G.
  destruct lf; [apply IH|]. cbn [List.concat]. rewrite <- IH. destruct (run true r); reflexivity.
Qed.

Lemma run_app : forall a b lf,
  run lf (a ++ b) = let (x, l1) := run lf a in let (y, l2) := run l1 b in (x ++ y, l2).
Proof.
  induction a as [|e r IH]; intros b lf.
  - cbn. destruct (run lf b). reflexivity.
  - destruct e; cbn [app run];
      try (rewrite IH; destruct (run (ends_lf lf _) r) as [x l1]; destruct (run l1 b) as [y l2];
           rewrite app_assoc; reflexivity).
    destruct lf.
    + apply IH.
    + rewrite IH. destruct (run true r) as [x l1]. destruct (run l1 b) as [y l2]. reflexivity.
Qed.

Definition is_cr (e : ev) : bool := match e with Cr => true | _ => false end.
Definition nocr (evs : list ev) : bool := forallb (fun e => negb (is_cr e)) evs.

Lemma last_app_ne {A} : forall (a b : list A) d, b <> [] -> last (a ++ b) d = last b d.
Proof.
  induction a as [|x a IH]; intros b d H; [reflexivity|].
  cbn [app]. specialize (IH b d H). destruct (a ++ b) eqn:E.
  - destruct a; [cbn in E; subst; contradiction | discriminate].
  - cbn [last]. exact IH.
Qed.

Lemma ends_lf_app lf a b : ends_lf (ends_lf lf a) b = ends_lf lf (a ++ b).
Proof.
  destruct b as [|y b]; [rewrite app_nil_r; reflexivity|].
  unfold ends_lf at 1. destruct (a ++ y :: b) eqn:E.
  - destruct a; discriminate.
  - cbn [ends_lf]. rewrite <- E. rewrite last_app_ne by discriminate. reflexivity.
Qed.

Lemma run_nocr : forall evs lf, nocr evs = true ->
  run lf evs = (flat_map ser_ev evs, ends_lf lf (flat_map ser_ev evs)).
Proof.
  induction evs as [|e r IH]; intros lf H; [reflexivity|].
  cbn [nocr forallb] in H. apply andb_true_iff in H. destruct H as [He Hr].
  destruct e; try discriminate He; cbn [run flat_map]; rewrite (IH _ Hr), ends_lf_app; reflexivity.
Qed.

Lemma nocr_app a b : nocr (a ++ b) = nocr a && nocr b.
Proof. apply forallb_app. Qed.

(* ------------------------------------------------------------------ Part 2: inlines *)
Section Inl.
  Variable slug : bytes -> bytes.
  Notation o := std_opts.

  (* what an inline is proved to do: it renders in any context and state, leaves the state alone,
     writes no Cr, and its bytes are the reference bytes *)
  Definition inl_ok (E : env) (k : nat) (i : inline) : Prop :=
    forall c st, exists evs,
      render slug o c (t_inl E k i) st = Ok (evs, st) /\ nocr evs = true /\ flat_map ser_ev evs = r_inl E k i.

  Lemma render_list_inls E v pv : forall l k,
    Forall (fun i => forall k, inl_ok E k i) l ->
    forall j prev st, exists evs,
      render_list slug o v pv (thread (t_inl E) cnt_i k l) j prev st = Ok (evs, st) /\ nocr evs = true /\
      flat_map ser_ev evs = List.concat (thread (r_inl E) cnt_i k l).
  Proof.
    induction l as [|x r IH]; intros k H j prev st.
    - exists []. repeat split; reflexivity.
    - inversion H as [|? ? Hx Hr]; subst. cbn [thread render_list].
      destruct (Hx k (mkCtx (Some v) pv prev j (negb match thread (t_inl E) cnt_i (k + cnt_i x) r with [] => true | _ => false end)) st)
        as (ex & Rx & Nx & Sx).
      rewrite Rx. cbn [bind].
      destruct (IH (k + cnt_i x) Hr (S j) (Some (nval (t_inl E k x))) st) as (er & Rr & Nr & Sr).
      rewrite Rr. cbn [bind]. exists (ex ++ er). repeat split.
      + rewrite nocr_app, Nx, Nr. reflexivity.
      + rewrite flat_map_app, Sx, Sr. reflexivity.
  Qed.

  Lemma plain_thread E : forall l,
    Forall (fun i => forall k, plain (t_inl E k i) = escape_spec (alt_inl i)) l ->
    forall k, flat_map plain (thread (t_inl E) cnt_i k l) = escape_spec (flat_map alt_inl l).
  Proof.
    induction 1 as [|x r Hx Hr IH]; intro k; [reflexivity|].
    cbn [thread flat_map]. rewrite escape_spec_app, Hx, IH. reflexivity.
  Qed.

  Lemma plain_inl E : forall i kk, plain (t_inl E kk i) = escape_spec (alt_inl i).
  Proof.
    induction i using inline_ind2; intro kk; cbn [t_inl alt_inl nd plain]; rewrite ?app_nil_r; try reflexivity;
      try (cbn [app]; apply plain_thread; assumption).
    all: try (destruct img; cbn [plain app]; apply plain_thread; assumption).
    all: cbn; rewrite ?app_nil_r; reflexivity.
  Qed.

  Lemma plain_alt E l k : flat_map plain (thread (t_inl E) cnt_i k l) = escape_spec (flat_map alt_inl l).
  Proof. apply plain_thread. apply Forall_forall. intros i _ kk. apply plain_inl. Qed.
  Arguments fr_num : simpl never.
  Arguments fr_ix : simpl never.
  Arguments dec : simpl never.
  Arguments escape_spec : simpl never.
  Arguments escape_href_spec : simpl never.
  Arguments lookup_def : simpl never.
  Arguments thread : simpl never.
  Arguments code_ticks : simpl never.

  Ltac norm_app := repeat progress (rewrite <- ?app_assoc; cbn [app]; rewrite ?app_nil_r).
  Ltac leaf := intros cx0 st0; cbn [t_inl]; unfold nd; eexists; split; [rewrite render_unfold; cbn; reflexivity|];
               split; [reflexivity|]; cbn; rewrite ?app_nil_r; reflexivity.

  (* containers whose enter / exit do not look at context, state or children *)
  Lemma container_ok E v e1 e3 l k :
    (forall c st ch, enter slug o c (Node v sp0 ch) st = Ok (e1, st, MHtml)) ->
    (forall c st ch, exit_ o c (Node v sp0 ch) st = Ok (e3, st)) ->
    nocr e1 = true -> nocr e3 = true ->
    Forall (fun i => forall k, inl_ok E k i) l ->
    forall c st, exists evs,
      render slug o c (nd v (thread (t_inl E) cnt_i k l)) st = Ok (evs, st) /\ nocr evs = true /\
      flat_map ser_ev evs = flat_map ser_ev e1 ++ List.concat (thread (r_inl E) cnt_i k l) ++ flat_map ser_ev e3.
  Proof.
    intros He Hx N1 N3 H c st. unfold nd. rewrite render_unfold, He. cbn [bind].
    destruct (render_list_inls E v (c_parent c) l k H 0 None st) as (e2 & R2 & N2 & S2).
    rewrite R2. cbn [bind]. rewrite Hx. cbn [bind].
    exists (e1 ++ e2 ++ e3). split; [reflexivity|]. split.
    - rewrite !nocr_app, N1, N2, N3. reflexivity.
    - rewrite !flat_map_app, S2. reflexivity.
  Qed.

  Lemma title_attr_ser t :
    flat_map ser_attr (match t with [] => [] | _ => [Attr (B "title") [PEsc t]] end) =
    title_attr t.
  Proof. destruct t; [reflexivity|]. cbn. rewrite !app_nil_r. reflexivity. Qed.

  Lemma link_ok E u t l k body :
    Forall (fun i => forall k, inl_ok E k i) l ->
    body = List.concat (thread (r_inl E) cnt_i k l) ->
    forall c st, exists evs,
      render slug o c (nd (Link u t) (thread (t_inl E) cnt_i k l)) st = Ok (evs, st) /\ nocr evs = true /\
      flat_map ser_ev evs = B "<a href=""" ++ escape_href_spec u ++ [x22] ++
                            title_attr t ++ [x3e] ++ body ++ B "</a>".
  Proof.
    intros H -> c st.
    destruct (container_ok E (Link u t)
                [Open (B "a") ([] ++ [Attr (B "href") [PHref u]] ++ match t with [] => [] | _ => [Attr (B "title") [PEsc t]] end)]
                [Close (B "a")] l k (fun _ _ _ => eq_refl) (fun _ _ _ => eq_refl) eq_refl eq_refl H c st) as (evs & R & N & S).
    exists evs. split; [exact R|]. split; [exact N|]. rewrite S.
    cbn [flat_map ser_ev app]. rewrite title_attr_ser. cbn. rewrite !app_nil_r, <- !app_assoc. reflexivity.
  Qed.

  Lemma img_ok E u t l k :
    forall c st, exists evs,
      render slug o c (nd (Image u t) (thread (t_inl E) cnt_i k l)) st = Ok (evs, st) /\ nocr evs = true /\
      flat_map ser_ev evs = B "<img src=""" ++ escape_href_spec u ++ B """ alt=""" ++ escape_spec (flat_map alt_inl l) ++ [x22] ++
                            title_attr t ++ B " />".
  Proof.
    intros c st. unfold nd. rewrite render_unfold. cbn [enter bind exit_].
    eexists. split; [cbn; reflexivity|]. split; [reflexivity|].
    cbn [flat_map ser_ev app]. rewrite plain_alt.
    destruct t; cbn; norm_app; reflexivity.
  Qed.

  Lemma inl_all : forall i E k, inl_ok E k i.
  Proof.
    induction i using inline_ind2; intros E kk; cbn [t_inl].
    - leaf.
    - leaf.
    - leaf.
    - leaf.
    - leaf.
    - leaf.
    - intros c st.
      assert (H' : Forall (fun i => forall k, inl_ok E k i) l) by (eapply Forall_impl; [|exact H]; intros a Ha k0; apply Ha).
      destruct (container_ok E Emph [Open (B "em") []] [Close (B "em")] l kk
                  (fun _ _ _ => eq_refl) (fun _ _ _ => eq_refl) eq_refl eq_refl H' c st) as (evs & R & N & S).
      exists evs. split; [exact R|]. split; [exact N|]. rewrite S. reflexivity.
    - intros c st.
      assert (H' : Forall (fun i => forall k, inl_ok E k i) l) by (eapply Forall_impl; [|exact H]; intros a Ha k0; apply Ha).
      destruct (container_ok E Strong [Open (B "strong") []] [Close (B "strong")] l kk
                  (fun _ _ _ => eq_refl) (fun _ _ _ => eq_refl) eq_refl eq_refl H' c st) as (evs & R & N & S).
      exists evs. split; [exact R|]. split; [exact N|]. rewrite S. reflexivity.
    - intros c st.
      assert (H' : Forall (fun i => forall k, inl_ok E k i) l) by (eapply Forall_impl; [|exact H]; intros a Ha k0; apply Ha).
      destruct (container_ok E Strikethrough [Open (B "del") []] [Close (B "del")] l kk
                  (fun _ _ _ => eq_refl) (fun _ _ _ => eq_refl) eq_refl eq_refl H' c st) as (evs & R & N & S).
      exists evs. split; [exact R|]. split; [exact N|]. rewrite S. reflexivity.
    - leaf.
    - intros c st.
      assert (H' : Forall (fun i => forall k, inl_ok E k i) l) by (eapply Forall_impl; [|exact H]; intros a Ha k0; apply Ha).
      destruct (link_ok E (d_url d) (title_of d) l kk _ H' eq_refl c st) as (evs & R & N & S).
      exists evs. split; [exact R|]. split; [exact N|]. rewrite S. reflexivity.
    - intros c st. destruct (img_ok E (d_url d) (title_of d) l kk c st) as (evs & R & N & S).
      exists evs. split; [exact R|]. split; [exact N|]. rewrite S. reflexivity.
    - intros c st0. cbn [t_inl r_inl]. destruct img.
      + destruct (img_ok E (d_url (lookup_def E lb)) (title_of (lookup_def E lb)) l kk c st0) as (evs & R & N & S).
        exists evs. split; [exact R|]. split; [exact N|]. rewrite S. reflexivity.
      + assert (H' : Forall (fun i => forall k, inl_ok E k i) l) by (eapply Forall_impl; [|exact H]; intros a Ha k0; apply Ha).
        destruct (link_ok E (d_url (lookup_def E lb)) (title_of (lookup_def E lb)) l kk _ H' eq_refl c st0) as (evs & R & N & S).
        exists evs. split; [exact R|]. split; [exact N|]. rewrite S. reflexivity.
    - intros c st. cbn [t_inl]. unfold nd. eexists. split; [rewrite render_unfold; cbn; reflexivity|].
      split; [reflexivity|]. cbn. norm_app. reflexivity.
    - intros c st. cbn [t_inl]. unfold nd. eexists. split; [rewrite render_unfold; cbn; reflexivity|].
      split; [reflexivity|]. cbn. rewrite ?app_nil_r. unfold r_footref, suffix_n.
      cbn. norm_app. reflexivity.
  Qed.
End Inl.

(* ------------------------------------------------------------------ Part 3: blocks *)
Definition gp_tight (gp : option node_value) : bool :=
  match gp with Some (NList l) => l_tight l | Some (DescriptionItem _ _ t) => t | _ => false end.
Definition plain_parent (pv : option node_value) : bool :=
  match pv with Some Document | Some BlockQuote | Some (Item _) | Some (TaskItem _) => true | _ => false end.
Definition ctx_ok (as_item t : bool) (c : ctx) : Prop :=
  if as_item then exists l, c_parent c = Some (NList l) /\ l_tight l = t
  else plain_parent (c_parent c) = true /\ gp_tight (c_gparent c) = t.

Definition lead (lf : bool) : bytes := if lf then [] else [x0a].
Definition is_bare (t : bool) (b : block) : bool := t && is_para b.

Section Blk.
  Variable slug : bytes -> bytes.
  Notation o := std_opts.
  Arguments dec : simpl never.
  Arguments escape_spec : simpl never.
  Arguments escape_href_spec : simpl never.
  Arguments thread : simpl never.
  Arguments unlines : simpl never.
  Ltac norm_app := repeat progress (rewrite <- ?app_assoc; cbn [app]; rewrite ?app_nil_r).

  Definition blk_ok (as_item t : bool) (b : block) : Prop :=
    forall E li k c st, ctx_ok as_item t c ->
    exists evs, render slug o c (t_block E li k b) st = Ok (evs, st) /\
      forall lf, run lf evs = if is_bare t b then (r_block E t k b, false) else (lead lf ++ r_block E t k b, true).

  Fixpoint seq_out (E : env) (t : bool) (lf : bool) (k : nat) (bs : list block) : bytes * bool :=
    match bs with
    | [] => ([], lf)
    | x :: r =>
      let '(a, l1) := if is_bare t x then (r_block E t k x, false) else (lead lf ++ r_block E t k x, true) in
      let '(b, l2) := seq_out E t l1 (k + cnt_b x) r in (a ++ b, l2)
    end.

  Lemma render_list_blocks E li v pv as_item t : forall bs k,
    Forall (blk_ok as_item t) bs ->
    (forall prev i hn, ctx_ok as_item t (mkCtx (Some v) pv prev i hn)) ->
    forall j prev st, exists evs,
      render_list slug o v pv (thread (t_block E li) cnt_b k bs) j prev st = Ok (evs, st) /\
      forall lf, run lf evs = seq_out E t lf k bs.
  Proof.
    induction bs as [|x r IH]; intros k H C j prev st.
    - exists []. split; reflexivity.
    - inversion H as [|? ? Hx Hr]; subst.
      change (thread (t_block E li) cnt_b k (x :: r)) with (t_block E li k x :: thread (t_block E li) cnt_b (k + cnt_b x) r).
      cbn [render_list].
      destruct (Hx E li k _ st (C prev j (negb match thread (t_block E li) cnt_b (k + cnt_b x) r with [] => true | _ => false end)))
        as (ex & Rx & Sx).
      rewrite Rx. cbn [bind].
      destruct (IH (k + cnt_b x) Hr C (S j) (Some (nval (t_block E li k x))) st) as (er & Rr & Sr).
      rewrite Rr. cbn [bind]. exists (ex ++ er). split; [reflexivity|].
      intro lf. rewrite run_app, Sx. cbn [seq_out].
      destruct (is_bare t x); rewrite Sr; destruct (seq_out E t _ (k + cnt_b x) r); reflexivity.
  Qed.

  (* sequences without bare paragraphs *)
  Lemma seq_out_loose E t : forall bs lf k,
    forallb (fun b => negb (is_bare t b)) bs = true ->
    seq_out E t lf k bs = (match bs with [] => [] | _ => lead lf end ++ List.concat (thread (r_block E t) cnt_b k bs),
                           match bs with [] => lf | _ => true end).
  Proof.
    induction bs as [|x r IH]; intros lf k H; [reflexivity|].
    cbn [forallb] in H. apply andb_true_iff in H. destruct H as [Hx Hr].
    cbn [seq_out]. destruct (is_bare t x); [discriminate|].
    rewrite (IH true _ Hr).
    change (thread (r_block E t) cnt_b k (x :: r)) with (r_block E t k x :: thread (r_block E t) cnt_b (k + cnt_b x) r).
    cbn [List.concat]. destruct r; cbn [lead app]; rewrite <- ?app_assoc; reflexivity.
  Qed.

  (* children of an item of a tight list *)
  Lemma seq_out_tight E : forall bs lf k,
    fst (seq_out E true lf k bs) = tight_join (r_block E true) (negb lf) k bs.
  Proof.
    induction bs as [|x r IH]; intros lf k; [reflexivity|].
    cbn [seq_out tight_join]. unfold is_bare. cbn [andb].
    destruct (is_para x).
    - specialize (IH false (k + cnt_b x)). destruct (seq_out E true false (k + cnt_b x) r). cbn [fst] in *. rewrite IH. reflexivity.
    - specialize (IH true (k + cnt_b x)). destruct (seq_out E true true (k + cnt_b x) r). cbn [fst] in *. rewrite IH.
      destruct lf; cbn [lead negb app]; rewrite <- ?app_assoc; reflexivity.
  Qed.

  Lemma run_cr lf evs : run lf (Cr :: evs) = let (b, l) := run true evs in (lead lf ++ b, l).
  Proof. cbn [run]. destruct lf; destruct (run true evs); reflexivity. Qed.

  Lemma ends_lf_snoc l b : ends_lf l (b ++ [x0a]) = true.
  Proof.
    unfold ends_lf. destruct (b ++ [x0a]) eqn:X; [destruct b; discriminate|].
    rewrite <- X, last_app_ne by discriminate. reflexivity.
  Qed.

  (* a block: Cr, opening events, children, closing events ending with a line ending *)
  Lemma wrap_run pre e2 post lf b2 l2 :
    nocr pre = true -> nocr post = true ->
    run (ends_lf true (flat_map ser_ev pre)) e2 = (b2, l2) ->
    run lf ((Cr :: pre) ++ e2 ++ post ++ [Lit [x0a]]) =
    (lead lf ++ flat_map ser_ev pre ++ b2 ++ flat_map ser_ev post ++ [x0a], true).
  Proof.
    intros Np Nq R2. cbn [app]. rewrite run_cr, run_app, (run_nocr _ _ Np), run_app, R2.
    rewrite (run_nocr (post ++ [Lit [x0a]])) by (rewrite nocr_app, Nq; reflexivity).
    rewrite flat_map_app. cbn [flat_map ser_ev]. rewrite app_nil_r, ends_lf_snoc.
    rewrite <- ?app_assoc. reflexivity.
  Qed.

  Lemma inls_run E v pv l k j prev st : exists evs,
    render_list slug o v pv (t_inls E k l) j prev st = Ok (evs, st) /\
    forall lf, run lf evs = (r_inls E k l, ends_lf lf (r_inls E k l)).
  Proof.
    destruct (render_list_inls slug E v pv l k (proj2 (Forall_forall _ _) (fun i _ kk => inl_all slug i E kk)) j prev st)
      as (evs & R & N & S).
    exists evs. split; [exact R|]. intro lf. rewrite (run_nocr _ _ N), S. reflexivity.
  Qed.

  Lemma plain_not_tight pv : plain_parent pv = true -> gp_tight pv = false.
  Proof. destruct pv as [[]|]; try discriminate; reflexivity. Qed.

  (* ---- leaves and inline containers ---- *)
  Lemma para_enter c t ch st : ctx_ok false t c ->
    enter slug o c (Node Paragraph sp0 ch) st = Ok (if t then [] else [Cr; Open (B "p") []], st, MHtml).
  Proof.
    intros [Hp Hg]. cbn [enter]. unfold gp_tight in Hg.
    destruct (c_parent c) as [[]|]; try discriminate Hp; rewrite Hg, orb_false_r; destruct t; reflexivity.
  Qed.
  Lemma para_exit c t ch st : ctx_ok false t c ->
    exit_ o c (Node Paragraph sp0 ch) st = Ok (if t then [] else [Close (B "p"); Lit [x0a]], st).
  Proof.
    intros [Hp Hg]. cbn [exit_]. unfold gp_tight in Hg.
    destruct (c_parent c) as [[]|]; try discriminate Hp; rewrite Hg, orb_false_r; destruct t; reflexivity.
  Qed.

  (* no line ending at the end of a solid inline *)
  Lemma scan_no_lf ok : (forall b, ok b = true -> b <> x0a) -> forall w st, scan ok st w = true -> ~ In x0a w.
  Proof.
    intros Hok. induction w as [|b r IH]; intros st H; [intros []|].
    cbn [scan] in H. intros [Hb|Hr].
    - subst b. destruct st as [|[|[|st]]].
      + destruct (ok x0a) eqn:O; [exact (Hok _ O eq_refl)|]. cbn in H. discriminate.
      + cbn in H. discriminate.
      + cbn in H. discriminate.
      + cbn in H. discriminate.
    - destruct st as [|[|[|st]]].
      + destruct (ok b); [exact (IH _ H Hr)|]. destruct (beqb b xc3); [exact (IH _ H Hr)|].
        destruct (beqb b xe6); [exact (IH _ H Hr)|discriminate].
      + apply andb_true_iff in H. exact (IH _ (proj2 H) Hr).
      + apply andb_true_iff in H. exact (IH _ (proj2 H) Hr).
      + apply andb_true_iff in H. exact (IH _ (proj2 H) Hr).
  Qed.

  Definition esc1_tail_ok (b : byte) : bool :=
    beqb b x0a || (negb (ends_lf true (esc1_spec b)) && negb (ends_lf false (esc1_spec b))).
  Lemma esc1_tail_all : forall b, esc1_tail_ok b = true.
  Proof. apply forall_bytes. vm_compute. reflexivity. Qed.
  Lemma esc1_tail b lf : b <> x0a -> ends_lf lf (esc1_spec b) = false.
  Proof.
    intro H. pose proof (esc1_tail_all b) as T. unfold esc1_tail_ok in T.
    apply orb_true_iff in T. destruct T as [T|T]; [apply beqb_eq in T; contradiction|].
    apply andb_true_iff in T. destruct T as [T1 T2]. destruct lf; [destruct (ends_lf true _)|destruct (ends_lf false _)]; try reflexivity; discriminate.
  Qed.
  Lemma escape_no_lf_end w lf : w <> [] -> ~ In x0a w -> ends_lf lf (escape_spec w) = false.
  Proof.
    intros Hne Hin. destruct (exists_last Hne) as (w' & b & ->).
    rewrite escape_spec_app, <- ends_lf_app. unfold escape_spec at 2. cbn [flat_map]. rewrite app_nil_r.
    apply esc1_tail. intro; subst. apply Hin, in_or_app. right. left. reflexivity.
  Qed.
  Definition punct_not_lf (b : byte) : bool := negb (is_apunct b) || negb (beqb b x0a).
  Lemma punct_not_lf_all : forall b, punct_not_lf b = true.
  Proof. apply forall_bytes. vm_compute. reflexivity. Qed.
  Definition safe_not_lf (b : byte) : bool := negb (safe_ascii b) || negb (beqb b x0a).
  Lemma safe_not_lf_all : forall b, safe_not_lf b = true.
  Proof. apply forall_bytes. vm_compute. reflexivity. Qed.

  Lemma solid_ends x E k lf : solid x = true -> ends_lf lf (r_inl E k x) = false.
  Proof.
    destruct x; cbn [solid r_inl]; intro H; try discriminate H.
    - unfold safe_word in H. apply andb_true_iff in H. destruct H as [Hn Hs].
      apply escape_no_lf_end; [destruct w; [discriminate|discriminate]|].
      apply (scan_no_lf safe_ascii) with (st := 0); [|exact Hs].
      intros b Hb ->. pose proof (safe_not_lf_all x0a) as T. unfold safe_not_lf in T. rewrite Hb in T. discriminate T.
    - apply escape_no_lf_end; [discriminate|]. intros [Hc|[]]. subst c.
      pose proof (punct_not_lf_all x0a) as T. unfold punct_not_lf in T. rewrite H in T. discriminate T.
    - apply Nat.ltb_lt in H. cbn in H.
      do 16 (destruct k0 as [|k0]; [destruct lf; vm_compute; reflexivity|]). lia.
    - rewrite !app_assoc, <- ends_lf_app. reflexivity.
    - rewrite !app_assoc, <- ends_lf_app. reflexivity.
    - rewrite !app_assoc, <- ends_lf_app. reflexivity.
    - rewrite !app_assoc, <- ends_lf_app. reflexivity.
    - unfold r_link. rewrite !app_assoc, <- ends_lf_app. reflexivity.
    - unfold r_img. rewrite !app_assoc, <- ends_lf_app. reflexivity.
    - destruct img; [unfold r_img|unfold r_link]; rewrite !app_assoc, <- ends_lf_app; reflexivity.
    - rewrite !app_assoc, <- ends_lf_app. reflexivity.
    - unfold r_footref. rewrite !app_assoc, <- ends_lf_app. reflexivity.
  Qed.

  Lemma thread_snoc {X A} (f : nat -> X -> A) cnt : forall a k x, exists k',
    thread f cnt k (a ++ [x]) = thread f cnt k a ++ [f k' x].
  Proof.
    induction a as [|y a IH]; intros k x.
    - exists k. reflexivity.
    - destruct (IH (k + cnt y) x) as (k' & E). exists k'.
      change (thread f cnt k ((y :: a) ++ [x])) with (f k y :: thread f cnt (k + cnt y) (a ++ [x])).
      rewrite E. reflexivity.
  Qed.

  Lemma solid_end_run E k l lf : solid_end l = true -> ends_lf lf (r_inls E k l) = false.
  Proof.
    unfold solid_end. intro H. destruct (rev l) as [|x r] eqn:R; [discriminate|].
    assert (L : l = rev r ++ [x]) by (rewrite <- (rev_involutive l), R; reflexivity).
    subst l. unfold r_inls. destruct (thread_snoc (r_inl E) cnt_i (rev r) k x) as (k' & ->).
    rewrite concat_app. cbn [List.concat]. rewrite app_nil_r, <- ends_lf_app. apply solid_ends. exact H.
  Qed.

  Lemma para_ok t l : (negb t || solid_end l) = true -> blk_ok false t (BPara l).
  Proof.
    intros Hs E li k c st C. cbn [t_block]. unfold nd. rewrite render_unfold, (para_enter _ _ _ _ C). cbn [bind].
    destruct (inls_run E Paragraph (c_parent c) l k 0 None st) as (e2 & R2 & S2).
    rewrite R2. cbn [bind]. rewrite (para_exit _ _ _ _ C). cbn [bind].
    eexists. split; [reflexivity|]. intro lf. unfold is_bare. cbn [is_para r_block].
    destruct t; cbn [andb].
    - cbn [app]. rewrite app_nil_r, S2. cbn [negb orb] in Hs. rewrite (solid_end_run _ _ _ _ Hs). reflexivity.
    - change ([Cr; Open (B "p") []] ++ e2 ++ [Close (B "p"); Lit [x0a]])
        with ((Cr :: [Open (B "p") []]) ++ e2 ++ [Close (B "p")] ++ [Lit [x0a]]).
      rewrite (wrap_run [Open (B "p") []] e2 [Close (B "p")] lf _ _ eq_refl eq_refl (S2 _)). cbn. norm_app. reflexivity.
  Qed.


  Lemma atx_ok t lvl cl l : blk_ok false t (BAtx lvl cl l).
  Proof.
    intros E li k c st C. cbn [t_block]. unfold nd. rewrite render_unfold. cbn [enter o_header_ids std_opts bind].
    destruct (inls_run E (Heading (N.of_nat lvl) false) (c_parent c) l k 0 None st) as (e2 & R2 & S2).
    rewrite R2. cbn [bind exit_].
    eexists. split; [reflexivity|]. intro lf. unfold is_bare. cbn [is_para]. rewrite andb_false_r.
    etransitivity; [exact (wrap_run [Open (heading_tag (N.of_nat lvl)) []] e2 [Close (heading_tag (N.of_nat lvl))] lf _ _ eq_refl eq_refl (S2 _))|].
    cbn. norm_app. reflexivity.
  Qed.

  Lemma setext_ok t lvl2 l : blk_ok false t (BSetext lvl2 l).
  Proof.
    intros E li k c st C. cbn [t_block]. unfold nd. rewrite render_unfold. cbn [enter o_header_ids std_opts bind].
    destruct (inls_run E (Heading (if lvl2 then 2%N else 1%N) true) (c_parent c) l k 0 None st) as (e2 & R2 & S2).
    rewrite R2. cbn [bind exit_].
    eexists. split; [reflexivity|]. intro lf. unfold is_bare. cbn [is_para]. rewrite andb_false_r.
    etransitivity; [exact (wrap_run [Open (heading_tag (if lvl2 then 2%N else 1%N)) []] e2 [Close (heading_tag (if lvl2 then 2%N else 1%N))] lf _ _ eq_refl eq_refl (S2 _))|].
    destruct lvl2; cbn; norm_app; reflexivity.
  Qed.

  Lemma hr_ok t ch n sp : blk_ok false t (BHr ch n sp).
  Proof.
    intros E li k c st C. cbn [t_block]. unfold nd. rewrite render_unfold. cbn.
    eexists. split; [reflexivity|]. intro lf. unfold is_bare. cbn [is_para]. rewrite andb_false_r.
    etransitivity; [exact (wrap_run [Void (B "hr") []] [] [] lf _ _ eq_refl eq_refl eq_refl)|].
    cbn. norm_app. reflexivity.
  Qed.

  Lemma html_ok t j : Nat.ltb j (List.length html_shapes) = true -> blk_ok false t (BHtml j).
  Proof.
    intros Hj E li k c st C. cbn [t_block]. unfold nd. rewrite render_unfold. cbn.
    eexists. split; [reflexivity|]. intro lf. unfold is_bare. cbn [is_para]. rewrite andb_false_r.
    apply Nat.ltb_lt in Hj. cbn in Hj.
    do 8 (destruct j as [|j]; [destruct lf; vm_compute; reflexivity|]). lia.
  Qed.

  Lemma indent_ok t lines : blk_ok false t (BIndent lines).
  Proof.
    intros E li k c st C. cbn [t_block]. unfold nd. rewrite render_unfold. cbn.
    eexists. split; [reflexivity|]. intro lf. unfold is_bare. cbn [is_para]. rewrite andb_false_r.
    etransitivity; [exact (wrap_run [Open (B "pre") []; Open (B "code") []; Txt (unlines lines); Close (B "code"); Close (B "pre")] [] [] lf _ _ eq_refl eq_refl eq_refl)|].
    cbn. norm_app. reflexivity.
  Qed.

  Definition info_space_ok (b : byte) : bool := negb (info_byte b) || Bool.eqb (isspace b) (beqb b x20).
  Lemma info_space_all : forall b, info_space_ok b = true.
  Proof. apply forall_bytes. vm_compute. reflexivity. Qed.
  Lemma split_info_first : forall info, forallb info_byte info = true -> fst (split_info info) = first_word info.
  Proof.
    unfold first_word. induction info as [|a info IH]; intro H; [reflexivity|].
    cbn [forallb] in H. apply andb_true_iff in H. destruct H as [Hb Hr].
    pose proof (info_space_all a) as T. unfold info_space_ok in T. rewrite Hb in T. cbn [negb orb] in T.
    apply eqb_prop in T. cbn [split_info]. rewrite T.
    destruct (beqb a x20); [reflexivity|]. specialize (IH Hr). destruct (split_info info). cbn [fst] in *. rewrite IH. reflexivity.
  Qed.

  Lemma fence_ok t tilde len info lines :
    forallb info_byte info = true -> bytes_eqb info math_info = false -> blk_ok false t (BFence tilde len info lines).
  Proof.
    intros Hi Hm E li k c st C. cbn [t_block]. unfold nd. rewrite render_unfold.
    cbn [enter cb_info cb_literal]. change (B "math") with math_info. rewrite Hm.
    pose proof (split_info_first info Hi) as SF. destruct (split_info info) as [lang rest]. cbn [fst] in SF. subst lang.
    cbn [bind]. cbn.
    eexists. split; [reflexivity|]. intro lf. unfold is_bare. cbn [is_para]. rewrite !andb_false_r.
    destruct info as [|b0 info'].
    - etransitivity; [exact (wrap_run [Open (B "pre") []; Open (B "code") []; Txt (unlines lines); Close (B "code"); Close (B "pre")] [] [] lf _ _ eq_refl eq_refl eq_refl)|].
      cbn. norm_app. reflexivity.
    - etransitivity; [exact (wrap_run [Open (B "pre") []; Open (B "code") [Attr (B "class") [PEsc (B "language-" ++ first_word (b0 :: info'))]];
                                       Txt (unlines lines); Close (B "code"); Close (B "pre")] [] [] lf _ _ eq_refl eq_refl eq_refl)|].
      cbn [flat_map ser_ev ser_attr ser_part app]. rewrite escape_spec_app. cbn. norm_app. reflexivity.
  Qed.


  Notation li0 := (mkList Bullet 0 0 0 Period 0 false false).

  Lemma wf_not_bare_loose : forall bs, forallb (fun b => negb (is_bare false b)) bs = true.
  Proof. induction bs; [reflexivity|]. cbn [forallb is_bare andb negb]. exact IHbs. Qed.
  Lemma wf_items_not_bare t : forall bs, forallb (wf_b true t) bs = true -> forallb (fun b => negb (is_bare t b)) bs = true.
  Proof.
    induction bs as [|x r IH]; intro H; [reflexivity|]. cbn [forallb] in *. apply andb_true_iff in H. destruct H as [Hx Hr].
    rewrite (IH Hr), andb_true_r. destruct x; try discriminate Hx; unfold is_bare; cbn [is_para]; rewrite andb_false_r; reflexivity.
  Qed.

  Lemma quote_ok t bs : Forall (blk_ok false false) bs -> blk_ok false t (BQuote bs).
  Proof.
    intros H E li k c st C. cbn [t_block]. unfold nd. rewrite render_unfold. cbn [enter bind].
    destruct C as [Cp Cg].
    destruct (render_list_blocks E li0 BlockQuote (c_parent c) false false bs k H
                (fun _ _ _ => conj eq_refl (plain_not_tight _ Cp)) 0 None st) as (e2 & R2 & S2).
    rewrite R2. cbn [bind exit_].
    eexists. split; [reflexivity|]. intro lf. unfold is_bare. cbn [is_para]. rewrite !andb_false_r.
    replace (([Cr; Open (B "blockquote") (sp_attr o sp0); Lit [x0a]]) ++ e2 ++ [Cr; Close (B "blockquote"); Lit [x0a]])
      with ((Cr :: [Open (B "blockquote") []; Lit [x0a]]) ++ (e2 ++ [Cr]) ++ [Close (B "blockquote")] ++ [Lit [x0a]])
      by (cbn; rewrite <- app_assoc; reflexivity).
    assert (R : run (ends_lf true (flat_map ser_ev [Open (B "blockquote") []; Lit [x0a]])) (e2 ++ [Cr]) =
                (List.concat (thread (r_block E false) cnt_b k bs), true)).
    { rewrite run_app, S2, (seq_out_loose E false bs _ k (wf_not_bare_loose bs)).
      destruct bs; cbn; rewrite ?app_nil_r; reflexivity. }
    rewrite (wrap_run [Open (B "blockquote") []; Lit [x0a]] (e2 ++ [Cr]) [Close (B "blockquote")] lf _ _ eq_refl eq_refl R). cbn. norm_app. reflexivity.
  Qed.

  Lemma list_children E l items k c st tg :
    l_tight l = tg -> Forall (blk_ok true tg) items -> forallb (wf_b true tg) items = true ->
    exists e2, render_list slug o (NList l) (c_parent c) (thread (t_block E l) cnt_b k items) 0 None st = Ok (e2, st) /\
               run true e2 = (List.concat (thread (r_block E tg) cnt_b k items), true).
  Proof.
    intros Ht H W.
    destruct (render_list_blocks E l (NList l) (c_parent c) true tg items k H
                (fun _ _ _ => ex_intro _ l (conj eq_refl Ht)) 0 None st) as (e2 & R2 & S2).
    exists e2. split; [exact R2|]. rewrite S2, (seq_out_loose E tg items _ k (wf_items_not_bare tg items W)).
    destruct items; reflexivity.
  Qed.

  Lemma bullet_ok t tg m items : Forall (blk_ok true tg) items -> forallb (wf_b true tg) items = true -> blk_ok false t (BBullet tg m items).
  Proof.
    intros H W E li k c st C. cbn [t_block]. unfold nd. rewrite render_unfold.
    cbn [enter l_type l_task o_tasklist_classes std_opts]. rewrite andb_false_r. cbn [bind].
    destruct (list_children E (mkList Bullet 0 2 1 Period (bN m) tg (has_task items)) items k c st tg eq_refl H W) as (e2 & R2 & S2).
    rewrite R2. cbn [bind exit_ l_type].
    eexists. split; [reflexivity|]. intro lf. unfold is_bare. cbn [is_para]. rewrite !andb_false_r.
    etransitivity; [exact (wrap_run [Open (B "ul") []; Lit [x0a]] e2 [Close (B "ul")] lf _ _ eq_refl eq_refl S2)|].
    cbn. norm_app. reflexivity.
  Qed.

  Lemma ordered_ok t tg start paren items : Forall (blk_ok true tg) items -> forallb (wf_b true tg) items = true ->
    blk_ok false t (BOrdered tg start paren items).
  Proof.
    intros H W E li k c st C. cbn [t_block]. unfold nd. rewrite render_unfold.
    cbn [enter l_type l_task l_start o_tasklist_classes std_opts]. rewrite andb_false_r. cbn [bind].
    destruct (list_children E (mkList Ordered 0 (N.of_nat (List.length (dec start)) + 2) start (if paren then Paren else Period) 0 tg (has_task items))
                items k c st tg eq_refl H W) as (e2 & R2 & S2).
    rewrite R2. cbn [bind exit_ l_type].
    eexists. split; [reflexivity|]. intro lf. unfold is_bare. cbn [is_para]. rewrite !andb_false_r.
    destruct (start =? 1)%N eqn:S1.
    - etransitivity; [exact (wrap_run [Open (B "ol") []; Lit [x0a]] e2 [Close (B "ol")] lf _ _ eq_refl eq_refl S2)|].
      cbn [r_block]. rewrite S1. cbn. norm_app. reflexivity.
    - assert (S2' : run (ends_lf true (flat_map ser_ev [Open (B "ol") [Attr (B "start") [PConst (dec start)]]; Lit [x0a]])) e2 =
                    (List.concat (thread (r_block E tg) cnt_b k items), true)).
      { cbn [flat_map ser_ev]. rewrite app_nil_r, ends_lf_snoc. exact S2. }
      etransitivity; [exact (wrap_run [Open (B "ol") [Attr (B "start") [PConst (dec start)]]; Lit [x0a]] e2 [Close (B "ol")] lf _ _ eq_refl eq_refl S2')|].
      cbn [r_block]. rewrite S1. cbn. norm_app. reflexivity.
  Qed.

  Lemma item_ok t task bs : Forall (blk_ok false t) bs -> blk_ok true t (BItem task bs).
  Proof.
    intros H E li k c st [l [Cp Ct]]. cbn [t_block]. unfold nd. rewrite render_unfold.
    set (v := match task with None => Item li | Some c0 => TaskItem (if c0 then Some [x78] else None) end).
    assert (Cc : forall prev i hn, ctx_ok false t (mkCtx (Some v) (c_parent c) prev i hn)).
    { intros. split; [destruct task; reflexivity|]. cbn [c_gparent]. rewrite Cp. exact Ct. }
    destruct (render_list_blocks E li0 v (c_parent c) false t bs k H Cc 0 None st) as (e2 & R2 & S2).
    assert (OUT : forall s, fst (run s e2) = if t then tight_join (r_block E true) (negb s) k bs
                                            else match bs with [] => [] | _ => lead s end ++ List.concat (thread (r_block E false) cnt_b k bs)).
    { intro s. rewrite S2. destruct t.
      - apply seq_out_tight.
      - rewrite (seq_out_loose E false bs s k (wf_not_bare_loose bs)). reflexivity. }
    unfold is_bare. cbn [is_para]. rewrite !andb_false_r.
    destruct task as [[|]|]; subst v.
    - cbn [enter o_tasklist_classes std_opts bind]. rewrite R2. cbn [bind exit_].
      eexists. split; [reflexivity|]. intro lf.
      set (pre := [Open (B "li") []; Void (B "input") [Attr (B "type") [PConst (B "checkbox")]; Attr (B "checked") []; Attr (B "disabled") []]; Lit [x20]]).
      destruct (run (ends_lf true (flat_map ser_ev pre)) e2) as [b2 l2] eqn:R.
      etransitivity; [exact (wrap_run pre e2 [Close (B "li")] lf b2 l2 eq_refl eq_refl R)|].
      pose proof (OUT (ends_lf true (flat_map ser_ev pre))) as O. rewrite R in O. cbn [fst] in O. subst b2.
      change (ends_lf true (flat_map ser_ev pre)) with false.
      destruct t; cbn; norm_app; reflexivity.
    - cbn [enter o_tasklist_classes std_opts bind]. rewrite R2. cbn [bind exit_].
      eexists. split; [reflexivity|]. intro lf.
      set (pre := [Open (B "li") []; Void (B "input") [Attr (B "type") [PConst (B "checkbox")]; Attr (B "disabled") []]; Lit [x20]]).
      destruct (run (ends_lf true (flat_map ser_ev pre)) e2) as [b2 l2] eqn:R.
      etransitivity; [exact (wrap_run pre e2 [Close (B "li")] lf b2 l2 eq_refl eq_refl R)|].
      pose proof (OUT (ends_lf true (flat_map ser_ev pre))) as O. rewrite R in O. cbn [fst] in O. subst b2.
      change (ends_lf true (flat_map ser_ev pre)) with false.
      destruct t; cbn; norm_app; reflexivity.
    - cbn [enter bind]. rewrite R2. cbn [bind exit_].
      eexists. split; [reflexivity|]. intro lf.
      destruct (run (ends_lf true (flat_map ser_ev [Open (B "li") []])) e2) as [b2 l2] eqn:R.
      etransitivity; [exact (wrap_run [Open (B "li") []] e2 [Close (B "li")] lf b2 l2 eq_refl eq_refl R)|].
      pose proof (OUT (ends_lf true (flat_map ser_ev [Open (B "li") []]))) as O. rewrite R in O. cbn [fst] in O. subst b2.
      change (ends_lf true (flat_map ser_ev [Open (B "li") []])) with false.
      destruct t; cbn; norm_app; reflexivity.
  Qed.

  Lemma blk_all : forall b as_item t, wf_b as_item t b = true -> blk_ok as_item t b.
  Proof.
    induction b using block_ind2; intros as_item t0 W; cbn [wf_b] in W;
      try (destruct as_item; [discriminate W|]); cbn [negb andb] in W.
    - apply para_ok. exact W.
    - apply atx_ok.
    - apply setext_ok.
    - apply hr_ok.
    - apply andb_true_iff in W. destruct W as [W1 W2]. apply fence_ok; [exact W1|]. destruct (bytes_eqb c math_info); [discriminate|reflexivity].
    - apply indent_ok.
    - apply quote_ok. rewrite Forall_forall in *. rewrite forallb_forall in W. intros x Hx. exact (H x Hx _ _ (W x Hx)).
    - apply bullet_ok; [|exact W]. rewrite Forall_forall in *. rewrite forallb_forall in W. intros x Hx. exact (H x Hx _ _ (W x Hx)).
    - apply ordered_ok; [|exact W]. rewrite Forall_forall in *. rewrite forallb_forall in W. intros x Hx. exact (H x Hx _ _ (W x Hx)).
    - destruct as_item; [|discriminate W]. cbn [andb] in W.
      apply item_ok. rewrite Forall_forall in *. rewrite forallb_forall in W. intros x Hx. exact (H x Hx _ _ (W x Hx)).
    - apply html_ok. exact W.
    - discriminate W.
    - discriminate W.
  Qed.
End Blk.

(* ------------------------------------------------------------------ documents *)
Lemma wf_no_fn : forall bs, forallb (wf_b false false) bs = true -> filter (fun b => negb (is_fn b)) bs = bs.
Proof.
  induction bs as [|x r IH]; intro H; [reflexivity|]. cbn [forallb] in H. apply andb_true_iff in H. destruct H as [Hx Hr].
  cbn [filter]. rewrite (IH Hr). destruct x; try reflexivity. discriminate Hx.
Qed.

Theorem render_wf_doc slug d : wf_doc d = true -> html slug std_opts (tree_of d) = Ok (ref_html d).
Proof.
  unfold wf_doc. intro H. apply andb_true_iff in H. destruct H as [W NF].
  unfold html, events, tree_of, ref_html, r_fn_section, doc_env. cbn [e_refs].
  destruct (flat_map fr_block (body d)) eqn:FR; [|discriminate NF]. cbn [dedup t_fn_defs map].
  rewrite (wf_no_fn _ W), !app_nil_r. unfold nd. rewrite render_unfold. cbn [enter bind c_parent root_ctx].
  assert (HB : Forall (blk_ok slug false false) (body d)).
  { apply Forall_forall. intros x Hx. apply blk_all. rewrite forallb_forall in W. exact (W x Hx). }
  destruct (render_list_blocks slug (mkEnv (defs d) []) li_none Document None false false (body d) 0 HB
              (fun _ _ _ => conj eq_refl eq_refl) 0 None (mkHst 0 0 [])) as (e2 & R2 & S2).
  rewrite R2. cbn [bind exit_ finish fn_ix]. cbn [bind N.ltb N.compare app]. rewrite !app_nil_r.
  unfold ser. rewrite <- run_ser, S2.
  rewrite (seq_out_loose _ false (body d) true 0 (wf_not_bare_loose (body d))).
  cbn [fst]. destruct (body d); reflexivity.
Qed.
