(* Proofs/ParseCellsWalk.v — C04, the premise of Parse_valid_partial2, part 2: the block phase never puts a line end into
   a TableCell.

   Per-node clause   Cn N i :=  bi_id i < N  /\  (the value of i is TableCell -> its content holds neither CR nor LF)
   State invariant   CI st  :=  every node of ps_root st satisfies Cn (ps_next st)
   carried through every step of Model/Blocks.v (the tree predicate all_info and its preservation by find_node / upd /
   edit_kids are those of Proofs/BlocksPos.v).

   Where the content of a node changes:
     finalize               Paragraph, CodeBlock, HtmlBlock only (the value stays one of these);
     handle_setext_heading  a Paragraph (becomes a Heading);
     add_line               the node found under the identifier: in add_text_to_container that is the current node, tested to
                            be a Paragraph in the same state (lazy continuation); the container when it is a CodeBlock, an
                            HtmlBlock or a value that accepts lines (Paragraph, Heading, CodeBlock); or the identifier add_child
                            has just returned for a Paragraph — identifiers of the tree are below ps_next, so the node found
                            under that identifier IS the new Paragraph (add_child_new_val);
     try_opening_header / try_opening_row   create the cells, with the content `row` cut (ParseCellsRow.row_cells_no_nl)
                            or the empty content (filler cells).
   No step turns the value of an existing node into TableCell.  NO Model file is changed. *)
From Coq Require Import List NArith Arith Bool Lia Strings.String.
From V Require Import Base.Bytes Base.Res Gen.StrLeafGen Gen.FeedConst Gen.Nodes Gen.BlocksConst Model.Ast Model.Strings
  Model.Scan Model.Feed Model.FrontMatter Model.RefDef Model.Blocks Spec.ParseValidSpec
  Proofs.BlocksProofs Proofs.BlocksPos Proofs.ParserShapeTree Proofs.ParseCellsRow.
Import ListNotations.
Local Open Scope string_scope.
Local Open Scope list_scope.

(* ================================================================== the clause and the invariant *)
Definition Cn (N : nat) (i : binfo) : Prop :=
  bi_id i < N /\ (is_cell_v (bi_val i) = true -> no_nl (bi_content i) = true).

Definition CI (st : pstate) : Prop := all_info (Cn (ps_next st)) (ps_root st).

Lemma Cn_mono N N' i : N <= N' -> Cn N i -> Cn N' i.
Proof. intros H [A B]. split; [lia | exact B]. Qed.

Lemma all_Cn_mono N N' t : N <= N' -> all_info (Cn N) t -> all_info (Cn N') t.
Proof. intro H. apply all_info_mono. intro i. now apply Cn_mono. Qed.

Lemma CI_st_next st n : ps_next st <= n -> CI st -> CI (st_next st n).
Proof. unfold CI. cbn [ps_next ps_root st_next]. apply all_Cn_mono. Qed.
Lemma CI_st_current st n : CI st -> CI (st_current st n). Proof. exact (fun H => H). Qed.
Lemma CI_st_refmap st m : CI st -> CI (st_refmap st m). Proof. exact (fun H => H). Qed.
Lemma CI_st_cur st c : CI st -> CI (st_cur st c). Proof. exact (fun H => H). Qed.
Lemma CI_st_curline st a b : CI st -> CI (st_curline st a b). Proof. exact (fun H => H). Qed.
Lemma CI_st_line_number st n : CI st -> CI (st_line_number st n). Proof. exact (fun H => H). Qed.
Lemma CI_st_last_line_length st n : CI st -> CI (st_last_line_length st n). Proof. exact (fun H => H). Qed.

Lemma get_ci_all st id n : CI st -> get st id = Ok n -> all_info (Cn (ps_next st)) n.
Proof. intros A G. apply get_find in G. exact (find_node_all _ _ _ _ A G). Qed.

Lemma get_ci st id n : CI st -> get st id = Ok n -> Cn (ps_next st) (binf n).
Proof. intros P G. apply all_info_binf. eapply get_ci_all; eassumption. Qed.

Lemma modify_ci st id f st' :
  CI st -> modify st id f = Ok st' ->
  (forall n, find_node id (ps_root st) = Some n -> all_info (Cn (ps_next st)) n -> all_info (Cn (ps_next st)) (f n)) ->
  CI st'.
Proof.
  unfold modify, CI. intros A M Hf. destruct (upd id f (ps_root st)) as [r|] eqn:U; [|discriminate].
  inversion M; subst. cbn [ps_next ps_root st_root]. exact (upd_all _ _ _ _ _ A U Hf).
Qed.

Lemma modify_next st id f st' : modify st id f = Ok st' -> ps_next st' = ps_next st.
Proof. unfold modify. destruct (upd id f (ps_root st)); intro M; inversion M; reflexivity. Qed.

(* a change of the info that keeps the clause *)
Definition keepsC (f : binfo -> binfo) : Prop := forall N i, Cn N i -> Cn N (f i).

Lemma modify_info_ci st id f st' : modify_info st id f = Ok st' -> keepsC f -> CI st -> CI st'.
Proof.
  intros M Hf P. eapply modify_ci; [exact P | exact M |].
  intros n _ An. destruct n as [i ch]. cbn [on_info]. apply all_info_node in An. apply all_info_node.
  split; [apply Hf; apply An | apply An].
Qed.

Lemma modify_info_const_ci st id n i' st' :
  modify_info st id (fun _ => i') = Ok st' -> get st id = Ok n ->
  (Cn (ps_next st) (binf n) -> Cn (ps_next st) i') -> CI st -> CI st'.
Proof.
  intros M G Hf P. eapply modify_ci; [exact P | exact M |].
  intros m Fm Am. apply get_find in G. rewrite G in Fm. inversion Fm; subst m.
  destruct n as [i ch]. cbn [on_info binf] in *. apply all_info_node in Am. apply all_info_node.
  split; [apply Hf; apply Am | apply Am].
Qed.

Lemma edit_root_ci st id g r :
  edit_kids id g (ps_root st) = Some r -> CI st ->
  (forall pk pre c post, Forall (all_info (Cn (ps_next st))) (pre ++ c :: post) ->
                         Forall (all_info (Cn (ps_next st))) (g pk pre c post)) ->
  CI (st_root st r).
Proof. intros E A Hg. unfold CI. cbn [ps_next ps_root st_root]. eapply edit_kids_all; eassumption. Qed.

Lemma bdetach_ci st id st' : bdetach st id = Ok st' -> CI st -> CI st'.
Proof.
  unfold bdetach. intros D P.
  destruct (edit_kids id (fun _ pre _ post => pre ++ post) (ps_root st)) as [r|] eqn:E.
  - inversion D; subst. eapply edit_root_ci; [exact E | exact P |].
    intros pk pre c post K. apply Forall_app in K. destruct K as [K1 K2]. inversion K2; subst.
    apply Forall_app. split; assumption.
  - now inversion D; subst.
Qed.

Lemma bdetach_next st id st' : bdetach st id = Ok st' -> ps_next st' = ps_next st.
Proof.
  unfold bdetach. destruct (edit_kids id (fun _ pre _ post => pre ++ post) (ps_root st)); intro D; inversion D; reflexivity.
Qed.

Lemma append_child_ci st pid c st' :
  append_child st pid c = Ok st' -> all_info (Cn (ps_next st)) c -> CI st -> CI st'.
Proof.
  intros A Ac P. eapply modify_ci; [exact P | exact A |].
  intros n _ An. destruct n as [i ch]. apply all_info_node in An. apply all_info_node. split; [apply An|].
  apply Forall_app. split; [apply An|]. constructor; [exact Ac | constructor].
Qed.

(* side conditions `keepsC setter` *)
Ltac keepsC_side :=
  let N := fresh "N" in let i := fresh "i" in let A := fresh "A" in let B := fresh "B" in
  intros N i [A B]; destruct i; unfold Cn in *; cbn in *; (split; [exact A | first [exact B | intro; discriminate]]).

Create HintDb ci.
#[export] Hint Resolve CI_st_current CI_st_refmap CI_st_cur CI_st_curline CI_st_line_number CI_st_last_line_length
  bdetach_ci modify_info_ci : ci.
#[export] Hint Extern 1 (keepsC _) => keepsC_side : ci.

Ltac cigo H := mon H; monall; repeat match goal with p : (_ * _)%type |- _ => destruct p end; cbn [fst snd] in *; eauto 20 with ci.

Lemma adv_ci st line n b st' : adv st line n b = Ok st' -> CI st -> CI st'.
Proof. unfold adv. intros H P. mon H. exact P. Qed.
Lemma ffn_ci st line st' : ffn st line = Ok st' -> CI st -> CI st'.
Proof. unfold ffn. intros H P. mon H. exact P. Qed.
#[export] Hint Resolve adv_ci ffn_ci : ci.

Lemma adv_root st line n b st' : adv st line n b = Ok st' -> ps_root st' = ps_root st /\ ps_next st' = ps_next st.
Proof. unfold adv. intros H. mon H. split; reflexivity. Qed.

(* ================================================================== finalize *)
Lemma retighten_ci st p st' : retighten st p = Ok st' -> CI st -> CI st'.
Proof. unfold retighten. intros H P. cigo H. Qed.
#[export] Hint Resolve retighten_ci : ci.

Lemma retighten_nx st p st' : retighten st p = Ok st' -> ps_next st' = ps_next st.
Proof.
  unfold retighten. intros H. mon H; try reflexivity. unfold modify_info in H. exact (modify_next _ _ _ _ H).
Qed.

Lemma finalize_ci o st id p st' : finalize o st id = Ok (p, st') -> CI st -> CI st'.
Proof.
  intros F P. unfold finalize in F.
  mstep F. pose proof (get_ci _ _ _ P E) as Pa.
  mstep F; [discriminate F|].
  match type of F with bind ?e _ = _ => destruct e as [ends| |] eqn:Ee; cbn [bind] in F; try discriminate F end.
  clear Ee.
  destruct (bi_val (binf a)) eqn:Ev; mon F;
  repeat first [ apply CI_st_refmap
               | (eapply retighten_ci; [eassumption|])
               | (eapply bdetach_ci; [eassumption|])
               | (eapply modify_info_const_ci; [eassumption | exact E | | exact P];
                  destruct a as [ia cha]; destruct ia; unfold Cn; cbn in *; subst;
                  let A := fresh "A" in let B := fresh "B" in
                  intros [A B]; (split; [exact A | first [exact B | intro; discriminate]])) ].
Qed.
#[export] Hint Resolve finalize_ci : ci.

Lemma finalize_next o st id p st' : finalize o st id = Ok (p, st') -> ps_next st' = ps_next st.
Proof.
  intros F. unfold finalize in F.
  mstep F. mstep F; [discriminate F|].
  match type of F with bind ?e _ = _ => destruct e as [ends| |] eqn:Ee; cbn [bind] in F; try discriminate F end.
  clear Ee.
  destruct (bi_val (binf a)) eqn:Ev; mon F; unfold modify_info in *;
  repeat match goal with
         | M : modify _ _ _ = Ok _ |- _ => apply modify_next in M
         | M : bdetach _ _ = Ok _ |- _ => apply bdetach_next in M
         | M : retighten _ _ = Ok _ |- _ => apply retighten_nx in M
         end; cbn [ps_next st_refmap] in *; congruence.
Qed.

Lemma unwrap_parent_fin_ci site o st id p st' :
  unwrap_parent site (finalize o st id) = Ok (p, st') -> CI st -> CI st'.
Proof.
  unfold unwrap_parent. intros H P.
  destruct (finalize o st id) as [[op s1]| |] eqn:E; cbn [bind fst snd] in H; try discriminate H.
  destruct op; inversion H; subst. eapply finalize_ci; eassumption.
Qed.
#[export] Hint Resolve unwrap_parent_fin_ci : ci.

Lemma unwrap_parent_fin_next site o st id p st' :
  unwrap_parent site (finalize o st id) = Ok (p, st') -> ps_next st' = ps_next st.
Proof.
  unfold unwrap_parent. intros H.
  destruct (finalize o st id) as [[op s1]| |] eqn:E; cbn [bind fst snd] in H; try discriminate H.
  destruct op; inversion H; subst. eapply finalize_next; eassumption.
Qed.

(* ================================================================== add_child *)
Lemma add_child_loop_ci o k : forall fuel st parent p' st',
  add_child_loop fuel o st parent k = Ok (p', st') -> CI st -> CI st' /\ ps_next st' = ps_next st.
Proof.
  induction fuel as [|f IH]; intros st parent p' st' H P; [discriminate|].
  cbn [add_child_loop] in H.
  destruct (get st parent) as [pn| |] eqn:G; cbn [bind] in H; try discriminate H.
  destruct (can_contain (bkind pn) k).
  - inversion H; subst. split; [exact P | reflexivity].
  - match type of H with bind ?r _ = _ => destruct r as [[q s1]| |] eqn:U; cbn [bind fst snd] in H; try discriminate H end.
    destruct (IH _ _ _ _ H) as [A B]; [eapply unwrap_parent_fin_ci; eassumption|].
    split; [exact A|]. rewrite B. eapply unwrap_parent_fin_next; eassumption.
Qed.

Lemma Cn_new N id v l c : id < N -> Cn N (new_info id v l c).
Proof. intro H. split; [exact H|]. intros _. reflexivity. Qed.

(* `post` keeps the clause of the new node; the kids satisfy it at the identifier bound of the state the call starts from *)
Lemma add_child_gen_ci o st parent v col post kids id st' :
  add_child_gen o st parent v col post kids = Ok (id, st') ->
  (forall N i, bi_val i = v -> bi_content i = [] -> Cn N i -> Cn N (post i)) ->
  Forall (all_info (Cn (ps_next st))) kids ->
  CI st -> CI st' /\ ps_next st' = S (ps_next st) /\ id = ps_next st.
Proof.
  unfold add_child_gen. intros H Hp Hk P.
  match type of H with bind ?r _ = _ => destruct r as [[p' s1]| |] eqn:E; cbn [bind] in H; try discriminate H end.
  destruct (add_child_loop_ci _ _ _ _ _ _ _ E P) as [P1 N1].
  mon H. split; [|split; [|exact N1]].
  - eapply append_child_ci; [eassumption | | apply CI_st_next; [lia | exact P1]].
    cbn [ps_next st_next]. apply all_info_node. split.
    + apply Hp; [reflexivity | reflexivity | apply Cn_new; lia].
    + eapply Forall_impl; [|exact Hk]. intros k. apply all_Cn_mono. lia.
  - unfold append_child in E1. apply modify_next in E1. rewrite E1. cbn [ps_next st_next]. now rewrite N1.
Qed.

Lemma add_child_ci o st parent v col id st' :
  add_child o st parent v col = Ok (id, st') -> CI st -> CI st'.
Proof.
  unfold add_child. intros H P. eapply add_child_gen_ci; [exact H | auto | constructor | exact P].
Qed.
#[export] Hint Resolve add_child_ci : ci.

Lemma add_child_next o st parent v col id st' :
  add_child o st parent v col = Ok (id, st') -> CI st -> ps_next st' = S (ps_next st).
Proof.
  unfold add_child. intros H P. eapply add_child_gen_ci; [exact H | auto | constructor | exact P].
Qed.

(* the node found under the identifier add_child returns is the node it made *)
Lemma add_child_new_val o st parent v col id st' :
  add_child o st parent v col = Ok (id, st') -> CI st ->
  forall n, find_node id (ps_root st') = Some n -> bval n = v.
Proof.
  unfold add_child, add_child_gen. intros H P.
  match type of H with bind ?r _ = _ => destruct r as [[p' s1]| |] eqn:E; cbn [bind] in H; try discriminate H end.
  destruct (add_child_loop_ci _ _ _ _ _ _ _ E P) as [P1 N1].
  mon H. unfold append_child, modify in E1.
  match type of E1 with match ?u with _ => _ end = _ => destruct u as [r|] eqn:U; [|discriminate E1] end.
  inversion E1; subst. clear E1. cbn [ps_root st_root]. cbn [ps_root st_next] in U.
  assert (A : all_info (fun i => bi_id i = ps_next s1 -> bi_val i = v) r).
  { eapply upd_all; [| exact U |].
    - eapply all_info_mono; [|exact P1]. intros i [Hi _] Hi2. lia.
    - intros n _ An. destruct n as [i ch]. apply all_info_node in An. apply all_info_node. split; [apply An|].
      apply Forall_app. split; [apply An|]. constructor; [|constructor]. apply all_info_node. split; [|constructor].
      intros _. reflexivity. }
  intros n Fn. pose proof (find_node_all _ _ _ _ A Fn) as An. apply all_info_binf in An.
  apply find_node_sub in Fn. destruct Fn as [Fn _]. exact (An Fn).
Qed.

(* ================================================================== check_open_blocks *)
Lemma skip_one_space_ci st line site st' : skip_one_space st line site = Ok st' -> CI st -> CI st'.
Proof. unfold skip_one_space. intros H P. cigo H. Qed.
#[export] Hint Resolve skip_one_space_ci : ci.

Lemma parse_block_quote_prefix_ci o st line b st' : parse_block_quote_prefix o st line = Ok (b, st') -> CI st -> CI st'.
Proof. unfold parse_block_quote_prefix. intros H P. cigo H. Qed.
#[export] Hint Resolve parse_block_quote_prefix_ci : ci.

Lemma parse_footnote_prefix_ci st line b st' : parse_footnote_definition_block_prefix st line = Ok (b, st') -> CI st -> CI st'.
Proof. unfold parse_footnote_definition_block_prefix. intros H P. cigo H. Qed.
#[export] Hint Resolve parse_footnote_prefix_ci : ci.

Lemma parse_item_prefix_ci st line c mo pad b st' : parse_item_prefix st line c mo pad = Ok (b, st') -> CI st -> CI st'.
Proof. unfold parse_item_prefix. intros H P. cigo H. Qed.
#[export] Hint Resolve parse_item_prefix_ci : ci.

Lemma skip_fence_offset_ci line site : forall i st st', skip_fence_offset i st line site = Ok st' -> CI st -> CI st'.
Proof. induction i as [|j IH]; intros st st' H P; cbn [skip_fence_offset] in H; cigo H. Qed.
#[export] Hint Resolve skip_fence_offset_ci : ci.

Lemma parse_code_block_prefix_ci o st line c cb a b st' :
  parse_code_block_prefix o st line c cb = Ok (a, b, st') -> CI st -> CI st'.
Proof. unfold parse_code_block_prefix. intros H P. cigo H. Qed.
#[export] Hint Resolve parse_code_block_prefix_ci : ci.

Lemma parse_mbq_prefix_ci o st line c fl fo a b st' :
  parse_multiline_block_quote_prefix o st line c fl fo = Ok (a, b, st') -> CI st -> CI st'.
Proof. unfold parse_multiline_block_quote_prefix. intros H P. cigo H. Qed.
#[export] Hint Resolve parse_mbq_prefix_ci : ci.

Lemma check_container_ci o st line c a b st' : check_container o st line c = Ok (a, b, st') -> CI st -> CI st'.
Proof. unfold check_container. intros H P. destruct (bval c); cigo H. Qed.
#[export] Hint Resolve check_container_ci : ci.

Lemma check_open_blocks_inner_ci o line : forall fuel st container a c b st',
  check_open_blocks_inner fuel o st line container = Ok (a, c, b, st') -> CI st -> CI st'.
Proof. induction fuel as [|f IH]; intros st container a c b st' H P; cbn [check_open_blocks_inner] in H; cigo H. Qed.
#[export] Hint Resolve check_open_blocks_inner_ci : ci.

Lemma check_open_blocks_ci o st line r st' : check_open_blocks o st line = Ok (r, st') -> CI st -> CI st'.
Proof. unfold check_open_blocks. intros H P. cigo H. Qed.
#[export] Hint Resolve check_open_blocks_ci : ci.

(* ================================================================== tables *)
Lemma try_inserting_ci st c po st' :
  try_inserting_table_header_paragraph st c po = Ok st' -> CI st -> CI st' /\ ps_next st <= ps_next st'.
Proof.
  unfold try_inserting_table_header_paragraph. intros H P.
  mon H; monall; try (split; [exact P | lia]).
  match goal with M : modify_info _ _ _ = Ok ?s |- _ =>
    assert (P1 : CI s) by (eapply modify_info_ci; [exact M | keepsC_side | apply CI_st_next; [lia | exact P]]);
    assert (N1 : ps_next s = S (ps_next st)) by (unfold modify_info in M; apply modify_next in M; exact M)
  end.
  split; [|cbn [ps_next st_root]; lia].
  eapply edit_root_ci; [eassumption | exact P1 |].
  intros pk pre x post K. cbv beta. destruct (can_contain pk KParagraph); [|exact K].
  apply Forall_app in K. destruct K as [K1 K2]. apply Forall_app. split; [exact K1|].
  cbn [app]. constructor; [|exact K2]. apply all_info_node. split; [|constructor].
  rewrite N1. split; cbn; [lia | intro; discriminate].
Qed.

Lemma header_cells_ci : forall cells id ln sl sc po l,
  header_cells cells id ln sl sc po = Ok l -> cells_no_nl cells ->
  Forall (all_info (Cn (id + List.length cells))) l.
Proof.
  induction cells as [|c r IH]; intros id ln sl sc po l H C; cbn [header_cells] in H.
  - inversion H. constructor.
  - inversion C as [|? ? C1 C2]; subst. mon H. constructor.
    + apply all_info_node. split; [|constructor]. split; cbn; [lia | intros _; exact C1].
    + cbn [List.length]. replace (id + S (List.length r)) with (S id + List.length r) by lia.
      eapply IH; eassumption.
Qed.

Lemma try_opening_header_ci o st c line r st' :
  try_opening_header o st c line = Ok (r, st') -> CI st -> CI st'.
Proof.
  unfold try_opening_header. intros H P.
  destruct (get st c) as [cn0| |] eqn:G0; cbn [bind] in H; try discriminate H.
  destruct (bi_tv (binf cn0)); [inversion H; subst; exact P|].
  destruct (slice_from _ line (fns st)) as [rest| |]; cbn [bind] in H; try discriminate H.
  destruct (scan_table_start rest); [|inversion H; subst; exact P].
  destruct (row rest (bo_spoiler o)) as [[[dpo dcells]|]| |] eqn:Rd; cbn [bind] in H; try discriminate H;
    [|inversion H; subst; exact P].
  destruct (row (bi_content (binf cn0)) (bo_spoiler o)) as [[[po hcells]|]| |] eqn:Rh; cbn [bind] in H; try discriminate H;
    [|inversion H; subst; exact P].
  pose proof (row_cells_no_nl _ _ _ _ Rh) as Ch.
  mstep H; [inversion H; subst; exact P|].
  match type of H with bind ?e _ = _ => destruct e as [s1| |] eqn:Ins; cbn [bind] in H; try discriminate H end.
  assert (P1 : CI s1 /\ ps_next st <= ps_next s1).
  { destruct (Nat.ltb 0 po); [eapply try_inserting_ci; eassumption | inversion Ins; subst; split; [exact P | lia]]. }
  destruct P1 as [P1 _]. clear Ins.
  mon H; monall.
  match goal with A : adv _ _ _ _ = Ok ?s |- _ => apply adv_root in A; destruct A as [A1 A2] end.
  cbn [ps_root ps_next st_next] in A1, A2.
  unfold CI. cbn [ps_next ps_root st_root]. rewrite A2.
  eapply edit_kids_all; [| eassumption |].
  - rewrite A1. eapply all_Cn_mono; [|exact P1]. lia.
  - intros pk pre x post K. cbv beta. destruct (is_paragraph x); [|exact K].
    apply Forall_app in K. destruct K as [K1 K2]. inversion K2; subst.
    apply Forall_app. split; [exact K1|]. cbn [app]. constructor; [|assumption].
    apply all_info_node. split; [split; cbn; [lia | intro; discriminate]|].
    constructor; [|constructor]. apply all_info_node. split; [split; cbn; [lia | intro; discriminate]|].
    match goal with Hc : header_cells _ _ _ _ _ _ = Ok _ |- _ => pose proof (header_cells_ci _ _ _ _ _ _ _ Hc Ch) as F end.
    eapply Forall_impl; [|exact F]. intros k. apply all_Cn_mono. lia.
Qed.

Lemma row_cells_ci : forall n cells id ln sc lc l lc',
  row_cells n cells id ln sc lc = Ok (l, lc') -> cells_no_nl cells -> Forall (all_info (Cn (id + n))) l.
Proof.
  induction n as [|m IH]; intros cells id ln sc lc l lc' H C; cbn [row_cells] in H.
  - destruct cells; inversion H; subst; constructor.
  - destruct cells as [|c r]; [inversion H; subst; constructor|].
    inversion C as [|? ? C1 C2]; subst.
    mon H. repeat match goal with p : (_ * _)%type |- _ => destruct p end. cbn [fst snd] in *.
    constructor.
    + apply all_info_node. split; [|constructor]. split; cbn; [lia | intros _; exact C1].
    + replace (id + S m) with (S id + m) by lia. eapply IH; eassumption.
Qed.

Lemma filler_cells_ci : forall n id ln lc, Forall (all_info (Cn (id + n))) (filler_cells n id ln lc).
Proof.
  induction n as [|m IH]; intros id ln lc; cbn [filler_cells]; constructor.
  - apply all_info_node. split; [|constructor]. apply Cn_new. lia.
  - replace (id + S m) with (S id + m) by lia. apply IH.
Qed.

Lemma try_opening_row_ci o st c t line r st' :
  try_opening_row o st c t line = Ok (r, st') -> CI st -> CI st'.
Proof.
  unfold try_opening_row. intros H P.
  destruct (blank st); [inversion H; subst; exact P|].
  destruct (max_autocompleted_cells <? num_autocompleted_cells t)%N; [inversion H; subst; exact P|].
  destruct (get st c) as [cn| |] eqn:G; cbn [bind] in H; try discriminate H.
  destruct (slice_from _ line (fns st)) as [rest| |]; cbn [bind] in H; try discriminate H.
  destruct (row rest (bo_spoiler o)) as [[[rpo cells]|]| |] eqn:Rr; cbn [bind] in H; try discriminate H;
    [|inversion H; subst; exact P].
  pose proof (row_cells_no_nl _ _ _ _ Rr) as Cr.
  mon H; monall.
  match goal with M : modify _ _ _ = Ok ?s |- _ => assert (P1 : CI s) end.
  { match goal with M : modify ?s0 _ _ = Ok _ |- _ => eapply (modify_ci s0); [apply CI_st_next; [|exact P]; lia | exact M |] end.
    cbn [ps_next ps_root st_next].
    intros nn _ An. destruct nn as [i ch]. apply all_info_node in An. destruct An as [Ai Ak].
    apply all_info_node. split.
    - destruct Ai as [A B]. destruct i. split; cbn in *; [exact A | intro; discriminate].
    - apply Forall_app. split; [exact Ak|]. constructor; [|constructor].
      apply all_info_node. split; [split; cbn; [lia | intro; discriminate]|].
      apply Forall_app. split.
      + match goal with R : row_cells _ _ _ _ _ _ = Ok _ |- _ => pose proof (row_cells_ci _ _ _ _ _ _ _ _ R Cr) as F end.
        eapply Forall_impl; [|exact F]. intros k. apply all_Cn_mono. lia.
      + eapply Forall_impl; [|apply filler_cells_ci]. intros k. apply all_Cn_mono. lia. }
  eauto with ci.
Qed.

Lemma try_opening_block_ci o st c line r st' :
  try_opening_block o st c line = Ok (r, st') -> CI st -> CI st'.
Proof.
  unfold try_opening_block. intros H P.
  destruct (get st c) as [cn| |] eqn:G; cbn [bind] in H; try discriminate H.
  destruct (bval cn) eqn:Bv; try (inversion H; subst; exact P).
  - eapply try_opening_header_ci; eassumption.
  - eapply try_opening_row_ci; eassumption.
Qed.

(* ================================================================== description lists *)
Lemma reopen_ci : forall fuel st id st', reopen_ast_nodes fuel st id = Ok st' -> CI st -> CI st' /\ ps_next st' = ps_next st.
Proof.
  induction fuel as [|f IH]; intros st id st' H P; cbn [reopen_ast_nodes] in H; [discriminate|].
  destruct (modify_info st id (set_open true)) as [s1| |] eqn:M; cbn [bind] in H; try discriminate H.
  assert (P1 : CI s1) by eauto with ci.
  assert (N1 : ps_next s1 = ps_next st) by (unfold modify_info in M; exact (modify_next _ _ _ _ M)).
  destruct (parent_of id (ps_root s1)).
  - destruct (IH _ _ _ H P1) as [A B]. split; [exact A | congruence].
  - inversion H; subst. split; assumption.
Qed.

Lemma modify_info_next st id f st' : modify_info st id f = Ok st' -> ps_next st' = ps_next st.
Proof. unfold modify_info. apply modify_next. Qed.

Lemma parse_desc_list_details_ci o st c m b c' st' :
  parse_desc_list_details o st c m = Ok (b, c', st') -> CI st -> CI st'.
Proof.
  unfold parse_desc_list_details. intros H P.
  destruct (get st c) as [cn| |] eqn:G; cbn [bind] in H; try discriminate H.
  match type of H with bind ?r _ = _ => destruct r as [[[[tight c1] lc]|]| |] eqn:R; cbn [bind] in H; try discriminate H end;
    [|inversion H; subst; exact P].
  assert (Alc : all_info (Cn (ps_next st)) lc).
  { pose proof (get_ci_all _ _ _ P G) as Ac.
    destruct (last_opt (bkids cn)) eqn:Lk.
    - inversion R; subst. eapply last_kid_all; eassumption.
    - mon R. eapply last_kid_all; [eapply get_ci_all; [exact P | eassumption] | eassumption]. }
  clear R.
  destruct (bval lc) eqn:Bl; try (inversion H; subst; exact P).
  - (* DescriptionItem *) cigo H.
  - (* Paragraph *)
    destruct (bdetach st (bid lc)) as [s1| |] eqn:D; cbn [bind] in H; try discriminate H.
    assert (P1 : CI s1) by eauto with ci. pose proof (bdetach_next _ _ _ D) as N1.
    destruct (get s1 c1) as [cn1| |] eqn:G1; cbn [bind] in H; try discriminate H.
    match type of H with bind ?r _ = _ => destruct r as [[list s2]| |] eqn:R; cbn [bind] in H; try discriminate H end.
    assert (P2 : CI s2 /\ ps_next s1 <= ps_next s2).
    { assert (AC : forall a, add_child o s1 c1 DescriptionList (S (fns st)) = Ok a ->
                   forall s, modify_info (snd a) (fst a) (set_start (bi_sl (binf lc)) (bi_sc (binf lc))) = Ok s ->
                   CI s /\ ps_next s1 <= ps_next s).
      { intros [a1 a2] A s M. cbn [fst snd] in M. pose proof (add_child_next _ _ _ _ _ _ _ A P1) as Na.
        split; [eauto with ci|]. rewrite (modify_info_next _ _ _ _ M). lia. }
      destruct (last_opt (bkids cn1)) as [l2|].
      - destruct (bval l2); try (mon R; eapply AC; [reflexivity | eassumption]).
        mon R. match goal with Q : reopen_ast_nodes _ _ _ = Ok _ |- _ => destruct (reopen_ci _ _ _ _ Q P1) as [A B] end.
        split; [exact A | lia].
      - mon R; eapply AC; [reflexivity | eassumption]. }
    destruct P2 as [P2 N2]. clear R.
    match type of H with bind ?r _ = _ => destruct r as [[item s3]| |] eqn:A3; cbn [bind] in H; try discriminate H end.
    pose proof (add_child_ci _ _ _ _ _ _ _ A3 P2) as P3. pose proof (add_child_next _ _ _ _ _ _ _ A3 P2) as N3.
    destruct (modify_info s3 item (set_start (bi_sl (binf lc)) (bi_sc (binf lc)))) as [s4| |] eqn:M4; cbn [bind] in H; try discriminate H.
    assert (P4 : CI s4) by eauto with ci. pose proof (modify_info_next _ _ _ _ M4) as N4.
    match type of H with bind ?r _ = _ => destruct r as [[term s5]| |] eqn:A5; cbn [bind] in H; try discriminate H end.
    assert (P5 : CI s5).
    { eapply add_child_gen_ci; [exact A5 | auto | | exact P4].
      constructor; [|constructor]. eapply all_Cn_mono; [|exact Alc]. lia. }
    cigo H.
Qed.

(* ================================================================== the handlers of open_new_blocks *)
Section handlers.
Variable o : bopts.

Lemma handle_alert_ci st c line ind b c' st' : handle_alert o st c line ind = Ok (b, c', st') -> CI st -> CI st'.
Proof. unfold handle_alert. intros H P. cigo H. Qed.
Lemma handle_mbq_ci st c line ind b c' st' : handle_multiline_blockquote o st c line ind = Ok (b, c', st') -> CI st -> CI st'.
Proof. unfold handle_multiline_blockquote, rest_at_fns. intros H P. cigo H. Qed.
Lemma handle_blockquote_ci st c line ind b c' st' : handle_blockquote o st c line ind = Ok (b, c', st') -> CI st -> CI st'.
Proof. unfold handle_blockquote. intros H P. cigo H. Qed.
Lemma handle_atx_ci st c line ind b c' st' : handle_atx_heading o st c line ind = Ok (b, c', st') -> CI st -> CI st'.
Proof.
  unfold handle_atx_heading, rest_at_fns. intros H P. mon H; monall; repeat match goal with p : (_ * _)%type |- _ => destruct p end; cbn [fst snd] in *; eauto with ci.
  eapply add_child_gen_ci; [eassumption | | constructor | eauto with ci].
  intros N i Ev _ [A B]. destruct i. split; cbn in *; [exact A | intro; discriminate].
Qed.
Lemma handle_code_fence_ci st c line ind b c' st' : handle_code_fence o st c line ind = Ok (b, c', st') -> CI st -> CI st'.
Proof. unfold handle_code_fence, rest_at_fns. intros H P. cigo H. Qed.
Lemma handle_html_block_ci st c line ind b c' st' : handle_html_block o st c line ind = Ok (b, c', st') -> CI st -> CI st'.
Proof. unfold handle_html_block, rest_at_fns. intros H P. cigo H. Qed.
Lemma handle_footnote_ci st c line ind d b c' st' : handle_footnote o st c line ind d = Ok (b, c', st') -> CI st -> CI st'.
Proof. unfold handle_footnote, rest_at_fns. intros H P. cigo H. Qed.
Lemma list_spaces_loop_ci line sc : forall fuel st st', list_spaces_loop fuel st line sc = Ok st' -> CI st -> CI st'.
Proof. induction fuel as [|f IH]; intros st st' H P; cbn [list_spaces_loop] in H; cigo H. Qed.
Hint Resolve list_spaces_loop_ci : ci.
Lemma handle_list_ci st c line ind d b c' st' : handle_list o st c line ind d = Ok (b, c', st') -> CI st -> CI st'.
Proof. unfold handle_list. intros H P. cigo H. Qed.
Lemma handle_code_block_ci st c line ind ml b c' st' : handle_code_block o st c line ind ml = Ok (b, c', st') -> CI st -> CI st'.
Proof. unfold handle_code_block. intros H P. cigo H. Qed.

Lemma handle_setext_ci st c line ind b c' st' : handle_setext_heading o st c line ind = Ok (b, c', st') -> CI st -> CI st'.
Proof.
  unfold handle_setext_heading, rest_at_fns. intros H P.
  mstep H; [inversion H; subst; exact P|].
  destruct (get st c) as [cn| |] eqn:G; cbn [bind] in H; try discriminate H.
  destruct (is_paragraph cn) eqn:Pa; cbn [negb] in H; [|inversion H; subst; exact P].
  apply is_paragraph_val in Pa.
  mon H; monall; repeat match goal with p : (_ * _)%type |- _ => destruct p end; cbn [fst snd] in *; eauto 10 with ci;
  match goal with M1 : modify_info (st_refmap st _) _ _ = Ok ?s1 |- _ => assert (P1 : CI s1) end;
  try (eapply modify_ci; [apply CI_st_refmap; exact P | eassumption |];
       intros nn Fn An; cbn [ps_root st_refmap] in Fn; rewrite (get_find _ _ _ G) in Fn; inversion Fn; subst nn;
       destruct cn as [i ch]; unfold bval in Pa; cbn [binf on_info] in *; apply all_info_node in An; apply all_info_node;
       (split; [|apply An]); destruct An as [[Ai Bi] _]; destruct i; cbn in *; subst; split; cbn; [exact Ai | intro; discriminate]);
  eauto 10 with ci.
Qed.

Lemma handle_thematic_break_ci st c line ind am b c' st' :
  handle_thematic_break o st c line ind am = Ok (b, c', st') -> CI st -> CI st'.
Proof. unfold handle_thematic_break. intros H P. cigo H. Qed.

Lemma handle_description_list_ci st c line ind b c' st' :
  handle_description_list o st c line ind = Ok (b, c', st') -> CI st -> CI st'.
Proof.
  unfold handle_description_list, rest_at_fns. intros H P.
  mon H; monall; repeat match goal with p : (_ * _)%type |- _ => destruct p end; cbn [fst snd] in *; try exact P;
  match goal with D : parse_desc_list_details _ _ _ _ = Ok (_, _, ?s) |- _ =>
    assert (CI s) by (eapply parse_desc_list_details_ci; eassumption) end; eauto with ci.
Qed.

Hint Resolve handle_alert_ci handle_mbq_ci handle_blockquote_ci handle_atx_ci handle_code_fence_ci
  handle_html_block_ci handle_setext_ci handle_thematic_break_ci handle_footnote_ci
  handle_description_list_ci handle_list_ci handle_code_block_ci : ci.

Lemma or_else_h_ci (r : hres) k b c st st' :
  or_else_h r k = Ok (b, c, st') -> CI st ->
  (forall b1 c1 s1, r = Ok (b1, c1, s1) -> CI st -> CI s1) ->
  (forall c1 s1 b2 c2 s2, k c1 s1 = Ok (b2, c2, s2) -> CI s1 -> CI s2) ->
  CI st'.
Proof.
  unfold or_else_h. intros H P Hr Hk.
  destruct r as [[[b1 c1] s1]| |]; cbn [bind] in H; try discriminate H.
  destruct b1.
  - inversion H; subst. eapply Hr; [reflexivity | exact P].
  - eapply Hk; [exact H|]. eapply Hr; [reflexivity | exact P].
Qed.

Ltac chain_c :=
  match goal with
  | R : or_else_h _ _ = Ok _ |- CI _ =>
    eapply (or_else_h_ci _ _ _ _ _ _ R); clear R;
    [ eassumption | intros ? ? ? ? ?; eauto with ci | intros ? ? ? ? ? R ?; cbv beta in R; chain_c ]
  | |- CI _ => eauto with ci
  end.

Lemma open_new_blocks_step_ci st c line am ml d g c' st' :
  open_new_blocks_step o st c line am ml d = Ok (g, c', st') -> CI st -> CI st'.
Proof.
  unfold open_new_blocks_step. intros H P.
  destruct (ffn st line) as [s0| |] eqn:F0; cbn [bind] in H; try discriminate H.
  assert (P0 : CI s0) by eauto with ci.
  match type of H with bind ?r _ = _ => destruct r as [[[hd c1] s1]| |] eqn:R; cbn [bind] in H; try discriminate H end.
  assert (P1 : CI s1) by chain_c.
  clear R.
  destruct hd.
  - cigo H.
  - destruct (negb (Nat.leb code_indent (indent s0)) && bo_table o) eqn:Tb.
    + destruct (try_opening_block o s1 c1 line) as [[tr s2]| |] eqn:TO; cbn [bind] in H; try discriminate H.
      assert (P2 : CI s2) by (eapply try_opening_block_ci; eassumption).
      destruct tr; cigo H.
    + cigo H.
Qed.
Hint Resolve open_new_blocks_step_ci : ci.

Lemma open_new_blocks_loop_ci line am : forall fuel st c ml d c' st',
  open_new_blocks_loop fuel o st c line am ml d = Ok (c', st') -> CI st -> CI st'.
Proof. induction fuel as [|f IH]; intros st c ml d c' st' H P; cbn [open_new_blocks_loop] in H; cigo H. Qed.
Hint Resolve open_new_blocks_loop_ci : ci.

Lemma open_new_blocks_ci st c line am c' st' : open_new_blocks o st c line am = Ok (c', st') -> CI st -> CI st'.
Proof. unfold open_new_blocks. intros H P. cigo H. Qed.

Lemma clear_llb_up_ci : forall fuel st id st', clear_llb_up fuel st id = Ok st' -> CI st -> CI st'.
Proof. induction fuel as [|f IH]; intros st id st' H P; cbn [clear_llb_up] in H; cigo H. Qed.

Lemma finalize_up_to_ci target site : forall fuel st st', finalize_up_to fuel o st target site = Ok st' -> CI st -> CI st'.
Proof. induction fuel as [|f IH]; intros st st' H P; cbn [finalize_up_to] in H; cigo H. Qed.
Hint Resolve open_new_blocks_ci clear_llb_up_ci finalize_up_to_ci : ci.

(* add_line on a node that is not a TableCell *)
Lemma add_line_ci st id line st' :
  add_line st id line = Ok st' ->
  (forall n, find_node id (ps_root st) = Some n -> is_cell_v (bval n) = false) ->
  CI st -> CI st'.
Proof.
  unfold add_line. intros H Hn P.
  destruct (get st id) as [n| |] eqn:G; cbn [bind] in H; try discriminate H.
  pose proof (Hn _ (get_find _ _ _ G)) as Nc.
  mon H; monall; apply CI_st_cur;
  (eapply modify_info_const_ci; [eassumption | exact G | | exact P]);
  destruct n as [i ch]; destruct i; unfold bval in Nc; cbn in *;
  intros [A B]; (split; cbn; [exact A | rewrite Nc; intro; discriminate]).
Qed.

Lemma not_cell_accepts v : accepts_lines (kind_of v) = true -> is_cell_v v = false.
Proof. destruct v; try reflexivity. discriminate. Qed.

Ltac atc_tac o R5 AL P4 :=
  mon R5; monall; repeat match goal with p : (_ * _)%type |- _ => destruct p end; cbn [fst snd] in *;
  first [ exact P4
        | (eapply AL; [reflexivity | reflexivity | eassumption | reflexivity])
        | (eapply unwrap_parent_fin_ci; [eassumption|]; eapply AL; [reflexivity | reflexivity | eassumption | reflexivity])
        | (match goal with A : adv ?sx _ _ _ = Ok ?s, L : add_line ?s _ _ = Ok _ |- _ =>
             let X1 := fresh "X" in let X2 := fresh "X" in
             destruct (adv_root _ _ _ _ _ A) as [X1 X2]; eapply AL; [exact X1 | exact X2 | exact L | reflexivity] end)
        | (match goal with A : add_child o ?sx _ Paragraph _ = Ok (?p, ?sa), D : adv ?sa _ _ _ = Ok ?sb,
                           L : add_line ?sb ?p _ = Ok _, PP : CI ?sx |- _ =>
             let X1 := fresh "X" in let X2 := fresh "X" in let n := fresh "n" in let Fn := fresh "Fn" in
             destruct (adv_root _ _ _ _ _ D) as [X1 X2];
             eapply add_line_ci; [exact L | | eapply adv_ci; [exact D|]; eapply add_child_ci; [exact A | exact PP]];
             intros n Fn; rewrite X1 in Fn; rewrite (add_child_new_val _ _ _ _ _ _ _ A PP _ Fn); reflexivity end) ].

Lemma add_text_to_container_ci st c lm line st' :
  add_text_to_container o st c lm line = Ok st' -> CI st -> CI st'.
Proof.
  unfold add_text_to_container. intros H P.
  destruct (ffn st line) as [s0| |] eqn:F0; cbn [bind] in H; try discriminate H.
  assert (P0 : CI s0) by eauto with ci.
  destruct (get s0 c) as [cn| |] eqn:G0; cbn [bind] in H; try discriminate H.
  match type of H with bind ?r _ = _ => destruct r as [s1| |] eqn:R1; cbn [bind] in H; try discriminate H end.
  assert (P1 : CI s1) by (clear H; cigo R1). clear R1.
  match type of H with bind ?r _ = _ => destruct r as [s2| |] eqn:R2; cbn [bind] in H; try discriminate H end.
  assert (P2 : CI s2) by (eapply modify_info_ci; [exact R2 | keepsC_side | exact P1]). clear R2.
  match type of H with bind ?r _ = _ => destruct r as [s3| |] eqn:R3; cbn [bind] in H; try discriminate H end.
  assert (P3 : CI s3) by eauto with ci. clear R3.
  match type of H with bind ?r _ = _ => destruct r as [lazy| |] eqn:RL; cbn [bind] in H; try discriminate H end.
  destruct lazy.
  - (* lazy continuation: the current node is a Paragraph *)
    eapply add_line_ci; [exact H | | exact P3].
    intros n Fn. mon RL.
    match goal with G : get s3 (ps_current s3) = Ok ?b |- _ => rewrite (get_find _ _ _ G) in Fn; inversion Fn; subst n end.
    match goal with Q : is_paragraph _ = true |- _ => apply is_paragraph_val in Q; rewrite Q end. reflexivity.
  - clear RL.
    match type of H with bind ?r _ = _ => destruct r as [s4| |] eqn:R4; cbn [bind] in H; try discriminate H end.
    assert (P4 : CI s4) by eauto with ci. clear R4.
    destruct (get s4 c) as [cn4| |] eqn:G4; cbn [bind] in H; try discriminate H.
    match type of H with bind ?r _ = _ => destruct r as [[rc rs]| |] eqn:R5; cbn [bind fst snd] in H; try discriminate H end.
    inversion H; subst. apply CI_st_current. clear H.
    assert (AL : forall s l s', ps_root s = ps_root s4 -> ps_next s = ps_next s4 -> add_line s c l = Ok s' ->
                 is_cell_v (bval cn4) = false -> CI s').
    { intros s l s' E1 E2 A Nc. eapply add_line_ci; [exact A | | unfold CI; rewrite E1, E2; exact P4].
      intros n Fn. rewrite E1, (get_find _ _ _ G4) in Fn. inversion Fn; subst. exact Nc. }
    destruct (bval cn4) eqn:Bv; try (atc_tac o R5 AL P4).
    change (accepts_lines (kind_of TableCell)) with false in R5. atc_tac o R5 AL P4.
Qed.
End handlers.

(* ================================================================== the run *)
Lemma process_line_ci o st line st' : process_line o st line = Ok st' -> CI st -> CI st'.
Proof.
  unfold process_line. intros H P.
  match type of H with bind (check_open_blocks o ?s ?l) _ = _ =>
    assert (P0 : CI s) by exact P; destruct (check_open_blocks o s l) as [[r s1]| |] eqn:C; cbn [bind] in H; try discriminate H end.
  assert (P1 : CI s1) by eauto with ci.
  match type of H with bind ?r _ = _ => destruct r as [s2| |] eqn:R; cbn [bind] in H; try discriminate H end.
  inversion H; subst. apply CI_st_curline, CI_st_last_line_length.
  destruct r as [[lmc am]|]; [|inversion R; subst; exact P1].
  destruct (open_new_blocks o s1 lmc (norm_line line) am) as [[cont s3]| |] eqn:O; cbn [bind] in R; try discriminate R.
  assert (P3 : CI s3) by (eapply open_new_blocks_ci; eassumption).
  destruct (Nat.eqb (ps_current s1) (ps_current s3)); [|inversion R; subst; exact P3].
  eapply add_text_to_container_ci; eassumption.
Qed.

Lemma process_lines_ci o : forall ls st st', process_lines o st ls = Ok st' -> CI st -> CI st'.
Proof.
  induction ls as [|l r IH]; intros st st' H P; cbn [process_lines] in H; [inversion H; subst; exact P|].
  destruct (process_line o st l) as [s1| |] eqn:E; cbn [bind] in H; try discriminate H.
  eapply IH; [exact H|]. eapply process_line_ci; eassumption.
Qed.

Lemma finalize_document_ci o st st' : finalize_document o st = Ok st' -> CI st -> CI st'.
Proof.
  unfold finalize_document. intros H P.
  destruct (finalize_up_to (S (ps_next st)) o st root_id _) as [s1| |] eqn:E; cbn [bind] in H; try discriminate H.
  assert (P1 : CI s1) by (eapply finalize_up_to_ci; eassumption).
  destruct (finalize o s1 root_id) as [[p s2]| |] eqn:F; cbn [bind snd] in H; try discriminate H.
  inversion H; subst. eapply finalize_ci; eassumption.
Qed.

Lemma run_lines_ci o st ls st' : run_lines o st ls = Ok st' -> CI st -> CI st'.
Proof.
  unfold run_lines. intros H P.
  destruct (process_lines o st ls) as [s1| |] eqn:E; cbn [bind] in H; try discriminate H.
  eapply finalize_document_ci; [exact H|]. eapply process_lines_ci; eassumption.
Qed.

Lemma CI_init : CI init_state.
Proof. unfold CI, init_state. cbn [ps_next ps_root]. apply all_info_node. split; [|constructor]. split; cbn; [unfold root_id; lia | intro; discriminate]. Qed.

Lemma front_matter_prologue_ci o st s st' rest : front_matter_prologue o st s = Ok (st', rest) -> CI st -> CI st'.
Proof.
  unfold front_matter_prologue. intros H P.
  destruct (bo_front_matter_delimiter o); [|inversion H; subst; exact P].
  mon H; monall; repeat match goal with p : (_ * _)%type |- _ => destruct p end; cbn [fst snd] in *; try exact P.
  apply CI_st_line_number.
  match goal with U : unwrap_parent _ (finalize _ _ _) = Ok (?a, ?b) |- _ => assert (CI b) by eauto with ci end.
  eapply modify_info_ci; [eassumption | keepsC_side | assumption].
Qed.

(* ================================================================== the result *)
Lemma all_Cn_bcells N : forall t, all_info (Cn N) t -> bcells_ok t = true.
Proof.
  induction t as [i ch IH] using bnode_ind2. intro A. apply all_info_node in A. destruct A as [[_ B] K].
  cbn [bcells_ok]. apply andb_true_iff. split.
  - destruct (is_cell_v (bi_val i)); [now apply B | reflexivity].
  - apply forallb_forall. intros c Hc. rewrite Forall_forall in IH, K. apply IH; [exact Hc | now apply K].
Qed.

Theorem parse_blocks_cells o x r : parse_blocks o x = Ok r -> bcells_ok (br_root r) = true.
Proof.
  unfold parse_blocks. intro H.
  destruct (front_matter_prologue o init_state x) as [[st rest]| |] eqn:F; cbn [bind] in H; try discriminate H.
  pose proof (front_matter_prologue_ci _ _ _ _ _ F CI_init) as P0.
  destruct (feed_lines rest) as [lines total].
  destruct (run_lines o st lines) as [st1| |] eqn:R; cbn [bind] in H; try discriminate H.
  inversion H; subst. cbn [br_root].
  eapply all_Cn_bcells. exact (run_lines_ci _ _ _ _ R P0).
Qed.
