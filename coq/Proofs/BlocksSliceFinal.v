(* Proofs/BlocksSliceFinal.v — C12 for the START of block constructs on the BLOCK PHASE model, part 4: the statement on the
   ORIGINAL input and the witnesses.

     raw_lines x        the lines of the input as the parser counts them: split at LF, CR LF, CR; no line terminator; a last
                        line without terminator counts when it is not empty; NUL bytes are KEPT
     byte_at x l c      byte c (1-based BYTE column: a tab, a byte of a multi-byte character, a byte of a byte-order mark
                        each count one) of line l (1-based) of raw_lines x
     byte_at_repl x l c the same on Model/Feed.v `lines x`, the lines handed to process_line: every NUL already replaced
                        by U+FFFD (three bytes)
   parse_blocks_start_repl: the claim for every input, relative to byte_at_repl;
   parse_blocks_start:      the claim relative to the original input, for inputs without NUL;
   witnesses: NUL in a footnote label in front of a block quote on the same line (class nul_shift); the Table node after
   paragraph lines (class table_row_indent).
   NO Model file is changed. *)
From Coq Require Import List NArith Arith Bool Lia Strings.String.
From V Require Import Base.Bytes Base.Res Gen.StrLeafGen Gen.FeedConst Gen.Nodes Gen.BlocksConst Model.Ast Model.Strings
  Model.Scan Model.ListMarker Model.Feed Model.FrontMatter Model.RefDef Model.Blocks Spec.LineEndings Proofs.FeedProofs
  Proofs.BlocksProofs Proofs.BlocksPos Proofs.BlocksPosRun Proofs.BlocksSliceScan Proofs.BlocksSlice Proofs.BlocksSliceRun.
Import ListNotations.
Local Open Scope string_scope.
Local Open Scope list_scope.

(* ================================================================== positions in the original input *)
Fixpoint raw_from (cur : bytes) (s : bytes) : list bytes :=
  match s with
  | [] => match cur with [] => [] | _ => [cur] end
  | b :: s' =>
    if beqb b x0d then
      cur :: match s' with
             | c :: s'' => if beqb c x0a then raw_from [] s'' else raw_from [] s'
             | [] => raw_from [] s'
             end
    else if beqb b x0a then cur :: raw_from [] s'
    else raw_from (cur ++ [b]) s'
  end.

Definition raw_lines (x : bytes) : list bytes := raw_from [] x.

Definition byte_in (ls : list bytes) (line col : nat) : option byte :=
  match line, col with
  | S l, S c => match nth_error ls l with Some ln => nth_error ln c | None => None end
  | _, _ => None
  end.

Definition byte_at (x : bytes) (line col : nat) : option byte := byte_in (raw_lines x) line col.
Definition byte_at_repl (x : bytes) (line col : nat) : option byte := byte_in (lines x) line col.

Definition nul_free (x : bytes) : bool := forallb (fun b => negb (beqb b x00)) x.

Lemma nul_free_tl b s : nul_free (b :: s) = true -> beqb b x00 = false /\ nul_free s = true.
Proof. cbn [nul_free forallb]. intro H. apply andb_true_iff in H. destruct H as [Hb Hs]. apply negb_true_iff in Hb. auto. Qed.

Lemma lines_from_raw : forall n s cur, List.length s <= n -> nul_free s = true -> lines_from cur s = raw_from cur s.
Proof.
  induction n as [|n IH]; intros s cur Hn H; destruct s as [|b s]; try reflexivity; cbn [List.length] in Hn; [lia|].
  destruct (nul_free_tl _ _ H) as [Hb Hs].
  cbn [lines_from raw_from]. change CR with x0d. change LF with x0a. change NUL with x00. rewrite Hb.
  destruct (beqb b x0d).
  - f_equal. destruct s as [|c s']; [reflexivity|]. destruct (nul_free_tl _ _ Hs) as [_ Hs']. cbn [List.length] in Hn.
    destruct (beqb c x0a); apply IH; cbn [List.length]; try assumption; lia.
  - destruct (beqb b x0a); [f_equal|]; apply IH; try assumption; lia.
Qed.

Lemma lines_nul_free x : nul_free x = true -> lines x = raw_lines x.
Proof. intro H. rewrite lines_spec. unfold spec_lines, raw_lines. eapply lines_from_raw; [apply Nat.le_refl | exact H]. Qed.

(* ================================================================== from the normalised line back to the line *)
Lemma byte_ok_lf o v : claimed o v = true -> byte_ok v (Some x0a) = false.
Proof.
  destruct v; cbn; try discriminate; try reflexivity; intros _.
  - unfold list_byte_ok. destruct (l_type _); reflexivity.
  - unfold list_byte_ok. destruct (l_type _); reflexivity.
  - match goal with |- (if ?s then _ else _) = _ => destruct s; reflexivity end.
Qed.

Lemma norm_line_byte o v l0 c :
  claimed o v = true -> byte_ok v (nth_error (norm_line l0) c) = true -> byte_ok v (nth_error l0 c) = true.
Proof.
  intros C H. unfold norm_line in H.
  assert (K : byte_ok v (nth_error (l0 ++ [x0a]) c) = true -> byte_ok v (nth_error l0 c) = true).
  { intro K. destruct (Nat.lt_ge_cases c (List.length l0)) as [Lt|Ge].
    - rewrite nth_error_app1 in K by exact Lt. exact K.
    - rewrite nth_error_app2 in K by exact Ge. destruct (c - List.length l0) as [|d] eqn:Ed.
      + cbn in K. rewrite (byte_ok_lf o v C) in K. discriminate K.
      + assert (N1 : nth_error l0 c = None) by (apply nth_error_None; lia).
        rewrite N1. destruct d; exact K. }
  destruct (last_byte l0) as [b|]; [destruct (negb _)|]; auto.
Qed.

(* ================================================================== the theorems *)
Definition start_claim (o : bopts) (at_ : nat -> nat -> option byte) (n : node) : Prop :=
  claimed o (nval n) = true ->
  (1 <= sl (nsp n))%N /\ (1 <= sc (nsp n))%N /\
  byte_ok (nval n) (at_ (N.to_nat (sl (nsp n))) (N.to_nat (sc (nsp n)))) = true.

Lemma Sn_byte_in o ls i : Sn o ls i -> claimed o (bi_val i) = true ->
  1 <= bi_sl i /\ 1 <= bi_sc i /\ byte_ok (bi_val i) (byte_in ls (bi_sl i) (bi_sc i)) = true.
Proof.
  intros S C. destruct (S C) as (l0 & A & B & N & K). split; [exact A|]. split; [exact B|].
  unfold byte_in. destruct (bi_sl i) as [|l]; [lia|]. destruct (bi_sc i) as [|c]; [lia|].
  cbn [Nat.sub] in N, K. rewrite Nat.sub_0_r in N, K. rewrite N. eapply norm_line_byte; eassumption.
Qed.

Theorem parse_blocks_start_repl o x r :
  parse_blocks o x = Ok r -> bo_front_matter_delimiter o = None -> bo_description_lists o = false ->
  forall n, In n (nsub (to_node (br_root r))) -> start_claim o (byte_at_repl x) n.
Proof.
  intros H Fm DL n I. destruct (nsub_to_node _ _ I) as [b [Ib ->]].
  pose proof (all_info_bsub _ _ (parse_blocks_sn _ _ _ H Fm DL) b Ib) as Sb.
  destruct b as [i ch]. cbn [binf] in Sb. unfold start_claim. cbn [to_node nsp nval sl sc]. intro C.
  destruct (Sn_byte_in _ _ _ Sb C) as (A & B & K). rewrite !Nat2N.id. unfold byte_at_repl. repeat split; try lia. exact K.
Qed.

Theorem parse_blocks_start o x r :
  parse_blocks o x = Ok r -> bo_front_matter_delimiter o = None -> bo_description_lists o = false ->
  nul_free x = true ->
  forall n, In n (nsub (to_node (br_root r))) -> start_claim o (byte_at x) n.
Proof.
  intros H Fm DL Nf n I C. pose proof (parse_blocks_start_repl o x r H Fm DL n I C) as K.
  unfold byte_at_repl in K. rewrite (lines_nul_free x Nf) in K. exact K.
Qed.

(* ================================================================== witnesses *)
Definition starts (x : bytes) (t : node) : list (kind * (N * N) * option byte) :=
  map (fun n => (kind_of (nval n), (sl (nsp n), sc (nsp n)), byte_at x (N.to_nat (sl (nsp n))) (N.to_nat (sc (nsp n))))) (nsub t).

Definition parsed_starts (o : bopts) (x : bytes) : res (list (kind * (N * N) * option byte)) :=
  res_map (fun r => starts x (to_node (br_root r))) (parse_blocks o x).

Definition o_fn : bopts := mkBO false true false false false false false false None None (fun v => v).
Definition o_tb : bopts := mkBO true false false false false false false false None None (fun v => v).
Definition o_all : bopts := mkBO false true false true true false false false None None (fun v => v).

(* every claimed kind once, with tabs and a byte-order mark in front of the starts: each start is on its delimiter *)
Definition ex_doc : bytes :=
  [xef; xbb; xbf] ++ B ">" ++ [x09] ++ B "# h" ++ [x0a] ++
  B "-" ++ [x09] ++ B "1. ***" ++ [x0a] ++ [x0a] ++
  B "~~~" ++ [x0a] ++ B "c" ++ [x0a] ++ B "~~~" ++ [x0a] ++
  B " <div>" ++ [x0a] ++ [x0a] ++
  B "[^f]: t" ++ [x0a] ++ [x0a] ++
  B "> [!NOTE]" ++ [x0a] ++ B "> a" ++ [x0a] ++ [x0a] ++
  B ">>>" ++ [x0a] ++ B "p" ++ [x0a] ++ B "===" ++ [x0a] ++ B ">>>" ++ [x0a].

Lemma starts_example :
  parsed_starts o_all ex_doc = Ok
    [ (KDocument, (1, 1)%N, Some xef);
      (KBlockQuote, (1, 4)%N, Some x3e); (KHeading, (1, 6)%N, Some x23);
      (KList, (2, 1)%N, Some x2d); (KItem, (2, 1)%N, Some x2d);
      (KList, (2, 3)%N, Some x31); (KItem, (2, 3)%N, Some x31); (KThematicBreak, (2, 6)%N, Some x2a);
      (KCodeBlock, (4, 1)%N, Some x7e);
      (KHtmlBlock, (7, 2)%N, Some x3c);
      (KFootnoteDefinition, (9, 1)%N, Some x5b); (KParagraph, (9, 7)%N, Some x74);
      (KAlert, (11, 1)%N, Some x3e); (KParagraph, (12, 3)%N, Some x61);
      (KMultilineBlockQuote, (14, 1)%N, Some x3e); (KHeading, (15, 1)%N, Some x70) ].
Proof. vm_compute. reflexivity. Qed.

(* NUL: the columns are those of the line in which NUL has become three bytes; the block quote behind a footnote label
   with a NUL is reported two columns to the right of its '>' (known classes C12-i / C11-m, nul_shift) *)
Definition nul_doc : bytes := B "[^" ++ [x00] ++ B "]: > q" ++ [x0a; x0a] ++ B "[^" ++ [x00] ++ B "]" ++ [x0a].

Lemma nul_refuted :
  parsed_starts o_fn nul_doc = Ok
    [ (KDocument, (1, 1)%N, Some x5b); (KFootnoteDefinition, (1, 1)%N, Some x5b);
      (KBlockQuote, (1, 9)%N, Some x71); (KParagraph, (1, 11)%N, None); (KParagraph, (3, 1)%N, Some x5b) ]
  /\ byte_at nul_doc 1 7 = Some x3e /\ byte_at_repl nul_doc 1 9 = Some x3e.
Proof. vm_compute. repeat split. Qed.

(* the Table node (not claimed): it takes the start COLUMN of the paragraph it grew out of and the LINE of its header
   row; after paragraph lines that is a blank of an indented header row (known classes C12-f / C11-g, table_row_indent) *)
Definition table_doc : bytes := B "x" ++ [x0a] ++ B " |a|" ++ [x0a] ++ B " |-|" ++ [x0a].

Lemma table_refuted :
  parsed_starts o_tb table_doc = Ok
    [ (KDocument, (1, 1)%N, Some x78); (KParagraph, (1, 1)%N, Some x78);
      (KTable, (2, 1)%N, Some x20); (KTableRow, (2, 1)%N, Some x20); (KTableCell, (2, 2)%N, Some x7c) ].
Proof. vm_compute. reflexivity. Qed.
