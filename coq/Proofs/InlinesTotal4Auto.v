(* Proofs/InlinesTotal4Auto.v — C01, inline phase, fourth wave: what follows an autolink.

   The two autolink arms (`:` url_match, `w` www_match) may end on an ASCII letter without appending a Text.  What
   is proved instead: the bytes that FOLLOW the link are not [letters] colon slash (colon_ahead = false):
     ext_loop stops in front of a space or at the end of the input;
     autolink_delim cuts at the first `<` and then only takes away, from the end, bytes that are neither `/` nor
     - at the front of what is taken away - letters (punctuation, closing brackets, `&letters;`),
   so the byte after the link is no letter, and when it is a colon the next byte is no slash.  No axioms. *)
From Coq Require Import List NArith ZArith Arith Bool Strings.String Lia.
From V Require Import Base.Bytes Base.Res Gen.StrLeafGen Model.Strings Model.AutolinkLeaf Model.Spx Model.Ast Model.Inlines
     Proofs.InlinesProofs Proofs.InlinesMemo Proofs.InlinesTotalAutolink.
Import ListNotations.
Local Open Scope list_scope.

Definition ns (b : byte) : Prop := b <> x2f.

Lemma skipn_skipn {A} : forall x y (l : list A), skipn x (skipn y l) = skipn (x + y) l.
Proof.
  intros x y. induction y as [|y IH]; intro l; [rewrite Nat.add_0_r; reflexivity|].
  rewrite Nat.add_succ_r. destruct l as [|a l]; [rewrite !skipn_nil; reflexivity|]. cbn [skipn]. apply IH.
Qed.

(* what is trimmed, in the order of delim_loop (last byte first) *)
Definition T (tr : bytes) : Prop :=
  Forall ns tr /\ (tr = [] \/ exists b r, rev tr = b :: r /\ sl_isalpha b = false).

Lemma T_nil : T [].
Proof. split; [constructor|left; reflexivity]. Qed.

Lemma T_app pre tr : Forall ns pre -> (exists b pre', pre = pre' ++ [b] /\ sl_isalpha b = false) -> T tr -> T (pre ++ tr).
Proof.
  intros Hp (b & pre' & -> & Hb) [Ht Hl]. split; [apply Forall_app; auto|]. right.
  rewrite rev_app_distr. destruct Hl as [->|(b' & r' & E & Hb')].
  - cbn [rev app]. rewrite rev_app_distr. cbn [rev app]. eauto.
  - rewrite E. cbn [app]. eauto.
Qed.

Lemma T_cons c tr : c <> x2f -> sl_isalpha c = false -> T tr -> T (c :: tr).
Proof.
  intros Hc Ha Ht. apply (T_app [c] tr); [constructor; [exact Hc|constructor]| |exact Ht].
  exists c, []. auto.
Qed.

Lemma assort_facts : forall c, sl_link_end_assortment c = true -> c <> x2f /\ sl_isalpha c = false.
Proof.
  intros c H.
  pose proof (forall_bytes (fun b => implb (sl_link_end_assortment b) (negb (beqb b x2f) && negb (sl_isalpha b))) eq_refl c) as K.
  cbv beta in K. rewrite H in K. cbn [implb] in K. apply andb_true_iff in K. destruct K as [K1 K2].
  apply negb_true_iff in K1, K2. split; [|exact K2]. intros ->. discriminate K1.
Qed.

Lemma alpha_ns : forall c, sl_isalpha c = true -> c <> x2f.
Proof. intros c H ->. discriminate H. Qed.

Lemma strip_alpha_spec : forall rest, exists al, rest = al ++ strip_alpha_keep_last rest /\ forallb sl_isalpha al = true.
Proof.
  induction rest as [|b r IH]; [exists []; auto|].
  cbn [strip_alpha_keep_last]. destruct r as [|b2 r2]; [exists []; auto|].
  destruct (sl_isalpha b) eqn:E; [|exists []; auto].
  destruct IH as (al & E1 & E2). exists (b :: al). cbn [app forallb]. rewrite E, E2. split; [f_equal; exact E1|reflexivity].
Qed.

Lemma delim_loop_T : forall fuel relaxed rp r,
  delim_loop fuel relaxed rp = Ok r -> exists tr keep, rp = tr ++ keep /\ List.length keep = r /\ T tr.
Proof.
  induction fuel as [|f IH]; intros relaxed rp r H; cbn [delim_loop] in H; [discriminate|].
  destruct rp as [|cclose rest]; [inversion H; subst; exists [], []; split; [reflexivity|split; [reflexivity|apply T_nil]]|].
  cbv zeta in H.
  destruct (sl_link_end_assortment cclose) eqn:Ea.
  { apply IH in H. destruct H as (tr & keep & -> & Hl & Ht). destruct (assort_facts _ Ea) as [A1 A2].
    exists (cclose :: tr), keep. split; [reflexivity|]. split; [exact Hl|apply T_cons; assumption]. }
  destruct (beqb cclose x3b) eqn:Esc.
  { apply beqb_eq in Esc. subst cclose.
    destruct rest as [|r0 rest0]; [discriminate|].
    destruct (strip_alpha_spec (r0 :: rest0)) as (al & E1 & E2).
    destruct (strip_alpha_keep_last (r0 :: rest0)) as [|c below] eqn:Et; [discriminate|].
    destruct (Nat.ltb (List.length (c :: below)) (List.length (r0 :: rest0)) && beqb c x26) eqn:Ec.
    - apply andb_true_iff in Ec. destruct Ec as [_ Ec]. apply beqb_eq in Ec. subst c.
      apply IH in H. destruct H as (tr & keep & -> & Hl & Ht).
      exists ((x3b :: al ++ [x26]) ++ tr), keep. split.
      { rewrite E1. cbn [app]. f_equal. rewrite <- !app_assoc. reflexivity. }
      split; [exact Hl|]. apply T_app; [| |exact Ht].
      + constructor; [intro K; discriminate K|]. apply Forall_app. split.
        * rewrite forallb_forall in E2. apply Forall_forall. intros x Hx. apply alpha_ns, E2, Hx.
        * constructor; [intro K; discriminate K|constructor].
      + exists x26, (x3b :: al). split; [reflexivity|reflexivity].
    - apply IH in H. destruct H as (tr & keep & E & Hl & Ht).
      exists (x3b :: tr), keep. split; [rewrite E; reflexivity|]. split; [exact Hl|].
      apply T_cons; [intro K; discriminate K|reflexivity|exact Ht]. }
  assert (forall co, (if Nat.leb (count_byte cclose (cclose :: rest)) (count_byte co (cclose :: rest))
                      then Ok (List.length (cclose :: rest)) else delim_loop f relaxed rest) = Ok r ->
                     cclose <> x2f -> sl_isalpha cclose = false ->
                     exists tr keep, cclose :: rest = tr ++ keep /\ List.length keep = r /\ T tr) as Hco.
  { intros co H0 A1 A2. destruct (Nat.leb _ _).
    - inversion H0; subst. exists [], (cclose :: rest). split; [reflexivity|]. split; [reflexivity|apply T_nil].
    - apply IH in H0. destruct H0 as (tr & keep & -> & Hl & Ht).
      exists (cclose :: tr), keep. split; [reflexivity|]. split; [exact Hl|apply T_cons; assumption]. }
  assert (forall k, Ok (List.length (cclose :: rest)) = Ok k -> exists tr keep, cclose :: rest = tr ++ keep /\ List.length keep = k /\ T tr) as Hno.
  { intros k H0. inversion H0; subst. exists [], (cclose :: rest). split; [reflexivity|]. split; [reflexivity|apply T_nil]. }
  destruct (beqb cclose x29) eqn:E1.
  { apply beqb_eq in E1. subst cclose. apply (Hco x28); [exact H|intro K; discriminate K|reflexivity]. }
  destruct relaxed; [|apply Hno; exact H].
  destruct (beqb cclose x5d) eqn:E2.
  { apply beqb_eq in E2. subst cclose. apply (Hco x5b); [exact H|intro K; discriminate K|reflexivity]. }
  destruct (beqb cclose x7d) eqn:E3.
  { apply beqb_eq in E3. subst cclose. apply (Hco x7b); [exact H|intro K; discriminate K|reflexivity]. }
  apply Hno; exact H.
Qed.

(* what may follow a link: no letter, and after a colon no slash *)
Definition ok_after (l : bytes) : Prop :=
  match l with
  | [] => True
  | c :: l' => sl_isalpha c = false /\ (c = x3a -> match l' with x :: _ => x <> x2f | [] => True end)
  end.

Definition stop_suffix (l : bytes) : Prop :=
  match l with [] => True | c :: _ => sl_isalpha c = false /\ c <> x3a /\ c <> x2f end.

Lemma ok_after_T tr suf : T tr -> stop_suffix suf -> ok_after (rev tr ++ suf).
Proof.
  intros [Hns Hl] Hs. destruct Hl as [->|(b & r' & E & Hb)].
  - cbn [rev app]. destruct suf as [|c l']; [exact I|]. destruct Hs as (A & B & C). split; [exact A|]. intro K. contradiction.
  - rewrite E. cbn [app ok_after]. split; [exact Hb|]. intros _.
    assert (Forall ns (rev tr)) as Hr by (apply Forall_rev; exact Hns). rewrite E in Hr. inversion Hr as [|? ? _ Hr']; subst.
    destruct r' as [|x r'']; cbn [app].
    + destruct suf as [|c l']; [exact I|]. destruct Hs as (_ & _ & C). exact C.
    + inversion Hr'; subst. assumption.
Qed.

Lemma space_stop : forall c, sl_isspace c = true -> sl_isalpha c = false /\ c <> x3a /\ c <> x2f.
Proof.
  intros c H.
  pose proof (forall_bytes (fun b => implb (sl_isspace b) (negb (sl_isalpha b) && negb (beqb b x3a) && negb (beqb b x2f))) eq_refl c) as K.
  cbv beta in K. rewrite H in K. cbn [implb] in K. apply andb_true_iff in K. destruct K as [K K3].
  apply andb_true_iff in K. destruct K as [K1 K2]. apply negb_true_iff in K1, K2, K3.
  split; [exact K1|]. split; intros ->; discriminate.
Qed.

Lemma autolink_delim_after data link_end relaxed r :
  autolink_delim data link_end relaxed = Ok r ->
  (match skipn link_end data with [] => True | c :: _ => sl_isspace c = true end) ->
  ok_after (skipn r data).
Proof.
  intros H Hend. unfold autolink_delim in H.
  set (pre := firstn link_end data) in *.
  set (cut := count_while_b (fun b => negb (beqb b x3c)) pre) in *.
  set (le1 := if Nat.ltb cut (List.length pre) then cut else link_end) in *.
  destruct (Nat.ltb (List.length data) le1) eqn:Elen.
  { destruct le1; [apply Nat.ltb_lt in Elen; lia|discriminate]. }
  apply Nat.ltb_ge in Elen.
  apply delim_loop_T in H. destruct H as (tr & keep & E & Hl & Ht).
  assert (stop_suffix (skipn le1 data)) as Hs.
  { unfold le1. destruct (Nat.ltb cut (List.length pre)) eqn:Ec.
    - apply Nat.ltb_lt in Ec.
      pose proof (count_while_b_stop (fun b => negb (beqb b x3c)) pre) as K. fold cut in K.
      destruct (nth_error pre cut) as [c|] eqn:En; [|apply nth_error_None in En; lia].
      apply negb_false_iff in K. apply beqb_eq in K. subst c.
      assert (cut < link_end) as Hcl by (unfold pre in Ec; rewrite firstn_length in Ec; lia).
      unfold pre in En. rewrite nth_error_firstn_lt' in En by exact Hcl.
      destruct (skipn_nth data cut x3c En) as [rr Hr]. rewrite Hr. cbn [stop_suffix].
      split; [reflexivity|]. split; intro K; discriminate K.
    - destruct (skipn link_end data) as [|c l']; [exact I|]. cbn [stop_suffix]. apply space_stop, Hend. }
  assert (firstn le1 data = rev keep ++ rev tr) as Ef.
  { rewrite <- (rev_involutive (firstn le1 data)), E, rev_app_distr. reflexivity. }
  assert (data = (rev keep ++ rev tr) ++ skipn le1 data) as Ed.
  { rewrite <- Ef. symmetry. apply firstn_skipn. }
  assert (skipn r data = rev tr ++ skipn le1 data) as ->.
  { rewrite Ed at 1. rewrite <- app_assoc. rewrite skipn_app.
    assert (List.length (rev keep) = r) as Hrk by (rewrite rev_length; exact Hl).
    rewrite <- Hrk. rewrite skipn_all, Nat.sub_diag. reflexivity. }
  apply ok_after_T; assumption.
Qed.

Section Auto.
Variable o : iopts.
Variable u : oracle.
Variable inp : bytes.

Lemma ext_loop_stop : forall rest prev le le1, ext_loop o rest prev le = Some le1 ->
  le <= le1 /\ match skipn (le1 - le) rest with [] => True | c :: _ => sl_isspace c = true end.
Proof.
  induction rest as [|c r IH]; intros prev le le1 H; cbn [ext_loop] in H.
  - inversion H; subst. rewrite Nat.sub_diag. split; [lia|exact I].
  - destruct (sl_isspace c) eqn:Es.
    + inversion H; subst. rewrite Nat.sub_diag. split; [lia|exact Es].
    + destruct (_ && _ && _); [discriminate|]. apply IH in H. destruct H as [H1 H2]. split; [lia|].
      replace (le1 - le) with (S (le1 - S le)) by lia. exact H2.
Qed.

Definition colon_ahead (p : nat) : bool :=
  let j := p + count_while_b sl_isalpha (skipn p inp) in
  peek_eq inp j x3a && peek_eq inp (j + 1) x2f && peek_eq inp (j + 2) x2f.

Lemma ok_after_colon p : ok_after (skipn p inp) -> colon_ahead p = false.
Proof.
  unfold colon_ahead, peek_eq, peek_is, peek. intro H.
  destruct (skipn p inp) as [|c l'] eqn:E.
  - cbn [count_while_b]. rewrite Nat.add_0_r. apply skipn_nil_nth in E. rewrite E. reflexivity.
  - destruct H as [Ha Hc]. cbn [count_while_b]. rewrite Ha, Nat.add_0_r.
    apply skipn_cons_nth in E. destruct E as [E1 E2]. rewrite E1.
    destruct (beqb x3a c) eqn:Ec; [|reflexivity]. apply beqb_eq in Ec. subst c. specialize (Hc eq_refl).
    replace (p + 1) with (S p) by lia.
    destruct l' as [|x l''].
    + apply skipn_nil_nth in E2. rewrite E2. reflexivity.
    + apply skipn_cons_nth in E2. destruct E2 as [E2 _]. rewrite E2.
      destruct (beqb x2f x) eqn:Ex; [|reflexivity]. apply beqb_eq in Ex. subst x. contradiction.
Qed.

Lemma url_match_after i url text nr skip :
  url_match o u inp i = Ok (Some (url, text, nr, skip)) -> nr <= skip /\ colon_ahead (i + (skip - nr)) = false.
Proof.
  unfold url_match. intro H.
  match type of H with (if ?b then _ else _) = _ => destruct b; [discriminate|] end.
  cbv zeta in H.
  match type of H with (if ?b then _ else _) = _ => destruct b; [discriminate|] end.
  inv1. destruct a as [le0|]; [|discriminate].
  match type of H with match ?e with _ => _ end = _ => destruct e as [le1|] eqn:Ee; [|discriminate] end.
  inv1. inversion H; subst. clear H. split; [lia|].
  replace (i + (count_while_b sl_isalpha (rev (firstn i inp)) + a - count_while_b sl_isalpha (rev (firstn i inp)))) with (a + i) by lia.
  apply ok_after_colon. rewrite <- skipn_skipn.
  eapply autolink_delim_after; [eassumption|].
  apply ext_loop_stop in Ee. destruct Ee as [Hle Hs].
  rewrite skipn_skipn in Hs. rewrite skipn_skipn.
  replace (le1 + i) with (le1 - le0 + (i + le0)) by lia. exact Hs.
Qed.

Lemma www_match_after i url text nr skip :
  www_match o u inp i = Ok (Some (url, text, nr, skip)) -> nr <= skip /\ colon_ahead (i + (skip - nr)) = false.
Proof.
  unfold www_match. intro H.
  match type of H with (if ?b then _ else _) = _ => destruct b; [discriminate|] end.
  match type of H with (if ?b then _ else _) = _ => destruct b; [discriminate|] end.
  inv1. destruct a as [le0|]; [|discriminate].
  inv1.
  match type of H with match ?e with _ => _ end = _ => destruct e as [le1|] eqn:Ee; [|discriminate] end.
  inv1. inversion H; subst. clear H. split; [lia|].
  match goal with |- colon_ahead (i + (?x - 0)) = false => replace (i + (x - 0)) with (x + i) by lia end.
  apply ok_after_colon. rewrite <- skipn_skipn.
  eapply autolink_delim_after; [eassumption|].
  apply ext_loop_stop in Ee. destruct Ee as [Hle Hs].
  rewrite skipn_skipn in Hs. rewrite skipn_skipn.
  replace (le1 + i) with (le1 - le0 + (i + le0)) by lia. exact Hs.
Qed.

Lemma haw_after s m s' n :
  (forall url text nr skip, m (pos s) = Ok (Some (url, text, nr, skip)) ->
     nr <= skip /\ colon_ahead (pos s + (skip - nr)) = false) ->
  handle_autolink_with o s m = Ok (Some (s', n)) -> colon_ahead (pos s') = false.
Proof.
  intros Hm H. unfold handle_autolink_with in H.
  destruct (negb (io_relaxed_autolinks o) && within s); [discriminate|]. cbv zeta in H.
  destruct (m (pos s)) as [[[[[url text] rv] sk]|]| |] eqn:Em; cbn [bind] in H; try discriminate.
  destruct (Hm _ _ _ _ eq_refl) as [Hle Hc].
  unfold usub in H. destruct (Nat.ltb sk rv); cbn [bind] in H; [discriminate|].
  inv1. inversion H; subst. cbn [pos set_pos set_sibs]. exact Hc.
Qed.

End Auto.
