(* Proofs/BlocksPos.v — source positions of the BLOCK phase (Model/Blocks.v), C11 first sentence, line part.

   What the model does (src/parser/mod.rs):  `line_number` is 0 in Parser::new, the front matter prologue adds the
   number of LF bytes of the front matter, process_line adds 1 before anything else.  add_child creates a node with
   start = (line_number, start_column) and end = (line_number, 0) (Ast::new); finalize sets the end:
     no current line (curline_len = 0: finalize_document, the prologue)  -> (line_number, last_line_length)
     Document / fenced code / multiline block quote                       -> (line_number, curline_end_col)
     ThematicBreak                                                        -> unchanged (set by handle_thematic_break)
     everything else                                                      -> (line_number - 1, last_line_length)
   The start moves only in table.rs (try_inserting_table_header_paragraph: start.line += newlines of the preface),
   in parse_desc_list_details (DescriptionList / DescriptionItem take the start of the paragraph they absorb) and for
   the front matter (start = 1:1, end = (1 + LF count of the trimmed front matter, |delimiter|)).

   Proved here, for every option set and every input, through every step of run_lines (per-node invariant `Pn`):
     1 <= start line, 1 <= start column                                     for EVERY node
     start line <= max 1 N  and  end line <= max 1 N                        for every node whose value is `free_val`
     start line <= max 1 (end line)                                         for ThematicBreak, fenced CodeBlock,
                                                                            MultilineBlockQuote
   where N is the final line_number.  `free_val o v`: not (description lists AND table extension both on), v is not
   FrontMatter (its end line is NOT bounded by N: front_matter_end_refuted in BlocksPosRun.v), and either the table
   extension is off or v is none of Paragraph, setext Heading, Table, TableRow, TableCell, DescriptionList,
   DescriptionItem (their start line is, or is copied from, `paragraph start + newlines of the preface`, which is bounded
   only by an invariant on line_offsets that needs uniqueness of the node identifiers: see
   BlocksPos_lines_full_statement in Props/BlocksPos.v).  The third claim (`tbl`) is made with description lists off only:
   parse_desc_list_details writes a start through an identifier returned by add_child.
   NO Model file is changed. *)
From Coq Require Import List NArith Arith Bool Lia Strings.String.
From V Require Import Base.Bytes Base.Res Gen.StrLeafGen Gen.FeedConst Gen.Nodes Gen.BlocksConst Model.Ast Model.Strings
  Model.Feed Model.FrontMatter Model.RefDef Model.Blocks Proofs.FeedProofs Proofs.BlocksProofs.
Import ListNotations.
Local Open Scope string_scope.
Local Open Scope list_scope.

(* ================================================================== a predicate on every node's info *)
Fixpoint all_info (P : binfo -> Prop) (t : bnode) : Prop :=
  match t with
  | BNode i ch => P i /\ (fix go (l : list bnode) : Prop := match l with [] => True | c :: r => all_info P c /\ go r end) ch
  end.

Lemma all_info_node P i ch : all_info P (BNode i ch) <-> P i /\ Forall (all_info P) ch.
Proof.
  cbn [all_info]. split; intros [A B]; (split; [exact A|]).
  - induction ch as [|c r IH]; constructor; [apply B | apply IH, B].
  - induction ch as [|c r IH]; [exact I|]. inversion B; subst. split; [assumption | now apply IH].
Qed.

Lemma all_info_mono (P Q : binfo -> Prop) : (forall i, P i -> Q i) -> forall t, all_info P t -> all_info Q t.
Proof.
  intros PQ. induction t as [i ch IH] using bnode_ind2. rewrite !all_info_node. intros [A B]. split; [now apply PQ|].
  rewrite Forall_forall in *. intros c Hc. apply IH; [exact Hc | now apply B].
Qed.

Lemma find_node_all P id t : forall n, all_info P t -> find_node id t = Some n -> all_info P n.
Proof.
  induction t as [i ch IH] using bnode_ind2. intros n A F. cbn [find_node] in F.
  destruct (Nat.eqb (bi_id i) id). { now inversion F; subst. }
  apply all_info_node in A. destruct A as [_ A].
  induction ch as [|c r IHr]; [discriminate|].
  inversion IH; subst. inversion A; subst.
  destruct (find_node id c) eqn:E.
  - inversion F; subst. eauto.
  - eauto.
Qed.

Lemma upd_all P id f t : forall t',
  all_info P t -> upd id f t = Some t' ->
  (forall n, find_node id t = Some n -> all_info P n -> all_info P (f n)) ->
  all_info P t'.
Proof.
  induction t as [i ch IH] using bnode_ind2. intros t' A U Hf. cbn [upd] in U. cbn [find_node] in Hf.
  destruct (Nat.eqb (bi_id i) id). { inversion U; subst. apply Hf; auto. }
  match type of U with match ?g with _ => _ end = _ => destruct g as [ch'|] eqn:G; [|discriminate] end.
  inversion U; subst. clear U.
  apply all_info_node in A. destruct A as [Ai A]. apply all_info_node. split; [exact Ai|].
  revert ch' G Hf. induction ch as [|c r IHr]; intros ch' G Hf; [discriminate|].
  inversion IH as [|? ? IHc IHrest]; subst. inversion A as [|? ? Ac Ar]; subst.
  destruct (upd id f c) as [c'|] eqn:Uc.
  - inversion G; subst. constructor; [|exact Ar].
    apply (IHc c' Ac eq_refl). intros n Fn. apply Hf. now rewrite Fn.
  - match type of G with match ?g with _ => _ end = _ => destruct g as [r'|] eqn:Gr; [|discriminate] end.
    inversion G; subst.
    assert (Fc : find_node id c = None) by (eapply upd_none_find; eassumption).
    constructor; [exact Ac|]. apply IHr; auto. intros n Fn. apply Hf. now rewrite Fc.
Qed.

Lemma edit_kids_all P id g t : forall t',
  all_info P t -> edit_kids id g t = Some t' ->
  (forall pk pre c post, Forall (all_info P) (pre ++ c :: post) -> Forall (all_info P) (g pk pre c post)) ->
  all_info P t'.
Proof.
  induction t as [i ch IH] using bnode_ind2. intros t' A U Hg. cbn [edit_kids] in U.
  apply all_info_node in A. destruct A as [Ai A].
  destruct (split_kid id ch) as [[[pre c] post]|] eqn:S.
  { inversion U; subst. apply all_info_node. split; [exact Ai|]. apply Hg.
    now rewrite <- (split_kid_eq _ _ _ _ _ S). }
  clear S.
  match type of U with match ?gg with _ => _ end = _ => destruct gg as [ch'|] eqn:G; [|discriminate] end.
  inversion U; subst. clear U. apply all_info_node. split; [exact Ai|].
  revert ch' G. induction ch as [|c r IHr]; intros ch' G; [discriminate|].
  inversion IH as [|? ? IHc IHrest]; subst. inversion A as [|? ? Ac Ar]; subst.
  destruct (edit_kids id g c) as [c'|] eqn:Uc.
  - inversion G; subst. constructor; [|exact Ar]. exact (IHc c' Ac eq_refl Hg).
  - match type of G with match ?gg with _ => _ end = _ => destruct gg as [r'|] eqn:Gr; [|discriminate] end.
    inversion G; subst. constructor; [exact Ac|]. now apply IHr.
Qed.

Lemma all_info_kid P c k : all_info P c -> In k (bkids c) -> all_info P k.
Proof. destruct c as [i ch]. intros A I. apply all_info_node in A. destruct A as [_ A]. rewrite Forall_forall in A. now apply A. Qed.

Lemma all_info_binf P c : all_info P c -> P (binf c).
Proof. destruct c as [i ch]. intro A. apply all_info_node in A. apply A. Qed.

(* ================================================================== the per-node invariant *)
Definition max1 (n : nat) : nat := Nat.max 1 n.

(* values whose start and end line are bounded by the line counter (see the header) *)
Definition free_val (o : bopts) (v : node_value) : bool :=
  negb (bo_description_lists o && bo_table o) &&
  match v with
  | FrontMatter _ => false
  | Paragraph | Table _ | TableRow _ | TableCell | DescriptionList | DescriptionItem _ _ _ => negb (bo_table o)
  | Heading _ setext => negb (setext && bo_table o)
  | _ => true
  end.

(* values whose end is never taken from the line before *)
Definition tb_like (v : node_value) : bool :=
  match v with
  | ThematicBreak => true
  | CodeBlock cb => cb_fenced cb
  | MultilineBlockQuote _ _ => true
  | _ => false
  end.

(* ... claimed when the description list extension is off (parse_desc_list_details moves starts) *)
Definition tbl (o : bopts) (v : node_value) : bool := tb_like v && negb (bo_description_lists o).

Definition Pn4 (o : bopts) (L sl sc el : nat) (v : node_value) : Prop :=
  1 <= sl /\ 1 <= sc /\
  (free_val o v = true -> sl <= max1 L /\ el <= max1 L) /\
  (tbl o v = true -> sl <= max1 el).

Definition Pn (o : bopts) (L : nat) (i : binfo) : Prop := Pn4 o L (bi_sl i) (bi_sc i) (bi_el i) (bi_val i).

Lemma Pn4_mono o L L' sl sc el v : L <= L' -> Pn4 o L sl sc el v -> Pn4 o L' sl sc el v.
Proof. unfold Pn4, max1. intros H (A & B & C & D). repeat split; try assumption; specialize (C H0); lia. Qed.

Lemma tb_like_free o v : tbl o v = true -> free_val o v = true.
Proof.
  unfold tbl, free_val. destruct (bo_description_lists o); [rewrite andb_false_r; discriminate|].
  cbn [andb negb]. destruct v; cbn; congruence.
Qed.

(* the state invariant: the line counter is L and every node satisfies Pn at L *)
Definition PIL (o : bopts) (L : nat) (st : pstate) : Prop :=
  ps_line_number st = L /\ all_info (Pn o L) (ps_root st).

Lemma PIL_st_next o L st n : PIL o L st -> PIL o L (st_next st n). Proof. exact (fun H => H). Qed.
Lemma PIL_st_current o L st n : PIL o L st -> PIL o L (st_current st n). Proof. exact (fun H => H). Qed.
Lemma PIL_st_refmap o L st m : PIL o L st -> PIL o L (st_refmap st m). Proof. exact (fun H => H). Qed.
Lemma PIL_st_cur o L st c : PIL o L st -> PIL o L (st_cur st c). Proof. exact (fun H => H). Qed.
Lemma PIL_st_curline o L st a b : PIL o L st -> PIL o L (st_curline st a b). Proof. exact (fun H => H). Qed.
Lemma PIL_st_last_line_length o L st n : PIL o L st -> PIL o L (st_last_line_length st n). Proof. exact (fun H => H). Qed.

Lemma get_all o L st id n : PIL o L st -> get st id = Ok n -> all_info (Pn o L) n.
Proof. intros [_ A] G. apply get_find in G. exact (find_node_all _ _ _ _ A G). Qed.

Lemma get_pn o L st id n : PIL o L st -> get st id = Ok n -> Pn o L (binf n).
Proof. intros P G. apply all_info_binf. eapply get_all; eassumption. Qed.

Lemma modify_pil o L st id f st' :
  PIL o L st -> modify st id f = Ok st' ->
  (forall n, find_node id (ps_root st) = Some n -> all_info (Pn o L) n -> all_info (Pn o L) (f n)) ->
  PIL o L st'.
Proof.
  unfold modify, PIL. intros [E A] M Hf. destruct (upd id f (ps_root st)) as [r|] eqn:U; [|discriminate].
  inversion M; subst. cbn. split; [reflexivity|]. exact (upd_all _ _ _ _ _ A U Hf).
Qed.

(* modify_info with a function that keeps Pn *)
Lemma modify_info_pil o L st id f st' :
  modify_info st id f = Ok st' -> (forall i, Pn o L i -> Pn o L (f i)) -> PIL o L st -> PIL o L st'.
Proof.
  intros M Hf P. eapply modify_pil; [exact P | exact M |].
  intros n _ An. destruct n as [i ch]. cbn [on_info]. apply all_info_node in An. apply all_info_node.
  split; [apply Hf; apply An | apply An].
Qed.

(* modify_info with a constant computed from the node found under the same identifier *)
Lemma modify_info_const_pil o L st id n i' st' :
  modify_info st id (fun _ => i') = Ok st' -> get st id = Ok n -> (Pn o L (binf n) -> Pn o L i') -> PIL o L st -> PIL o L st'.
Proof.
  intros M G Hf P. eapply modify_pil; [exact P | exact M |].
  intros m Fm Am. apply get_find in G. rewrite G in Fm. inversion Fm; subst m.
  destruct n as [i ch]. cbn [on_info binf] in *. apply all_info_node in Am. apply all_info_node.
  split; [apply Hf; apply Am | apply Am].
Qed.

Lemma edit_root_pil o L st id g r :
  edit_kids id g (ps_root st) = Some r -> PIL o L st ->
  (forall pk pre c post, Forall (all_info (Pn o L)) (pre ++ c :: post) -> Forall (all_info (Pn o L)) (g pk pre c post)) ->
  PIL o L (st_root st r).
Proof. intros E [El A] Hg. split; [exact El|]. cbn. eapply edit_kids_all; eassumption. Qed.

Lemma bdetach_pil o L st id st' : bdetach st id = Ok st' -> PIL o L st -> PIL o L st'.
Proof.
  unfold bdetach. intros D P.
  destruct (edit_kids id (fun _ pre _ post => pre ++ post) (ps_root st)) as [r|] eqn:E.
  - inversion D; subst. eapply edit_root_pil; [exact E | exact P |].
    intros pk pre c post K. apply Forall_app in K. destruct K as [K1 K2]. inversion K2; subst.
    apply Forall_app. split; assumption.
  - now inversion D; subst.
Qed.

Lemma append_child_pil o L st pid c st' :
  append_child st pid c = Ok st' -> all_info (Pn o L) c -> PIL o L st -> PIL o L st'.
Proof.
  intros A Ac P. eapply modify_pil; [exact P | exact A |].
  intros n _ An. destruct n as [i ch]. apply all_info_node in An. apply all_info_node. split; [apply An|].
  apply Forall_app. split; [apply An|]. constructor; [exact Ac | constructor].
Qed.

(* side conditions `forall i, Pn o L i -> Pn o L (setter i)` *)
Ltac pn_side :=
  let i := fresh "i" in let H := fresh "H" in
  intros i H; destruct i; unfold Pn in *; cbn in *; try exact H.

Create HintDb pil.
#[export] Hint Resolve PIL_st_next PIL_st_current PIL_st_refmap PIL_st_cur PIL_st_curline PIL_st_last_line_length
  bdetach_pil modify_info_pil : pil.
#[export] Hint Extern 1 (forall i : binfo, Pn _ _ i -> Pn _ _ _) => pn_side : pil.

Ltac pilgo H := mon H; monall; repeat match goal with p : (_ * _)%type |- _ => destruct p end; cbn [fst snd] in *; eauto 20 with pil.

Lemma adv_pil o L st line n b st' : adv st line n b = Ok st' -> PIL o L st -> PIL o L st'.
Proof. unfold adv. intros H P. mon H. exact P. Qed.
Lemma ffn_pil o L st line st' : ffn st line = Ok st' -> PIL o L st -> PIL o L st'.
Proof. unfold ffn. intros H P. mon H. exact P. Qed.
#[export] Hint Resolve adv_pil ffn_pil : pil.

(* ================================================================== finalize *)
Lemma retighten_pil o L st p st' : retighten st p = Ok st' -> PIL o L st -> PIL o L st'.
Proof.
  unfold retighten. intros H P. destruct p as [item|]; [|inversion H; subst; exact P].
  destruct (parent_of item (ps_root st)) as [lid|]; [|inversion H; subst; exact P].
  destruct (get st lid) as [l| |] eqn:G; cbn [bind] in H; try discriminate H.
  destruct (bi_open (binf l)); [inversion H; subst; exact P|].
  destruct (bval l) eqn:Bv; try (inversion H; subst; exact P).
  eapply modify_pil; [exact P | exact H |].
  intros n Fn An. rewrite (get_find _ _ _ G) in Fn. inversion Fn; subst n.
  destruct l as [i ch]. unfold bval in Bv. cbn [binf on_info] in *. apply all_info_node in An. apply all_info_node.
  split; [|apply An]. destruct An as [Ai _]. destruct i. unfold Pn in *. cbn in *. rewrite Bv in Ai. exact Ai.
Qed.
#[export] Hint Resolve retighten_pil : pil.

(* the end finalize computes *)
Definition fin_ends (st : pstate) (i : binfo) : res (nat * nat) :=
  if Nat.eqb (ps_curline_len st) 0 then Ok (ps_line_number st, ps_last_line_length st)
  else if ends_fenced_like (bi_val i) then Ok (ps_line_number st, ps_curline_end_col st)
  else match bi_val i with
       | ThematicBreak => Ok (bi_el i, bi_ec i)
       | _ => do l <- sub "mod.rs:finalize_borrowed:self.line_number - 1" (ps_line_number st) 1;
              Ok (l, ps_last_line_length st)
       end.

Lemma fin_ends_spec o L st i ends :
  fin_ends st i = Ok ends -> ps_line_number st = L -> Pn o L i ->
  (free_val o (bi_val i) = true -> fst ends <= max1 L) /\ (tbl o (bi_val i) = true -> bi_sl i <= max1 (fst ends)).
Proof.
  unfold fin_ends, Pn, Pn4, max1. intros H E (A & B & C & D). subst L.
  destruct (Nat.eqb (ps_curline_len st) 0).
  { inversion H; subst. cbn [fst]. split; [intros; lia|]. intro T. specialize (C (tb_like_free o _ T)). lia. }
  destruct (ends_fenced_like (bi_val i)) eqn:F.
  { inversion H; subst. cbn [fst]. split; [intros; lia|]. intro T. specialize (C (tb_like_free o _ T)). lia. }
  destruct (bi_val i) eqn:Ev; try discriminate F;
    try (unfold sub in H; destruct (Nat.ltb (ps_line_number st) 1); cbn [bind] in H; [discriminate H|];
         inversion H; subst; cbn [fst]; split; [intros; lia | unfold tbl; cbn; intro T; try discriminate T]).
  - (* indented code *) cbn in F. rewrite F in T. discriminate T.
  - (* ThematicBreak *) inversion H; subst. cbn [fst]. split; [intro Fr; specialize (C Fr); lia | intro T; exact (D T)].
Qed.

(* every info finalize writes: the old one with another end, closed, possibly another content and a value of the same class *)
Lemma Pn_fin o L i l v' :
  Pn o L i -> free_val o v' = free_val o (bi_val i) -> tbl o v' = tbl o (bi_val i) ->
  (free_val o (bi_val i) = true -> l <= max1 L) -> (tbl o (bi_val i) = true -> bi_sl i <= max1 l) ->
  Pn4 o L (bi_sl i) (bi_sc i) l v'.
Proof.
  unfold Pn, Pn4. intros (A & B & C & D) Ef Et H1 H2. rewrite Ef, Et. repeat split; try assumption.
  - apply C. assumption.
  - apply H1. assumption.
Qed.

Lemma finalize_pil o L st id p st' : finalize o st id = Ok (p, st') -> PIL o L st -> PIL o L st'.
Proof.
  intros F P. unfold finalize in F.
  mstep F. pose proof (get_pn _ _ _ _ _ P E) as Pa.
  mstep F; [discriminate F|].
  match type of F with bind ?e _ = _ => change e with (fin_ends st (binf a)) in F end.
  destruct (fin_ends st (binf a)) as [ends| |] eqn:Ee; cbn [bind] in F; try discriminate F.
  destruct (fin_ends_spec o L st _ _ Ee (proj1 P) Pa) as [S1 S2].
  destruct (bi_val (binf a)) eqn:Ev; mon F;
  repeat first [ apply PIL_st_refmap
               | (eapply retighten_pil; [eassumption|])
               | (eapply bdetach_pil; [eassumption|])
               | (eapply modify_info_const_pil; [eassumption | exact E | | exact P];
                  intros _; destruct a as [ia cha]; destruct ia; unfold Pn; cbn in *;
                  apply (Pn_fin o L _ _ _ Pa); cbn; rewrite ?Ev; try reflexivity; assumption) ].
Qed.
#[export] Hint Resolve finalize_pil : pil.

Lemma unwrap_parent_fin_pil site o L st id p st' :
  unwrap_parent site (finalize o st id) = Ok (p, st') -> PIL o L st -> PIL o L st'.
Proof.
  unfold unwrap_parent. intros H P.
  destruct (finalize o st id) as [[op s1]| |] eqn:E; cbn [bind fst snd] in H; try discriminate H.
  destruct op; inversion H; subst. eapply finalize_pil; eassumption.
Qed.
#[export] Hint Resolve unwrap_parent_fin_pil : pil.

(* ================================================================== add_child *)
Lemma add_child_loop_pil o L k : forall fuel st parent p' st',
  add_child_loop fuel o st parent k = Ok (p', st') -> PIL o L st -> PIL o L st'.
Proof.
  induction fuel as [|f IH]; intros st parent p' st' H P; [discriminate|].
  cbn [add_child_loop] in H.
  destruct (get st parent) as [pn| |] eqn:G; cbn [bind] in H; try discriminate H.
  destruct (can_contain (bkind pn) k).
  - inversion H; subst. exact P.
  - match type of H with bind ?r _ = _ => destruct r as [[q s1]| |] eqn:U; cbn [bind fst snd] in H; try discriminate H end.
    eapply IH; [exact H|]. eapply unwrap_parent_fin_pil; eassumption.
Qed.

Lemma Pn_new o L id v col : 1 <= L -> 1 <= col -> Pn o L (new_info id v L col).
Proof. unfold Pn, Pn4, max1. cbn [bi_sl bi_sc bi_el bi_val new_info]. intros. repeat split; lia. Qed.

Lemma add_child_gen_pil o L st parent v col post kids id st' :
  add_child_gen o st parent v col post kids = Ok (id, st') -> 1 <= L ->
  (forall i, bi_val i = v -> Pn o L i -> Pn o L (post i)) -> Forall (all_info (Pn o L)) kids ->
  PIL o L st -> PIL o L st'.
Proof.
  unfold add_child_gen. intros H HL Hp Hk P.
  match type of H with bind ?r _ = _ => destruct r as [[p' s1]| |] eqn:E; cbn [bind] in H; try discriminate H end.
  pose proof (add_child_loop_pil _ _ _ _ _ _ _ _ E P) as P1.
  mon H. eapply append_child_pil; [eassumption | | apply PIL_st_next; exact P1].
  apply all_info_node. split; [|exact Hk]. apply Hp; [reflexivity|]. rewrite (proj1 P1). apply Pn_new; [exact HL|].
  apply Nat.eqb_neq in E0. lia.
Qed.

Lemma add_child_pil o L st parent v col id st' :
  add_child o st parent v col = Ok (id, st') -> 1 <= L -> PIL o L st -> PIL o L st'.
Proof.
  unfold add_child. intros H HL P. eapply add_child_gen_pil; [exact H | exact HL | auto | constructor | exact P].
Qed.
#[export] Hint Resolve add_child_pil : pil.

(* ================================================================== check_open_blocks *)
Lemma skip_one_space_pil o L st line site st' : skip_one_space st line site = Ok st' -> PIL o L st -> PIL o L st'.
Proof. unfold skip_one_space. intros H P. pilgo H. Qed.
#[export] Hint Resolve skip_one_space_pil : pil.

Lemma parse_block_quote_prefix_pil o L st line b st' : parse_block_quote_prefix o st line = Ok (b, st') -> PIL o L st -> PIL o L st'.
Proof. unfold parse_block_quote_prefix. intros H P. pilgo H. Qed.
#[export] Hint Resolve parse_block_quote_prefix_pil : pil.

Lemma parse_footnote_prefix_pil o L st line b st' : parse_footnote_definition_block_prefix st line = Ok (b, st') -> PIL o L st -> PIL o L st'.
Proof. unfold parse_footnote_definition_block_prefix. intros H P. pilgo H. Qed.
#[export] Hint Resolve parse_footnote_prefix_pil : pil.

Lemma parse_item_prefix_pil o L st line c mo pad b st' : parse_item_prefix st line c mo pad = Ok (b, st') -> PIL o L st -> PIL o L st'.
Proof. unfold parse_item_prefix. intros H P. pilgo H. Qed.
#[export] Hint Resolve parse_item_prefix_pil : pil.

Lemma skip_fence_offset_pil o L line site : forall i st st', skip_fence_offset i st line site = Ok st' -> PIL o L st -> PIL o L st'.
Proof. induction i as [|j IH]; intros st st' H P; cbn [skip_fence_offset] in H; pilgo H. Qed.
#[export] Hint Resolve skip_fence_offset_pil : pil.

Lemma parse_code_block_prefix_pil o L st line c cb a b st' :
  parse_code_block_prefix o st line c cb = Ok (a, b, st') -> PIL o L st -> PIL o L st'.
Proof. unfold parse_code_block_prefix. intros H P. pilgo H. Qed.
#[export] Hint Resolve parse_code_block_prefix_pil : pil.

Lemma parse_mbq_prefix_pil o L st line c fl fo a b st' :
  parse_multiline_block_quote_prefix o st line c fl fo = Ok (a, b, st') -> PIL o L st -> PIL o L st'.
Proof. unfold parse_multiline_block_quote_prefix. intros H P. pilgo H. Qed.
#[export] Hint Resolve parse_mbq_prefix_pil : pil.

Lemma check_container_pil o L st line c a b st' : check_container o st line c = Ok (a, b, st') -> PIL o L st -> PIL o L st'.
Proof. unfold check_container. intros H P. destruct (bval c); pilgo H. Qed.
#[export] Hint Resolve check_container_pil : pil.

Lemma check_open_blocks_inner_pil o L line : forall fuel st container a c b st',
  check_open_blocks_inner fuel o st line container = Ok (a, c, b, st') -> PIL o L st -> PIL o L st'.
Proof. induction fuel as [|f IH]; intros st container a c b st' H P; cbn [check_open_blocks_inner] in H; pilgo H. Qed.
#[export] Hint Resolve check_open_blocks_inner_pil : pil.

Lemma check_open_blocks_pil o L st line r st' : check_open_blocks o st line = Ok (r, st') -> PIL o L st -> PIL o L st'.
Proof. unfold check_open_blocks. intros H P. pilgo H. Qed.
#[export] Hint Resolve check_open_blocks_pil : pil.

(* ================================================================== tables (only reached with the extension on) *)
Lemma Pn_nonfree o L sl sc el v : free_val o v = false -> tbl o v = false -> 1 <= sl -> 1 <= sc -> Pn4 o L sl sc el v.
Proof. unfold Pn4. intros F T A B. rewrite F, T. repeat split; try assumption; discriminate. Qed.

Lemma is_paragraph_val c : is_paragraph c = true -> bval c = Paragraph.
Proof. unfold is_paragraph. destruct (bval c); try discriminate; reflexivity. Qed.

Lemma try_inserting_pil o L st c po st' :
  try_inserting_table_header_paragraph st c po = Ok st' -> bo_table o = true ->
  (forall cn, get st c = Ok cn -> is_paragraph cn = true) ->
  PIL o L st -> PIL o L st'.
Proof.
  unfold try_inserting_table_header_paragraph. intros H T Hc P.
  destruct (get st c) as [cn| |] eqn:G; cbn [bind] in H; try discriminate H.
  pose proof (is_paragraph_val _ (Hc _ eq_refl)) as Bv. pose proof (get_pn _ _ _ _ _ P G) as Pc.
  destruct Pc as (A & B & _ & _).
  mon H; monall; try exact P.
  match goal with M : modify_info _ _ _ = Ok ?s |- _ => assert (P1 : PIL o L s) end.
  { eapply modify_pil; [apply PIL_st_next; exact P | eassumption |].
    intros nn Fn An. cbn in Fn. rewrite (get_find _ _ _ G) in Fn. inversion Fn; subst nn.
    destruct cn as [i ch]. unfold bval in Bv. cbn [binf on_info] in *. apply all_info_node in An. apply all_info_node.
    split; [|apply An]. destruct i. unfold Pn. cbn in *. subst. apply Pn_nonfree; unfold free_val, tbl; cbn; try rewrite T; rewrite ?andb_false_r; try reflexivity; lia. }
  eapply edit_root_pil; [eassumption | exact P1 |].
  intros pk pre x post K. cbv beta. destruct (can_contain pk KParagraph); [|exact K].
  apply Forall_app in K. destruct K as [K1 K2]. apply Forall_app. split; [exact K1|].
  cbn [app]. constructor; [|exact K2]. apply all_info_node. split; [|constructor].
  unfold Pn. cbn. apply Pn_nonfree; unfold free_val, tbl; cbn; try rewrite T; rewrite ?andb_false_r; try reflexivity; assumption.
Qed.

Lemma header_cells_pn o L : forall cells id ln sl sc po l,
  header_cells cells id ln sl sc po = Ok l -> bo_table o = true -> 1 <= sl -> Forall (all_info (Pn o L)) l.
Proof.
  induction cells as [|c r IH]; intros id ln sl sc po l H T A; cbn [header_cells] in H.
  - inversion H. constructor.
  - mon H. constructor; [|eapply IH; eassumption].
    apply all_info_node. split; [|constructor]. unfold Pn. cbn.
    apply Pn_nonfree; unfold free_val, tbl; cbn; try rewrite T; rewrite ?andb_false_r; try reflexivity; try assumption.
    apply Nat.eqb_neq in E0. lia.
Qed.

Lemma try_opening_header_pil o L st c line r st' :
  try_opening_header o st c line = Ok (r, st') -> bo_table o = true ->
  (forall cn, get st c = Ok cn -> is_paragraph cn = true) ->
  PIL o L st -> PIL o L st'.
Proof.
  unfold try_opening_header. intros H T Hc P.
  destruct (get st c) as [cn0| |] eqn:G0; cbn [bind] in H; try discriminate H.
  pose proof (Hc _ eq_refl) as Hp. clear Hc.
  mon H; monall; try exact P;
  match goal with
  | I : try_inserting_table_header_paragraph _ _ _ = Ok ?s |- _ =>
    assert (P1 : PIL o L s)
      by (eapply try_inserting_pil; [exact I | exact T | intros cn' G'; rewrite G0 in G'; inversion G'; subst; exact Hp | exact P])
  | _ => pose proof P as P1
  end;
  match goal with G1 : get ?s c = Ok ?c1, P1 : PIL o L ?s |- _ => pose proof (get_pn _ _ _ _ _ P1 G1) as (A & B & _ & _) end;
  (eapply edit_root_pil; [eassumption | eauto 10 with pil |]);
  intros pk pre x post K; cbv beta; (destruct (is_paragraph x); [|exact K]);
  apply Forall_app in K; destruct K as [K1 K2]; inversion K2; subst;
  apply Forall_app; (split; [exact K1|]); cbn [app]; (constructor; [|assumption]);
  apply all_info_node; (split; [unfold Pn; cbn; apply Pn_nonfree; unfold free_val, tbl; cbn; try rewrite T; rewrite ?andb_false_r; try reflexivity; assumption|]);
  (constructor; [|constructor]); apply all_info_node;
  (split; [unfold Pn; cbn; apply Pn_nonfree; unfold free_val, tbl; cbn; try rewrite T; rewrite ?andb_false_r; try reflexivity; assumption|]);
  eapply header_cells_pn; eassumption.
Qed.

Lemma row_cells_pn o L : forall n cells id sc lc l lc',
  row_cells n cells id L sc lc = Ok (l, lc') -> bo_table o = true -> 1 <= L -> 1 <= sc ->
  Forall (all_info (Pn o L)) l /\ (lc' = lc \/ 1 <= lc').
Proof.
  induction n as [|m IH]; intros cells id sc lc l lc' H T HL Hsc; cbn [row_cells] in H.
  - destruct cells; inversion H; subst; split; [constructor | now left | constructor | now left].
  - destruct cells as [|c r]; [inversion H; subst; split; [constructor | now left]|].
    mon H. repeat match goal with p : (_ * _)%type |- _ => destruct p end. cbn [fst snd] in *.
    apply Nat.eqb_neq in E.
    destruct (IH _ _ _ _ _ _ E1 T HL Hsc) as [F1 F2]. split.
    + constructor; [|exact F1]. apply all_info_node. split; [|constructor]. unfold Pn. cbn.
      apply Pn_nonfree; unfold free_val, tbl; cbn; try rewrite T; rewrite ?andb_false_r; try reflexivity; lia.
    + right. destruct F2 as [->|F2]; lia.
Qed.

Lemma filler_cells_pn o L : forall n id lc, bo_table o = true -> 1 <= L -> 1 <= lc ->
  Forall (all_info (Pn o L)) (filler_cells n id L lc).
Proof.
  induction n as [|m IH]; intros id lc T HL Hc; cbn [filler_cells]; constructor; [|now apply IH].
  apply all_info_node. split; [|constructor]. unfold Pn. cbn. apply Pn_nonfree; unfold free_val, tbl; cbn; try rewrite T; rewrite ?andb_false_r; try reflexivity; lia.
Qed.

Lemma try_opening_row_pil o L st c t line r st' :
  (exists cn, get st c = Ok cn /\ bval cn = Table t) ->
  try_opening_row o st c t line = Ok (r, st') -> bo_table o = true -> 1 <= L -> PIL o L st -> PIL o L st'.
Proof.
  intros [cn [G Bv]]. unfold try_opening_row. intros H T HL P. rewrite G in H. cbn [bind] in H.
  pose proof (get_pn _ _ _ _ _ P G) as (A & B & _ & _).
  mon H; monall; try exact P.
  match goal with M : modify _ _ _ = Ok ?s |- _ => assert (PIL o L s) end.
  { eapply modify_pil; [apply PIL_st_next; exact P | eassumption |].
    intros nn Fn An. cbn in Fn. rewrite (get_find _ _ _ G) in Fn. inversion Fn; subst nn.
    destruct cn as [i ch]. unfold bval in Bv. cbn [binf] in *. apply all_info_node in An. destruct An as [Ai Ak].
    apply all_info_node. split.
    - destruct i. unfold Pn in *. cbn in *. subst. apply Pn_nonfree; unfold free_val, tbl; cbn; try rewrite T; rewrite ?andb_false_r; try reflexivity; assumption.
    - apply Forall_app. split; [exact Ak|]. constructor; [|constructor].
      rewrite (proj1 P) in *.
      match goal with R : row_cells _ _ _ _ _ _ = Ok _ |- _ => destruct (row_cells_pn o L _ _ _ _ _ _ _ R T HL B) as [F1 F2] end.
      apply all_info_node. split.
      + unfold Pn. cbn. apply Pn_nonfree; unfold free_val, tbl; cbn; try rewrite T; rewrite ?andb_false_r; try reflexivity; assumption.
      + apply Forall_app. split; [exact F1|].
        match goal with |- Forall _ (filler_cells ?k _ _ _) => destruct k eqn:Ek; [constructor|] end.
        rewrite <- Ek. apply filler_cells_pn; try assumption.
        match goal with E : (Nat.ltb ?a ?b && Nat.eqb ?lc 0)%bool = false |- _ =>
          apply andb_false_iff in E; destruct E as [E|E]; [apply Nat.ltb_ge in E; lia | apply Nat.eqb_neq in E; lia] end. }
  eauto 10 with pil.
Qed.

Lemma try_opening_block_pil o L st c line r st' :
  try_opening_block o st c line = Ok (r, st') -> bo_table o = true -> 1 <= L -> PIL o L st -> PIL o L st'.
Proof.
  unfold try_opening_block. intros H T HL P.
  destruct (get st c) as [cn| |] eqn:G; cbn [bind] in H; try discriminate H.
  destruct (bval cn) eqn:Bv; try (inversion H; subst; exact P).
  - eapply try_opening_header_pil; [exact H | exact T | | exact P].
    intros cn' G'. rewrite G in G'. inversion G'; subst. unfold is_paragraph. now rewrite Bv.
  - eapply try_opening_row_pil; [exists cn; split; [exact G | exact Bv] | exact H | exact T | exact HL | exact P].
Qed.

(* ================================================================== description lists *)
Lemma reopen_pil o L : forall fuel st id st', reopen_ast_nodes fuel st id = Ok st' -> PIL o L st -> PIL o L st'.
Proof. induction fuel as [|f IH]; intros st id st' H P; cbn [reopen_ast_nodes] in H; pilgo H. Qed.
#[export] Hint Resolve reopen_pil : pil.

Lemma last_kid_all P c lc : all_info P c -> last_opt (bkids c) = Some lc -> all_info P lc.
Proof. intros A Hl. eapply all_info_kid; [exact A | now apply last_opt_in]. Qed.

(* the start of an absorbed paragraph written into another node: with description lists on `tbl` is void, and a value
   is `free_val` only when the table extension is off, and then the paragraph's start is bounded as well *)
Lemma set_start_dl o L l c elp : bo_description_lists o = true -> Pn4 o L l c elp Paragraph ->
  forall i, Pn o L i -> Pn o L (set_start l c i).
Proof.
  intros D (A & B & C & _) i (_ & _ & Ci & _). unfold Pn, Pn4. cbn [bi_sl bi_sc bi_el bi_val set_start].
  repeat split; try assumption.
  - assert (Fp : free_val o Paragraph = true).
    { revert H. unfold free_val. rewrite D. cbn [andb]. destruct (bo_table o); cbn; [discriminate | reflexivity]. }
    apply C. exact Fp.
  - apply Ci. exact H.
  - unfold tbl. rewrite D. rewrite andb_false_r. discriminate.
Qed.

Lemma parse_desc_list_details_pil o L st c m b c' st' :
  parse_desc_list_details o st c m = Ok (b, c', st') -> bo_description_lists o = true -> 1 <= L -> PIL o L st -> PIL o L st'.
Proof.
  unfold parse_desc_list_details. intros H D HL P.
  destruct (get st c) as [cn| |] eqn:G; cbn [bind] in H; try discriminate H.
  match type of H with bind ?r _ = _ => destruct r as [[[[tight c1] lc]|]| |] eqn:R; cbn [bind] in H; try discriminate H end;
    [|inversion H; subst; exact P].
  assert (Alc : all_info (Pn o L) lc).
  { pose proof (get_all _ _ _ _ _ P G) as Ac.
    destruct (last_opt (bkids cn)) eqn:Lk.
    - inversion R; subst. eapply last_kid_all; eassumption.
    - mon R. eapply last_kid_all; [eapply get_all; [exact P | eassumption] | eassumption]. }
  clear R.
  pose proof (all_info_binf _ _ Alc) as Plc. unfold Pn in Plc.
  destruct (bval lc) eqn:Bl; try (inversion H; subst; exact P);
    [|unfold bval in Bl; rewrite Bl in Plc; pose proof (set_start_dl o L _ _ _ D Plc) as SS].
  - (* DescriptionItem *) pilgo H.
  - (* Paragraph *)
    mon H; monall; repeat match goal with p : (_ * _)%type |- _ => destruct p end; cbn [fst snd] in *;
    match goal with A : add_child_gen _ ?s _ DescriptionTerm _ _ _ = Ok (_, ?s') |- _ =>
      assert (PIL o L s -> PIL o L s') by
        (intro; eapply add_child_gen_pil; [exact A | exact HL | auto | constructor; [exact Alc | constructor] | assumption])
    end; eauto 20 with pil.
Qed.

(* ================================================================== the handlers of open_new_blocks *)
Section handlers.
Variables (o : bopts) (L : nat).
Hypothesis HL : 1 <= L.

Lemma handle_alert_pil st c line ind b c' st' : handle_alert o st c line ind = Ok (b, c', st') -> PIL o L st -> PIL o L st'.
Proof. unfold handle_alert. intros H P. pilgo H. Qed.
Lemma handle_mbq_pil st c line ind b c' st' : handle_multiline_blockquote o st c line ind = Ok (b, c', st') -> PIL o L st -> PIL o L st'.
Proof. unfold handle_multiline_blockquote, rest_at_fns. intros H P. pilgo H. Qed.
Lemma handle_blockquote_pil st c line ind b c' st' : handle_blockquote o st c line ind = Ok (b, c', st') -> PIL o L st -> PIL o L st'.
Proof. unfold handle_blockquote. intros H P. pilgo H. Qed.
Lemma handle_atx_pil st c line ind b c' st' : handle_atx_heading o st c line ind = Ok (b, c', st') -> PIL o L st -> PIL o L st'.
Proof.
  unfold handle_atx_heading, rest_at_fns. intros H P. mon H; monall; repeat match goal with p : (_ * _)%type |- _ => destruct p end; cbn [fst snd] in *; eauto with pil.
  eapply add_child_gen_pil; [eassumption | exact HL | | constructor | eauto with pil].
  intros i Ev Hi. destruct i. unfold Pn in *. cbn in *. subst. exact Hi.
Qed.
Lemma handle_code_fence_pil st c line ind b c' st' : handle_code_fence o st c line ind = Ok (b, c', st') -> PIL o L st -> PIL o L st'.
Proof. unfold handle_code_fence, rest_at_fns. intros H P. pilgo H. Qed.
Lemma handle_html_block_pil st c line ind b c' st' : handle_html_block o st c line ind = Ok (b, c', st') -> PIL o L st -> PIL o L st'.
Proof. unfold handle_html_block, rest_at_fns. intros H P. pilgo H. Qed.
Lemma handle_footnote_pil st c line ind d b c' st' : handle_footnote o st c line ind d = Ok (b, c', st') -> PIL o L st -> PIL o L st'.
Proof. unfold handle_footnote, rest_at_fns. intros H P. pilgo H. Qed.
Lemma list_spaces_loop_pil line sc : forall fuel st st', list_spaces_loop fuel st line sc = Ok st' -> PIL o L st -> PIL o L st'.
Proof. induction fuel as [|f IH]; intros st st' H P; cbn [list_spaces_loop] in H; pilgo H. Qed.
Hint Resolve list_spaces_loop_pil : pil.
Lemma handle_list_pil st c line ind d b c' st' : handle_list o st c line ind d = Ok (b, c', st') -> PIL o L st -> PIL o L st'.
Proof. unfold handle_list. intros H P. pilgo H. Qed.
Lemma handle_code_block_pil st c line ind ml b c' st' : handle_code_block o st c line ind ml = Ok (b, c', st') -> PIL o L st -> PIL o L st'.
Proof. unfold handle_code_block. intros H P. pilgo H. Qed.
End handlers.

Section handlers2.
Variables (o : bopts) (L : nat).
Hypothesis HL : 1 <= L.

Lemma handle_setext_pil st c line ind b c' st' : handle_setext_heading o st c line ind = Ok (b, c', st') -> PIL o L st -> PIL o L st'.
Proof.
  unfold handle_setext_heading, rest_at_fns. intros H P.
  mstep H; [inversion H; subst; exact P|].
  destruct (get st c) as [cn| |] eqn:G; cbn [bind] in H; try discriminate H.
  destruct (is_paragraph cn) eqn:Pa; cbn [negb] in H; [|inversion H; subst; exact P].
  apply is_paragraph_val in Pa.
  mon H; monall; repeat match goal with p : (_ * _)%type |- _ => destruct p end; cbn [fst snd] in *; eauto 10 with pil;
  match goal with M1 : modify_info (st_refmap st _) _ _ = Ok ?s1 |- _ => assert (P1 : PIL o L s1) end;
  try (eapply modify_pil; [apply PIL_st_refmap; exact P | eassumption |];
       intros nn Fn An; cbn [ps_root st_refmap] in Fn; rewrite (get_find _ _ _ G) in Fn; inversion Fn; subst nn;
       destruct cn as [i ch]; unfold bval in Pa; cbn [binf on_info] in *; apply all_info_node in An; apply all_info_node;
       (split; [|apply An]); destruct An as [Ai _]; destruct i; unfold Pn, Pn4, free_val, tbl in *; cbn in *; subst; cbn in *; exact Ai);
  eauto 10 with pil.
Qed.

Lemma handle_thematic_break_pil st c line ind am b c' st' :
  handle_thematic_break o st c line ind am = Ok (b, c', st') -> PIL o L st -> PIL o L st'.
Proof.
  unfold handle_thematic_break. intros H P.
  mon H; monall; repeat match goal with p : (_ * _)%type |- _ => destruct p end; cbn [fst snd] in *; eauto 10 with pil.
  match goal with A : add_child _ _ _ _ _ = Ok (_, ?s) |- _ => assert (P1 : PIL o L s) by eauto with pil end.
  match goal with M : modify_info ?s _ _ = Ok ?s2 |- _ => assert (P2 : PIL o L s2) end.
  { eapply modify_info_pil; [eassumption | | exact P1]. rewrite (proj1 P1).
    intros i (A & B & C & D). unfold Pn, Pn4 in *. cbn [bi_sl bi_sc bi_el bi_val set_end] in *. repeat split; try assumption.
    - apply C; assumption.
    - unfold max1. lia.
    - intro T. specialize (C (tb_like_free o _ T)). unfold max1 in *. lia. }
  eauto with pil.
Qed.

Lemma handle_description_list_pil st c line ind b c' st' :
  handle_description_list o st c line ind = Ok (b, c', st') -> PIL o L st -> PIL o L st'.
Proof.
  unfold handle_description_list, rest_at_fns. intros H P.
  mstep H; [inversion H; subst; exact P|].
  apply orb_false_iff in E. destruct E as [_ E]. apply negb_false_iff in E.
  mon H; monall; repeat match goal with p : (_ * _)%type |- _ => destruct p end; cbn [fst snd] in *; try exact P;
  match goal with D : parse_desc_list_details _ _ _ _ = Ok (_, _, ?s) |- _ =>
    assert (PIL o L s) by (eapply parse_desc_list_details_pil; eassumption) end; eauto with pil.
Qed.

Hint Resolve handle_alert_pil handle_mbq_pil handle_blockquote_pil handle_atx_pil handle_code_fence_pil
  handle_html_block_pil handle_setext_pil handle_thematic_break_pil handle_footnote_pil
  handle_description_list_pil handle_list_pil handle_code_block_pil : pil.

Lemma or_else_h_pil (r : hres) k b c st st' :
  or_else_h r k = Ok (b, c, st') -> PIL o L st ->
  (forall b1 c1 s1, r = Ok (b1, c1, s1) -> PIL o L st -> PIL o L s1) ->
  (forall c1 s1 b2 c2 s2, k c1 s1 = Ok (b2, c2, s2) -> PIL o L s1 -> PIL o L s2) ->
  PIL o L st'.
Proof.
  unfold or_else_h. intros H P Hr Hk.
  destruct r as [[[b1 c1] s1]| |]; cbn [bind] in H; try discriminate H.
  destruct b1.
  - inversion H; subst. eapply Hr; [reflexivity | exact P].
  - eapply Hk; [exact H|]. eapply Hr; [reflexivity | exact P].
Qed.

Ltac chain_p :=
  match goal with
  | R : or_else_h _ _ = Ok _ |- PIL _ _ _ =>
    eapply (or_else_h_pil _ _ _ _ _ _ R); clear R;
    [ eassumption | intros ? ? ? ? ?; eauto with pil | intros ? ? ? ? ? R ?; cbv beta in R; chain_p ]
  | |- PIL _ _ _ => eauto with pil
  end.

Lemma open_new_blocks_step_pil st c line am ml d g c' st' :
  open_new_blocks_step o st c line am ml d = Ok (g, c', st') -> PIL o L st -> PIL o L st'.
Proof.
  unfold open_new_blocks_step. intros H P.
  destruct (ffn st line) as [s0| |] eqn:F0; cbn [bind] in H; try discriminate H.
  assert (P0 : PIL o L s0) by eauto with pil.
  match type of H with bind ?r _ = _ => destruct r as [[[hd c1] s1]| |] eqn:R; cbn [bind] in H; try discriminate H end.
  assert (P1 : PIL o L s1) by chain_p.
  clear R.
  destruct hd.
  - pilgo H.
  - destruct (negb (Nat.leb code_indent (indent s0)) && bo_table o) eqn:Tb.
    + apply andb_true_iff in Tb. destruct Tb as [_ Tb].
      destruct (try_opening_block o s1 c1 line) as [[tr s2]| |] eqn:TO; cbn [bind] in H; try discriminate H.
      assert (P2 : PIL o L s2) by (eapply try_opening_block_pil; eassumption).
      destruct tr; pilgo H.
    + pilgo H.
Qed.
Hint Resolve open_new_blocks_step_pil : pil.

Lemma open_new_blocks_loop_pil line am : forall fuel st c ml d c' st',
  open_new_blocks_loop fuel o st c line am ml d = Ok (c', st') -> PIL o L st -> PIL o L st'.
Proof. induction fuel as [|f IH]; intros st c ml d c' st' H P; cbn [open_new_blocks_loop] in H; pilgo H. Qed.
Hint Resolve open_new_blocks_loop_pil : pil.

Lemma open_new_blocks_pil st c line am c' st' : open_new_blocks o st c line am = Ok (c', st') -> PIL o L st -> PIL o L st'.
Proof. unfold open_new_blocks. intros H P. pilgo H. Qed.

Lemma clear_llb_up_pil : forall fuel st id st', clear_llb_up fuel st id = Ok st' -> PIL o L st -> PIL o L st'.
Proof. induction fuel as [|f IH]; intros st id st' H P; cbn [clear_llb_up] in H; pilgo H. Qed.

Lemma finalize_up_to_pil target site : forall fuel st st', finalize_up_to fuel o st target site = Ok st' -> PIL o L st -> PIL o L st'.
Proof. induction fuel as [|f IH]; intros st st' H P; cbn [finalize_up_to] in H; pilgo H. Qed.

Lemma add_line_pil st id line st' : add_line st id line = Ok st' -> PIL o L st -> PIL o L st'.
Proof.
  unfold add_line. intros H P.
  destruct (get st id) as [n| |] eqn:G; cbn [bind] in H; try discriminate H.
  mon H; monall; apply PIL_st_cur;
  (eapply modify_info_const_pil; [eassumption | exact G | | exact P]);
  destruct n as [i ch]; destruct i; unfold Pn; cbn; exact (fun x => x).
Qed.
Hint Resolve open_new_blocks_pil clear_llb_up_pil finalize_up_to_pil add_line_pil : pil.

Lemma add_text_to_container_pil st c lm line st' :
  add_text_to_container o st c lm line = Ok st' -> PIL o L st -> PIL o L st'.
Proof. unfold add_text_to_container. intros H P. pilgo H. Qed.
End handlers2.

