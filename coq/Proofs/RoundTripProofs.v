(* Proofs/RoundTripProofs.v — lemmas about Spec/RoundTrip.v (C07 / C17). *)
From Coq Require Import List NArith Bool Lia PeanoNat Arith.
From V Require Import Base.Bytes Gen.RtOutc Model.Ast Spec.RoundTrip.
Import ListNotations.
Local Open Scope bool_scope.

(* ------------------------------------------------------------------ lines *)
Definition no_nl (l : bytes) : bool := forallb (fun c => negb (beqb c nl)) l.

Lemma join_cons_line l ls rest : join_nl (l :: ls, rest) = l ++ nl :: join_nl (ls, rest).
Proof. unfold join_nl. cbn [fst snd map concat]. rewrite <- !app_assoc. reflexivity. Qed.

Lemma join_split s : join_nl (split_nl s) = s.
Proof.
  induction s as [|c r IH]; [reflexivity|].
  cbn [split_nl]. destruct (split_nl r) as [ls rest].
  destruct (beqb c nl) eqn:Ec.
  - apply beqb_eq in Ec. subst c. rewrite join_cons_line. cbn [app]. now rewrite IH.
  - destruct ls as [|l ls'].
    + unfold join_nl in *. cbn in *. now rewrite IH.
    + rewrite join_cons_line in *. cbn [app]. now rewrite IH.
Qed.

Lemma split_no_nl_id r : no_nl r = true -> split_nl r = ([], r).
Proof.
  induction r as [|c r IH]; [reflexivity|]. cbn. intro H. apply andb_true_iff in H as [Hc Hr].
  rewrite (IH Hr). apply negb_true_iff in Hc. now rewrite Hc.
Qed.

Lemma split_line l X ls rest :
  no_nl l = true -> split_nl X = (ls, rest) -> split_nl (l ++ nl :: X) = (l :: ls, rest).
Proof.
  intros Hl HX. induction l as [|c l IH].
  - cbn [app split_nl]. rewrite HX, beqb_refl. reflexivity.
  - cbn in Hl. apply andb_true_iff in Hl as [Hc Hl]. apply negb_true_iff in Hc.
    cbn [app split_nl]. rewrite (IH Hl). now rewrite Hc.
Qed.

Lemma split_join ls rest :
  forallb no_nl ls = true -> no_nl rest = true -> split_nl (join_nl (ls, rest)) = (ls, rest).
Proof.
  intros Hls Hr. induction ls as [|l ls IH].
  - unfold join_nl. cbn. now apply split_no_nl_id.
  - cbn in Hls. apply andb_true_iff in Hls as [Hl Hls].
    rewrite join_cons_line. apply split_line; auto.
Qed.

Lemma split_no_nl s : forallb no_nl (fst (split_nl s)) = true /\ no_nl (snd (split_nl s)) = true.
Proof.
  induction s as [|c r [IH1 IH2]]; [split; reflexivity|].
  cbn [split_nl]. destruct (split_nl r) as [ls rest]. cbn [fst snd] in *.
  destruct (beqb c nl) eqn:Ec.
  - cbn [fst snd forallb]. split; [|exact IH2]. change (no_nl []) with true. now rewrite IH1.
  - destruct ls as [|l ls'].
    + cbn [fst snd forallb]. split; [reflexivity|]. unfold no_nl in *. cbn [forallb]. now rewrite Ec, IH2.
    + cbn [fst snd forallb] in *. apply andb_true_iff in IH1 as [A B]. split; [|exact IH2].
      rewrite B, andb_true_r. unfold no_nl in *. cbn [forallb]. now rewrite Ec, A.
Qed.

Lemma forallb_filter {A} (f g : A -> bool) l : forallb f l = true -> forallb f (filter g l) = true.
Proof.
  induction l as [|a l IH]; [reflexivity|]. cbn. intro H. apply andb_true_iff in H as [Ha Hl].
  destruct (g a); cbn; [rewrite Ha|]; auto.
Qed.

Lemma filter_idem {A} (f : A -> bool) l : filter f (filter f l) = filter f l.
Proof.
  induction l as [|a l IH]; [reflexivity|]. cbn. destruct (f a) eqn:E; cbn; [rewrite E, IH|]; auto.
Qed.

Lemma filter_all {A} (f : A -> bool) l : forallb f l = true -> filter f l = l.
Proof.
  induction l as [|a l IH]; [reflexivity|]. cbn. intro H. apply andb_true_iff in H as [Ha Hl].
  now rewrite Ha, IH.
Qed.

(* the lines of the result are the lines of the input without the comment lines, in order; the
   unterminated rest is untouched *)
Lemma strip_lines h :
  split_nl (strip_end_list_comments h) = (filter keep_line (fst (split_nl h)), snd (split_nl h)).
Proof.
  unfold strip_end_list_comments. destruct (split_no_nl h) as [A B].
  destruct (split_nl h) as [ls rest]. cbn [fst snd] in *.
  apply split_join; auto. now apply forallb_filter.
Qed.

Lemma strip_idempotent h :
  strip_end_list_comments (strip_end_list_comments h) = strip_end_list_comments h.
Proof.
  unfold strip_end_list_comments at 1. rewrite strip_lines. rewrite filter_idem.
  unfold strip_end_list_comments. destruct (split_nl h). reflexivity.
Qed.

Lemma strip_identity h :
  forallb keep_line (fst (split_nl h)) = true -> strip_end_list_comments h = h.
Proof.
  intro H. unfold strip_end_list_comments. pose proof (join_split h) as J.
  destruct (split_nl h) as [ls rest]. cbn [fst] in H. now rewrite (filter_all _ _ H).
Qed.

Lemma strip_no_comment_left h :
  forallb keep_line (fst (split_nl (strip_end_list_comments h))) = true.
Proof.
  rewrite strip_lines. cbn [fst]. induction (fst (split_nl h)) as [|l ls IH]; [reflexivity|].
  cbn [filter]. destruct (keep_line l) eqn:E; [cbn [forallb]; now rewrite E|exact IH].
Qed.

(* ------------------------------------------------------------------ nested strong *)
Definition go_c (v : node_value) (l : list node) : list node :=
  flat_map (fun c => let c' := collapse_nested_strong c in
                     if is_strong v && is_strong (nval c') then nch c' else [c']) l.

Lemma collapse_unfold v sp ch : collapse_nested_strong (Node v sp ch) = Node v sp (go_c v ch).
Proof.
  cbn [collapse_nested_strong]. f_equal.
Qed.

Definition nns_child (v : node_value) (c : node) : bool :=
  negb (is_strong v && is_strong (nval c)) && no_nested_strong c.

Lemma nns_unfold v sp ch : no_nested_strong (Node v sp ch) = forallb (nns_child v) ch.
Proof.
  cbn [no_nested_strong]. induction ch as [|c r IH]; [reflexivity|].
  cbn [forallb]. unfold nns_child at 1. now rewrite <- IH.
Qed.

Lemma nval_collapse n : nval (collapse_nested_strong n) = nval n.
Proof. destruct n. now rewrite collapse_unfold. Qed.

Lemma collapse_identity n : no_nested_strong n = true -> collapse_nested_strong n = n.
Proof.
  induction n as [v sp ch IH] using node_ind2. rewrite nns_unfold, collapse_unfold. intro H.
  f_equal. unfold go_c. induction ch as [|c r IHr]; [reflexivity|].
  inversion IH as [|? ? Hc Hr]; subst. cbn in H. apply andb_true_iff in H as [H1 H2].
  unfold nns_child in H1. apply andb_true_iff in H1 as [Ha Hb].
  cbn [flat_map]. rewrite (Hc Hb). cbn zeta. apply negb_true_iff in Ha. rewrite Ha.
  cbn. f_equal. now apply IHr.
Qed.

Lemma forallb_app' {A} (f : A -> bool) a b : forallb f (a ++ b) = forallb f a && forallb f b.
Proof. induction a as [|x a IH]; [reflexivity|]. cbn. now rewrite IH, andb_assoc. Qed.

Lemma collapse_no_nested n : no_nested_strong (collapse_nested_strong n) = true.
Proof.
  induction n as [v sp ch IH] using node_ind2. rewrite collapse_unfold, nns_unfold.
  unfold go_c. induction ch as [|c r IHr]; [reflexivity|].
  inversion IH as [|? ? Hc Hr]; subst. cbn [flat_map]. rewrite forallb_app'.
  rewrite (IHr Hr), andb_true_r. cbn zeta.
  destruct (is_strong v && is_strong (nval (collapse_nested_strong c))) eqn:E.
  - (* spliced: the grandchildren are not strong and have no nested strong *)
    apply andb_true_iff in E as [Ev Ec].
    destruct (collapse_nested_strong c) as [v' sp' ch'] eqn:Ecc. cbn [nval nch] in *.
    rewrite nns_unfold in Hc. destruct v'; try discriminate.
    clear - Hc Ev. induction ch' as [|g gs IHg]; [reflexivity|].
    cbn in Hc. apply andb_true_iff in Hc as [Hg Hgs]. cbn [forallb]. rewrite (IHg Hgs), andb_true_r.
    unfold nns_child in *. apply andb_true_iff in Hg as [G1 G2]. rewrite G2, andb_true_r.
    cbn [is_strong andb] in G1. rewrite Ev. cbn [andb]. exact G1.
  - cbn [forallb]. unfold nns_child. rewrite E, Hc. reflexivity.
Qed.

Lemma collapse_idempotent n :
  collapse_nested_strong (collapse_nested_strong n) = collapse_nested_strong n.
Proof. apply collapse_identity, collapse_no_nested. Qed.

Lemma nsv_unfold v sp ch :
  non_strong_values (Node v sp ch) = (if is_strong v then [] else [v]) ++ flat_map non_strong_values ch.
Proof.
  cbn [non_strong_values]. f_equal.
Qed.

Lemma flat_map_app' {A B} (f : A -> list B) a b : flat_map f (a ++ b) = flat_map f a ++ flat_map f b.
Proof. induction a as [|x a IH]; [reflexivity|]. cbn. now rewrite IH, app_assoc. Qed.

(* only Strong markers disappear: every other node value is kept, in order *)
Lemma collapse_keeps_values n :
  non_strong_values (collapse_nested_strong n) = non_strong_values n.
Proof.
  induction n as [v sp ch IH] using node_ind2. rewrite collapse_unfold, !nsv_unfold. f_equal.
  unfold go_c. induction ch as [|c r IHr]; [reflexivity|].
  inversion IH as [|? ? Hc Hr]; subst. cbn [flat_map]. rewrite flat_map_app', (IHr Hr). f_equal.
  cbn zeta. rewrite <- Hc.
  destruct (is_strong v && is_strong (nval (collapse_nested_strong c))) eqn:E.
  - apply andb_true_iff in E as [_ Ec]. destruct (collapse_nested_strong c) as [v' sp' ch'].
    cbn [nval nch] in *. rewrite nsv_unfold, Ec. reflexivity.
  - cbn. now rewrite app_nil_r.
Qed.

(* ------------------------------------------------------------------ backslash escapes *)
Lemma escape_punct_rt_b :
  forallb (fun c => negb (is_ascii_punct c) || bytes_eqb (unescape_backslashes [bs; c]) [c]) all_bytes = true.
Proof. vm_compute. reflexivity. Qed.

Lemma escape_punct_rt c : is_ascii_punct c = true -> unescape_backslashes [bs; c] = [c].
Proof.
  intro H. pose proof escape_punct_rt_b as A. rewrite forallb_forall in A.
  specialize (A c (all_bytes_complete c)). rewrite H in A. cbn in A. now apply bytes_eqb_eq.
Qed.

Lemma bs_punct : is_ascii_punct bs = true.
Proof. vm_compute. reflexivity. Qed.

(* any admissible escaping policy is undone by the backslash rule *)
Lemma unescape_escape_dec l :
  forallb dec_ok l = true -> unescape_backslashes (escape_dec l) = map fst l.
Proof.
  induction l as [|[c d] l IH]; [reflexivity|]. cbn [forallb]. intro H.
  apply andb_true_iff in H as [Hp Hl]. unfold dec_ok in Hp. cbn [fst snd] in Hp.
  apply andb_true_iff in Hp as [H1 H2]. unfold escape_dec in *. cbn [flat_map map fst snd].
  destruct d.
  - cbn [negb orb] in H1. cbn [app unescape_backslashes]. rewrite beqb_refl, H1. now rewrite (IH Hl).
  - cbn [app unescape_backslashes]. rewrite orb_false_r in H2. apply negb_true_iff in H2. rewrite H2.
    now rewrite (IH Hl).
Qed.

Lemma escape_with_ok set t :
  forallb is_ascii_punct set = true -> mem_byte bs set = true ->
  forallb dec_ok (map (fun c => (c, mem_byte c set)) t) = true.
Proof.
  intros Hs Hb. induction t as [|c t IH]; [reflexivity|]. cbn [map forallb]. rewrite IH, andb_true_r.
  unfold dec_ok. cbn [fst snd]. apply andb_true_iff. split.
  - destruct (mem_byte c set) eqn:E; [|reflexivity]. cbn. apply mem_byte_In in E.
    rewrite forallb_forall in Hs. now apply Hs.
  - destruct (beqb c bs) eqn:E; [|reflexivity]. apply beqb_eq in E. subst c. now rewrite Hb.
Qed.

Lemma outc_set_punct : forallb is_ascii_punct outc_normal_any = true.
Proof. vm_compute. reflexivity. Qed.
Lemma outc_set_has_bs : mem_byte bs outc_normal_any = true.
Proof. vm_compute. reflexivity. Qed.
(* the context-free part of the set is exactly what the translator found *)
Lemma outc_always_has_bs : mem_byte bs outc_normal_always = true.
Proof. vm_compute. reflexivity. Qed.

Lemma unescape_escape_all t : unescape_backslashes (escape_all t) = t.
Proof.
  unfold escape_all, escape_with. rewrite unescape_escape_dec.
  - rewrite map_map. cbn. now rewrite map_id.
  - apply escape_with_ok; [exact outc_set_punct|exact outc_set_has_bs].
Qed.

(* whatever outc decides per position (begin_content, after a digit, before a letter): as long as the
   decision escapes only members of its sets and always the backslash *)
Lemma unescape_outc_policy (l : list (byte * bool)) :
  forallb (fun p => (negb (snd p) || mem_byte (fst p) outc_normal_any)
                    && (negb (beqb (fst p) bs) || snd p)) l = true ->
  unescape_backslashes (escape_dec l) = map fst l.
Proof.
  intro H. apply unescape_escape_dec. rewrite forallb_forall in *. intros p Hp.
  specialize (H p Hp). apply andb_true_iff in H as [H1 H2]. unfold dec_ok. rewrite H2, andb_true_r.
  destruct (snd p); [|reflexivity]. cbn [negb orb] in H1 |- *. apply mem_byte_In in H1.
  pose proof outc_set_punct as S. rewrite forallb_forall in S. now apply S.
Qed.

Lemma escape_unescape_escape t : escape_all (unescape_backslashes (escape_all t)) = escape_all t.
Proof. now rewrite unescape_escape_all. Qed.

(* ------------------------------------------------------------------ percent encoding, numeric references *)
Lemma pct_rt_b : forallb (fun c => match pct_decode1 (pct_encode c) with Some d => beqb d c | None => false end) all_bytes = true.
Proof. vm_compute. reflexivity. Qed.

Lemma pct_rt c : pct_decode1 (pct_encode c) = Some c.
Proof.
  pose proof pct_rt_b as A. rewrite forallb_forall in A. specialize (A c (all_bytes_complete c)).
  destruct (pct_decode1 (pct_encode c)); [|discriminate]. apply beqb_eq in A. now subst.
Qed.

(* F14, fixed by 7e6ac86: the old format did not decode for tab, LF, VT, FF, CR *)
Lemma pct_old_refuted : pct_decode1 (pct_encode_old x09) = None.
Proof. vm_compute. reflexivity. Qed.

Lemma entity_rt_b :
  forallb (fun c => negb (bN c <? outc_ctrl_bound)%N || match numeric_entity_value (numeric_entity c) with
                                          | Some v => (v =? bN c)%N | None => false end) all_bytes = true.
Proof. vm_compute. reflexivity. Qed.

Lemma entity_numeric_rt c : (bN c < outc_ctrl_bound)%N -> numeric_entity_value (numeric_entity c) = Some (bN c).
Proof.
  intro H. pose proof entity_rt_b as A. rewrite forallb_forall in A. specialize (A c (all_bytes_complete c)).
  apply N.ltb_lt in H. rewrite H in A. cbn [negb orb] in A.
  destruct (numeric_entity_value (numeric_entity c)); [|discriminate]. apply N.eqb_eq in A. now subst.
Qed.

(* ------------------------------------------------------------------ canonical spellings *)
Lemma hr_canonical : is_thematic_break cm_thematic_break = true.
Proof. vm_compute. reflexivity. Qed.

Lemma count_hash_repeat k t :
  match t with c :: _ => beqb c x23 = false | [] => True end ->
  count_hash (repeat x23 k ++ t) = (k, t).
Proof.
  intro H. induction k as [|k IH].
  - cbn. destruct t as [|c r]; [reflexivity|]. cbn. now rewrite H.
  - cbn [repeat app count_hash]. rewrite beqb_refl, IH. reflexivity.
Qed.

(* the opening cm.rs writes for level 1..6 is read back as an ATX heading of that level, whatever follows *)
Lemma atx_canonical level rest :
  (1 <= level <= 6)%nat -> atx_level (cm_atx_open level ++ rest) = Some level.
Proof.
  intros [H1 H6]. unfold atx_level, cm_atx_open.
  assert (S : skip_spaces 3 ((repeat x23 level ++ [x20]) ++ rest) = (repeat x23 level ++ [x20]) ++ rest).
  { destruct level; [lia|]. reflexivity. }
  rewrite S, <- app_assoc. rewrite count_hash_repeat by reflexivity.
  apply Nat.leb_le in H1. apply Nat.leb_le in H6. rewrite H1, H6. reflexivity.
Qed.
