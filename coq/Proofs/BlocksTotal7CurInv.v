(* Proofs/BlocksTotal7CurInv.v — totality of the block phase, seventh round, the cursor-boundary walk, part 2: the
   CURSOR BOUNDARY INVARIANT and its preservation, as answer-Ok facts (the style of Proofs/BlocksTotal5Adv.v).

     UB line st  :=  line[offset..] is valid UTF-8, and when a tab is partially consumed line[offset + 1..] is as well

   which is exactly what add_line needs of the cursor.  On a line that is valid UTF-8 a position k keeps it when k is a
   character boundary (at_boundary of Proofs/BlocksTotal.v: k >= |line|, the byte at k or the byte at k - 1 is ASCII;
   skipn_utf8).  Every move of the cursor lands on such a position:
     - columns mode inside the indent, skip_one_space, the white-space loops: the bytes passed are spaces / tabs
       (F0_ws: the bytes between offset and first_nonspace of a freshly scanned cursor)
     - first_nonspace + matched: the match of every scanner used this way ends with an ASCII byte
       (Proofs/BlocksTotal7CurScan.v), the byte behind a list marker is white space, '>' is ASCII
     - |line| - 1: the final LF.
   The premises offset <= first_nonspace < |line| .. are the invariants C1 / F1 of the fourth-round cursor walk; they
   are taken from its lemmas (sg_ok). *)
From Coq Require Import List NArith Arith Bool Lia Strings.String.
From V Require Import Base.Bytes Base.Res Gen.Nodes Gen.BlocksConst Model.Ast Model.Strings Model.Entity Model.LinkUrl Model.ListMarker
  Model.Feed Model.FrontMatter Model.RefDef Model.Scan Model.Blocks Spec.EscapeSpec
  Proofs.StrLeafProofs Proofs.StrLeafEntity Proofs.BlocksProofs Proofs.BlocksCursor Proofs.BlocksTight Proofs.BlocksTotal
  Spec.Shape Spec.Valid Proofs.ParserShapeBlocks Proofs.ParserShapeTree Proofs.ParserShapeTabPrim Proofs.ParserShapeTables
  Proofs.BlocksTotal2Safe Proofs.BlocksTotal2Root Proofs.BlocksTotal2Tree Proofs.BlocksTotal2Walk Proofs.BlocksTotal3Tab Proofs.BlocksTotal3Cur Proofs.BlocksTotal4Safe
  Proofs.BlocksTotal4Cur Proofs.BlocksTotal4Frame Proofs.BlocksTotal4Walk Proofs.BlocksTotal4Atx Proofs.BlocksTotal4Open Proofs.BlocksTotal4Line
  Proofs.BlocksTotal5Adv.
From V Require Proofs.BlocksTotal4Scan Proofs.BlocksTotal4Marker Proofs.BlocksTotal7CurScan.
Import ListNotations.
Local Open Scope string_scope.
Local Open Scope list_scope.

Definition gp (line : bytes) (k : nat) : Prop := utf8_valid (skipn k line) = true.

Definition UBc (line : bytes) (c : cursor) : Prop :=
  gp line (c_offset c) /\ (c_pct c = true -> gp line (S (c_offset c))).
Definition UB (line : bytes) (st : pstate) : Prop := UBc line (ps_cur st).

Lemma UB_KC line st st' : KC (ps_cur st) (ps_curline_len st) st' -> UB line st -> UB line st'.
Proof. intros [A _] H. unfold UB. rewrite A. exact H. Qed.

Lemma UB_cur line st st' : ps_cur st' = ps_cur st -> UB line st -> UB line st'.
Proof. intros A H. unfold UB. rewrite A. exact H. Qed.

Lemma safe_ok {A} (P : A -> Prop) (r : res A) a : safe P r -> r = Ok a -> P a.
Proof. intros S ->. exact S. Qed.

Lemma ab_prev line j c : nth_error line j = Some c -> is_ascii c = true -> at_boundary line (S j).
Proof. intros. right. right. right. eauto. Qed.
Lemma ab_at line k c : nth_error line k = Some c -> is_ascii c = true -> at_boundary line k.
Proof. intros. right. right. left. eauto. Qed.
Lemma ab_end line k : List.length line <= k -> at_boundary line k.
Proof. intros. right. left. assumption. Qed.

Lemma sot_ascii b : is_space_or_tab b = true -> is_ascii b = true.
Proof. intro H. destruct (sot_split _ H) as [-> | ->]; reflexivity. Qed.

(* ================================================================== advance_offset *)
Lemma advance_loop_pct line cols : forall fuel off col pct count off' col' pct',
  advance_loop fuel line off col pct count cols = Ok (off', col', pct') -> pct' = true ->
  (off' = off /\ pct = true) \/ nth_error line off' = Some x09.
Proof.
  induction fuel as [|f IH]; intros off col pct count off' col' pct' H P; destruct count as [|n]; cbn [advance_loop] in H;
    try (inversion H; subst; left; auto; fail); try discriminate H.
  destruct (idx _ line off) as [b| |] eqn:Ei; cbn [bind] in H; try discriminate H. apply idx_ok in Ei.
  destruct (beqb b x09) eqn:Eb; [destruct cols|].
  - destruct (Nat.ltb (S n) _) eqn:Lt.
    + destruct (IH _ _ _ _ _ _ _ H P) as [[-> _]|R]; right; [apply beqb_eq in Eb; subst b; exact Ei | exact R].
    + destruct (IH _ _ _ _ _ _ _ H P) as [[_ X]|R]; [discriminate X | right; exact R].
  - destruct (IH _ _ _ _ _ _ _ H P) as [[_ X]|R]; [discriminate X | right; exact R].
  - destruct (IH _ _ _ _ _ _ _ H P) as [[_ X]|R]; [discriminate X | right; exact R].
Qed.

Lemma adv_UB line st k cols s1 : utf8_valid line = true -> UB line st -> adv st line k cols = Ok s1 ->
  (c_offset (ps_cur s1) = c_offset (ps_cur st) \/ at_boundary line (c_offset (ps_cur s1))) -> UB line s1.
Proof.
  unfold adv, advance_offset. intros UV [G1 G2] H B.
  destruct (advance_loop k line _ _ _ k cols) as [[[a b] d]| |] eqn:E; cbn [bind] in H; try discriminate H.
  inversion H; subst s1. unfold UB, UBc in *. cbn [ps_cur st_cur cur_set_oc c_offset c_pct] in *.
  assert (Ga : gp line a) by (destruct B as [->|B]; [exact G1 | now apply skipn_utf8]).
  split; [exact Ga|]. intro P. destruct (advance_loop_pct _ _ _ _ _ _ _ _ _ _ E P) as [[-> Q]|R].
  - now apply G2.
  - apply skipn_utf8; [exact UV | eapply ab_prev; [exact R | reflexivity]].
Qed.

Lemma adv_bytes_UB line st k s1 : utf8_valid line = true -> UB line st -> adv st line k false = Ok s1 ->
  (k = 0 \/ at_boundary line (c_offset (ps_cur st) + k)) -> UB line s1.
Proof.
  intros UV U H B. eapply adv_UB; [exact UV | exact U | exact H |].
  apply adv_ok in H. destruct H as (_ & _ & H). specialize (H eq_refl). rewrite H.
  destruct B as [->|B]; [left; lia | right; exact B].
Qed.

Lemma ffn_UB line st s1 : ffn st line = Ok s1 -> UB line st -> UB line s1.
Proof.
  unfold ffn, find_first_nonspace. intros H U.
  destruct (if Nat.leb _ _ then _ else _) as [f fc]. destruct (sub _ fc _); cbn [bind] in H; try discriminate H.
  inversion H; subst. exact U.
Qed.

(* one column on a space or a tab *)
Lemma adv_one_UB line st b s1 : utf8_valid line = true -> UB line st ->
  nth_error line (c_offset (ps_cur st)) = Some b -> is_space_or_tab b = true -> adv st line 1 true = Ok s1 -> UB line s1.
Proof.
  intros UV U Hb Sp H. eapply adv_UB; [exact UV | exact U | exact H |].
  destruct (adv_one _ _ _ Hb Sp) as (c' & E & Bo & _). unfold adv in H. rewrite E in H. cbn [bind] in H. inversion H; subst s1.
  cbn [ps_cur st_cur].
  destruct (Nat.eq_dec (c_offset c') (c_offset (ps_cur st))) as [Eq|Ne]; [left; exact Eq | right].
  replace (c_offset c') with (S (c_offset (ps_cur st))) by lia. eapply ab_prev; [exact Hb | now apply sot_ascii].
Qed.

Lemma skip_one_space_UB line st site s1 : utf8_valid line = true -> UB line st -> skip_one_space st line site = Ok s1 -> UB line s1.
Proof.
  intros UV U H. unfold skip_one_space, offset in H. mstep H. apply idx_ok in E. mstep H; [|mstep H; exact U].
  eapply adv_one_UB; eassumption.
Qed.

Lemma skip_fence_offset_UB line site : utf8_valid line = true -> forall i st s1, UB line st -> skip_fence_offset i st line site = Ok s1 -> UB line s1.
Proof.
  intros UV. induction i as [|j IH]; intros st s1 U H; cbn [skip_fence_offset] in H; [inversion H; subst; exact U|].
  unfold offset in H. mstep H. apply idx_ok in E. mstep H; [|mstep H; exact U]. mstep H.
  eapply IH; [|exact H]. eapply adv_one_UB; eassumption.
Qed.

Lemma list_spaces_loop_UB line sc : utf8_valid line = true -> forall fuel st s1, UB line st -> list_spaces_loop fuel st line sc = Ok s1 -> UB line s1.
Proof.
  intros UV. induction fuel as [|f IH]; intros st s1 U H; cbn [list_spaces_loop] in H; [discriminate H|].
  unfold offset in H. mstep H. mstep H; [|mstep H; exact U]. mstep H. apply idx_ok in E1. mstep H; [|mstep H; exact U]. mstep H.
  eapply IH; [|exact H]. eapply adv_one_UB; eassumption.
Qed.

(* ================================================================== the white space in front of first_nonspace *)
Lemma F0_ws line st j : F0 line st -> c_offset (ps_cur st) <= j < c_fns (ps_cur st) ->
  exists b, nth_error line j = Some b /\ is_space_or_tab b = true.
Proof.
  intros ([Fr _] & B & _) Hj.
  destruct (nth_error line j) as [b|] eqn:N; [|apply nth_error_None in N; lia].
  exists b. split; [reflexivity|].
  apply (ws_len_ws (skipn (c_offset (ps_cur st)) line) (j - c_offset (ps_cur st)) b); [lia|].
  rewrite BlocksTotal4Cur.nth_error_skipn_add. replace (c_offset (ps_cur st) + (j - c_offset (ps_cur st))) with j by lia. exact N.
Qed.

Lemma in_ws_boundary line st k : F0 line st -> c_offset (ps_cur st) <= k <= c_fns (ps_cur st) ->
  k = c_offset (ps_cur st) \/ at_boundary line k.
Proof.
  intros F Hk. destruct (Nat.eq_dec k (c_offset (ps_cur st))) as [E|Ne]; [left; exact E | right].
  destruct (F0_ws line st (k - 1) F ltac:(lia)) as (b & Hb & Sp).
  replace k with (S (k - 1)) by lia. eapply ab_prev; [exact Hb | now apply sot_ascii].
Qed.

Lemma adv_in_ws line st n cols s1 : utf8_valid line = true -> F0 line st -> UB line st -> adv st line n cols = Ok s1 ->
  c_offset (ps_cur s1) <= c_fns (ps_cur st) -> UB line s1.
Proof.
  intros UV F U H Le. eapply adv_UB; [exact UV | exact U | exact H |].
  apply adv_ok in H. destruct H as (Ge & _). apply in_ws_boundary; [exact F | lia].
Qed.

Lemma adv_cols_UB line st count s1 : utf8_valid line = true -> F0 line st -> UB line st -> count <= c_indent (ps_cur st) ->
  adv st line count true = Ok s1 -> UB line s1.
Proof.
  intros UV F U Hc H. eapply adv_in_ws; [exact UV | exact F | exact U | exact H |].
  destruct (sg_ok _ _ _ _ _ (adv_cols_cur line st count F Hc) H) as (_ & Bo & _). exact Bo.
Qed.

(* first_nonspace - offset bytes: to first_nonspace *)
Lemma adv_to_fns_UB line st s1 : utf8_valid line = true -> F0 line st -> UB line st ->
  adv st line (c_fns (ps_cur st) - c_offset (ps_cur st)) false = Ok s1 -> UB line s1.
Proof.
  intros UV F U H. eapply adv_in_ws; [exact UV | exact F | exact U | exact H |].
  apply adv_ok in H. destruct H as (_ & _ & H). specialize (H eq_refl). destruct F as (_ & B & _). lia.
Qed.

Ltac subs := repeat match goal with
  | H : sub _ _ _ = Ok _ |- _ => apply sub_ok in H; destruct H as [-> ?]
  | H : idx _ _ _ = Ok _ |- _ => apply idx_ok in H
  | H : rest_at_fns _ _ _ = Ok _ |- _ => unfold rest_at_fns, fns in H
  | H : Blocks.slice_from _ _ _ = Ok _ |- _ => apply slice_from_ok in H; destruct H as [-> ?]
  end.

Ltac pairs := repeat match goal with p : (_ * _)%type |- _ => destruct p end; cbn [fst snd] in *.

(* ================================================================== the prefix parsers of check_open_blocks *)
Section Check.
Variable line : bytes.
Hypothesis LN : lf_terminated line.
Hypothesis UV : utf8_valid line = true.

Ltac f1start F :=
  destruct (F1_in _ _ LN F) as (Le & Lt & b0 & Hb0 & Sp0); pose proof F as [(Fr & B & Ind & Bl & Len) Lo].

Lemma ab_lf : at_boundary line (List.length line - 1).
Proof. destruct (lf_last _ LN) as [H _]. eapply ab_at; [exact H | reflexivity]. Qed.

Lemma pbq_UB o st r : F1 line st -> UB line st -> parse_block_quote_prefix o st line = Ok r -> UB line (snd r).
Proof.
  intros F U H. f1start F. unfold parse_block_quote_prefix, indent, fns in H.
  mon H; cbn [snd]; try exact U. subs.
  match goal with A : adv st line _ true = Ok ?s, S : skip_one_space ?s _ _ = Ok _ |- _ =>
    eapply skip_one_space_UB; [exact UV | | exact S]; eapply adv_UB; [exact UV | exact U | exact A | right]; rename A into A0 end.
  match goal with X : nth_error line (c_fns (ps_cur st)) = Some ?bb, Y : beqb ?bb x3e = true |- _ =>
    apply beqb_eq in Y; subst bb; rename X into Hb end.
  unfold adv in A0. rewrite Ind in A0.
  destruct (adv_cols_past (ps_cur st) line x3e ltac:(lia) Fr Hb eq_refl) as (c' & E' & Eo & _). rewrite E' in A0. cbn [bind] in A0.
  inversion A0; subst. cbn [ps_cur st_cur]. rewrite Eo. rewrite Nat.add_1_r. eapply ab_prev; [exact Hb | reflexivity].
Qed.

Lemma pfn_UB st r : F1 line st -> UB line st -> parse_footnote_definition_block_prefix st line = Ok r -> UB line (snd r).
Proof.
  intros F U H. unfold parse_footnote_definition_block_prefix, indent in H.
  mon H; cbn [snd]; try exact U. apply Nat.leb_le in E.
  eapply adv_cols_UB; [exact UV | exact (proj1 F) | exact U | exact E | eassumption].
Qed.

Lemma pip_UB st c mo pad r : F1 line st -> UB line st -> parse_item_prefix st line c mo pad = Ok r -> UB line (snd r).
Proof.
  intros F U H. unfold parse_item_prefix, indent, blank, fns, offset in H.
  mon H; cbn [snd]; try exact U.
  - apply Nat.leb_le in E. eapply adv_cols_UB; [exact UV | exact (proj1 F) | exact U | exact E | eassumption].
  - subs. eapply adv_to_fns_UB; [exact UV | exact (proj1 F) | exact U | eassumption].
Qed.

Lemma pcbp_UB o st cid cb m cont s2 : F1 line st -> UB line st ->
  parse_code_block_prefix o st line cid cb = Ok (m, cont, s2) -> (m || cont) = true -> UB line s2.
Proof.
  intros F U H MC. unfold parse_code_block_prefix, indent, blank, fns, offset in H.
  destruct (negb (cb_fenced cb)).
  - mon H; try exact U.
    + apply Nat.leb_le in E. eapply adv_cols_UB; [exact UV | exact (proj1 F) | exact U | exact E | eassumption].
    + subs. eapply adv_to_fns_UB; [exact UV | exact (proj1 F) | exact U | eassumption].
  - mstep H. mstep H.
    + mon H. discriminate MC.
    + mon H. eapply skip_fence_offset_UB; [exact UV | exact U | eassumption].
Qed.

Lemma pmbq_UB o st cid fl fo m cont s2 : F1 line st -> UB line st ->
  parse_multiline_block_quote_prefix o st line cid fl fo = Ok (m, cont, s2) -> (m || cont) = true -> UB line s2.
Proof.
  intros F U H MC. unfold parse_multiline_block_quote_prefix, indent, fns in H.
  mstep H. mstep H.
  - mon H; discriminate MC.
  - mon H. eapply skip_fence_offset_UB; [exact UV | exact U | eassumption].
Qed.

Lemma check_container_UB o st c m cont s2 : F1 line st -> UB line st ->
  check_container o st line c = Ok (m, cont, s2) -> (m || cont) = true -> UB line s2.
Proof.
  intros F U H MC. unfold check_container in H. cbv zeta in H.
  destruct (bval c); try (mon H; exact U);
    try (mstep H; inversion H; subst;
         first [eapply pbq_UB; eassumption | eapply pip_UB; eassumption | eapply pfn_UB; eassumption]).
  - eapply pcbp_UB; eassumption.
  - eapply pmbq_UB; eassumption.
  - match type of H with (if ?b then _ else _) = _ => destruct b end; [eapply pmbq_UB; eassumption|].
    mstep H; inversion H; subst. eapply pbq_UB; eassumption.
Qed.

Lemma cobi_UB o : forall fuel st container am c cont s', C1 line st -> UB line st ->
  check_open_blocks_inner fuel o st line container = Ok (am, c, cont, s') -> cont = true -> UB line s'.
Proof.
  induction fuel as [|f IH]; intros st container am c cont s' C U H Ct; cbn [check_open_blocks_inner] in H; [discriminate H|].
  destruct (last_child_is_open st container) as [lc| |]; cbn [bind] in H; try discriminate H.
  destruct lc as [cid|]; [|inversion H; subst; exact U].
  destruct (ffn st line) as [s1| |] eqn:Ef; cbn [bind] in H; try discriminate H.
  destruct (sg_ok _ _ _ _ _ (ffn_cur line st (proj1 C)) Ef) as (F0' & Eo & _).
  assert (F : F1 line s1) by (split; [exact F0' | rewrite Eo; exact (proj2 C)]).
  assert (U1 : UB line s1) by (eapply ffn_UB; eassumption).
  destruct (get s1 cid) as [cn| |]; cbn [bind] in H; try discriminate H.
  destruct (check_container o s1 line cn) as [[[matched sc] s2]| |] eqn:E1; cbn [bind] in H; try discriminate H.
  pose proof (sg_ok _ _ _ _ _ (check_container_cur line LN o s1 cn F) E1) as K. cbn [CKc] in K.
  destruct matched.
  - eapply IH; [apply K; reflexivity | eapply check_container_UB; [exact F | exact U1 | exact E1 | reflexivity] | exact H | exact Ct].
  - inversion H; subst. eapply check_container_UB; [exact F | exact U1 | exact E1 | reflexivity].
Qed.

Lemma check_open_blocks_UB o st x s1 : C1 line st -> UB line st ->
  check_open_blocks o st line = Ok (Some x, s1) -> UB line s1.
Proof.
  intros C U H. unfold check_open_blocks in H.
  destruct (check_open_blocks_inner _ o st line root_id) as [[[[am c] cont] s0]| |] eqn:E; cbn [bind] in H; try discriminate H.
  mstep H. destruct cont; [|discriminate H].
  inversion H; subst. eapply cobi_UB; [exact C | exact U | exact E | reflexivity].
Qed.
End Check.
