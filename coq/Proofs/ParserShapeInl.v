(* Proofs/ParserShapeInl.v — the inline phase (Model/Inlines.v) only builds inline-valued trees whose
   EscapedTag payloads are inert bytes; consequences for the shape clauses S3 S4 S6 S7. *)
From Coq Require Import List NArith ZArith Bool Strings.String Lia.
From V Require Import Base.Bytes Base.Res Gen.StrLeafGen Gen.Consts Gen.Special Model.Special
     Model.Scan Model.Strings Model.Entity Model.LinkUrl Model.AutolinkLeaf Model.Spx Model.Ast Model.Inlines
     Proofs.InlinesProofs Spec.Shape Spec.HtmlSpec.
Import ListNotations.
Local Open Scope list_scope.

(* ================================================================== 0. definitions *)
Definition inl_val7 (v : node_value) : bool :=
  ival v && match v with EscapedTag l => forallb inert_byte l | _ => true end.

Fixpoint inl_tree7 (n : node) : bool :=
  match n with Node v _ ch => inl_val7 v && forallb inl_tree7 ch end.

Lemma inl_tree7_node v sp ch :
  inl_tree7 (Node v sp ch) = true <-> inl_val7 v = true /\ forallb inl_tree7 ch = true.
Proof. cbn [inl_tree7]. apply andb_true_iff. Qed.

Lemma inl_tree7_val n : inl_tree7 n = true -> inl_val7 (nval n) = true.
Proof. destruct n as [v sp ch]. intro H. apply inl_tree7_node in H. exact (proj1 H). Qed.

Lemma inl_tree7_ch n : inl_tree7 n = true -> forallb inl_tree7 (nch n) = true.
Proof. destruct n as [v sp ch]. intro H. apply inl_tree7_node in H. exact (proj2 H). Qed.

Lemma inl_val7_ival v : inl_val7 v = true -> ival v = true.
Proof. unfold inl_val7. intro H. apply andb_true_iff in H. exact (proj1 H). Qed.

(* the excluded constructors *)
Lemma inl_val7_excluded v :
  inl_val7 v = true ->
  match v with
  | Document | Heading _ _ | Table _ | TableRow _ | TableCell | FootnoteDefinition _ _ | Raw _ | TaskItem _
  | FrontMatter _ | BlockQuote | NList _ | Item _ | DescriptionList | DescriptionItem _ _ _ | DescriptionTerm
  | DescriptionDetails | CodeBlock _ | HtmlBlock _ _ | Paragraph | ThematicBreak | MultilineBlockQuote _ _
  | Alert _ => False
  | EscapedTag l => forallb inert_byte l = true
  | _ => True
  end.
Proof. destruct v; cbn; intro H; try discriminate H; try exact I. exact H. Qed.

Lemma inl_val7_not_block v :
  inl_val7 v = true ->
  v <> Document /\ (forall l s, v <> Heading l s) /\ (forall t, v <> Table t) /\ (forall h, v <> TableRow h)
  /\ v <> TableCell /\ (forall n t, v <> FootnoteDefinition n t) /\ (forall l, v <> Raw l)
  /\ (forall s, v <> TaskItem s).
Proof.
  intro H. repeat split; try intros; intro Hv; subst v; discriminate H.
Qed.

Lemma inl_forallb_impl (f g : node -> bool) l :
  Forall (fun x => f x = true -> g x = true) l -> forallb f l = true -> forallb g l = true.
Proof.
  induction 1 as [|x l Hx Hl IH]; cbn [forallb]; [reflexivity|].
  intro H. apply andb_true_iff in H. destruct H as [H1 H2].
  rewrite (Hx H1), (IH H2). reflexivity.
Qed.

(* itree from tree7 *)
Lemma inl_tree7_itree n : inl_tree7 n = true -> itree n = true.
Proof.
  induction n as [v sp ch IH] using node_ind2. intro H. apply inl_tree7_node in H. destruct H as [Hv Hc].
  cbn [itree]. rewrite (inl_val7_ival v Hv). cbn [andb]. exact (inl_forallb_impl _ _ ch IH Hc).
Qed.

(* ================================================================== 4. the shape clauses *)
Lemma inl_tree7_s4 n : inl_tree7 n = true -> s4 n = true.
Proof.
  induction n as [v sp ch IH] using node_ind2. intro H. apply inl_tree7_node in H. destruct H as [Hv Hc].
  cbn [s4]. rewrite (inl_forallb_impl _ _ ch IH Hc), andb_true_r.
  destruct v; try reflexivity; discriminate Hv.
Qed.

Lemma inl_tree7_s7 n : inl_tree7 n = true -> s7 n = true.
Proof.
  induction n as [v sp ch IH] using node_ind2. intro H. apply inl_tree7_node in H. destruct H as [Hv Hc].
  cbn [s7]. rewrite (inl_forallb_impl _ _ ch IH Hc), andb_true_r.
  destruct v; try reflexivity; try discriminate Hv. exact Hv.
Qed.

Lemma inl_tree7_nofn n : inl_tree7 n = true -> nofn n = true.
Proof.
  induction n as [v sp ch IH] using node_ind2. intro H. apply inl_tree7_node in H. destruct H as [Hv Hc].
  cbn [nofn]. rewrite (inl_forallb_impl _ _ ch IH Hc), andb_true_r.
  destruct v; try reflexivity; discriminate Hv.
Qed.

Lemma inl_tree7_no_table n : inl_tree7 n = true -> no_table n = true.
Proof.
  induction n as [v sp ch IH] using node_ind2. intro H. apply inl_tree7_node in H. destruct H as [Hv Hc].
  cbn [no_table]. rewrite (inl_forallb_impl _ _ ch IH Hc), andb_true_r.
  destruct v; try reflexivity; discriminate Hv.
Qed.

Lemma inl_tree7_s3_go n : inl_tree7 n = true -> forall pv gv, s3_go pv gv n = true.
Proof.
  induction n as [v sp ch IH] using node_ind2. intros H pv gv. apply inl_tree7_node in H. destruct H as [Hv Hc].
  cbn [s3_go].
  assert (forallb (s3_go (Some v) pv) ch = true) as ->.
  { apply (inl_forallb_impl inl_tree7); [|exact Hc].
    apply Forall_forall. intros x Hx Hx7. rewrite Forall_forall in IH. apply IH; assumption. }
  rewrite andb_true_r. destruct v; try reflexivity; discriminate Hv.
Qed.

(* the list forms *)
Lemma inl_forallb_tree7_all l :
  forallb inl_tree7 l = true ->
  forallb s4 l = true /\ forallb s7 l = true /\ forallb nofn l = true /\ forallb no_table l = true
  /\ (forall pv gv, forallb (s3_go pv gv) l = true) /\ forallb itree l = true.
Proof.
  intro H. repeat split; try intros pv gv; (apply (inl_forallb_impl inl_tree7); [|exact H]);
    apply Forall_forall; intros x _ Hx.
  - apply inl_tree7_s4, Hx. - apply inl_tree7_s7, Hx. - apply inl_tree7_nofn, Hx.
  - apply inl_tree7_no_table, Hx. - apply inl_tree7_s3_go, Hx. - apply inl_tree7_itree, Hx.
Qed.

(* ================================================================== 3. fn_resolve *)
Lemma inl_forallb_map (f : node -> node) l :
  Forall (fun x => inl_tree7 x = true -> inl_tree7 (f x) = true) l ->
  forallb inl_tree7 l = true -> forallb inl_tree7 (map f l) = true.
Proof.
  induction 1 as [|x l Hx Hl IH]; cbn [forallb map]; [reflexivity|].
  intro H. apply andb_true_iff in H. destruct H as [H1 H2].
  rewrite (Hx H1), (IH H2). reflexivity.
Qed.

Lemma inl_fn_resolve_tree7 fold defs n : inl_tree7 n = true -> inl_tree7 (fn_resolve fold defs n) = true.
Proof.
  induction n as [v sp ch IH] using node_ind2. intro H.
  pose proof H as H0. apply inl_tree7_node in H. destruct H as [Hv Hc].
  assert (inl_tree7 (Node v sp (map (fn_resolve fold defs) ch)) = true) as Hgen.
  { apply inl_tree7_node. split; [exact Hv|]. apply inl_forallb_map; assumption. }
  destruct v; try exact Hgen.
  cbn [fn_resolve]. destruct (existsb _ defs); [exact H0|].
  apply inl_tree7_node. split; [reflexivity|exact Hc].
Qed.

(* ================================================================== 1. parse_inlines *)
Definition inl_FI (l : list item) : Prop := Forall (fun it => inl_tree7 (snd it) = true) l.
Definition inl_INV (s : st) : Prop := inl_FI (sibs s).

(* ------------------------------------------------------------------ generic lemmas *)
Lemma inl_mk s v a b n : mk s v a b = Ok n -> exists sp, n = Node v sp [].
Proof. unfold mk. intro H. inv. eexists. reflexivity. Qed.

Lemma inl_mk_val s v a b n : mk s v a b = Ok n -> nval n = v.
Proof. intro H. apply inl_mk in H. destruct H as [sp ->]. reflexivity. Qed.

Lemma inl_set_sp_tree7 n sp : inl_tree7 (set_sp n sp) = inl_tree7 n.
Proof. destruct n; reflexivity. Qed.

Lemma inl_set_text_tree7 n t : inl_tree7 n = true -> inl_tree7 (set_text n t) = true.
Proof. destruct n as [v sp ch]. intro H. apply inl_tree7_node in H. apply inl_tree7_node. split; [reflexivity|exact (proj2 H)]. Qed.

Lemma inl_split_at_id id l : forall a x b, split_at_id id l = Some (a, x, b) -> l = a ++ x :: b.
Proof.
  induction l as [|y r IH]; intros a x b H; cbn [split_at_id] in H; [discriminate|].
  destruct (Nat.eqb (fst y) id).
  - inversion H; subst. reflexivity.
  - destruct (split_at_id id r) as [[[a' y'] b']|]; [|discriminate].
    inversion H; subst. rewrite (IH a' x b eq_refl). reflexivity.
Qed.

Lemma inl_FI_app a b : inl_FI (a ++ b) <-> inl_FI a /\ inl_FI b.
Proof. unfold inl_FI. apply Forall_app. Qed.

Lemma inl_FI_cons x l : inl_FI (x :: l) <-> inl_tree7 (snd x) = true /\ inl_FI l.
Proof. unfold inl_FI. split; [intro H; inversion H; auto|intros [H1 H2]; constructor; assumption]. Qed.

Lemma inl_FI_nil : inl_FI [].
Proof. constructor. Qed.

Lemma inl_FI_rev l : inl_FI l -> inl_FI (rev l).
Proof. unfold inl_FI. apply Forall_rev. Qed.

Lemma inl_FI_rev_inv l : inl_FI (rev l) -> inl_FI l.
Proof. intro H. apply inl_FI_rev in H. rewrite rev_involutive in H. exact H. Qed.

Lemma inl_FI_map_snd l : inl_FI l -> forallb inl_tree7 (map snd l) = true.
Proof.
  induction 1 as [|x l Hx Hl IH]; cbn [map forallb]; [reflexivity|]. rewrite Hx, IH. reflexivity.
Qed.

Lemma inl_FI_filter f l : inl_FI l -> inl_FI (filter f l).
Proof.
  unfold inl_FI. intro H. apply Forall_forall. intros x Hx. apply filter_In in Hx.
  rewrite Forall_forall in H. apply H, Hx.
Qed.

Lemma inl_FI_split id l a x b :
  split_at_id id l = Some (a, x, b) -> inl_FI l -> inl_FI a /\ inl_tree7 (snd x) = true /\ inl_FI b.
Proof.
  intros H Hl. apply inl_split_at_id in H. subst l. apply inl_FI_app in Hl. destruct Hl as [Ha Hb].
  apply inl_FI_cons in Hb. tauto.
Qed.

Lemma inl_forallb_Forall l : forallb inl_tree7 l = true <-> Forall (fun n => inl_tree7 n = true) l.
Proof.
  rewrite forallb_forall, Forall_forall. tauto.
Qed.

Lemma inl_forallb_app a b : forallb inl_tree7 (a ++ b) = true <-> forallb inl_tree7 a = true /\ forallb inl_tree7 b = true.
Proof. rewrite forallb_app. apply andb_true_iff. Qed.

Lemma inl_emph_value_val7 o c n : inl_val7 (emph_value o c n) = true.
Proof. unfold emph_value. repeat match goal with |- context [if ?b then _ else _] => destruct b end; reflexivity. Qed.

(* ------------------------------------------------------------------ the one lemma about scan_to_closing_backtick
   (its body is being changed: nothing else in this file unfolds it) *)
Lemma inl_stcb_sibs memo inp s otl : sibs (snd (scan_to_closing_backtick memo inp s otl)) = sibs s.
Proof.
  unfold scan_to_closing_backtick.
  repeat match goal with
         | |- context [if ?b then _ else _] => destruct b
         | |- context [match ?x with _ => _ end] => destruct x
         end; reflexivity.
Qed.

(* ------------------------------------------------------------------ handlers that return (state, node) *)
Ltac inl_mks :=
  repeat match goal with
         | E : mk _ _ _ _ = Ok _ |- _ => apply inl_mk in E; destruct E as [? ->]
         end.
Ltac inl_fin :=
  inl_mks; split; [reflexivity | cbn [set_ch set_sp set_text]; reflexivity].

Lemma inl_adjust inp lo s n ml ex s' n' :
  adjust_node_newlines inp lo s n ml ex = Ok (s', n') -> sibs s' = sibs s /\ inl_tree7 n' = inl_tree7 n.
Proof.
  unfold adjust_node_newlines. intro H. inv; (split; [reflexivity|]); try reflexivity. apply inl_set_sp_tree7.
Qed.

Lemma inl_handle_newline inp s s' n :
  handle_newline inp s = Ok (s', n) -> sibs s' = sibs s /\ inl_tree7 n = true.
Proof. unfold handle_newline. intro H. inv; inl_fin. Qed.

Lemma inl_handle_backticks memo inp lo s s' n :
  handle_backticks memo inp lo s = Ok (s', n) -> sibs s' = sibs s /\ inl_tree7 n = true.
Proof.
  unfold handle_backticks. intro H. cbv zeta in H.
  match type of H with (let (_, _) := ?x in _) = _ =>
    pose proof (inl_stcb_sibs memo inp (set_pos s (pos s + count_eq inp x60 (pos s))) (count_eq inp x60 (pos s))) as Hs;
    destruct x as [e s2] end.
  cbn [snd sibs set_pos] in Hs.
  destruct e as [endpos|].
  - inv. apply inl_adjust in H. destruct H as [H1 H2]. inl_mks. rewrite H1, H2. split; [exact Hs|reflexivity].
  - inv. inl_mks. split; [exact Hs|reflexivity].
Qed.

Lemma inl_handle_backslash o inp s s' n :
  handle_backslash o inp s = Ok (s', n) -> sibs s' = sibs s /\ inl_tree7 n = true.
Proof. unfold handle_backslash, skip_line_end. intro H. inv; inl_fin. Qed.

Lemma inl_handle_entity inp s s' n :
  handle_entity inp s = Ok (s', n) -> sibs s' = sibs s /\ inl_tree7 n = true.
Proof. unfold handle_entity. intro H. inv; inl_fin. Qed.

Lemma inl_make_autolink s url email a b n : make_autolink s url email a b = Ok n -> inl_tree7 n = true.
Proof. unfold make_autolink. intro H. inv. inl_mks. reflexivity. Qed.

Lemma inl_handle_pointy_brace inp lo s s' n :
  handle_pointy_brace inp lo s = Ok (s', n) -> sibs s' = sibs s /\ inl_tree7 n = true.
Proof.
  unfold handle_pointy_brace. intro H.
  inv1. inv1.
  { inv. match goal with E : make_autolink _ _ _ _ _ = Ok _ |- _ => apply inl_make_autolink in E; rewrite E end. split; reflexivity. }
  inv1.
  { inv. match goal with E : make_autolink _ _ _ _ _ = Ok _ |- _ => apply inl_make_autolink in E; rewrite E end. split; reflexivity. }
  match type of H with (let '(_, _) := ?x in _) = _ => destruct x as [ml [[[fc fd] fp] fm]] end.
  destruct ml.
  - inv. apply inl_adjust in H. destruct H as [H1 H2]. inl_mks. rewrite H1, H2. split; reflexivity.
  - inv. inl_fin.
Qed.

Lemma inl_handle_delim o u inp s c s' n d :
  handle_delim o u inp s c = Ok (s', n, d) -> sibs s' = sibs s /\ inl_tree7 n = true.
Proof.
  unfold handle_delim. intro H.
  destruct (scan_delims o u inp (pos s) c) as [[[p' nd] co] cc].
  inv; inl_fin.
Qed.

Lemma inl_handle_hyphen o inp s s' n :
  handle_hyphen o inp s = Ok (s', n) -> sibs s' = sibs s /\ inl_tree7 n = true.
Proof. unfold handle_hyphen. intro H. inv; inl_fin. Qed.

Lemma inl_handle_period o inp s s' n :
  handle_period o inp s = Ok (s', n) -> sibs s' = sibs s /\ inl_tree7 n = true.
Proof. unfold handle_period. intro H. inv; inl_fin. Qed.

Lemma inl_handle_dollars o inp lo s s' n :
  handle_dollars o inp lo s = Ok (s', n) -> sibs s' = sibs s /\ inl_tree7 n = true.
Proof.
  unfold handle_dollars. intro H.
  inv1. { inv; inl_fin. }
  inv1. inv1.
  all: match type of H with match ?e with _ => _ end = _ => destruct e as [endpos|] end.
  all: inv; try (apply inl_adjust in H; destruct H as [H1 H2]; inl_mks; rewrite H1, H2; split; reflexivity); inl_fin.
Qed.

(* ------------------------------------------------------------------ emphasis *)
Lemma inl_replace_item_text site id t items items' :
  replace_item_text site id t items = Ok items' -> inl_FI items -> inl_FI items'.
Proof.
  unfold replace_item_text. intros H Hi.
  destruct (split_at_id id items) as [[[a it] b]|] eqn:Es; [|discriminate].
  destruct (inl_FI_split _ _ _ _ _ Es Hi) as (Ha & Hx & Hb).
  destruct (text_of (snd it)); [|discriminate]. inversion H; subst.
  apply inl_FI_app. split; [exact Ha|]. apply inl_FI_cons. split; [|exact Hb].
  cbn [snd]. apply inl_set_text_tree7, Hx.
Qed.

Lemma inl_insert_emph o s n0 items op cl items' k1 k2 n1 :
  insert_emph o s n0 items op cl = Ok (Some (items', k1, k2, n1)) -> inl_FI items -> inl_FI items'.
Proof.
  unfold insert_emph. intros H Hi.
  destruct (split_at_id (d_id op) items) as [[[pre opi] rest1]|] eqn:Es1; [|discriminate].
  destruct (inl_FI_split _ _ _ _ _ Es1 Hi) as (Hpre & Hop & Hrest1).
  destruct (split_at_id (d_id cl) rest1) as [[[mid cli] post]|] eqn:Es2; [|discriminate].
  destruct (inl_FI_split _ _ _ _ _ Es2 Hrest1) as (Hmid & Hcl & Hpost).
  destruct (text_of (snd opi)) as [ot|]; [|discriminate].
  destruct (text_of (snd cli)) as [ct|]; [|discriminate].
  destruct ot as [|oc ot']; [discriminate|].
  cbv zeta in H.
  remember (if Nat.leb 2 (List.length ct) && Nat.leb 2 (List.length (oc :: ot')) then 2 else 1) as ud.
  inv1. inv1. inv1. inv1. inv1.
  match goal with E : mk _ _ _ _ = Ok ?t |- _ => apply inl_mk_val in E; rename E into Etmp end.
  inv1.
  match type of H with bind ?r _ = _ => destruct r as [opl| |] eqn:Eopl; cbn [bind] in H; try discriminate H end.
  assert (inl_FI opl) as Hl.
  { inv; [apply inl_FI_nil|]. apply inl_FI_cons. split; [|apply inl_FI_nil].
    cbn [snd]. rewrite inl_set_sp_tree7. apply inl_set_text_tree7, Hop. }
  clear Eopl. inversion H; subst items'.
  apply inl_FI_app. split; [exact Hpre|].
  apply inl_FI_app. split; [exact Hl|].
  cbn [app]. apply inl_FI_cons. split.
  { cbn [snd]. apply inl_tree7_node. split.
    - rewrite Etmp. apply inl_emph_value_val7.
    - apply inl_FI_map_snd, Hmid. }
  apply inl_FI_app. split; [|exact Hpost].
  match goal with |- inl_FI (if ?b then _ else _) => destruct b end; [apply inl_FI_nil|].
  apply inl_FI_cons. split; [|apply inl_FI_nil].
  cbn [snd]. rewrite inl_set_sp_tree7. apply inl_set_text_tree7, Hcl.
Qed.

Lemma inl_pe_loop o : forall fuel s n0 items ob below closer above items' n1,
  pe_loop o fuel s n0 items ob below closer above = Ok (items', n1) -> inl_FI items -> inl_FI items'.
Proof.
  induction fuel as [|f IH]; intros s n0 items ob below closer above items' n1 H Hi; [discriminate|].
  cbn [pe_loop] in H.
  destruct closer as [c|]; [|inversion H; subst; exact Hi].
  cbv zeta in H.
  destruct (d_close c); [|eapply IH; eassumption].
  match type of H with bind ?r _ = _ => destruct r as [ix| |]; cbn [bind] in H; try discriminate H end.
  match type of H with (let (_, _) := ?x in _) = _ => destruct x as [found mod3] end.
  destruct (is_emph_char o (d_char c)).
  - destruct found as [[[between op] rest]|]; [|eapply IH; eassumption].
    match type of H with bind ?r _ = _ => destruct r as [r0| |] eqn:Er; cbn [bind] in H; try discriminate H end.
    destruct r0 as [[[[items1 k1] k2] n2]|].
    + pose proof (inl_insert_emph _ _ _ _ _ _ _ _ _ _ Er Hi) as Hi1.
      destruct k2; eapply IH; eassumption.
    + inversion H; subst; exact Hi.
  - destruct (beqb (d_char c) x27 || beqb (d_char c) x22); [|discriminate].
    match type of H with bind ?r _ = _ => destruct r as [it1| |] eqn:Er1; cbn [bind] in H; try discriminate H end.
    pose proof (inl_replace_item_text _ _ _ _ _ Er1 Hi) as Hi1.
    destruct found as [[[between op] rest]|]; [|eapply IH; eassumption].
    match type of H with bind ?r _ = _ => destruct r as [it2| |] eqn:Er2; cbn [bind] in H; try discriminate H end.
    pose proof (inl_replace_item_text _ _ _ _ _ Er2 Hi1) as Hi2.
    eapply IH; eassumption.
Qed.

Lemma inl_process_emphasis o inp s n0 items ds bottom items' n1 :
  process_emphasis o inp s n0 items ds bottom = Ok (items', n1) -> inl_FI items -> inl_FI items'.
Proof.
  unfold process_emphasis. intros H Hi. destruct ds as [|c above]; [inversion H; subst; exact Hi|].
  eapply inl_pe_loop; eassumption.
Qed.

(* ------------------------------------------------------------------ brackets *)
Lemma inl_close_bracket_match o inp s img url title s' :
  close_bracket_match o inp s img url title = Ok s' -> inl_INV s -> inl_INV s'.
Proof.
  unfold close_bracket_match, inl_INV. intros H Hi.
  match type of H with bind ?r _ = _ => destruct r as [b| |]; cbn [bind] in H; try discriminate H end.
  match type of H with bind ?r _ = _ => destruct r as [tmp| |] eqn:Etmp; cbn [bind] in H; try discriminate H end.
  apply inl_mk_val in Etmp.
  destruct (split_at_id (b_id b) (sibs s)) as [[[after_rev bi] before_rev]|] eqn:Es; [|discriminate].
  destruct (inl_FI_split _ _ _ _ _ Es Hi) as (Ha & Hb & Hbe).
  match type of H with bind ?r _ = _ => destruct r as [ecol| |]; cbn [bind] in H; try discriminate H end.
  cbv zeta in H. unfold fresh_id in H.
  match type of H with bind ?r _ = _ => destruct r as [[kids n1]| |] eqn:Epe; cbn [bind] in H; try discriminate H end.
  apply inl_process_emphasis in Epe; [|apply inl_FI_rev, Ha].
  assert (inl_tree7 (Node (nval tmp) (mkSp (sl (nsp (snd bi))) (sc (nsp (snd bi))) (el (nsp tmp)) ecol) (map snd kids)) = true) as Hl.
  { apply inl_tree7_node. split; [|apply inl_FI_map_snd, Epe]. rewrite Etmp. destruct img; reflexivity. }
  inversion H; subst s'. clear H.
  destruct img; cbn [sibs set_nlo pop_bracket set_brackets set_delims set_sibs];
    (apply inl_FI_cons; split; [exact Hl|exact Hbe]).
Qed.

Lemma inl_ref_lookup refmap maxref s lab s' r : ref_lookup refmap maxref s lab = Ok (s', r) -> sibs s' = sibs s.
Proof. unfold ref_lookup. intro H. inv; reflexivity. Qed.

Definition inl_opt7 (n : option node) : Prop := match n with Some n => inl_tree7 n = true | None => True end.

Lemma inl_close_text s s' n :
  (do n <- mk s (Text [x5d]) (pos s - 1) (pos s - 1); Ok (s, Some n)) = Ok (s', n) -> s' = s /\ inl_opt7 n.
Proof. intro H. inv. inl_mks. split; reflexivity. Qed.

Lemma inl_handle_close_bracket o u inp refmap maxref s0 s' n :
  handle_close_bracket o u inp refmap maxref s0 = Ok (s', n) -> inl_INV s0 -> inl_INV s' /\ inl_opt7 n.
Proof.
  unfold handle_close_bracket, inl_INV. intros H Hi. cbv zeta in H.
  remember (set_pos s0 (S (pos s0))) as s eqn:Hs.
  assert (inl_FI (sibs s)) as His by (subst s; exact Hi). clear Hs Hi.
  destruct (brackets s) as [|b br] eqn:Ebr.
  { apply inl_close_text in H. destruct H as [-> H]. split; assumption. }
  match type of H with (if ?c then _ else _) = _ => destruct c end.
  { apply inl_close_text in H. destruct H as [-> H]. split; assumption. }
  destruct (split_at_id (b_id b) (sibs s)) as [[[after_rev bi] before_rev]|] eqn:Es; [|discriminate].
  destruct (inl_FI_split _ _ _ _ _ Es His) as (Ha & Hb & Hbe).
  match type of H with (if ?c then _ else _) = _ => destruct c end.
  { apply inl_close_text in H. destruct H as [-> H]. split; assumption. }
  match type of H with bind ?r _ = _ => destruct r as [il| |]; cbn [bind] in H; try discriminate H end.
  destruct il as [[[p' cu] ct]|].
  { match type of H with bind ?r _ = _ => destruct r as [s1| |] eqn:Ecb; cbn [bind] in H; try discriminate H end.
    inversion H; subst. apply inl_close_bracket_match in Ecb; [|exact His]. split; [exact Ecb|exact I]. }
  match type of H with (let '(_, _) := ?x in _) = _ => destruct x as [[lab0 found0] p1] end.
  match type of H with bind ?r _ = _ => destruct r as [[lab found_label]| |]; cbn [bind] in H; try discriminate H end.
  match type of H with bind ?r _ = _ => destruct r as [[s2 reff]| |] eqn:Elk; cbn [bind] in H; try discriminate H end.
  assert (sibs s2 = sibs s) as Hs2.
  { destruct found_label; [apply inl_ref_lookup in Elk; exact Elk|inversion Elk; reflexivity]. }
  destruct reff as [[url title]|].
  { match type of H with bind ?r _ = _ => destruct r as [s3| |] eqn:Ecb; cbn [bind] in H; try discriminate H end.
    inversion H; subst. apply inl_close_bracket_match in Ecb; [|unfold inl_INV; rewrite Hs2; exact His].
    split; [exact Ecb|exact I]. }
  match type of H with (if ?c then _ else _) = _ => destruct c end.
  - match type of H with bind ?r _ = _ => destruct r as [tmp| |] eqn:Etmp; cbn [bind] in H; try discriminate H end.
    apply inl_mk_val in Etmp.
    match type of H with bind ?r _ = _ => destruct r as [ecol| |]; cbn [bind] in H; try discriminate H end.
    unfold fresh_id in H. inversion H; subst s' n. clear H. split; [|exact I].
    cbn [sibs pop_bracket set_brackets set_delims set_sibs].
    apply inl_FI_app. split; [apply inl_FI_filter, Ha|].
    apply inl_FI_cons. split; [|exact Hbe].
    cbn [snd]. apply inl_tree7_node. split; [rewrite Etmp; reflexivity|reflexivity].
  - apply inl_close_text in H. destruct H as [-> H]. split; [|exact H].
    cbn [sibs set_pos pop_bracket set_brackets]. rewrite Hs2. exact His.
Qed.

(* ------------------------------------------------------------------ wikilinks *)
Lemma inl_lbe_loop_n o s sc0 : forall k rest, List.length rest <= k -> forall offset startpos cur acc l,
  lbe_loop o s sc0 rest offset startpos cur acc = Ok l ->
  forallb inl_tree7 acc = true -> forallb inl_tree7 l = true.
Proof.
  induction k as [|k IH]; intros rest Hk offset startpos cur acc l H Ha.
  - destruct rest as [|c r]; [|cbn [List.length] in Hk; lia]. cbn [lbe_loop] in H.
    assert (forallb inl_tree7 (rev acc) = true) as Hr.
    { apply inl_forallb_Forall, Forall_rev, inl_forallb_Forall, Ha. }
    destruct (Nat.eqb startpos offset); [inversion H; subst; exact Hr|].
    inv. inl_mks. cbn [rev]. apply inl_forallb_app. split; [exact Hr|reflexivity].
  - destruct rest as [|c r].
    { apply (IH [] (Nat.le_0_l _) offset startpos cur acc l H Ha). }
    cbn [List.length] in Hk. cbn [lbe_loop] in H.
    destruct r as [|c2 r2]; [eapply (IH []); [cbn; lia|eassumption|assumption]|].
    cbn [List.length] in Hk.
    destruct (beqb c x5c && sl_ispunct c2); [|eapply (IH (c2 :: r2)); [cbn [List.length]; lia|eassumption|assumption]].
    match type of H with bind ?r _ = _ => destruct r as [e| |]; cbn [bind] in H; try discriminate H end.
    match type of H with bind ?r _ = _ => destruct r as [pre| |] eqn:Epre; cbn [bind] in H; try discriminate H end.
    match type of H with bind ?r _ = _ => destruct r as [t| |] eqn:Et; cbn [bind] in H; try discriminate H end.
    match type of H with bind ?r _ = _ => destruct r as [x| |] eqn:Ex; cbn [bind] in H; try discriminate H end.
    assert (inl_tree7 x = true) as Hx by (inv; inl_mks; reflexivity).
    assert (inl_tree7 pre = true) as Hpre by (inl_mks; reflexivity).
    clear Ex Et Epre.
    eapply (IH r2); [lia|exact H|].
    cbn [forallb]. rewrite Hx, Hpre, Ha. reflexivity.
Qed.

Lemma inl_lbe_loop o s sc0 rest offset startpos cur acc l :
  lbe_loop o s sc0 rest offset startpos cur acc = Ok l ->
  forallb inl_tree7 acc = true -> forallb inl_tree7 l = true.
Proof. apply (inl_lbe_loop_n o s sc0 (List.length rest) rest (Nat.le_refl _)). Qed.

Lemma inl_handle_wikilink o inp s s' n :
  handle_wikilink o inp s = Ok (Some (s', n)) -> sibs s' = sibs s /\ inl_tree7 n = true.
Proof.
  unfold handle_wikilink. intro H.
  destruct (wikilink_url_link_label o inp (pos s)) as [[[url ll] p']|]; [|discriminate].
  cbv zeta in H.
  match type of H with bind ?r _ = _ => destruct r as [cu| |]; cbn [bind] in H; try discriminate H end.
  match type of H with bind ?r _ = _ => destruct r as [lab| |]; cbn [bind] in H; try discriminate H end.
  match type of H with bind ?r _ = _ => destruct r as [a| |]; cbn [bind] in H; try discriminate H end.
  match type of H with bind ?r _ = _ => destruct r as [n0| |] eqn:En; cbn [bind] in H; try discriminate H end.
  match type of H with bind ?r _ = _ => destruct r as [kids| |] eqn:Ek; cbn [bind] in H; try discriminate H end.
  apply inl_lbe_loop in Ek; [|reflexivity].
  inversion H; subst. inl_mks. split; [reflexivity|].
  cbn [set_ch]. apply inl_tree7_node. split; [reflexivity|exact Ek].
Qed.

(* ------------------------------------------------------------------ autolink extension *)
Lemma inl_rewind_loop : forall fuel reverse l l', rewind_loop fuel reverse l = Ok l' -> inl_FI l -> inl_FI l'.
Proof.
  induction fuel as [|f IH]; intros reverse l l' H Hl.
  - destruct reverse; [inversion H; subst; exact Hl|discriminate].
  - cbn [rewind_loop] in H. destruct reverse as [|rv]; [inversion H; subst; exact Hl|].
    destruct l as [|[id n] r]; [discriminate|].
    apply inl_FI_cons in Hl. destruct Hl as [Hn Hr]. cbn [snd] in Hn.
    destruct (text_of n) as [prev|]; [|discriminate].
    match type of H with (if ?c then _ else _) = _ => destruct c end.
    + cbv zeta in H. inv. apply inl_FI_cons. split; [|exact Hr].
      cbn [snd]. rewrite inl_set_sp_tree7. apply inl_set_text_tree7, Hn.
    + eapply IH; eassumption.
Qed.

Lemma inl_handle_autolink_with o s m s' n :
  handle_autolink_with o s m = Ok (Some (s', n)) -> inl_INV s -> inl_INV s' /\ inl_tree7 n = true.
Proof.
  unfold handle_autolink_with, inl_INV. intros H Hi.
  match type of H with (if ?c then _ else _) = _ => destruct c; [discriminate|] end.
  cbv zeta in H.
  match type of H with bind ?r _ = _ => destruct r as [r0| |]; cbn [bind] in H; try discriminate H end.
  destruct r0 as [[[[url text] need_reverse] skip]|]; [|discriminate].
  match type of H with bind ?r _ = _ => destruct r as [adv| |]; cbn [bind] in H; try discriminate H end.
  match type of H with bind ?r _ = _ => destruct r as [l'| |] eqn:Er; cbn [bind] in H; try discriminate H end.
  apply inl_rewind_loop in Er; [|exact Hi].
  inversion H; subst. split; [exact Er|reflexivity].
Qed.

(* ------------------------------------------------------------------ parse_inline *)
Lemma inl_append_inv r s s2 :
  (forall s1 n, r = Ok (s1, n) -> sibs s1 = sibs s /\ inl_tree7 n = true) ->
  append r = Ok (Some s2) -> inl_FI (sibs s) -> inl_INV s2.
Proof.
  unfold append, inl_INV. intros Hr H Hs. destruct r as [[s1 n]| |]; cbn [bind] in H; try discriminate H.
  destruct (Hr s1 n eq_refl) as [H1 H2]. inversion H; subst.
  cbn [push_item fst sibs set_sibs]. apply inl_FI_cons. split; [exact H2|rewrite H1; exact Hs].
Qed.

Lemma inl_text1 s c s2 : text1 s c = Ok (Some s2) -> inl_FI (sibs s) -> inl_INV s2.
Proof.
  unfold text1. intros H Hs. cbv zeta in H. eapply inl_append_inv; [|exact H|exact Hs].
  intros s1 n E. inv. inl_fin.
Qed.

Lemma inl_push_item s n : inl_FI (sibs s) -> inl_tree7 n = true -> inl_FI (sibs (fst (push_item s n))).
Proof. intros Hs Hn. cbn [push_item fst sibs set_sibs]. apply inl_FI_cons. split; assumption. Qed.

Lemma inl_push_bracket s img id : sibs (push_bracket s img id) = sibs s.
Proof. unfold push_bracket. destruct img; reflexivity. Qed.

Ltac inl_app L := (eapply inl_append_inv; [|eassumption|eassumption]); intros ? ? ?; eapply L; eassumption.

Lemma inl_parse_inline memo o u inp lo sl refmap maxref s0 s' :
  parse_inline memo o u inp lo sl refmap maxref s0 = Ok (Some s') -> inl_INV s0 -> inl_INV s'.
Proof.
  intros H Hi. unfold parse_inline in H.
  destruct (peek inp (pos s0)) as [c|]; [|discriminate].
  match type of H with bind ?r _ = _ => destruct r as [adj| |]; cbn [bind] in H; try discriminate H end.
  destruct (nth_error lo (N.to_nat adj)) as [off|]; [|discriminate].
  cbv zeta in H.
  remember (set_lineoff s0 off) as s eqn:Hs.
  assert (inl_FI (sibs s)) as His by (subst s; exact Hi). clear Hs Hi s0 adj.
  match type of H with (if ?c then _ else _) = _ => destruct c; [discriminate|] end.
  match type of H with (if ?c then _ else _) = _ => destruct c end. { inl_app inl_handle_newline. }
  match type of H with (if ?c then _ else _) = _ => destruct c end. { inl_app inl_handle_backticks. }
  match type of H with (if ?c then _ else _) = _ => destruct c end. { inl_app inl_handle_backslash. }
  match type of H with (if ?c then _ else _) = _ => destruct c end. { inl_app inl_handle_entity. }
  match type of H with (if ?c then _ else _) = _ => destruct c end. { inl_app inl_handle_pointy_brace. }
  match type of H with (if ?c then _ else _) = _ => destruct c end.
  { match type of H with bind ?r _ = _ => destruct r as [r0| |] eqn:Er; cbn [bind] in H; try discriminate H end.
    destruct r0 as [[s1 n]|]; [|eapply inl_text1; eassumption].
    destruct (io_autolink o); [|discriminate].
    apply inl_handle_autolink_with in Er; [|exact His]. destruct Er as [H1 H2].
    inversion H; subst. apply inl_push_item; assumption. }
  match type of H with (if ?c then _ else _) = _ => destruct c end.
  { match type of H with bind ?r _ = _ => destruct r as [r0| |] eqn:Er; cbn [bind] in H; try discriminate H end.
    destruct r0 as [[s1 n]|]; [|eapply inl_text1; eassumption].
    apply inl_handle_autolink_with in Er; [|exact His]. destruct Er as [H1 H2].
    inversion H; subst. apply inl_push_item; assumption. }
  match type of H with (if ?c then _ else _) = _ => destruct c end.
  { match type of H with bind ?r _ = _ => destruct r as [[[s1 n] d]| |] eqn:Er; cbn [bind] in H; try discriminate H end.
    apply inl_handle_delim in Er. destruct Er as [H1 H2].
    unfold push_item in H. inversion H; subst. unfold inl_INV.
    destruct d; cbn [sibs set_delims set_sibs]; (apply inl_FI_cons; split; [exact H2|rewrite H1; exact His]). }
  match type of H with (if ?c then _ else _) = _ => destruct c end. { inl_app inl_handle_hyphen. }
  match type of H with (if ?c then _ else _) = _ => destruct c end. { inl_app inl_handle_period. }
  match type of H with (if ?c then _ else _) = _ => destruct c end.
  { match type of H with bind ?r _ = _ => destruct r as [w| |] eqn:Ew; cbn [bind] in H; try discriminate H end.
    destruct w as [[s2 n]|].
    - match type of Ew with (if ?c then _ else _) = _ => destruct c; [|discriminate] end.
      apply inl_handle_wikilink in Ew. destruct Ew as [H1 H2]. cbn [sibs set_pos] in H1.
      inversion H; subst. apply inl_push_item; [rewrite H1; exact His|exact H2].
    - match type of H with bind ?r _ = _ => destruct r as [n| |] eqn:En; cbn [bind] in H; try discriminate H end.
      unfold push_item in H. inversion H; subst. unfold inl_INV.
      cbn [sibs set_within]. try rewrite inl_push_bracket. cbn [sibs set_within set_nlo set_brackets set_sibs set_pos].
      apply inl_FI_cons. split; [|exact His]. inl_mks. reflexivity. }
  match type of H with (if ?c then _ else _) = _ => destruct c end.
  { match type of H with bind ?r _ = _ => destruct r as [[s1 n]| |] eqn:Er; cbn [bind] in H; try discriminate H end.
    apply inl_handle_close_bracket in Er; [|exact His]. destruct Er as [H1 H2].
    inversion H; subst. destruct n as [n|]; [|exact H1]. apply inl_push_item; assumption. }
  match type of H with (if ?c then _ else _) = _ => destruct c end.
  { match type of H with (if ?c then _ else _) = _ => destruct c end.
    - match type of H with bind ?r _ = _ => destruct r as [n| |] eqn:En; cbn [bind] in H; try discriminate H end.
      unfold push_item in H. inversion H; subst. unfold inl_INV.
      cbn [sibs set_within]. try rewrite inl_push_bracket. cbn [sibs set_within set_nlo set_brackets set_sibs set_pos].
      apply inl_FI_cons. split; [|exact His]. inl_mks. reflexivity.
    - eapply inl_append_inv; [|exact H|exact His]. intros s1 n E. inv. inl_fin. }
  match type of H with (if ?c then _ else _) = _ => destruct c end. { inl_app inl_handle_dollars. }
  match type of H with bind ?r _ = _ => destruct r as [contents| |]; cbn [bind] in H; try discriminate H end.
  match type of H with bind ?r _ = _ => destruct r as [[contents1 endpos1]| |]; cbn [bind] in H; try discriminate H end.
  match type of H with bind ?r _ = _ => destruct r as [[contents2 startpos2]| |]; cbn [bind] in H; try discriminate H end.
  match type of H with bind ?r _ = _ => destruct r as [e| |]; cbn [bind] in H; try discriminate H end.
  eapply inl_append_inv; [|exact H|exact His]. intros s1 n E. inv. inl_fin.
Qed.

Lemma inl_inline_loop memo o u inp lo sl refmap maxref : forall fuel s s',
  inline_loop memo o u inp lo sl refmap maxref fuel s = Ok s' -> inl_INV s -> inl_INV s'.
Proof.
  induction fuel as [|f IH]; intros s s' H Hi; [discriminate|]. cbn [inline_loop] in H.
  destruct (parse_inline memo o u inp lo sl refmap maxref s) as [[s1|]| |] eqn:E; cbn [bind] in H; try discriminate H.
  - apply (IH s1 s' H). eapply inl_parse_inline; eassumption.
  - inversion H; subst; exact Hi.
Qed.

Theorem inl_parse_inlines_tree7 : forall memo o u inp lo sl refmap maxref rs0 ch rs,
  parse_inlines memo o u inp lo sl refmap maxref rs0 = Ok (ch, rs) -> forallb inl_tree7 ch = true.
Proof.
  intros memo o u inp lo sl refmap maxref rs0 ch rs H. unfold parse_inlines in H.
  match type of H with bind ?r _ = _ => destruct r as [s| |] eqn:El; cbn [bind] in H; try discriminate H end.
  match type of H with bind ?r _ = _ => destruct r as [[items n1]| |] eqn:Ep; cbn [bind] in H; try discriminate H end.
  apply inl_inline_loop in El; [|apply inl_FI_nil].
  apply inl_process_emphasis in Ep; [|apply inl_FI_rev, El].
  inversion H; subst. cbn [fst]. apply inl_FI_map_snd, Ep.
Qed.

Theorem inl_kinds_valid : InlinesProofs.inline_kinds_valid_full_statement.
Proof.
  intros memo o u inp lo sl refmap maxref rs0 ch rs H.
  apply inl_parse_inlines_tree7 in H. apply (inl_forallb_tree7_all ch H).
Qed.

(* ================================================================== 2. postprocess_block *)
Lemma inl_merge_texts : forall l acc endc pcs t e p rest,
  merge_texts l acc endc pcs = (t, e, p, rest) -> forallb inl_tree7 l = true -> forallb inl_tree7 rest = true.
Proof.
  induction l as [|[v sp ch] r IH]; intros acc endc pcs t e p rest H Hl.
  - cbn [merge_texts] in H. inversion H; subst. reflexivity.
  - pose proof Hl as Hl0. cbn [forallb] in Hl. apply andb_true_iff in Hl. destruct Hl as [_ Hr].
    cbn [merge_texts] in H.
    destruct v; try (inversion H; subst; exact Hl0).
    eapply IH; eassumption.
Qed.

Lemma inl_pea o : forall fuel contents sp spx c' sp' spx' ins,
  pea o fuel contents sp spx = Ok (c', sp', spx', ins) -> forallb inl_tree7 ins = true.
Proof.
  induction fuel as [|f IH]; intros contents sp spx c' sp' spx' ins H; [discriminate|].
  cbn [pea] in H.
  match type of H with bind ?r _ = _ => destruct r as [r0| |]; cbn [bind] in H; try discriminate H end.
  destruct r0 as [[i0 [[[url text] reverse] skip]]|]; [|inversion H; subst; reflexivity].
  match type of H with bind ?r _ = _ => destruct r as [i| |]; cbn [bind] in H; try discriminate H end.
  cbv zeta in H.
  match type of H with bind ?r _ = _ => destruct r as [[endc spx1]| |]; cbn [bind] in H; try discriminate H end.
  match type of H with bind ?r _ = _ => destruct r as [[nsp_end spx2]| |]; cbn [bind] in H; try discriminate H end.
  match type of H with match ?c with _ => _ end = _ => destruct c as [rem|] end.
  - match type of H with bind ?r _ = _ => destruct r as [[[[rem' asp'] spx3] more]| |] eqn:Er; cbn [bind] in H; try discriminate H end.
    apply IH in Er. inversion H; subst. cbn [forallb]. rewrite Er. reflexivity.
  - inversion H; subst. reflexivity.
Qed.

Lemma inl_pp_list o : forall fuel ctx top first l l' eff,
  pp_list o fuel ctx top first l = Ok (l', eff) -> forallb inl_tree7 l = true -> forallb inl_tree7 l' = true.
Proof.
  induction fuel as [|f IH]; intros ctx top first l l' eff H Hl; [discriminate|].
  cbn [pp_list] in H.
  destruct l as [|[v sp ch] r]; [inversion H; subst; reflexivity|].
  cbn [forallb] in Hl. apply andb_true_iff in Hl. destruct Hl as [Hn Hr].
  apply inl_tree7_node in Hn. destruct Hn as [Hv Hc].
  assert (forall rr, bind (pp_list o f ctx top false r) (fun rr0 => let (rest', eff') := rr0 in
             if is_bracket_kind v then Ok (Node v sp ch :: rest', eff')
             else bind (pp_list o f None false true ch) (fun cc => Ok (Node v sp (fst cc) :: rest', eff'))) = Ok (l', rr) ->
          forallb inl_tree7 l' = true) as Hgen.
  { intros rr Hg.
    match type of Hg with bind ?r _ = _ => destruct r as [[rest' eff']| |] eqn:Er; cbn [bind] in Hg; try discriminate Hg end.
    apply IH in Er; [|exact Hr].
    destruct (is_bracket_kind v).
    - inversion Hg; subst. cbn [forallb]. rewrite Er, andb_true_r. apply inl_tree7_node. split; assumption.
    - match type of Hg with bind ?r _ = _ => destruct r as [[cc ceff]| |] eqn:Ec; cbn [bind] in Hg; try discriminate Hg end.
      apply IH in Ec; [|exact Hc]. inversion Hg; subst. cbn [forallb fst]. rewrite Er, andb_true_r.
      apply inl_tree7_node. split; assumption. }
  destruct v; try (exact (Hgen _ H)).
  clear Hgen.
  match type of H with (let '(_, _) := ?x in _) = _ => destruct x as [[[text endc] spxv] rest] eqn:Em end.
  apply inl_merge_texts in Em; [|exact Hr].
  match type of H with bind ?r _ = _ => destruct r as [[[[text1 sp1] spx1] eff1]| |]; cbn [bind] in H; try discriminate H end.
  match type of H with bind ?r _ = _ => destruct r as [[[[text2 sp2] spx2] inserted]| |] eqn:Ep; cbn [bind] in H; try discriminate H end.
  assert (forallb inl_tree7 inserted = true) as Hins.
  { destruct (io_autolink o); [eapply inl_pea; exact Ep|inversion Ep; subst; reflexivity]. }
  match type of H with bind ?r _ = _ => destruct r as [[rest' eff']| |] eqn:Er; cbn [bind] in H; try discriminate H end.
  apply IH in Er; [|apply inl_forallb_app; split; assumption].
  destruct text2; inversion H; subst; [exact Er|].
  cbn [forallb]. rewrite Er, andb_true_r. apply inl_tree7_node. split; [reflexivity|exact Hc].
Qed.

Theorem inl_postprocess_tree7 : forall o ctx children ch' eff,
  forallb inl_tree7 children = true -> postprocess_block o ctx children = Ok (ch', eff) ->
  forallb inl_tree7 ch' = true.
Proof. unfold postprocess_block. intros o ctx children ch' eff Hc H. eapply inl_pp_list; eassumption. Qed.

(* ================================================================== 5. non-vacuity *)
(* subscript and spoiler on, strikethrough off: a double tilde pair and a single bar pair become EscapedTag *)
Definition inl_example_opts : iopts :=
  mkIO false false true false false true false false false false false false false false false false false.
(* star a star, space, a link b to /u, space, tilde tilde d tilde tilde, space, bar e bar *)
Definition inl_example_input : bytes :=
  [x2a; x61; x2a; x20; x5b; x62; x5d; x28; x2f; x75; x29; x20; x7e; x7e; x64; x7e; x7e; x20; x7c; x65; x7c].

Definition inl_is_escaped_tag (n : node) : bool := match nval n with EscapedTag _ => true | _ => false end.
Definition inl_is_emph (n : node) : bool := match nval n with Emph => true | _ => false end.
Definition inl_is_link (n : node) : bool := match nval n with Link _ _ => true | _ => false end.

Example inl_example_nonvacuous :
  match parse_inlines true inl_example_opts oracle_ascii inl_example_input [0%N] 1%N [] 100000%N 0%N with
  | Ok (ch, _) =>
    forallb inl_tree7 ch && existsb inl_is_escaped_tag ch && existsb inl_is_emph ch && existsb inl_is_link ch
    && Nat.eqb (List.length (filter inl_is_escaped_tag ch)) 2
  | _ => false
  end = true.
Proof. vm_compute. reflexivity. Qed.

Example inl_example_values :
  match parse_inlines true inl_example_opts oracle_ascii inl_example_input [0%N] 1%N [] 100000%N 0%N with
  | Ok (ch, _) => map nval ch
  | _ => []
  end = [Emph; Text [x20]; Link [x2f; x75] []; Text [x20]; EscapedTag [x7e; x7e]; Text [x20]; EscapedTag [x7c]].
Proof. vm_compute. reflexivity. Qed.

(* the post-pass on the same children, and an e-mail autolink made by pea: x@y.zz *)
Example inl_example_postprocess :
  match parse_inlines true inl_example_opts oracle_ascii inl_example_input [0%N] 1%N [] 100000%N 0%N with
  | Ok (ch, _) =>
    match postprocess_block inl_example_opts None ch with
    | Ok (ch', _) => forallb inl_tree7 ch' && existsb inl_is_escaped_tag ch'
    | _ => false
    end
  | _ => false
  end = true.
Proof. vm_compute. reflexivity. Qed.

Definition inl_example_opts_autolink : iopts :=
  mkIO true false false false false false false false false false false false false false false false false.

Example inl_example_email :
  match parse_inlines true inl_example_opts_autolink oracle_ascii [x78; x40; x79; x2e; x7a; x7a] [0%N] 1%N [] 100000%N 0%N with
  | Ok (ch, _) =>
    match postprocess_block inl_example_opts_autolink None ch with
    | Ok (ch', _) => forallb inl_tree7 ch' && existsb inl_is_link ch'
    | _ => false
    end
  | _ => false
  end = true.
Proof. vm_compute. reflexivity. Qed.

Print Assumptions inl_parse_inlines_tree7.
Print Assumptions inl_kinds_valid.
Print Assumptions inl_postprocess_tree7.
Print Assumptions inl_fn_resolve_tree7.
Print Assumptions inl_tree7_s3_go.
Print Assumptions inl_tree7_s4.
Print Assumptions inl_tree7_s7.
Print Assumptions inl_tree7_nofn.
Print Assumptions inl_tree7_no_table.
Print Assumptions inl_example_nonvacuous.
