(* Proofs/InlinesTotal4Stop.v — C01, inline phase, fourth wave: on valid UTF-8 without NUL the scanners
   html_processing_instruction, html_declaration, html_cdata stop only in front of their terminator (or so near the end
   of the input that handle_pointy_brace gives up), hence the `scanner match + k` bytes handle_pointy_brace takes end
   in `>`: InlinesTotal4Last.pointy_hard_ok holds behind every `<` (hardok_utf8).  No axioms. *)
From Coq Require Import List NArith ZArith Arith Bool Strings.String Lia.
From V Require Import Base.Bytes Base.Res Base.Regex Base.Re2c Gen.ScannersRe Gen.StrLeafGen Model.Scan Model.Strings Model.Ast Model.Inlines
     Spec.EscapeSpec Proofs.RegexProofs Proofs.ScanProofs Proofs.InlinesProofs Proofs.InlinesMemo
     Proofs.InlinesTotal4Last Proofs.InlinesTotal4Auto Proofs.InlinesTotal4Inv Proofs.InlinesTotal4Utf8.
Import ListNotations.
Local Open Scope list_scope.

Lemma scan1_spec R s :
  match as_opt_usize (run_rules [RPlain R ActCursor] ActNone 0 s) with
  | Some m => m <= List.length s /\ matches R (firstn m s)
              /\ forall m', m < m' -> m' <= List.length s -> ~ matches R (firstn m' s)
  | None => forall m, m <= List.length s -> ~ matches R (firstn m s)
  end.
Proof.
  destruct (run_rules_plain [RPlain R ActCursor] ActNone s eq_refl) as [[E Hn]|(r & a & L & Hin & Hl & E & _)]; rewrite E.
  - cbn. apply longest_match_none. apply (Hn (RPlain R ActCursor)). left; reflexivity.
  - destruct Hin as [Hin|[]]. inversion Hin; subst r a. cbn. apply longest_match_spec in Hl. exact Hl.
Qed.

Lemma no_extension R (s : bytes) m e rest :
  (forall m', m < m' -> m' <= List.length s -> ~ matches R (firstn m' s)) ->
  skipn m s = e ++ rest -> e <> [] -> m <= List.length s -> matches R (firstn m s ++ e) -> False.
Proof.
  intros H Hr Hne Hm Hmt.
  assert (List.length e + List.length rest = List.length s - m) as Hl.
  { rewrite <- app_length, <- Hr, skipn_length. reflexivity. }
  apply (H (m + List.length e)).
  - destruct e; [contradiction|cbn [List.length]; lia].
  - lia.
  - rewrite firstn_plus_skipn, Hr, firstn_app, Nat.sub_diag, firstn_all, firstn_O, app_nil_r. exact Hmt.
Qed.

Lemma firstn_len_app (e rest : bytes) : firstn (List.length e) (e ++ rest) = e.
Proof. rewrite firstn_app, Nat.sub_diag, firstn_all, firstn_O, app_nil_r. reflexivity. Qed.

Lemma In_skipn' (x : byte) m (s : bytes) : In x (skipn m s) -> In x s.
Proof. intro H. rewrite <- (firstn_skipn m s). apply in_or_app. right. exact H. Qed.

Lemma run_ascii c l : is_ascii c = true -> utf8_run U0 (c :: l) = utf8_run U0 l.
Proof. intro H. cbn [utf8_run ustep]. rewrite H. reflexivity. Qed.

Lemma plus_ext X w e : matches (Plus X) w -> matches X e -> matches (Plus X) (w ++ e).
Proof.
  unfold Plus. intros H He. apply matches_Cat in H. destruct H as (s1 & s2 & -> & H1 & H2).
  rewrite <- app_assoc. apply matches_Cat. exists s1, (s2 ++ e). split; [reflexivity|]. split; [exact H1|].
  apply matches_Star_app; [exact H2|apply matches_Star_one; exact He].
Qed.

Lemma plus_one X e : matches X e -> matches (Plus X) e.
Proof. intro H. rewrite <- (app_nil_r e). unfold Plus. constructor; [exact H|constructor]. Qed.

Lemma star_ext A X w e : matches (Cat A (Star X)) w -> matches X e -> matches (Cat A (Star X)) (w ++ e).
Proof.
  intros H He. apply matches_Cat in H. destruct H as (s1 & s2 & -> & H1 & H2).
  rewrite <- app_assoc. apply matches_Cat. exists s1, (s2 ++ e). split; [reflexivity|]. split; [exact H1|].
  apply matches_Star_app; [exact H2|apply matches_Star_one; exact He].
Qed.

Lemma nul_of (s : bytes) b : (forall c, In c s -> c <> x00) -> In b s -> beqb b x00 = false.
Proof. intros H Hin. destruct (beqb b x00) eqn:E; [|reflexivity]. apply beqb_eq in E. exfalso. exact (H b Hin E). Qed.

(* ------------------------------------------------------------------ processing instruction *)
Definition Xpi : re := AltL [Plus cls_20; CatL [cls_21; cls_22]; cls_17].

Lemma pi_X1 ch : matches cls_20 ch -> matches Xpi ch.
Proof. intro H. unfold Xpi. cbn [AltL]. apply MAltL. apply plus_one. exact H. Qed.
Lemma pi_X2 ch : matches cls_22 ch -> matches Xpi (x3f :: ch).
Proof.
  intro H. unfold Xpi. cbn [AltL CatL]. apply MAltR. apply MAltL. change (x3f :: ch) with ([x3f] ++ ch).
  constructor; [|exact H]. constructor. reflexivity.
Qed.
Lemma pi_X3 : matches Xpi [x3e].
Proof. unfold Xpi. cbn [AltL]. apply MAltR. apply MAltR. constructor. reflexivity. Qed.

Lemma pi_stop s :
  utf8_run U0 s = true -> (forall c, In c s -> c <> x00) ->
  opt0 (scan_html_processing_instruction s) + 2 <= List.length s ->
  nth_error s (opt0 (scan_html_processing_instruction s) + 1) = Some x3e.
Proof.
  intros Hv Hn. set (m := opt0 (scan_html_processing_instruction s)). intro Hlen.
  assert ((forall e rest, skipn m s = e ++ rest -> e <> [] -> matches Xpi e -> False)
          /\ utf8_run U0 (skipn m s) = true) as [Hext Hvr].
  { unfold m, scan_html_processing_instruction, rules_html_processing_instruction, default_html_processing_instruction,
      pad_html_processing_instruction.
    pose proof (scan1_spec re_processinginstruction s) as K.
    destruct (as_opt_usize _) as [m0|]; cbn [opt0].
    - destruct K as (K1 & K2 & K3). split.
      + intros e rest Hr Hne He. eapply no_extension; [exact K3|exact Hr|exact Hne|exact K1|].
        apply plus_ext; [exact K2|exact He].
      + eapply valid_rest; [exact K2|exact u0_pi|exact Hv].
    - split; [|exact Hv]. intros e rest Hr Hne He. cbn [skipn] in Hr. apply (K (List.length e)).
      + rewrite Hr, app_length. lia.
      + rewrite Hr, firstn_len_app. apply plus_one. exact He. }
  assert (List.length (skipn m s) = List.length s - m) as Hsl by apply skipn_length.
  destruct (skipn m s) as [|b r'] eqn:Er; [cbn in Hsl; lia|].
  assert (forall x, In x (b :: r') -> beqb x x00 = false) as Hnn.
  { intros x Hx. apply (nul_of s); [exact Hn|]. apply (In_skipn' x m). rewrite Er. exact Hx. }
  destruct (ex20 b) eqn:Eb.
  2:{ exfalso. destruct (cover_sound _ _ _ _ cover20 Hvr Eb) as (ch & rest' & E1 & Hne & Hm' & _).
      eapply Hext; [exact E1|exact Hne|apply pi_X1; exact Hm']. }
  unfold ex20 in Eb. rewrite (Hnn b (or_introl eq_refl)), orb_false_r in Eb.
  destruct (beqb b x3f) eqn:E1.
  - apply beqb_eq in E1. subst b.
    destruct r' as [|b2 r'']; [cbn in Hsl; lia|].
    rewrite run_ascii in Hvr by reflexivity.
    destruct (ex22 b2) eqn:Eb2.
    2:{ exfalso. destruct (cover_sound _ _ _ _ cover22 Hvr Eb2) as (ch & rest' & E2 & Hne & Hm' & _).
        apply (Hext (x3f :: ch) rest'); [rewrite E2; reflexivity|discriminate|apply pi_X2; exact Hm']. }
    unfold ex22 in Eb2. rewrite (Hnn b2 (or_intror (or_introl eq_refl))), orb_false_r in Eb2.
    apply beqb_eq in Eb2. subst b2.
    rewrite <- (nth_error_skipn s m 1), Er. reflexivity.
  - cbn [orb] in Eb. apply beqb_eq in Eb. subst b. exfalso.
    apply (Hext [x3e] r'); [reflexivity|discriminate|exact pi_X3].
Qed.

(* ------------------------------------------------------------------ declaration *)
Lemma decl_ext w e : matches re_declaration w -> matches cls_22 e -> matches re_declaration (w ++ e).
Proof.
  unfold re_declaration. cbn [CatL]. intros H He.
  apply matches_Cat in H. destruct H as (s1 & s2 & -> & H1 & H2). rewrite <- app_assoc.
  apply matches_Cat. exists s1, (s2 ++ e). split; [reflexivity|]. split; [exact H1|]. apply star_ext; assumption.
Qed.

Lemma decl_stop s m :
  utf8_run U0 s = true -> (forall c, In c s -> c <> x00) ->
  scan_html_declaration s = Some m -> m + 1 <= List.length s -> nth_error s m = Some x3e.
Proof.
  intros Hv Hn Hs Hlen.
  unfold scan_html_declaration, rules_html_declaration, default_html_declaration, pad_html_declaration in Hs.
  pose proof (scan1_spec re_declaration s) as K. rewrite Hs in K. destruct K as (K1 & K2 & K3).
  pose proof (valid_rest _ _ _ K2 u0_decl Hv) as Hvr.
  assert (List.length (skipn m s) = List.length s - m) as Hsl by apply skipn_length.
  destruct (skipn m s) as [|b r'] eqn:Er; [cbn in Hsl; lia|].
  destruct (ex22 b) eqn:Eb.
  2:{ exfalso. destruct (cover_sound _ _ _ _ cover22 Hvr Eb) as (ch & rest' & E1 & Hne & Hm' & _).
      eapply no_extension; [exact K3|rewrite Er; exact E1|exact Hne|exact K1|]. apply decl_ext; assumption. }
  unfold ex22 in Eb.
  rewrite (nul_of s b Hn), orb_false_r in Eb by (apply (In_skipn' b m); rewrite Er; left; reflexivity).
  apply beqb_eq in Eb. subst b.
  rewrite <- (Nat.add_0_r m), <- (nth_error_skipn s m 0), Er. reflexivity.
Qed.

(* ------------------------------------------------------------------ CDATA *)
Definition Ycd : re := AltL [Plus cls_24; CatL [lit_ci [x5d]; cls_24]; CatL [lit_ci [x5d; x5d]; cls_22]].

Lemma cd_Y1 ch : matches cls_24 ch -> matches Ycd ch.
Proof. intro H. unfold Ycd. cbn [AltL]. apply MAltL. apply plus_one. exact H. Qed.
Lemma cd_Y2 ch : matches cls_24 ch -> matches Ycd (x5d :: ch).
Proof.
  intro H. unfold Ycd. cbn [AltL CatL]. apply MAltR. apply MAltL. change (x5d :: ch) with ([x5d] ++ ch).
  constructor; [|exact H]. apply matchb_spec. vm_compute. reflexivity.
Qed.
Lemma cd_Y3 ch : matches cls_22 ch -> matches Ycd (x5d :: x5d :: ch).
Proof.
  intro H. unfold Ycd. cbn [AltL CatL]. apply MAltR. apply MAltR. change (x5d :: x5d :: ch) with ([x5d; x5d] ++ ch).
  constructor; [|exact H]. apply matchb_spec. vm_compute. reflexivity.
Qed.

Lemma cdata_ext w e : matches re_cdata w -> matches Ycd e -> matches re_cdata (w ++ e).
Proof. unfold re_cdata. cbn [CatL]. apply star_ext. Qed.

Lemma cdata_stop s m :
  utf8_run U0 s = true -> (forall c, In c s -> c <> x00) ->
  scan_html_cdata s = Some m -> m + 3 <= List.length s -> nth_error s (m + 2) = Some x3e.
Proof.
  intros Hv Hn Hs Hlen.
  unfold scan_html_cdata, rules_html_cdata, default_html_cdata, pad_html_cdata in Hs.
  pose proof (scan1_spec re_cdata s) as K. rewrite Hs in K. destruct K as (K1 & K2 & K3).
  pose proof (valid_rest _ _ _ K2 u0_cdata Hv) as Hvr.
  assert (forall e rest, skipn m s = e ++ rest -> e <> [] -> matches Ycd e -> False) as Hext.
  { intros e rest Hr Hne He. eapply no_extension; [exact K3|exact Hr|exact Hne|exact K1|]. apply cdata_ext; assumption. }
  assert (List.length (skipn m s) = List.length s - m) as Hsl by apply skipn_length.
  destruct (skipn m s) as [|b r'] eqn:Er; [cbn in Hsl; lia|].
  assert (forall x, In x (b :: r') -> beqb x x00 = false) as Hnn.
  { intros x Hx. apply (nul_of s); [exact Hn|]. apply (In_skipn' x m). rewrite Er. exact Hx. }
  destruct (ex24 b) eqn:Eb.
  2:{ exfalso. destruct (cover_sound _ _ _ _ cover24 Hvr Eb) as (ch & rest' & E1 & Hne & Hm' & _).
      eapply Hext; [exact E1|exact Hne|apply cd_Y1; exact Hm']. }
  unfold ex24 in Eb. rewrite (Hnn b (or_introl eq_refl)), orb_false_r in Eb. apply beqb_eq in Eb. subst b.
  destruct r' as [|b2 r'']; [cbn in Hsl; lia|].
  rewrite run_ascii in Hvr by reflexivity.
  destruct (ex24 b2) eqn:Eb2.
  2:{ exfalso. destruct (cover_sound _ _ _ _ cover24 Hvr Eb2) as (ch & rest' & E2 & Hne & Hm' & _).
      apply (Hext (x5d :: ch) rest'); [rewrite E2; reflexivity|discriminate|apply cd_Y2; exact Hm']. }
  unfold ex24 in Eb2. rewrite (Hnn b2 (or_intror (or_introl eq_refl))), orb_false_r in Eb2. apply beqb_eq in Eb2. subst b2.
  destruct r'' as [|b3 r3]; [cbn in Hsl; lia|].
  rewrite run_ascii in Hvr by reflexivity.
  destruct (ex22 b3) eqn:Eb3.
  2:{ exfalso. destruct (cover_sound _ _ _ _ cover22 Hvr Eb3) as (ch & rest' & E3 & Hne & Hm' & _).
      apply (Hext (x5d :: x5d :: ch) rest'); [rewrite E3; reflexivity|discriminate|apply cd_Y3; exact Hm']. }
  unfold ex22 in Eb3. rewrite (Hnn b3 (or_intror (or_intror (or_introl eq_refl)))), orb_false_r in Eb3.
  apply beqb_eq in Eb3. subst b3.
  rewrite <- (nth_error_skipn s m 2), Er. reflexivity.
Qed.

(* ------------------------------------------------------------------ pointy_hard_ok on valid UTF-8 without NUL *)
Section Hard.
Variable inp : bytes.
Hypothesis Hvalid : utf8_valid inp = true.
Hypothesis Hnul : has_nul inp = false.

Lemma no_nul_in : forall c, In c inp -> c <> x00.
Proof.
  intros c Hin ->. unfold has_nul in Hnul.
  assert (existsb (beqb x00) inp = true) as K by (apply existsb_exists; exists x00; split; [exact Hin|reflexivity]).
  rewrite K in Hnul. discriminate Hnul.
Qed.

Lemma no_nul_skipn k : forall c, In c (skipn k inp) -> c <> x00.
Proof. intros c Hc. apply no_nul_in. eapply In_skipn'. exact Hc. Qed.

Lemma hardok_utf8 : hardok inp.
Proof.
  intros p0 Ep0. set (p := S p0). split; [|split].
  - intros m E1 E2 Es El. apply Nat.ltb_ge in El. unfold len in El.
    assert (utf8_run U0 (skipn (p + 2) inp) = true) as Hv.
    { replace (p + 2) with (S (S p)) by lia. eapply valid_after_ascii; [exact Hvalid|exact E2|reflexivity]. }
    pose proof (cdata_stop _ m Hv (no_nul_skipn _) Es) as K. rewrite skipn_length in K.
    specialize (K ltac:(lia)). rewrite nth_error_skipn in K.
    exists (p + 2 + (m + 2)), x3e. split; [lia|]. split; [exact K|reflexivity].
  - intros m E1 _ Es El. apply Nat.ltb_ge in El. unfold len in El.
    assert (utf8_run U0 (skipn (S p) inp) = true) as Hv.
    { eapply valid_after_ascii; [exact Hvalid|exact E1|reflexivity]. }
    pose proof (decl_stop _ m Hv (no_nul_skipn _) Es) as K. rewrite skipn_length in K.
    specialize (K ltac:(lia)). rewrite nth_error_skipn in K.
    exists (S p + m), x3e. split; [lia|]. split; [exact K|reflexivity].
  - intros E1 El. apply Nat.ltb_ge in El. unfold len in El.
    assert (utf8_run U0 (skipn (S p) inp) = true) as Hv.
    { eapply valid_after_ascii; [exact Hvalid|exact E1|reflexivity]. }
    pose proof (pi_stop _ Hv (no_nul_skipn _)) as K. rewrite skipn_length in K.
    specialize (K ltac:(lia)). rewrite nth_error_skipn in K.
    set (m := opt0 (scan_html_processing_instruction (skipn (S p) inp))) in *.
    exists (S p + (m + 1)), x3e. split; [lia|]. split; [exact K|reflexivity].
Qed.

End Hard.
