(* Proofs/BlocksTotal4Marker.v — parse_list_marker (Model/ListMarker.v) never panics on a line that ends
   with LF when `pos` is inside the line, and a marker it reports ends before the end of the line. *)
From Coq Require Import List NArith Arith Bool Lia Strings.String.
From V Require Import Base.Bytes Base.Res Gen.StrLeafGen Model.Ast Model.Strings Model.ListMarker
  Proofs.BlocksCursor.
Import ListNotations.
Local Open Scope string_scope.
Local Open Scope list_scope.

(* s = line[pos..] is non-empty and ends with LF *)
Definition lfend (s : bytes) : Prop := exists l, s = l ++ [x0a].

Lemma lfend_ne : forall s, lfend s -> s <> [].
Proof. intros s [l E] N. subst s. destruct l; discriminate. Qed.

Lemma lfend_tail : forall c r, lfend (c :: r) -> c <> x0a -> lfend r.
Proof.
  intros c r [l E] N. destruct l as [|x l]; cbn [app] in E.
  - injection E as E1 E2. contradiction.
  - injection E as E1 E2. exists l. exact E2.
Qed.

Lemma lfend_skipn : forall line pos, lf_terminated line -> pos < List.length line -> lfend (skipn pos line).
Proof.
  intros line pos [l E] H. subst line. rewrite app_length in H. cbn [List.length] in H.
  exists (skipn pos l). rewrite skipn_app. replace (pos - List.length l) with 0 by lia. reflexivity.
Qed.

Definition sot_not_lf (b : byte) : bool := implb (is_space_or_tab b) (negb (beqb b x0a)).
Lemma sot_not_lf_all : forall b, sot_not_lf b = true.
Proof. apply forall_bytes. vm_compute. reflexivity. Qed.

Definition digit_not_lf (b : byte) : bool :=
  implb (sl_isdigit b) (negb (beqb b x0a) && negb (bN b <? 48)%N).
Lemma digit_not_lf_all : forall b, digit_not_lf b = true.
Proof. apply forall_bytes. vm_compute. reflexivity. Qed.

Lemma beqb_false_neq : forall a b, beqb a b = false -> a <> b.
Proof.
  intros a b H E. subst b.
  assert (beqb a a = true) as K by (apply beqb_eq; reflexivity).
  rewrite K in H. discriminate.
Qed.

Lemma sot_neq_lf : forall b, is_space_or_tab b = true -> b <> x0a.
Proof.
  intros b H. pose proof (sot_not_lf_all b) as K. unfold sot_not_lf in K. rewrite H in K. cbn [implb] in K.
  apply negb_true_iff in K. apply beqb_false_neq. exact K.
Qed.

Lemma digit_neq_lf : forall b, sl_isdigit b = true -> b <> x0a /\ (bN b <? 48)%N = false.
Proof.
  intros b H. pose proof (digit_not_lf_all b) as K. unfold digit_not_lf in K. rewrite H in K. cbn [implb] in K.
  apply andb_true_iff in K. destruct K as [K1 K2].
  apply negb_true_iff in K1. apply negb_true_iff in K2. split; [apply beqb_false_neq; exact K1 | exact K2].
Qed.

Lemma after_spaces_ok : forall s, lfend s -> exists e, after_spaces s = Ok e.
Proof.
  induction s as [|c r IH]; intro H.
  - exfalso. exact (lfend_ne _ H eq_refl).
  - cbn [after_spaces]. destruct (is_space_or_tab c) eqn:E; [|eauto].
    apply IH. apply (lfend_tail c r H). apply sot_neq_lf. exact E.
Qed.

Lemma digits_loop_ok : forall left s start digits,
  lfend s -> match s with d :: _ => sl_isdigit d = true | [] => True end ->
  exists st' d' rest, digits_loop left s start digits = Ok (st', d', rest) /\ lfend rest.
Proof.
  induction left as [|l IH]; intros s start digits Hs Hd; destruct s as [|d r];
    try (exfalso; exact (lfend_ne _ Hs eq_refl)); cbn [digits_loop];
    destruct (digit_neq_lf d Hd) as [N1 N2]; rewrite N2;
    pose proof (lfend_tail d r Hs N1) as Hr.
  - eauto.
  - destruct l as [|l']; [eauto|].
    destruct r as [|e r']; [exfalso; exact (lfend_ne _ Hr eq_refl)|].
    destruct (sl_isdigit e) eqn:Ee; [|eauto].
    apply IH; [exact Hr | exact Ee].
Qed.

Lemma digits_loop_len : forall left s start digits st' d' rest,
  digits_loop left s start digits = Ok (st', d', rest) ->
  List.length s + digits = d' + List.length rest.
Proof.
  induction left as [|l IH]; intros s start digits st' d' rest H; destruct s as [|d r];
    cbn [digits_loop] in H; try discriminate; destruct (bN d <? 48)%N; try discriminate.
  - injection H as Ea Eb Ec; subst. cbn [List.length]. lia.
  - destruct l as [|l'].
    + injection H as Ea Eb Ec; subst. cbn [List.length]. lia.
    + destruct r as [|e r']; [discriminate|]. destruct (sl_isdigit e).
      * apply IH in H. cbn [List.length] in *. lia.
      * injection H as Ea Eb Ec; subst. cbn [List.length]. lia.
Qed.

Lemma bullet_neq_lf : forall c, beqb c x2a || beqb c x2d || beqb c x2b = true -> c <> x0a.
Proof.
  intros c H E. subst c. vm_compute in H. discriminate.
Qed.

Theorem parse_list_marker_total : forall line pos ip,
  lf_terminated line -> pos < List.length line ->
  exists r, parse_list_marker line pos ip = Ok r.
Proof.
  intros line pos ip Hl Hp. unfold parse_list_marker.
  pose proof (lfend_skipn line pos Hl Hp) as Hs.
  destruct (skipn pos line) as [|c s1]; [exfalso; exact (lfend_ne _ Hs eq_refl)|].
  destruct (beqb c x2a || beqb c x2d || beqb c x2b) eqn:Eb.
  - pose proof (lfend_tail c s1 Hs (bullet_neq_lf c Eb)) as H1.
    destruct s1 as [|d s1']; [exfalso; exact (lfend_ne _ H1 eq_refl)|].
    destruct (negb (sl_isspace d)); [eauto|].
    destruct ip.
    + destruct (after_spaces_ok _ H1) as [e Ee]. rewrite Ee. cbn [bind].
      destruct (beqb e x0a); eauto.
    + cbn [bind]. eauto.
  - destruct (sl_isdigit c) eqn:Ed; [|eauto].
    destruct (digits_loop_ok list_digits_cap (c :: s1) 0%N 0 Hs Ed) as [start [digits [s2 [El H2]]]].
    rewrite El. cbn [bind].
    destruct (ip && negb (start =? 1)%N); [eauto|].
    destruct s2 as [|c2 s3]; [exfalso; exact (lfend_ne _ H2 eq_refl)|].
    destruct (negb (beqb c2 x2e) && negb (beqb c2 x29)) eqn:Ec; [eauto|].
    assert (c2 <> x0a) as Nc.
    { intro E. subst c2. vm_compute in Ec. discriminate. }
    pose proof (lfend_tail c2 s3 H2 Nc) as H3.
    destruct s3 as [|d s3']; [exfalso; exact (lfend_ne _ H3 eq_refl)|].
    destruct (negb (sl_isspace d)); [eauto|].
    destruct ip.
    + destruct (after_spaces_ok _ H3) as [e Ee]. rewrite Ee. cbn [bind].
      destruct (is_line_end_char e); eauto.
    + cbn [bind]. eauto.
Qed.

Lemma skipn_cons_len : forall (line : bytes) pos c s, skipn pos line = c :: s ->
  List.length line = pos + S (List.length s).
Proof.
  intros line pos c s H.
  assert (List.length (skipn pos line) = S (List.length s)) as K by (rewrite H; reflexivity).
  rewrite skipn_length in K. lia.
Qed.

(* the byte behind the marker was read (sl_isspace): no premise on the line is needed *)
Theorem parse_list_marker_inside : forall line pos ip n l,
  parse_list_marker line pos ip = Ok (Some (n, l)) -> 1 <= n /\ pos + n < List.length line.
Proof.
  intros line pos ip n l. unfold parse_list_marker.
  destruct (skipn pos line) as [|c s1] eqn:Es; [discriminate|].
  apply skipn_cons_len in Es.
  destruct (beqb c x2a || beqb c x2d || beqb c x2b).
  - destruct s1 as [|d s1']; [discriminate|]. destruct (negb (sl_isspace d)); [discriminate|].
    cbn [List.length] in Es.
    destruct ip.
    + destruct (after_spaces (d :: s1')) as [e| |]; cbn [bind]; try discriminate.
      destruct (beqb e x0a); [discriminate|]. intro H. inversion H; subst. lia.
    + cbn [bind]. intro H. inversion H; subst. lia.
  - destruct (sl_isdigit c); [|discriminate].
    destruct (digits_loop list_digits_cap (c :: s1) 0%N 0) as [[[start digits] s2]| |] eqn:El; cbn [bind]; try discriminate.
    apply digits_loop_len in El.
    destruct (ip && negb (start =? 1)%N); [discriminate|].
    destruct s2 as [|c2 s3]; [discriminate|].
    destruct (negb (beqb c2 x2e) && negb (beqb c2 x29)); [discriminate|].
    destruct s3 as [|d s3']; [discriminate|]. destruct (negb (sl_isspace d)); [discriminate|].
    cbn [List.length] in El, Es.
    destruct ip.
    + destruct (after_spaces (d :: s3')) as [e| |]; cbn [bind]; try discriminate.
      destruct (is_line_end_char e); [discriminate|]. intro H. inversion H; subst. lia.
    + cbn [bind]. intro H. inversion H; subst. lia.
Qed.

Print Assumptions parse_list_marker_total.
Print Assumptions parse_list_marker_inside.
