(* Proofs/FootnoteProofs.v — facts about Model/Footnotes.process. *)
From Coq Require Import List NArith Bool Lia Permutation Sorted.
From V Require Import Base.Bytes Model.Ast Model.Footnotes Spec.FootnoteSpec.
Import ListNotations.
Local Open Scope list_scope.

(* ------------------------------------------------------------------ the two refutation witnesses *)
Definition sp0 := mkSp 0 0 0 0.
Definition nd v ch := Node v sp0 ch.
Definition idb (x : bytes) := x.
Definition idp (l : list fdef) := l.

(* F8:  text / [^a]: x[^b] / [^b]: y *)
Definition w_dropped : node :=
  nd Document [nd Paragraph [nd (Text [x74]) []];
               nd (FootnoteDefinition [x61] 0) [nd Paragraph [nd (Text [x78]) []; nd (FootnoteReference [x62] 0 0) []]];
               nd (FootnoteDefinition [x62] 0) [nd Paragraph [nd (Text [x79]) []]]].

(* F22:  x[^a] / [^a]: one / (indented) [^b]: two *)
Definition w_nested : node :=
  nd Document [nd Paragraph [nd (Text [x78]) []; nd (FootnoteReference [x61] 0 0) []];
               nd (FootnoteDefinition [x61] 0)
                  [nd Paragraph [nd (Text [x6f]) []];
                   nd (FootnoteDefinition [x62] 0) [nd Paragraph [nd (Text [x74]) []]]]].

Lemma backrefs_exact_refuted_dropped :
  no_nested_defs w_dropped = true /\ no_ref_in_dropped_def idb w_dropped = false /\
  process idb idb idp w_dropped =
    nd Document [nd Paragraph [nd (Text [x74]) []];
                 nd (FootnoteDefinition [x62] 1) [nd Paragraph [nd (Text [x79]) []]]] /\
  backrefs_exact (process idb idb idp w_dropped) = false.
Proof. repeat split; vm_compute; reflexivity. Qed.

Lemma unreferenced_omitted_refuted_nested :
  no_ref_in_dropped_def idb w_nested = true /\ no_nested_defs w_nested = false /\
  nested_def (process idb idb idp w_nested) = true /\
  In (FootnoteDefinition [x62] 0) (map nval (flat_map nch (tail_part (nch (process idb idb idp w_nested))))).
Proof. repeat split; vm_compute; auto. Qed.

(* ------------------------------------------------------------------ sorting does not depend on the hash order *)
Definition le_ix (a b : fdef) : Prop := ix_le (f_ix a) (f_ix b) = true.

Lemma ix_le_total a b : ix_le a b = true \/ ix_le b a = true.
Proof. destruct a, b; cbn; auto. destruct (N.leb_spec n n0); [auto|right; apply N.leb_le; lia]. Qed.

Lemma ix_le_trans a b c : ix_le a b = true -> ix_le b c = true -> ix_le a c = true.
Proof.
  destruct a, b, c; cbn; auto; try discriminate.
  rewrite !N.leb_le. lia.
Qed.

Lemma ix_le_antisym a b : ix_le a b = true -> ix_le b a = true -> a = b.
Proof.
  destruct a, b; cbn; auto; try discriminate.
  rewrite !N.leb_le. intros. f_equal. lia.
Qed.

Lemma insert_sorted_perm e l : Permutation (insert_sorted e l) (e :: l).
Proof.
  induction l as [|x r IH]; cbn [insert_sorted]; [reflexivity|].
  destruct (ix_le (f_ix e) (f_ix x)); [reflexivity|].
  rewrite IH. apply perm_swap.
Qed.

Lemma sort_by_ix_perm l : Permutation (sort_by_ix l) l.
Proof.
  induction l as [|x r IH]; cbn; [reflexivity|].
  fold (sort_by_ix r). rewrite insert_sorted_perm, IH. reflexivity.
Qed.

Lemma insert_sorted_sorted e l : StronglySorted le_ix l -> StronglySorted le_ix (insert_sorted e l).
Proof.
  induction 1 as [|x r Hr IH Hx]; cbn [insert_sorted].
  - repeat constructor.
  - destruct (ix_le (f_ix e) (f_ix x)) eqn:E.
    + constructor; [constructor; assumption|].
      constructor; [exact E|]. rewrite Forall_forall in *. intros y Hy.
      unfold le_ix in *. eapply ix_le_trans; [exact E | apply Hx; exact Hy].
    + constructor; [exact IH|].
      assert (le_ix x e) as X. { unfold le_ix. destruct (ix_le_total (f_ix x) (f_ix e)); congruence. }
      rewrite Forall_forall in *. intros y Hy.
      apply (Permutation_in _ (insert_sorted_perm e r)) in Hy. destruct Hy as [<-|Hy]; auto.
Qed.

Lemma sort_by_ix_sorted l : StronglySorted le_ix (sort_by_ix l).
Proof.
  induction l as [|x r IH]; cbn; [constructor|]. fold (sort_by_ix r). apply insert_sorted_sorted, IH.
Qed.

Lemma filter_sorted (p : fdef -> bool) l : StronglySorted le_ix l -> StronglySorted le_ix (filter p l).
Proof.
  induction 1 as [|x r Hr IH Hx]; cbn [filter]; [constructor|].
  destruct (p x); [|exact IH]. constructor; [exact IH|].
  rewrite Forall_forall in *. intros y Hy. apply filter_In in Hy. apply Hx, Hy.
Qed.

Lemma key_inj l a b : NoDup (map f_ix l) -> In a l -> In b l -> f_ix a = f_ix b -> a = b.
Proof.
  induction l as [|x r IH]; cbn [map]; intros ND Ha Hb E; [contradiction|].
  inversion ND as [|? ? NI ND']; subst.
  destruct Ha as [<-|Ha], Hb as [<-|Hb]; auto.
  - exfalso. apply NI. rewrite E. apply in_map, Hb.
  - exfalso. apply NI. rewrite <- E. apply in_map, Ha.
Qed.

Lemma sorted_perm_unique l1 : forall l2,
  StronglySorted le_ix l1 -> StronglySorted le_ix l2 -> Permutation l1 l2 ->
  NoDup (map f_ix l1) -> l1 = l2.
Proof.
  induction l1 as [|a r1 IH]; intros l2 S1 S2 P ND.
  - apply Permutation_nil in P. congruence.
  - destruct l2 as [|b r2]; [apply Permutation_sym, Permutation_nil in P; discriminate|].
    inversion S1 as [|? ? S1' F1]; inversion S2 as [|? ? S2' F2]; subst.
    assert (a = b) as ->.
    { assert (In a (b :: r2)) as Ia by (apply (Permutation_in _ P); left; reflexivity).
      assert (In b (a :: r1)) as Ib by (apply (Permutation_in _ (Permutation_sym P)); left; reflexivity).
      destruct Ia as [->|Ia]; [reflexivity|]. destruct Ib as [->|Ib]; [reflexivity|].
      rewrite Forall_forall in F1, F2.
      apply (key_inj (a :: r1)); auto; [left; reflexivity | right; exact Ib|].
      apply ix_le_antisym; [apply F1, Ib | apply F2, Ia]. }
    f_equal. apply IH; auto.
    + eapply Permutation_cons_inv. exact P.
    + cbn in ND. inversion ND. assumption.
Qed.

Lemma filter_perm (p : fdef -> bool) a b : Permutation a b -> Permutation (filter p a) (filter p b).
Proof.
  induction 1 as [|x a b _ IH|x y a|a b c _ IH1 _ IH2]; cbn [filter].
  - constructor.
  - destruct (p x); [constructor|]; exact IH.
  - destruct (p x), (p y); try reflexivity. apply perm_swap.
  - etransitivity; eassumption.
Qed.

(* any two orders of the same entries give the same appended sequence, provided the assigned
   numbers are pairwise distinct *)
Lemma sort_perm_indep_lemma l1 l2 :
  Permutation l1 l2 -> NoDup (map f_ix (filter has_ix l1)) ->
  filter has_ix (sort_by_ix l1) = filter has_ix (sort_by_ix l2).
Proof.
  intros P ND. apply sorted_perm_unique.
  - apply filter_sorted, sort_by_ix_sorted.
  - apply filter_sorted, sort_by_ix_sorted.
  - apply filter_perm. rewrite sort_by_ix_perm, sort_by_ix_perm. exact P.
  - eapply Permutation_NoDup; [|exact ND].
    apply Permutation_map, Permutation_sym, filter_perm, sort_by_ix_perm.
Qed.

(* ------------------------------------------------------------------ the reference walk keeps the numbers distinct and contiguous *)
Section Walk.
  Variable fold : bytes -> bytes.
  Variable pres : bytes -> bytes.

  Fixpoint refs_list (l : list node) (st : fmap * N) : list node * (fmap * N) :=
    match l with
    | [] => ([], st)
    | c :: r =>
      let '(c', st1) := refs fold pres c st in
      let '(r', st2) := refs_list r st1 in
      (c' :: r', st2)
    end.

  Definition is_ref (v : node_value) : bool :=
    match v with FootnoteReference _ _ _ => true | _ => false end.

  Lemma refs_nonref v sp ch st : is_ref v = false ->
    refs fold pres (Node v sp ch) st = (let '(ch', st') := refs_list ch st in (Node v sp ch', st')).
  Proof. destruct v; cbn [is_ref]; intro H; try discriminate; reflexivity. Qed.

  Definition ixs (m : fmap) : list (option N) := map f_ix (filter has_ix m).

  Definition inv (st : fmap * N) : Prop :=
    NoDup (ixs (fst st))
    /\ Forall (fun o => exists i, o = Some i /\ (1 <= i <= snd st)%N) (ixs (fst st))
    /\ (forall i, (1 <= i <= snd st)%N -> In (Some i) (ixs (fst st))).

  Lemma ixs_app a b : ixs (a ++ b) = ixs a ++ ixs b.
  Proof. unfold ixs. rewrite filter_app, map_app. reflexivity. Qed.

  Lemma map_get_split k m f : map_get k m = Some f ->
    exists l1 l2, m = l1 ++ f :: l2 /\ forall e, f_key e = f_key f -> map_set e m = l1 ++ e :: l2.
  Proof.
    induction m as [|x r IH]; cbn [map_get]; [discriminate|].
    destruct (bytes_eqb (f_key x) k) eqn:E.
    - intro H. injection H as <-. exists [], r. split; [reflexivity|].
      intros e He. cbn [map_set app]. rewrite He.
      assert (bytes_eqb (f_key x) (f_key x) = true) as -> by (apply bytes_eqb_eq; reflexivity). reflexivity.
    - intro H. destruct (IH H) as [l1 [l2 [-> S]]]. exists (x :: l1), l2. split; [reflexivity|].
      intros e He. cbn [map_set app].
      assert (f_key f = k) as Kf.
      { clear -H. induction (l1 ++ f :: l2) as [|y q IHq]; cbn [map_get] in H; [discriminate|].
        destruct (bytes_eqb (f_key y) k) eqn:Ey; [injection H as <-; apply bytes_eqb_eq; exact Ey | auto]. }
      rewrite He, Kf, E. f_equal. apply S. exact He.
  Qed.

  Lemma refs_inv_node : forall n st, inv st -> inv (snd (refs fold pres n st)).
  Proof.
    induction n as [v sp ch IH] using node_ind2. intros st I.
    destruct (is_ref v) eqn:R.
    - destruct v; try discriminate. cbn [refs].
      destruct (map_get (fold name) (fst st)) as [f|] eqn:G; [|exact I].
      destruct (map_get_split _ _ _ G) as [l1 [l2 [Em S]]].
      destruct I as [ND [BD SJ]].
      destruct (f_ix f) as [i|] eqn:Fi; cbn [snd fst].
      + (* already numbered: the set of numbers is unchanged *)
        unfold inv. cbn [fst snd]. rewrite S by reflexivity.
        assert (ixs (l1 ++ {| f_key := f_key f; f_ix := Some i; f_idx := f_idx f; f_name := f_name f; f_total := (f_total f + 1)%N |} :: l2)
                = ixs (fst st)) as ->.
        { rewrite Em, !ixs_app. f_equal. unfold ixs. cbn [filter has_ix f_ix]. unfold has_ix at 2. rewrite Fi. cbn [map f_ix]. rewrite Fi. reflexivity. }
        repeat split; assumption.
      + unfold inv. cbn [fst snd]. rewrite S by reflexivity.
        rewrite Em, ixs_app in ND, BD, SJ.
        assert (ixs (f :: l2) = ixs l2) as E2. { unfold ixs. cbn [filter]. unfold has_ix at 1. rewrite Fi. reflexivity. }
        rewrite E2 in ND, BD, SJ.
        rewrite ixs_app.
        assert (ixs ({| f_key := f_key f; f_ix := Some (snd st + 1)%N; f_idx := f_idx f; f_name := f_name f; f_total := (f_total f + 1)%N |} :: l2)
                = Some (snd st + 1)%N :: ixs l2) as -> by reflexivity.
        repeat split.
        * eapply Permutation_NoDup; [apply Permutation_middle|]. constructor; [|exact ND].
          intro X. rewrite Forall_forall in BD. destruct (BD _ X) as [j [Ej Hj]]. injection Ej as <-. lia.
        * rewrite Forall_forall in *. intros o Ho. apply in_app_or in Ho.
          destruct Ho as [Ho|[<-|Ho]].
          -- destruct (BD o) as [j [-> Hj]]; [apply in_or_app; auto|]. exists j. split; [reflexivity|lia].
          -- eexists. split; [reflexivity|lia].
          -- destruct (BD o) as [j [-> Hj]]; [apply in_or_app; auto|]. exists j. split; [reflexivity|lia].
        * intros j Hj. destruct (N.eq_dec j (snd st + 1)) as [->|NE].
          -- apply in_or_app. right. left. reflexivity.
          -- assert (In (Some j) (ixs l1 ++ ixs l2)) as X by (apply SJ; lia).
             apply in_app_or in X. apply in_or_app. destruct X; [left|right; right]; assumption.
    - rewrite refs_nonref by exact R.
      assert (forall st, inv st -> inv (snd (refs_list ch st))) as L.
      { clear st I. induction IH as [|c r Hc _ IHr]; intros st I; cbn [refs_list]; [exact I|].
        specialize (Hc st I). destruct (refs fold pres c st) as [c' st1]. cbn [snd] in Hc.
        specialize (IHr st1 Hc). destruct (refs_list r st1) as [r' st2]. exact IHr. }
      specialize (L st I). destruct (refs_list ch st) as [ch' st']. exact L.
  Qed.

  Lemma map_insert_ixs e m : f_ix e = None -> ixs m = [] -> ixs (map_insert e m) = [].
  Proof.
    intros He. induction m as [|x r IH]; cbn [map_insert]; intro H.
    - unfold ixs. cbn [filter]. unfold has_ix. rewrite He. reflexivity.
    - assert (has_ix x = false /\ ixs r = []) as [Hx Hr].
      { unfold ixs in H. cbn [filter] in H. destruct (has_ix x); [discriminate|]. auto. }
      destruct (bytes_eqb (f_key x) (f_key e)).
      + unfold ixs. cbn [filter]. unfold has_ix at 1. rewrite He. exact Hr.
      + unfold ixs. cbn [filter]. rewrite Hx. apply IH, Hr.
  Qed.

  Lemma collect_ixs defs : forall idx m, ixs m = [] -> ixs (collect fold pres defs idx m) = [].
  Proof.
    induction defs as [|d r IH]; intros idx m H; cbn [collect]; [exact H|].
    apply IH, map_insert_ixs; [reflexivity | exact H].
  Qed.

  Lemma inv_after_walk root :
    inv (snd (refs fold pres root (collect fold pres (top_defs root) 0 [], 0%N))).
  Proof.
    apply refs_inv_node. unfold inv. cbn [fst snd]. rewrite collect_ixs by reflexivity.
    repeat split; [constructor | constructor | intros i Hi; lia].
  Qed.

  (* sort_perm_indep: the result of process does not depend on the order in which into_values()
     yields the map entries *)
  Lemma sort_perm_indep_process (perm1 perm2 : list fdef -> list fdef) root :
    (forall m, Permutation (perm1 m) m) -> (forall m, Permutation (perm2 m) m) ->
    process fold pres perm1 root = process fold pres perm2 root.
  Proof.
    intros P1 P2. unfold process.
    pose proof (inv_after_walk root) as I.
    destruct (refs fold pres root (collect fold pres (top_defs root) 0 [], 0%N)) as [root1 [m1 ix]].
    cbn [snd fst] in I. destruct I as [ND _].
    assert (appended perm1 m1 (top_defs root1) = appended perm2 m1 (top_defs root1)) as ->; [|reflexivity].
    unfold appended. f_equal. apply sort_perm_indep_lemma.
    - rewrite P1, P2. reflexivity.
    - eapply Permutation_NoDup; [|exact ND].
      apply Permutation_map, filter_perm, Permutation_sym, P1.
  Qed.
End Walk.

(* ------------------------------------------------------------------ statements of the property's footnote clauses over the model *)
(* "every rendered definition links back to each of its references and to nothing else" *)
Definition backrefs_exact_statement : Prop :=
  forall (fold pres : bytes -> bytes) (perm : list fdef -> list fdef) root,
    (forall m, Permutation (perm m) m) -> is_def root = false ->
    backrefs_exact (process fold pres perm root) = true.

Lemma backrefs_exact_statement_refuted : ~ backrefs_exact_statement.
Proof.
  intro H. specialize (H idb idb idp w_dropped (fun m => Permutation_refl m) eq_refl).
  vm_compute in H. discriminate.
Qed.

(* "unreferenced definitions are omitted": no definition with total_references = 0 anywhere in the result *)
Fixpoint no_zero_def (n : node) : bool :=
  match n with
  | Node v _ ch =>
    match v with
    | FootnoteDefinition _ t => negb (t =? 0)%N && forallb no_zero_def ch
    | _ => forallb no_zero_def ch
    end
  end.

Definition unreferenced_omitted_statement : Prop :=
  forall (fold pres : bytes -> bytes) (perm : list fdef -> list fdef) root,
    (forall m, Permutation (perm m) m) -> is_def root = false ->
    no_zero_def (process fold pres perm root) = true.

Lemma unreferenced_omitted_statement_refuted : ~ unreferenced_omitted_statement.
Proof.
  intro H. specialize (H idb idb idp w_nested (fun m => Permutation_refl m) eq_refl).
  vm_compute in H. discriminate.
Qed.

(* the appended definitions come out in increasing number order *)
Lemma appended_order_sorted (perm : list fdef -> list fdef) m :
  StronglySorted le_ix (filter has_ix (sort_by_ix (perm m))).
Proof. apply filter_sorted, sort_by_ix_sorted. Qed.
