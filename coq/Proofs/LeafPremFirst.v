(* Proofs/LeafPremFirst.v — C01, the premises of the inline phase, part 9: the clause `first line not blank`, for the
   every option set (tables included: the cells are not Paragraph / Heading; the preface paragraph is LeafPremPreface).

   Per-node clause  Bn i :=  the value of i is Paragraph or Heading -> the content holds no CR and every line of it is
                             non-blank (ALS, Proofs/LeafPremBlank.v)
   carried along the Ok path of every function of the block phase (scheme and scripts of Proofs/BlocksTotal6Val.v).
   add_line is met in add_text_to_container only; there the cursor has just been rescanned (find_first_nonspace), the
   tree operations in between keep it (KC), and the line is not blank: the suffix appended is not blank
   (LeafPremCur.RDY).  That the cursor invariant CI and the tab clause PCT hold at the entry of add_text_to_container is
   the cursor walk of the fourth round (BlocksTotal4Walk / BlocksTotal4Line: check_open_blocks_cur, open_new_blocks_cur,
   under the tree invariant LI of BlocksTotal2Walk) and Proofs/LeafPremPct.v.
   finalize / handle_setext_heading: what resolve_refdefs leaves starts at a line start, hence is empty or not blank. *)
From Coq Require Import List NArith Arith Bool Lia Strings.String.
From V Require Import Base.Bytes Base.Res Gen.StrLeafGen Gen.FeedConst Gen.Nodes Gen.BlocksConst Model.Ast Model.Strings
  Model.AutolinkLeaf Model.Scan Spec.EscapeSpec Model.Feed Model.FrontMatter Model.RefDef Model.Blocks Spec.LineEndings Proofs.FeedProofs Proofs.StrLeafProofs
  Proofs.BlocksProofs Proofs.BlocksPos Proofs.BlocksCursor Proofs.BlocksTotal Proofs.BlocksTotal2Safe Proofs.BlocksTotal2Tree Proofs.BlocksTotal2Walk
  Proofs.BlocksTotal3Tab Proofs.BlocksTotal4Safe Proofs.BlocksTotal4Cur Proofs.BlocksTotal4Frame Proofs.BlocksTotal4Walk Proofs.BlocksTotal4Line
  Proofs.BlocksTotal6Val Proofs.LeafPremBytes Proofs.LeafPremRow Proofs.LeafPremBlank Proofs.LeafPremPreface Proofs.LeafPremPct Proofs.LeafPremCur.
Import ListNotations.
Local Open Scope string_scope.
Local Open Scope list_scope.

Definition leafph (v : node_value) : bool := match v with Paragraph | Heading _ _ => true | _ => false end.
Definition BP (c : bytes) : Prop := nocr c /\ ALS c.
Definition Bn (i : binfo) : Prop := leafph (bi_val i) = true -> BP (bi_content i).

Inductive BI (st : pstate) : Prop := BI_intro : all_info Bn (ps_root st) -> BI st.
Lemma BI_all st : BI st -> all_info Bn (ps_root st). Proof. now intros [H]. Qed.

Lemma BI_st_next st n : BI st -> BI (st_next st n). Proof. intros [H]. constructor. exact H. Qed.
Lemma BI_st_current st n : BI st -> BI (st_current st n). Proof. intros [H]. constructor. exact H. Qed.
Lemma BI_st_refmap st m : BI st -> BI (st_refmap st m). Proof. intros [H]. constructor. exact H. Qed.
Lemma BI_st_cur st c : BI st -> BI (st_cur st c). Proof. intros [H]. constructor. exact H. Qed.
Lemma BI_st_curline st a b : BI st -> BI (st_curline st a b). Proof. intros [H]. constructor. exact H. Qed.
Lemma BI_st_last_line_length st n : BI st -> BI (st_last_line_length st n). Proof. intros [H]. constructor. exact H. Qed.
Lemma BI_st_line_number st n : BI st -> BI (st_line_number st n). Proof. intros [H]. constructor. exact H. Qed.

Lemma get_allb st id n : BI st -> get st id = Ok n -> all_info Bn n.
Proof. intros [A] G. apply get_find in G. exact (find_node_all _ _ _ _ A G). Qed.
Lemma get_bn st id n : BI st -> get st id = Ok n -> Bn (binf n).
Proof. intros P G. apply all_info_binf. eapply get_allb; eassumption. Qed.

Lemma modify_bi st id f st' :
  BI st -> modify st id f = Ok st' ->
  (forall n, find_node id (ps_root st) = Some n -> all_info Bn n -> all_info Bn (f n)) -> BI st'.
Proof.
  unfold modify. intros [A] M Hf. destruct (upd id f (ps_root st)) as [r|] eqn:U; [|discriminate].
  inversion M; subst. constructor. cbn. exact (upd_all _ _ _ _ _ A U Hf).
Qed.

Lemma modify_info_bi st id f st' :
  modify_info st id f = Ok st' -> (forall i, Bn i -> Bn (f i)) -> BI st -> BI st'.
Proof.
  intros M Hf P. eapply modify_bi; [exact P | exact M |].
  intros n _ An. destruct n as [i ch]. cbn [on_info]. apply all_info_node in An. apply all_info_node.
  split; [apply Hf; apply An | apply An].
Qed.

Lemma modify_info_const_bi st id n i' st' :
  modify_info st id (fun _ => i') = Ok st' -> get st id = Ok n -> (Bn (binf n) -> Bn i') -> BI st -> BI st'.
Proof.
  intros M G Hf P. eapply modify_bi; [exact P | exact M |].
  intros m Fm Am. apply get_find in G. rewrite G in Fm. inversion Fm; subst m.
  destruct n as [i ch]. cbn [on_info binf] in *. apply all_info_node in Am. apply all_info_node.
  split; [apply Hf; apply Am | apply Am].
Qed.

(* modify_info with a function of the info found under the identifier *)
Lemma modify_info_get_bi st id n f st' :
  modify_info st id f = Ok st' -> get st id = Ok n -> (Bn (binf n) -> Bn (f (binf n))) -> BI st -> BI st'.
Proof.
  intros M G Hf P. eapply modify_bi; [exact P | exact M |].
  intros m Fm Am. apply get_find in G. rewrite G in Fm. inversion Fm; subst m.
  destruct n as [i ch]. cbn [on_info binf] in *. apply all_info_node in Am. apply all_info_node.
  split; [apply Hf; apply Am | apply Am].
Qed.

Lemma edit_root_bi st id g r :
  edit_kids id g (ps_root st) = Some r -> BI st ->
  (forall pk pre c post, Forall (all_info Bn) (pre ++ c :: post) -> Forall (all_info Bn) (g pk pre c post)) ->
  BI (st_root st r).
Proof. intros E [A] Hg. constructor. cbn. eapply edit_kids_all; eassumption. Qed.

Lemma bdetach_bi st id st' : bdetach st id = Ok st' -> BI st -> BI st'.
Proof.
  unfold bdetach. intros D P.
  destruct (edit_kids id (fun _ pre _ post => pre ++ post) (ps_root st)) as [r|] eqn:E.
  - inversion D; subst. eapply edit_root_bi; [exact E | exact P |].
    intros pk pre c post K. apply Forall_app in K. destruct K as [K1 K2]. inversion K2; subst.
    apply Forall_app. split; assumption.
  - now inversion D; subst.
Qed.

Lemma append_child_bi st pid c st' : append_child st pid c = Ok st' -> all_info Bn c -> BI st -> BI st'.
Proof.
  intros A Ac P. eapply modify_bi; [exact P | exact A |].
  intros n _ An. destruct n as [i ch]. apply all_info_node in An. apply all_info_node. split; [apply An|].
  apply Forall_app. split; [apply An|]. constructor; [exact Ac | constructor].
Qed.

(* setters that touch neither the value, the content nor line_offsets *)
Ltac bn_side :=
  let i := fresh "i" in let H := fresh "H" in
  intros i H; destruct i; unfold Bn in *; cbn in *; try exact H.

Create HintDb bi.
#[export] Hint Resolve BI_st_next BI_st_current BI_st_refmap BI_st_cur BI_st_curline BI_st_last_line_length BI_st_line_number
  bdetach_bi modify_info_bi : bi.
#[export] Hint Extern 1 (forall i : binfo, Bn i -> Bn _) => bn_side : bi.

Ltac bigo H := mon H; monall; repeat match goal with p : (_ * _)%type |- _ => destruct p end; cbn [fst snd] in *; eauto 20 with bi.

Lemma adv_bi st line n b st' : adv st line n b = Ok st' -> BI st -> BI st'.
Proof. unfold adv. intros H P. mon H. now apply BI_st_cur. Qed.
Lemma ffn_bi st line st' : ffn st line = Ok st' -> BI st -> BI st'.
Proof. unfold ffn. intros H P. mon H. now apply BI_st_cur. Qed.
#[export] Hint Resolve adv_bi ffn_bi : bi.

(* ================================================================== finalize *)
Lemma retighten_bi st p st' : retighten st p = Ok st' -> BI st -> BI st'.
Proof.
  unfold retighten. intros H P. destruct p as [item|]; [|inversion H; subst; exact P].
  destruct (parent_of item (ps_root st)) as [lid|]; [|inversion H; subst; exact P].
  destruct (get st lid) as [l| |] eqn:G; cbn [bind] in H; try discriminate H.
  destruct (bi_open (binf l)); [inversion H; subst; exact P|].
  destruct (bval l) eqn:Bv; try (inversion H; subst; exact P).
  eapply modify_info_get_bi; [exact H | exact G | | exact P].
  intros _. unfold Bn. cbn. intro D; discriminate D.
Qed.
#[export] Hint Resolve retighten_bi : bi.

Lemma finalize_bi o st id p st' : finalize o st id = Ok (p, st') -> BI st -> BI st'.
Proof.
  intros F P. unfold finalize in F.
  mstep F. pose proof (get_bn _ _ _ P E) as Qa.
  mstep F; [discriminate F|]. mstep F. clear E1.
  destruct (bi_val (binf a)) eqn:Ev; mon F;
  try match goal with R : resolve_refdefs _ _ _ = Ok _ |- _ => pose proof (fun C A => ALS_refdefs _ _ _ _ _ _ C A R) as Ek end;
  repeat first [ match goal with |- BI (st_refmap _ _) => apply BI_st_refmap end
               | (eapply retighten_bi; [eassumption|])
               | (eapply bdetach_bi; [eassumption|])
               | (eapply modify_info_const_bi; [eassumption | exact E | | exact P]; intros _) ];
  destruct a as [ia cha]; destruct ia; unfold Bn in *; cbn in *; subst; cbn in *;
  first [ exact Qa
        | (intro D; discriminate D)
        | (intros _; destruct (Qa eq_refl) as [C A]; destruct (Ek C A) as (C' & A' & _); split; assumption) ].
Qed.
#[export] Hint Resolve finalize_bi : bi.

Lemma unwrap_parent_fin_bi site o st id p st' : unwrap_parent site (finalize o st id) = Ok (p, st') -> BI st -> BI st'.
Proof.
  unfold unwrap_parent. intros H P.
  destruct (finalize o st id) as [[op s1]| |] eqn:E; cbn [bind fst snd] in H; try discriminate H.
  destruct op; inversion H; subst. eapply finalize_bi; eassumption.
Qed.
#[export] Hint Resolve unwrap_parent_fin_bi : bi.

(* ================================================================== add_child *)
Lemma add_child_loop_bi o k : forall fuel st parent p' st',
  add_child_loop fuel o st parent k = Ok (p', st') -> BI st -> BI st'.
Proof.
  induction fuel as [|f IH]; intros st parent p' st' H P; [discriminate|].
  cbn [add_child_loop] in H.
  destruct (get st parent) as [pn| |] eqn:G; cbn [bind] in H; try discriminate H.
  destruct (can_contain (bkind pn) k).
  - inversion H; subst. exact P.
  - match type of H with bind ?r _ = _ => destruct r as [[q s1]| |] eqn:U; cbn [bind fst snd] in H; try discriminate H end.
    eapply IH; [exact H|]. eapply unwrap_parent_fin_bi; eassumption.
Qed.

Lemma Bn_new id v l c : Bn (new_info id v l c).
Proof. unfold Bn. cbn. intros _. split; [intros b [] | apply ALS_nil]. Qed.

Lemma add_child_gen_bi o st parent v col post kids id st' :
  add_child_gen o st parent v col post kids = Ok (id, st') ->
  (forall i, bi_val i = v -> Bn i -> Bn (post i)) -> Forall (all_info Bn) kids ->
  BI st -> BI st'.
Proof.
  unfold add_child_gen. intros H Hp Hk P.
  match type of H with bind ?r _ = _ => destruct r as [[p' s1]| |] eqn:E; cbn [bind] in H; try discriminate H end.
  pose proof (add_child_loop_bi _ _ _ _ _ _ _ E P) as P1.
  mon H. eapply append_child_bi; [eassumption | | apply BI_st_next; exact P1].
  apply all_info_node. split; [|exact Hk]. apply Hp; [reflexivity|]. apply Bn_new.
Qed.

Lemma add_child_bi o st parent v col id st' : add_child o st parent v col = Ok (id, st') -> BI st -> BI st'.
Proof.
  unfold add_child. intros H P. eapply add_child_gen_bi; [exact H | auto | constructor | exact P].
Qed.
#[export] Hint Resolve add_child_bi : bi.

Lemma Bn_trivial i : leafph (bi_val i) = false -> Bn i.
Proof. unfold Bn. intros H D. rewrite H in D. discriminate D. Qed.

(* ================================================================== check_open_blocks *)
Lemma skip_one_space_bi st line site st' : skip_one_space st line site = Ok st' -> BI st -> BI st'.
Proof. unfold skip_one_space. intros H P. bigo H. Qed.
#[export] Hint Resolve skip_one_space_bi : bi.
Lemma parse_block_quote_prefix_bi o st line b st' : parse_block_quote_prefix o st line = Ok (b, st') -> BI st -> BI st'.
Proof. unfold parse_block_quote_prefix. intros H P. bigo H. Qed.
#[export] Hint Resolve parse_block_quote_prefix_bi : bi.
Lemma parse_footnote_prefix_bi st line b st' : parse_footnote_definition_block_prefix st line = Ok (b, st') -> BI st -> BI st'.
Proof. unfold parse_footnote_definition_block_prefix. intros H P. bigo H. Qed.
#[export] Hint Resolve parse_footnote_prefix_bi : bi.
Lemma parse_item_prefix_bi st line c mo pad b st' : parse_item_prefix st line c mo pad = Ok (b, st') -> BI st -> BI st'.
Proof. unfold parse_item_prefix. intros H P. bigo H. Qed.
#[export] Hint Resolve parse_item_prefix_bi : bi.
Lemma skip_fence_offset_bi line site : forall i st st', skip_fence_offset i st line site = Ok st' -> BI st -> BI st'.
Proof. induction i as [|j IH]; intros st st' H P; cbn [skip_fence_offset] in H; bigo H. Qed.
#[export] Hint Resolve skip_fence_offset_bi : bi.
Lemma parse_code_block_prefix_bi o st line c cb a b st' : parse_code_block_prefix o st line c cb = Ok (a, b, st') -> BI st -> BI st'.
Proof. unfold parse_code_block_prefix. intros H P. bigo H. Qed.
#[export] Hint Resolve parse_code_block_prefix_bi : bi.
Lemma parse_mbq_prefix_bi o st line c fl fo a b st' : parse_multiline_block_quote_prefix o st line c fl fo = Ok (a, b, st') -> BI st -> BI st'.
Proof. unfold parse_multiline_block_quote_prefix. intros H P. bigo H. Qed.
#[export] Hint Resolve parse_mbq_prefix_bi : bi.
Lemma check_container_bi o st line c a b st' : check_container o st line c = Ok (a, b, st') -> BI st -> BI st'.
Proof. unfold check_container. intros H P. destruct (bval c); bigo H. Qed.
#[export] Hint Resolve check_container_bi : bi.
Lemma check_open_blocks_inner_bi o line : forall fuel st container a c b st',
  check_open_blocks_inner fuel o st line container = Ok (a, c, b, st') -> BI st -> BI st'.
Proof. induction fuel as [|f IH]; intros st container a c b st' H P; cbn [check_open_blocks_inner] in H; bigo H. Qed.
#[export] Hint Resolve check_open_blocks_inner_bi : bi.
Lemma check_open_blocks_bi o st line r st' : check_open_blocks o st line = Ok (r, st') -> BI st -> BI st'.
Proof. unfold check_open_blocks. intros H P. bigo H. Qed.
#[export] Hint Resolve check_open_blocks_bi : bi.


(* ================================================================== tables *)
Lemma try_inserting_bi st c po st' :
  try_inserting_table_header_paragraph st c po = Ok st' ->
  (forall cn, get st c = Ok cn -> is_paragraph cn = true /\ exists p, firstn po (bi_content (binf cn)) = p ++ [x0a]) ->
  BI st -> BI st'.
Proof.
  unfold try_inserting_table_header_paragraph. intros H Hc P.
  destruct (get st c) as [cn| |] eqn:G; cbn [bind] in H; try discriminate H.
  destruct (Hc _ eq_refl) as [Hp [pp Epp]].
  pose proof (is_paragraph_val _ Hp) as Bv. pose proof (get_bn _ _ _ P G) as Qc.
  unfold bval in Bv. unfold Bn in Qc. rewrite Bv in Qc. specialize (Qc eq_refl). destruct Qc as [Cc Ac].
  mstep H; [discriminate H|]. cbv zeta in H. rewrite trim_ok in H. cbn [bind] in H.
  mon H; monall; try exact P.
  match goal with M : modify_info _ _ _ = Ok ?s |- _ => assert (P1 : BI s) end.
  { eapply modify_info_bi; [eassumption | | apply BI_st_next; exact P]. bn_side. }
  eapply edit_root_bi; [eassumption | exact P1 |].
  intros pk pre x post K. cbv beta. destruct (can_contain pk KParagraph); [|exact K].
  apply Forall_app in K. destruct K as [K1 K2]. apply Forall_app. split; [exact K1|].
  cbn [app]. constructor; [|exact K2]. apply all_info_node. split; [|constructor].
  unfold Bn. cbn. intros _.
  match goal with U : Blocks.from_utf8 _ _ = Ok _ |- _ => apply from_utf8_ok in U; subst end.
  split.
  - intros bb Hb. apply in_trim, in_unescape_pipes, in_firstn in Hb. now apply Cc.
  - eapply ALS_preface; eassumption.
Qed.

Lemma header_cells_bn : forall cells id ln sl sc po l, header_cells cells id ln sl sc po = Ok l -> Forall (all_info Bn) l.
Proof.
  induction cells as [|c r IH]; intros id ln sl sc po l H; cbn [header_cells] in H.
  - inversion H. constructor.
  - mon H. constructor; [|eapply IH; eassumption].
    apply all_info_node. split; [|constructor]. apply Bn_trivial. reflexivity.
Qed.

Lemma try_opening_header_bi o st c line r st' :
  try_opening_header o st c line = Ok (r, st') ->
  (forall cn, get st c = Ok cn -> is_paragraph cn = true) -> BI st -> BI st'.
Proof.
  unfold try_opening_header. intros H Hc P.
  destruct (get st c) as [cn0| |] eqn:G0; cbn [bind] in H; try discriminate H.
  pose proof (Hc _ eq_refl) as Hp. clear Hc.
  mon H; monall; try exact P;
  match goal with R : row (bi_content (binf cn0)) _ = Ok (Some (_, _)) |- _ => destruct (row_ok _ _ _ _ R) as [Fc Po] end;
  match goal with
  | I : try_inserting_table_header_paragraph _ _ ?po = Ok ?s |- _ =>
    assert (P1 : BI s)
      by (eapply try_inserting_bi; [exact I | intros cn' G'; rewrite G0 in G'; inversion G'; subst; split; [exact Hp|];
          destruct Po as [Po|Po]; [exfalso; subst; match goal with L : Nat.ltb 0 0 = true |- _ => discriminate L end | exact Po] | exact P])
  | _ => pose proof P as P1
  end;
  (eapply edit_root_bi; [eassumption | eauto 10 with bi |]);
  intros pk pre x post K; cbv beta; (destruct (is_paragraph x); [|exact K]);
  apply Forall_app in K; destruct K as [K1 K2]; inversion K2; subst;
  apply Forall_app; (split; [exact K1|]); cbn [app]; (constructor; [|assumption]);
  apply all_info_node; (split; [apply Bn_trivial; reflexivity|]);
  (constructor; [|constructor]); apply all_info_node;
  (split; [apply Bn_trivial; reflexivity|]);
  eapply header_cells_bn; eassumption.
Qed.

Lemma row_cells_bn : forall n cells id ln sc lc l lc', row_cells n cells id ln sc lc = Ok (l, lc') -> Forall (all_info Bn) l.
Proof.
  induction n as [|m IH]; intros cells id ln sc lc l lc' H; cbn [row_cells] in H.
  - destruct cells; inversion H; subst; constructor.
  - destruct cells as [|c r]; [inversion H; subst; constructor|].
    mon H. repeat match goal with p : (_ * _)%type |- _ => destruct p end. cbn [fst snd] in *.
    constructor; [|eapply IH; eassumption]. apply all_info_node. split; [|constructor]. apply Bn_trivial. reflexivity.
Qed.

Lemma filler_cells_bn : forall n id ln lc, Forall (all_info Bn) (filler_cells n id ln lc).
Proof.
  induction n as [|m IH]; intros id ln lc; cbn [filler_cells]; constructor; [|apply IH].
  apply all_info_node. split; [|constructor]. apply Bn_trivial. reflexivity.
Qed.

Lemma try_opening_row_bi o st c t line r st' : try_opening_row o st c t line = Ok (r, st') -> BI st -> BI st'.
Proof.
  unfold try_opening_row. intros H P.
  mon H; monall; try exact P.
  match goal with M : modify _ _ _ = Ok ?s |- _ => assert (BI s) end.
  { eapply modify_bi; [apply BI_st_next; exact P | eassumption |].
    intros nn Fn An. destruct nn as [i ch]. apply all_info_node in An. destruct An as [Ai Ak].
    apply all_info_node. split; [apply Bn_trivial; reflexivity|].
    apply Forall_app. split; [exact Ak|]. constructor; [|constructor].
    apply all_info_node. split; [apply Bn_trivial; reflexivity|].
    apply Forall_app. split; [eapply row_cells_bn; eassumption | apply filler_cells_bn]. }
  eauto 10 with bi.
Qed.

Lemma try_opening_block_bi o st c line r st' : try_opening_block o st c line = Ok (r, st') -> BI st -> BI st'.
Proof.
  unfold try_opening_block. intros H P.
  destruct (get st c) as [cn| |] eqn:G; cbn [bind] in H; try discriminate H.
  destruct (bval cn) eqn:Bv; try (inversion H; subst; exact P).
  - eapply try_opening_header_bi; [exact H | | exact P].
    intros cn' G'. rewrite G in G'. inversion G'; subst. unfold is_paragraph. now rewrite Bv.
  - eapply try_opening_row_bi; [exact H | exact P].
Qed.

(* ================================================================== description lists *)
Lemma reopen_bi : forall fuel st id st', reopen_ast_nodes fuel st id = Ok st' -> BI st -> BI st'.
Proof. induction fuel as [|f IH]; intros st id st' H P; cbn [reopen_ast_nodes] in H; bigo H. Qed.
#[export] Hint Resolve reopen_bi : bi.

Lemma parse_desc_list_details_bi o st c m b c' st' : parse_desc_list_details o st c m = Ok (b, c', st') -> BI st -> BI st'.
Proof.
  unfold parse_desc_list_details. intros H P.
  destruct (get st c) as [cn| |] eqn:G; cbn [bind] in H; try discriminate H.
  match type of H with bind ?r _ = _ => destruct r as [[[[tight c1] lc]|]| |] eqn:R; cbn [bind] in H; try discriminate H end;
    [|inversion H; subst; exact P].
  assert (Alc : all_info Bn lc).
  { pose proof (get_allb _ _ _ P G) as Ac.
    destruct (last_opt (bkids cn)) eqn:Lk.
    - inversion R; subst. eapply last_kid_all; eassumption.
    - mon R. eapply last_kid_all; [eapply get_allb; [exact P | eassumption] | eassumption]. }
  clear R.
  destruct (bval lc) eqn:Bl; try (inversion H; subst; exact P).
  - (* DescriptionItem *) bigo H.
  - (* Paragraph *)
    mon H; monall; repeat match goal with p : (_ * _)%type |- _ => destruct p end; cbn [fst snd] in *;
    match goal with A : add_child_gen _ ?s _ DescriptionTerm _ _ _ = Ok (_, ?s') |- _ =>
      assert (BI s -> BI s') by
        (intro; eapply add_child_gen_bi; [exact A | auto | constructor; [exact Alc | constructor] | assumption])
    end; eauto 20 with bi.
Qed.


Section handlers.
Variables (o : bopts) (line : bytes).

Lemma handle_alert_bi st c ind b c' st' : handle_alert o st c line ind = Ok (b, c', st') -> BI st -> BI st'.
Proof. unfold handle_alert. intros H P. bigo H. Qed.
Lemma handle_mbq_bi st c ind b c' st' : handle_multiline_blockquote o st c line ind = Ok (b, c', st') -> BI st -> BI st'.
Proof. unfold handle_multiline_blockquote, rest_at_fns. intros H P. bigo H. Qed.
Lemma handle_blockquote_bi st c ind b c' st' : handle_blockquote o st c line ind = Ok (b, c', st') -> BI st -> BI st'.
Proof. unfold handle_blockquote. intros H P. bigo H. Qed.
Lemma handle_atx_bi st c ind b c' st' : handle_atx_heading o st c line ind = Ok (b, c', st') -> BI st -> BI st'.
Proof.
  unfold handle_atx_heading, rest_at_fns. intros H P. mon H; monall; repeat match goal with p : (_ * _)%type |- _ => destruct p end; cbn [fst snd] in *; eauto with bi.
  eapply add_child_gen_bi; [eassumption | | constructor | eauto with bi].
  intros i Ev Hi. destruct i. unfold Bn in *. cbn in *. subst. intros _. apply Hi. reflexivity.
Qed.
Lemma handle_code_fence_bi st c ind b c' st' : handle_code_fence o st c line ind = Ok (b, c', st') -> BI st -> BI st'.
Proof. unfold handle_code_fence, rest_at_fns. intros H P. bigo H. Qed.
Lemma handle_html_block_bi st c ind b c' st' : handle_html_block o st c line ind = Ok (b, c', st') -> BI st -> BI st'.
Proof. unfold handle_html_block, rest_at_fns. intros H P. bigo H. Qed.
Lemma handle_footnote_bi st c ind d b c' st' : handle_footnote o st c line ind d = Ok (b, c', st') -> BI st -> BI st'.
Proof. unfold handle_footnote, rest_at_fns. intros H P. bigo H. Qed.
Lemma list_spaces_loop_bi sc : forall fuel st st', list_spaces_loop fuel st line sc = Ok st' -> BI st -> BI st'.
Proof. induction fuel as [|f IH]; intros st st' H P; cbn [list_spaces_loop] in H; bigo H. Qed.
Hint Resolve list_spaces_loop_bi : bi.
Lemma handle_list_bi st c ind d b c' st' : handle_list o st c line ind d = Ok (b, c', st') -> BI st -> BI st'.
Proof. unfold handle_list. intros H P. bigo H. Qed.
Lemma handle_code_block_bi st c ind ml b c' st' : handle_code_block o st c line ind ml = Ok (b, c', st') -> BI st -> BI st'.
Proof. unfold handle_code_block. intros H P. bigo H. Qed.

Lemma handle_setext_bi st c ind b c' st' : handle_setext_heading o st c line ind = Ok (b, c', st') -> BI st -> BI st'.
Proof.
  unfold handle_setext_heading, rest_at_fns. intros H P.
  mstep H; [inversion H; subst; exact P|].
  destruct (get st c) as [cn| |] eqn:G; cbn [bind] in H; try discriminate H.
  destruct (is_paragraph cn) eqn:Pa; cbn [negb] in H; [|inversion H; subst; exact P].
  apply is_paragraph_val in Pa. pose proof (get_bn _ _ _ P G) as Qc.
  mon H; monall; repeat match goal with p : (_ * _)%type |- _ => destruct p end; cbn [fst snd] in *; eauto 10 with bi;
  match goal with R : resolve_refdefs _ _ _ = Ok _ |- _ => pose proof (fun C A => ALS_refdefs _ _ _ _ _ _ C A R) as Ek end;
  match goal with M1 : modify_info (st_refmap st _) _ _ = Ok ?s1 |- _ => assert (P1 : BI s1) end;
  try (eapply modify_info_get_bi; [eassumption | exact G | | apply BI_st_refmap; exact P]; intros _;
       destruct cn as [i ch]; destruct i; unfold bval, Bn in *; cbn in *; subst; cbn in *;
       intros _; destruct (Qc eq_refl) as [C A]; destruct (Ek C A) as (C' & A' & _); split; assumption);
  eauto 10 with bi.
Qed.

Lemma handle_thematic_break_bi st c ind am b c' st' : handle_thematic_break o st c line ind am = Ok (b, c', st') -> BI st -> BI st'.
Proof. unfold handle_thematic_break. intros H P. bigo H. Qed.

Lemma handle_description_list_bi st c ind b c' st' : handle_description_list o st c line ind = Ok (b, c', st') -> BI st -> BI st'.
Proof.
  unfold handle_description_list, rest_at_fns. intros H P.
  mon H; monall; repeat match goal with p : (_ * _)%type |- _ => destruct p end; cbn [fst snd] in *; try exact P;
  match goal with D : parse_desc_list_details _ _ _ _ = Ok (_, _, ?s) |- _ =>
    assert (BI s) by (eapply parse_desc_list_details_bi; eassumption) end; eauto with bi.
Qed.

Hint Resolve handle_alert_bi handle_mbq_bi handle_blockquote_bi handle_atx_bi handle_code_fence_bi
  handle_html_block_bi handle_setext_bi handle_thematic_break_bi handle_footnote_bi
  handle_description_list_bi handle_list_bi handle_code_block_bi : bi.

Lemma or_else_h_bi (r : hres) k b c st st' :
  or_else_h r k = Ok (b, c, st') -> BI st ->
  (forall b1 c1 s1, r = Ok (b1, c1, s1) -> BI st -> BI s1) ->
  (forall c1 s1 b2 c2 s2, k c1 s1 = Ok (b2, c2, s2) -> BI s1 -> BI s2) ->
  BI st'.
Proof.
  unfold or_else_h. intros H P Hr Hk.
  destruct r as [[[b1 c1] s1]| |]; cbn [bind] in H; try discriminate H.
  destruct b1.
  - inversion H; subst. eapply Hr; [reflexivity | exact P].
  - eapply Hk; [exact H|]. eapply Hr; [reflexivity | exact P].
Qed.

Ltac chain_b :=
  match goal with
  | R : or_else_h _ _ = Ok _ |- BI _ =>
    eapply (or_else_h_bi _ _ _ _ _ _ R); clear R;
    [ eassumption | intros ? ? ? ? ?; eauto with bi | intros ? ? ? ? ? R ?; cbv beta in R; chain_b ]
  | |- BI _ => eauto with bi
  end.

(* the state after the chain of handlers *)
Lemma handlers_chain_bi st ind am ml d c hd c1 s1 :
  or_else_h (handle_alert o st c line ind) (fun container st =>
          or_else_h (handle_multiline_blockquote o st container line ind) (fun container st =>
          or_else_h (handle_blockquote o st container line ind) (fun container st =>
          or_else_h (handle_atx_heading o st container line ind) (fun container st =>
          or_else_h (handle_code_fence o st container line ind) (fun container st =>
          or_else_h (handle_html_block o st container line ind) (fun container st =>
          or_else_h (handle_setext_heading o st container line ind) (fun container st =>
          or_else_h (handle_thematic_break o st container line ind am) (fun container st =>
          or_else_h (handle_footnote o st container line ind d) (fun container st =>
          or_else_h (handle_description_list o st container line ind) (fun container st =>
          or_else_h (handle_list o st container line ind d) (fun container st =>
          handle_code_block o st container line ind ml))))))))))) = Ok (hd, c1, s1) -> BI st -> BI s1.
Proof. intros R P. chain_b. Qed.

Lemma open_new_blocks_step_bi st c am ml d g c' st' :
  open_new_blocks_step o st c line am ml d = Ok (g, c', st') -> BI st -> BI st'.
Proof.
  unfold open_new_blocks_step. intros H P.
  destruct (ffn st line) as [s0| |] eqn:F0; cbn [bind] in H; try discriminate H.
  assert (P0 : BI s0) by eauto with bi.
  match type of H with bind ?r _ = _ => destruct r as [[[hd c1] s1]| |] eqn:R; cbn [bind] in H; try discriminate H end.
  assert (P1 : BI s1) by (eapply handlers_chain_bi; eassumption).
  clear R.
  destruct hd.
  - bigo H.
  - destruct (negb (Nat.leb code_indent (indent s0)) && bo_table o) eqn:Tb.
    + destruct (try_opening_block o s1 c1 line) as [[tr s2]| |] eqn:TO; cbn [bind] in H; try discriminate H.
      assert (P2 : BI s2) by (eapply try_opening_block_bi; eassumption).
      destruct tr; bigo H.
    + bigo H.
Qed.
Hint Resolve open_new_blocks_step_bi : bi.

Lemma open_new_blocks_loop_bi am : forall fuel st c ml d c' st',
  open_new_blocks_loop fuel o st c line am ml d = Ok (c', st') -> BI st -> BI st'.
Proof. induction fuel as [|f IH]; intros st c ml d c' st' H P; cbn [open_new_blocks_loop] in H; bigo H. Qed.
Hint Resolve open_new_blocks_loop_bi : bi.

Lemma open_new_blocks_bi st c am c' st' : open_new_blocks o st c line am = Ok (c', st') -> BI st -> BI st'.
Proof. unfold open_new_blocks. intros H P. bigo H. Qed.

Lemma clear_llb_up_bi : forall fuel st id st', clear_llb_up fuel st id = Ok st' -> BI st -> BI st'.
Proof. induction fuel as [|f IH]; intros st id st' H P; cbn [clear_llb_up] in H; bigo H. Qed.

Lemma finalize_up_to_bi target site : forall fuel st st', finalize_up_to fuel o st target site = Ok st' -> BI st -> BI st'.
Proof. induction fuel as [|f IH]; intros st st' H P; cbn [finalize_up_to] in H; bigo H. Qed.


(* ------------------------------------------------------------------ add_line *)
Lemma Bn_push i pad s off : Bn i -> (exists n, pad = repeat_bytes n x20) -> LK s -> is_blank (pad ++ s) = false ->
  Bn (set_lo (bi_lo i ++ [off]) (set_content ((bi_content i ++ pad) ++ s) i)).
Proof.
  destruct i as [f1 f2 f3 f4 f5 f6 f7 f8 f9 f10 f11 f12]. unfold Bn. cbn [bi_val bi_content bi_lo set_lo set_content].
  intros A [n ->] L B Ev. destruct (A Ev) as [C Al]. split.
  - intros b Hb. apply in_app_or in Hb. destruct Hb as [Hb|Hb]; [apply in_app_or in Hb; destruct Hb as [Hb|Hb]|].
    + now apply C.
    + exact (proj2 (cln_repeat n b Hb)).
    + exact (proj2 (LK_cln _ L b Hb)).
  - rewrite <- app_assoc. apply ALS_push; [exact Al | | exact B].
    destruct L as (m & t & -> & Cm & Nm & T). exists (repeat_bytes n x20 ++ m), t.
    split; [now rewrite app_assoc|]. split; [rewrite cnl_app, cnl_repeat; lia | exact T].
Qed.

Lemma Bn_same i c' : Bn i -> c' = bi_content i -> Bn (set_content c' i).
Proof. destruct i. unfold Bn. cbn. intros A -> Ev. now apply A. Qed.

Lemma add_line_bi_rdy l st id st' : LK l -> RDY (ps_cur st) l -> add_line st id l = Ok st' -> BI st -> BI st'.
Proof.
  unfold add_line. intros L1 [R1 R2] H P. unfold aoff in R1, R2.
  destruct (get st id) as [n| |] eqn:G; cbn [bind] in H; try discriminate H.
  pose proof (get_bn _ _ _ P G) as Qc.
  destruct (negb (bi_open (binf n))); [discriminate H|]. cbv zeta in H.
  revert R1 R2 H. destruct (c_pct (ps_cur st)) eqn:Pc; intros R1 R2 H; cbv iota beta in H; cbn [c_offset] in H;
  (mstep H; mon E; try match goal with U : Blocks.from_utf8 _ _ = Ok _ |- _ => apply from_utf8_ok in U; subst end; mon H; apply BI_st_cur;
   (eapply modify_info_const_bi; [eassumption | exact G | | exact P]); intros _).
  - apply Bn_push; [exact Qc | eexists; reflexivity | now apply LK_skipn|].
    rewrite is_blank_ws_app by apply ws_repeat. apply R1. now apply R2.
  - exfalso. specialize (R2 eq_refl). match goal with E0 : Nat.ltb _ _ = false |- _ => apply Nat.ltb_ge in E0; lia end.
  - apply Bn_push; [exact Qc | exists 0; reflexivity | now apply LK_skipn|]. cbn [app]. apply R1.
    match goal with E0 : Nat.ltb _ _ = true |- _ => now apply Nat.ltb_lt in E0 end.
  - apply Bn_same; [exact Qc | now rewrite app_nil_r].
Qed.

Lemma add_line_bi_nonleaf l st id n st' : get st id = Ok n -> leafph (bval n) = false -> add_line st id l = Ok st' -> BI st -> BI st'.
Proof.
  unfold add_line. intros G Nl H P. rewrite G in H. cbn [bind] in H.
  destruct (negb (bi_open (binf n))); [discriminate H|]. cbv zeta in H.
  destruct (c_pct (ps_cur st)); cbv iota beta in H;
  (mstep H; mon E; mon H; apply BI_st_cur;
   (eapply modify_info_const_bi; [eassumption | exact G | | exact P]); intros _;
   destruct n as [i ch]; destruct i; unfold Bn, bval in *; cbn in *; intro D; congruence).
Qed.
End handlers.

(* ================================================================== add_text_to_container *)
Section text.
Variables (o : bopts) (line : bytes).
Hypothesis HLine : LK line.
Hypothesis HLf : lf_terminated line.
Hint Resolve clear_llb_up_bi finalize_up_to_bi : bi.

Lemma sub_eq site a b c : sub site a b = Ok c -> c = a - b.
Proof. unfold sub. destruct (Nat.ltb a b); intro H; inversion H; reflexivity. Qed.

(* advance to first_nonspace, then add_line: on the line or on a prefix of it *)
Lemma fresh_add_bi s l1 count s5 id s6 site :
  FF (ps_cur s) line -> PCT line (ps_cur s) -> blank s = false ->
  (exists k, l1 = firstn k line) -> LK l1 ->
  sub site (fns s) (offset s) = Ok count -> fns s <= List.length l1 ->
  adv s l1 count false = Ok s5 -> add_line s5 id l1 = Ok s6 -> BI s -> BI s6.
Proof.
  intros F P Bk [k ->] L1 S Lf A Al B. apply sub_eq in S. unfold fns, offset, blank in *.
  destruct (adv_to_fns line s _ count s5 F P Lf S A) as [O Pf].
  eapply add_line_bi_rdy; [exact L1 | | exact Al | eapply adv_bi; eassumption].
  eapply RDY_at_fns; eassumption.
Qed.

Lemma line_prefix : exists k, line = firstn k line.
Proof. exists (List.length line). now rewrite firstn_all. Qed.

Lemma add_text_to_container_bi st c lm st' :
  CI (ps_cur st) line -> PCT line (ps_cur st) -> add_text_to_container o st c lm line = Ok st' -> BI st -> BI st'.
Proof.
  unfold add_text_to_container. intros CIc Pc H P.
  destruct (ffn st line) as [s0| |] eqn:E0; cbn [bind] in H; try discriminate H. assert (P0 : BI s0) by eauto with bi.
  assert (K0 : FF (ps_cur s0) line /\ PCT line (ps_cur s0)).
  { unfold ffn in E0. destruct (find_first_nonspace (ps_cur st) line) as [c'| |] eqn:Ef; cbn [bind] in E0; try discriminate E0.
    inversion E0; subst s0. cbn [ps_cur st_cur]. destruct (ffn_FF _ _ _ CIc Ef) as (F & Eo & Ep). split; [exact F|].
    unfold PCT in *. rewrite Eo, Ep. exact Pc. }
  destruct K0 as [F0 Pc0].
  destruct (get s0 c) as [cn| |] eqn:G0; cbn [bind] in H; try discriminate H.
  match type of H with bind ?r _ = _ => destruct r as [s1| |] eqn:E1; cbn [bind] in H; try discriminate H end.
  assert (P1 : BI s1) by (mon E1; eauto with bi).
  assert (K1 : KC (ps_cur s0) (ps_curline_len s0) s1) by (mon E1; try apply KC_self; eapply modify_info_KC; [eassumption | apply KC_self]).
  match type of H with bind ?r _ = _ => destruct r as [s2| |] eqn:E2; cbn [bind] in H; try discriminate H end.
  assert (P2 : BI s2) by eauto with bi.
  assert (K2 : KC (ps_cur s0) (ps_curline_len s0) s2) by (eapply modify_info_KC; eassumption).
  match type of H with bind ?r _ = _ => destruct r as [s3| |] eqn:E3; cbn [bind] in H; try discriminate H end.
  assert (P3 : BI s3) by eauto with bi.
  assert (K3 : KC (ps_cur s0) (ps_curline_len s0) s3) by (eapply clear_llb_up_KC; eassumption).
  match type of H with bind ?r _ = _ => destruct r as [lz| |] eqn:E4; cbn [bind] in H; try discriminate H end.
  destruct lz.
  { (* lazy continuation *)
    match type of E4 with (if ?cond then _ else _) = _ => destruct cond eqn:Cd; [|discriminate E4] end.
    apply andb_true_iff in Cd as [Cd _]. apply andb_true_iff in Cd as [_ Bk]. apply negb_true_iff in Bk.
    eapply add_line_bi_rdy; [exact HLine | | exact H | exact P3].
    unfold blank in Bk. rewrite (proj1 K3) in *. now apply RDY_lazy. }
  match type of H with bind ?r _ = _ => destruct r as [s4| |] eqn:E5; cbn [bind] in H; try discriminate H end.
  assert (P4 : BI s4) by eauto with bi.
  assert (K4 : KC (ps_cur s0) (ps_curline_len s0) s4) by (eapply finalize_up_to_KC; eassumption).
  assert (F4 : FF (ps_cur s4) line) by (rewrite (proj1 K4); exact F0).
  assert (Pc4 : PCT line (ps_cur s4)) by (rewrite (proj1 K4); exact Pc0).
  destruct (get s4 c) as [c4| |] eqn:G4; cbn [bind] in H; try discriminate H.
  match type of H with bind ?r _ = _ => destruct r as [[rc rs]| |] eqn:E6; cbn [bind fst snd] in H; try discriminate H end.
  inversion H; subst. apply BI_st_current. clear H E1 E2 E3 E4 E5.
  destruct (bval c4) eqn:Bv; mon E6; repeat match goal with p : (_ * _)%type |- _ => destruct p end; cbn [fst snd] in *;
  try match goal with E2 : (if negb ?b then chop_trailing_hashtags line else Ok line) = Ok _ |- _ => destruct (negb b) eqn:? end;
  repeat match goal with E2 : Ok line = Ok ?x |- _ => assert (x = line) by (inversion E2; reflexivity); subst x; clear E2 end;
  repeat match goal with E2 : Ok _ = Ok _ |- _ => inversion E2; subst; clear E2 end;
  first
    [ exact P4
    | match goal with A : add_line s4 _ line = Ok ?s |- BI ?s =>
        eapply add_line_bi_nonleaf; [exact G4 | rewrite Bv; reflexivity | exact A | exact P4] end
    | match goal with U : unwrap_parent _ (finalize o ?s1 _) = Ok (_, ?s), A : add_line s4 _ line = Ok ?s1 |- BI ?s =>
        eapply unwrap_parent_fin_bi; [exact U|]; eapply add_line_bi_nonleaf; [exact G4 | rewrite Bv; reflexivity | exact A | exact P4] end
    | match goal with Ch : chop_trailing_hashtags line = Ok ?l1, S : sub _ (fns s4) (offset s4) = Ok ?count,
                      A : adv s4 ?l1 ?count false = Ok ?s5, L : add_line ?s5 _ ?l1 = Ok ?s6, Eb : blank s4 = false,
                      Le : Nat.leb (fns s4) (List.length ?l1) = true |- BI ?s6 =>
        eapply (fresh_add_bi s4 l1); [exact F4 | exact Pc4 | exact Eb | exact (chop_prefix _ _ Ch) | exact (chop_LK _ _ Ch HLine)
                                     | exact S | now apply Nat.leb_le | exact A | exact L | exact P4] end
    | match goal with S : sub _ (fns s4) (offset s4) = Ok ?count,
                      A : adv s4 line ?count false = Ok ?s5, L : add_line ?s5 _ line = Ok ?s6, Eb : blank s4 = false,
                      Le : Nat.leb (fns s4) (List.length line) = true |- BI ?s6 =>
        eapply (fresh_add_bi s4 line); [exact F4 | exact Pc4 | exact Eb | exact line_prefix | exact HLine
                                       | exact S | now apply Nat.leb_le | exact A | exact L | exact P4] end
    | match goal with AC : add_child o s4 _ Paragraph _ = Ok (?p, ?st1), S : sub _ (fns ?st1) (offset ?st1) = Ok ?count,
                      A : adv ?st1 line ?count false = Ok ?st2, L : add_line ?st2 ?p line = Ok ?st3, Eb : blank s4 = false |- BI ?st3 =>
        let K := fresh "K" in
        pose proof (add_child_KC _ _ _ _ _ _ _ _ _ AC (KC_self s4)) as K;
        eapply (fresh_add_bi st1 line);
          [ rewrite (proj1 K); exact F4 | rewrite (proj1 K); exact Pc4 | unfold blank in *; rewrite (proj1 K); exact Eb
          | exact line_prefix | exact HLine | exact S
          | unfold fns; rewrite (proj1 K); exact (proj1 (proj2 F4)) | exact A | exact L | eapply add_child_bi; eassumption ] end ].
Qed.
End text.

(* ================================================================== process_line, parse_blocks *)
Lemma process_line_bi o st line0 st' :
  lf_terminated (norm_line line0) -> LK (norm_line line0) -> BlocksTotal2Walk.LI o st ->
  process_line o st line0 = Ok st' -> BI st -> BI st'.
Proof.
  intros LN HK L0 H P. unfold process_line in H. cbv zeta in H.
  match type of H with bind (check_open_blocks o ?sa ?lx) _ = _ =>
    assert (La : BlocksTotal2Walk.LI o sa) by (eapply LI_eqtree; [|exact L0]; repeat split);
    assert (Pa : BI sa) by (apply BI_st_line_number, BI_st_cur, BI_st_curline; exact P);
    set (s_a := sa) in *; set (ln := lx) in * end.
  assert (Ca : C1 ln s_a).
  { unfold s_a, C1, C0. cbn [ps_cur st_cur st_line_number st_curline ps_curline_len c_offset].
    match goal with |- context [if ?b then 3 else 0] => destruct b eqn:Bm end.
    - apply andb_true_iff in Bm. destruct Bm as [Bm1 Bm2]. pose proof (bom_inside _ LN Bm2) as B3. fold ln in B3.
      split; [split; [apply CI_start; lia | reflexivity] | lia].
    - destruct (lf_last _ LN) as [_ L1]. fold ln in L1. split; [split; [apply CI_start; lia | reflexivity] | lia]. }
  assert (Ta : PI ln s_a) by (constructor; unfold s_a; cbn; intro D; discriminate D).
  destruct La as [Va Ha].
  destruct (check_open_blocks o s_a ln) as [[r s1]| |] eqn:C; cbn [bind] in H; try discriminate H.
  pose proof (safe_ok _ _ _ (check_open_blocks_spec o s_a ln Va) C) as K.
  pose proof (check_open_blocks_cur ln LN o s_a Ca) as Kc. rewrite C in Kc. cbn [sg fst snd] in Kc.
  pose proof (check_open_blocks_pi ln o s_a r s1 C Ta) as T1.
  assert (P1 : BI s1) by (eapply check_open_blocks_bi; eassumption).
  destruct r as [[lm am]|].
  - cbn in K. destruct K as [T Hl]. pose proof (W_eqtree _ _ _ T Va) as V1.
    assert (H1 : has s1 (ps_current s1)) by (destruct T as (Tx & Ty & Tz); unfold has in *; now rewrite Tx, Tz).
    destruct (open_new_blocks o s1 lm ln am) as [[c s2]| |] eqn:O; cbn [bind] in H; try discriminate H.
    pose proof (open_new_blocks_cur o ln s1 lm am LN V1 Hl H1 Kc) as C2. rewrite O in C2. cbn [sg snd] in C2.
    pose proof (open_new_blocks_pi ln o s1 lm am c s2 O T1) as T2.
    assert (P2 : BI s2) by (eapply open_new_blocks_bi; eassumption).
    destruct (Nat.eqb (ps_current s1) (ps_current s2)).
    + destruct (add_text_to_container o s2 c lm ln) as [s3| |] eqn:A; cbn [bind] in H; try discriminate H.
      inversion H; subst. apply BI_st_curline, BI_st_last_line_length.
      eapply add_text_to_container_bi; [exact HK | exact LN | exact (proj1 C2) | destruct T2 as [T2]; exact T2 | exact A | exact P2].
    + cbn [bind] in H. inversion H; subst. apply BI_st_curline, BI_st_last_line_length. exact P2.
  - cbn [bind] in H. inversion H; subst. apply BI_st_curline, BI_st_last_line_length. exact P1.
Qed.

Lemma process_lines_bi o : forall ls st st',
  Forall (fun l => lf_terminated (norm_line l) /\ LK (norm_line l)) ls -> BlocksTotal2Walk.LI o st ->
  process_lines o st ls = Ok st' -> BI st -> BI st'.
Proof.
  induction ls as [|l r IH]; intros st st' F L0 H P; cbn [process_lines] in H.
  - now inversion H; subst.
  - inversion F as [|? ? Hh Hr]; subst. destruct Hh as [Hl Hk].
    destruct (process_line o st l) as [s1| |] eqn:E; cbn [bind] in H; try discriminate H.
    pose proof (safe_ok _ _ _ (process_line_spec' o st l L0) E) as L1.
    eapply IH; [exact Hr | exact L1 | exact H|]. exact (process_line_bi o st l s1 Hl Hk L0 E P).
Qed.

Lemma BI_init : BI init_state.
Proof. constructor. cbn [ps_root init_state all_info]. split; [|exact I]. apply Bn_trivial. reflexivity. Qed.

Lemma front_matter_prologue_bi o x st rest : front_matter_prologue o init_state x = Ok (st, rest) -> BI st.
Proof.
  unfold front_matter_prologue. intro H.
  destruct (bo_front_matter_delimiter o) as [d|]; [|inversion H; subst; apply BI_init].
  mon H; monall; repeat match goal with p : (_ * _)%type |- _ => destruct p end; cbn [fst snd] in *; try apply BI_init.
  apply BI_st_line_number.
  eapply modify_info_bi; [eassumption | bn_side |].
  eapply unwrap_parent_fin_bi; [eassumption|]. eapply add_child_bi; [eassumption | apply BI_init].
Qed.

Lemma finalize_document_bi o st st' : finalize_document o st = Ok st' -> BI st -> BI st'.
Proof.
  unfold finalize_document. intros H P. mon H; monall. repeat match goal with p : (_ * _)%type |- _ => destruct p end. cbn [fst snd] in *.
  eapply finalize_bi; [eassumption|]. eapply finalize_up_to_bi; eassumption.
Qed.

(* every Paragraph / Heading of the tree the block phase answers: no CR, every line non-blank (tables off) *)
Theorem parse_blocks_nonblank o x r : parse_blocks o x = Ok r -> all_info Bn (br_root r).
Proof.
  intro H. unfold parse_blocks in H.
  destruct (front_matter_prologue o init_state x) as [[st rest]| |] eqn:E; cbn [bind] in H; try discriminate H.
  pose proof (front_matter_prologue_bi _ _ _ _ E) as P.
  pose proof (safe_ok _ _ _ (front_matter_prologue_spec o init_state x (LI_init o)) E) as L0. cbn [fst] in L0.
  assert (LL : Forall (fun l => lf_terminated (norm_line l) /\ LK (norm_line l)) (lines rest)).
  { pose proof (lines_lf rest) as A. pose proof (lines_LK rest) as B. induction A; inversion B; subst; constructor; [split; assumption | auto]. }
  unfold lines in LL. destruct (feed_lines rest) as [ls total]. cbn [fst] in LL.
  unfold run_lines in H.
  destruct (process_lines o st ls) as [s1| |] eqn:R; cbn [bind] in H; try discriminate H.
  destruct (finalize_document o s1) as [s2| |] eqn:F; cbn [bind] in H; try discriminate H.
  inversion H; subst. cbn [br_root]. apply BI_all.
  eapply finalize_document_bi; [exact F|]. eapply process_lines_bi; eassumption.
Qed.
