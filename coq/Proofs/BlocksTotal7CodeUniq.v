(* Proofs/BlocksTotal7CodeUniq.v — the code block sites, part 3: the exception disappears.  With pairwise distinct
   identifiers (TI), an update of the node under the identifier `id` reaches the ONLY node with that identifier:
   from CX (Some id) and Cn of the new information, CX None.  add_line on the fresh code block, with a line that
   ends with LF and the cursor inside the line, is such an update. *)
From Coq Require Import List NArith Arith Bool Lia Strings.String.
From V Require Import Base.Bytes Base.Res Gen.Nodes Gen.BlocksConst Model.Ast Model.Strings Model.Blocks
  Proofs.BlocksProofs Proofs.BlocksPos Proofs.ParserShapeBlocks Proofs.ParserShapeTree Proofs.ParserShapeTabPrim
  Proofs.BlocksTotal7CodeFin Proofs.BlocksTotal7CodeInv.
Import ListNotations.
Local Open Scope string_scope.
Local Open Scope list_scope.

Lemma all_info_absent (P Q : binfo -> Prop) id : (forall i, P i -> bi_id i <> id -> Q i) ->
  forall t, all_info P t -> cnt id (ids t) = 0 -> all_info Q t.
Proof.
  intro HPQ. induction t as [i ch IH] using bnode_ind2. intros A C. cnt_norm.
  apply all_info_node in A. destruct A as [Ai Ak]. apply all_info_node. split.
  { apply HPQ; [exact Ai|]. intro E. rewrite E, one_same in C. lia. }
  assert (C2 : cnt id (fids ch) = 0) by lia. clear C Ai.
  induction ch as [|c r IHr]; [constructor|].
  inversion IH as [|? ? IHc IHrest]; subst. inversion Ak as [|? ? Ac Ar]; subst. cnt_norm.
  constructor; [apply IHc; [exact Ac | lia] | apply IHr; [exact IHrest | exact Ar | lia]].
Qed.

Lemma all_info_absent_list (P Q : binfo -> Prop) id : (forall i, P i -> bi_id i <> id -> Q i) ->
  forall l, Forall (all_info P) l -> cnt id (fids l) = 0 -> Forall (all_info Q) l.
Proof.
  intro HPQ. induction l as [|d r IHr]; intros A Z; [constructor|]. inversion A; subst. cnt_norm.
  constructor; [eapply all_info_absent; [exact HPQ | assumption | lia] | apply IHr; [assumption | lia]].
Qed.

Lemma upd_some_cnt id f : forall t t', upd id f t = Some t' -> 1 <= cnt id (ids t).
Proof.
  induction t as [i ch IH] using bnode_ind2. intros t' U. cbn [upd] in U. cnt_norm.
  destruct (Nat.eqb (bi_id i) id) eqn:E. { apply Nat.eqb_eq in E. rewrite E, one_same. lia. }
  match type of U with match ?g with _ => _ end = _ => destruct g as [ch'|] eqn:G; [|discriminate] end. clear U.
  enough (1 <= cnt id (fids ch)) by lia.
  revert ch' G. induction ch as [|c r IHr]; intros ch' G; [discriminate|].
  inversion IH as [|? ? IHc IHrest]; subst. cnt_norm.
  destruct (upd id f c) as [c'|] eqn:Uc.
  - specialize (IHc c' eq_refl). lia.
  - match type of G with match ?g with _ => _ end = _ => destruct g as [r'|] eqn:Gr; [|discriminate] end.
    specialize (IHr IHrest r' eq_refl). lia.
Qed.

Lemma upd_all_ex (P Q : binfo -> Prop) id f : (forall i, P i -> bi_id i <> id -> Q i) ->
  (forall n, bid n = id -> cnt id (fids (bkids n)) = 0 -> all_info P n -> all_info Q (f n)) ->
  forall t t', cnt id (ids t) <= 1 -> all_info P t -> upd id f t = Some t' -> all_info Q t'.
Proof.
  intros HPQ Hf. induction t as [i ch IH] using bnode_ind2. intros t' C A U. cbn [upd] in U. cnt_norm.
  destruct (Nat.eqb (bi_id i) id) eqn:E.
  { apply Nat.eqb_eq in E. inversion U; subst t'. apply Hf; [exact E | cbn [bkids]; rewrite E, one_same in C; lia | exact A]. }
  apply Nat.eqb_neq in E.
  match type of U with match ?g with _ => _ end = _ => destruct g as [ch'|] eqn:G; [|discriminate] end.
  inversion U; subst t'. clear U.
  apply all_info_node in A. destruct A as [Ai Ak]. apply all_info_node. split; [now apply HPQ|].
  assert (C2 : cnt id (fids ch) <= 1) by lia. clear C Ai.
  revert ch' G C2. induction ch as [|c r IHr]; intros ch' G C2; [discriminate|].
  inversion IH as [|? ? IHc IHrest]; subst. inversion Ak as [|? ? Ac Ar]; subst. cnt_norm.
  destruct (upd id f c) as [c'|] eqn:Uc.
  - inversion G; subst. pose proof (upd_some_cnt _ _ _ _ Uc) as K.
    constructor; [apply (IHc c'); [lia | exact Ac | reflexivity] |].
    eapply all_info_absent_list; [exact HPQ | exact Ar | lia].
  - match type of G with match ?g with _ => _ end = _ => destruct g as [r'|] eqn:Gr; [|discriminate] end.
    inversion G; subst.
    assert (K : 1 <= cnt id (fids r)).
    { assert (U2 : upd id f (BNode i r) = Some (BNode i r')).
      { cbn [upd]. apply Nat.eqb_neq in E. rewrite E. rewrite Gr. reflexivity. }
      apply upd_some_cnt in U2. cnt_norm. unfold one in U2. destruct (Nat.eq_dec (bi_id i) id); [contradiction | lia]. }
    constructor; [eapply all_info_absent; [exact HPQ | exact Ac | lia] | apply (IHr IHrest Ar r' eq_refl); lia].
Qed.

(* the state level: modify_info with a constant on the only node with the identifier *)
Lemma modify_info_establish o st id i' st' :
  TI o [] st -> modify_info st id (fun _ => i') = Ok st' -> Cn i' -> CX (Some id) st -> CX None st'.
Proof.
  intros T M Ci [A]. unfold modify_info, modify in M.
  destruct (upd id (on_info (fun _ => i')) (ps_root st)) as [r|] eqn:U; [|discriminate M]. inversion M; subst st'.
  constructor. cbn [ps_root st_root].
  eapply (upd_all_ex (Cx (Some id)) (Cx None) id); [| | apply (TI_distinct _ _ _ T) | exact A | exact U].
  - intros i [L|C] N; [inversion L; contradiction | now right].
  - intros n _ Z An. destruct n as [i0 ch0]. cbn [on_info bkids] in *. apply all_info_node in An. destruct An as [_ Ak].
    apply all_info_node. split; [now right|].
    eapply all_info_absent_list; [| exact Ak | exact Z]. intros i [L|C] N; [inversion L; contradiction | now right].
Qed.

Lemma add_line_establish o st id line st' n cb p :
  TI o [] st -> add_line st id line = Ok st' -> get st id = Ok n -> bi_val (binf n) = CodeBlock cb -> line = p ++ [x0a] ->
  (cb_fenced cb = true -> (if c_pct (ps_cur st) then S (offset st) else offset st) < List.length line) ->
  CX (Some id) st -> CX None st'.
Proof.
  intros T H G Ev El Ho P. destruct (cb_fenced cb) eqn:Fe.
  - destruct (add_line_code _ _ _ _ _ _ _ H G Ev El (Ho eq_refl)) as (i' & s1 & M & R & Ev' & _ & _ & Ec).
    assert (P1 : CX None s1).
    { eapply modify_info_establish; [exact T | exact M | | exact P].
      unfold Cn. rewrite Ev'. intros _. unfold code_ok. rewrite Fe. now apply ends_lf_lend_ok. }
    destruct P1 as [A]. constructor. now rewrite R.
  - destruct (add_line_grows _ _ _ _ _ H G) as (i' & s1 & M & R & K & _).
    assert (P1 : CX None s1).
    { eapply modify_info_establish; [exact T | exact M | | exact P].
      apply K. unfold Cn. rewrite Ev. intros _. unfold code_ok. rewrite Fe. exact I. }
    destruct P1 as [A]. constructor. now rewrite R.
Qed.
