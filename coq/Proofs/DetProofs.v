(* Proofs/DetProofs.v — C05: the order in which the code-block attribute pairs reach the
   renderer (a HashMap's iteration order in the Rust) does not influence the output. *)
From Coq Require Import List NArith Bool Lia Permutation Sorting.Sorted Strings.String.
From V Require Import Base.Bytes Base.Res Model.Ast Model.Html.
Import ListNotations.
Local Open Scope list_scope.

Section ISort.
  Variable A : Type.
  Variable key : A -> N.

  Fixpoint ins (x : A) (l : list A) : list A :=
    match l with
    | [] => [x]
    | y :: r => if (key x <=? key y)%N then x :: l else y :: ins x r
    end.
  Definition isort (l : list A) : list A := fold_right ins [] l.

  Definition klt (x y : A) : Prop := (key x < key y)%N.

  Lemma ins_perm x l : Permutation (x :: l) (ins x l).
  Proof.
    induction l as [|y r IH]; cbn [ins]; [reflexivity|].
    destruct (key x <=? key y)%N; [reflexivity|].
    rewrite perm_swap. apply perm_skip. exact IH.
  Qed.

  Lemma isort_perm l : Permutation l (isort l).
  Proof.
    induction l as [|x l IH]; [reflexivity|]. cbn [isort fold_right].
    rewrite <- ins_perm. apply perm_skip. exact IH.
  Qed.

  Lemma ins_sorted x l :
    StronglySorted klt l -> ~ In (key x) (map key l) -> StronglySorted klt (ins x l).
  Proof.
    induction l as [|y r IH]; intros Hs Hn; cbn [ins].
    - constructor; constructor.
    - inversion Hs as [|? ? Hr Hy]; subst.
      destruct (key x <=? key y)%N eqn:E.
      + apply N.leb_le in E.
        assert (key x < key y)%N as Hlt.
        { assert (key x <> key y) by (intro Q; apply Hn; left; symmetry; exact Q). lia. }
        constructor; [exact Hs|]. constructor; [exact Hlt|].
        rewrite Forall_forall in *. intros z Hz. specialize (Hy z Hz). unfold klt in *. lia.
      + apply N.leb_gt in E. constructor.
        * apply IH; [exact Hr | intro Q; apply Hn; right; exact Q].
        * rewrite Forall_forall in *. intros z Hz.
          apply (Permutation_in _ (Permutation_sym (ins_perm x r))) in Hz.
          destruct Hz as [<-|Hz]; [exact E | apply Hy; exact Hz].
  Qed.

  Lemma isort_sorted l : NoDup (map key l) -> StronglySorted klt (isort l).
  Proof.
    induction l as [|x l IH]; intro Hn; [constructor|].
    cbn [isort fold_right]. inversion Hn as [|? ? Hx Hl]; subst.
    apply ins_sorted; [apply IH; exact Hl|].
    intro Q. apply Hx. apply in_map_iff in Q. destruct Q as [z [Hk Hz]].
    apply in_map_iff. exists z. split; [exact Hk|].
    apply (Permutation_in _ (Permutation_sym (isort_perm l))). exact Hz.
  Qed.

  Lemma sorted_perm_unique l1 : forall l2,
    StronglySorted klt l1 -> StronglySorted klt l2 -> Permutation l1 l2 -> l1 = l2.
  Proof.
    induction l1 as [|x r1 IH]; intros l2 H1 H2 P.
    - apply Permutation_nil in P. subst. reflexivity.
    - destruct l2 as [|y r2]; [apply Permutation_sym, Permutation_nil in P; discriminate|].
      inversion H1 as [|? ? Hr1 Hx]; inversion H2 as [|? ? Hr2 Hy]; subst.
      assert (x = y) as ->.
      { assert (In x (y :: r2)) as Ix by (apply (Permutation_in _ P); left; reflexivity).
        assert (In y (x :: r1)) as Iy by (apply (Permutation_in _ (Permutation_sym P)); left; reflexivity).
        destruct Ix as [->|Ix]; [reflexivity|]. destruct Iy as [->|Iy]; [reflexivity|].
        rewrite Forall_forall in Hx, Hy. specialize (Hx y Iy). specialize (Hy x Ix). unfold klt in *. lia. }
      f_equal. apply IH; [exact Hr1 | exact Hr2 | apply Permutation_cons_inv with y; exact P].
  Qed.

  Theorem isort_perm_invariant a b :
    Permutation a b -> NoDup (map key a) -> isort a = isort b.
  Proof.
    intros P Hn. apply sorted_perm_unique.
    - apply isort_sorted. exact Hn.
    - apply isort_sorted. apply (Permutation_NoDup (Permutation_map key P)). exact Hn.
    - rewrite <- (isort_perm a), <- (isort_perm b). exact P.
  Qed.
End ISort.

(* the renderer's attribute order, as written in Model/Html.v *)
Definition attr_rank (n : bytes) : N :=
  (if bytes_eqb n (B "class") then 0 else if bytes_eqb n (B "data-meta") then 1
   else if bytes_eqb n (B "data-sourcepos") then 2 else 3)%N.

Lemma sort_attrs3_is_isort a :
  sort_attrs3 a = map snd (isort _ (fun x : bytes * attr => attr_rank (fst x)) a).
Proof. reflexivity. Qed.

Theorem sort_attrs3_perm_invariant a b :
  Permutation a b -> NoDup (map (fun x : bytes * attr => attr_rank (fst x)) a) ->
  sort_attrs3 a = sort_attrs3 b.
Proof.
  intros P Hn. rewrite !sort_attrs3_is_isort. f_equal. apply isort_perm_invariant; assumption.
Qed.
