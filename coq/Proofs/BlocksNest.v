(* Proofs/BlocksNest.v — C11 for the BLOCK PHASE model (Model/Blocks.v), part 1: a tree predicate with a clause per node
   AND a clause per (parent, child) pair, its preservation by the arena primitives (find_node / upd / edit_kids), and the
   state invariant XI carried by the simple steps.

     tn P rel t      :=  P holds of every node's info and `rel (info of the parent) (info of the child)` of every edge.
     Q L s i         :=  start line <= max 1 L;  end line <= max 1 L unless the value is FrontMatter;
                         Paragraph: start line + |line_offsets| <= L + s
                         (s = 0 from the moment process_line has counted the line until add_line has stored it, s = 1
                         from then to the next line: every line adds at most one entry).  This is what bounds the start
                         that try_inserting_table_header_paragraph moves by the LF count of the preface
                         (copy_line_offsets fails when the count exceeds |line_offsets|).
     rl dl i k       :=  description lists off -> start line of the parent <= start line of the child.
     XI o L s st     :=  ps_line_number st = L /\ tn (Q L s) (rl (bo_description_lists o)) (ps_root st).

   Parts 2 and 3: Proofs/BlocksNestTab.v (tables, description lists: these need the pairwise distinct identifiers of
   Proofs/ParserShapeTabPrim.v `TI`), Proofs/BlocksNestRun.v (handlers, process_line, parse_blocks, witnesses).
   NO Model file is changed. *)
From Coq Require Import List NArith Arith Bool Lia Strings.String.
From V Require Import Base.Bytes Base.Res Gen.StrLeafGen Gen.FeedConst Gen.Nodes Gen.BlocksConst Model.Ast Model.Strings
  Model.Feed Model.FrontMatter Model.RefDef Model.Blocks Proofs.FeedProofs Proofs.BlocksProofs Proofs.ParserShapeTree.
Import ListNotations.
Local Open Scope string_scope.
Local Open Scope list_scope.

(* ================================================================== the tree predicate *)
Section TN.
Variables (P : binfo -> Prop) (rel : binfo -> binfo -> Prop).

Fixpoint tn (t : bnode) : Prop :=
  match t with
  | BNode i ch => P i /\ (fix go (l : list bnode) : Prop := match l with [] => True | c :: r => (rel i (binf c) /\ tn c) /\ go r end) ch
  end.

Definition kid_ok (i : binfo) (c : bnode) : Prop := rel i (binf c) /\ tn c.

Lemma tn_node i ch : tn (BNode i ch) <-> P i /\ Forall (kid_ok i) ch.
Proof.
  cbn [tn]. split; intros [A B]; (split; [exact A|]).
  - induction ch as [|c r IH]; constructor; [apply B | apply IH, B].
  - induction ch as [|c r IH]; [exact I|]. inversion B; subst. split; [assumption | now apply IH].
Qed.

Lemma tn_binf t : tn t -> P (binf t).
Proof. destruct t as [i ch]. intro A. apply tn_node in A. apply A. Qed.

Lemma tn_kid t k : tn t -> In k (bkids t) -> kid_ok (binf t) k.
Proof. destruct t as [i ch]. intros A I. apply tn_node in A. destruct A as [_ A]. rewrite Forall_forall in A. now apply A. Qed.

Lemma find_node_tn id t : forall n, tn t -> find_node id t = Some n -> tn n.
Proof.
  induction t as [i ch IH] using bnode_ind2. intros n A F. cbn [find_node] in F.
  destruct (Nat.eqb (bi_id i) id). { now inversion F; subst. }
  apply tn_node in A. destruct A as [_ A].
  induction ch as [|c r IHr]; [discriminate|].
  inversion IH; subst. inversion A as [|? ? [_ Ac] Ar]; subst.
  destruct (find_node id c) eqn:E.
  - inversion F; subst. eauto.
  - eauto.
Qed.

Lemma upd_tn id f t : forall t',
  tn t -> upd id f t = Some t' ->
  (forall n, find_node id t = Some n -> tn n -> tn (f n) /\ (forall i, rel i (binf n) -> rel i (binf (f n)))) ->
  tn t' /\ (forall i, rel i (binf t) -> rel i (binf t')).
Proof.
  induction t as [i ch IH] using bnode_ind2. intros t' A U Hf. cbn [upd] in U. cbn [find_node] in Hf.
  destruct (Nat.eqb (bi_id i) id). { inversion U; subst. apply Hf; auto. }
  match type of U with match ?g with _ => _ end = _ => destruct g as [ch'|] eqn:G; [|discriminate] end.
  inversion U; subst. clear U.
  apply tn_node in A. destruct A as [Ai A]. split; [|intros j H; exact H]. apply tn_node. split; [exact Ai|].
  revert ch' G Hf. induction ch as [|c r IHr]; intros ch' G Hf; [discriminate|].
  inversion IH as [|? ? IHc IHrest]; subst. inversion A as [|? ? [Rc Ac] Ar]; subst.
  destruct (upd id f c) as [c'|] eqn:Uc.
  - inversion G; subst. constructor; [|exact Ar].
    destruct (IHc c' Ac eq_refl) as [T1 T2]. { intros n Fn. apply Hf. now rewrite Fn. }
    split; [apply T2; exact Rc | exact T1].
  - match type of G with match ?g with _ => _ end = _ => destruct g as [r'|] eqn:Gr; [|discriminate] end.
    inversion G; subst.
    assert (Fc : find_node id c = None) by (eapply upd_none_find; eassumption).
    constructor; [split; assumption|]. apply IHr; auto. intros n Fn. apply Hf. now rewrite Fc.
Qed.

Lemma edit_kids_tn id g t : forall t',
  tn t -> edit_kids id g t = Some t' ->
  (forall i pre c post, P i -> bid c = id -> Forall (kid_ok i) (pre ++ c :: post) ->
     Forall (kid_ok i) (g (kind_of (bi_val i)) pre c post)) ->
  tn t' /\ binf t' = binf t.
Proof.
  induction t as [i ch IH] using bnode_ind2. intros t' A U Hg. cbn [edit_kids] in U.
  apply tn_node in A. destruct A as [Ai A].
  destruct (split_kid id ch) as [[[pre c] post]|] eqn:S.
  { inversion U; subst. split; [|reflexivity]. apply tn_node. split; [exact Ai|]. apply Hg; [exact Ai | eapply split_kid_bid; exact S |].
    now rewrite <- (split_kid_eq _ _ _ _ _ S). }
  clear S.
  match type of U with match ?gg with _ => _ end = _ => destruct gg as [ch'|] eqn:G; [|discriminate] end.
  inversion U; subst. clear U. split; [|reflexivity]. apply tn_node. split; [exact Ai|].
  revert ch' G. induction ch as [|c r IHr]; intros ch' G; [discriminate|].
  inversion IH as [|? ? IHc IHrest]; subst. inversion A as [|? ? [Rc Ac] Ar]; subst.
  destruct (edit_kids id g c) as [c'|] eqn:Uc.
  - inversion G; subst. constructor; [|exact Ar]. destruct (IHc c' Ac eq_refl Hg) as [T1 T2].
    split; [rewrite T2; exact Rc | exact T1].
  - match type of G with match ?gg with _ => _ end = _ => destruct gg as [r'|] eqn:Gr; [|discriminate] end.
    inversion G; subst. constructor; [split; assumption|]. now apply IHr.
Qed.
End TN.

(* change of the two clauses, with the membership of the nodes at hand *)
Lemma tn_conv (P P' : binfo -> Prop) (rel rel' : binfo -> binfo -> Prop) : forall t,
  (forall k, In k (bsub t) -> P (binf k) -> P' (binf k)) ->
  (forall p k, In p (bsub t) -> In k (bkids p) -> rel (binf p) (binf k) -> rel' (binf p) (binf k)) ->
  tn P rel t -> tn P' rel' t.
Proof.
  induction t as [i ch IH] using bnode_ind2. intros HP HR A. apply tn_node in A. destruct A as [Ai A]. apply tn_node. split.
  - apply (HP (BNode i ch)); [apply bsub_self | exact Ai].
  - rewrite Forall_forall in *. intros c Hc. destruct (A c Hc) as [Rc Tc]. split.
    + apply (HR (BNode i ch) c); [apply bsub_self | exact Hc | exact Rc].
    + apply IH; [exact Hc | | | exact Tc].
      * intros k Hk. apply HP. eapply bsub_kid; eassumption.
      * intros p k Hp. apply HR. eapply bsub_kid; eassumption.
Qed.

Lemma tn_mono (P P' : binfo -> Prop) (rel rel' : binfo -> binfo -> Prop) t :
  (forall i, P i -> P' i) -> (forall i k, rel i k -> rel' i k) -> tn P rel t -> tn P' rel' t.
Proof. intros HP HR. apply tn_conv; [intros k _; apply HP | intros p k _ _; apply HR]. Qed.

(* ================================================================== the clauses *)
Definition max1 (n : nat) : nat := Nat.max 1 n.
Definition is_fm (v : node_value) : bool := match v with FrontMatter _ => true | _ => false end.

Definition Qa (L : nat) (i : binfo) : Prop :=
  bi_sl i <= max1 L /\ (is_fm (bi_val i) = false -> bi_el i <= max1 L).
Definition Qb (L s : nat) (i : binfo) : Prop :=
  bi_val i = Paragraph -> bi_sl i + List.length (bi_lo i) <= L + s.
Definition Q (L s : nat) (i : binfo) : Prop := Qa L i /\ Qb L s i.

Definition rl (dl : bool) (i k : binfo) : Prop := dl = false -> bi_sl i <= bi_sl k.

Definition XI (o : bopts) (L s : nat) (st : pstate) : Prop :=
  ps_line_number st = L /\ tn (Q L s) (rl (bo_description_lists o)) (ps_root st).

Lemma XI_st_next o L s st n : XI o L s st -> XI o L s (st_next st n). Proof. exact (fun H => H). Qed.
Lemma XI_st_current o L s st n : XI o L s st -> XI o L s (st_current st n). Proof. exact (fun H => H). Qed.
Lemma XI_st_refmap o L s st m : XI o L s st -> XI o L s (st_refmap st m). Proof. exact (fun H => H). Qed.
Lemma XI_st_cur o L s st c : XI o L s st -> XI o L s (st_cur st c). Proof. exact (fun H => H). Qed.
Lemma XI_st_curline o L s st a b : XI o L s st -> XI o L s (st_curline st a b). Proof. exact (fun H => H). Qed.
Lemma XI_st_last_line_length o L s st n : XI o L s st -> XI o L s (st_last_line_length st n). Proof. exact (fun H => H). Qed.

Lemma Q_mono L L' s s' i : L + s <= L' + s' -> L <= L' -> Q L s i -> Q L' s' i.
Proof.
  unfold Q, Qa, Qb, max1. intros H1 H2 [[A B] C]. split; [split|].
  - lia.
  - intro F. specialize (B F). lia.
  - intro V. specialize (C V). lia.
Qed.

Lemma XI_slack o L st : XI o L 0 st -> XI o L 1 st.
Proof. intros [E A]. split; [exact E|]. eapply tn_mono; [| |exact A]; [intros i; apply Q_mono; lia | auto]. Qed.

Lemma XI_next_line o L st : XI o L 1 st -> XI o (S L) 0 (st_line_number st (S (ps_line_number st))).
Proof.
  intros [E A]. split; [cbn; now rewrite E|]. cbn.
  eapply tn_mono; [| |exact A]; [intros i; apply Q_mono; lia | auto].
Qed.

Lemma get_tn o L s st id n : XI o L s st -> get st id = Ok n -> tn (Q L s) (rl (bo_description_lists o)) n.
Proof. intros [_ A] G. apply get_find in G. exact (find_node_tn _ _ _ _ _ A G). Qed.

Lemma get_q o L s st id n : XI o L s st -> get st id = Ok n -> Q L s (binf n).
Proof. intros X G. apply tn_binf with (rel := rl (bo_description_lists o)). eapply get_tn; eassumption. Qed.

(* ================================================================== the primitives *)
Lemma modify_xi o L s st id f st' :
  XI o L s st -> modify st id f = Ok st' ->
  (forall n, find_node id (ps_root st) = Some n -> tn (Q L s) (rl (bo_description_lists o)) n ->
     tn (Q L s) (rl (bo_description_lists o)) (f n) /\
     (forall i, rl (bo_description_lists o) i (binf n) -> rl (bo_description_lists o) i (binf (f n)))) ->
  XI o L s st'.
Proof.
  unfold modify, XI. intros [E A] M Hf. destruct (upd id f (ps_root st)) as [r|] eqn:U; [|discriminate].
  inversion M; subst. cbn. split; [reflexivity|]. exact (proj1 (upd_tn _ _ _ _ _ _ A U Hf)).
Qed.

(* a change of the info that keeps the clause and does not lower the start line *)
Definition keeps (L s : nat) (f : binfo -> binfo) : Prop :=
  forall i, Q L s i -> Q L s (f i) /\ bi_sl (f i) = bi_sl i.

Lemma on_info_tn dl L s f i ch :
  Q L s (f i) -> bi_sl (f i) = bi_sl i -> tn (Q L s) (rl dl) (BNode i ch) ->
  tn (Q L s) (rl dl) (BNode (f i) ch) /\ (forall j, rl dl j i -> rl dl j (f i)).
Proof.
  intros Hq Hs A. apply tn_node in A. destruct A as [Ai Ak]. split.
  - apply tn_node. split; [exact Hq|]. eapply Forall_impl; [|exact Ak].
    intros c [Rc Tc]. split; [|exact Tc]. unfold rl in *. rewrite Hs. exact Rc.
  - intros j. unfold rl. rewrite Hs. auto.
Qed.

Lemma modify_info_xi o L s st id f st' :
  modify_info st id f = Ok st' -> keeps L s f -> XI o L s st -> XI o L s st'.
Proof.
  intros M Hf X. eapply modify_xi; [exact X | exact M |].
  intros n _ An. destruct n as [i ch]. cbn [on_info binf].
  pose proof (tn_binf _ _ _ An) as Qi. cbn [binf] in Qi. destruct (Hf i Qi) as [H1 H2].
  now apply on_info_tn.
Qed.

(* modify_info with a constant computed from the node found under the same identifier *)
Lemma modify_info_const_xi o L s st id n i' st' :
  modify_info st id (fun _ => i') = Ok st' -> get st id = Ok n ->
  (Q L s (binf n) -> Q L s i' /\ bi_sl i' = bi_sl (binf n)) -> XI o L s st -> XI o L s st'.
Proof.
  intros M G Hf X. eapply modify_xi; [exact X | exact M |].
  intros m Fm Am. apply get_find in G. rewrite G in Fm. inversion Fm; subst m.
  destruct n as [i ch]. cbn [on_info binf] in *.
  pose proof (tn_binf _ _ _ Am) as Qi. cbn [binf] in Qi. destruct (Hf Qi) as [H1 H2].
  now apply (on_info_tn _ _ _ (fun _ => i')).
Qed.

Lemma edit_root_xi o L s st id g r :
  edit_kids id g (ps_root st) = Some r -> XI o L s st ->
  (forall i pre c post, Q L s i -> bid c = id ->
     Forall (kid_ok (Q L s) (rl (bo_description_lists o)) i) (pre ++ c :: post) ->
     Forall (kid_ok (Q L s) (rl (bo_description_lists o)) i) (g (kind_of (bi_val i)) pre c post)) ->
  XI o L s (st_root st r).
Proof. intros E [El A] Hg. split; [exact El|]. cbn. exact (proj1 (edit_kids_tn _ _ _ _ _ _ A E Hg)). Qed.

Lemma bdetach_xi o L s st id st' : bdetach st id = Ok st' -> XI o L s st -> XI o L s st'.
Proof.
  unfold bdetach. intros D X.
  destruct (edit_kids id (fun _ pre _ post => pre ++ post) (ps_root st)) as [r|] eqn:E.
  - inversion D; subst. eapply edit_root_xi; [exact E | exact X |].
    intros i pre c post _ _ K. apply Forall_app in K. destruct K as [K1 K2]. inversion K2; subst.
    apply Forall_app. split; assumption.
  - now inversion D; subst.
Qed.

(* a new last child whose start line is not before its parent's *)
Lemma append_child_xi o L s st pid c st' :
  append_child st pid c = Ok st' -> tn (Q L s) (rl (bo_description_lists o)) c ->
  (forall p, find_node pid (ps_root st) = Some p -> Q L s (binf p) -> rl (bo_description_lists o) (binf p) (binf c)) ->
  XI o L s st -> XI o L s st'.
Proof.
  intros A Ac Hr X. eapply modify_xi; [exact X | exact A |].
  intros n Fn An. destruct n as [i ch]. cbn [binf]. split; [|auto].
  pose proof (tn_binf _ _ _ An) as Qi. cbn [binf] in Qi.
  apply tn_node in An. apply tn_node. split; [apply An|].
  apply Forall_app. split; [apply An|]. constructor; [|constructor]. split; [|exact Ac].
  exact (Hr _ Fn Qi).
Qed.

(* side conditions `keeps L s setter` *)
Ltac keeps_side :=
  let i := fresh "i" in let H := fresh "H" in
  intros i H; destruct i; unfold Q, Qa, Qb in *; cbn in *; (split; [exact H | reflexivity]).

Create HintDb xi.
#[export] Hint Resolve XI_st_next XI_st_current XI_st_refmap XI_st_cur XI_st_curline XI_st_last_line_length
  bdetach_xi modify_info_xi : xi.
#[export] Hint Extern 1 (keeps _ _ _) => keeps_side : xi.

Ltac xigo H := mon H; monall; repeat match goal with p : (_ * _)%type |- _ => destruct p end; cbn [fst snd] in *; eauto 20 with xi.

Lemma adv_xi o L s st line n b st' : adv st line n b = Ok st' -> XI o L s st -> XI o L s st'.
Proof. unfold adv. intros H P. mon H. exact P. Qed.
Lemma ffn_xi o L s st line st' : ffn st line = Ok st' -> XI o L s st -> XI o L s st'.
Proof. unfold ffn. intros H P. mon H. exact P. Qed.
#[export] Hint Resolve adv_xi ffn_xi : xi.

(* ================================================================== finalize *)
Lemma retighten_xi o L s st p st' : retighten st p = Ok st' -> XI o L s st -> XI o L s st'.
Proof.
  unfold retighten. intros H P. destruct p as [item|]; [|inversion H; subst; exact P].
  destruct (parent_of item (ps_root st)) as [lid|]; [|inversion H; subst; exact P].
  destruct (get st lid) as [l| |] eqn:G; cbn [bind] in H; try discriminate H.
  destruct (bi_open (binf l)); [inversion H; subst; exact P|].
  destruct (bval l) eqn:Bv; try (inversion H; subst; exact P).
  eapply modify_xi; [exact P | exact H |].
  intros n Fn An. rewrite (get_find _ _ _ G) in Fn. inversion Fn; subst n.
  destruct l as [i ch]. unfold bval in Bv. cbn [binf on_info] in *.
  apply on_info_tn; [|reflexivity | exact An].
  pose proof (tn_binf _ _ _ An) as Qi. destruct i. unfold Q, Qa, Qb in *. cbn in *. rewrite Bv in Qi.
  destruct Qi as [[A B] C]. repeat split; auto. intro V; discriminate V.
Qed.
#[export] Hint Resolve retighten_xi : xi.

(* the end finalize computes (the definition of Proofs/BlocksPos.v, repeated: that file takes minutes to load) *)
Definition fin_ends (st : pstate) (i : binfo) : res (nat * nat) :=
  if Nat.eqb (ps_curline_len st) 0 then Ok (ps_line_number st, ps_last_line_length st)
  else if ends_fenced_like (bi_val i) then Ok (ps_line_number st, ps_curline_end_col st)
  else match bi_val i with
       | ThematicBreak => Ok (bi_el i, bi_ec i)
       | _ => do l <- sub "mod.rs:finalize_borrowed:self.line_number - 1" (ps_line_number st) 1;
              Ok (l, ps_last_line_length st)
       end.

Lemma fin_ends_le L s st i ends :
  fin_ends st i = Ok ends -> ps_line_number st = L -> Q L s i -> is_fm (bi_val i) = false -> fst ends <= max1 L.
Proof.
  unfold fin_ends, Q, Qa, max1. intros H E [[A B] _] F. subst L. specialize (B F).
  destruct (Nat.eqb (ps_curline_len st) 0). { inversion H; subst. cbn [fst]. lia. }
  destruct (ends_fenced_like (bi_val i)). { inversion H; subst. cbn [fst]. lia. }
  destruct (bi_val i); try (unfold sub in H; destruct (Nat.ltb (ps_line_number st) 1); cbn [bind] in H; [discriminate H|];
                            inversion H; subst; cbn [fst]; lia).
  inversion H; subst. cbn [fst]. lia.
Qed.

(* what finalize writes: same start, same line_offsets, a value of the same constructor, the computed end *)
Lemma Q_fin L s i l v' c' ec op :
  Q L s i -> (is_fm (bi_val i) = false -> l <= max1 L) -> is_fm v' = is_fm (bi_val i) ->
  (v' = Paragraph -> bi_val i = Paragraph) ->
  Q L s (mkBI (bi_id i) v' (bi_sl i) (bi_sc i) l ec c' op (bi_llb i) (bi_ioff i) (bi_lo i) (bi_tv i)).
Proof.
  unfold Q, Qa, Qb. cbn. intros [[A B] C] Hl Hf Hv. repeat split; auto.
  intro F. rewrite Hf in F. auto.
Qed.

Lemma finalize_xi o L s st id p st' : finalize o st id = Ok (p, st') -> XI o L s st -> XI o L s st'.
Proof.
  intros F P. unfold finalize in F.
  mstep F. pose proof (get_q _ _ _ _ _ _ P E) as Pa.
  mstep F; [discriminate F|].
  match type of F with bind ?e _ = _ => change e with (fin_ends st (binf a)) in F end.
  destruct (fin_ends st (binf a)) as [ends| |] eqn:Ee; cbn [bind] in F; try discriminate F.
  pose proof (fin_ends_le L s st _ _ Ee (proj1 P) Pa) as S1.
  destruct (bi_val (binf a)) eqn:Ev; mon F;
  repeat first [ apply XI_st_refmap
               | (eapply retighten_xi; [eassumption|])
               | (eapply bdetach_xi; [eassumption|])
               | (eapply modify_info_const_xi; [eassumption | exact E | | exact P];
                  intros _; (split; [|reflexivity]); unfold set_content, set_val, set_end, set_open; cbn [bi_id bi_val bi_sl bi_sc bi_el bi_ec bi_content bi_open bi_llb bi_ioff bi_lo bi_tv];
                  apply Q_fin; [exact Pa | rewrite Ev; exact S1 | rewrite Ev; reflexivity | rewrite Ev; first [discriminate | reflexivity | auto]]) ].
Qed.
#[export] Hint Resolve finalize_xi : xi.

Lemma unwrap_parent_fin_xi site o L s st id p st' :
  unwrap_parent site (finalize o st id) = Ok (p, st') -> XI o L s st -> XI o L s st'.
Proof.
  unfold unwrap_parent. intros H P.
  destruct (finalize o st id) as [[op s1]| |] eqn:E; cbn [bind fst snd] in H; try discriminate H.
  destruct op; inversion H; subst. eapply finalize_xi; eassumption.
Qed.
#[export] Hint Resolve unwrap_parent_fin_xi : xi.

(* ================================================================== add_child *)
Lemma add_child_loop_xi o L s k : forall fuel st parent p' st',
  add_child_loop fuel o st parent k = Ok (p', st') -> XI o L s st -> XI o L s st'.
Proof.
  induction fuel as [|f IH]; intros st parent p' st' H P; [discriminate|].
  cbn [add_child_loop] in H.
  destruct (get st parent) as [pn| |] eqn:G; cbn [bind] in H; try discriminate H.
  destruct (can_contain (bkind pn) k).
  - inversion H; subst. exact P.
  - match type of H with bind ?r _ = _ => destruct r as [[q s1]| |] eqn:U; cbn [bind fst snd] in H; try discriminate H end.
    eapply IH; [exact H|]. eapply unwrap_parent_fin_xi; eassumption.
Qed.

Lemma Q_new L s id v col : 1 <= L -> Q L s (new_info id v L col).
Proof. unfold Q, Qa, Qb, max1. cbn [new_info bi_sl bi_el bi_val bi_lo List.length]. intros. repeat split; intros; lia. Qed.

(* `post` keeps the start and the end line and does not make a Paragraph; the kids are below the new node *)
Lemma add_child_gen_xi o L s st parent v col post kids id st' :
  add_child_gen o st parent v col post kids = Ok (id, st') -> 1 <= L ->
  (forall i, bi_val i = v -> bi_lo i = [] -> Q L s i -> Q L s (post i) /\ bi_sl (post i) = bi_sl i) ->
  Forall (kid_ok (Q L s) (rl (bo_description_lists o)) (post (new_info id v L col))) kids ->
  XI o L s st -> XI o L s st'.
Proof.
  unfold add_child_gen. intros H HL Hp Hk P.
  match type of H with bind ?r _ = _ => destruct r as [[p' s1]| |] eqn:E; cbn [bind] in H; try discriminate H end.
  pose proof (add_child_loop_xi _ _ _ _ _ _ _ _ _ E P) as P1.
  mon H. rewrite (proj1 P1) in *.
  destruct (Hp (new_info (ps_next s1) v L col) eq_refl eq_refl (Q_new L s _ _ _ HL)) as [Q1 Q2].
  eapply append_child_xi; [eassumption | | | apply XI_st_next; exact P1].
  - apply tn_node. split; [exact Q1 | exact Hk].
  - intros p _ [[A _] _] _. cbn [binf]. rewrite Q2. cbn [new_info bi_sl]. unfold max1 in A. lia.
Qed.

Lemma add_child_xi o L s st parent v col id st' :
  add_child o st parent v col = Ok (id, st') -> 1 <= L -> XI o L s st -> XI o L s st'.
Proof.
  unfold add_child. intros H HL P. eapply add_child_gen_xi; [exact H | exact HL | auto | constructor | exact P].
Qed.
#[export] Hint Resolve add_child_xi : xi.

(* ================================================================== check_open_blocks *)
Lemma skip_one_space_xi o L s st line site st' : skip_one_space st line site = Ok st' -> XI o L s st -> XI o L s st'.
Proof. unfold skip_one_space. intros H P. xigo H. Qed.
#[export] Hint Resolve skip_one_space_xi : xi.

Lemma parse_block_quote_prefix_xi o L s st line b st' : parse_block_quote_prefix o st line = Ok (b, st') -> XI o L s st -> XI o L s st'.
Proof. unfold parse_block_quote_prefix. intros H P. xigo H. Qed.
#[export] Hint Resolve parse_block_quote_prefix_xi : xi.

Lemma parse_footnote_prefix_xi o L s st line b st' : parse_footnote_definition_block_prefix st line = Ok (b, st') -> XI o L s st -> XI o L s st'.
Proof. unfold parse_footnote_definition_block_prefix. intros H P. xigo H. Qed.
#[export] Hint Resolve parse_footnote_prefix_xi : xi.

Lemma parse_item_prefix_xi o L s st line c mo pad b st' : parse_item_prefix st line c mo pad = Ok (b, st') -> XI o L s st -> XI o L s st'.
Proof. unfold parse_item_prefix. intros H P. xigo H. Qed.
#[export] Hint Resolve parse_item_prefix_xi : xi.

Lemma skip_fence_offset_xi o L s line site : forall i st st', skip_fence_offset i st line site = Ok st' -> XI o L s st -> XI o L s st'.
Proof. induction i as [|j IH]; intros st st' H P; cbn [skip_fence_offset] in H; xigo H. Qed.
#[export] Hint Resolve skip_fence_offset_xi : xi.

Lemma parse_code_block_prefix_xi o L s st line c cb a b st' :
  parse_code_block_prefix o st line c cb = Ok (a, b, st') -> XI o L s st -> XI o L s st'.
Proof. unfold parse_code_block_prefix. intros H P. xigo H. Qed.
#[export] Hint Resolve parse_code_block_prefix_xi : xi.

Lemma parse_mbq_prefix_xi o L s st line c fl fo a b st' :
  parse_multiline_block_quote_prefix o st line c fl fo = Ok (a, b, st') -> XI o L s st -> XI o L s st'.
Proof. unfold parse_multiline_block_quote_prefix. intros H P. xigo H. Qed.
#[export] Hint Resolve parse_mbq_prefix_xi : xi.

Lemma check_container_xi o L s st line c a b st' : check_container o st line c = Ok (a, b, st') -> XI o L s st -> XI o L s st'.
Proof. unfold check_container. intros H P. destruct (bval c); xigo H. Qed.
#[export] Hint Resolve check_container_xi : xi.

Lemma check_open_blocks_inner_xi o L s line : forall fuel st container a c b st',
  check_open_blocks_inner fuel o st line container = Ok (a, c, b, st') -> XI o L s st -> XI o L s st'.
Proof. induction fuel as [|f IH]; intros st container a c b st' H P; cbn [check_open_blocks_inner] in H; xigo H. Qed.
#[export] Hint Resolve check_open_blocks_inner_xi : xi.

Lemma check_open_blocks_xi o L s st line r st' : check_open_blocks o st line = Ok (r, st') -> XI o L s st -> XI o L s st'.
Proof. unfold check_open_blocks. intros H P. xigo H. Qed.
#[export] Hint Resolve check_open_blocks_xi : xi.

Lemma reopen_xi o L s : forall fuel st id st', reopen_ast_nodes fuel st id = Ok st' -> XI o L s st -> XI o L s st'.
Proof. induction fuel as [|f IH]; intros st id st' H P; cbn [reopen_ast_nodes] in H; xigo H. Qed.
#[export] Hint Resolve reopen_xi : xi.

Lemma clear_llb_up_xi o L s : forall fuel st id st', clear_llb_up fuel st id = Ok st' -> XI o L s st -> XI o L s st'.
Proof. induction fuel as [|f IH]; intros st id st' H P; cbn [clear_llb_up] in H; xigo H. Qed.

Lemma finalize_up_to_xi o L s target site : forall fuel st st', finalize_up_to fuel o st target site = Ok st' -> XI o L s st -> XI o L s st'.
Proof. induction fuel as [|f IH]; intros st st' H P; cbn [finalize_up_to] in H; xigo H. Qed.
#[export] Hint Resolve clear_llb_up_xi finalize_up_to_xi : xi.

(* add_line stores the line: the slack goes from 0 to 1 *)
Lemma add_line_xi o L st id line st' : add_line st id line = Ok st' -> XI o L 0 st -> XI o L 1 st'.
Proof.
  unfold add_line. intros H P.
  destruct (get st id) as [n| |] eqn:G; cbn [bind] in H; try discriminate H.
  pose proof (get_q _ _ _ _ _ _ P G) as Q0.
  apply XI_slack in P.
  mon H; monall; apply XI_st_cur;
  (eapply modify_info_const_xi; [eassumption | exact G | | exact P]);
  intros _; (split; [|reflexivity]);
  destruct n as [i ch]; destruct i; unfold Q, Qa, Qb in *; cbn in *;
  destruct Q0 as [[A B] C]; repeat split; auto; intro V; specialize (C V); rewrite ?app_length; cbn; lia.
Qed.
