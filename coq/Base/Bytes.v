(* Base/Bytes.v — bytes, finite-domain lifting, ASCII helpers, decimal and hex printing. *)
From Coq Require Import List NArith Bool Lia.
From Coq Require Import Strings.String.
From Coq Require Export Init.Byte.
From Coq Require Strings.Byte.
Import ListNotations.

Notation byte := Init.Byte.byte.
Notation bytes := (list Init.Byte.byte).

Definition beqb (a b : byte) : bool := N.eqb (Byte.to_N a) (Byte.to_N b).

Lemma to_N_inj a b : Byte.to_N a = Byte.to_N b -> a = b.
Proof.
  intro H. assert (Some a = Some b) as E.
  { rewrite <- (Byte.of_to_N a), <- (Byte.of_to_N b), H. reflexivity. }
  congruence.
Qed.

Lemma beqb_eq a b : beqb a b = true <-> a = b.
Proof.
  unfold beqb. rewrite N.eqb_eq. split; [apply to_N_inj | congruence].
Qed.

Lemma beqb_refl a : beqb a a = true.
Proof. apply beqb_eq. reflexivity. Qed.

Lemma beqb_neq a b : beqb a b = false <-> a <> b.
Proof.
  split.
  - intros H E. apply beqb_eq in E. congruence.
  - intros H. destruct (beqb a b) eqn:E; [apply beqb_eq in E; contradiction | reflexivity].
Qed.

Lemma beqb_spec a b : reflect (a = b) (beqb a b).
Proof. destruct (beqb a b) eqn:E; constructor; [apply beqb_eq | apply beqb_neq]; assumption. Qed.

Definition byte_of_N (n : N) : byte :=
  match Byte.of_N n with Some b => b | None => x00 end.

(* every byte, in numeric order *)
Definition all_bytes : list byte := map byte_of_N (map N.of_nat (seq 0 256)).

Lemma all_bytes_complete : forall b, In b all_bytes.
Proof.
  intro b. unfold all_bytes. apply in_map_iff. exists (Byte.to_N b). split.
  - unfold byte_of_N. rewrite Byte.of_to_N. reflexivity.
  - apply in_map_iff. exists (N.to_nat (Byte.to_N b)). split.
    + apply Nnat.N2Nat.id.
    + apply in_seq. pose proof (Byte.to_N_bounded b). lia.
Qed.

(* Finite check lifted to a universally quantified statement over the 256 bytes. *)
Lemma forall_bytes (P : byte -> bool) :
  forallb P all_bytes = true -> forall b, P b = true.
Proof. intros H b. rewrite forallb_forall in H. apply H, all_bytes_complete. Qed.

Lemma forall_bytes2 (P : byte -> byte -> bool) :
  forallb (fun a => forallb (P a) all_bytes) all_bytes = true -> forall a b, P a b = true.
Proof. intros H a b. apply (forall_bytes (P a)). revert a. apply forall_bytes. exact H. Qed.

Definition B (s : string) : bytes := list_byte_of_string s.

(* list helpers *)
Fixpoint bytes_eqb (a b : bytes) : bool :=
  match a, b with
  | [], [] => true
  | x :: a', y :: b' => beqb x y && bytes_eqb a' b'
  | _, _ => false
  end.

Lemma bytes_eqb_eq a b : bytes_eqb a b = true <-> a = b.
Proof.
  revert b; induction a as [|x a IH]; intros [|y b]; simpl; split; intro H;
    try reflexivity; try discriminate.
  - apply andb_true_iff in H. destruct H as [H1 H2]. apply beqb_eq in H1. apply IH in H2. congruence.
  - inversion H; subst. rewrite beqb_refl. simpl. apply IH. reflexivity.
Qed.

Fixpoint starts_with (s p : bytes) {struct p} : bool :=
  match p, s with
  | [], _ => true
  | y :: p', x :: s' => beqb x y && starts_with s' p'
  | _ :: _, [] => false
  end.

Lemma starts_with_app s p : starts_with s p = true <-> exists r, s = p ++ r.
Proof.
  revert s; induction p as [|y p IH]; intros s; simpl.
  - split; [intros _; exists s; reflexivity | intros _; destruct s; reflexivity].
  - destruct s as [|x s]; simpl.
    + split; [discriminate | intros [r H]; discriminate].
    + rewrite andb_true_iff, beqb_eq, IH. split.
      * intros [-> [r ->]]. exists r. reflexivity.
      * intros [r H]. inversion H; subst. split; [reflexivity | exists r; reflexivity].
Qed.

Definition mem_byte (b : byte) (l : bytes) : bool := existsb (beqb b) l.

Lemma mem_byte_In b l : mem_byte b l = true <-> In b l.
Proof.
  unfold mem_byte. rewrite existsb_exists. split.
  - intros [x [Hx E]]. apply beqb_eq in E. subst. exact Hx.
  - intros H. exists b. split; [exact H | apply beqb_refl].
Qed.

(* ASCII helpers *)
Definition bN (b : byte) : N := Byte.to_N b.
Definition in_range (lo hi : N) (b : byte) : bool := (lo <=? bN b)%N && (bN b <=? hi)%N.
Definition is_upper b := in_range 65 90 b.
Definition is_lower b := in_range 97 122 b.
Definition is_digit b := in_range 48 57 b.
Definition is_ascii b := (bN b <? 128)%N.
Definition to_lower_ascii (b : byte) : byte := if is_upper b then byte_of_N (bN b + 32) else b.

(* hex digits, upper case *)
Definition hex_digit (n : N) : byte :=
  if (n <? 10)%N then byte_of_N (48 + n) else byte_of_N (55 + n).
Definition hex2 (b : byte) : bytes := [hex_digit (bN b / 16); hex_digit (bN b mod 16)].

Definition hex_val (b : byte) : option N :=
  if is_digit b then Some (bN b - 48)%N
  else if in_range 65 70 b then Some (bN b - 55)%N
  else if in_range 97 102 b then Some (bN b - 87)%N
  else None.

(* decimal printing of N, fuel-free via positive digits count bound *)
Fixpoint dec_aux (fuel : nat) (n : N) (acc : bytes) : bytes :=
  match fuel with
  | O => acc
  | S f =>
    let d := byte_of_N (48 + n mod 10) in
    if (n <? 10)%N then d :: acc else dec_aux f (n / 10) (d :: acc)
  end.
Definition dec (n : N) : bytes := dec_aux (S (N.to_nat (N.log2 n))) n [].

Fixpoint repeat_bytes (n : nat) (b : byte) : bytes :=
  match n with O => [] | S k => b :: repeat_bytes k b end.

Definition concat_bytes (l : list bytes) : bytes := List.concat l.
