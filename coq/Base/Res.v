(* Base/Res.v — results with explicit panic sites and fuel exhaustion. *)
From Coq Require Import List Strings.String.
Import ListNotations.

Inductive res (A : Type) : Type :=
| Ok (a : A)
| Panic (site : string)
| OutOfFuel.
Arguments Ok {A} a.
Arguments Panic {A} site.
Arguments OutOfFuel {A}.

Definition bind {A B} (r : res A) (f : A -> res B) : res B :=
  match r with
  | Ok a => f a
  | Panic s => Panic s
  | OutOfFuel => OutOfFuel
  end.

Notation "'do' x <- r ; k" := (bind r (fun x => k))
  (at level 200, x pattern, r at level 100, k at level 200, right associativity).

Definition is_ok {A} (r : res A) : bool := match r with Ok _ => true | _ => false end.

Definition res_map {A B} (f : A -> B) (r : res A) : res B :=
  match r with Ok a => Ok (f a) | Panic s => Panic s | OutOfFuel => OutOfFuel end.
