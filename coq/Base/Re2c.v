(* Base/Re2c.v — the semantics of one re2c rule block as comrak configures it (scanners.re header):
   * the input is the byte slice followed by NUL bytes (YYPEEK returns 0 at and past the end); `pad` is the
     number of NULs that can take part in a match (computed by the translator from the classes that contain
     \x00; it is 0 for every scanner whose classes all exclude \x00);
   * among all rules the LONGEST match wins, the EARLIER rule on equal length; when no rule matches the
     default rule `*` fires (it consumes one code unit);
   * `r1 / r2` (trailing context): r1 r2 is matched, then the cursor goes back to the end of r1
     (YYRESTORECTX) — the largest admissible end of r1 (greedy head; the translator only accepts heads of
     the form [class]{n,});
   * `r1 @t r2`: the tag t is the offset where r2 starts.
   No proofs here. *)
From Coq Require Import List NArith Bool Strings.String.
From V Require Import Base.Bytes Base.Regex.
Import ListNotations.

Inductive action : Type :=
| ActCursor                 (* return Some(cursor) *)
| ActNone                   (* return None *)
| ActBool (b : bool)        (* return true / false *)
| ActConst (n : nat)        (* return Some(n) *)
| ActVariant (s : string)   (* return Some(AlertType::X) / Some(SetextChar::X) *)
| ActTasklist.              (* the tasklist action *)

Inductive rule : Type :=
| RPlain (r : re) (a : action)
| RCtx (r1 r2 : re) (a : action)
| RTag (r1 r2 : re) (a : action).

Definition rule_re (x : rule) : re :=
  match x with
  | RPlain r _ => r
  | RCtx r1 r2 _ | RTag r1 r2 _ => Cat r1 r2
  end.

Definition rule_act (x : rule) : action :=
  match x with RPlain _ a | RCtx _ _ a | RTag _ _ a => a end.

(* what the action sees: which action, the cursor, the tag *)
Record outcome : Type := mkOutcome { o_act : action; o_cursor : nat; o_tag : nat }.

(* largest k' <= k such that r1 matches w[0,k') and r2 matches w[k',..) *)
Fixpoint split_go (r1 r2 : re) (w : bytes) (k : nat) : option nat :=
  if matchb r1 (firstn k w) && matchb r2 (skipn k w) then Some k
  else match k with O => None | S k' => split_go r1 r2 w k' end.

(* longest match over the rules, earlier rule on ties *)
Fixpoint pick_rule (rules : list rule) (w : bytes) (best : option (nat * rule)) : option (nat * rule) :=
  match rules with
  | [] => best
  | x :: rest =>
    let best' :=
      match longest_match (rule_re x) w with
      | Some n =>
        match best with
        | Some (m, _) => if Nat.ltb m n then Some (n, x) else best
        | None => Some (n, x)
        end
      | None => best
      end in
    pick_rule rest w best'
  end.

Definition run_rules (rules : list rule) (dflt : action) (pad : nat) (s : bytes) : outcome :=
  let w := s ++ repeat x00 pad in
  match pick_rule rules w None with
  | None => mkOutcome dflt 1 0
  | Some (L, RPlain _ a) => mkOutcome a L 0
  | Some (L, RCtx r1 r2 a) =>
    match split_go r1 r2 (firstn L w) L with
    | Some k => mkOutcome a k 0
    | None => mkOutcome a L 0
    end
  | Some (L, RTag r1 r2 a) =>
    match split_go r1 r2 (firstn L w) L with
    | Some k => mkOutcome a L k
    | None => mkOutcome a L 0
    end
  end.
