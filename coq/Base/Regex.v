(* Base/Regex.v — regular expressions over BYTES: syntax, match relation, Brzozowski derivatives with
   smart constructors (terms stay small on whole-line inputs), longest-prefix matcher.
   Proofs: Proofs/RegexProofs.v.  No proofs here. *)
From Coq Require Import List NArith Bool.
From V Require Import Base.Bytes.
Import ListNotations.

(* a set of bytes as a list of inclusive numeric ranges *)
Definition cset := list (N * N).

Fixpoint cs_mem (cs : cset) (b : byte) : bool :=
  match cs with
  | [] => false
  | (lo, hi) :: r => in_range lo hi b || cs_mem r b
  end.

Inductive re : Type :=
| Empty                 (* matches nothing *)
| Eps                   (* matches the empty string *)
| Chr (cs : cset)       (* one byte of the set *)
| Cat (a b : re)
| Alt (a b : re)
| Star (a : re).

(* derived forms *)
Definition Plus (r : re) : re := Cat r (Star r).
Definition Opt (r : re) : re := Alt Eps r.
Fixpoint Power (n : nat) (r : re) : re :=
  match n with O => Eps | S k => Cat r (Power k r) end.
Fixpoint UpTo (n : nat) (r : re) : re :=
  match n with O => Eps | S k => Opt (Cat r (UpTo k r)) end.
(* r{n,m} (m >= n) and r{n,} *)
Definition Repeat (n m : nat) (r : re) : re := Cat (Power n r) (UpTo (m - n) r).
Definition AtLeast (n : nat) (r : re) : re := Cat (Power n r) (Star r).
Fixpoint CatL (l : list re) : re :=
  match l with [] => Eps | [r] => r | r :: l' => Cat r (CatL l') end.
Fixpoint AltL (l : list re) : re :=
  match l with [] => Empty | [r] => r | r :: l' => Alt r (AltL l') end.

(* one byte, ASCII case-insensitive / case-sensitive; literal strings *)
Definition chr_ci (b : byte) : re :=
  if is_upper b then Chr [(bN b, bN b); (bN b + 32, bN b + 32)%N]
  else if is_lower b then Chr [(bN b - 32, bN b - 32)%N; (bN b, bN b)]
  else Chr [(bN b, bN b)].
Definition chr_cs (b : byte) : re := Chr [(bN b, bN b)].
Fixpoint lit_ci (l : bytes) : re :=
  match l with [] => Eps | [b] => chr_ci b | b :: l' => Cat (chr_ci b) (lit_ci l') end.
Fixpoint lit_cs (l : bytes) : re :=
  match l with [] => Eps | [b] => chr_cs b | b :: l' => Cat (chr_cs b) (lit_cs l') end.

(* the match relation *)
Inductive matches : re -> bytes -> Prop :=
| MEps : matches Eps []
| MChr cs b : cs_mem cs b = true -> matches (Chr cs) [b]
| MCat a b s t : matches a s -> matches b t -> matches (Cat a b) (s ++ t)
| MAltL a b s : matches a s -> matches (Alt a b) s
| MAltR a b s : matches b s -> matches (Alt a b) s
| MStar0 a : matches (Star a) []
| MStarS a s t : matches a s -> matches (Star a) t -> matches (Star a) (s ++ t).

(* ---- syntactic equality (for the idempotence rule of alt) ---- *)
Fixpoint cset_eqb (a b : cset) : bool :=
  match a, b with
  | [], [] => true
  | (l1, h1) :: a', (l2, h2) :: b' => N.eqb l1 l2 && N.eqb h1 h2 && cset_eqb a' b'
  | _, _ => false
  end.

Fixpoint re_eqb (a b : re) : bool :=
  match a, b with
  | Empty, Empty => true
  | Eps, Eps => true
  | Chr x, Chr y => cset_eqb x y
  | Cat a1 a2, Cat b1 b2 => re_eqb a1 b1 && re_eqb a2 b2
  | Alt a1 a2, Alt b1 b2 => re_eqb a1 b1 && re_eqb a2 b2
  | Star x, Star y => re_eqb x y
  | _, _ => false
  end.

(* ---- smart constructors: Empty/Eps units, right-nesting, duplicate alternatives dropped ---- *)
Fixpoint alt_mem (a b : re) : bool :=
  match b with
  | Alt b1 b2 => re_eqb a b1 || alt_mem a b2
  | _ => re_eqb a b
  end.

Definition alt1 (a b : re) : re :=
  match a, b with
  | Empty, _ => b
  | _, Empty => a
  | _, _ => if alt_mem a b then b else Alt a b
  end.

Fixpoint alt (a b : re) : re :=
  match a with
  | Alt a1 a2 => alt a1 (alt a2 b)
  | _ => alt1 a b
  end.

Definition cat1 (a b : re) : re :=
  match a, b with
  | Empty, _ => Empty
  | _, Empty => Empty
  | Eps, _ => b
  | _, Eps => a
  | _, _ => Cat a b
  end.

Fixpoint cat (a b : re) : re :=
  match a with
  | Cat a1 a2 => cat a1 (cat a2 b)
  | _ => cat1 a b
  end.

(* ---- nullable, derivative ---- *)
Fixpoint nullable (r : re) : bool :=
  match r with
  | Empty => false
  | Eps => true
  | Chr _ => false
  | Cat a b => nullable a && nullable b
  | Alt a b => nullable a || nullable b
  | Star _ => true
  end.

Fixpoint deriv (c : byte) (r : re) : re :=
  match r with
  | Empty => Empty
  | Eps => Empty
  | Chr cs => if cs_mem cs c then Eps else Empty
  | Cat a b => if nullable a then alt (cat (deriv c a) b) (deriv c b) else cat (deriv c a) b
  | Alt a b => alt (deriv c a) (deriv c b)
  | Star a => cat (deriv c a) (Star a)
  end.

Definition is_Empty (r : re) : bool := match r with Empty => true | _ => false end.

(* whole-string match *)
Fixpoint matchb (r : re) (s : bytes) : bool :=
  match s with
  | [] => nullable r
  | c :: s' => if is_Empty r then false else matchb (deriv c r) s'
  end.

(* length of the longest prefix of s matched by r (re2c is longest-match) *)
Fixpoint lm_go (r : re) (s : bytes) (n : nat) (best : option nat) : option nat :=
  let best' := if nullable r then Some n else best in
  match s with
  | [] => best'
  | c :: s' => if is_Empty r then best' else lm_go (deriv c r) s' (S n) best'
  end.

Definition longest_match (r : re) (s : bytes) : option nat := lm_go r s 0 None.

(* size of a term (used by the correspondence check to watch derivative growth) *)
Fixpoint re_size (r : re) : nat :=
  match r with
  | Empty | Eps | Chr _ => 1
  | Cat a b | Alt a b => S (re_size a + re_size b)
  | Star a => S (re_size a)
  end.

Fixpoint deriv_all (r : re) (s : bytes) : re :=
  match s with [] => r | c :: s' => deriv_all (deriv c r) s' end.
