(* Extract/Extract.v — extraction of the executable models and spec predicates to OCaml.
   ExtrOcamlBasic only (bool, option, unit, list, prod, sumbool, sumor); no Extract Constant. *)
Require Extraction.
Require Import ExtrOcamlBasic.
From Coq Require Import List NArith Strings.String.
From V Require Import Base.Bytes Base.Res Gen.Tables Model.Escape Spec.EscapeSpec.
From V Require Import Gen.Tagfilter Model.Tagfilter Spec.GfmFilter.
Extraction Language OCaml.
Set Extraction KeepSingleton.

(* one name per line; components append theirs *)
Extraction "model.ml"
  Byte.to_N
  Byte.of_N
  Bytes.byte_of_N
  Escape.escape
  Escape.escape_href
  Escape.write_opening_tag
  EscapeSpec.escape_spec
  EscapeSpec.escape_href_spec
  EscapeSpec.html_unescape
  EscapeSpec.href_wf
  EscapeSpec.href_decode
  EscapeSpec.no_pct_hex
  EscapeSpec.lex_start_tag
  EscapeSpec.utf8_valid
  Tagfilter.tagfilter
  Tagfilter.tagfilter_block
  Tagfilter.html_block_payload
  Tagfilter.html_inline_payload
  GfmFilter.disallowed_at
  GfmFilter.gfm_filter
  GfmFilter.lt_escape_first
  GfmFilter.any_disallowed
  GfmFilter.disallowed_at_narrow
  GfmFilter.gfm_filter_narrow
  GfmFilter.lt_expansion
.
