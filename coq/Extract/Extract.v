(* Extract/Extract.v — extraction of the executable models and spec predicates to OCaml.
   ExtrOcamlBasic only (bool, option, unit, list, prod, sumbool, sumor); no Extract Constant. *)
Require Extraction.
Require Import ExtrOcamlBasic.
From Coq Require Import List NArith Strings.String.
From V Require Import Base.Bytes Base.Res Gen.Tables Model.Escape Spec.EscapeSpec Model.Ast Model.Html Spec.HtmlSpec Gen.Scanners.
Extraction Language OCaml.
Set Extraction KeepSingleton.

(* one name per line; components append theirs *)
Extraction "model.ml"
  Byte.to_N
  Byte.of_N
  Bytes.byte_of_N
  Escape.escape
  Escape.escape_href
  Escape.write_opening_tag
  EscapeSpec.escape_spec
  EscapeSpec.escape_href_spec
  EscapeSpec.html_unescape
  EscapeSpec.href_wf
  EscapeSpec.href_decode
  EscapeSpec.no_pct_hex
  EscapeSpec.lex_start_tag
  EscapeSpec.utf8_valid
  Ast.node_size
  Ast.mkOpts
  Ast.kind_of
  Html.html
  Html.events
  Html.ser
  HtmlSpec.html_safe_check
  HtmlSpec.html_balanced_check
  HtmlSpec.strip_sourcepos
  HtmlSpec.relex_identity
  HtmlSpec.dangerous_spec
  HtmlSpec.well_nested
  HtmlSpec.safe_ev
  HtmlSpec.s7
  HtmlSpec.s4
  Scanners.dangerous_url
.
