(* Extract/Extract.v — extraction of the executable models and spec predicates to OCaml.
   ExtrOcamlBasic only (bool, option, unit, list, prod, sumbool, sumor); no Extract Constant. *)
Require Extraction.
Require Import ExtrOcamlBasic.
From Coq Require Import List NArith Strings.String.
From V Require Import Base.Bytes Base.Res Gen.Tables Model.Escape Spec.EscapeSpec Model.Ast Model.Html Spec.HtmlSpec Gen.Scanners.
From V Require Import Base.Bytes Base.Res Gen.Tables Model.Escape Spec.EscapeSpec.
From V Require Import Model.Anchor.
From V Require Import Model.Ast Model.Footnotes Spec.FootnoteSpec.
From V Require Import Model.FrontMatter Spec.FrontMatterSpec.
From V Require Import Model.Arena.
From V Require Import Gen.FeedConst Model.Feed Spec.LineEndings.
From V Require Import Base.Bytes Base.Res Gen.Tables Model.Escape Spec.EscapeSpec Model.Ast.
From V Require Import Gen.NodesXml Model.Xml Spec.XmlLex.
From V Require Import Gen.Cli Model.CliModel Spec.CliDoc.
From V Require Import Gen.Tagfilter Model.Tagfilter Spec.GfmFilter.
From V Require Import Spec.Shape.
From V Require Import Spec.SpSpec.
From V Require Import Gen.Nodes Gen.TableRows Spec.Valid.
From V Require Import Gen.CmGen Model.Cm Spec.CmSpec.
From V Require Import Spec.SourcePos Spec.SourcePosKnown.
From V Require Import Base.Regex Base.Re2c Gen.ScannersRe Model.Scan.
From V Require Import Model.StrLeafApi.
From V Require Import Spec.Doc.
From V Require Import Gen.Consts Model.Caps.
From V Require Import Gen.Special Model.Special Spec.Triggers.
From V Require Import Gen.RtOutc Spec.RoundTrip.
From V Require Import Model.RefDef Model.Blocks.
From V Require Import Model.Inlines.
From V Require Import Model.Parse.
From V Require Import Spec.ParseValidSpec.
Extraction Language OCaml.
Set Extraction KeepSingleton.

(* one name per line; components append theirs *)
Extraction "model.ml"
  Byte.to_N
  Byte.of_N
  Bytes.byte_of_N
  Escape.escape
  Escape.escape_href
  Escape.write_opening_tag
  EscapeSpec.escape_spec
  EscapeSpec.escape_href_spec
  EscapeSpec.html_unescape
  EscapeSpec.href_wf
  EscapeSpec.href_decode
  EscapeSpec.no_pct_hex
  EscapeSpec.lex_start_tag
  EscapeSpec.utf8_valid
  Ast.node_size
  Ast.mkOpts
  Ast.kind_of
  Html.html
  Html.events
  Html.ser
  HtmlSpec.html_safe_check
  HtmlSpec.html_balanced_check
  HtmlSpec.strip_sourcepos
  HtmlSpec.relex_identity
  HtmlSpec.dangerous_spec
  HtmlSpec.well_nested
  HtmlSpec.safe_ev
  HtmlSpec.s7
  HtmlSpec.s4
  Scanners.dangerous_url
  Bytes.dec
  Anchor.slug_ascii
  Anchor.anchorize_fuel
  Anchor.anchorize
  Anchor.anchorize_all
  Footnotes.process
  Footnotes.no_nested_defs
  Footnotes.no_ref_in_dropped_def
  Footnotes.top_defs
  FootnoteSpec.defs_at_root_tail
  FootnoteSpec.refs_resolve
  FootnoteSpec.defs_once_and_referenced
  FootnoteSpec.backrefs_exact
  FootnoteSpec.backrefs_subset
  FootnoteSpec.nested_def
  FootnoteSpec.all_refs
  FootnoteSpec.first_seen
  FrontMatter.split_off_front_matter
  FrontMatter.count_lf
  FrontMatter.count_line_endings
  FrontMatterSpec.spec_split
  FrontMatterSpec.spec_split_doc
  FrontMatterSpec.fm_class
  FrontMatterSpec.delim_ok
  FrontMatterSpec.lf_count
  FrontMatterSpec.spec_line_count
  FrontMatterSpec.rest_has_bom
  Arena.init
  Arena.trace
  Arena.run
  Arena.dump
  Arena.heap_of_dump
  Arena.wf_b
  Arena.acyclic_b
  Feed.feed_lines_res
  Feed.norm_line
  Feed.seen_lines
  Feed.bom_offset
  Feed.max_ref_size
  LineEndings.to_crlf
  LineEndings.to_cr
  LineEndings.add_final_nl
  LineEndings.nul_to_fffd
  LineEndings.prepend_bom
  LineEndings.no_cr
  LineEndings.ends_nl
  LineEndings.has_bom
  LineEndings.spec_lines
  LineEndings.clean_line
  LineEndings.known_bom_on_bom
  LineEndings.known_above_floor
  FeedConst.ref_budget_floor
  Xml.xml
  Xml.xml_escape
  XmlLex.xml_read
  XmlLex.tree_to_xtree
  XmlLex.cells_ok
  XmlLex.literal_leaves
  XmlLex.max_tag_indent
  Cli.options_of_cli
  CliDoc.documented_options
  Cli.cli_of_assoc
  Cli.copts_to_assoc
  Cli.formatter_of
  CliDoc.documented_renderer
  Cli.sink_of
  CliDoc.documented_sink
  Cli.highlighter_of
  CliDoc.documented_highlighter
  Cli.installs_highlighter
  Cli.inplace_precheck
  Cli.cli_flags
  Cli.all_extensions
  Cli.extension_name
  Cli.all_formats
  Cli.format_name
  Cli.all_list_styles
  Cli.list_style_name
  Cli.list_style_type_name
  Cli.renderer_name
  Cli.unset_option_fields
  Cli.gfm_fields
  Cli.inplace_conflicts
  Cli.gated_flags
  Cli.read_error_exit
  Cli.config_parse_error_exit
  Cli.success_exit
  CliModel.cli_with_config_model
  CliModel.clap_accepts
  CliModel.clap_usage_error_exit
  CliDoc.overlapping_config
  CliDoc.nonutf8_argv_with_config
  CliDoc.double_dash_config
  CliDoc.unknown_theme
  Tagfilter.tagfilter
  Tagfilter.tagfilter_block
  Tagfilter.html_block_payload
  Tagfilter.html_inline_payload
  GfmFilter.disallowed_at
  GfmFilter.gfm_filter
  GfmFilter.lt_escape_first
  GfmFilter.any_disallowed
  GfmFilter.lt_expansion
  Shape.s2
  Shape.s3
  Shape.s6
  Shape.s6w
  SpSpec.strip_sp_pat
  SpSpec.sp_deleted
  SpSpec.html_sp_check
  SpSpec.strip_xml_sourcepos
  SpSpec.xml_sp_check
  SpSpec.xdrop_sp
  SpSpec.xml_sp_tree_check
  Ast.all_kinds
  Nodes.block
  Nodes.contains_inlines
  Nodes.accepts_lines
  Nodes.can_contain
  Valid.valid
  Valid.validate
  Valid.headings_ok
  Valid.lists_ok
  Valid.tables_ok
  Valid.leaves_ok
  Valid.structurally_valid
  Valid.try_opening_row_cells
  Valid.try_opening_header_cells
  Valid.row_result
  Cm.format_document
  Cm.shortest_unused_sequence
  Cm.longest_char_sequence
  Cm.scheme_matches
  CmSpec.cm_shape
  CmSpec.cm_no_ol_overflow
  CmSpec.has_run
  SourcePos.lines_of
  SourcePos.fails_go
  SourcePos.slice
  SourcePos.sp_in_bounds
  SourcePos.sp_nested
  SourcePos.sp_slice_ok
  SourcePosKnown.classify
  Scan.scan_atx_heading_start
  Scan.scan_html_block_end_1
  Scan.scan_html_block_end_2
  Scan.scan_html_block_end_3
  Scan.scan_html_block_end_4
  Scan.scan_html_block_end_5
  Scan.scan_alert_start
  Scan.scan_open_code_fence
  Scan.scan_close_code_fence
  Scan.scan_html_block_start
  Scan.scan_html_block_start_7
  Scan.scan_setext_heading_line
  Scan.scan_footnote_definition
  Scan.scan_scheme
  Scan.scan_autolink_uri
  Scan.scan_autolink_email
  Scan.scan_html_tag
  Scan.scan_html_comment
  Scan.scan_html_processing_instruction
  Scan.scan_html_declaration
  Scan.scan_html_cdata
  Scan.scan_spacechars
  Scan.scan_link_title
  Scan.scan_dangerous_url
  Scan.scan_table_start
  Scan.scan_table_cell
  Scan.scan_table_cell_end
  Scan.scan_table_row_end
  Scan.scan_shortcode
  Scan.scan_open_multiline_block_quote_fence
  Scan.scan_close_multiline_block_quote_fence
  Scan.scan_tasklist
  Scan.scan_description_item_start
  Regex.re_size
  Regex.deriv_all
  Regex.matchb
  Regex.longest_match
  Re2c.rule_re
  ScannersRe.scanner_rules
  StrLeafApi.sl_unescape
  StrLeafApi.sl_clean_autolink
  StrLeafApi.sl_normalize_code
  StrLeafApi.sl_remove_trailing_blank_lines
  StrLeafApi.sl_is_line_end_char
  StrLeafApi.sl_is_space_or_tab
  StrLeafApi.sl_chop_trailing_hashtags
  StrLeafApi.sl_rtrim
  StrLeafApi.sl_ltrim
  StrLeafApi.sl_trim
  StrLeafApi.sl_ltrim_slice
  StrLeafApi.sl_rtrim_slice
  StrLeafApi.sl_trim_slice
  StrLeafApi.sl_shift_buf_left
  StrLeafApi.sl_clean_url
  StrLeafApi.sl_clean_title
  StrLeafApi.sl_is_blank
  StrLeafApi.sl_normalize_label
  StrLeafApi.sl_trim_start_match
  StrLeafApi.sl_entity_unescape
  StrLeafApi.sl_entity_lookup
  StrLeafApi.sl_unescape_html
  StrLeafApi.sl_manual_scan_link_url
  StrLeafApi.sl_manual_scan_link_url_2
  StrLeafApi.sl_validate_protocol
  StrLeafApi.sl_check_domain
  StrLeafApi.sl_is_valid_hostchar
  StrLeafApi.sl_autolink_delim
  StrLeafApi.sl_unescape_pipes
  StrLeafApi.sl_parse_list_marker
  StrLeafApi.sl_scan_thematic_break_inner
  Doc.canonical
  Doc.write
  Doc.ref_html
  Doc.tree_of
  Doc.norm
  Doc.std_opts
  Doc.mkDoc
  Doc.wf_doc
  Caps.document_lookups
  Caps.feed_rows
  Caps.open_header
  Caps.row_cells
  Triggers.c13_feature_names
  Triggers.c13_triggers
  Triggers.c13_free_of
  Triggers.c13_free_of_heads
  Special.c13_find_special
  Special.c13_select_arm
  Special.c13_tables
  RoundTrip.strip_end_list_comments
  RoundTrip.collapse_nested_strong
  RoundTrip.no_nested_strong
  RoundTrip.tree_classes
  RoundTrip.unescape_backslashes
  RoundTrip.escape_all
  Blocks.parse_blocks
  Blocks.mkBO
  Blocks.to_node
  RefDef.parse_reference_inline
  Inlines.run_inlines
  Inlines.postprocess_block
  Inlines.mkIO
  Inlines.mkOracle
  Inlines.fn_resolve
  Inlines.refdefs
  Parse.parse_document_model
  Parse.mkPO
  Parse.inline_phase
  Parse.footnote_phase
  Parse.post_phase
  ParseValidSpec.parse_valid_report
.
