(* Extract/Extract.v — extraction of the executable models and spec predicates to OCaml.
   ExtrOcamlBasic only (bool, option, unit, list, prod, sumbool, sumor); no Extract Constant. *)
Require Extraction.
Require Import ExtrOcamlBasic.
From Coq Require Import List NArith Strings.String.
From V Require Import Base.Bytes Base.Res Gen.Tables Model.Escape Spec.EscapeSpec.
From V Require Import Model.FrontMatter Spec.FrontMatterSpec.
Extraction Language OCaml.
Set Extraction KeepSingleton.

(* one name per line; components append theirs *)
Extraction "model.ml"
  Byte.to_N
  Byte.of_N
  Bytes.byte_of_N
  Escape.escape
  Escape.escape_href
  Escape.write_opening_tag
  EscapeSpec.escape_spec
  EscapeSpec.escape_href_spec
  EscapeSpec.html_unescape
  EscapeSpec.href_wf
  EscapeSpec.href_decode
  EscapeSpec.no_pct_hex
  EscapeSpec.lex_start_tag
  EscapeSpec.utf8_valid
  FrontMatter.split_off_front_matter
  FrontMatter.count_lf
  FrontMatterSpec.spec_split
  FrontMatterSpec.spec_split_doc
  FrontMatterSpec.fm_class
  FrontMatterSpec.delim_ok
  FrontMatterSpec.lf_count
  FrontMatterSpec.spec_line_count
  FrontMatterSpec.rest_has_bom
.
