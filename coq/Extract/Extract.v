(* Extract/Extract.v — extraction of the executable models and spec predicates to OCaml.
   ExtrOcamlBasic only (bool, option, unit, list, prod, sumbool, sumor); no Extract Constant. *)
Require Extraction.
Require Import ExtrOcamlBasic.
From Coq Require Import List NArith Strings.String.
From V Require Import Base.Bytes Base.Res Gen.Tables Model.Escape Spec.EscapeSpec.
From V Require Import Gen.Cli Model.CliModel Spec.CliDoc.
Extraction Language OCaml.
Set Extraction KeepSingleton.

(* one name per line; components append theirs *)
Extraction "model.ml"
  Byte.to_N
  Byte.of_N
  Bytes.byte_of_N
  Escape.escape
  Escape.escape_href
  Escape.write_opening_tag
  EscapeSpec.escape_spec
  EscapeSpec.escape_href_spec
  EscapeSpec.html_unescape
  EscapeSpec.href_wf
  EscapeSpec.href_decode
  EscapeSpec.no_pct_hex
  EscapeSpec.lex_start_tag
  EscapeSpec.utf8_valid
  Cli.options_of_cli
  CliDoc.documented_options
  Cli.cli_of_assoc
  Cli.copts_to_assoc
  Cli.formatter_of
  CliDoc.documented_renderer
  Cli.sink_of
  CliDoc.documented_sink
  Cli.highlighter_of
  CliDoc.documented_highlighter
  Cli.installs_highlighter
  Cli.inplace_precheck
  Cli.cli_flags
  Cli.all_extensions
  Cli.extension_name
  Cli.all_formats
  Cli.format_name
  Cli.all_list_styles
  Cli.list_style_name
  Cli.list_style_type_name
  Cli.renderer_name
  Cli.unset_option_fields
  Cli.gfm_fields
  Cli.inplace_conflicts
  Cli.gated_flags
  Cli.read_error_exit
  Cli.config_parse_error_exit
  Cli.success_exit
  CliModel.cli_with_config_model
  CliModel.clap_accepts
  CliModel.clap_usage_error_exit
  CliDoc.overlapping_config
  CliDoc.nonutf8_argv_with_config
  CliDoc.double_dash_config
  CliDoc.unknown_theme
.
