(* Extract/Extract.v — extraction of the executable models and spec predicates to OCaml.
   ExtrOcamlBasic only (bool, option, unit, list, prod, sumbool, sumor); no Extract Constant. *)
Require Extraction.
Require Import ExtrOcamlBasic.
From Coq Require Import List NArith Strings.String.
From V Require Import Base.Bytes Base.Res Gen.Tables Model.Escape Spec.EscapeSpec.
From V Require Import Gen.FeedConst Model.Feed Spec.LineEndings.
Extraction Language OCaml.
Set Extraction KeepSingleton.

(* one name per line; components append theirs *)
Extraction "model.ml"
  Byte.to_N
  Byte.of_N
  Bytes.byte_of_N
  Escape.escape
  Escape.escape_href
  Escape.write_opening_tag
  EscapeSpec.escape_spec
  EscapeSpec.escape_href_spec
  EscapeSpec.html_unescape
  EscapeSpec.href_wf
  EscapeSpec.href_decode
  EscapeSpec.no_pct_hex
  EscapeSpec.lex_start_tag
  EscapeSpec.utf8_valid
  Feed.feed_lines_res
  Feed.norm_line
  Feed.seen_lines
  Feed.bom_offset
  Feed.max_ref_size
  LineEndings.to_crlf
  LineEndings.to_cr
  LineEndings.add_final_nl
  LineEndings.nul_to_fffd
  LineEndings.prepend_bom
  LineEndings.no_cr
  LineEndings.ends_nl
  LineEndings.has_bom
  LineEndings.spec_lines
  LineEndings.clean_line
  LineEndings.known_bom_on_bom
  LineEndings.known_above_floor
  FeedConst.ref_budget_floor
.
