#!/bin/sh
# regenerate _CoqProject file list + Makefile; build given targets (default: all).
# special target "extract-deps": every .vo the extraction needs (Base, Gen, Model, Spec).
cd "$(dirname "$0")"
{ echo "-Q . V"; echo "-arg -w -arg -notation-overridden,-deprecated-hint-without-locality,-deprecated-instance-without-locality"; find Base Gen Model Spec Proofs Props -name '*.v' | sort; } > _CoqProject.new
if ! cmp -s _CoqProject.new _CoqProject; then mv _CoqProject.new _CoqProject; coq_makefile -f _CoqProject -o Makefile >/dev/null; else rm _CoqProject.new; [ -f Makefile ] || coq_makefile -f _CoqProject -o Makefile >/dev/null; fi
if [ "$1" = "extract-deps" ]; then
  set -- $(find Base Gen Model Spec -name '*.v' | sed 's/\.v$/.vo/')
fi
exec make -j16 "$@"
