(* Model/Ast.v — the CommonMark AST of comrak (default feature set: no shortcodes) as a rose tree,
   source positions, and the options record read by the modelled code. *)
From Coq Require Import List NArith Bool.
From V Require Import Base.Bytes.
Import ListNotations.

Record sourcepos := mkSp { sl : N; sc : N; el : N; ec : N }.

Inductive list_type := Bullet | Ordered.
Inductive delim_type := Period | Paren.
Inductive align := ANone | ALeft | ACenter | ARight.
Inductive alert_type := Note | Tip | Important | Warning | Caution.

Record node_list := mkList {
  l_type : list_type; l_marker_offset : N; l_padding : N; l_start : N;
  l_delim : delim_type; l_bullet : N; l_tight : bool; l_task : bool }.

Record node_code_block := mkCB {
  cb_fenced : bool; cb_fence_char : N; cb_fence_length : N; cb_fence_offset : N;
  cb_info : bytes; cb_literal : bytes }.

Record node_table := mkTable {
  t_cols : N; t_rows : N; t_nonempty : N; t_aligns : list align }.

Record node_alert := mkAlert {
  a_type : alert_type; a_title : option bytes; a_multiline : bool; a_fence_length : N; a_fence_offset : N }.

Inductive node_value :=
| Document
| FrontMatter (lit : bytes)
| BlockQuote
| NList (l : node_list)
| Item (l : node_list)
| DescriptionList
| DescriptionItem (marker_offset padding : N) (tight : bool)
| DescriptionTerm
| DescriptionDetails
| CodeBlock (cb : node_code_block)
| HtmlBlock (block_type : N) (lit : bytes)
| Paragraph
| Heading (level : N) (setext : bool)
| ThematicBreak
| FootnoteDefinition (name : bytes) (total_references : N)
| Table (t : node_table)
| TableRow (header : bool)
| TableCell
| Text (lit : bytes)
| TaskItem (symbol : option bytes)
| SoftBreak
| LineBreak
| Code (num_backticks : N) (lit : bytes)
| HtmlInline (lit : bytes)
| Raw (lit : bytes)
| Emph
| Strong
| Strikethrough
| Superscript
| Link (url title : bytes)
| Image (url title : bytes)
| FootnoteReference (name : bytes) (ref_num ix : N)
| Math (dollar display : bool) (lit : bytes)
| MultilineBlockQuote (fence_length fence_offset : N)
| Escaped
| WikiLink (url : bytes)
| Underline
| Subscript
| SpoileredText
| EscapedTag (lit : bytes)
| Alert (a : node_alert).

Inductive node := Node (v : node_value) (sp : sourcepos) (ch : list node).

Definition nval (n : node) := match n with Node v _ _ => v end.
Definition nsp (n : node) := match n with Node _ sp _ => sp end.
Definition nch (n : node) := match n with Node _ _ ch => ch end.

(* induction principle for the nested list *)
Section node_ind2.
  Variable P : node -> Prop.
  Hypothesis H : forall v sp ch, Forall P ch -> P (Node v sp ch).
  Fixpoint node_ind2 (n : node) : P n :=
    match n with
    | Node v sp ch =>
      H v sp ch ((fix go (l : list node) : Forall P l :=
                   match l with
                   | [] => Forall_nil P
                   | x :: r => Forall_cons x (node_ind2 x) (go r)
                   end) ch)
    end.
End node_ind2.

Fixpoint node_size (n : node) : nat :=
  match n with Node _ _ ch => S (fold_right (fun c acc => node_size c + acc) 0 ch) end.

Fixpoint node_depth (n : node) : nat :=
  match n with Node _ _ ch => S (fold_right (fun c acc => Nat.max (node_depth c) acc) 0 ch) end.

(* kind tags, for tables keyed by kind (generated Gen/Nodes.v uses them) *)
Inductive kind :=
| KDocument | KFrontMatter | KBlockQuote | KList | KItem | KDescriptionList | KDescriptionItem
| KDescriptionTerm | KDescriptionDetails | KCodeBlock | KHtmlBlock | KParagraph | KHeading
| KThematicBreak | KFootnoteDefinition | KTable | KTableRow | KTableCell | KText | KTaskItem
| KSoftBreak | KLineBreak | KCode | KHtmlInline | KRaw | KEmph | KStrong | KStrikethrough
| KSuperscript | KLink | KImage | KFootnoteReference | KMath | KMultilineBlockQuote | KEscaped
| KWikiLink | KUnderline | KSubscript | KSpoileredText | KEscapedTag | KAlert.

Definition kind_of (v : node_value) : kind :=
  match v with
  | Document => KDocument | FrontMatter _ => KFrontMatter | BlockQuote => KBlockQuote
  | NList _ => KList | Item _ => KItem | DescriptionList => KDescriptionList
  | DescriptionItem _ _ _ => KDescriptionItem | DescriptionTerm => KDescriptionTerm
  | DescriptionDetails => KDescriptionDetails | CodeBlock _ => KCodeBlock | HtmlBlock _ _ => KHtmlBlock
  | Paragraph => KParagraph | Heading _ _ => KHeading | ThematicBreak => KThematicBreak
  | FootnoteDefinition _ _ => KFootnoteDefinition | Table _ => KTable | TableRow _ => KTableRow
  | TableCell => KTableCell | Text _ => KText | TaskItem _ => KTaskItem | SoftBreak => KSoftBreak
  | LineBreak => KLineBreak | Code _ _ => KCode | HtmlInline _ => KHtmlInline | Raw _ => KRaw
  | Emph => KEmph | Strong => KStrong | Strikethrough => KStrikethrough | Superscript => KSuperscript
  | Link _ _ => KLink | Image _ _ => KImage | FootnoteReference _ _ _ => KFootnoteReference
  | Math _ _ _ => KMath | MultilineBlockQuote _ _ => KMultilineBlockQuote | Escaped => KEscaped
  | WikiLink _ => KWikiLink | Underline => KUnderline | Subscript => KSubscript
  | SpoileredText => KSpoileredText | EscapedTag _ => KEscapedTag | Alert _ => KAlert
  end.

Definition all_kinds : list kind :=
  [KDocument; KFrontMatter; KBlockQuote; KList; KItem; KDescriptionList; KDescriptionItem;
   KDescriptionTerm; KDescriptionDetails; KCodeBlock; KHtmlBlock; KParagraph; KHeading;
   KThematicBreak; KFootnoteDefinition; KTable; KTableRow; KTableCell; KText; KTaskItem;
   KSoftBreak; KLineBreak; KCode; KHtmlInline; KRaw; KEmph; KStrong; KStrikethrough;
   KSuperscript; KLink; KImage; KFootnoteReference; KMath; KMultilineBlockQuote; KEscaped;
   KWikiLink; KUnderline; KSubscript; KSpoileredText; KEscapedTag; KAlert].

Lemma all_kinds_complete : forall k, In k all_kinds.
Proof. destruct k; simpl; tauto. Qed.

Definition kind_eqb (a b : kind) : bool :=
  match a, b with
  | KDocument, KDocument | KFrontMatter, KFrontMatter | KBlockQuote, KBlockQuote | KList, KList
  | KItem, KItem | KDescriptionList, KDescriptionList | KDescriptionItem, KDescriptionItem
  | KDescriptionTerm, KDescriptionTerm | KDescriptionDetails, KDescriptionDetails
  | KCodeBlock, KCodeBlock | KHtmlBlock, KHtmlBlock | KParagraph, KParagraph | KHeading, KHeading
  | KThematicBreak, KThematicBreak | KFootnoteDefinition, KFootnoteDefinition | KTable, KTable
  | KTableRow, KTableRow | KTableCell, KTableCell | KText, KText | KTaskItem, KTaskItem
  | KSoftBreak, KSoftBreak | KLineBreak, KLineBreak | KCode, KCode | KHtmlInline, KHtmlInline
  | KRaw, KRaw | KEmph, KEmph | KStrong, KStrong | KStrikethrough, KStrikethrough
  | KSuperscript, KSuperscript | KLink, KLink | KImage, KImage
  | KFootnoteReference, KFootnoteReference | KMath, KMath
  | KMultilineBlockQuote, KMultilineBlockQuote | KEscaped, KEscaped | KWikiLink, KWikiLink
  | KUnderline, KUnderline | KSubscript, KSubscript | KSpoileredText, KSpoileredText
  | KEscapedTag, KEscapedTag | KAlert, KAlert => true
  | _, _ => false
  end.

Lemma kind_eqb_eq a b : kind_eqb a b = true <-> a = b.
Proof. split; [destruct a, b; simpl; intro H; try reflexivity; discriminate | intros ->; destruct b; reflexivity]. Qed.

(* options read by the modelled renderers *)
Record opts := mkOpts {
  (* extension *)
  o_tagfilter : bool;
  o_header_ids : option bytes;
  o_footnotes : bool;
  o_wikilinks_after : bool;
  o_wikilinks_before : bool;
  (* parse *)
  o_relaxed_autolinks : bool;
  (* render *)
  o_hardbreaks : bool;
  o_github_pre_lang : bool;
  o_full_info_string : bool;
  o_width : N;
  o_unsafe : bool;
  o_escape : bool;
  o_list_style : N;
  o_sourcepos : bool;
  o_escaped_char_spans : bool;
  o_gfm_quirks : bool;
  o_prefer_fenced : bool;
  o_figure_with_caption : bool;
  o_tasklist_classes : bool;
  o_ol_width : N;
  o_ignore_empty_links : bool;
  o_experimental_minimize : bool
}.
