(* Model/Blocks.v — the BLOCK phase of comrak's parser (src/parser/mod.rs, src/parser/table.rs):
   Parser::new, the front matter prologue of feed, process_line, check_open_blocks(_inner), every
   detect_/handle_ pair of open_new_blocks, advance_offset, find_first_nonspace, the parse_*_prefix
   helpers, add_child, add_text_to_container, add_line, finalize(_borrowed),
   resolve_reference_link_definitions, finalize_document up to the hook `stop_after_blocks`;
   table::try_opening_block / row / try_inserting_table_header_paragraph; lists_match,
   reopen_ast_nodes, nodes::ends_with_blank_line.

   Representation.  The arena of the Rust code is a tree whose nodes carry an identifier (`bi_id`,
   allocated in creation order = the address of the Rust node): `&'a AstNode` is an identifier, every
   access goes through the tree (find_node / upd / parent_of / detach / insert).  This is deliberate:
   add_child appends to the last MATCHED container while the unmatched blocks below it are still
   open (they are finalised later, in add_text_to_container), and finalize(List) reads the subtree
   at that moment (list tightness), so the order of the Rust statements is observable and a spine
   that closes the unmatched blocks first would not be faithful.
   Every node carries the crate-private fields of `Ast` (content, open, last_line_blank,
   internal_offset, line_offsets, table_visited) and its source position.

   Panic sites: every index, slice, unwrap, assert and usize subtraction (the harness is built with
   overflow checks) is an explicit `Panic "mod.rs:.."`/`"table.rs:.."`.  An identifier that is not in the
   tree is `Panic "model:no-such-node"` (never observed).  Loops that are not structural run on fuel.
   Numbers are `nat` (positions, columns, line numbers); the payload records of Model/Ast.v keep `N`.
   The constants come from Gen/BlocksConst.v (translator item `blocks`, which also pins the text of every
   function transcribed here).
   NO proofs in this file. *)
From Coq Require Import List NArith Arith Bool Strings.String.
From V Require Import Base.Bytes Base.Res Gen.StrLeafGen Gen.FeedConst Gen.Nodes Gen.BlocksConst Model.Ast Model.Strings
  Model.Entity Model.Scan Model.ListMarker Model.AutolinkLeaf Model.Feed Model.FrontMatter Model.RefDef
  Spec.EscapeSpec.
Import ListNotations.
Local Open Scope string_scope.
Local Open Scope list_scope.

(* ------------------------------------------------------------------ options read by the block phase *)
Record bopts := mkBO {
  bo_table : bool;
  bo_footnotes : bool;
  bo_description_lists : bool;
  bo_multiline_block_quotes : bool;
  bo_alerts : bool;
  bo_spoiler : bool;
  bo_greentext : bool;
  bo_ignore_setext : bool;
  bo_front_matter_delimiter : option bytes;
  bo_default_info_string : option bytes;
  bo_fold : bytes -> bytes            (* caseless::default_case_fold_str, see Model/Strings.v *)
}.

Definition tab_stop : nat := gen_tab_stop.
Definition code_indent : nat := gen_code_indent.
Definition max_list_depth : nat := gen_max_list_depth.
Definition max_autocompleted_cells : N := gen_max_autocompleted_cells.

(* ------------------------------------------------------------------ nodes *)
Record binfo := mkBI {
  bi_id : nat;
  bi_val : node_value;
  bi_sl : nat; bi_sc : nat; bi_el : nat; bi_ec : nat;       (* sourcepos: start line/column, end line/column *)
  bi_content : bytes;
  bi_open : bool;
  bi_llb : bool;                                            (* last_line_blank *)
  bi_ioff : nat;                                            (* internal_offset *)
  bi_lo : list nat;                                         (* line_offsets *)
  bi_tv : bool                                              (* table_visited *)
}.

Inductive bnode := BNode (i : binfo) (ch : list bnode).

Definition binf (t : bnode) : binfo := match t with BNode i _ => i end.
Definition bkids (t : bnode) : list bnode := match t with BNode _ ch => ch end.
Definition bid (t : bnode) : nat := bi_id (binf t).
Definition bval (t : bnode) : node_value := bi_val (binf t).
Definition bkind (t : bnode) : kind := kind_of (bval t).

(* field setters *)
Definition set_val (v : node_value) (i : binfo) : binfo :=
  mkBI (bi_id i) v (bi_sl i) (bi_sc i) (bi_el i) (bi_ec i) (bi_content i) (bi_open i) (bi_llb i) (bi_ioff i) (bi_lo i) (bi_tv i).
Definition set_start (l c : nat) (i : binfo) : binfo :=
  mkBI (bi_id i) (bi_val i) l c (bi_el i) (bi_ec i) (bi_content i) (bi_open i) (bi_llb i) (bi_ioff i) (bi_lo i) (bi_tv i).
Definition set_end (l c : nat) (i : binfo) : binfo :=
  mkBI (bi_id i) (bi_val i) (bi_sl i) (bi_sc i) l c (bi_content i) (bi_open i) (bi_llb i) (bi_ioff i) (bi_lo i) (bi_tv i).
Definition set_content (s : bytes) (i : binfo) : binfo :=
  mkBI (bi_id i) (bi_val i) (bi_sl i) (bi_sc i) (bi_el i) (bi_ec i) s (bi_open i) (bi_llb i) (bi_ioff i) (bi_lo i) (bi_tv i).
Definition set_open (b : bool) (i : binfo) : binfo :=
  mkBI (bi_id i) (bi_val i) (bi_sl i) (bi_sc i) (bi_el i) (bi_ec i) (bi_content i) b (bi_llb i) (bi_ioff i) (bi_lo i) (bi_tv i).
Definition set_llb (b : bool) (i : binfo) : binfo :=
  mkBI (bi_id i) (bi_val i) (bi_sl i) (bi_sc i) (bi_el i) (bi_ec i) (bi_content i) (bi_open i) b (bi_ioff i) (bi_lo i) (bi_tv i).
Definition set_ioff (n : nat) (i : binfo) : binfo :=
  mkBI (bi_id i) (bi_val i) (bi_sl i) (bi_sc i) (bi_el i) (bi_ec i) (bi_content i) (bi_open i) (bi_llb i) n (bi_lo i) (bi_tv i).
Definition set_lo (l : list nat) (i : binfo) : binfo :=
  mkBI (bi_id i) (bi_val i) (bi_sl i) (bi_sc i) (bi_el i) (bi_ec i) (bi_content i) (bi_open i) (bi_llb i) (bi_ioff i) l (bi_tv i).
Definition set_tv (b : bool) (i : binfo) : binfo :=
  mkBI (bi_id i) (bi_val i) (bi_sl i) (bi_sc i) (bi_el i) (bi_ec i) (bi_content i) (bi_open i) (bi_llb i) (bi_ioff i) (bi_lo i) b.

(* Ast::new(value, (line, column)) *)
Definition new_info (id : nat) (v : node_value) (line col : nat) : binfo :=
  mkBI id v line col line 0 [] true false 0 [] false.

(* lift a change of the info to the node *)
Definition on_info (f : binfo -> binfo) (t : bnode) : bnode :=
  match t with BNode i ch => BNode (f i) ch end.

(* ------------------------------------------------------------------ the tree as an arena *)
(* first node (pre-order) with the identifier *)
Fixpoint find_node (id : nat) (t : bnode) : option bnode :=
  match t with
  | BNode i ch =>
    if Nat.eqb (bi_id i) id then Some t
    else (fix go (l : list bnode) : option bnode :=
            match l with
            | [] => None
            | c :: r => match find_node id c with Some x => Some x | None => go r end
            end) ch
  end.

(* apply f to the first node (pre-order) with the identifier; None = no such node *)
Fixpoint upd (id : nat) (f : bnode -> bnode) (t : bnode) : option bnode :=
  match t with
  | BNode i ch =>
    if Nat.eqb (bi_id i) id then Some (f t)
    else match (fix go (l : list bnode) : option (list bnode) :=
                  match l with
                  | [] => None
                  | c :: r => match upd id f c with
                              | Some c' => Some (c' :: r)
                              | None => match go r with Some r' => Some (c :: r') | None => None end
                              end
                  end) ch with
         | Some ch' => Some (BNode i ch')
         | None => None
         end
  end.

(* split a child list at the first child with the identifier *)
Fixpoint split_kid (id : nat) (l : list bnode) : option (list bnode * bnode * list bnode) :=
  match l with
  | [] => None
  | c :: r =>
    if Nat.eqb (bid c) id then Some ([], c, r)
    else match split_kid id r with
         | Some (pre, x, post) => Some (c :: pre, x, post)
         | None => None
         end
  end.

(* identifier of the parent of the node *)
Fixpoint parent_of (id : nat) (t : bnode) : option nat :=
  match t with
  | BNode i ch =>
    match split_kid id ch with
    | Some _ => Some (bi_id i)
    | None => (fix go (l : list bnode) : option nat :=
                 match l with
                 | [] => None
                 | c :: r => match parent_of id c with Some p => Some p | None => go r end
                 end) ch
    end
  end.

(* rewrite the child list that contains the node: pre ++ [c] ++ post becomes g pk pre c post, pk = kind of the parent *)
Fixpoint edit_kids (id : nat) (g : kind -> list bnode -> bnode -> list bnode -> list bnode) (t : bnode) : option bnode :=
  match t with
  | BNode i ch =>
    match split_kid id ch with
    | Some (pre, c, post) => Some (BNode i (g (kind_of (bi_val i)) pre c post))
    | None =>
      match (fix go (l : list bnode) : option (list bnode) :=
               match l with
               | [] => None
               | c :: r => match edit_kids id g c with
                           | Some c' => Some (c' :: r)
                           | None => match go r with Some r' => Some (c :: r') | None => None end
                           end
               end) ch with
      | Some ch' => Some (BNode i ch')
      | None => None
      end
    end
  end.

Definition last_opt {A} (l : list A) : option A :=
  match rev l with x :: _ => Some x | [] => None end.

(* nodes::ends_with_blank_line *)
Fixpoint ends_with_blank_line (t : bnode) : bool :=
  match t with
  | BNode i ch =>
    if bi_llb i then true
    else match bi_val i with
         | NList _ | Item _ | TaskItem _ =>
           (fix lastb (l : list bnode) : bool :=
              match l with
              | [] => false
              | [c] => ends_with_blank_line c
              | _ :: r => lastb r
              end) ch
         | _ => false
         end
  end.

Definition is_cons {A} (l : list A) : bool := match l with [] => false | _ => true end.

(* list_is_tight (called by finalize, List arm and Paragraph arm): the two nested `while let Some(..)` loops over
   items and their children *)
Fixpoint subitems_tight (item_has_next : bool) (subs : list bnode) : bool :=
  match subs with
  | [] => true
  | s :: r =>
    if (item_has_next || is_cons r) && ends_with_blank_line s then false
    else subitems_tight item_has_next r
  end.

Fixpoint items_tight (items : list bnode) : bool :=
  match items with
  | [] => true
  | it :: r =>
    if bi_llb (binf it) && is_cons r then false
    else if negb (subitems_tight (is_cons r) (bkids it)) then false
    else items_tight r
  end.

(* ------------------------------------------------------------------ small helpers with panic sites *)
Definition idx (site : string) (l : bytes) (i : nat) : res byte :=
  match nth_error l i with Some b => Ok b | None => Panic site end.

Definition sub (site : string) (a b : nat) : res nat :=
  if Nat.ltb a b then Panic site else Ok (a - b).

Definition slice_from (site : string) (l : bytes) (i : nat) : res bytes :=
  if Nat.ltb (List.length l) i then Panic site else Ok (skipn i l).

Definition from_utf8 (site : string) (b : bytes) : res bytes :=
  if utf8_valid b then Ok b else Panic site.

Definition OutOfScope {A} (what : string) : res A := Panic ("OutOfScope:" ++ what).

(* ------------------------------------------------------------------ the cursor *)
Record cursor := mkCur {
  c_offset : nat;
  c_column : nat;
  c_fns : nat;                 (* first_nonspace *)
  c_fnsc : nat;                (* first_nonspace_column *)
  c_indent : nat;
  c_blank : bool;
  c_pct : bool;                (* partially_consumed_tab *)
  c_tbkp : nat                 (* thematic_break_kill_pos *)
}.

Definition cur0 : cursor := mkCur 0 0 0 0 0 false false 0.

Definition cur_set_oc (c : cursor) (off col : nat) (pct : bool) : cursor :=
  mkCur off col (c_fns c) (c_fnsc c) (c_indent c) (c_blank c) pct (c_tbkp c).
Definition cur_set_tbkp (c : cursor) (k : nat) : cursor :=
  mkCur (c_offset c) (c_column c) (c_fns c) (c_fnsc c) (c_indent c) (c_blank c) (c_pct c) k.

(* the loop of find_first_nonspace over s = line[first_nonspace..] *)
Fixpoint fns_loop (s : bytes) (fns fnsc ctt : nat) : nat * nat :=
  match s with
  | [] => (fns, fnsc)
  | b :: r =>
    if beqb b x20 then fns_loop r (S fns) (S fnsc) (if Nat.eqb (ctt - 1) 0 then tab_stop else ctt - 1)
    else if beqb b x09 then fns_loop r (S fns) (fnsc + ctt) tab_stop
    else (fns, fnsc)
  end.

Definition find_first_nonspace (c : cursor) (line : bytes) : res cursor :=
  let ctt := tab_stop - (c_column c mod tab_stop) in
  let '(fns, fnsc) :=
    if Nat.leb (c_fns c) (c_offset c)
    then fns_loop (skipn (c_offset c) line) (c_offset c) (c_column c) ctt
    else (c_fns c, c_fnsc c) in
  do indent <- sub "mod.rs:find_first_nonspace:first_nonspace_column - column" fnsc (c_column c);
  let blank := match nth_error line fns with Some b => is_line_end_char b | None => false end in
  Ok (mkCur (c_offset c) (c_column c) fns fnsc indent blank (c_pct c) (c_tbkp c)).

(* advance_offset; fuel = count (every iteration decreases count by at least one) *)
Fixpoint advance_loop (fuel : nat) (line : bytes) (off col : nat) (pct : bool) (count : nat) (columns : bool)
  : res (nat * nat * bool) :=
  match count with
  | O => Ok (off, col, pct)
  | S _ =>
    match fuel with
    | O => OutOfFuel
    | S f =>
      do b <- idx "mod.rs:advance_offset:line[self.offset]" line off;
      if beqb b x09 then
        let ctt := tab_stop - (col mod tab_stop) in
        if columns then
          let pct' := Nat.ltb count ctt in
          let adv := Nat.min count ctt in
          advance_loop f line (if pct' then off else S off) (col + adv) pct' (count - adv) columns
        else advance_loop f line (S off) (col + ctt) false (count - 1) columns
      else advance_loop f line (S off) (S col) false (count - 1) columns
    end
  end.

Definition advance_offset (c : cursor) (line : bytes) (count : nat) (columns : bool) : res cursor :=
  do r <- advance_loop count line (c_offset c) (c_column c) (c_pct c) count columns;
  let '(off, col, pct) := r in
  Ok (cur_set_oc c off col pct).

(* ------------------------------------------------------------------ parser state *)
Record pstate := mkPS {
  ps_root : bnode;
  ps_next : nat;                         (* next fresh identifier *)
  ps_current : nat;                      (* self.current *)
  ps_refmap : refmap;
  ps_line_number : nat;
  ps_cur : cursor;
  ps_curline_len : nat;
  ps_curline_end_col : nat;
  ps_last_line_length : nat
}.

Definition root_id : nat := 0.

(* parse_document: the root Ast; Parser::new *)
Definition init_state : pstate :=
  mkPS (BNode (mkBI root_id Document 1 1 1 1 [] true false 0 [] false) []) 1 root_id [] 0 cur0 0 0 0.

Definition st_root (st : pstate) (r : bnode) : pstate :=
  mkPS r (ps_next st) (ps_current st) (ps_refmap st) (ps_line_number st) (ps_cur st)
       (ps_curline_len st) (ps_curline_end_col st) (ps_last_line_length st).
Definition st_next (st : pstate) (n : nat) : pstate :=
  mkPS (ps_root st) n (ps_current st) (ps_refmap st) (ps_line_number st) (ps_cur st)
       (ps_curline_len st) (ps_curline_end_col st) (ps_last_line_length st).
Definition st_current (st : pstate) (c : nat) : pstate :=
  mkPS (ps_root st) (ps_next st) c (ps_refmap st) (ps_line_number st) (ps_cur st)
       (ps_curline_len st) (ps_curline_end_col st) (ps_last_line_length st).
Definition st_refmap (st : pstate) (m : refmap) : pstate :=
  mkPS (ps_root st) (ps_next st) (ps_current st) m (ps_line_number st) (ps_cur st)
       (ps_curline_len st) (ps_curline_end_col st) (ps_last_line_length st).
Definition st_line_number (st : pstate) (n : nat) : pstate :=
  mkPS (ps_root st) (ps_next st) (ps_current st) (ps_refmap st) n (ps_cur st)
       (ps_curline_len st) (ps_curline_end_col st) (ps_last_line_length st).
Definition st_cur (st : pstate) (c : cursor) : pstate :=
  mkPS (ps_root st) (ps_next st) (ps_current st) (ps_refmap st) (ps_line_number st) c
       (ps_curline_len st) (ps_curline_end_col st) (ps_last_line_length st).
Definition st_curline (st : pstate) (len endcol : nat) : pstate :=
  mkPS (ps_root st) (ps_next st) (ps_current st) (ps_refmap st) (ps_line_number st) (ps_cur st)
       len endcol (ps_last_line_length st).
Definition st_last_line_length (st : pstate) (n : nat) : pstate :=
  mkPS (ps_root st) (ps_next st) (ps_current st) (ps_refmap st) (ps_line_number st) (ps_cur st)
       (ps_curline_len st) (ps_curline_end_col st) n.

Definition no_node {A} : res A := Panic "model:no-such-node".

Definition get (st : pstate) (id : nat) : res bnode :=
  match find_node id (ps_root st) with Some n => Ok n | None => no_node end.

Definition modify (st : pstate) (id : nat) (f : bnode -> bnode) : res pstate :=
  match upd id f (ps_root st) with Some r => Ok (st_root st r) | None => no_node end.

Definition modify_info (st : pstate) (id : nat) (f : binfo -> binfo) : res pstate :=
  modify st id (on_info f).

Definition last_child (st : pstate) (id : nat) : res (option bnode) :=
  do n <- get st id; Ok (last_opt (bkids n)).

(* nodes::last_child_is_open *)
Definition last_child_is_open (st : pstate) (id : nat) : res (option nat) :=
  do lc <- last_child st id;
  match lc with
  | Some c => if bi_open (binf c) then Ok (Some (bid c)) else Ok None
  | None => Ok None
  end.

(* Node::detach: the subtree leaves the tree *)
Definition bdetach (st : pstate) (id : nat) : res pstate :=
  match edit_kids id (fun _ pre _ post => pre ++ post) (ps_root st) with
  | Some r => Ok (st_root st r)
  | None => Ok st                          (* no parent: detach of a detached node / the root is a no-op *)
  end.

(* parent.append(node) for a node that is not in the tree *)
Definition append_child (st : pstate) (pid : nat) (c : bnode) : res pstate :=
  modify st pid (fun t => match t with BNode i ch => BNode i (ch ++ [c]) end).

(* advance_offset / find_first_nonspace on the state *)
Definition adv (st : pstate) (line : bytes) (count : nat) (columns : bool) : res pstate :=
  do c <- advance_offset (ps_cur st) line count columns; Ok (st_cur st c).
Definition ffn (st : pstate) (line : bytes) : res pstate :=
  do c <- find_first_nonspace (ps_cur st) line; Ok (st_cur st c).

Definition offset (st : pstate) := c_offset (ps_cur st).
Definition fns (st : pstate) := c_fns (ps_cur st).
Definition indent (st : pstate) := c_indent (ps_cur st).
Definition blank (st : pstate) := c_blank (ps_cur st).

(* ------------------------------------------------------------------ reference definitions *)
(* the loop of resolve_reference_link_definitions; seek = content[seeked..] *)
Fixpoint resolve_loop (fuel : nat) (fold : bytes -> bytes) (m : refmap) (seek : bytes) (seeked : nat)
  : res (nat * refmap) :=
  match fuel with
  | O => OutOfFuel
  | S f =>
    match seek with
    | b :: _ =>
      if beqb b x5b then
        do r <- parse_reference_inline fold m seek;
        match r with
        | Some (pos, m') => resolve_loop f fold m' (skipn pos seek) (seeked + pos)
        | None => Ok (seeked, m)
        end
      else Ok (seeked, m)
    | [] => Ok (seeked, m)
    end
  end.

(* resolve_reference_link_definitions(content): (new content, has_content, refmap) *)
Definition resolve_refdefs (fold : bytes -> bytes) (m : refmap) (content : bytes) : res (bytes * bool * refmap) :=
  do r <- resolve_loop (S (List.length content)) fold m content 0;
  let '(seeked, m') := r in
  do content' <- (if Nat.eqb seeked 0 then Ok content
                  else if is_char_boundary content seeked then Ok (skipn seeked content)
                  else Panic "mod.rs:resolve_reference_link_definitions:content[seeked..]");
  Ok (content', negb (is_blank content'), m').

(* ------------------------------------------------------------------ finalize *)
Definition ends_fenced_like (v : node_value) : bool :=
  match v with
  | Document => true
  | CodeBlock cb => cb_fenced cb
  | MultilineBlockQuote _ _ => true
  | _ => false
  end.

(* fenced code block: position of the first line end character of content *)
Fixpoint first_line_end (s : bytes) : nat :=
  match s with
  | [] => 0
  | b :: r => if is_line_end_char b then 0 else S (first_line_end r)
  end.

(* finalize_borrowed, Paragraph arm, after `node.detach()`: `parent` is the parent the paragraph had.  When the parent's
   parent is a List that is already closed (add_child finalizes a list before the blocks still open inside it) its
   tightness is computed again, over the children it has now (list_is_tight). *)
Definition retighten (st : pstate) (parent : option nat) : res pstate :=
  match parent with
  | None => Ok st
  | Some item =>
    match parent_of item (ps_root st) with
    | None => Ok st
    | Some lid =>
      do l <- get st lid;
      if bi_open (binf l) then Ok st else
      match bval l with
      | NList nl =>
        let nl' := mkList (l_type nl) (l_marker_offset nl) (l_padding nl) (l_start nl) (l_delim nl) (l_bullet nl)
                          (items_tight (bkids l)) (l_task nl) in
        modify_info st lid (set_val (NList nl'))
      | _ => Ok st
      end
    end
  end.

(* finalize_borrowed(node, ast): returns the parent *)
Definition finalize (o : bopts) (st : pstate) (id : nat) : res (option nat * pstate) :=
  do n <- get st id;
  let i := binf n in
  if negb (bi_open i) then Panic "mod.rs:finalize_borrowed:assert!(ast.open)" else
  let parent := parent_of id (ps_root st) in
  do ends <- (if Nat.eqb (ps_curline_len st) 0 then Ok (ps_line_number st, ps_last_line_length st)
              else if ends_fenced_like (bi_val i) then Ok (ps_line_number st, ps_curline_end_col st)
              else match bi_val i with
                   | ThematicBreak => Ok (bi_el i, bi_ec i)
                   | _ => do l <- sub "mod.rs:finalize_borrowed:self.line_number - 1" (ps_line_number st) 1;
                          Ok (l, ps_last_line_length st)
                   end);
  let i1 := set_end (fst ends) (snd ends) (set_open false i) in
  match bi_val i with
  | Paragraph =>
    do r <- resolve_refdefs (bo_fold o) (ps_refmap st) (bi_content i);
    let '(content', has_content, m') := r in
    do st1 <- modify_info st id (fun _ => set_content content' i1);
    let st2 := st_refmap st1 m' in
    if has_content then Ok (parent, st2) else (do st3 <- bdetach st2 id; do st4 <- retighten st3 parent; Ok (parent, st4))
  | CodeBlock cb =>
    do lit <- (if negb (cb_fenced cb) then
                 (do c <- remove_trailing_blank_lines (bi_content i); Ok (cb_info cb, c ++ [x0a]))
               else
                 let content := bi_content i in
                 let pos := first_line_end content in
                 if negb (Nat.ltb pos (List.length content)) then Panic "mod.rs:finalize_borrowed:assert!(pos < content.len())" else
                 do t0 <- unescape_html (firstn pos content);
                 do t1 <- Strings.trim t0;
                 do t2 <- Strings.unescape t1;
                 do info <- (match t2 with
                             | [] => Ok (match bo_default_info_string o with Some s => s | None => [] end)
                             | _ => from_utf8 "mod.rs:finalize_borrowed:String::from_utf8(tmp).unwrap()" t2
                             end);
                 do b1 <- idx "mod.rs:finalize_borrowed:content.as_bytes()[pos]" content pos;
                 let pos1 := if beqb b1 x0d then S pos else pos in
                 do b2 <- idx "mod.rs:finalize_borrowed:content.as_bytes()[pos]" content pos1;
                 let pos2 := if beqb b2 x0a then S pos1 else pos1 in
                 Ok (info, skipn pos2 content));
    let '(info, literal) := lit in
    let cb' := mkCB (cb_fenced cb) (cb_fence_char cb) (cb_fence_length cb) (cb_fence_offset cb) info literal in
    (* mem::swap(&mut ncb.literal, content): content receives the old (empty) literal *)
    do st1 <- modify_info st id (fun _ => set_content (cb_literal cb) (set_val (CodeBlock cb') i1));
    Ok (parent, st1)
  | HtmlBlock bt lit =>
    do st1 <- modify_info st id (fun _ => set_content lit (set_val (HtmlBlock bt (bi_content i)) i1));
    Ok (parent, st1)
  | NList nl =>
    let tight := items_tight (bkids n) in
    let nl' := mkList (l_type nl) (l_marker_offset nl) (l_padding nl) (l_start nl) (l_delim nl) (l_bullet nl) tight (l_task nl) in
    do st1 <- modify_info st id (fun _ => set_val (NList nl') i1);
    Ok (parent, st1)
  | _ =>
    do st1 <- modify_info st id (fun _ => i1);
    Ok (parent, st1)
  end.

Definition unwrap_parent (site : string) (r : res (option nat * pstate)) : res (nat * pstate) :=
  do x <- r;
  match fst x with Some p => Ok (p, snd x) | None => Panic site end.

(* ------------------------------------------------------------------ add_child *)
Fixpoint add_child_loop (fuel : nat) (o : bopts) (st : pstate) (parent : nat) (k : kind) : res (nat * pstate) :=
  match fuel with
  | O => OutOfFuel
  | S f =>
    do p <- get st parent;
    if can_contain (bkind p) k then Ok (parent, st)
    else
      do r <- unwrap_parent "mod.rs:add_child:self.finalize(parent).unwrap()" (finalize o st parent);
      add_child_loop f o (snd r) (fst r) k
  end.

(* add_child(parent, value, start_column): returns the new node's identifier.
   add_child_gen: the caller's statements that directly follow the call and only touch the new node are folded
   into the creation: `post` (fields set on the new node; it keeps the kind of the value) and `kids`
   (a detached subtree appended to it). *)
Definition add_child_gen (o : bopts) (st : pstate) (parent : nat) (v : node_value) (start_column : nat)
  (post : binfo -> binfo) (kids : list bnode) : res (nat * pstate) :=
  do r <- add_child_loop (S (ps_next st)) o st parent (kind_of v);
  let '(parent', st1) := r in
  if Nat.eqb start_column 0 then Panic "mod.rs:add_child:assert!(start_column > 0)" else
  let id := ps_next st1 in
  let node := BNode (post (new_info id v (ps_line_number st1) start_column)) kids in
  do st2 <- append_child (st_next st1 (S id)) parent' node;
  Ok (id, st2).

Definition add_child (o : bopts) (st : pstate) (parent : nat) (v : node_value) (start_column : nat) : res (nat * pstate) :=
  add_child_gen o st parent v start_column (fun i => i) [].

(* ------------------------------------------------------------------ add_line *)
Definition add_line (st : pstate) (id : nat) (line : bytes) : res pstate :=
  do n <- get st id;
  let i := binf n in
  if negb (bi_open i) then Panic "mod.rs:add_line:assert!(ast.open)" else
  let c := ps_cur st in
  let '(c1, pad) :=
    if c_pct c then
      (mkCur (S (c_offset c)) (c_column c) (c_fns c) (c_fnsc c) (c_indent c) (c_blank c) (c_pct c) (c_tbkp c),
       repeat_bytes (tab_stop - (c_column c mod tab_stop)) x20)
    else (c, []) in
  let content1 := bi_content i ++ pad in
  do i2 <- (if Nat.ltb (c_offset c1) (List.length line) then
              do s <- from_utf8 "mod.rs:add_line:str::from_utf8(&line[self.offset..]).unwrap()" (skipn (c_offset c1) line);
              Ok (set_lo (bi_lo i ++ [c_offset c1]) (set_content (content1 ++ s) i))
            else Ok (set_content content1 i));
  do st1 <- modify_info st id (fun _ => i2);
  Ok (st_cur st1 c1).

(* ------------------------------------------------------------------ check_open_blocks *)
(* is_not_greentext *)
Definition is_not_greentext (o : bopts) (st : pstate) (line : bytes) : res bool :=
  if negb (bo_greentext o) then Ok true
  else do b <- idx "mod.rs:is_not_greentext:line[self.first_nonspace + 1]" line (S (fns st));
       Ok (is_space_or_tab b).

(* `if is_space_or_tab(line[self.offset]) { advance_offset(line, 1, true) }` *)
Definition skip_one_space (st : pstate) (line : bytes) (site : string) : res pstate :=
  do b <- idx site line (offset st);
  if is_space_or_tab b then adv st line 1 true else Ok st.

Definition parse_block_quote_prefix (o : bopts) (st : pstate) (line : bytes) : res (bool * pstate) :=
  if Nat.leb (indent st) 3 then
    do b <- idx "mod.rs:parse_block_quote_prefix:line[self.first_nonspace]" line (fns st);
    if beqb b x3e then
      do g <- is_not_greentext o st line;
      if g then
        do st1 <- adv st line (indent st + 1) true;
        do st2 <- skip_one_space st1 line "mod.rs:parse_block_quote_prefix:line[self.offset]";
        Ok (true, st2)
      else Ok (false, st)
    else Ok (false, st)
  else Ok (false, st).

Definition is_lf_line (line : bytes) : bool :=
  match line with
  | [a] => beqb a x0a
  | [a; b] => beqb a x0d && beqb b x0a
  | _ => false
  end.

Definition parse_footnote_definition_block_prefix (st : pstate) (line : bytes) : res (bool * pstate) :=
  if Nat.leb 4 (indent st) then (do st1 <- adv st line 4 true; Ok (true, st1))
  else Ok (is_lf_line line, st).

(* parse_node_item_prefix and parse_description_item_prefix: mo = marker_offset, pad = padding *)
Definition parse_item_prefix (st : pstate) (line : bytes) (container : bnode) (mo pad : nat) : res (bool * pstate) :=
  if Nat.leb (mo + pad) (indent st) then (do st1 <- adv st line (mo + pad) true; Ok (true, st1))
  else if blank st && is_cons (bkids container) then
    do k <- sub "mod.rs:parse_node_item_prefix:self.first_nonspace - self.offset" (fns st) (offset st);
    do st1 <- adv st line k false; Ok (true, st1)
  else Ok (false, st).

(* `while i > 0 && is_space_or_tab(line[self.offset]) { advance_offset(line, 1, true); i -= 1 }` *)
Fixpoint skip_fence_offset (i : nat) (st : pstate) (line : bytes) (site : string) : res pstate :=
  match i with
  | O => Ok st
  | S j =>
    do b <- idx site line (offset st);
    if is_space_or_tab b then (do st1 <- adv st line 1 true; skip_fence_offset j st1 line site) else Ok st
  end.

(* parse_code_block_prefix: (matched, should_continue, state) *)
Definition parse_code_block_prefix (o : bopts) (st : pstate) (line : bytes) (container : nat) (cb : node_code_block)
  : res (bool * bool * pstate) :=
  if negb (cb_fenced cb) then
    if Nat.leb code_indent (indent st) then (do st1 <- adv st line code_indent true; Ok (true, true, st1))
    else if blank st then
      do k <- sub "mod.rs:parse_code_block_prefix:self.first_nonspace - self.offset" (fns st) (offset st);
      do st1 <- adv st line k false; Ok (true, true, st1)
    else Ok (false, true, st)
  else
    do matched <- (if Nat.leb (indent st) 3 then
                     do b <- idx "mod.rs:parse_code_block_prefix:line[self.first_nonspace]" line (fns st);
                     if N.eqb (bN b) (cb_fence_char cb)
                     then Ok (match scan_close_code_fence (skipn (fns st) line) with Some m => m | None => 0 end)
                     else Ok 0
                   else Ok 0);
    if N.leb (cb_fence_length cb) (N.of_nat matched) then
      do st1 <- adv st line matched false;
      do r <- unwrap_parent "mod.rs:parse_code_block_prefix:finalize_borrowed(container, ast).unwrap()" (finalize o st1 container);
      Ok (false, false, st_current (snd r) (fst r))
    else
      do st1 <- skip_fence_offset (N.to_nat (cb_fence_offset cb)) st line "mod.rs:parse_code_block_prefix:line[self.offset]";
      Ok (true, true, st1).

Definition parse_html_block_prefix (st : pstate) (t : N) : res bool :=
  if (N.leb 1 t && N.leb t 5)%bool then Ok true
  else if (N.eqb t 6 || N.eqb t 7)%bool then Ok (negb (blank st))
  else Panic "mod.rs:parse_html_block_prefix:unreachable!()".

(* parse_multiline_block_quote_prefix *)
Definition parse_multiline_block_quote_prefix (o : bopts) (st : pstate) (line : bytes) (container : nat)
  (fence_length fence_offset : N) : res (bool * bool * pstate) :=
  do matched <- (if Nat.leb (indent st) 3 then
                   do b <- idx "mod.rs:parse_multiline_block_quote_prefix:line[self.first_nonspace]" line (fns st);
                   if beqb b x3e
                   then Ok (match scan_close_multiline_block_quote_fence (skipn (fns st) line) with Some m => m | None => 0 end)
                   else Ok 0
                 else Ok 0);
  if N.leb fence_length (N.of_nat matched) then
    do st1 <- adv st line matched false;
    do lc <- last_child_is_open st1 container;
    do st2 <- (match lc with
               | Some child =>
                 do r <- unwrap_parent "mod.rs:parse_multiline_block_quote_prefix:finalize_borrowed(child, child_ast).unwrap()"
                           (finalize o st1 child);
                 Ok (snd r)
               | None => Ok st1
               end);
    do r <- unwrap_parent "mod.rs:parse_multiline_block_quote_prefix:finalize_borrowed(container, ast).unwrap()"
              (finalize o st2 container);
    Ok (false, false, st_current (snd r) (fst r))
  else
    do st1 <- skip_fence_offset (N.to_nat fence_offset) st line "mod.rs:parse_multiline_block_quote_prefix:line[self.offset]";
    Ok (true, true, st1).

(* ------------------------------------------------------------------ table.rs: row *)
Record tcell := mkTCell { ce_start : nat; ce_end : nat; ce_ioff : nat; ce_content : bytes }.

Definition or0 (o : option nat) : nat := match o with Some n => n | None => 0 end.

(* `while start_offset > paragraph_offset && string[start_offset - 1] != '|'` ; fuel = start_offset *)
Fixpoint cell_start_loop (fuel : nat) (s : bytes) (start_offset internal_offset paragraph_offset : nat) : res (nat * nat) :=
  match fuel with
  | O => Ok (start_offset, internal_offset)
  | S f =>
    if Nat.ltb paragraph_offset start_offset then
      do b <- idx "table.rs:row:string[start_offset - 1]" s (start_offset - 1);
      if beqb b x7c then Ok (start_offset, internal_offset)
      else cell_start_loop f s (start_offset - 1) (S internal_offset) paragraph_offset
    else Ok (start_offset, internal_offset)
  end.

Definition max_columns : nat := N.to_nat gen_max_columns.

(* the `while offset < len && expect_more_cells` loop: result (offset, paragraph_offset, cells, max_columns_abort) *)
Fixpoint row_loop (fuel : nat) (s : bytes) (spoiler : bool) (offset paragraph_offset : nat) (cells : list tcell)
  : res (nat * nat * list tcell * bool) :=
  match fuel with
  | O => OutOfFuel
  | S f =>
    let len := List.length s in
    if negb (Nat.ltb offset len) then Ok (offset, paragraph_offset, cells, false) else
    let cell_matched := or0 (scan_table_cell (skipn offset s) spoiler) in
    do rest <- slice_from "table.rs:row:string[offset + cell_matched..]" s (offset + cell_matched);
    let pipe_matched := or0 (scan_table_cell_end rest) in
    do r <- (if Nat.ltb 0 cell_matched || Nat.ltb 0 pipe_matched then
               do c0 <- (if Nat.ltb len (offset + cell_matched) then Panic "table.rs:row:string[offset..offset + cell_matched]"
                         else Ok (unescape_pipes (firstn cell_matched (skipn offset s))));
               do c1 <- Strings.trim c0;
               do so <- cell_start_loop offset s offset 0 paragraph_offset;
               if Nat.eqb (List.length cells) max_columns then Ok (cells, true)
               else
                 do e <- sub "table.rs:row:offset + cell_matched - 1" (offset + cell_matched) 1;
                 do c2 <- from_utf8 "table.rs:row:String::from_utf8(cell).unwrap()" c1;
                 Ok (cells ++ [mkTCell (fst so) e (snd so) c2], false)
             else Ok (cells, false));
    let '(cells1, abort) := r in
    if abort then Ok (offset, paragraph_offset, cells1, true) else
    let offset1 := offset + cell_matched + pipe_matched in
    if Nat.ltb 0 pipe_matched then row_loop f s spoiler offset1 paragraph_offset cells1
    else
      do rest2 <- slice_from "table.rs:row:string[offset..]" s offset1;
      let row_end_offset := or0 (scan_table_row_end rest2) in
      let offset2 := offset1 + row_end_offset in
      if Nat.ltb 0 row_end_offset && negb (Nat.eqb offset2 len) then
        do rest3 <- slice_from "table.rs:row:string[offset..]" s offset2;
        let offset3 := offset2 + or0 (scan_table_cell_end rest3) in
        row_loop f s spoiler offset3 offset2 []
      else Ok (offset2, paragraph_offset, cells1, false)
  end.

(* fn row(string, spoiler) -> Option<Row>: Some (paragraph_offset, cells) *)
Definition row (s : bytes) (spoiler : bool) : res (option (nat * list tcell)) :=
  let offset := or0 (scan_table_cell_end s) in
  do r <- row_loop (S (S (List.length s))) s spoiler offset 0 [];
  let '(off, po, cells, abort) := r in
  if negb (Nat.eqb off (List.length s)) || negb (is_cons cells) || abort then Ok None
  else Ok (Some (po, cells)).

(* table::matches *)
Definition table_matches (line : bytes) (spoiler : bool) : res bool :=
  do r <- row line spoiler; Ok (match r with Some _ => true | None => false end).

(* ------------------------------------------------------------------ check_open_blocks_inner *)
(* one container: (matched, should_continue, state) *)
Definition check_container (o : bopts) (st : pstate) (line : bytes) (c : bnode) : res (bool * bool * pstate) :=
  let lift (r : res (bool * pstate)) := do x <- r; Ok (fst x, true, snd x) in
  match bval c with
  | BlockQuote => lift (parse_block_quote_prefix o st line)
  | Item nl => lift (parse_item_prefix st line c (N.to_nat (l_marker_offset nl)) (N.to_nat (l_padding nl)))
  | DescriptionItem mo pad _ => lift (parse_item_prefix st line c (N.to_nat mo) (N.to_nat pad))
  | CodeBlock cb => parse_code_block_prefix o st line (bid c) cb
  | HtmlBlock bt _ => do b <- parse_html_block_prefix st bt; Ok (b, true, st)
  | Paragraph => Ok (negb (blank st), true, st)
  | Table _ =>
    do rest <- slice_from "mod.rs:check_open_blocks_inner:line[self.first_nonspace..]" line (fns st);
    do m <- table_matches rest (bo_spoiler o); Ok (m, true, st)
  | Heading _ _ | TableRow _ | TableCell => Ok (false, true, st)
  | FootnoteDefinition _ _ => lift (parse_footnote_definition_block_prefix st line)
  | MultilineBlockQuote fl fo => parse_multiline_block_quote_prefix o st line (bid c) fl fo
  | Alert a =>
    if a_multiline a then parse_multiline_block_quote_prefix o st line (bid c) (a_fence_length a) (a_fence_offset a)
    else lift (parse_block_quote_prefix o st line)
  | _ => Ok (true, true, st)
  end.

(* (all_matched, container, should_continue, state) *)
Fixpoint check_open_blocks_inner (fuel : nat) (o : bopts) (st : pstate) (line : bytes) (container : nat)
  : res (bool * nat * bool * pstate) :=
  match fuel with
  | O => OutOfFuel
  | S f =>
    do lc <- last_child_is_open st container;
    match lc with
    | None => Ok (true, container, true, st)
    | Some cid =>
      do st1 <- ffn st line;
      do c <- get st1 cid;
      do r <- check_container o st1 line c;
      let '(matched, should_continue, st2) := r in
      if matched then check_open_blocks_inner f o st2 line cid
      else Ok (false, cid, should_continue, st2)
    end
  end.

(* check_open_blocks: None, or Some (container, all_matched) *)
Definition check_open_blocks (o : bopts) (st : pstate) (line : bytes) : res (option (nat * bool) * pstate) :=
  do r <- check_open_blocks_inner (S (ps_next st)) o st line root_id;
  let '(all_matched, container, should_continue, st1) := r in
  do container1 <- (if all_matched then Ok container
                    else match parent_of container (ps_root st1) with
                         | Some p => Ok p
                         | None => Panic "mod.rs:check_open_blocks:container.parent().unwrap()"
                         end);
  if should_continue then Ok (Some (container1, all_matched), st1) else Ok (None, st1).

(* ------------------------------------------------------------------ table.rs: try_opening_block *)
Definition is_paragraph (t : bnode) : bool := match bval t with Paragraph => true | _ => false end.

Definition count_byte_nl (s : bytes) : nat := List.length (filter (fun b => beqb b x0a) s).

(* preface.iter().rev().skip(1).take_while(|c| c != '\n').count() *)
Definition tail_run (preface : bytes) : nat :=
  List.length (take_while (fun c => negb (beqb c x0a)) (skipn 1 (rev preface))).

Fixpoint copy_line_offsets (n : nat) (lo : list nat) (k : nat) : res (list nat) :=
  match n with
  | O => Ok []
  | S m =>
    match nth_error lo k with
    | Some x => do r <- copy_line_offsets m lo (S k); Ok (x :: r)
    | None => Panic "table.rs:try_inserting_table_header_paragraph:container_ast.line_offsets[n]"
    end
  end.

(* try_inserting_table_header_paragraph(parser, container, paragraph_offset) *)
Definition try_inserting_table_header_paragraph (st : pstate) (container : nat) (paragraph_offset : nat) : res pstate :=
  do c <- get st container;
  let ci := binf c in
  if Nat.ltb (List.length (bi_content ci)) paragraph_offset then Panic "table.rs:try_inserting_table_header_paragraph:content[..paragraph_offset]" else
  let preface := firstn paragraph_offset (bi_content ci) in
  let pc0 := unescape_pipes preface in
  let newlines := count_byte_nl pc0 in
  do pc <- Strings.trim pc0;
  match parent_of container (ps_root st) with
  | None => Ok st
  | Some pid =>
    do p <- get st pid;
    if negb (can_contain (bkind p) KParagraph) then Ok st else
    do el <- sub "table.rs:try_inserting_table_header_paragraph:start.line + newlines - 1" (bi_sl ci + newlines) 1;
    do lo <- copy_line_offsets newlines (bi_lo ci) 0;
    let last_line_offset := match last_opt lo with Some x => x | None => 0 end in
    let ec := last_line_offset + tail_run preface in
    do content <- from_utf8 "table.rs:try_inserting_table_header_paragraph:String::from_utf8(paragraph_content).unwrap()" pc;
    let id := ps_next st in
    let para := BNode (set_lo lo (set_content content (set_end el ec (new_info id Paragraph (bi_sl ci) (bi_sc ci))))) [] in
    do st1 <- modify_info (st_next st (S id)) container (set_start (bi_sl ci + newlines) (bi_sc ci));
    (* the test on pk repeats the can_contain_type test above at the place of the insertion *)
    match edit_kids container (fun pk pre x post => if can_contain pk KParagraph then pre ++ [para; x] ++ post else pre ++ x :: post) (ps_root st1) with
    | Some r => Ok (st_root st1 r)
    | None => no_node
    end
  end.

Definition align_of_cell (c : tcell) : align :=
  let s := ce_content c in
  let left := match s with b :: _ => beqb b x3a | [] => false end in
  let right := match last_opt s with Some b => beqb b x3a | None => false end in
  if left && right then ACenter else if left then ALeft else if right then ARight else ANone.

(* the header cells: `while i < header_row.cells.len()` *)
Fixpoint header_cells (cells : list tcell) (id line_number sl sc po : nat) : res (list bnode) :=
  match cells with
  | [] => Ok []
  | c :: r =>
    do col <- sub "table.rs:try_opening_header:start.column + cell.start_offset - header_row.paragraph_offset" (sc + ce_start c) po;
    if Nat.eqb col 0 then Panic "mod.rs:add_child:assert!(start_column > 0)" else
    do e <- sub "table.rs:try_opening_header:cell.end_offset - header_row.paragraph_offset" (ce_end c) po;
    do l0 <- sub "table.rs:try_opening_header:start.column + cell.start_offset - 1" (sc + ce_start c) 1;
    do l1 <- sub "table.rs:try_opening_header:.. + cell.internal_offset - header_row.paragraph_offset" (l0 + ce_ioff c) po;
    let i0 := new_info id TableCell line_number col in
    let i1 := set_lo [l1] (set_content (ce_content c) (set_ioff (ce_ioff c) (set_end sl (sc + e) (set_start sl col i0)))) in
    do rest <- header_cells r (S id) line_number sl sc po;
    Ok (BNode i1 [] :: rest)
  end.

Inductive table_result :=
| TNone                                             (* None *)
| TSame (mark_visited : bool)                       (* Some((container, false, mark_visited)) *)
| TNew (id : nat).                                  (* Some((new node, replace or not, false)): the tree is already updated *)

(* try_opening_header; the caller's `container.insert_after(table); container.detach()` is performed here *)
Definition try_opening_header (o : bopts) (st : pstate) (container : nat) (line : bytes) : res (table_result * pstate) :=
  do c <- get st container;
  if bi_tv (binf c) then Ok (TSame false, st) else
  do rest <- slice_from "table.rs:try_opening_header:line[parser.first_nonspace..]" line (fns st);
  match scan_table_start rest with
  | None => Ok (TSame false, st)
  | Some _ =>
    do dr <- row rest (bo_spoiler o);
    match dr with
    | None => Ok (TSame true, st)
    | Some (_, dcells) =>
      do hr <- row (bi_content (binf c)) (bo_spoiler o);
      match hr with
      | None => Ok (TSame true, st)
      | Some (po, hcells) =>
        if negb (Nat.eqb (List.length hcells) (List.length dcells)) then Ok (TSame true, st) else
        do st1 <- (if Nat.ltb 0 po then try_inserting_table_header_paragraph st container po else Ok st);
        do c1 <- get st1 container;
        let ci := binf c1 in
        let sl := bi_sl ci in let sc := bi_sc ci in
        let aligns := map align_of_cell dcells in
        let tid := ps_next st1 in
        let tinfo := new_info tid (Table (mkTable (N.of_nat (List.length hcells)) 0 0 aligns)) sl sc in
        (* header = add_child(table, TableRow(true), start.column) *)
        if Nat.eqb sc 0 then Panic "mod.rs:add_child:assert!(start_column > 0)" else
        let hid := S tid in
        do k0 <- sub "table.rs:try_opening_header:content.len() - 2" (List.length (bi_content ci)) 2;
        do k <- sub "table.rs:try_opening_header:content.len() - 2 - header_row.paragraph_offset" k0 po;
        let hinfo := set_end sl (sc + k) (set_start sl sc (new_info hid (TableRow true) (ps_line_number st1) sc)) in
        do cells <- header_cells hcells (S hid) (ps_line_number st1) sl sc po;
        let table := BNode tinfo [BNode hinfo cells] in
        let st2 := st_next st1 (S hid + List.length hcells) in
        (* incr_table_row_count(container, i): container is the paragraph: no effect *)
        do k2 <- sub "table.rs:try_opening_header:line.len() - 1 - parser.offset" (List.length line - 1) (offset st2);
        if Nat.eqb (List.length line) 0 then Panic "table.rs:try_opening_header:line.len() - 1" else
        do st3 <- adv st2 line k2 false;
        (* open_new_blocks: container.insert_after(new_container); container.detach() *)
        (* `container` is the paragraph found above; the test repeats it at the place of the replacement *)
        match edit_kids container (fun _ pre x post => if is_paragraph x then pre ++ [table] ++ post else pre ++ x :: post) (ps_root st3) with
        | Some r => Ok (TNew tid, st_root st3 r)
        | None => Panic "arena_tree.rs:insert_after:self.parent (no parent)"
        end
      end
    end
  end.

Definition num_autocompleted_cells (t : node_table) : N :=
  let num_cells := (t_cols t * t_rows t)%N in
  if (num_cells <? t_nonempty t)%N then 0%N else (num_cells - t_nonempty t)%N.

(* the cells of a body row parsed from the line: `while i < min(alignments.len(), this_row.cells.len())` *)
Fixpoint row_cells (n : nat) (cells : list tcell) (id line_number sc last_column : nat) : res (list bnode * nat) :=
  match n, cells with
  | S m, c :: r =>
    let col := sc + ce_start c in
    if Nat.eqb col 0 then Panic "mod.rs:add_child:assert!(start_column > 0)" else
    do l0 <- sub "table.rs:try_opening_row:sourcepos.start.column + cell.start_offset - 1" col 1;
    let i0 := new_info id TableCell line_number col in
    let ec := sc + ce_end c in
    let i1 := set_lo [l0 + ce_ioff c] (set_content (ce_content c) (set_end line_number ec (set_ioff (ce_ioff c) i0))) in
    do rest <- row_cells m r (S id) line_number sc ec;
    Ok (BNode i1 [] :: fst rest, snd rest)
  | _, _ => Ok ([], last_column)
  end.

Fixpoint filler_cells (n id line_number last_column : nat) : list bnode :=
  match n with
  | O => []
  | S m => BNode (new_info id TableCell line_number last_column) [] :: filler_cells m (S id) line_number last_column
  end.

Definition try_opening_row (o : bopts) (st : pstate) (container : nat) (t : node_table) (line : bytes)
  : res (table_result * pstate) :=
  if blank st then Ok (TNone, st) else
  if (max_autocompleted_cells <? num_autocompleted_cells t)%N then Ok (TNone, st) else
  do c <- get st container;
  let ci := binf c in
  do rest <- slice_from "table.rs:try_opening_row:line[parser.first_nonspace..]" line (fns st);
  do tr <- row rest (bo_spoiler o);
  match tr with
  | None => Ok (TNone, st)
  | Some (_, cells) =>
    (* new_row = add_child(container, TableRow(false), sourcepos.start.column): a Table can contain a TableRow *)
    let sc := bi_sc ci in
    if Nat.eqb sc 0 then Panic "mod.rs:add_child:assert!(start_column > 0)" else
    let rid := ps_next st in
    let rinfo := set_end (ps_line_number st) (bi_ec ci) (new_info rid (TableRow false) (ps_line_number st) sc) in
    let nal := List.length (t_aligns t) in
    let n := Nat.min nal (List.length cells) in
    do rc <- row_cells n cells (S rid) (ps_line_number st) sc sc;
    let '(parsed, last_column) := rc in
    if Nat.ltb n nal && Nat.eqb last_column 0 then Panic "mod.rs:add_child:assert!(start_column > 0)" else
    let fill := filler_cells (nal - n) (S rid + n) (ps_line_number st) last_column in
    let rownode := BNode rinfo (parsed ++ fill) in
    let t' := mkTable (t_cols t) (t_rows t + 1)%N (t_nonempty t + N.of_nat n)%N (t_aligns t) in
    do st1 <- modify (st_next st (S rid + nal)) container
                (fun x => match x with BNode i ch => BNode (set_val (Table t') i) (ch ++ [rownode]) end);
    if Nat.eqb (List.length line) 0 then Panic "table.rs:try_opening_row:line.len() - 1" else
    do k <- sub "table.rs:try_opening_row:line.len() - 1 - parser.offset" (List.length line - 1) (offset st1);
    do st2 <- adv st1 line k false;
    Ok (TNew rid, st2)
  end.

Definition try_opening_block (o : bopts) (st : pstate) (container : nat) (line : bytes) : res (table_result * pstate) :=
  do c <- get st container;
  match bval c with
  | Paragraph => try_opening_header o st container line
  | Table t => try_opening_row o st container t line
  | _ => Ok (TNone, st)
  end.

(* ------------------------------------------------------------------ description lists *)
(* reopen_ast_nodes: open = true on the node and every ancestor *)
Fixpoint reopen_ast_nodes (fuel : nat) (st : pstate) (id : nat) : res pstate :=
  match fuel with
  | O => OutOfFuel
  | S f =>
    do st1 <- modify_info st id (set_open true);
    match parent_of id (ps_root st1) with
    | Some p => reopen_ast_nodes f st1 p
    | None => Ok st1
    end
  end.

(* parse_desc_list_details(container, matched): (result, container, state) *)
Definition parse_desc_list_details (o : bopts) (st : pstate) (container : nat) (matched : nat) : res (bool * nat * pstate) :=
  do c <- get st container;
  do r <- (match last_opt (bkids c) with
           | Some lc => Ok (Some (false, container, lc))
           | None =>
             if negb (is_paragraph c) then Ok None
             else match parent_of container (ps_root st) with
                  | None => Ok None
                  | Some p =>
                    do pn <- get st p;
                    match last_opt (bkids pn) with
                    | Some lc => Ok (Some (true, p, lc))
                    | None => Panic "mod.rs:parse_desc_list_details:container.last_child().unwrap()"
                    end
                  end
           end);
  match r with
  | None => Ok (false, container, st)
  | Some (tight, container1, lc) =>
    let col := S (fns st) in
    match bval lc with
    | Paragraph =>
      do st1 <- bdetach st (bid lc);
      let lsl := bi_sl (binf lc) in let lsc := bi_sc (binf lc) in
      do c1 <- get st1 container1;
      do lr <- (match last_opt (bkids c1) with
                | Some l2 =>
                  match bval l2 with
                  | DescriptionList => do s <- reopen_ast_nodes (S (ps_next st1)) st1 (bid l2); Ok (bid l2, s)
                  | _ => do a <- add_child o st1 container1 DescriptionList col;
                         do s <- modify_info (snd a) (fst a) (set_start lsl lsc); Ok (fst a, s)
                  end
                | None => do a <- add_child o st1 container1 DescriptionList col;
                          do s <- modify_info (snd a) (fst a) (set_start lsl lsc); Ok (fst a, s)
                end);
      let '(list, st2) := lr in
      do a <- add_child o st2 list (DescriptionItem (N.of_nat (indent st2)) (N.of_nat matched) tight) col;
      let '(item, st3) := a in
      do st4 <- modify_info st3 item (set_start lsl lsc);
      (* term = add_child(item, DescriptionTerm); details = add_child(item, DescriptionDetails); term.append(last_child) *)
      do a <- add_child_gen o st4 item DescriptionTerm col (fun i => i) [lc];
      let '(term, st5) := a in
      do a <- add_child o st5 item DescriptionDetails col;
      let '(details, st6) := a in
      Ok (true, details, st6)
    | DescriptionItem _ _ tight2 =>
      match parent_of (bid lc) (ps_root st) with
      | None => Panic "mod.rs:parse_desc_list_details:last_child.parent().unwrap()"
      | Some parent =>
        do a <- add_child o st parent (DescriptionItem (N.of_nat (indent st)) (N.of_nat matched) tight2) col;
        let '(item, st1) := a in
        do a <- add_child o st1 item DescriptionDetails col;
        let '(details, st2) := a in
        Ok (true, details, st2)
      end
    | _ => Ok (false, container1, st)
    end
  end.

(* ------------------------------------------------------------------ open_new_blocks: the handlers *)
(* each handler: (handled, container, state) *)
Definition hres := res (bool * nat * pstate).
Definition not_handled (container : nat) (st : pstate) : hres := Ok (false, container, st).

Definition rest_at_fns (st : pstate) (line : bytes) (site : string) : res bytes := slice_from site line (fns st).

(* handle_alert: the `while line[title_startpos] != ']'` loop, fuel = |line| *)
Fixpoint alert_title_loop (fuel : nat) (line : bytes) (pos fence_length : nat) : res (nat * nat) :=
  match fuel with
  | O => Panic "mod.rs:handle_alert:line[title_startpos]"
  | S f =>
    do b <- idx "mod.rs:handle_alert:line[title_startpos]" line pos;
    if beqb b x5d then Ok (pos, fence_length)
    else alert_title_loop f line (S pos) (if beqb b x3e then S fence_length else fence_length)
  end.

Definition handle_alert (o : bopts) (st : pstate) (container : nat) (line : bytes) (indented : bool) : hres :=
  if indented || negb (bo_alerts o) then not_handled container st else
  do b <- idx "mod.rs:detect_alert:line[self.first_nonspace]" line (fns st);
  if negb (beqb b x3e) then not_handled container st else
  match scan_alert_start (skipn (fns st) line) with
  | None => not_handled container st
  | Some ty =>
    let alert_startpos := fns st in
    do r <- alert_title_loop (S (List.length line)) line (fns st) 0;
    let '(p, fence_length) := r in
    let title_startpos := S p in
    if Nat.eqb fence_length 2 || (Nat.leb 3 fence_length && negb (bo_multiline_block_quotes o)) then not_handled container st else
    do t0 <- slice_from "mod.rs:handle_alert:line[title_startpos..]" line title_startpos;
    do t1 <- unescape_html t0;
    do t2 <- Strings.trim t1;
    do t3 <- Strings.unescape t2;
    do title <- (match t3 with
                 | [] => Ok None
                 | _ => do t <- from_utf8 "mod.rs:handle_alert:String::from_utf8(tmp).unwrap()" t3; Ok (Some t)
                 end);
    do fo <- sub "mod.rs:handle_alert:self.first_nonspace - self.offset" (fns st) (offset st);
    let na := mkAlert ty title (Nat.leb 3 fence_length) (N.of_nat fence_length) (N.of_nat fo) in
    do k0 <- sub "mod.rs:handle_alert:self.curline_len - self.offset" (ps_curline_len st) (offset st);
    do k <- sub "mod.rs:handle_alert:self.curline_len - self.offset - 1" k0 1;
    do st1 <- adv st line k false;
    do a <- add_child o st1 container (Alert na) (S alert_startpos);
    Ok (true, fst a, snd a)
  end.

Definition handle_multiline_blockquote (o : bopts) (st : pstate) (container : nat) (line : bytes) (indented : bool) : hres :=
  if indented || negb (bo_multiline_block_quotes o) then not_handled container st else
  do rest <- rest_at_fns st line "mod.rs:detect_multiline_blockquote:line[self.first_nonspace..]";
  match scan_open_multiline_block_quote_fence rest with
  | None => not_handled container st
  | Some matched =>
    let first_nonspace := fns st in let off := offset st in
    do fo <- sub "mod.rs:handle_multiline_blockquote:first_nonspace - offset" first_nonspace off;
    do a <- add_child o st container (MultilineBlockQuote (N.of_nat matched) (N.of_nat fo)) (S first_nonspace);
    do k <- sub "mod.rs:handle_multiline_blockquote:first_nonspace + *matched - offset" (first_nonspace + matched) off;
    do st2 <- adv (snd a) line k false;
    Ok (true, fst a, st2)
  end.

Definition handle_blockquote (o : bopts) (st : pstate) (container : nat) (line : bytes) (indented : bool) : hres :=
  if indented then not_handled container st else
  do b <- idx "mod.rs:detect_blockquote:line[self.first_nonspace]" line (fns st);
  if negb (beqb b x3e) then not_handled container st else
  do g <- is_not_greentext o st line;
  if negb g then not_handled container st else
  let blockquote_startpos := fns st in
  do k <- sub "mod.rs:handle_blockquote:self.first_nonspace + 1 - self.offset" (fns st + 1) (offset st);
  do st1 <- adv st line k false;
  do st2 <- skip_one_space st1 line "mod.rs:handle_blockquote:line[self.offset]";
  do a <- add_child o st2 container BlockQuote (S blockquote_startpos);
  Ok (true, fst a, snd a).

(* position of the first '#' in s *)
Fixpoint position_hash (s : bytes) : option nat :=
  match s with
  | [] => None
  | b :: r => if beqb b x23 then Some 0 else match position_hash r with Some n => Some (S n) | None => None end
  end.

(* `while line[hashpos] == '#' { level += 1; hashpos += 1 }`; s = line[hashpos..] *)
Fixpoint count_hashes (s : bytes) : res nat :=
  match s with
  | [] => Panic "mod.rs:handle_atx_heading:line[hashpos]"
  | b :: r => if beqb b x23 then (do n <- count_hashes r; Ok (S n)) else Ok 0
  end.

Definition handle_atx_heading (o : bopts) (st : pstate) (container : nat) (line : bytes) (indented : bool) : hres :=
  if indented then not_handled container st else
  do rest <- rest_at_fns st line "mod.rs:detect_atx_heading:line[self.first_nonspace..]";
  match scan_atx_heading_start rest with
  | None => not_handled container st
  | Some matched =>
    let heading_startpos := fns st in
    do k <- sub "mod.rs:handle_atx_heading:heading_startpos + *matched - offset" (heading_startpos + matched) (offset st);
    do st1 <- adv st line k false;
    (* add_child(.., Heading(default), ..) followed by the computation of the level and
       `container_ast.value = Heading{level, setext: false}; container_ast.internal_offset = matched` *)
    match position_hash rest with
    | None => Panic "mod.rs:handle_atx_heading:position(|&c| c == b'#').unwrap()"
    | Some p =>
      do level <- count_hashes (skipn p rest);
      if Nat.ltb 255 level then Panic "mod.rs:handle_atx_heading:level += 1" else
      do a <- add_child_gen o st1 container (Heading 0 false) (S heading_startpos)
                (fun i => set_ioff matched (set_val (Heading (N.of_nat level) false) i)) [];
      Ok (true, fst a, snd a)
    end
  end.

Definition handle_code_fence (o : bopts) (st : pstate) (container : nat) (line : bytes) (indented : bool) : hres :=
  if indented then not_handled container st else
  do rest <- rest_at_fns st line "mod.rs:detect_code_fence:line[self.first_nonspace..]";
  match scan_open_code_fence rest with
  | None => not_handled container st
  | Some matched =>
    let first_nonspace := fns st in let off := offset st in
    do fc <- idx "mod.rs:handle_code_fence:line[first_nonspace]" line first_nonspace;
    do fo <- sub "mod.rs:handle_code_fence:first_nonspace - offset" first_nonspace off;
    let ncb := mkCB true (bN fc) (N.of_nat matched) (N.of_nat fo) [] [] in
    do a <- add_child o st container (CodeBlock ncb) (S first_nonspace);
    do k <- sub "mod.rs:handle_code_fence:first_nonspace + *matched - offset" (first_nonspace + matched) off;
    do st2 <- adv (snd a) line k false;
    Ok (true, fst a, st2)
  end.

Definition handle_html_block (o : bopts) (st : pstate) (container : nat) (line : bytes) (indented : bool) : hres :=
  if indented then not_handled container st else
  do rest <- rest_at_fns st line "mod.rs:detect_html_block:line[self.first_nonspace..]";
  do c <- get st container;
  let m := match scan_html_block_start rest with
           | Some m => Some m
           | None => if negb (is_paragraph c) then scan_html_block_start_7 rest else None
           end in
  match m with
  | None => not_handled container st
  | Some matched =>
    do a <- add_child o st container (HtmlBlock (N.of_nat (matched mod 256)) []) (S (fns st));
    Ok (true, fst a, snd a)
  end.

Definition handle_setext_heading (o : bopts) (st : pstate) (container : nat) (line : bytes) (indented : bool) : hres :=
  if indented then not_handled container st else
  do c <- get st container;
  if negb (is_paragraph c) then not_handled container st else
  do rest <- rest_at_fns st line "mod.rs:detect_setext_heading:line[self.first_nonspace..]";
  match (if bo_ignore_setext o then None else scan_setext_heading_line rest) with
  | None => not_handled container st
  | Some sc =>
    do r <- resolve_refdefs (bo_fold o) (ps_refmap st) (bi_content (binf c));
    let '(content', has_content, m') := r in
    let level := match sc with SetextEquals => 1%N | SetextHyphen => 2%N end in
    (* ast.content = ..; if has_content { container.value = Heading{level, setext: true} }: one update of the node *)
    do st1 <- modify_info (st_refmap st m') container
                (fun i => if has_content then set_val (Heading level true) (set_content content' i) else set_content content' i);
    if has_content then
      let st2 := st1 in
      do k0 <- sub "mod.rs:handle_setext_heading:line.len() - 1" (List.length line) 1;
      do k <- sub "mod.rs:handle_setext_heading:line.len() - 1 - self.offset" k0 (offset st2);
      do st3 <- adv st2 line k false;
      Ok (true, container, st3)
    else Ok (true, container, st1)
  end.

Definition handle_thematic_break (o : bopts) (st : pstate) (container : nat) (line : bytes) (indented all_matched : bool) : hres :=
  if indented then not_handled container st else
  do c <- get st container;
  if is_paragraph c && negb all_matched then not_handled container st else
  if negb (Nat.leb (c_tbkp (ps_cur st)) (fns st)) then not_handled container st else
  let '(off, found) := scan_thematic_break_inner line (fns st) in
  if negb found then not_handled container (st_cur st (cur_set_tbkp (ps_cur st) off)) else
  do a <- add_child o st container ThematicBreak (S (fns st));
  let '(tb, st1) := a in
  do k0 <- sub "mod.rs:handle_thematic_break:line.len() - 1" (List.length line) 1;
  do k <- sub "mod.rs:handle_thematic_break:line.len() - 1 - self.offset" k0 (offset st1);
  do st2 <- modify_info st1 tb (set_end (ps_line_number st1) k);
  do st3 <- adv st2 line k false;
  Ok (true, tb, st3).

Definition handle_footnote (o : bopts) (st : pstate) (container : nat) (line : bytes) (indented : bool) (depth : nat) : hres :=
  if indented || negb (bo_footnotes o) || negb (Nat.ltb depth max_list_depth) then not_handled container st else
  do rest <- rest_at_fns st line "mod.rs:detect_footnote:line[self.first_nonspace..]";
  match scan_footnote_definition rest with
  | None => not_handled container st
  | Some matched =>
    if Nat.ltb matched 2 || Nat.ltb (List.length line) (fns st + matched) then Panic "mod.rs:handle_footnote:line[first_nonspace + 2..first_nonspace + matched]" else
    let c0 := firstn (matched - 2) (skipn (fns st + 2) line) in
    let c1 := take_while (fun e => negb (beqb e x5d)) c0 in
    do k <- sub "mod.rs:handle_footnote:self.first_nonspace + *matched - self.offset" (fns st + matched) (offset st);
    do st1 <- adv st line k false;
    do name <- from_utf8 "mod.rs:handle_footnote:str::from_utf8(c).unwrap()" c1;
    do a <- add_child o st1 container (FootnoteDefinition name 0) (S (fns st1));
    do st2 <- modify_info (snd a) (fst a) (set_ioff matched);
    Ok (true, fst a, st2)
  end.

Definition handle_description_list (o : bopts) (st : pstate) (container : nat) (line : bytes) (indented : bool) : hres :=
  if indented || negb (bo_description_lists o) then not_handled container st else
  do rest <- rest_at_fns st line "mod.rs:detect_description_list:line[self.first_nonspace..]";
  match scan_description_item_start rest with
  | None => not_handled container st
  | Some matched =>
    do r <- parse_desc_list_details o st container matched;
    let '(ok, container1, st1) := r in
    if negb ok then not_handled container1 st1 else
    do k <- sub "mod.rs:handle_description_list:self.first_nonspace + *matched - self.offset" (fns st1 + matched) (offset st1);
    do st2 <- adv st1 line k false;
    do st3 <- skip_one_space st2 line "mod.rs:handle_description_list:line[self.offset]";
    Ok (true, container1, st3)
  end.

(* lists_match *)
Definition list_type_eqb (a b : list_type) : bool :=
  match a, b with Bullet, Bullet | Ordered, Ordered => true | _, _ => false end.
Definition delim_eqb (a b : delim_type) : bool :=
  match a, b with Period, Period | Paren, Paren => true | _, _ => false end.
Definition lists_match (a b : node_list) : bool :=
  list_type_eqb (l_type a) (l_type b) && delim_eqb (l_delim a) (l_delim b) && N.eqb (l_bullet a) (l_bullet b).

(* `while self.column - save_column <= 5 && is_space_or_tab(line[self.offset]) { advance_offset(line, 1, true) }` *)
Fixpoint list_spaces_loop (fuel : nat) (st : pstate) (line : bytes) (save_column : nat) : res pstate :=
  match fuel with
  | O => OutOfFuel
  | S f =>
    do d <- sub "mod.rs:handle_list:self.column - save_column" (c_column (ps_cur st)) save_column;
    if Nat.leb d 5 then
      do b <- idx "mod.rs:handle_list:line[self.offset]" line (offset st);
      if is_space_or_tab b then (do st1 <- adv st line 1 true; list_spaces_loop f st1 line save_column) else Ok st
    else Ok st
  end.

Definition handle_list (o : bopts) (st : pstate) (container : nat) (line : bytes) (indented : bool) (depth : nat) : hres :=
  do c <- get st container;
  let is_list := match bval c with NList _ => true | _ => false end in
  if negb (negb indented || is_list) || negb (Nat.ltb (indent st) 4) || negb (Nat.ltb depth max_list_depth) then not_handled container st else
  do m <- parse_list_marker line (fns st) (is_paragraph c);
  match m with
  | None => not_handled container st
  | Some (matched, nl0) =>
    do k <- sub "mod.rs:handle_list:self.first_nonspace + *matched - self.offset" (fns st + matched) (offset st);
    do st1 <- adv st line k false;
    let save := ps_cur st1 in
    do st2 <- list_spaces_loop 8 st1 line (c_column save);
    do i <- sub "mod.rs:handle_list:self.column - save_column" (c_column (ps_cur st2)) (c_column save);
    do b <- idx "mod.rs:handle_list:line[self.offset]" line (offset st2);
    do r <- (if negb (Nat.leb 1 i && Nat.ltb i 5) || is_line_end_char b then
               let st3 := st_cur st2 (cur_set_oc (ps_cur st2) (c_offset save) (c_column save) (c_pct save)) in
               do st4 <- (if Nat.ltb 0 i then adv st3 line 1 true else Ok st3);
               Ok (matched + 1, st4)
             else Ok (matched + i, st2));
    let '(padding, st5) := r in
    let nl := mkList (l_type nl0) (N.of_nat (indent st5)) (N.of_nat padding) (l_start nl0) (l_delim nl0) (l_bullet nl0) (l_tight nl0) (l_task nl0) in
    do c5 <- get st5 container;
    let need_list := match bval c5 with NList mnl => negb (lists_match nl mnl) | _ => true end in
    do a <- (if need_list then add_child o st5 container (NList nl) (S (fns st5)) else Ok (container, st5));
    do a2 <- add_child o (snd a) (fst a) (Item nl) (S (fns st5));
    Ok (true, fst a2, snd a2)
  end.

Definition handle_code_block (o : bopts) (st : pstate) (container : nat) (line : bytes) (indented maybe_lazy : bool) : hres :=
  if negb (indented && negb maybe_lazy && negb (blank st)) then not_handled container st else
  do st1 <- adv st line code_indent true;
  do a <- add_child o st1 container (CodeBlock (mkCB false 0 0 0 [] [])) (S (offset st1));
  Ok (true, fst a, snd a).

(* ------------------------------------------------------------------ open_new_blocks *)
Definition or_else_h (r : hres) (k : nat -> pstate -> hres) : hres :=
  do x <- r;
  let '(handled, container, st) := x in
  if handled then Ok x else k container st.

Definition is_code_or_html (t : bnode) : bool :=
  match bval t with CodeBlock _ | HtmlBlock _ _ => true | _ => false end.

(* one iteration of the `while`: (continue?, container, state) *)
Definition open_new_blocks_step (o : bopts) (st : pstate) (container : nat) (line : bytes)
  (all_matched maybe_lazy : bool) (depth : nat) : res (bool * nat * pstate) :=
  do st <- ffn st line;
  let indented := Nat.leb code_indent (indent st) in
  do x <- or_else_h (handle_alert o st container line indented) (fun container st =>
          or_else_h (handle_multiline_blockquote o st container line indented) (fun container st =>
          or_else_h (handle_blockquote o st container line indented) (fun container st =>
          or_else_h (handle_atx_heading o st container line indented) (fun container st =>
          or_else_h (handle_code_fence o st container line indented) (fun container st =>
          or_else_h (handle_html_block o st container line indented) (fun container st =>
          or_else_h (handle_setext_heading o st container line indented) (fun container st =>
          or_else_h (handle_thematic_break o st container line indented all_matched) (fun container st =>
          or_else_h (handle_footnote o st container line indented depth) (fun container st =>
          or_else_h (handle_description_list o st container line indented) (fun container st =>
          or_else_h (handle_list o st container line indented depth) (fun container st =>
          handle_code_block o st container line indented maybe_lazy)))))))))));
  let '(handled, container, st) := x in
  do r <- (if handled then Ok (true, container, st)
           else
             do t <- (if negb indented && bo_table o then try_opening_block o st container line else Ok (TNone, st));
             match t with
             | (TNone, st1) => Ok (false, container, st1)
             | (TSame mark, st1) =>
               do st2 <- (if mark then modify_info st1 container (set_tv true) else Ok st1);
               Ok (true, container, st2)
             | (TNew id, st1) => Ok (true, id, st1)
             end);
  let '(go_on, container, st) := r in
  if negb go_on then Ok (false, container, st) else
  do c <- get st container;
  if accepts_lines (bkind c) then Ok (false, container, st) else Ok (true, container, st).

Fixpoint open_new_blocks_loop (fuel : nat) (o : bopts) (st : pstate) (container : nat) (line : bytes)
  (all_matched maybe_lazy : bool) (depth : nat) : res (nat * pstate) :=
  match fuel with
  | O => OutOfFuel
  | S f =>
    do c <- get st container;
    if is_code_or_html c then Ok (container, st) else
    do r <- open_new_blocks_step o st container line all_matched maybe_lazy (S depth);
    let '(go_on, container1, st1) := r in
    if go_on then open_new_blocks_loop f o st1 container1 line all_matched false (S depth)
    else Ok (container1, st1)
  end.

Definition open_new_blocks (o : bopts) (st : pstate) (container : nat) (line : bytes) (all_matched : bool) : res (nat * pstate) :=
  do cur <- get st (ps_current st);
  open_new_blocks_loop (2 * List.length line + 8) o st container line all_matched (is_paragraph cur) 0.

(* ------------------------------------------------------------------ add_text_to_container *)
(* `while let Some(parent) = tmp.parent() { parent.last_line_blank = false }` *)
Fixpoint clear_llb_up (fuel : nat) (st : pstate) (id : nat) : res pstate :=
  match fuel with
  | O => OutOfFuel
  | S f =>
    match parent_of id (ps_root st) with
    | None => Ok st
    | Some p => do st1 <- modify_info st p (set_llb false); clear_llb_up f st1 p
    end
  end.

(* `while !self.current.same_node(target) { self.current = self.finalize(self.current).unwrap() }` *)
Fixpoint finalize_up_to (fuel : nat) (o : bopts) (st : pstate) (target : nat) (site : string) : res pstate :=
  match fuel with
  | O => OutOfFuel
  | S f =>
    if Nat.eqb (ps_current st) target then Ok st
    else
      do r <- unwrap_parent site (finalize o st (ps_current st));
      finalize_up_to f o (st_current (snd r) (fst r)) target site
  end.

Definition html_end_condition (bt : N) (s : bytes) : bool :=
  if N.eqb bt 1 then scan_html_block_end_1 s
  else if N.eqb bt 2 then scan_html_block_end_2 s
  else if N.eqb bt 3 then scan_html_block_end_3 s
  else if N.eqb bt 4 then scan_html_block_end_4 s
  else if N.eqb bt 5 then scan_html_block_end_5 s
  else false.

Definition add_text_to_container (o : bopts) (st : pstate) (container last_matched_container : nat) (line : bytes) : res pstate :=
  do st <- ffn st line;
  do c <- get st container;
  do st <- (if blank st then
              match last_opt (bkids c) with
              | Some lc => modify_info st (bid lc) (set_llb true)
              | None => Ok st
              end
            else Ok st);
  let llb := blank st &&
             match bval c with
             | BlockQuote | Heading _ _ | ThematicBreak => false
             | CodeBlock cb => negb (cb_fenced cb)
             | Item _ => is_cons (bkids c) || negb (Nat.eqb (bi_sl (binf c)) (ps_line_number st))
             | MultilineBlockQuote _ _ => false
             | Alert _ => false
             | _ => true
             end in
  do st <- modify_info st container (set_llb llb);
  do st <- clear_llb_up (S (ps_next st)) st container;
  do lazy <- (if negb (Nat.eqb (ps_current st) last_matched_container)
                 && Nat.eqb container last_matched_container
                 && negb (blank st)
                 && (negb (bo_greentext o) || negb (match bval c with BlockQuote | Document => true | _ => false end))
              then do cur <- get st (ps_current st); Ok (is_paragraph cur)
              else Ok false);
  if lazy then add_line st (ps_current st) line
  else
    do st <- finalize_up_to (S (ps_next st)) o st last_matched_container "mod.rs:add_text_to_container:self.finalize(self.current).unwrap()";
    do c <- get st container;
    do r <- (match bval c with
             | CodeBlock _ => do st1 <- add_line st container line; Ok (container, st1)
             | HtmlBlock bt _ =>
               do st1 <- add_line st container line;
               do rest <- slice_from "mod.rs:add_text_to_container:line[self.first_nonspace..]" line (fns st1);
               if html_end_condition bt rest then
                 unwrap_parent "mod.rs:add_text_to_container:self.finalize(container).unwrap()" (finalize o st1 container)
               else Ok (container, st1)
             | v =>
               if blank st then Ok (container, st)
               else if accepts_lines (kind_of v) then
                 do line1 <- (match v with
                              | Heading _ setext => if negb setext then chop_trailing_hashtags line else Ok line
                              | _ => Ok line
                              end);
                 do count <- sub "mod.rs:add_text_to_container:self.first_nonspace - self.offset" (fns st) (offset st);
                 if Nat.leb (fns st) (List.length line1) then
                   do st1 <- adv st line1 count false;
                   do st2 <- add_line st1 container line1;
                   Ok (container, st2)
                 else Ok (container, st)
               else
                 do a <- add_child o st container Paragraph (S (fns st));
                 let '(p, st1) := a in
                 do count <- sub "mod.rs:add_text_to_container:self.first_nonspace - self.offset" (fns st1) (offset st1);
                 do st2 <- adv st1 line count false;
                 do st3 <- add_line st2 p line;
                 Ok (p, st3)
             end);
    Ok (st_current (snd r) (fst r)).

(* ------------------------------------------------------------------ process_line *)
Definition strip_one (b : byte) (line : bytes) (n : nat) : nat :=
  match n with
  | O => O
  | S m => match nth_error line m with Some c => if beqb c b then m else n | None => n end
  end.

Definition process_line (o : bopts) (st : pstate) (line0 : bytes) : res pstate :=
  let line := norm_line line0 in
  let len := List.length line in
  let end_col := strip_one x0d line (strip_one x0a line len) in
  let st := st_curline st len end_col in
  let bom := Nat.eqb (ps_line_number st) 0 && Nat.leb 3 len && starts_with line bom_bytes in
  let st := st_cur st (mkCur (if bom then 3 else 0) 0 0 0 0 false false 0) in
  let st := st_line_number st (S (ps_line_number st)) in
  do r <- check_open_blocks o st line;
  do st <- (match r with
            | (Some (last_matched_container, all_matched), st1) =>
              let current := ps_current st1 in
              do r2 <- open_new_blocks o st1 last_matched_container line all_matched;
              let '(container, st2) := r2 in
              if Nat.eqb current (ps_current st2) then add_text_to_container o st2 container last_matched_container line
              else Ok st2
            | (None, st1) => Ok st1
            end);
  Ok (st_curline (st_last_line_length st (ps_curline_end_col st)) 0 0).

Fixpoint process_lines (o : bopts) (st : pstate) (lines : list bytes) : res pstate :=
  match lines with
  | [] => Ok st
  | l :: r => do st1 <- process_line o st l; process_lines o st1 r
  end.

(* ------------------------------------------------------------------ feed prologue (front matter), finish *)
Definition front_matter_prologue (o : bopts) (st : pstate) (s : bytes) : res (pstate * bytes) :=
  match bo_front_matter_delimiter o with
  | None => Ok (st, s)
  | Some delimiter =>
    do sp <- split_off_front_matter s delimiter;
    match sp with
    | None => Ok (st, s)
    | Some (fm, rest) =>
      let lines := count_line_endings fm in
      do stripped <- remove_trailing_blank_lines fm;
      let stripped_lines := count_line_endings stripped in
      do a <- add_child o st root_id (FrontMatter fm) 1;
      let '(node, st1) := a in
      do r <- unwrap_parent "mod.rs:feed:self.finalize(node).unwrap()" (finalize o st1 node);
      do st2 <- modify_info (snd r) node (fun i => set_end (1 + stripped_lines) (List.length delimiter) (set_start 1 1 i));
      Ok (st_line_number st2 (ps_line_number st2 + lines), rest)
    end
  end.

(* finalize_document up to the hook *)
Definition finalize_document (o : bopts) (st : pstate) : res pstate :=
  do st1 <- finalize_up_to (S (ps_next st)) o st root_id "mod.rs:finalize_document:self.finalize(self.current).unwrap()";
  do r <- finalize o st1 root_id;
  Ok (snd r).

(* the block phase as a function of the lines handed to process_line *)
Definition run_lines (o : bopts) (st : pstate) (lines : list bytes) : res pstate :=
  do st1 <- process_lines o st lines;
  finalize_document o st1.

Record bresult := mkBR { br_root : bnode; br_refmap : refmap; br_max_ref_size : N }.

Definition parse_blocks (o : bopts) (x : bytes) : res bresult :=
  do p <- front_matter_prologue o init_state x;
  let '(st, rest) := p in
  let '(lines, total) := feed_lines rest in
  do st1 <- run_lines o st lines;
  Ok (mkBR (ps_root st1) (ps_refmap st1) (max_ref_size total)).

(* the public tree: positions and payload only *)
Fixpoint to_node (t : bnode) : node :=
  match t with
  | BNode i ch =>
    Node (bi_val i) (mkSp (N.of_nat (bi_sl i)) (N.of_nat (bi_sc i)) (N.of_nat (bi_el i)) (N.of_nat (bi_ec i))) (map to_node ch)
  end.
