(* Model/ListMarker.v — src/parser/mod.rs: parse_list_marker(line, pos, interrupts_paragraph) and
   Parser::scan_thematic_break_inner as a function of (line, self.first_nonspace).
   parse_list_marker indexes `line` without any bound test (the parser hands it lines that end with a
   line end character): every `line[..]` is a `Panic` branch here.  s = line[pos..] throughout.
   The digit cap comes from Gen/StrLeafGen.v (`list_digits_cap`). *)
From Coq Require Import List NArith Bool Strings.String.
From V Require Import Base.Bytes Base.Res Gen.StrLeafGen Model.Ast Model.Strings.
Import ListNotations.
Local Open Scope string_scope.
Local Open Scope list_scope.

(* `let mut i = pos; while is_space_or_tab(line[i]) { i += 1 }` then line[i]: the byte the loop stops on *)
Fixpoint after_spaces (s : bytes) : res byte :=
  match s with
  | [] => Panic "parser/mod.rs:parse_list_marker:line[i]"
  | c :: r => if is_space_or_tab c then after_spaces r else Ok c
  end.

(* loop { start = 10 * start + digit; pos += 1; digits += 1; if !(digits < 9 && isdigit(line[pos])) break }
   s = line[pos..] with its head a digit already tested; left = cap - digits.
   Result: (start, digits, line[pos..] after the loop) *)
Fixpoint digits_loop (left : nat) (s : bytes) (start : N) (digits : nat) : res (N * nat * bytes) :=
  match s with
  | [] => Panic "parser/mod.rs:parse_list_marker:line[pos]"
  | d :: r =>
    if (bN d <? 48)%N then Panic "parser/mod.rs:parse_list_marker:line[pos] - b'0'"
    else
      let start' := (10 * start + (bN d - 48))%N in
      match left with
      | O | S O => Ok (start', S digits, r)                (* digits < 9 fails: line[pos] is not read *)
      | S l =>
        match r with
        | [] => Panic "parser/mod.rs:parse_list_marker:line[pos]"
        | e :: _ => if sl_isdigit e then digits_loop l r start' (S digits) else Ok (start', S digits, r)
        end
      end
  end.

Definition bullet_list (c : byte) : node_list := mkList Bullet 0 0 1 Period (bN c) false false.
Definition ordered_list (start : N) (paren : bool) : node_list :=
  mkList Ordered 0 0 start (if paren then Paren else Period) 0 false false.

Definition parse_list_marker (line : bytes) (pos : nat) (interrupts_paragraph : bool)
  : res (option (nat * node_list)) :=
  match skipn pos line with
  | [] => Panic "parser/mod.rs:parse_list_marker:line[pos]"
  | c :: s1 =>
    if beqb c x2a || beqb c x2d || beqb c x2b then
      match s1 with
      | [] => Panic "parser/mod.rs:parse_list_marker:line[pos]"
      | d :: _ =>
        if negb (sl_isspace d) then Ok None
        else
          do stop <- (if interrupts_paragraph
                      then (do e <- after_spaces s1; Ok (beqb e x0a))
                      else Ok false);
          if stop then Ok None else Ok (Some (1, bullet_list c))
      end
    else if sl_isdigit c then
      do t <- digits_loop list_digits_cap (c :: s1) 0%N 0;
      let '(start, digits, s2) := t in
      if interrupts_paragraph && negb (start =? 1)%N then Ok None
      else
        match s2 with
        | [] => Panic "parser/mod.rs:parse_list_marker:line[pos]"
        | c2 :: s3 =>
          if negb (beqb c2 x2e) && negb (beqb c2 x29) then Ok None
          else
            match s3 with
            | [] => Panic "parser/mod.rs:parse_list_marker:line[pos]"
            | d :: _ =>
              if negb (sl_isspace d) then Ok None
              else
                do stop <- (if interrupts_paragraph
                            then (do e <- after_spaces s3; Ok (is_line_end_char e))
                            else Ok false);
                if stop then Ok None
                else Ok (Some (S digits, ordered_list start (beqb c2 x29)))
            end
        end
    else Ok None
  end.

(* scan_thematic_break_inner: the loop after the first marker byte; s = line[i + 1..] *)
Fixpoint thematic_loop (c : byte) (s : bytes) (i count : nat) : nat * nat * option byte :=
  (* (i, count, Some nextc) when it broke on nextc at index i; (len, count, None) when i >= line.len() *)
  match s with
  | [] => (S i, count, None)
  | nextc :: r =>
    if beqb nextc c then thematic_loop c r (S i) (S count)
    else if negb (beqb nextc x20) && negb (beqb nextc x09) then (S i, count, Some nextc)
    else thematic_loop c r (S i) count
  end.

Definition scan_thematic_break_inner (line : bytes) (first_nonspace : nat) : nat * bool :=
  let i := first_nonspace in
  match skipn i line with
  | [] => (i, false)                                       (* i >= line.len() *)
  | c :: r =>
    if negb (beqb c x2a) && negb (beqb c x5f) && negb (beqb c x2d) then (i, false)
    else
      match thematic_loop c r i 1 with
      | (j, _, None) => (j, false)
      | (j, count, Some nextc) =>
        if Nat.leb 3 count && (beqb nextc x0d || beqb nextc x0a) then (j - first_nonspace + 1, true)
        else (j, false)
      end
  end.
