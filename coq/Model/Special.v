(* Model/Special.v — C13: the three 256-entry tables of the inline parser and the scan that uses them.

   Transcribes, from src/parser/inlines.rs:
     Subject::new          — special_chars / skip_chars / smart_chars, built from Gen/Special.v (one entry per
                             assignment statement, guard = disjunction of options)
     find_special_char     — `for n in self.pos..self.input.len()`: stop at a special byte (a caret does not
                             count while within_brackets), or at a smart byte when parse.smart is on
     parse_inline dispatch — which arm of `match c` is taken for a byte (first arm whose pattern contains the
                             byte and whose `if` guard holds)
   No panic site: the loop indexes input[n] with n < input.len() only; pos > len gives an empty range. *)
From Coq Require Import List NArith Bool Strings.String.
From V Require Import Base.Bytes Gen.Special.
Import ListNotations.
Local Open Scope string_scope.
Local Open Scope list_scope.

(* option paths (struct.field) that are on *)
Definition opts := string -> bool.

Definition opts_with (p : string) (v : bool) (o : opts) : opts :=
  fun q => if String.eqb q p then v else o q.

(* several paths at once (the accessor wikilinks() is read under its own name) *)
Fixpoint opts_with_all (ps : list string) (v : bool) (o : opts) : opts :=
  match ps with [] => o | p :: ps' => opts_with p v (opts_with_all ps' v o) end.

Definition guard_on (o : opts) (g : list string) : bool :=
  match g with [] => true | _ => existsb o g end.

(* s.T[b] after Subject::new: some assignment to b whose condition holds *)
Definition table_of (init : list (byte * list string)) (o : opts) (b : byte) : bool :=
  existsb (fun e => beqb (fst e) b && guard_on o (snd e)) init.

Definition special_chars := table_of special_chars_init.
Definition skip_chars := table_of skip_chars_init.
Definition smart_chars := table_of smart_chars_init.

Definition caret : byte := x5e.

(* one iteration of the loop body: does the scan stop at byte c? *)
Definition stops_at (o : opts) (within_brackets : bool) (c : byte) : bool :=
  (special_chars o c && negb (beqb c caret && within_brackets))
  || (o find_special_smart_guard && smart_chars o c).

Fixpoint scan (o : opts) (wb : bool) (l : bytes) (n : N) : N :=
  match l with
  | [] => n
  | c :: r => if stops_at o wb c then n else scan o wb r (N.succ n)
  end.

Definition find_special_char (o : opts) (wb : bool) (input : bytes) (pos : nat) : N :=
  if Nat.leb pos (List.length input) then scan o wb (skipn pos input) (N.of_nat pos)
  else N.of_nat (List.length input).

(* ------------------------------------------------------------------ parse_inline dispatch *)
Fixpoint eval_guard (o : opts) (wb : bool) (g : guard) : bool :=
  match g with
  | GTrue => true
  | GWithinBrackets => wb
  | GOpt p => o p
  | GNot a => negb (eval_guard o wb a)
  | GAnd a b => eval_guard o wb a && eval_guard o wb b
  | GOr a b => eval_guard o wb a || eval_guard o wb b
  end.

Definition arm := (option (list byte) * guard * list string * list string * list string)%type.
Definition arm_pat (a : arm) : option (list byte) := fst (fst (fst (fst a))).
Definition arm_guard (a : arm) : guard := snd (fst (fst (fst a))).
Definition arm_reads (a : arm) : list string := snd (fst (fst a)).

Definition arm_matches (o : opts) (wb : bool) (c : byte) (a : arm) : bool :=
  match arm_pat a with
  | None => true
  | Some bs => mem_byte c bs && eval_guard o wb (arm_guard a)
  end.

(* index of the arm taken (Rust match semantics: first arm that matches) *)
Fixpoint select_from (o : opts) (wb : bool) (c : byte) (l : list arm) (i : nat) : option nat :=
  match l with
  | [] => None
  | a :: r => if arm_matches o wb c a then Some i else select_from o wb c r (S i)
  end.

Definition select_arm (o : opts) (wb : bool) (c : byte) : option nat :=
  select_from o wb c dispatch_arms 0.

(* ------------------------------------------------------------------ the read sites the model was written for.
   Gen/AuditOptions.v lists every read of options.extension.* / options.parse.* in src/parser and src/html.rs;
   Proofs/SpecialProofs.v compares it with this list by reflexivity.  Third component: what covers the site.
     "tables"   Subject::new, covered by special_delta / table_inert
     "scan"     find_special_char, covered by find_special_inert
     "dispatch" parse_inline, covered by dispatch_guard_inert / select_arm_inert
     "search"   not modelled: covered only by the metamorphic search of tools/checks/c13.py
     "off"      under a cargo feature the harness does not enable; "value": not a switch *)
Definition expected_option_reads : list (string * string * string * nat * string) :=
  [("parser/inlines.rs", "new", "extension.autolink", 1, "tables");
   ("parser/inlines.rs", "new", "extension.strikethrough", 1, "tables");
   ("parser/inlines.rs", "new", "extension.subscript", 1, "tables");
   ("parser/inlines.rs", "new", "extension.superscript", 1, "tables");
   ("parser/inlines.rs", "new", "extension.shortcodes [cfg shortcodes]", 1, "off");
   ("parser/inlines.rs", "new", "extension.underline", 1, "tables");
   ("parser/inlines.rs", "new", "extension.spoiler", 1, "tables");
   ("parser/inlines.rs", "parse_inline", "extension.autolink", 2, "dispatch");
   ("parser/inlines.rs", "parse_inline", "extension.shortcodes [cfg shortcodes]", 1, "off");
   ("parser/inlines.rs", "parse_inline", "extension.wikilinks", 1, "dispatch");
   ("parser/inlines.rs", "parse_inline", "extension.strikethrough", 1, "dispatch");
   ("parser/inlines.rs", "parse_inline", "extension.subscript", 1, "dispatch");
   ("parser/inlines.rs", "parse_inline", "extension.superscript", 1, "dispatch");
   ("parser/inlines.rs", "parse_inline", "extension.spoiler", 1, "dispatch");
   ("parser/inlines.rs", "process_emphasis", "extension.strikethrough", 1, "search");
   ("parser/inlines.rs", "process_emphasis", "extension.subscript", 1, "search");
   ("parser/inlines.rs", "process_emphasis", "extension.superscript", 1, "search");
   ("parser/inlines.rs", "process_emphasis", "extension.spoiler", 1, "search");
   ("parser/inlines.rs", "find_special_char", "parse.smart", 1, "scan");
   ("parser/inlines.rs", "scan_to_closing_dollar", "extension.math_dollars", 1, "search");
   ("parser/inlines.rs", "scan_to_closing_code_dollar", "extension.math_code", 1, "search");
   ("parser/inlines.rs", "handle_dollars", "extension.math_dollars", 1, "search");
   ("parser/inlines.rs", "handle_dollars", "extension.math_code", 2, "search");
   ("parser/inlines.rs", "handle_delim", "parse.smart", 3, "search");
   ("parser/inlines.rs", "handle_hyphen", "parse.smart", 2, "search");
   ("parser/inlines.rs", "handle_period", "parse.smart", 1, "search");
   ("parser/inlines.rs", "insert_emph", "extension.strikethrough", 2, "search");
   ("parser/inlines.rs", "insert_emph", "extension.subscript", 2, "search");
   ("parser/inlines.rs", "insert_emph", "extension.superscript", 1, "search");
   ("parser/inlines.rs", "insert_emph", "extension.spoiler", 1, "search");
   ("parser/inlines.rs", "insert_emph", "extension.underline", 1, "search");
   ("parser/inlines.rs", "handle_autolink_with", "parse.relaxed_autolinks", 2, "search");
   ("parser/inlines.rs", "handle_close_bracket", "parse.broken_link_callback", 1, "value");
   ("parser/inlines.rs", "handle_close_bracket", "extension.footnotes", 1, "search");
   ("parser/inlines.rs", "wikilink_url_link_label", "extension.wikilinks", 1, "search");
   ("parser/mod.rs", "feed", "extension.front_matter_delimiter", 1, "search");
   ("parser/mod.rs", "check_open_blocks_inner", "extension.spoiler", 1, "search");
   ("parser/mod.rs", "is_not_greentext", "extension.greentext", 1, "search");
   ("parser/mod.rs", "detect_multiline_blockquote", "extension.multiline_block_quotes", 1, "search");
   ("parser/mod.rs", "detect_footnote", "extension.footnotes", 1, "search");
   ("parser/mod.rs", "detect_description_list", "extension.description_lists", 1, "search");
   ("parser/mod.rs", "detect_alert", "extension.alerts", 1, "search");
   ("parser/mod.rs", "handle_alert", "extension.multiline_block_quotes", 1, "search");
   ("parser/mod.rs", "open_new_blocks", "extension.table", 1, "search");
   ("parser/mod.rs", "add_text_to_container", "extension.greentext", 1, "search");
   ("parser/mod.rs", "finalize_document", "extension.footnotes", 1, "search");
   ("parser/mod.rs", "finalize_borrowed", "parse.default_info_string", 1, "value");
   ("parser/mod.rs", "postprocess_text_node", "extension.tasklist", 1, "search");
   ("parser/mod.rs", "postprocess_text_node", "extension.autolink", 1, "search");
   ("parser/mod.rs", "postprocess_text_node", "parse.relaxed_autolinks", 1, "search");
   ("parser/mod.rs", "process_tasklist", "parse.relaxed_tasklist_matching", 1, "search");
   ("parser/table.rs", "try_opening_header", "extension.spoiler", 1, "search");
   ("parser/table.rs", "try_opening_row", "extension.spoiler", 1, "search");
   ("html.rs", "render_heading", "extension.header_ids", 1, "search");
   ("html.rs", "render_html_block", "extension.tagfilter", 1, "search");
   ("html.rs", "render_html_inline", "extension.tagfilter", 1, "search");
   ("html.rs", "render_image", "extension.image_url_rewriter", 1, "value");
   ("html.rs", "render_link", "parse.relaxed_autolinks", 1, "search");
   ("html.rs", "render_link", "extension.link_url_rewriter", 1, "value")].

(* the functions of inlines.rs that mention one of the three tables: Subject::new (writes), find_special_char
   (modelled), scan_delims (reads skip_chars: flanking computation, not modelled) and the struct declaration *)
Definition expected_table_uses : list (string * string * nat) :=
  [("skip_chars", "?", 1); ("skip_chars", "new", 2); ("skip_chars", "scan_delims", 4);
   ("smart_chars", "?", 1); ("smart_chars", "find_special_char", 1); ("smart_chars", "new", 2);
   ("special_chars", "?", 1); ("special_chars", "find_special_char", 1); ("special_chars", "new", 9)].

(* ------------------------------------------------------------------ entry points of the extracted driver:
   option sets are given as the list of option paths that are on *)
Definition c13_opts_of (on : list bytes) : opts := fun p => existsb (bytes_eqb (B p)) on.

Definition c13_find_special (on : list bytes) (wb : bool) (input : bytes) (pos : N) : N :=
  find_special_char (c13_opts_of on) wb input (N.to_nat pos).

Definition c13_select_arm (on : list bytes) (wb : bool) (c : byte) : option nat :=
  select_arm (c13_opts_of on) wb c.

(* the three tables as 768 flags: special, skip, smart *)
Definition c13_tables (on : list bytes) : list bool :=
  let o := c13_opts_of on in
  map (special_chars o) all_bytes ++ map (skip_chars o) all_bytes ++ map (smart_chars o) all_bytes.
