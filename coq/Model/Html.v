(* Model/Html.v — the HTML renderer (src/html.rs: format_document_with_formatter with
   format_node_default, Context::cr/finish) as a function  tree -> events -> bytes.

   Two levels: `events` produces what the render_* functions write, element by element, in the
   order they write it; `ser` turns events into bytes, resolving `Cr` from the last byte written
   exactly like Context::cr.  The correspondence check compares `ser (events t)` with the real
   output byte for byte, so the factoring is a proof device, not an assumption.

   Written as the Rust is written: one enter and one exit clause per node kind, conditions
   duplicated where the Rust duplicates them.  Panic sites (unwrap, alignments[i], panic!()) are
   explicit.  No proofs here. *)
From Coq Require Import List NArith Bool Strings.String.
From V Require Import Base.Bytes Base.Res Gen.Tables Gen.Ctype Gen.Scanners Model.Escape Model.Tagfilter Model.Ast Spec.EscapeSpec.
Import ListNotations.
Local Open Scope string_scope.
Local Open Scope list_scope.

(* ---- events ---- *)
Inductive part :=
| PEsc (b : bytes)        (* written through escape *)
| PHref (b : bytes)       (* written through escape_href *)
| PConst (b : bytes)      (* written as is: a constant of the renderer, a decimal, an anchor id *)
| PPre (b : bytes).       (* bytes that are already the result of escaping (image alt text) *)

Inductive attr :=
| Attr (name : bytes) (v : list part)
| BAttr (name : bytes)    (* valueless attribute: data-footnotes, data-footnote-ref, ... *)
| SpAttr (sp : sourcepos). (* data-sourcepos="L:C-L:C" (written only when the sourcepos option is on) *)

Inductive ev :=
| Open (tag : bytes) (a : list attr)
| Close (tag : bytes)
| Void (tag : bytes) (a : list attr)   (* <tag ... /> *)
| Txt (b : bytes)                       (* document text, written through escape *)
| Lit (b : bytes)                       (* text written by the renderer itself *)
| RawHtml (b : bytes)                   (* bytes passed through unescaped *)
| Cmt                                   (* the raw-HTML-omitted placeholder *)
| Cr.

(* ---- serialisation ---- *)
Definition ser_sp (sp : sourcepos) : bytes :=
  dec (sl sp) ++ [x3a] ++ dec (sc sp) ++ [x2d] ++ dec (el sp) ++ [x3a] ++ dec (ec sp).

Definition ser_part (p : part) : bytes :=
  match p with
  | PEsc b => escape_spec b
  | PHref b => escape_href_spec b
  | PConst b => b
  | PPre b => b
  end.

Definition sp_name : bytes := Eval compute in B "data-sourcepos".

Definition ser_attr (a : attr) : bytes :=
  match a with
  | Attr n v => [x20] ++ n ++ [x3d; x22] ++ flat_map ser_part v ++ [x22]
  | BAttr n => [x20] ++ n
  | SpAttr sp => [x20] ++ sp_name ++ [x3d; x22] ++ ser_sp sp ++ [x22]
  end.

Definition omitted : bytes := Eval compute in B "<!-- raw HTML omitted -->".

Definition ser_ev (e : ev) : bytes :=
  match e with
  | Open t a => [x3c] ++ t ++ flat_map ser_attr a ++ [x3e]
  | Close t => [x3c; x2f] ++ t ++ [x3e]
  | Void t a => [x3c] ++ t ++ flat_map ser_attr a ++ [x20; x2f; x3e]
  | Txt b => escape_spec b
  | Lit b => b
  | RawHtml b => b
  | Cmt => omitted
  | Cr => []
  end.

Definition ends_lf (prev : bool) (b : bytes) : bool :=
  match b with [] => prev | _ => beqb (last b x00) x0a end.

(* chunks in order; `last_lf` mirrors Context.last_was_lf (initially true) *)
Fixpoint ser_chunks (last_lf : bool) (evs : list ev) : list bytes :=
  match evs with
  | [] => []
  | Cr :: r => if last_lf then ser_chunks last_lf r else [x0a] :: ser_chunks true r
  | e :: r => let c := ser_ev e in c :: ser_chunks (ends_lf last_lf c) r
  end.

Definition ser (evs : list ev) : bytes := List.concat (ser_chunks true evs).

(* ---- renderer state and context ---- *)
Record hst := mkHst { fn_ix : N; wfn_ix : N; issued : list bytes }.

Record ctx := mkCtx {
  c_parent : option node_value;
  c_gparent : option node_value;
  c_prev : option node_value;     (* value of the previous sibling *)
  c_index : nat;                  (* position among the parent's children *)
  c_has_next : bool }.

Definition root_ctx : ctx := mkCtx None None None 0 false.

Definition sp_attr (o : opts) (sp : sourcepos) : list attr :=
  if o_sourcepos o then
    if (0 <? sl sp)%N then [SpAttr sp] else []
  else [].

(* sourcepos pushed into an attribute vector without the start.line > 0 test (math, math code block) *)
Definition sp_attr_nocheck (o : opts) (sp : sourcepos) : list attr :=
  if o_sourcepos o then [SpAttr sp] else [].

Definition is_link (v : option node_value) : bool :=
  match v with Some (Link _ _) => true | _ => false end.
Definition is_strong (v : option node_value) : bool :=
  match v with Some Strong => true | _ => false end.

(* Model of scanners::dangerous_url through html::dangerous_url *)
Definition dangerous (url : bytes) : bool := dangerous_url url.

(* url attribute value of link / image / wikilink: empty when dangerous and not unsafe *)
Definition url_parts (o : opts) (url : bytes) : list part :=
  if o_unsafe o || negb (dangerous url) then [PHref url] else [].

(* plain-mode rendering of a subtree (image alt): bytes already escaped *)
Fixpoint plain (n : node) : bytes :=
  match n with
  | Node v _ ch =>
    (match v with
     | Text l => escape_spec l
     | Code _ l => escape_spec l
     | HtmlInline l => escape_spec l
     | LineBreak => [x20]
     | SoftBreak => [x20]
     | Math _ _ l => escape_spec l
     | _ => []
     end) ++ flat_map plain ch
  end.

(* html::collect_text *)
Fixpoint collect_text (n : node) : bytes :=
  match n with
  | Node v _ ch =>
    match v with
    | Text l => l
    | Code _ l => l
    | LineBreak => [x20]
    | SoftBreak => [x20]
    | Math _ _ l => l
    | _ => flat_map collect_text ch
    end
  end.

(* Anchorizer::h_anchorize after the slug stage; fuel |issued|+1 suffices (Proofs) *)
Fixpoint h_uniq_loop (fuel : nat) (iss : list bytes) (id : bytes) (k : N) : res bytes :=
  match fuel with
  | O => OutOfFuel
  | S f =>
    let cand := if (k =? 0)%N then id else id ++ [x2d] ++ dec k in
    if existsb (bytes_eqb cand) iss then h_uniq_loop f iss id (k + 1)%N else Ok cand
  end.

Definition h_anchorize (slug : bytes -> bytes) (iss : list bytes) (header : bytes) : res (list bytes * bytes) :=
  do a <- h_uniq_loop (S (List.length iss)) iss (slug header) 0%N;
  Ok (a :: iss, a).

(* put_footnote_backref: returns events, new state, and whether anything was written *)
Fixpoint backref_loop (name : bytes) (fnix : N) (total : nat) (k : nat) : list ev :=
  (* k runs 1..total; written for ref_num = k *)
  match total with
  | O => []
  | S t =>
    let n := N.of_nat k in
    let suffix := if (1 <? n)%N then [x2d] ++ dec n else [] in
    (if (1 <? n)%N then [Lit [x20]] else []) ++
    [Open (B "a") [Attr (B "href") [PConst (B "#fnref-"); PHref name; PConst suffix];
                   Attr (B "class") [PConst (B "footnote-backref")];
                   BAttr (B "data-footnote-backref");
                   Attr (B "data-footnote-backref-idx") [PConst (dec fnix ++ suffix)];
                   Attr (B "aria-label") [PConst (B "Back to reference " ++ dec fnix ++ suffix)]];
     Lit [xe2; x86; xa9]] ++
    (if (1 <? n)%N then [Open (B "sup") [Attr (B "class") [PConst (B "footnote-ref")]]; Lit (dec n); Close (B "sup")] else []) ++
    [Close (B "a")] ++ backref_loop name fnix t (S k)
  end.

Definition put_footnote_backref (name : bytes) (total : N) (st : hst) : list ev * hst * bool :=
  if (fn_ix st <=? wfn_ix st)%N then ([], st, false)
  else
    let st' := mkHst (fn_ix st) (fn_ix st) (issued st) in
    (backref_loop name (fn_ix st) (N.to_nat total) 1, st', true).

Inductive mode := MHtml | MPlain.

Definition align_attr (a : align) : list attr :=
  match a with
  | ALeft => [Attr (B "align") [PConst (B "left")]]
  | ARight => [Attr (B "align") [PConst (B "right")]]
  | ACenter => [Attr (B "align") [PConst (B "center")]]
  | ANone => []
  end.

Definition alert_css (t : alert_type) : bytes :=
  match t with
  | Note => B "markdown-alert-note" | Tip => B "markdown-alert-tip"
  | Important => B "markdown-alert-important" | Warning => B "markdown-alert-warning"
  | Caution => B "markdown-alert-caution"
  end.
Definition alert_title (t : alert_type) : bytes :=
  match t with
  | Note => B "Note" | Tip => B "Tip" | Important => B "Important"
  | Warning => B "Warning" | Caution => B "Caution"
  end.

Definition heading_tag (level : N) : bytes := [x68] ++ dec level.

(* first word of the info string / rest, as render_code_block computes them *)
Fixpoint split_info (info : bytes) : bytes * bytes :=
  match info with
  | [] => ([], [])
  | b :: r => if isspace b then ([], info) else let (a, t) := split_info r in (b :: a, t)
  end.

(* str::trim on the remainder: Rust trims Unicode White_Space; in UTF-8 these are the six ASCII
   bytes 09-0d 20 and the sequences c2 85, c2 a0, e1 9a 80, e2 80 80..8a, e2 80 a8, e2 80 a9,
   e2 80 af, e2 81 9f, e3 80 80 *)
Definition is_trim_ws (b : byte) : bool :=
  beqb b x20 || beqb b x09 || beqb b x0a || beqb b x0b || beqb b x0c || beqb b x0d.

Definition ws3 (b0 b1 b2 : byte) : bool :=
  (beqb b0 xe1 && beqb b1 x9a && beqb b2 x80) ||
  (beqb b0 xe2 && beqb b1 x80 && (in_range 128 138 b2 || beqb b2 xa8 || beqb b2 xa9 || beqb b2 xaf)) ||
  (beqb b0 xe2 && beqb b1 x81 && beqb b2 x9f) ||
  (beqb b0 xe3 && beqb b1 x80 && beqb b2 x80).
Definition ws2 (b0 b1 : byte) : bool := beqb b0 xc2 && (beqb b1 x85 || beqb b1 xa0).

(* number of bytes of a white-space character at the head of s (0 = none) *)
Definition ws_len (s : bytes) : nat :=
  match s with
  | [] => 0
  | b0 :: r0 =>
    if is_trim_ws b0 then 1
    else match r0 with
         | [] => 0
         | b1 :: r1 =>
           if ws2 b0 b1 then 2
           else match r1 with
                | [] => 0
                | b2 :: _ => if ws3 b0 b1 b2 then 3 else 0
                end
         end
  end.
(* the same at the head of a REVERSED string *)
Definition ws_len_rev (s : bytes) : nat :=
  match s with
  | [] => 0
  | b0 :: r0 =>
    if is_trim_ws b0 then 1
    else match r0 with
         | [] => 0
         | b1 :: r1 =>
           if ws2 b1 b0 then 2
           else match r1 with
                | [] => 0
                | b2 :: _ => if ws3 b2 b1 b0 then 3 else 0
                end
         end
  end.
Fixpoint trim_with (len : bytes -> nat) (fuel : nat) (s : bytes) : bytes :=
  match fuel with
  | O => s
  | S f => match len s with O => s | n => trim_with len f (skipn n s) end
  end.
Definition trim_ws (s : bytes) : bytes :=
  let l := trim_with ws_len (List.length s) s in
  rev (trim_with ws_len_rev (List.length l) (rev l)).

Definition sort_attrs3 (a : list (bytes * attr)) : list attr :=
  (* attributes sorted by name; the names that can occur are known and few, so insertion sort by
     a fixed rank is exact: class < data-meta < data-sourcepos < lang *)
  let rank (n : bytes) : N :=
    (if bytes_eqb n (B "class") then 0 else if bytes_eqb n (B "data-meta") then 1
     else if bytes_eqb n (B "data-sourcepos") then 2 else 3)%N in
  let fix ins (x : bytes * attr) (l : list (bytes * attr)) :=
    match l with
    | [] => [x]
    | y :: r => if (rank (fst x) <=? rank (fst y))%N then x :: l else y :: ins x r
    end in
  map snd (fold_right ins [] a).

(* ---- enter ---- *)
Definition enter (slug : bytes -> bytes) (o : opts) (c : ctx) (n : node) (st : hst)
  : res (list ev * hst * mode) :=
  match n with
  | Node v sp ch =>
  let sa := sp_attr o sp in
  match v with
  | Document => Ok ([], st, MHtml)
  | FrontMatter _ => Ok ([], st, MHtml)
  | BlockQuote => Ok ([Cr; Open (B "blockquote") sa; Lit [x0a]], st, MHtml)
  | MultilineBlockQuote _ _ => Ok ([Cr; Open (B "blockquote") sa; Lit [x0a]], st, MHtml)
  | Code _ l => Ok ([Open (B "code") sa; Txt l; Close (B "code")], st, MHtml)
  | CodeBlock cb =>
    if bytes_eqb (cb_info cb) (B "math") then
      let pre := (if o_github_pre_lang o
                  then [Attr (B "lang") [PEsc (B "math")]; Attr (B "data-math-style") [PEsc (B "display")]]
                  else []) ++
                 (if o_sourcepos o then [SpAttr sp] else []) in
      let code := if o_github_pre_lang o then []
                  else [Attr (B "class") [PEsc (B "language-math")]; Attr (B "data-math-style") [PEsc (B "display")]] in
      Ok ([Cr; Open (B "pre") pre; Open (B "code") code; Txt (cb_literal cb); Close (B "code"); Close (B "pre"); Lit [x0a]], st, MHtml)
    else
      let info := cb_info cb in
      let (lang, rest) := split_info info in
      let meta := trim_ws rest in
      let has_info := negb (match info with [] => true | _ => false end) in
      let has_meta := o_full_info_string o && negb (match meta with [] => true | _ => false end) in
      let pre0 :=
        (if has_info && o_github_pre_lang o then
           [(B "lang", Attr (B "lang") [PEsc lang])] ++
           (if has_meta then [(B "data-meta", Attr (B "data-meta") [PEsc meta])] else [])
         else []) ++
        (if o_sourcepos o then [(B "data-sourcepos", SpAttr sp)] else []) in
      let code0 :=
        if has_info && negb (o_github_pre_lang o) then
          [(B "class", Attr (B "class") [PEsc (B "language-" ++ lang)])] ++
          (if has_meta then [(B "data-meta", Attr (B "data-meta") [PEsc meta])] else [])
        else [] in
      Ok ([Cr; Open (B "pre") (sort_attrs3 pre0); Open (B "code") (sort_attrs3 code0);
           Txt (cb_literal cb); Close (B "code"); Close (B "pre"); Lit [x0a]], st, MHtml)
  | Emph => Ok ([Open (B "em") sa], st, MHtml)
  | Heading level _ =>
    match o_header_ids o with
    | None => Ok ([Cr; Open (heading_tag level) sa], st, MHtml)
    | Some prefix =>
      do r <- h_anchorize slug (issued st) (collect_text n);
      let (iss', id) := r in
      Ok ([Cr; Open (heading_tag level) sa;
           Open (B "a") [Attr (B "href") [PConst ([x23] ++ id)]; Attr (B "aria-hidden") [PConst (B "true")];
                         Attr (B "class") [PConst (B "anchor")]; Attr (B "id") [PEsc prefix; PConst id]];
           Close (B "a")], mkHst (fn_ix st) (wfn_ix st) iss', MHtml)
    end
  | HtmlBlock _ l =>
    if o_escape o then Ok ([Cr; Txt l; Cr], st, MHtml)
    else if negb (o_unsafe o) then Ok ([Cr; Cmt; Cr], st, MHtml)
    else if o_tagfilter o then
      do f <- tagfilter_block l;
      Ok ([Cr; RawHtml f; Cr], st, MHtml)
    else Ok ([Cr; RawHtml l; Cr], st, MHtml)
  | HtmlInline l =>
    if o_escape o then Ok ([Txt l], st, MHtml)
    else if negb (o_unsafe o) then Ok ([Cmt], st, MHtml)
    else if o_tagfilter o then
      do t <- tagfilter l;
      if t then Ok ([RawHtml (B "&lt;" ++ tl l)], st, MHtml) else Ok ([RawHtml l], st, MHtml)
    else Ok ([RawHtml l], st, MHtml)
  | Image url title =>
    (* everything is written on exit in the model: the bytes between enter and exit are the
       plain-mode rendering of the children, which changes no state *)
    Ok ([], st, MPlain)
  | Item _ => Ok ([Cr; Open (B "li") sa], st, MHtml)
  | LineBreak => Ok ([Void (B "br") sa; Lit [x0a]], st, MHtml)
  | Link url title =>
    if negb (o_relaxed_autolinks o) || negb (is_link (c_parent c)) then
      Ok ([Open (B "a") (sa ++ [Attr (B "href") (url_parts o url)] ++
                         (match title with [] => [] | _ => [Attr (B "title") [PEsc title]] end))], st, MHtml)
    else Ok ([], st, MHtml)
  | NList l =>
    let cls := if l_task l && o_tasklist_classes o then [Attr (B "class") [PConst (B "contains-task-list")]] else [] in
    match l_type l with
    | Bullet => Ok ([Cr; Open (B "ul") (cls ++ sa); Lit [x0a]], st, MHtml)
    | Ordered =>
      Ok ([Cr; Open (B "ol") (cls ++ sa ++ (if (l_start l =? 1)%N then [] else [Attr (B "start") [PConst (dec (l_start l))]]));
           Lit [x0a]], st, MHtml)
    end
  | Paragraph =>
    let tight :=
      (match c_gparent c with
       | Some (NList l) => l_tight l
       | Some (DescriptionItem _ _ t) => t
       | _ => false
       end) || (match c_parent c with Some DescriptionTerm => true | _ => false end) in
    if tight then Ok ([], st, MHtml) else Ok ([Cr; Open (B "p") sa], st, MHtml)
  | SoftBreak =>
    if o_hardbreaks o then Ok ([Void (B "br") sa; Lit [x0a]], st, MHtml) else Ok ([Lit [x0a]], st, MHtml)
  | Strong =>
    if negb (o_gfm_quirks o) || negb (is_strong (c_parent c)) then Ok ([Open (B "strong") sa], st, MHtml)
    else Ok ([], st, MHtml)
  | Text l => Ok ([Txt l], st, MHtml)
  | ThematicBreak => Ok ([Cr; Void (B "hr") sa; Lit [x0a]], st, MHtml)
  | FootnoteDefinition name total =>
    let sec := if (fn_ix st =? 0)%N
               then [Open (B "section") (sa ++ [Attr (B "class") [PConst (B "footnotes")]; BAttr (B "data-footnotes")]);
                     Lit [x0a]; Open (B "ol") []; Lit [x0a]]
               else [] in
    Ok (sec ++ [Open (B "li") (sa ++ [Attr (B "id") [PConst (B "fn-"); PHref name]])],
        mkHst (fn_ix st + 1)%N (wfn_ix st) (issued st), MHtml)
  | FootnoteReference name ref_num ix =>
    let ref_id := B "fnref-" ++ name ++ (if (1 <? ref_num)%N then [x2d] ++ dec ref_num else []) in
    Ok ([Open (B "sup") (sa ++ [Attr (B "class") [PConst (B "footnote-ref")]]);
         Open (B "a") [Attr (B "href") [PConst (B "#fn-"); PHref name]; Attr (B "id") [PHref ref_id]; BAttr (B "data-footnote-ref")];
         Lit (dec ix); Close (B "a"); Close (B "sup")], st, MHtml)
  | Strikethrough => Ok ([Open (B "del") sa], st, MHtml)
  | Table _ => Ok ([Cr; Open (B "table") sa; Lit [x0a]], st, MHtml)
  | TableCell =>
    match c_parent c with
    | Some (TableRow in_header) =>
      match c_gparent c with
      | Some (Table t) =>
        match nth_error (t_aligns t) (c_index c) with
        | Some al => Ok ([Cr; Open (if in_header then B "th" else B "td") (sa ++ align_attr al)], st, MHtml)
        | None => Panic "html.rs:render_table_cell:alignments[i]"
        end
      | Some _ => Panic "html.rs:render_table_cell:panic!() (grandparent is not a table)"
      | None => Panic "html.rs:render_table_cell:parent().unwrap() (no grandparent)"
      end
    | Some _ => Panic "html.rs:render_table_cell:panic!() (parent is not a row)"
    | None => Panic "html.rs:render_table_cell:parent().unwrap()"
    end
  | TableRow header =>
    let open_section :=
      if header then [Open (B "thead") []; Lit [x0a]]
      else match c_prev c with
           | Some (TableRow true) => [Open (B "tbody") []; Lit [x0a]]
           | _ => []
           end in
    Ok ([Cr] ++ open_section ++ [Open (B "tr") sa], st, MHtml)
  | TaskItem symbol =>
    Ok ([Cr; Open (B "li") ((if o_tasklist_classes o then [Attr (B "class") [PConst (B "task-list-item")]] else []) ++ sa);
         Void (B "input") ([Attr (B "type") [PConst (B "checkbox")]] ++
                           (if o_tasklist_classes o then [Attr (B "class") [PConst (B "task-list-item-checkbox")]] else []) ++
                           (match symbol with Some _ => [Attr (B "checked") []] | None => [] end) ++
                           [Attr (B "disabled") []]);
         Lit [x20]], st, MHtml)
  | Alert a =>
    Ok ([Cr; Open (B "div") ([Attr (B "class") [PConst (B "markdown-alert " ++ alert_css (a_type a))]] ++ sa); Lit [x0a];
         Open (B "p") [Attr (B "class") [PConst (B "markdown-alert-title")]];
         (match a_title a with Some t => Txt t | None => Lit (alert_title (a_type a)) end);
         Close (B "p"); Lit [x0a]], st, MHtml)
  | DescriptionDetails => Ok ([Open (B "dd") sa], st, MHtml)
  | DescriptionItem _ _ _ => Ok ([], st, MHtml)
  | DescriptionList => Ok ([Cr; Open (B "dl") sa; Lit [x0a]], st, MHtml)
  | DescriptionTerm => Ok ([Open (B "dt") sa], st, MHtml)
  | Escaped =>
    if o_escaped_char_spans o then Ok ([Open (B "span") ([BAttr (B "data-escaped-char")] ++ sa)], st, MHtml)
    else Ok ([], st, MHtml)
  | EscapedTag l => Ok ([RawHtml l], st, MHtml)
  | Math dollar display l =>
    let tag := if dollar then B "span" else B "code" in
    Ok ([Open tag ([Attr (B "data-math-style") [PEsc (if display then B "display" else B "inline")]] ++
                   (if o_sourcepos o then [SpAttr sp] else []));
         Txt l; Close tag], st, MHtml)
  | Raw l => Ok ([RawHtml l], st, MHtml)
  | SpoileredText => Ok ([Open (B "span") (sa ++ [Attr (B "class") [PConst (B "spoiler")]])], st, MHtml)
  | Subscript => Ok ([Open (B "sub") sa], st, MHtml)
  | Superscript => Ok ([Open (B "sup") sa], st, MHtml)
  | Underline => Ok ([Open (B "u") sa], st, MHtml)
  | WikiLink url =>
    Ok ([Open (B "a") (sa ++ [Attr (B "href") (url_parts o url); Attr (B "data-wikilink") [PConst (B "true")]])], st, MHtml)
  end
  end.

(* ---- exit ---- *)
Definition exit_ (o : opts) (c : ctx) (n : node) (st : hst) : res (list ev * hst) :=
  match n with
  | Node v sp ch =>
  let sa := sp_attr o sp in
  match v with
  | Document => Ok ([], st)
  | FrontMatter _ => Ok ([], st)
  | BlockQuote => Ok ([Cr; Close (B "blockquote"); Lit [x0a]], st)
  | MultilineBlockQuote _ _ => Ok ([Cr; Close (B "blockquote"); Lit [x0a]], st)
  | Code _ _ => Ok ([], st)
  | CodeBlock _ => Ok ([], st)
  | Emph => Ok ([Close (B "em")], st)
  | Heading level _ => Ok ([Close (heading_tag level); Lit [x0a]], st)
  | HtmlBlock _ _ => Ok ([], st)
  | HtmlInline _ => Ok ([], st)
  | Image url title =>
    let fig := o_figure_with_caption o in
    let has_title := negb (match title with [] => true | _ => false end) in
    Ok ((if fig then [Open (B "figure") []] else []) ++
        [Void (B "img") (sa ++ [Attr (B "src") (url_parts o url); Attr (B "alt") [PPre (flat_map plain ch)]] ++
                         (if has_title then [Attr (B "title") [PEsc title]] else []))] ++
        (if fig then
           (if has_title then [Open (B "figcaption") []; Txt title; Close (B "figcaption")] else []) ++
           [Close (B "figure")]
         else []), st)
  | Item _ => Ok ([Close (B "li"); Lit [x0a]], st)
  | LineBreak => Ok ([], st)
  | Link _ _ =>
    if negb (o_relaxed_autolinks o) || negb (is_link (c_parent c)) then Ok ([Close (B "a")], st) else Ok ([], st)
  | NList l =>
    match l_type l with
    | Bullet => Ok ([Close (B "ul"); Lit [x0a]], st)
    | Ordered => Ok ([Close (B "ol"); Lit [x0a]], st)
    end
  | Paragraph =>
    let tight :=
      (match c_gparent c with
       | Some (NList l) => l_tight l
       | Some (DescriptionItem _ _ t) => t
       | _ => false
       end) || (match c_parent c with Some DescriptionTerm => true | _ => false end) in
    if tight then Ok ([], st)
    else
      match c_parent c with
      | None => Panic "html.rs:render_paragraph:parent().unwrap()"
      | Some (FootnoteDefinition name total) =>
        if c_has_next c then Ok ([Close (B "p"); Lit [x0a]], st)
        else
          let '(evs, st', _) := put_footnote_backref name total st in
          Ok ([Lit [x20]] ++ evs ++ [Close (B "p"); Lit [x0a]], st')
      | Some _ => Ok ([Close (B "p"); Lit [x0a]], st)
      end
  | SoftBreak => Ok ([], st)
  | Strong =>
    if negb (o_gfm_quirks o) || negb (is_strong (c_parent c)) then Ok ([Close (B "strong")], st) else Ok ([], st)
  | Text _ => Ok ([], st)
  | ThematicBreak => Ok ([], st)
  | FootnoteDefinition name total =>
    let '(evs, st', wrote) := put_footnote_backref name total st in
    Ok (evs ++ (if wrote then [Lit [x0a]] else []) ++ [Close (B "li"); Lit [x0a]], st')
  | FootnoteReference _ _ _ => Ok ([], st)
  | Strikethrough => Ok ([Close (B "del")], st)
  | Table _ =>
    match ch with
    | [] => Panic "html.rs:render_table:last_child().unwrap()"
    | [_] => Ok ([Cr; Close (B "table"); Lit [x0a]], st)
    | _ => Ok ([Cr; Close (B "tbody"); Lit [x0a]; Cr; Close (B "table"); Lit [x0a]], st)
    end
  | TableCell =>
    match c_parent c with
    | Some (TableRow in_header) =>
      match c_gparent c with
      | Some (Table _) => Ok ([Close (if in_header then B "th" else B "td")], st)
      | Some _ => Panic "html.rs:render_table_cell:panic!() (grandparent is not a table)"
      | None => Panic "html.rs:render_table_cell:parent().unwrap() (no grandparent)"
      end
    | Some _ => Panic "html.rs:render_table_cell:panic!() (parent is not a row)"
    | None => Panic "html.rs:render_table_cell:parent().unwrap()"
    end
  | TableRow header =>
    Ok ([Cr; Close (B "tr")] ++ (if header then [Cr; Close (B "thead")] else []), st)
  | TaskItem _ => Ok ([Close (B "li"); Lit [x0a]], st)
  | Alert _ => Ok ([Cr; Close (B "div"); Lit [x0a]], st)
  | DescriptionDetails => Ok ([Close (B "dd"); Lit [x0a]], st)
  | DescriptionItem _ _ _ => Ok ([], st)
  | DescriptionList => Ok ([Close (B "dl"); Lit [x0a]], st)
  | DescriptionTerm => Ok ([Close (B "dt"); Lit [x0a]], st)
  | Escaped => if o_escaped_char_spans o then Ok ([Close (B "span")], st) else Ok ([], st)
  | EscapedTag l => Ok ([RawHtml l], st)
  | Math _ _ _ => Ok ([], st)
  | Raw _ => Ok ([], st)
  | SpoileredText => Ok ([Close (B "span")], st)
  | Subscript => Ok ([Close (B "sub")], st)
  | Superscript => Ok ([Close (B "sup")], st)
  | Underline => Ok ([Close (B "u")], st)
  | WikiLink _ => Ok ([Close (B "a")], st)
  end
  end.

(* ---- traversal ---- *)
Section Render.
  Variable slug : bytes -> bytes.
  Variable o : opts.

  Fixpoint render (c : ctx) (n : node) (st : hst) {struct n} : res (list ev * hst) :=
    match n with
    | Node v sp ch =>
      do r1 <- enter slug o c n st;
      let '(e1, st1, m) := r1 in
      do r2 <-
        (match m with
         | MPlain => Ok ([], st1)
         | MHtml =>
           (fix go (l : list node) (i : nat) (prev : option node_value) (s : hst) {struct l}
              : res (list ev * hst) :=
              match l with
              | [] => Ok ([], s)
              | x :: r =>
                do rx <- render (mkCtx (Some v) (c_parent c) prev i (negb (match r with [] => true | _ => false end))) x s;
                let (ex, sx) := rx in
                do rr <- go r (S i) (Some (nval x)) sx;
                let (er, sr) := rr in
                Ok (ex ++ er, sr)
              end) ch 0 None st1
         end);
      let (e2, st2) := r2 in
      do r3 <- exit_ o c n st2;
      let (e3, st3) := r3 in
      Ok (e1 ++ e2 ++ e3, st3)
    end.

  (* the children loop, stand-alone (same text as the local fix above; Proofs show they agree) *)
  Fixpoint render_list (v : node_value) (pv : option node_value) (l : list node) (i : nat)
           (prev : option node_value) (s : hst) {struct l} : res (list ev * hst) :=
    match l with
    | [] => Ok ([], s)
    | x :: r =>
      do rx <- render (mkCtx (Some v) pv prev i (negb (match r with [] => true | _ => false end))) x s;
      let (ex, sx) := rx in
      do rr <- render_list v pv r (S i) (Some (nval x)) sx;
      let (er, sr) := rr in
      Ok (ex ++ er, sr)
    end.

  Definition finish (st : hst) : list ev :=
    if (0 <? fn_ix st)%N then [Close (B "ol"); Lit [x0a]; Close (B "section"); Lit [x0a]] else [].

  Definition events (t : node) : res (list ev) :=
    do r <- render root_ctx t (mkHst 0 0 []);
    let (e, st) := r in
    Ok (e ++ finish st).

  Definition html (t : node) : res bytes :=
    do e <- events t; Ok (ser e).
End Render.
