(* Model/Escape.v — html::escape, html::escape_href, html::write_opening_tag.
   Loop-faithful: `escape` keeps the pending slice buffer[offset..i]; `escape_href`
   has the inner safe-run scan.  Tables and match arms come from Gen/Tables.v. *)
From Coq Require Import List NArith Bool Strings.String.
From V Require Import Base.Bytes Base.Res Gen.Tables.
Import ListNotations.
Local Open Scope string_scope.
Local Open Scope list_scope.

(* pending = buffer[offset..i] (in order), out = bytes written so far *)
Fixpoint escape_loop (out pending s : bytes) : res bytes :=
  match s with
  | [] => Ok (out ++ pending)                       (* write_all(&buffer[offset..]) *)
  | b :: s' =>
    if html_unsafe b then
      match escape_arm b with
      | Some esc => escape_loop (out ++ pending ++ esc) [] s'
      | None => Panic "html.rs:escape:unreachable"
      end
    else escape_loop out (pending ++ [b]) s'
  end.

Definition escape (s : bytes) : res bytes := escape_loop [] [] s.

Definition pct_encode (f : pct_format) (b : byte) : bytes :=
  let hi := (bN b / 16)%N in
  let lo := (bN b mod 16)%N in
  let lower (d : byte) := if in_range 65 70 d then byte_of_N (bN d + 32) else d in
  match f with
  | HexUpper2 => x25 :: hex2 b
  | HexLower2 => x25 :: map lower (hex2 b)
  | HexUpper => if (hi =? 0)%N then [x25; hex_digit lo] else x25 :: hex2 b
  | HexUpperPad => if (hi =? 0)%N then [x25; x20; hex_digit lo] else x25 :: hex2 b
  end.

Definition href_unsafe_out (b : byte) : bytes :=
  match href_arm b with
  | Some e => e
  | None => pct_encode href_default_format b
  end.

(* inner `while i < size && HREF_SAFE[buffer[i]]`: returns (run, rest) *)
Fixpoint safe_run (s : bytes) : bytes * bytes :=
  match s with
  | b :: s' => if href_safe b then let (r, t) := safe_run s' in (b :: r, t) else ([], s)
  | [] => ([], [])
  end.

(* outer loop on fuel: each iteration consumes at least one byte unless it breaks *)
Fixpoint href_loop (fuel : nat) (out s : bytes) : res bytes :=
  match fuel with
  | O => OutOfFuel
  | S f =>
    match s with
    | [] => Ok out                                   (* while i < size fails *)
    | _ =>
      let (run, rest) := safe_run s in
      let out1 := out ++ run in                      (* if i > org then write; an empty write is the same *)
      match rest with
      | [] => Ok out1                                (* if i >= size { break } *)
      | b :: rest' => href_loop f (out1 ++ href_unsafe_out b) rest'
      end
    end
  end.

Definition escape_href (s : bytes) : res bytes := href_loop (S (List.length s)) [] s.

(* write_opening_tag: LT tag, then for each (attr,val): SP attr EQ QUOTE escape(val) QUOTE, then GT *)
Fixpoint write_attrs (out : bytes) (attrs : list (bytes * bytes)) : res bytes :=
  match attrs with
  | [] => Ok out
  | (a, v) :: rest =>
    do ev <- escape v;
    write_attrs (out ++ [x20] ++ a ++ [x3d; x22] ++ ev ++ [x22]) rest
  end.

Definition write_opening_tag (tag : bytes) (attrs : list (bytes * bytes)) : res bytes :=
  do o <- write_attrs ([x3c] ++ tag) attrs;
  Ok (o ++ [x3e]).
