(* Model/Tagfilter.v — html::tagfilter, html::tagfilter_block and the option cascade of
   render_html_block / render_html_inline, written as the Rust is.  Every index or slice that
   Rust bounds-checks is an explicit Panic branch (whether or not it can be reached is a theorem,
   not a modelling decision).  The blacklist and the byte set that ends a tag name (the `matches!`
   pattern of the return expression) come from Gen/Tagfilter.v; the bodies are pinned by the translator
   item `tagfilter`. *)
From Coq Require Import List NArith Bool Strings.String.
From V Require Import Base.Bytes Base.Res Gen.Tagfilter Model.Escape.
Import ListNotations.
Local Open Scope string_scope.
Local Open Scope list_scope.

(* literal[i] *)
Definition idx (site : string) (l : bytes) (i : nat) : res byte :=
  match nth_error l i with Some b => Ok b | None => Panic site end.

(* &l[i..] *)
Definition slice_from (site : string) (l : bytes) (i : nat) : res bytes :=
  if Nat.leb i (List.length l) then Ok (skipn i l) else Panic site.

(* &l[..n] *)
Definition slice_to (site : string) (l : bytes) (n : nat) : res bytes :=
  if Nat.leb n (List.length l) then Ok (firstn n l) else Panic site.

(* u8::eq_ignore_ascii_case: a.to_ascii_lowercase() == b.to_ascii_lowercase() *)
Definition byte_eq_ignore_ascii_case (a b : byte) : bool := beqb (to_lower_ascii a) (to_lower_ascii b).

(* <[u8]>::eq_ignore_ascii_case: same length and all pairs equal ignoring ASCII case *)
Fixpoint eq_ignore_ascii_case (a b : bytes) : bool :=
  match a, b with
  | [], [] => true
  | x :: a', y :: b' => byte_eq_ignore_ascii_case x y && eq_ignore_ascii_case a' b'
  | _, _ => false
  end.

(* matches!(literal[j], b' ' | b'\t' | b'\n' | 0x0b | 0x0c | b'\r'): the alternatives of the pattern are
   regenerated as Gen.Tagfilter.tagfilter_name_end_ws *)
Definition tf_space (c : byte) : bool := existsb (beqb c) tagfilter_name_end_ws.

(* the `return` expression once a name matched:
   matches!(literal[j], ..) || literal[j] == b'>' || (literal[j] == b'/' && literal.len() >= j + 2 && literal[j + 1] == b'>')
   with short-circuit evaluation, every indexing checked *)
Definition tf_terminator (literal : bytes) (j : nat) : res bool :=
  do c <- idx "html.rs:tagfilter:literal[j]" literal j;
  if tf_space c then Ok true
  else if beqb c x3e then Ok true
  else if beqb c x2f then
    if Nat.leb (j + 2) (List.length literal) then
      do d <- idx "html.rs:tagfilter:literal[j+1]" literal (j + 1);
      Ok (beqb d x3e)
    else Ok false
  else Ok false.

(* for t in TAGFILTER_BLACKLIST.iter() { if rest.len() > t.len() && rest[..t.len()].eq_ignore_ascii_case(t) { return .. } } false *)
Fixpoint tf_names (literal rest : bytes) (i : nat) (names : list bytes) : res bool :=
  match names with
  | [] => Ok false
  | t :: names' =>
    if Nat.ltb (List.length t) (List.length rest) then
      do pre <- slice_to "html.rs:tagfilter:rest[..t.len()]" rest (List.length t);
      if eq_ignore_ascii_case pre t then tf_terminator literal (i + List.length t)
      else tf_names literal rest i names'
    else tf_names literal rest i names'
  end.

Definition tagfilter (literal : bytes) : res bool :=
  if Nat.ltb (List.length literal) 3 then Ok false
  else
    do c0 <- idx "html.rs:tagfilter:literal[0]" literal 0;
    if negb (beqb c0 x3c) then Ok false
    else
      do c1 <- idx "html.rs:tagfilter:literal[i]" literal 1;
      let i := if beqb c1 x2f then 2 else 1 in
      do rest <- slice_from "html.rs:tagfilter:literal[i..]" literal i;
      tf_names literal rest i tagfilter_blacklist.

(* ---- tagfilter_block ---- *)
Definition tf_lt : bytes := [x26; x6c; x74; x3b].   (* b"&lt;" *)

(* inner `while i < size && input[i] != b'<' { i += 1 }` on the suffix input[org..]:
   returns (input[org..i], input[i..]) *)
Fixpoint scan_to_lt (s : bytes) : bytes * bytes :=
  match s with
  | b :: s' => if negb (beqb b x3c) then let (r, t) := scan_to_lt s' in (b :: r, t) else ([], s)
  | [] => ([], [])
  end.

(* outer `while i < size` on fuel; s = input[i..].  Each iteration that does not break consumes
   at least the LT byte. *)
Fixpoint tfb_loop (fuel : nat) (out s : bytes) : res bytes :=
  match fuel with
  | O => OutOfFuel
  | S fuel' =>
    match s with
    | [] => Ok out                                   (* while i < size fails *)
    | _ =>
      let (run, rest) := scan_to_lt s in
      let out1 := out ++ run in                      (* if i > org { write } ; an empty write is the same *)
      match rest with
      | [] => Ok out1                                (* if i >= size { break } *)
      | _ :: rest' =>                                (* input[i] is the LT byte; rest = input[i..] *)
        do hit <- tagfilter rest;
        tfb_loop fuel' (out1 ++ (if hit then tf_lt else [x3c])) rest'
      end
    end
  end.

Definition tagfilter_block (input : bytes) : res bytes := tfb_loop (S (List.length input)) [] input.

(* ---- the option cascade of the two raw-HTML node renderers: the bytes written for the literal
   (context.cr() before and after a block is outside; context.escape is html::escape) ---- *)
Definition html_block_payload (escape_ unsafe_ tagfilter_ : bool) (literal : bytes) : res bytes :=
  if escape_ then escape literal
  else if negb unsafe_ then Ok raw_html_omitted
  else if tagfilter_ then tagfilter_block literal
  else Ok literal.

Definition html_inline_payload (escape_ unsafe_ tagfilter_ : bool) (literal : bytes) : res bytes :=
  if escape_ then escape literal
  else if negb unsafe_ then Ok raw_html_omitted
  else
    do hit <- (if tagfilter_ then tagfilter literal else Ok false);   (* tagfilter && tagfilter(literal) *)
    if hit then
      do tl <- slice_from "html.rs:render_html_inline:literal[1..]" literal 1;
      Ok (tf_lt ++ tl)
    else Ok literal.
