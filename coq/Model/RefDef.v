(* Model/RefDef.v — Parser::parse_reference_inline (src/parser/mod.rs) and the pieces of the inline
   `Subject` it uses (src/parser/inlines.rs): peek_char (with its assertion that the byte is not NUL), skip_spaces,
   skip_line_end, spnl, link_label; the RefMap insert (`map.entry(lab).or_insert(..)`: the first
   definition of a normalised label wins).

   A `Subject` is created per call with pos = 0, so a subject is (input, pos).  The label loop of
   link_label runs on fuel |input| + 1 (every iteration advances pos by at least one byte).
   `fold` stands for caseless::default_case_fold_str (see Model/Strings.v normalize_label).
   NO proofs in this file. *)
From Coq Require Import List NArith Arith Bool Strings.String.
From V Require Import Base.Bytes Base.Res Gen.StrLeafGen Gen.BlocksConst Model.Strings Model.Entity Model.LinkUrl Model.Scan
  Spec.EscapeSpec.
Import ListNotations.
Local Open Scope string_scope.
Local Open Scope list_scope.

Definition max_link_label_length : nat := gen_max_link_label_length.

(* the reference map: normalised label -> (url, title); insertion order kept *)
Definition refmap := list (bytes * (bytes * bytes)).

Fixpoint ref_lookup (m : refmap) (k : bytes) : option (bytes * bytes) :=
  match m with
  | [] => None
  | (k', v) :: r => if bytes_eqb k' k then Some v else ref_lookup r k
  end.

(* map.entry(lab).or_insert(v) *)
Definition ref_insert (m : refmap) (k : bytes) (v : bytes * bytes) : refmap :=
  match ref_lookup m k with
  | Some _ => m
  | None => m ++ [(k, v)]
  end.

(* Subject::peek_char_n(0) *)
Definition peek (input : bytes) (pos : nat) : res (option byte) :=
  match nth_error input pos with
  | None => Ok None
  | Some c => if beqb c x00 then Panic "inlines.rs:peek_char_n:assert!(*c > 0)" else Ok (Some c)
  end.

(* Subject::skip_spaces: s = input[pos..]; result = number of bytes skipped *)
Fixpoint skip_spaces (s : bytes) : res nat :=
  match s with
  | [] => Ok 0
  | c :: r =>
    if beqb c x00 then Panic "inlines.rs:peek_char_n:assert!(*c > 0)"
    else if beqb c x20 || beqb c x09 then (do n <- skip_spaces r; Ok (S n))
    else Ok 0
  end.

(* Subject::skip_line_end: returns (new pos, result) *)
Definition skip_line_end (input : bytes) (pos : nat) : res (nat * bool) :=
  do p1 <- peek input pos;
  let pos1 := match p1 with Some c => if beqb c x0d then S pos else pos | None => pos end in
  do p2 <- peek input pos1;
  let pos2 := match p2 with Some c => if beqb c x0a then S pos1 else pos1 | None => pos1 end in
  Ok (pos2, Nat.ltb pos pos2 || Nat.leb (List.length input) pos2).

(* Subject::spnl *)
Definition spnl (input : bytes) (pos : nat) : res nat :=
  do n1 <- skip_spaces (skipn pos input);
  do r <- skip_line_end input (pos + n1);
  let '(pos2, ok) := r in
  if ok then (do n3 <- skip_spaces (skipn pos2 input); Ok (pos2 + n3)) else Ok pos2.

(* the `while` of link_label.  c = the variable `c` (last byte copied out of peek_char).
   Result: None = the label is too long (return None, pos reset); Some (pos, c) at loop exit. *)
Fixpoint label_loop (fuel : nat) (input : bytes) (pos len : nat) (c : byte) : res (option (nat * byte)) :=
  match fuel with
  | O => OutOfFuel
  | S f =>
    do p <- peek input pos;
    match p with
    | None => Ok (Some (pos, c))
    | Some c' =>
      if beqb c' x5b || beqb c' x5d then Ok (Some (pos, c'))
      else
        do r <- (if beqb c' x5c then
                   (do q <- peek input (S pos);
                    match q with
                    | Some d => if sl_ispunct d then Ok (S (S pos), S (S len)) else Ok (S pos, S len)
                    | None => Ok (S pos, S len)
                    end)
                 else Ok (S pos, S len));
        let '(pos', len') := r in
        if Nat.ltb max_link_label_length len' then Ok None
        else label_loop f input pos' len' c'
    end
  end.

(* Subject::link_label with self.pos = 0: Some (raw label, new pos) *)
Definition link_label (input : bytes) : res (option (bytes * nat)) :=
  do p <- peek input 0;
  match p with
  | Some b =>
    if negb (beqb b x5b) then Ok None
    else
      do r <- label_loop (S (List.length input)) input 1 0 x00;
      match r with
      | None => Ok None
      | Some (pos, c) =>
        if beqb c x5d then
          let raw := trim_slice (firstn (pos - 1) (skipn 1 input)) in
          if utf8_valid raw then Ok (Some (raw, S pos))
          else Panic "inlines.rs:link_label:str::from_utf8(raw_label).unwrap()"
        else Ok None
      end
  | None => Ok None
  end.

(* parse_reference_inline(content): None, or Some (subj.pos, new refmap) *)
Definition parse_reference_inline (fold : bytes -> bytes) (m : refmap) (content : bytes)
  : res (option (nat * refmap)) :=
  do l <- link_label content;
  match l with
  | None => Ok None
  | Some (lab, pos) =>
    match lab with
    | [] => Ok None
    | _ =>
      do p <- peek content pos;
      match p with
      | None => Ok None
      | Some c =>
        if negb (beqb c x3a) then Ok None
        else
          let pos := S pos in
          do pos <- spnl content pos;
          do u <- manual_scan_link_url (skipn pos content);
          match u with
          | None => Ok None
          | Some (url, matchlen) =>
            let pos := pos + matchlen in
            let beforetitle := pos in
            do pos <- spnl content pos;
            let title_search := if Nat.eqb pos beforetitle then None else scan_link_title (skipn pos content) in
            let '(title, pos) :=
              match title_search with
              | Some ml => (firstn ml (skipn pos content), pos + ml)
              | None => (@nil byte, beforetitle)
              end in
            do n <- skip_spaces (skipn pos content);
            let pos := pos + n in
            do r <- skip_line_end content pos;
            let '(pos1, ok) := r in
            (* `title.clear()` where the position is rewound: the title does not survive the rewind *)
            do fin <- (if ok then Ok (Some (pos1, title))
                       else match title with
                            | [] => Ok None
                            | _ =>
                              do n2 <- skip_spaces (skipn beforetitle content);
                              do r2 <- skip_line_end content (beforetitle + n2);
                              let '(pos2, ok2) := r2 in
                              if ok2 then Ok (Some (pos2, @nil byte)) else Ok None
                            end);
            match fin with
            | None => Ok None
            | Some (posf, title) =>
              let lab' := normalize_label fold lab true in
              match lab' with
              | [] => Ok (Some (posf, m))
              | _ =>
                do cu <- clean_url url;
                do ct <- clean_title title;
                if negb (utf8_valid cu) then Panic "mod.rs:parse_reference_inline:String::from_utf8(clean_url).unwrap()"
                else if negb (utf8_valid ct) then Panic "mod.rs:parse_reference_inline:String::from_utf8(clean_title).unwrap()"
                else Ok (Some (posf, ref_insert m lab' (cu, ct)))
              end
            end
          end
      end
    end
  end.
