(* Model/Tagfilter0.v — html::tagfilter and html::tagfilter_block as written (after the bounds
   fix: names compared in place with eq_ignore_ascii_case under the guard rest.len() > t.len()).
   Used by Model/Html.v.  Names come from Gen/TagfilterNames.v. *)
From Coq Require Import List NArith Bool Strings.String.
From V Require Import Base.Bytes Base.Res Gen.Ctype Gen.TagfilterNames.
Import ListNotations.
Local Open Scope string_scope.
Local Open Scope list_scope.

(* rest[..t.len()].eq_ignore_ascii_case(t) && rest.len() > t.len(): returns the byte after the name
   and what follows it *)
Fixpoint match_name (rest t : bytes) {struct t} : option (byte * bytes) :=
  match t, rest with
  | [], c :: r => Some (c, r)
  | [], [] => None                                   (* rest.len() > t.len() fails *)
  | y :: t', x :: r => if beqb (to_lower_ascii x) (to_lower_ascii y) then match_name r t' else None
  | _ :: _, [] => None
  end.

Fixpoint first_match (rest : bytes) (names : list bytes) : option (byte * bytes) :=
  match names with
  | [] => None
  | t :: ts => match match_name rest t with Some r => Some r | None => first_match rest ts end
  end.

Definition tagfilter (literal : bytes) : res bool :=
  match literal with
  | c0 :: c1 :: _ :: _ =>                               (* literal.len() >= 3 *)
    if negb (beqb c0 x3c) then Ok false
    else
      let rest := if beqb c1 x2f then tl (tl literal) else tl literal in
      match first_match rest tagfilter_blacklist with
      | Some (cj, after) =>
        Ok (isspace cj || beqb cj x3e ||
            (beqb cj x2f && match after with d :: _ => beqb d x3e | [] => false end))
      | None => Ok false
      end
  | _ => Ok false
  end.

(* tagfilter_block: copy up to the next '<', then "&lt;" or "<" (byte-wise here; the Rust copies
   the run between two '<' as one slice, which writes the same bytes) *)
Fixpoint tagfilter_block_go (s : bytes) (out : list bytes) : res bytes :=
  match s with
  | [] => Ok (List.concat (rev out))
  | c :: r =>
    if beqb c x3c then
      do t <- tagfilter s;
      tagfilter_block_go r ((if t then B "&lt;" else [x3c]) :: out)
    else tagfilter_block_go r ([c] :: out)
  end.

Definition tagfilter_block (s : bytes) : res bytes := tagfilter_block_go s [].
