(* Model/Parse.v — the WHOLE of comrak's `parse_document` (src/parser/mod.rs) as one function:

     parse_document_model o u x =
        block phase                Blocks.parse_blocks                        (feed + process_line + finalize_document up to
                                                                               the hook stop_after_blocks)
        process_inlines            Inlines.run_inlines_gen on every node whose value `contains_inlines`
                                   (Paragraph, Heading, TableCell), in the order of `node.descendants()` (pre-order), with the
                                   content / line_offsets / start line the block tree carries, the reference map the block
                                   phase built, max_ref_size, and the reference budget (RefMap::ref_size) threaded from leaf
                                   to leaf
        process_footnotes          Footnotes.process, iff extension.footnotes
        postprocess_text_nodes     Inlines.postprocess_block on the children of every such leaf of the tree the footnote pass
                                   left, and the effect of process_tasklist on the ancestors (Item -> TaskItem, List flag,
                                   the paragraph's start column or its removal)

   Shape.  `Parser::process_inlines_node` walks the descendants and mutates the arena in place.  Here the leaves are listed
   first, in that order, with their position (child indices from the root): `bleaves`; the inline model is run over the list
   with the budget threaded (`run_leaves`); the child lists are put back at their positions (`p_attach`, the same function as
   Proofs/ParserShapeAttach.attach).  The text post-pass has no state shared between leaves except the task-list effect on
   the ancestors, which Inlines.postprocess_block reports instead of performing: the leaves of the tree after the footnote
   pass are listed with the context process_tasklist reads (`pleaves`: Some (start column) for a Paragraph without previous
   sibling whose parent is an Item whose parent is a List), post-processed (`run_post`), put back, and the reported effects are
   applied (`recol`: sourcepos.start.column of the paragraph; `p_taskify`: TaskItem / is_task_list / detach of the paragraph,
   the same function as ParserShapeAttach.taskify).

   Parameters.  `o`: every option the parser reads (extension.* and parse.*, and the three render.* options the parser reads:
   ignore_setext, escaped_char_spans, ignore_empty_links); parse.broken_link_callback is None.  `u`: the Unicode oracle of
   Model/Inlines.v (char::is_whitespace, is_punctuation|is_symbol beyond ASCII, caseless::default_case_fold_str); its fold
   is also the fold of the block phase (reference-definition labels) and of the footnote pass (normalize_label).
   The order in which HashMap::into_values yields the footnote map is irrelevant for the result (Props/C15.v
   C15_sort_perm_indep): the identity is used.

   Panic sites are those of the three models; a leaf whose content holds NUL (never produced by feed, which replaces NUL)
   answers Panic "OutOfScope:.." like Model/Blocks.OutOfScope.  NO proofs in this file. *)
From Coq Require Import List NArith Arith Bool Strings.String.
From V Require Import Base.Bytes Base.Res Model.Ast Model.Strings Model.RefDef Model.Blocks Model.Inlines Model.Footnotes.
Import ListNotations.
Local Open Scope string_scope.
Local Open Scope list_scope.

(* ------------------------------------------------------------------ options *)
Record popts := mkPO {
  (* read by the block phase *)
  po_table : bool; po_footnotes : bool; po_description_lists : bool; po_multiline_block_quotes : bool;
  po_alerts : bool; po_spoiler : bool; po_greentext : bool; po_ignore_setext : bool;
  po_front_matter_delimiter : option bytes; po_default_info_string : option bytes;
  (* read by the inline phase and the text post-pass (footnotes and spoiler are read by both) *)
  po_autolink : bool; po_strikethrough : bool; po_subscript : bool; po_superscript : bool; po_underline : bool;
  po_math_dollars : bool; po_math_code : bool; po_wikilinks_after : bool; po_wikilinks_before : bool;
  po_tasklist : bool; po_smart : bool; po_relaxed_autolinks : bool; po_relaxed_tasklist : bool;
  po_escaped_char_spans : bool; po_ignore_empty_links : bool }.

Definition bopts_of (o : popts) (u : oracle) : bopts :=
  mkBO (po_table o) (po_footnotes o) (po_description_lists o) (po_multiline_block_quotes o) (po_alerts o) (po_spoiler o)
       (po_greentext o) (po_ignore_setext o) (po_front_matter_delimiter o) (po_default_info_string o) (u_fold u).

Definition iopts_of (o : popts) : iopts :=
  mkIO (po_autolink o) (po_strikethrough o) (po_subscript o) (po_superscript o) (po_underline o) (po_spoiler o)
       (po_math_dollars o) (po_math_code o) (po_wikilinks_after o) (po_wikilinks_before o) (po_footnotes o) (po_tasklist o)
       (po_smart o) (po_relaxed_autolinks o) (po_relaxed_tasklist o) (po_escaped_char_spans o) (po_ignore_empty_links o).

(* ------------------------------------------------------------------ positions *)
Fixpoint path_eqb (a b : list nat) : bool :=
  match a, b with
  | [], [] => true
  | x :: a', y :: b' => Nat.eqb x y && path_eqb a' b'
  | _, _ => false
  end.

Fixpoint passoc {A} (tbl : list (list nat * A)) (p : list nat) : option A :=
  match tbl with
  | [] => None
  | (q, a) :: r => if path_eqb q p then Some a else passoc r p
  end.

(* NodeValue::contains_inlines *)
Definition contains_inlines (v : node_value) : bool :=
  match v with Paragraph | Heading _ _ | TableCell => true | _ => false end.

(* ------------------------------------------------------------------ process_inlines *)
(* the nodes process_inlines_node calls parse_inlines on, in the order of descendants(), with their positions *)
Fixpoint bleaves (path : list nat) (t : bnode) : list (list nat * binfo) :=
  match t with
  | BNode i ch =>
    if contains_inlines (bi_val i) then [(path, i)]
    else (fix go (k : nat) (l : list bnode) : list (list nat * binfo) :=
            match l with
            | [] => []
            | c :: r => bleaves (path ++ [k]) c ++ go (S k) r
            end) 0 ch
  end.

(* Parser::parse_inlines on every leaf; rs = self.refmap.ref_size *)
Fixpoint run_leaves (io : iopts) (u : oracle) (refmap : RefDef.refmap) (maxref : N) (l : list (list nat * binfo)) (rs : N)
  : res (list (list nat * list node)) :=
  match l with
  | [] => Ok []
  | (p, i) :: r =>
    do out <- run_inlines_gen true io u (bi_content i) (map N.of_nat (bi_lo i)) (N.of_nat (bi_sl i)) refmap maxref rs;
    match out with
    | Inlines.OutOfScope w => Panic ("OutOfScope:" ++ w)
    | Done ch rs' =>
      do rest <- run_leaves io u refmap maxref r rs';
      Ok ((p, ch) :: rest)
    end
  end.

Definition inl_lookup (tbl : list (list nat * list node)) (p : list nat) : list node :=
  match passoc tbl p with Some ch => ch | None => [] end.

(* the children of the leaf at position p are inl p; nothing else changes (= ParserShapeAttach.attach) *)
Fixpoint p_attach (inl : list nat -> list node) (path : list nat) (n : node) : node :=
  match n with
  | Node v sp ch =>
    if contains_inlines v then Node v sp (inl path)
    else Node v sp ((fix go (i : nat) (l : list node) : list node :=
                       match l with
                       | [] => []
                       | c :: r => p_attach inl (path ++ [i]) c :: go (S i) r
                       end) 0 ch)
  end.

(* ------------------------------------------------------------------ postprocess_text_nodes *)
(* the leaves of the tree as postprocess_text_nodes meets them: position, the context of process_tasklist, children.
   pv / gv = value of the parent / grandparent, k = index among the siblings *)
Fixpoint pleaves (pv gv : option node_value) (path : list nat) (k : nat) (n : node)
  : list (list nat * (option N * list node)) :=
  match n with
  | Node v sp ch =>
    if contains_inlines v then
      [(path, (match v, k, pv, gv with
               | Paragraph, O, Some (Item _), Some (NList _) => Some (sc sp)
               | _, _, _, _ => None
               end, ch))]
    else (fix go (i : nat) (l : list node) : list (list nat * (option N * list node)) :=
            match l with
            | [] => []
            | c :: r => pleaves (Some v) pv (path ++ [i]) i c ++ go (S i) r
            end) 0 ch
  end.

Fixpoint run_post (io : iopts) (l : list (list nat * (option N * list node)))
  : res (list (list nat * (list node * option tl_effect))) :=
  match l with
  | [] => Ok []
  | (p, (ctx, ch)) :: r =>
    do a <- postprocess_block io ctx ch;
    do rest <- run_post io r;
    Ok ((p, a) :: rest)
  end.

Definition post_lookup (tbl : list (list nat * (list node * option tl_effect))) (p : list nat) : list node :=
  match passoc tbl p with Some a => fst a | None => [] end.

Definition eff_at (tbl : list (list nat * (list node * option tl_effect))) (p : list nat) : option tl_effect :=
  match passoc tbl p with Some a => snd a | None => None end.

(* process_tasklist on the ancestors.  For an effect reported by the paragraph at p: the paragraph is detached or gets
   the start column; its parent (the Item) becomes TaskItem(symbol); the Item's parent (the List) gets is_task_list *)
Definition sym_entries (tbl : list (list nat * (list node * option tl_effect))) : list (list nat * option bytes) :=
  flat_map (fun e : list nat * (list node * option tl_effect) =>
              match snd (snd e) with
              | Some t => [(removelast (fst e), tl_symbol t); (removelast (removelast (fst e)), tl_symbol t)]
              | None => []
              end) tbl.

Definition sym_of (tbl : list (list nat * (list node * option tl_effect))) (q : list nat) : option (option bytes) :=
  passoc (sym_entries tbl) q.

Definition drop_of (tbl : list (list nat * (list node * option tl_effect))) (q : list nat) : bool :=
  match eff_at tbl q with Some t => tl_detach_parent t | None => false end.

Definition col_of (tbl : list (list nat * (list node * option tl_effect))) (q : list nat) : option N :=
  match eff_at tbl q with
  | Some t => if tl_detach_parent t then None else Some (tl_parent_sc t)
  | None => None
  end.

(* parent.data.borrow_mut().sourcepos.start.column = adjust *)
Fixpoint recol (col : list nat -> option N) (path : list nat) (n : node) : node :=
  match n with
  | Node v sp ch =>
    if contains_inlines v then
      Node v (match col path with Some c => mkSp (sl sp) c (el sp) (ec sp) | None => sp end) ch
    else Node v sp ((fix go (i : nat) (l : list node) : list node :=
                       match l with
                       | [] => []
                       | c :: r => recol col (path ++ [i]) c :: go (S i) r
                       end) 0 ch)
  end.

Definition set_task_flag (l : node_list) : node_list :=
  mkList (l_type l) (l_marker_offset l) (l_padding l) (l_start l) (l_delim l) (l_bullet l) (l_tight l) true.

Definition p_taskify_val (s : option (option bytes)) (v : node_value) : node_value :=
  match s, v with
  | Some x, Item _ => TaskItem x
  | Some _, NList l => NList (set_task_flag l)
  | _, _ => v
  end.

Definition is_paragraph_node (n : node) : bool := match nval n with Paragraph => true | _ => false end.

(* = ParserShapeAttach.taskify with act p = mkAct (sym p) (drop p) *)
Fixpoint p_taskify (sym : list nat -> option (option bytes)) (drop : list nat -> bool) (path : list nat) (n : node) : node :=
  match n with
  | Node v sp ch =>
    Node (p_taskify_val (sym path) v) sp
         ((fix go (i : nat) (l : list node) : list node :=
             match l with
             | [] => []
             | c :: r =>
               if is_paragraph_node c && drop (path ++ [i]) then go (S i) r
               else p_taskify sym drop (path ++ [i]) c :: go (S i) r
             end) 0 ch)
  end.

(* ------------------------------------------------------------------ the phases after the block phase *)
Definition fn_fold (u : oracle) (l : bytes) : bytes := normalize_label (u_fold u) l true.    (* normalize_label(_, Case::Fold) *)
Definition fn_pres (u : oracle) (l : bytes) : bytes := normalize_label (u_fold u) l false.   (* normalize_label(_, Case::Preserve) *)
Definition fn_perm (m : list fdef) : list fdef := m.

(* finalize_document after the hook: process_inlines, process_footnotes *)
Definition inline_phase (o : popts) (u : oracle) (root : bnode) (refmap : RefDef.refmap) (maxref : N) : res node :=
  do tbl <- run_leaves (iopts_of o) u refmap maxref (bleaves [] root) 0%N;
  Ok (p_attach (inl_lookup tbl) [] (to_node root)).

Definition footnote_phase (o : popts) (u : oracle) (t : node) : node :=
  if po_footnotes o then process (fn_fold u) (fn_pres u) fn_perm t else t.

(* Parser::finish: postprocess_text_nodes(root) *)
Definition post_phase (o : popts) (t : node) : res node :=
  do tbl <- run_post (iopts_of o) (pleaves None None [] 0 t);
  Ok (p_taskify (sym_of tbl) (drop_of tbl) [] (recol (col_of tbl) [] (p_attach (post_lookup tbl) [] t))).

Definition after_blocks (o : popts) (u : oracle) (root : bnode) (refmap : RefDef.refmap) (maxref : N) : res node :=
  do t1 <- inline_phase o u root refmap maxref;
  post_phase o (footnote_phase o u t1).

(* ------------------------------------------------------------------ parse_document *)
Definition parse_document_model (o : popts) (u : oracle) (x : bytes) : res node :=
  do r <- parse_blocks (bopts_of o u) x;
  after_blocks o u (br_root r) (br_refmap r) (br_max_ref_size r).
