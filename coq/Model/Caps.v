(* Model/Caps.v — the caps that bound reference expansion, table auto-completion and table width
   (C06).  Hand transcriptions; the constants come from Gen/Consts.v and the Rust bodies they mirror
   are compared verbatim by the translator item `consts` on every run.  NO proofs here.

   usize arithmetic is modelled in N (unbounded): the only subtraction that could wrap,
   `self.max_ref_size - self.ref_size`, is an explicit Panic (overflow-checks build) and is proved
   unreachable; additions of lengths of in-memory strings cannot overflow usize. *)
From Coq Require Import List NArith Bool Strings.String.
From V Require Import Base.Bytes Base.Res Gen.Consts.
Import ListNotations.
Local Open Scope string_scope.
Local Open Scope list_scope.
Local Open Scope N_scope.

(* ------------------------------------------------------------------ RefMap (src/parser/inlines.rs)

   pub struct RefMap { pub map: HashMap<String, ResolvedReference>, pub(crate) max_ref_size: usize, ref_size: usize }
   The map is an association list label -> (url, title); only `get` is used after block parsing. *)
Definition refentry : Type := (bytes * bytes)%type.   (* url, title *)

Record refmap : Type := mkRefMap {
  rm_map : list (bytes * refentry);
  rm_max : N;           (* max_ref_size *)
  rm_size : N           (* ref_size *)
}.

Fixpoint map_get (m : list (bytes * refentry)) (lab : bytes) : option refentry :=
  match m with
  | [] => None
  | (k, e) :: r => if bytes_eqb k lab then Some e else map_get r lab
  end.

Definition entry_size (e : refentry) : N := N.of_nat (List.length (fst e)) + N.of_nat (List.length (snd e)).

(* RefMap::new: max_ref_size = usize::MAX (any value here), ref_size = 0 *)
Definition refmap_new (m : list (bytes * refentry)) (max : N) : refmap := mkRefMap m max 0.

(* finalize_document:  max_ref_size = if total_size > 100000 { total_size } else { 100000 }  (before process_inlines) *)
Definition set_budget (r : refmap) (total_size : N) : refmap :=
  mkRefMap (rm_map r) (if ref_floor <? total_size then total_size else ref_floor) (rm_size r).

(* fn lookup(&mut self, lab) -> Option<ResolvedReference> *)
Definition lookup (r : refmap) (lab : bytes) : res (option refentry * refmap) :=
  match map_get (rm_map r) lab with
  | Some e =>
      let size := entry_size e in
      if rm_max r <? rm_size r then Panic "inlines.rs:RefMap::lookup max_ref_size - ref_size"
      else if (rm_max r - rm_size r) <? size then Ok (None, r)
      else Ok (Some e, mkRefMap (rm_map r) (rm_max r) (rm_size r + size))
  | None => Ok (None, r)
  end.

(* every lookup of an inline pass, in order; returns the answers *)
Fixpoint lookups (r : refmap) (labs : list bytes) : res (list (option refentry) * refmap) :=
  match labs with
  | [] => Ok ([], r)
  | l :: rest =>
      do x <- lookup r l;
      let '(a, r1) := x in
      do y <- lookups r1 rest;
      let '(answers, r2) := y in
      Ok (a :: answers, r2)
  end.

(* total size of the reference text handed out (what the renderers will print, before escaping) *)
Fixpoint expanded (answers : list (option refentry)) : N :=
  match answers with
  | [] => 0
  | Some e :: r => entry_size e + expanded r
  | None :: r => expanded r
  end.

(* the whole life of the map for one document: new, budget from the input size, then the lookups *)
Definition document_lookups (m : list (bytes * refentry)) (total_size : N) (labs : list bytes)
  : res (list (option refentry) * refmap) :=
  lookups (set_budget (refmap_new m 18446744073709551615) total_size) labs.

(* ------------------------------------------------------------------ table counters (src/parser/table.rs)

   NodeTable { num_columns, num_rows, num_nonempty_cells }.  try_opening_header creates the table with
   num_columns = header cells, then incr_table_row_count(container, header cells); try_opening_row
   refuses when get_num_autocompleted_cells > MAX_AUTOCOMPLETED_CELLS, else adds
   i = min(alignments.len(), cells) parsed cells, incr_table_row_count(container, i), and
   alignments.len() - i auto-completed cells.  alignments.len() = num_columns (header and delimiter
   row have the same number of cells). *)
Record tbl : Type := mkTbl { tb_cols : N; tb_rows : N; tb_nonempty : N }.

Definition incr_table_row_count (t : tbl) (i : N) : tbl := mkTbl (tb_cols t) (tb_rows t + 1) (tb_nonempty t + i).

Definition get_num_autocompleted_cells (t : tbl) : N :=
  let num_cells := tb_cols t * tb_rows t in
  if num_cells <? tb_nonempty t then 0 else tb_cols t * tb_rows t - tb_nonempty t.

Definition open_header (ncells : N) : tbl := incr_table_row_count (mkTbl ncells 0 0) ncells.

(* one body row with `ncells` parsed cells: None = the row is refused (the table ends);
   Some (table', number of auto-completed cell nodes created for this row) *)
Definition try_opening_row (t : tbl) (ncells : N) : option (tbl * N) :=
  if max_autocompleted_cells <? get_num_autocompleted_cells t then None
  else let i := N.min (tb_cols t) ncells in
       Some (incr_table_row_count t i, tb_cols t - i).

(* rows offered one after the other to the same table; the first refusal ends the table *)
Fixpoint feed_rows (t : tbl) (rows : list N) (created : N) : tbl * N :=
  match rows with
  | [] => (t, created)
  | n :: rest =>
      match try_opening_row t n with
      | None => (t, created)
      | Some (t1, c) => feed_rows t1 rest (created + c)
      end
  end.

(* row(): the cell loop pushes at most u16::MAX cells; one more aborts the row (None) *)
Fixpoint row_cells {A} (cells : list A) (acc : list A) : option (list A) :=
  match cells with
  | [] => Some (rev acc)
  | c :: rest => if N.of_nat (List.length acc) =? max_columns then None else row_cells rest (c :: acc)
  end.
