(* Model/Entity.v — src/entity.rs: `unescape` (one entity, the text after the AMPERSAND), `lookup`,
   `unescape_html`.  Constants (length limits, digit limits, code point cap, surrogate interval,
   replacement character) come from Gen/StrLeafGen.v, the named-entity table from Gen/Entities.v
   (a dump of the `entities` crate made by running the harness).

   What is modelled exactly: every comparison, the order of the tests, the u32 arithmetic with its
   `min` cap (so no overflow is possible: the cap times sixteen plus fifteen is below 2^32), the
   fall-through from a failed numeric entity to the named scan, the index sites.
   What is modelled by its result only: `lookup` — entity.rs walks ENTITIES linearly comparing
   `format!(AMP name SEMI)`; the model looks the name up in the bucket of its first byte
   (Proofs/StrLeafProofs.v: `lookup_is_first_match` proves it equal to the first match in table order).
   `unescape_html`: the inner scan-to-AMPERSAND loop and the outer loop are one structural recursion
   with a `skip` counter for the bytes an entity consumed. *)
From Coq Require Import List NArith Bool Strings.String.
From V Require Import Base.Bytes Base.Res Gen.StrLeafGen Gen.Entities.
Import ListNotations.
Local Open Scope string_scope.
Local Open Scope list_scope.

Definition isxdigit (b : byte) : bool :=
  in_range 48 57 b || in_range 97 102 b || in_range 65 70 b.

(* char::to_string().into_bytes() of a Unicode scalar value *)
Definition encode_utf8 (c : N) : bytes :=
  if (c <? 128)%N then [byte_of_N c]
  else if (c <? 2048)%N then [byte_of_N (192 + c / 64); byte_of_N (128 + c mod 64)]
  else if (c <? 65536)%N then
    [byte_of_N (224 + c / 4096); byte_of_N (128 + (c / 64) mod 64); byte_of_N (128 + c mod 64)]
  else [byte_of_N (240 + c / 262144); byte_of_N (128 + (c / 4096) mod 64);
        byte_of_N (128 + (c / 64) mod 64); byte_of_N (128 + c mod 64)].

(* char::from_u32 *)
Definition char_from_u32 (c : N) : option N :=
  if ((55296 <=? c) && (c <=? 57343))%N || (1114111 <? c)%N then None else Some c.

(* while i < text.len() && isdigit(text[i]) { codepoint = min(codepoint * 10 + digit, cap); i += 1 }
   on the list text[i..]: (number of digits, codepoint, text[i..] after the loop) *)
Fixpoint dec_digits (s : bytes) (n : nat) (cp : N) : nat * N * bytes :=
  match s with
  | b :: r =>
    if sl_isdigit b then dec_digits r (S n) (N.min (cp * 10 + (bN b - 48)) entity_cp_cap)
    else (n, cp, s)
  | [] => (n, cp, s)
  end.

(* ((text[i] as u32 | 32) % 39 - 9): a u32 subtraction *)
Definition hex_digit_value (b : byte) : res N :=
  let v := (N.lor (bN b) 32 mod 39)%N in
  if (v <? 9)%N then Panic "entity.rs:unescape:hex digit - 9" else Ok (v - 9)%N.

Fixpoint hex_digits (s : bytes) (n : nat) (cp : N) : res (nat * N * bytes) :=
  match s with
  | b :: r =>
    if isxdigit b then
      do d <- hex_digit_value b;
      hex_digits r (S n) (N.min (cp * 16 + d) entity_cp_cap)
    else Ok (n, cp, s)
  | [] => Ok (n, cp, s)
  end.

Fixpoint assoc_bytes (k : bytes) (l : list (bytes * bytes)) : option bytes :=
  match l with
  | [] => None
  | (n, c) :: r => if bytes_eqb k n then Some c else assoc_bytes k r
  end.

(* entity::lookup(text): the characters of the first table entry whose entity is AMP text SEMI *)
Definition lookup (text : bytes) : option bytes :=
  match text with
  | [] => None
  | b :: r => assoc_bytes r (entity_bucket b)
  end.

(* for i in ENTITY_MIN_LENGTH..size: s = text[i..], left = size - i *)
Fixpoint named_scan (s : bytes) (i left : nat) : option nat :=
  match left with
  | O => None
  | S l =>
    match s with
    | [] => None                                  (* unreachable: size <= text.len() *)
    | b :: r =>
      if beqb b x20 then None
      else if beqb b x3b then Some i
      else named_scan r (S i) l
    end
  end.

Definition named (text : bytes) : option (bytes * nat) :=
  let size := Nat.min (List.length text) entity_max_length in
  match named_scan (skipn entity_min_length text) entity_min_length (size - entity_min_length) with
  | Some i => match lookup (firstn i text) with Some e => Some (e, S i) | None => None end
  | None => None
  end.

Definition in_digit_limit (hex : bool) (nd : nat) : bool :=
  (hex && Nat.leb 1 nd && Nat.leb nd entity_hex_digits) || (Nat.leb 1 nd && Nat.leb nd entity_dec_digits).

Definition fix_codepoint (cp : N) : N :=
  if (cp =? 0)%N || ((entity_sur_lo <=? cp) && (cp <=? entity_sur_hi))%N || (entity_cp_limit <=? cp)%N
  then entity_replacement else cp.

Definition numeric_result (cp : N) : bytes :=
  encode_utf8 (match char_from_u32 (fix_codepoint cp) with Some c => c | None => 65533%N end).

(* entity::unescape(text) -> Option<(Vec<u8>, usize)> *)
Definition unescape (text : bytes) : res (option (bytes * nat)) :=
  match text with
  | t0 :: t1 :: _ :: _ =>
    if beqb t0 x23 then
      let is_x := beqb t1 x78 || beqb t1 x58 in
      do st <-
        (if sl_isdigit t1 then Ok (dec_digits (skipn 1 text) 0 0%N, 1)
         else if is_x then (do h <- hex_digits (skipn 2 text) 0 0%N; Ok (h, 2))
         else Ok ((0, 0%N, text), 0));
      let '((nd, cp, rest), i0) := st in
      (* i = i0 + nd; num_digits = i - i0 (i - 1, i - 2, or the constant 0) *)
      match rest with
      | c :: _ =>
        if beqb c x3b && in_digit_limit is_x nd then Ok (Some (numeric_result cp, S (i0 + nd)))
        else Ok (named text)
      | [] => Ok (named text)
      end
    else Ok (named text)
  | _ => Ok (named text)
  end.

(* entity::unescape_html *)
Fixpoint unescape_html_loop (s : bytes) (skip : nat) : res bytes :=
  match s with
  | [] => Ok []
  | c :: r =>
    match skip with
    | S k => unescape_html_loop r k
    | O =>
      if beqb c x26 then
        do e <- unescape r;
        match e with
        | Some (chs, n) => res_map (app chs) (unescape_html_loop r n)
        | None => res_map (cons c) (unescape_html_loop r 0)
        end
      else res_map (cons c) (unescape_html_loop r 0)
    end
  end.

Definition unescape_html (src : bytes) : res bytes := unescape_html_loop src 0.
