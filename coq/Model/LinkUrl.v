(* Model/LinkUrl.v — src/parser/inlines.rs: manual_scan_link_url, manual_scan_link_url_2.
   Both loops advance an index over the input; the model recurses structurally on input[i..] and
   carries `i` and a `skip` counter for the `i += 2` steps, so every `input[i]` is guarded by the
   recursion (as it is by `while i < len` in the Rust text) and `input[i + 1]` by the explicit
   `i + 1 < len` test.  The parenthesis cap comes from Gen/StrLeafGen.v (`link_paren_cap`). *)
From Coq Require Import List NArith Bool Strings.String.
From V Require Import Base.Bytes Base.Res Gen.StrLeafGen.
Import ListNotations.
Local Open Scope string_scope.
Local Open Scope list_scope.

(* u8::is_ascii_control *)
Definition is_ascii_control (b : byte) : bool := (bN b <? 32)%N || (bN b =? 127)%N.

(* the loop of manual_scan_link_url_2; s = input[i..].  Some i = left the loop at index i with
   i < len and nb_p = 0 (the only way to a Some result); None = every other exit *)
Fixpoint url2_loop (s : bytes) (skip i nb_p : nat) : option nat :=
  match s with
  | [] => None                                           (* i >= len *)
  | b :: r =>
    match skip with
    | S k => url2_loop r k (S i) nb_p
    | O =>
      if beqb b x5c && (match r with d :: _ => sl_ispunct d | [] => false end) then
        url2_loop r 1 (S i) nb_p                         (* i += 2 *)
      else if beqb b x28 then
        if Nat.ltb link_paren_cap (S nb_p) then None     (* nb_p += 1; if nb_p > 32 return None *)
        else url2_loop r 0 (S i) (S nb_p)
      else if beqb b x29 then
        match nb_p with
        | O => Some i                                    (* break; i < len and nb_p == 0 *)
        | S n => url2_loop r 0 (S i) n
        end
      else if sl_isspace b || is_ascii_control b then
        if Nat.eqb i 0 then None
        else if Nat.eqb nb_p 0 then Some i else None     (* break; then `nb_p != 0` decides *)
      else url2_loop r 0 (S i) nb_p
    end
  end.

Definition manual_scan_link_url_2 (input : bytes) : option (bytes * nat) :=
  match url2_loop input 0 0 0 with
  | Some i => Some (firstn i input, i)
  | None => None
  end.

(* the loop after the opening angle bracket; s = input[i..].  Some i = broke out after the closing
   bracket (i already incremented); None = return None or ran off the end *)
Fixpoint angle_loop (s : bytes) (skip i : nat) : option nat :=
  match s with
  | [] => None
  | b :: r =>
    match skip with
    | S k => angle_loop r k (S i)
    | O =>
      if beqb b x3e then Some (S i)
      else if beqb b x5c then angle_loop r 1 (S i)       (* i += 2 *)
      else if beqb b x0a || beqb b x3c then None
      else angle_loop r 0 (S i)
    end
  end.

Definition manual_scan_link_url (input : bytes) : res (option (bytes * nat)) :=
  match input with
  | b :: r =>
    if beqb b x3c then
      match angle_loop r 0 1 with
      | Some i =>
        if Nat.leb (List.length input) i then Ok None
        else if Nat.ltb (i - 1) 1 then Panic "inlines.rs:manual_scan_link_url:input[1..i - 1]"
        else Ok (Some (firstn (i - 2) (skipn 1 input), i))
      | None => Ok None
      end
    else Ok (manual_scan_link_url_2 input)
  | [] => Ok (manual_scan_link_url_2 input)
  end.
