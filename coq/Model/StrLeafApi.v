(* Model/StrLeafApi.v — uniquely named entry points of the leaf models for the extraction (several of
   them share a short name with another model: Entity.unescape / Strings.unescape, trim_start_match). *)
From Coq Require Import List NArith Bool.
From V Require Import Base.Bytes Base.Res Gen.StrLeafGen Gen.Entities Model.Ast.
From V Require Model.Entity Model.Strings Model.LinkUrl Model.AutolinkLeaf Model.ListMarker.

Definition sl_unescape := Strings.unescape.
Definition sl_clean_autolink := Strings.clean_autolink.
Definition sl_normalize_code := Strings.normalize_code.
Definition sl_remove_trailing_blank_lines := Strings.remove_trailing_blank_lines.
Definition sl_is_line_end_char := Strings.is_line_end_char.
Definition sl_is_space_or_tab := Strings.is_space_or_tab.
Definition sl_chop_trailing_hashtags := Strings.chop_trailing_hashtags.
Definition sl_rtrim := Strings.rtrim.
Definition sl_ltrim := Strings.ltrim.
Definition sl_trim := Strings.trim.
Definition sl_ltrim_slice := Strings.ltrim_slice.
Definition sl_rtrim_slice := Strings.rtrim_slice.
Definition sl_trim_slice := Strings.trim_slice.
Definition sl_shift_buf_left := Strings.shift_buf_left.
Definition sl_clean_url := Strings.clean_url.
Definition sl_clean_title := Strings.clean_title.
Definition sl_is_blank := Strings.is_blank.
Definition sl_normalize_label := Strings.normalize_label.
Definition sl_trim_start_match := Strings.trim_start_match.
Definition sl_entity_unescape := Entity.unescape.
Definition sl_entity_lookup := Entity.lookup.
Definition sl_unescape_html := Entity.unescape_html.
Definition sl_manual_scan_link_url := LinkUrl.manual_scan_link_url.
Definition sl_manual_scan_link_url_2 := LinkUrl.manual_scan_link_url_2.
Definition sl_validate_protocol := AutolinkLeaf.validate_protocol.
Definition sl_check_domain := AutolinkLeaf.check_domain.
Definition sl_is_valid_hostchar := AutolinkLeaf.is_valid_hostchar.
Definition sl_autolink_delim := AutolinkLeaf.autolink_delim.
Definition sl_unescape_pipes := AutolinkLeaf.unescape_pipes.
Definition sl_parse_list_marker := ListMarker.parse_list_marker.
Definition sl_scan_thematic_break_inner := ListMarker.scan_thematic_break_inner.
