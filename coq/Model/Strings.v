(* Model/Strings.v — src/strings.rs, the functions the block and inline parsers call
   (split_off_front_matter is in Model/FrontMatter.v).  ctype predicates: Gen/StrLeafGen.v (byte matches
   generated from the CMARK_CTYPE_CLASS table; Proofs/StrLeafProofs.v proves them equal to Gen/Ctype.v).

   Conventions: `Vec<u8>`/`&[u8]`/`String` are `bytes`; in-place functions return the new contents.
   Every index, slice, assert and usize subtraction of the Rust text that is not guarded by the loop
   condition of a structural recursion is an explicit `Panic` branch.
   `unescape` shifts windows of the buffer in place (`ptr::copy`); the model keeps the control flow and
   the index arithmetic of every window (`prev + 1 - found`, the slice bounds, the assert of
   `shift_buf_left`, `v.len() - found`) and produces the bytes by the net effect of the shifts: the byte at
   each recorded `prev` position is dropped, everything else stays in order (tied by STRLEAF_TIE). *)
From Coq Require Import List NArith Bool Strings.String.
From V Require Import Base.Bytes Base.Res Gen.StrLeafGen Model.Entity.
Import ListNotations.
Local Open Scope string_scope.
Local Open Scope list_scope.

Definition is_line_end_char (ch : byte) : bool := match ch with x0a | x0d => true | _ => false end.
Definition is_space_or_tab (ch : byte) : bool := match ch with x09 | x20 => true | _ => false end.

Fixpoint take_while (p : byte -> bool) (s : bytes) : bytes :=
  match s with
  | b :: r => if p b then b :: take_while p r else []
  | [] => []
  end.

Fixpoint drop_while (p : byte -> bool) (s : bytes) : bytes :=
  match s with
  | b :: r => if p b then drop_while p r else s
  | [] => []
  end.

Fixpoint count_while (p : byte -> bool) (s : bytes) : nat :=
  match s with
  | b :: r => if p b then S (count_while p r) else O
  | [] => O
  end.

(* fn shift_buf_left(buf: &mut [u8], n: usize) *)
Definition shift_buf_left (buf : bytes) (n : nat) : res bytes :=
  match n with
  | O => Ok buf
  | _ =>
    if Nat.leb n (List.length buf) then
      let keep := List.length buf - n in
      Ok (firstn keep (skipn n buf) ++ skipn keep buf)     (* ptr::copy(buf + n, buf, keep) *)
    else Panic "strings.rs:shift_buf_left:assert n <= buf.len()"
  end.

(* ---- unescape ---- *)
(* the window `&mut v[(prev + 1 - found)..r]` and the shift_buf_left(window, found) of one step *)
Definition unescape_window (prev : option nat) (found r len : nat) : res unit :=
  match prev with
  | None => Ok tt
  | Some p =>
    if Nat.ltb (p + 1) found then Panic "strings.rs:unescape:prev + 1 - found"
    else
      let a := p + 1 - found in
      if Nat.ltb r a || Nat.ltb len r then Panic "strings.rs:unescape:window slice"
      else if Nat.ltb (r - a) found then Panic "strings.rs:shift_buf_left:assert n <= buf.len()"
      else Ok tt
  end.

(* s = v[r..] *)
Fixpoint unescape_loop (len : nat) (s : bytes) (r : nat) (prev : option nat) (found : nat) : res bytes :=
  match s with
  | [] =>
    do _ <- unescape_window prev found r len;
    if Nat.ltb len found then Panic "strings.rs:unescape:v.len() - found" else Ok []
  | c :: s1 =>
    if beqb c x5c then
      match s1 with
      | d :: s2 =>
        if sl_ispunct d then
          if beqb d x5c then
            (* r += 1: prev is the second backslash; the first one stays *)
            do _ <- unescape_window prev found (S r) len;
            res_map (cons c) (unescape_loop len s2 (S (S r)) (Some (S r)) (S found))
          else
            do _ <- unescape_window prev found r len;
            unescape_loop len s1 (S r) (Some r) (S found)
        else res_map (cons c) (unescape_loop len s1 (S r) prev found)
      | [] => res_map (cons c) (unescape_loop len s1 (S r) prev found)
      end
    else res_map (cons c) (unescape_loop len s1 (S r) prev found)
  end.

Definition unescape (v : bytes) : res bytes := unescape_loop (List.length v) v 0 None 0.

(* ---- trimming ---- *)
Definition rtrim (line : bytes) : res (bytes * nat) :=
  let spaces := count_while sl_isspace (rev line) in
  if Nat.ltb (List.length line) spaces then Panic "strings.rs:rtrim:line.len() - spaces"
  else Ok (firstn (List.length line - spaces) line, spaces).

Definition ltrim (line : bytes) : res (bytes * nat) :=
  let spaces := count_while sl_isspace line in
  do b <- shift_buf_left line spaces;
  if Nat.ltb (List.length line) spaces then Panic "strings.rs:ltrim:line.len() - spaces"
  else Ok (firstn (List.length line - spaces) b, spaces).

Definition trim (line : bytes) : res bytes :=
  do l <- ltrim line;
  do r <- rtrim (fst l);
  Ok (fst r).

Definition ltrim_slice (i : bytes) : bytes := drop_while sl_isspace i.
Definition rtrim_slice (i : bytes) : bytes := rev (drop_while sl_isspace (rev i)).
Definition trim_slice (i : bytes) : bytes := rtrim_slice (ltrim_slice i).

(* ---- clean_autolink(url, kind): kind = Email <-> email = true ---- *)
Definition mailto : bytes := Eval compute in B "mailto:".

Definition clean_autolink (url : bytes) (email : bool) : res bytes :=
  do t <- trim url;
  match t with
  | [] => Ok []
  | _ =>
    do u <- Entity.unescape_html t;
    Ok ((if email then mailto else []) ++ u)
  end.

(* ---- normalize_code ---- *)
(* the while loop: (r, contains_nonspace); v[i + 1] is read only when i + 1 < v.len() *)
Fixpoint normalize_code_loop (v : bytes) : bytes * bool :=
  match v with
  | [] => ([], false)
  | c :: v1 =>
    let (r, cn) := normalize_code_loop v1 in
    let cn' := negb (beqb c x20 || beqb c x0d || beqb c x0a) || cn in
    if beqb c x0d then
      match v1 with
      | d :: _ => if beqb d x0a then (r, cn') else (x20 :: r, cn')
      | [] => (x20 :: r, cn')
      end
    else if beqb c x0a then (x20 :: r, cn')
    else (c :: r, cn')
  end.

Definition normalize_code (v : bytes) : res bytes :=
  let (r, cn) := normalize_code_loop v in
  if cn && negb (match r with [] => true | _ => false end) then
    match r with
    | [] => Panic "strings.rs:normalize_code:r[0]"
    | r0 :: r1 =>
      if beqb r0 x20 && beqb (last r x00) x20 then Ok (removelast r1)    (* r.remove(0); r.pop() *)
      else Ok r
    end
  else Ok r.

(* ---- remove_trailing_blank_lines(line: &mut String) ---- *)
Definition is_blank_byte (c : byte) : bool := beqb c x20 || beqb c x09 || is_line_end_char c.

Definition remove_trailing_blank_lines (line : bytes) : res bytes :=
  match line with
  | [] => Panic "strings.rs:remove_trailing_blank_lines:line.len() - 1"
  | _ =>
    let blanks := count_while is_blank_byte (rev line) in        (* the backward loop *)
    if Nat.leb (List.length line) blanks then Ok []               (* i == 0: line.clear() *)
    else
      let i := List.length line - 1 - blanks in                   (* last byte that is not blank *)
      (* forward from i: truncate at the first line end character *)
      Ok (firstn i line ++ take_while (fun c => negb (is_line_end_char c)) (skipn i line))
  end.

(* ---- chop_trailing_hashtags ---- *)
Definition chop_trailing_hashtags (line0 : bytes) : res bytes :=
  do t <- rtrim line0;
  let line := fst t in
  match line with
  | [] => Panic "strings.rs:chop_trailing_hashtags:line.len() - 1"
  | _ =>
    let hashes := count_while (fun c => beqb c x23) (rev line) in
    if Nat.leb (List.length line) hashes then Ok line               (* n == 0 inside the loop: return *)
    else
      let n := List.length line - 1 - hashes in
      match nth_error line n with
      | None => Panic "strings.rs:chop_trailing_hashtags:line[n]"
      | Some c =>
        if negb (Nat.eqb hashes 0) && is_space_or_tab c then
          do t2 <- rtrim (firstn n line); Ok (fst t2)
        else Ok line
      end
  end.

(* ---- clean_url / clean_title ---- *)
Definition clean_url (url0 : bytes) : res bytes :=
  let url := trim_slice url0 in
  match url with
  | [] => Ok []
  | _ => do b <- Entity.unescape_html url; unescape b
  end.

Definition clean_title (title : bytes) : res bytes :=
  match title with
  | [] => Ok []
  | first :: _ =>
    let len := List.length title in
    let lastb := last title x00 in
    do b <-
      (if (beqb first x27 && beqb lastb x27) || (beqb first x28 && beqb lastb x29) || (beqb first x22 && beqb lastb x22)
       then
         if Nat.ltb (len - 1) 1 then Panic "strings.rs:clean_title:title[1..title_len - 1]"
         else Entity.unescape_html (firstn (len - 2) (skipn 1 title))
       else Entity.unescape_html title);
    unescape b
  end.

(* ---- is_blank ---- *)
Fixpoint is_blank (s : bytes) : bool :=
  match s with
  | [] => true
  | c :: r =>
    if is_line_end_char c then true
    else if is_space_or_tab c then is_blank r
    else false
  end.

(* ---- normalize_label(i: &str, casing) ----
   `i.chars()` with `char::is_whitespace` on a str: the White_Space code points as UTF-8 byte sequences
   (U+0009..000D, 0020, 0085, 00A0, 1680, 2000..200A, 2028, 2029, 202F, 205F, 3000).  On valid UTF-8 none of them
   can begin inside another character (their first bytes are ASCII or lead bytes), so matching them on
   bytes is matching them on characters.  `fold` stands for caseless::default_case_fold_str (Unicode data
   of a dependency): a parameter, instantiated in the driver by an oracle answered by the harness. *)
Definition ws_width (s : bytes) : nat :=
  match s with
  | b :: r =>
    if in_range 9 13 b || beqb b x20 then 1
    else if beqb b xc2 then
      match r with c :: _ => if beqb c x85 || beqb c xa0 then 2 else 0 | _ => 0 end
    else if beqb b xe1 then
      match r with c :: d :: _ => if beqb c x9a && beqb d x80 then 3 else 0 | _ => 0 end
    else if beqb b xe2 then
      match r with
      | c :: d :: _ =>
        if beqb c x80 && (in_range 128 138 d || beqb d xa8 || beqb d xa9 || beqb d xaf) then 3
        else if beqb c x81 && beqb d x9f then 3 else 0
      | _ => 0
      end
    else if beqb b xe3 then
      match r with c :: d :: _ => if beqb c x80 && beqb d x80 then 3 else 0 | _ => 0 end
    else 0
  | [] => 0
  end.

Fixpoint collapse_ws (s : bytes) (skip : nat) (last_ws : bool) : bytes :=
  match s with
  | [] => []
  | c :: r =>
    match skip with
    | S k => collapse_ws r k last_ws
    | O =>
      match ws_width s with
      | O => c :: collapse_ws r 0 false
      | S k => if last_ws then collapse_ws r k true else x20 :: collapse_ws r k true
      end
    end
  end.

Definition normalize_label (fold : bytes -> bytes) (i : bytes) (case_fold : bool) : bytes :=
  let v := collapse_ws (trim_slice i) 0 false in
  if case_fold then fold v else v.

(* ---- trim_start_match(s, pat) = s.strip_prefix(pat).unwrap_or(s) ---- *)
Fixpoint strip_prefix (s pat : bytes) {struct pat} : option bytes :=
  match pat, s with
  | [], _ => Some s
  | p :: pat', c :: s' => if beqb c p then strip_prefix s' pat' else None
  | _ :: _, [] => None
  end.

Definition trim_start_match (s pat : bytes) : bytes :=
  match strip_prefix s pat with Some r => r | None => s end.
