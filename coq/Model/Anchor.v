(* Model/Anchor.v — src/html/anchorizer.rs `Anchorizer::anchorize`, loop-faithful.
   The HashSet of issued ids is a list used only through membership and insertion of a non-member.
   The Unicode-dependent first stage (to_lowercase, filter is_permitted_char, map SPACE to HYPHEN) is
   the parameter `slug`; no theorem depends on what it computes.  `uniq` is an i32 in the Rust code
   (integer literal default): `uniq += 1` at i32::MAX is an explicit panic site (overflow check). *)
From Coq Require Import List NArith Bool.
From Coq Require Import Strings.String.
From V Require Import Base.Bytes Base.Res.
Import ListNotations.
Local Open Scope string_scope.
Local Open Scope list_scope.

Definition mem_bytes (x : bytes) (l : list bytes) : bool := existsb (bytes_eqb x) l.

Definition hyphen : bytes := [x2d].
Definition i32_max : N := 2147483647.

(* `if uniq == 0 { id } else { format!("{}-{}", id, uniq) }` *)
Definition candidate (id : bytes) (uniq : N) : bytes :=
  if (uniq =? 0)%N then id else id ++ hyphen ++ dec uniq.

(* the `loop { ... uniq += 1 }` on explicit fuel *)
Fixpoint uniq_loop (fuel : nat) (issued : list bytes) (id : bytes) (uniq : N) : res bytes :=
  match fuel with
  | O => OutOfFuel
  | S f =>
    let anchor := candidate id uniq in
    if mem_bytes anchor issued then
      (if (uniq =? i32_max)%N then Panic "anchorizer.rs:uniq += 1 overflows i32"
       else uniq_loop f issued id (uniq + 1))
    else Ok anchor
  end.

Section Anchor.
  Variable slug : bytes -> bytes.

  Definition anchorize_fuel (fuel : nat) (issued : list bytes) (header : bytes) : res (list bytes * bytes) :=
    do id <- uniq_loop fuel issued (slug header) 0;
    Ok (id :: issued, id).

  (* fuel |issued| + 1: theorem anchor_fuel says this never runs out *)
  Definition anchorize (issued : list bytes) (header : bytes) : res (list bytes * bytes) :=
    anchorize_fuel (S (List.length issued)) issued header.

  (* one Anchorizer over a sequence of headers: final set and the ids in order *)
  Fixpoint anchorize_all (issued : list bytes) (headers : list bytes) : res (list bytes * list bytes) :=
    match headers with
    | [] => Ok (issued, [])
    | h :: r =>
      do p <- anchorize issued h;
      do q <- anchorize_all (fst p) r;
      Ok (fst q, snd p :: snd q)
    end.
End Anchor.

(* ASCII-only instance of the first stage, used by the correspondence check on ASCII headers:
   A-Z to lower case; keep SPACE, HYPHEN, letters, digits, LOW LINE (the only ASCII connector
   punctuation); SPACE becomes HYPHEN.  Bytes >= 128 are outside its domain (dropped). *)
Definition permitted_ascii (b : byte) : bool :=
  beqb b x20 || beqb b x2d || is_lower b || is_upper b || is_digit b || beqb b x5f.

Definition slug_ascii (h : bytes) : bytes :=
  map (fun b => if beqb b x20 then x2d else b) (filter permitted_ascii (map to_lower_ascii h)).
