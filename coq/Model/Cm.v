(* Model/Cm.v — the CommonMark formatter (src/cm.rs) as a function  opts -> build mode -> tree -> bytes.

   What is modelled: everything format_document_with_plugins does, i.e. CommonMarkFormatter::new,
   output (pending newlines, prefix insertion, wrapping by rewriting the vector at last_breakable),
   outc (the escaping decision table; its three escape forms go straight to the vector), cr, blankline,
   the Write impl, format (pre/post traversal,
   format_node returning false only for autolinks), get_in_tight_list_item, every format_* function
   of the default feature set (no shortcodes), shortest_unused_sequence, longest_char_sequence,
   is_autolink (with scanners::scheme), table_escape, and the final newline fix-up.

   What is NOT modelled:
   * the debug-only root.validate() of format_document (it panics on trees the validator rejects
     before the formatter runs; the correspondence check either feeds valid trees or calls
     format_commonmark_with_plugins, which does not validate);
   * minimize_commonmark (it re-parses its own output): experimental_minimize_commonmark = true gives
     the result OutOfScope;
   * `self.v.len() as i32` in output is taken without truncation (outputs below 2 GiB);
   * the field footnote_ix is written but never read: kept, for the record.

   The output vector `v` is kept REVERSED (v[v.len()-1] = head of the list) together with its length;
   the prefix is kept reversed as well (pushes go to its end).  Arithmetic on usize that can wrap
   (ol_stack counters, prefix.len() - 2 / - 4) takes the build mode `dbg`: overflow checks panic
   in debug builds and wrap modulo 2^64 in release builds, where truncate(len >= current) is a no-op.

   write!(self, ...) reaches `output` once per format piece; for Literal escaping without wrapping
   `output (a ++ b) = output b . output a` (Proofs/CmWrite.v output_lit_app, write_all_app), so each write! is one
   write_all of the concatenation here.  write_all of an empty buffer does not call write.

   No proofs here. *)
From Coq Require Import List NArith Bool Strings.String.
From V Require Import Base.Bytes Base.Res Gen.Ctype Gen.CmGen Model.Ast.
Import ListNotations.
Local Open Scope string_scope.
Local Open Scope list_scope.
Local Open Scope N_scope.

(* ---- leaf functions ---- *)

(* longest_char_sequence: (longest, current) folded over the literal *)
Fixpoint lcs_loop (l : bytes) (ch : byte) (longest current : N) : N :=
  match l with
  | [] => if longest <? current then current else longest
  | c :: r =>
    if beqb c ch then lcs_loop r ch longest (current + 1)
    else lcs_loop r ch (if longest <? current then current else longest) 0
  end.
Definition longest_char_sequence (l : bytes) (ch : byte) : N := lcs_loop l ch 0 0.

(* shortest_unused_sequence: the BTreeSet of run lengths is a duplicate-free list *)
Definition set_insert (n : N) (s : list N) : list N :=
  if existsb (N.eqb n) s then s else n :: s.
Definition set_contains (s : list N) (n : N) : bool := existsb (N.eqb n) s.

Fixpoint sus_runs (l : bytes) (f : byte) (used : list N) (current : N) : list N :=
  match l with
  | [] => if 0 <? current then set_insert current used else used
  | c :: r =>
    if beqb c f then sus_runs r f used (current + 1)
    else sus_runs r f (if 0 <? current then set_insert current used else used) 0
  end.

(* `while used.contains(&i) { i += 1 }`: at most |used| steps succeed (Proofs: fuel suffices) *)
Fixpoint sus_search (fuel : nat) (used : list N) (i : N) : res N :=
  match fuel with
  | O => OutOfFuel
  | S f => if set_contains used i then sus_search f used (i + 1) else Ok i
  end.

Definition shortest_unused_sequence (l : bytes) (f : byte) : res N :=
  let used := sus_runs l f [] 0 in
  sus_search (S (List.length used)) used 1.

(* format_code_block: fence character and fence length *)
Definition fence_char_of (info : bytes) : byte := if mem_byte x60 info then x7e else x60.
Definition fence_length (literal : bytes) (fence_char : byte) : N :=
  N.max 3 (longest_char_sequence literal fence_char + 1).

(* format_code: `pad` for a NON-EMPTY literal (literal[0] panics on an empty one before pad is used) *)
Definition code_pad (literal : bytes) : bool :=
  let all_space := forallb (fun c => beqb c x20 || beqb c x0d || beqb c x0a) literal in
  let first := hd x00 literal in
  let lastc := last literal x00 in
  let has_edge_space := beqb first x20 || beqb lastc x20 in
  let has_edge_backtick := beqb first x60 || beqb lastc x60 in
  has_edge_backtick || (negb all_space && has_edge_space).
(* what stands between the two delimiters of the code span *)
Definition code_body (literal : bytes) : bytes :=
  if code_pad literal then [x20] ++ literal ++ [x20] else literal.

(* scanners::scheme(s).is_some() *)
Fixpoint scheme_tail (s : bytes) (n : nat) : bool :=
  (* n = characters of the rest class consumed so far *)
  match s with
  | [] => false
  | c :: r =>
    if scheme_rest c then scheme_tail r (S n)
    else beqb c x3a && Nat.leb scheme_rest_min n && Nat.leb n scheme_rest_max
  end.
Definition scheme_matches (s : bytes) : bool :=
  match s with
  | c :: r => scheme_first c && scheme_tail r O
  | [] => false
  end.

Definition mailto : bytes := Eval compute in B "mailto:".
Definition trim_start_mailto (s : bytes) : bytes :=
  if starts_with s mailto then skipn 7 s else s.

Definition is_nil {A} (l : list A) : bool := match l with [] => true | _ => false end.

Definition is_autolink (url title : bytes) (ch : list node) : bool :=
  if is_nil url || negb (scheme_matches url) then false
  else if negb (is_nil title) then false
  else match ch with
       | Node (Text t) _ _ :: _ => bytes_eqb (trim_start_mailto url) t
       | _ => false
       end.

Definition table_escape (cur : node_value) (c : byte) : bool :=
  match cur with
  | Table _ | TableRow _ | TableCell => false
  | _ => beqb c x7c
  end.

(* NodeValue::block *)
Definition is_block (v : node_value) : bool :=
  match v with
  | Document | BlockQuote | FootnoteDefinition _ _ | NList _ | DescriptionList | DescriptionItem _ _ _
  | DescriptionTerm | DescriptionDetails | Item _ | CodeBlock _ | HtmlBlock _ _ | Paragraph | Heading _ _
  | ThematicBreak | Table _ | TableRow _ | TableCell | TaskItem _ | MultilineBlockQuote _ _ | Alert _ => true
  | _ => false
  end.

(* ---- formatter state ---- *)
Inductive esc := Literal | Normal | Url | Title.
Definition esc_eqb (a b : esc) : bool :=
  match a, b with
  | Literal, Literal | Normal, Normal | Url, Url | Title, Title => true
  | _, _ => false
  end.

Record st := mkSt {
  cur : node_value;         (* self.node (its value; table_escape reads nothing else) *)
  rv : bytes;               (* self.v, reversed *)
  vlen : N;                 (* self.v.len() *)
  rprefix : bytes;          (* self.prefix, reversed *)
  plen : N;                 (* self.prefix.len() *)
  column : N;
  need_cr : N;
  last_breakable : N;
  begin_line : bool;
  begin_content : bool;
  no_linebreaks : bool;
  in_tight : bool;          (* in_tight_list_item *)
  custom_escape : bool;     (* Some(table_escape) / None *)
  footnote_ix : N;
  ol_stack : list N         (* head = last element *)
}.

Definition st0 : st :=
  mkSt Document [] 0 [] 0 0 0 0 true true false false false 0 [].

Definition set_cur x s := mkSt x (rv s) (vlen s) (rprefix s) (plen s) (column s) (need_cr s) (last_breakable s) (begin_line s) (begin_content s) (no_linebreaks s) (in_tight s) (custom_escape s) (footnote_ix s) (ol_stack s).
Definition set_v x n s := mkSt (cur s) x n (rprefix s) (plen s) (column s) (need_cr s) (last_breakable s) (begin_line s) (begin_content s) (no_linebreaks s) (in_tight s) (custom_escape s) (footnote_ix s) (ol_stack s).
Definition set_prefix x n s := mkSt (cur s) (rv s) (vlen s) x n (column s) (need_cr s) (last_breakable s) (begin_line s) (begin_content s) (no_linebreaks s) (in_tight s) (custom_escape s) (footnote_ix s) (ol_stack s).
Definition set_column x s := mkSt (cur s) (rv s) (vlen s) (rprefix s) (plen s) x (need_cr s) (last_breakable s) (begin_line s) (begin_content s) (no_linebreaks s) (in_tight s) (custom_escape s) (footnote_ix s) (ol_stack s).
Definition set_need_cr x s := mkSt (cur s) (rv s) (vlen s) (rprefix s) (plen s) (column s) x (last_breakable s) (begin_line s) (begin_content s) (no_linebreaks s) (in_tight s) (custom_escape s) (footnote_ix s) (ol_stack s).
Definition set_last_breakable x s := mkSt (cur s) (rv s) (vlen s) (rprefix s) (plen s) (column s) (need_cr s) x (begin_line s) (begin_content s) (no_linebreaks s) (in_tight s) (custom_escape s) (footnote_ix s) (ol_stack s).
Definition set_begin_line x s := mkSt (cur s) (rv s) (vlen s) (rprefix s) (plen s) (column s) (need_cr s) (last_breakable s) x (begin_content s) (no_linebreaks s) (in_tight s) (custom_escape s) (footnote_ix s) (ol_stack s).
Definition set_begin_content x s := mkSt (cur s) (rv s) (vlen s) (rprefix s) (plen s) (column s) (need_cr s) (last_breakable s) (begin_line s) x (no_linebreaks s) (in_tight s) (custom_escape s) (footnote_ix s) (ol_stack s).
Definition set_no_linebreaks x s := mkSt (cur s) (rv s) (vlen s) (rprefix s) (plen s) (column s) (need_cr s) (last_breakable s) (begin_line s) (begin_content s) x (in_tight s) (custom_escape s) (footnote_ix s) (ol_stack s).
Definition set_in_tight x s := mkSt (cur s) (rv s) (vlen s) (rprefix s) (plen s) (column s) (need_cr s) (last_breakable s) (begin_line s) (begin_content s) (no_linebreaks s) x (custom_escape s) (footnote_ix s) (ol_stack s).
Definition set_custom_escape x s := mkSt (cur s) (rv s) (vlen s) (rprefix s) (plen s) (column s) (need_cr s) (last_breakable s) (begin_line s) (begin_content s) (no_linebreaks s) (in_tight s) x (footnote_ix s) (ol_stack s).
Definition set_footnote_ix x s := mkSt (cur s) (rv s) (vlen s) (rprefix s) (plen s) (column s) (need_cr s) (last_breakable s) (begin_line s) (begin_content s) (no_linebreaks s) (in_tight s) (custom_escape s) x (ol_stack s).
Definition set_ol_stack x s := mkSt (cur s) (rv s) (vlen s) (rprefix s) (plen s) (column s) (need_cr s) (last_breakable s) (begin_line s) (begin_content s) (no_linebreaks s) (in_tight s) (custom_escape s) (footnote_ix s) x.

(* self.v.push(c) *)
Definition push (c : byte) (s : st) : st := set_v (c :: rv s) (vlen s + 1) s.
(* self.v.extend(&self.prefix) *)
Definition extend_prefix (s : st) : st := set_v (rprefix s ++ rv s) (vlen s + plen s) s.
(* self.v.extend(bytes), bytes given in forward order *)
Definition extend (b : bytes) (s : st) : st := set_v (rev_append b (rv s)) (vlen s + N.of_nat (List.length b)) s.

(* write!(self.prefix, ...) *)
Definition prefix_push (b : bytes) (s : st) : st :=
  set_prefix (rev_append b (rprefix s)) (plen s + N.of_nat (List.length b)) s.
(* self.prefix.truncate(new_len) *)
Definition prefix_truncate (new_len : N) (s : st) : st :=
  if plen s <=? new_len then s
  else set_prefix (skipn (N.to_nat (plen s - new_len)) (rprefix s)) new_len s.

Definition two64 : N := 18446744073709551616.

(* `self.prefix.len() - k; truncate`: checked in debug builds, wrapping (then a no-op) in release *)
Definition prefix_pop (dbg : bool) (site : string) (k : N) (s : st) : res st :=
  if plen s <? k then
    if dbg then Panic site else Ok (prefix_truncate (plen s + two64 - k) s)
  else Ok (prefix_truncate (plen s - k) s).

Definition cr (s : st) : st := set_need_cr (N.max (need_cr s) 1) s.
Definition blankline (s : st) : st := set_need_cr (N.max (need_cr s) 2) s.

(* ---- output ---- *)

(* the `while self.need_cr > 0` loop; `look` is the part of the reversed ORIGINAL vector at and
   below index k (k never sees the bytes pushed by the loop itself); n = need_cr *)
Fixpoint flush_loop (n : nat) (look : bytes) (s : st) : st :=
  match n with
  | O => s
  | S n' =>
    let '(look', s1) :=
      match look with
      | [] => ([], s)                                   (* k < 0: k -= 1 *)
      | c :: r =>
        if beqb c x0a then (r, s)                       (* k -= 1 *)
        else (look,
              (* self.v.last() == Some(&b'\n'): this newline ends an empty line, the blank line gets the prefix *)
              push x0a (match rv s with l :: _ => if beqb l x0a then extend_prefix s else s | [] => s end))
      end in
    let s2 := set_need_cr (need_cr s1 - 1)
              (set_begin_content true (set_begin_line true (set_last_breakable 0 (set_column 0 s1)))) in
    flush_loop n' look' s2
  end.

Fixpoint drop_spaces (b : bytes) : bytes :=
  match b with
  | c :: r => if beqb c x20 then drop_spaces r else b
  | [] => []
  end.

(* buf.get(i + 1).map_or(false, |&c| isdigit(c) || c == b'-' || c == b'+' || c == b'='): no line break
   before such a byte *)
Definition head_no_break (b : bytes) : bool :=
  match b with c :: _ => isdigit c || mem_byte c cm_no_break_before | [] => false end.

(* the wrap test at the end of each iteration *)
Definition wrap_check (width : N) (s : st) : st :=
  if (0 <? width) && (width <? column s) && negb (begin_line s) && (0 <? last_breakable s) then
    let nrem := N.to_nat (vlen s - (last_breakable s + 1)) in
    let remainder := firstn nrem (rv s) in                      (* reversed v[last_breakable+1..] *)
    let kept := skipn (N.to_nat (vlen s - last_breakable s)) (rv s) in  (* truncate(last_breakable) *)
    let rlen := vlen s - (last_breakable s + 1) in
    let s1 := set_v (remainder ++ rprefix s ++ x0a :: kept) (last_breakable s + 1 + plen s + rlen) s in
    set_begin_content false (set_begin_line false (set_last_breakable 0 (set_column (plen s + rlen) s1)))
  else s.

Section Output.
  Variable width : N.
  (* what the non-Literal branch calls: outc c escaping nextc *)
  Variable outc_f : byte -> esc -> option byte -> st -> st.

  (* one iteration of `while i < buf.len()` for buf[i] = c, rest = buf[i+1..], in three stages *)
  Definition step_prefix (s : st) : st :=
    if begin_line s then set_column (plen s) (extend_prefix s) else s.
  Definition step_custom (c : byte) (s : st) : st :=
    if custom_escape s && table_escape (cur s) c then push x5c s else s.
  Definition step_main (wrap : bool) (e : esc) (c : byte) (rest : bytes) (s : st) : st * bool :=
    let nextc := match rest with n :: _ => Some n | [] => None end in
    if beqb c x20 && wrap then
      if negb (begin_line s) then
        let last_nonspace := vlen s in
        let s := set_begin_content false (set_begin_line false (set_column (column s + 1) (push x20 s))) in
        let s := if negb (head_no_break (drop_spaces rest)) then set_last_breakable last_nonspace s else s in
        (s, true)
      else (s, false)
    else if esc_eqb e Literal then
      if beqb c x0a then
        (set_last_breakable 0 (set_begin_content true (set_begin_line true (set_column 0 (push x0a s)))), false)
      else
        (set_begin_content (begin_content s && isdigit c) (set_begin_line false (set_column (column s + 1) (push c s))), false)
    else
      let s := outc_f c e nextc s in
      (set_begin_content (begin_content s && isdigit c) (set_begin_line false s), false).

  Definition out_step (wrap : bool) (e : esc) (c : byte) (rest : bytes) (s : st) : st * bool :=
    let '(s, skipping) := step_main wrap e c rest (step_custom c (step_prefix s)) in
    (wrap_check width s, skipping).

  (* `skipping`: the inner `while buf.get(i + 1) == Some(' ') { i += 1 }` consumed this byte *)
  Fixpoint out_loop (wrap : bool) (e : esc) (buf : bytes) (skipping : bool) (s : st) : st :=
    match buf with
    | [] => s
    | c :: r =>
      if skipping && beqb c x20 then out_loop wrap e r true s
      else let '(s', sk) := out_step wrap e c r s in out_loop wrap e r sk s'
    end.

  Definition output_gen (buf : bytes) (wrap : bool) (e : esc) (s : st) : st :=
    let wrap := wrap && negb (no_linebreaks s) in
    let s := if in_tight s && (1 <? need_cr s) then set_need_cr 1 s else s in
    let s := flush_loop (N.to_nat (need_cr s)) (rv s) s in
    out_loop wrap e buf false s.
End Output.

(* output restricted to Escaping::Literal (what the Write impl calls; outc is never reached) *)
Definition output_lit (width : N) (buf : bytes) (wrap : bool) (s : st) : st :=
  output_gen width (fun _ _ _ s => s) buf wrap Literal s.

Definition write_all (width : N) (buf : bytes) (s : st) : st :=
  match buf with [] => s | _ => output_lit width buf false s end.

Definition needs_escaping (c : byte) (e : esc) (nextc : byte) (begin_content follows_digit : bool) : bool :=
  (bN c <? 128) && negb (esc_eqb e Literal) &&
  ((esc_eqb e Normal &&
    ((bN c <? 32)
     || mem_byte c cm_esc_normal
     || (beqb c x26 && isalpha nextc)
     || (beqb c x21 && beqb nextc x5b)
     || (begin_content && mem_byte c cm_esc_begin_nodigit && negb follows_digit)
     || (begin_content && mem_byte c cm_esc_begin_afterdigit && follows_digit && (beqb nextc x00 || isspace nextc))))
   || (esc_eqb e Url && (mem_byte c cm_esc_url || isspace c))
   || (esc_eqb e Title && mem_byte c cm_esc_title)).

Definition outc (c : byte) (e : esc) (nextc : option byte) (s : st) : st :=
  let follows_digit := match rv s with l :: _ => isdigit l | [] => false end in
  let nextc := match nextc with Some n => n | None => x00 end in
  if needs_escaping c e nextc (begin_content s) follows_digit then
    if esc_eqb e Url && isspace c then
      set_column (column s + 3) (extend (x25 :: hex2 c) s)
    else if ispunct c then
      set_column (column s + 2) (extend [x5c; c] s)
    else
      let str := [x26; x23] ++ dec (bN c) ++ [x3b] in
      set_column (column s + N.of_nat (List.length str)) (extend str s)
  else set_column (column s + 1) (push c s).

Definition output (width : N) (buf : bytes) (wrap : bool) (e : esc) (s : st) : st :=
  output_gen width outc buf wrap e s.

(* ---- context of a node during the traversal ---- *)
Record cctx := mkC {
  c_anc : list node_value;        (* values of parent, grandparent, ... *)
  c_prev : option node_value;     (* previous sibling *)
  c_next : option node_value      (* next sibling *) }.

Definition root_cctx : cctx := mkC [] None None.

Definition is_item (v : node_value) : bool :=
  match v with Item _ | TaskItem _ => true | _ => false end.

(* nodes::containing_block on the chain node :: ancestors: the block and ITS ancestors *)
Fixpoint containing_block (chain : list node_value) : option (node_value * list node_value) :=
  match chain with
  | [] => None
  | v :: r => if is_block v then Some (v, r) else containing_block r
  end.

Definition get_in_tight_list_item (v : node_value) (anc : list node_value) : res bool :=
  match containing_block (v :: anc) with
  | None => Ok false
  | Some (tmp, up) =>
    if is_item tmp then
      match up with
      | [] => Panic "cm.rs:get_in_tight_list_item:tmp.parent().unwrap()"
      | NList nl :: _ => Ok (l_tight nl)
      | _ :: _ => Ok false
      end
    else
      match up with
      | [] => Ok false
      | parent :: up2 =>
        if is_item parent then
          match up2 with
          | [] => Panic "cm.rs:get_in_tight_list_item:parent.parent().unwrap()"
          | NList nl :: _ => Ok (l_tight nl)
          | _ :: _ => Ok false
          end
        else Ok false
      end
  end.

Definition spaces (n : nat) : bytes := repeat_bytes n x20.

Definition alert_upper (t : alert_type) : bytes :=
  match t with
  | Note => B "NOTE" | Tip => B "TIP" | Important => B "IMPORTANT"
  | Warning => B "WARNING" | Caution => B "CAUTION"
  end.

Definition align_marker (a : align) : bytes :=
  match a with
  | ALeft => cm_align_left | ACenter => cm_align_center | ARight => cm_align_right | ANone => cm_align_none
  end.

Section Format.
  Variable o : opts.
  Variable dbg : bool.

  Let width := o_width o.
  Definition w (b : bytes) (s : st) : st := write_all width b s.     (* write!(self, ...) / write_all *)
  Definition allow_wrap : bool := (0 <? o_width o) && negb (o_hardbreaks o).

  Definition format_block_quote (entering : bool) (s : st) : res st :=
    if entering then
      Ok (prefix_push [x3e; x20] (set_begin_content true (w [x3e; x20] s)))
    else
      do s1 <- prefix_pop dbg "cm.rs:format_block_quote:prefix.len() - 2" 2 s;
      Ok (blankline s1).

  Definition format_list (l : node_list) (c : cctx) (entering : bool) (s : st) : res st :=
    let ordered := match l_type l with Ordered => true | Bullet => false end in
    if entering then
      Ok (if ordered then set_ol_stack (l_start l :: ol_stack s) s else s)
    else
      let s := if ordered then set_ol_stack (tl (ol_stack s)) s else s in
      match c_next c with
      | Some (CodeBlock _) | Some (NList _) => Ok (blankline (w cm_end_list (cr s)))
      | _ => Ok s
      end.

  (* format_item; v = the value of the node itself (Item or TaskItem) *)
  Definition format_item (v : node_value) (c : cctx) (entering : bool) (s : st) : res st :=
    match c_anc c with
    | [] => Panic "cm.rs:format_item:node.parent().unwrap()"
    | NList parent :: _ =>
      match l_type parent with
      | Bullet =>
        if entering then
          Ok (prefix_push (spaces 2) (set_begin_content true (w [byte_of_N (o_list_style o); x20] s)))
        else
          Ok (cr (prefix_truncate (if 2 <? plen s then plen s - 2 else 0) s))
      | Ordered =>
        do r <-
          (match ol_stack s with
           | last_stack :: rest =>
             if entering then
               if last_stack + 1 <? two64 then Ok (last_stack, set_ol_stack ((last_stack + 1) :: rest) s)
               else if dbg then Panic "cm.rs:format_item:*last_stack += 1 (overflow)"
                    else Ok (last_stack, set_ol_stack (0 :: rest) s)
             else
               if 0 <? last_stack then Ok (last_stack - 1, s)
               else if dbg then Panic "cm.rs:format_item:list_number - 1 (overflow)"
                    else Ok (two64 - 1, s)
           | [] =>
             match v with
             | Item ni => Ok (l_start ni, s)
             | TaskItem _ => Ok (l_start parent, s)
             | _ => Panic "cm.rs:format_item:unreachable!() (neither Item nor TaskItem)"
             end
           end);
        let '(list_number, s) := r in
        let marker0 := dec list_number ++ [match l_delim parent with Paren => x29 | Period => x2e end; x20] in
        let listmarker := marker0 ++ spaces (Nat.sub (N.to_nat (o_ol_width o)) (List.length marker0)) in
        let marker_width := List.length listmarker in
        if entering then
          Ok (prefix_push (spaces marker_width) (set_begin_content true (w listmarker s)))
        else
          let mw := N.of_nat marker_width in
          Ok (cr (prefix_truncate (if mw <? plen s then plen s - mw else 0) s))
      end
    | _ :: _ => Panic "cm.rs:format_item:unreachable!() (parent is not a list)"
    end.

  Definition format_heading (level : N) (entering : bool) (s : st) : res st :=
    if entering then
      Ok (set_no_linebreaks true (set_begin_content true (w (repeat_bytes (N.to_nat level) x23 ++ [x20]) s)))
    else Ok (blankline (set_no_linebreaks false s)).

  Definition nth_rev_isspace (l : bytes) (k : nat) : bool :=
    (* isspace(literal[literal.len() - 1 - k]) *)
    match nth_error (rev l) k with Some c => isspace c | None => false end.

  Definition format_code_block (cb : node_code_block) (c : cctx) (entering : bool) (s : st) : res st :=
    if entering then
      let first_in_list_item :=
        (match c_prev c with None => true | Some _ => false end) &&
        (match c_anc c with p :: _ => is_item p | [] => false end) in
      let s := if negb first_in_list_item then blankline s else s in
      let info := cb_info cb in
      let literal := cb_literal cb in
      if negb (negb (is_nil info)
               || Nat.leb (List.length literal) 2
               || (match literal with c0 :: _ => isspace c0 | [] => false end)
               || first_in_list_item
               || o_prefer_fenced o
               || (nth_rev_isspace literal 0 && nth_rev_isspace literal 1))
      then
        let s := w (spaces 4) s in
        let s := prefix_push (spaces 4) s in
        let s := w literal s in
        do s <- prefix_pop dbg "cm.rs:format_code_block:prefix.len() - 4" 4 s;
        Ok (blankline s)
      else
        let fence_char := fence_char_of info in
        let numticks := N.to_nat (fence_length literal fence_char) in
        let s := w (repeat_bytes numticks fence_char) s in
        let s := if negb (is_nil info) then w info (w [x20] s) else s in
        let s := cr s in
        let s := w literal s in
        let s := cr s in
        let s := w (repeat_bytes numticks fence_char) s in
        Ok (blankline s)
    else Ok s.

  Definition format_code (literal : bytes) (entering : bool) (s : st) : res st :=
    if entering then
      do numticks <- shortest_unused_sequence literal x60;
      let s := w (repeat_bytes (N.to_nat numticks) x60) s in
      match literal with
      | [] => Panic "cm.rs:format_code:literal[0] (empty code literal)"
      | _ :: _ =>
        let pad := code_pad literal in
        let s := if pad then w [x20] s else s in
        let s := output width literal allow_wrap Literal s in
        let s := if pad then w [x20] s else s in
        Ok (w (repeat_bytes (N.to_nat numticks) x60) s)
      end
    else Ok s.

  Definition url_title_tail (url title : bytes) (title_wrap : bool) (s : st) : st :=
    let s := w [x5d; x28] s in
    let s := if is_nil url && negb (is_nil title) then w [x3c; x3e] s else s in
    let s := output width url false Url s in
    let s := if negb (is_nil title) then
               let s := if title_wrap then output width [x20; x22] allow_wrap Literal s else w [x20; x22] s in
               let s := output width title false Title s in
               w [x22] s
             else s in
    w [x29] s.

  Definition format_table_cell (c : cctx) (entering : bool) (s : st) : res st :=
    if entering then Ok (w [x20] s)
    else
      let s := w [x20; x7c] s in
      match c_anc c with
      | [] => Panic "cm.rs:format_table_cell:node.parent().unwrap()"
      | TableRow in_header :: up =>
        if in_header && (match c_next c with None => true | Some _ => false end) then
          match up with
          | [] => Panic "cm.rs:format_table_cell:parent().unwrap().parent().unwrap()"
          | Table t :: _ =>
            let s := w [x7c] (cr s) in
            let s := fold_left (fun s a => w ([x20] ++ align_marker a ++ [x20; x7c]) s) (t_aligns t) s in
            Ok (cr s)
          | _ :: _ => Panic "cm.rs:format_table_cell:panic!() (grandparent is not a table)"
          end
        else Ok s
      | _ :: _ => Panic "cm.rs:format_table_cell:panic!() (parent is not a row)"
      end.

  Definition format_alert (a : node_alert) (entering : bool) (s : st) : res st :=
    if entering then
      let s := w ([x3e; x20; x5b; x21] ++ alert_upper (a_type a) ++ [x5d]) s in
      let s := match a_title a with Some t => w ([x20] ++ t) s | None => s end in
      let s := w [x0a] s in
      let s := w [x3e; x20] s in
      Ok (prefix_push [x3e; x20] (set_begin_content true s))
    else
      do s1 <- prefix_pop dbg "cm.rs:format_alert:prefix.len() - 2" 2 s;
      Ok (blankline s1).

  Definition parent_is_item (c : cctx) : bool :=
    match c_anc c with p :: _ => is_item p | [] => false end.

  (* the head of format_node: self.node = node and the in_tight_list_item update *)
  Definition update_tight (c : cctx) (v : node_value) (entering : bool) (s : st) : res st :=
    let s := set_cur v s in
    if entering then
      if parent_is_item c then
        do t <- get_in_tight_list_item v (c_anc c); Ok (set_in_tight t s)
      else Ok s
    else
      match v with
      | NList _ =>
        if parent_is_item c then
          do t <- get_in_tight_list_item v (c_anc c); Ok (set_in_tight t s)
        else Ok (set_in_tight false s)
      | _ => Ok s
      end.

  (* the `match node.data.borrow().value` of format_node: new state and the bool it returns *)
  Definition format_node_body (c : cctx) (n : node) (entering : bool) (s : st) : res (st * bool) :=
    match n with
    | Node v _ ch =>
    let next_is_block := match c_next c with None => true | Some x => is_block x end in
    let yes (r : res st) : res (st * bool) := do s' <- r; Ok (s', true) in
    match v with
    | Document => yes (Ok s)
    | FrontMatter fm => yes (Ok (if entering then output width fm false Literal s else s))
    | BlockQuote => yes (format_block_quote entering s)
    | NList l => yes (format_list l c entering s)
    | Item _ => yes (format_item v c entering s)
    | DescriptionList => yes (Ok s)
    | DescriptionItem _ _ _ => yes (Ok s)
    | DescriptionTerm => yes (Ok s)
    | DescriptionDetails => yes (Ok (if entering then w [x3a; x20] s else s))
    | Heading level _ => yes (format_heading level entering s)
    | CodeBlock cb => yes (format_code_block cb c entering s)
    | HtmlBlock _ lit => yes (Ok (if entering then blankline (w lit (blankline s)) else s))
    | ThematicBreak => yes (Ok (if entering then blankline (w cm_hr (blankline s)) else s))
    | Paragraph => yes (Ok (if negb entering then blankline s else s))
    | Text lit => yes (Ok (if entering then output width lit allow_wrap Normal s else s))
    | LineBreak =>
      yes (Ok (if entering then
                 cr (if negb (o_hardbreaks o) && negb next_is_block then w [x5c] s else s)
               else s))
    | SoftBreak =>
      yes (Ok (if entering then
                 if negb (no_linebreaks s) && (o_width o =? 0) && negb (o_hardbreaks o) then cr s
                 else if o_hardbreaks o then output width [x0a] allow_wrap Literal s
                 else output width [x20] allow_wrap Literal s
               else s))
    | Code _ lit => yes (format_code lit entering s)
    | HtmlInline lit => yes (Ok (if entering then w lit s else s))
    | Raw lit => yes (Ok (if entering then w lit s else s))
    | Strong =>
      yes (Ok (match c_anc c with
               | Strong :: _ => s
               | _ => w [x2a; x2a] s
               end))
    | Emph =>
      let emph_delim :=
        if (match c_anc c with Emph :: _ => true | _ => false end)
           && (match c_next c with None => true | Some _ => false end)
           && (match c_prev c with None => true | Some _ => false end)
        then x5f else x2a in
      yes (Ok (w [emph_delim] s))
    | TaskItem symbol =>
      yes (do s1 <- format_item v c entering s;
           Ok (if entering then
                 w ([x5b] ++ (match symbol with Some sy => sy | None => [x20] end) ++ [x5d; x20]) s1
               else s1))
    | Strikethrough => yes (Ok (w [x7e; x7e] s))
    | Superscript => yes (Ok (w [x5e] s))
    | Link url title =>
      if is_autolink url title ch then
        if entering then Ok (w ([x3c] ++ trim_start_mailto url ++ [x3e]) s, false)
        else Ok (s, true)
      else if entering then Ok (w [x5b] s, true)
      else Ok (url_title_tail url title false s, true)
    | Image url title =>
      yes (Ok (if entering then w [x21; x5b] s else url_title_tail url title true s))
    | Table _ =>
      yes (Ok (blankline (set_custom_escape entering s)))
    | TableRow _ => yes (Ok (if entering then w [x7c] (cr s) else s))
    | TableCell => yes (format_table_cell c entering s)
    | FootnoteDefinition name _ =>
      yes (if entering then
             let s := set_footnote_ix (footnote_ix s + 1) s in
             Ok (prefix_push (spaces 4) (w ([x5b; x5e] ++ name ++ [x5d; x3a; x0a]) s))
           else prefix_pop dbg "cm.rs:format_footnote_definition:prefix.len() - 4" 4 s)
    | FootnoteReference name _ _ =>
      yes (Ok (if entering then w [x5d] (w name (w [x5b; x5e] s)) else s))
    | MultilineBlockQuote _ _ => yes (format_block_quote entering s)
    | Escaped => yes (Ok s)
    | Math dollar display lit =>
      yes (Ok (if entering then
                 let start_fence := if dollar then (if display then [x24; x24] else [x24]) else [x24; x60] in
                 let end_fence := if dollar then start_fence else [x60; x24] in
                 let s := output width start_fence false Literal s in
                 let s := output width lit allow_wrap Literal s in
                 output width end_fence false Literal s
               else s))
    | WikiLink url =>
      (* extension.wikilinks(): (before, after) = (false,false) None; (true,false) TitleFirst; else UrlFirst *)
      let url_first := o_wikilinks_after o in
      let title_first := o_wikilinks_before o && negb (o_wikilinks_after o) in
      yes (Ok (if entering then
                 let s := w [x5b; x5b] s in
                 if url_first then w [x7c] (output width url false Url s) else s
               else
                 let s := if title_first then output width url false Url (w [x7c] s) else s in
                 w [x5d; x5d] s))
    | Underline => yes (Ok (w [x5f; x5f] s))
    | Subscript => yes (Ok (w [x7e] s))
    | SpoileredText => yes (Ok (w [x7c; x7c] s))
    | EscapedTag net => yes (Ok (output width net false Literal s))
    | Alert a => yes (format_alert a entering s)
    end
    end.

  Definition format_node (c : cctx) (n : node) (entering : bool) (s : st) : res (st * bool) :=
    do s1 <- update_tight c (nval n) entering s;
    format_node_body c n entering s1.

  Definition next_val (l : list node) : option node_value :=
    match l with x :: _ => Some (nval x) | [] => None end.

  (* format: the work stack with Pre/Post phases visits a node, then its children in order, then
     the node again; children are skipped when the Pre visit returns false *)
  Fixpoint fmt (c : cctx) (n : node) (s : st) {struct n} : res st :=
    match n with
    | Node v _ ch =>
      do r <- format_node c n true s;
      let '(s1, descend) := r in
      if descend then
        do s2 <-
          (fix go (l : list node) (prev : option node_value) (s : st) {struct l} : res st :=
             match l with
             | [] => Ok s
             | x :: r =>
               do sx <- fmt (mkC (v :: c_anc c) prev (next_val r)) x s;
               go r (Some (nval x)) sx
             end) ch None s1;
        do r3 <- format_node c n false s2;
        Ok (fst r3)
      else Ok s1
    end.

  (* the children loop, stand-alone (same text as the local fix; Proofs show they agree) *)
  Fixpoint fmt_list (anc : list node_value) (l : list node) (prev : option node_value) (s : st) {struct l} : res st :=
    match l with
    | [] => Ok s
    | x :: r =>
      do sx <- fmt (mkC anc prev (next_val r)) x s;
      fmt_list anc r (Some (nval x)) sx
    end.
End Format.

Inductive cm_result :=
| CmOk (out : bytes)
| CmPanic (site : string)
| CmFuel
| CmOutOfScope.       (* experimental_minimize_commonmark *)

(* format_document_with_plugins *)
Definition format_document (o : opts) (dbg : bool) (root : node) : cm_result :=
  match fmt o dbg root_cctx root st0 with
  | Panic site => CmPanic site
  | OutOfFuel => CmFuel
  | Ok s =>
    let result := match rv s with
                  | [] => []
                  | l :: _ => if beqb l x0a then rv s else x0a :: rv s
                  end in
    if o_experimental_minimize o then CmOutOfScope else CmOk (rev' result)
  end.
