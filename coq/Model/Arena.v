(* Model/Arena.v — src/arena_tree.rs: the five link cells of a Node and the five mutating operations
   (detach, append, prepend, insert_after, insert_before), transcribed statement by statement.

   A node is identified by a natural number (in the harness: its u32 payload; in Rust: its address in
   the typed arena).  A heap maps every id to its five links; ids that were never touched hold the
   all-None cell of Node::new.  Cell::take is `read, then write None`; Cell::set is a write; the order
   of reads and writes is the order of the Rust statements, so aliasing (self == new_child, the new
   child being an ancestor, a node that is its own parent, ...) behaves as in the Rust code.  No
   precondition is assumed: Rust checks none.

   debug_assert!(..) is evaluated only when `dbg = true` (debug-assertions on: the `debug` profile of
   the harness); a failing assertion is `Panic "arena_tree.rs:<fn>:assert<k>"`, an `.unwrap()` on None
   inside an assertion is `Panic "arena_tree.rs:<fn>:unwrap<k>"`.  With `dbg = false` (release) the
   operations never panic. *)
From Coq Require Import List Arith Bool Strings.String.
From V Require Import Base.Res.
Import ListNotations.
Local Open Scope string_scope.
Local Open Scope list_scope.

Definition id := nat.

Record cell := mkcell {
  c_parent : option id;
  c_prev : option id;      (* previous_sibling *)
  c_next : option id;      (* next_sibling *)
  c_first : option id;     (* first_child *)
  c_last : option id       (* last_child *)
}.

Definition heap := id -> cell.

(* Node::new *)
Definition new_cell : cell := mkcell None None None None None.
Definition init : heap := fun _ => new_cell.

(* ---- Cell::get *)
Definition parent (h : heap) (i : id) := c_parent (h i).
Definition prev (h : heap) (i : id) := c_prev (h i).
Definition next (h : heap) (i : id) := c_next (h i).
Definition first (h : heap) (i : id) := c_first (h i).
Definition last (h : heap) (i : id) := c_last (h i).

(* ---- Cell::set *)
Definition upd (h : heap) (i : id) (c : cell) : heap := fun j => if Nat.eqb j i then c else h j.
Definition set_parent (h : heap) (i : id) (v : option id) : heap :=
  upd h i (mkcell v (c_prev (h i)) (c_next (h i)) (c_first (h i)) (c_last (h i))).
Definition set_prev (h : heap) (i : id) (v : option id) : heap :=
  upd h i (mkcell (c_parent (h i)) v (c_next (h i)) (c_first (h i)) (c_last (h i))).
Definition set_next (h : heap) (i : id) (v : option id) : heap :=
  upd h i (mkcell (c_parent (h i)) (c_prev (h i)) v (c_first (h i)) (c_last (h i))).
Definition set_first (h : heap) (i : id) (v : option id) : heap :=
  upd h i (mkcell (c_parent (h i)) (c_prev (h i)) (c_next (h i)) v (c_last (h i))).
Definition set_last (h : heap) (i : id) (v : option id) : heap :=
  upd h i (mkcell (c_parent (h i)) (c_prev (h i)) (c_next (h i)) (c_first (h i)) v).

Definition is_some {A} (o : option A) : bool := match o with Some _ => true | None => false end.
Definition opt_is (o : option id) (i : id) : bool := match o with Some j => Nat.eqb j i | None => false end.

(* ---- pub fn detach(&self) *)
Definition detach (h : heap) (self : id) : heap :=
  (* let parent = self.parent.take(); *)
  let p := parent h self in
  let h := set_parent h self None in
  (* let previous_sibling = self.previous_sibling.take(); *)
  let ps := prev h self in
  let h := set_prev h self None in
  (* let next_sibling = self.next_sibling.take(); *)
  let ns := next h self in
  let h := set_next h self None in
  (* if let Some(next_sibling) = next_sibling { next_sibling.previous_sibling.set(previous_sibling); }
     else if let Some(parent) = parent { parent.last_child.set(previous_sibling); } *)
  let h := match ns with
           | Some n => set_prev h n ps
           | None => match p with
                     | Some q => set_last h q ps
                     | None => h
                     end
           end in
  (* if let Some(previous_sibling) = previous_sibling { previous_sibling.next_sibling.set(next_sibling); }
     else if let Some(parent) = parent { parent.first_child.set(next_sibling); } *)
  match ps with
  | Some q => set_next h q ns
  | None => match p with
            | Some q => set_first h q ns
            | None => h
            end
  end.

(* ---- pub fn append(&'a self, new_child) *)
Definition append (dbg : bool) (h : heap) (self new_child : id) : res heap :=
  (* new_child.detach(); *)
  let h := detach h new_child in
  (* new_child.parent.set(Some(self)); *)
  let h := set_parent h new_child (Some self) in
  (* if let Some(last_child) = self.last_child.take() { *)
  let lc := last h self in
  let h := set_last h self None in
  do h <- match lc with
          | Some l =>
            (* new_child.previous_sibling.set(Some(last_child)); *)
            let h := set_prev h new_child (Some l) in
            (* debug_assert!(last_child.next_sibling.get().is_none()); *)
            if dbg && is_some (next h l) then Panic "arena_tree.rs:append:assert1" else
            (* last_child.next_sibling.set(Some(new_child)); *)
            Ok (set_next h l (Some new_child))
          | None =>
            (* debug_assert!(self.first_child.get().is_none()); *)
            if dbg && is_some (first h self) then Panic "arena_tree.rs:append:assert2" else
            (* self.first_child.set(Some(new_child)); *)
            Ok (set_first h self (Some new_child))
          end;
  (* self.last_child.set(Some(new_child)); *)
  Ok (set_last h self (Some new_child)).

(* ---- pub fn prepend(&'a self, new_child) *)
Definition prepend (dbg : bool) (h : heap) (self new_child : id) : res heap :=
  let h := detach h new_child in
  let h := set_parent h new_child (Some self) in
  (* if let Some(first_child) = self.first_child.take() { *)
  let fc := first h self in
  let h := set_first h self None in
  do h <- match fc with
          | Some f =>
            (* debug_assert!(first_child.previous_sibling.get().is_none()); *)
            if dbg && is_some (prev h f) then Panic "arena_tree.rs:prepend:assert1" else
            (* first_child.previous_sibling.set(Some(new_child)); *)
            let h := set_prev h f (Some new_child) in
            (* new_child.next_sibling.set(Some(first_child)); *)
            Ok (set_next h new_child (Some f))
          | None =>
            (* debug_assert!(self.first_child.get().is_none());   (sic: first_child, already taken) *)
            if dbg && is_some (first h self) then Panic "arena_tree.rs:prepend:assert2" else
            (* self.last_child.set(Some(new_child)); *)
            Ok (set_last h self (Some new_child))
          end;
  (* self.first_child.set(Some(new_child)); *)
  Ok (set_first h self (Some new_child)).

(* ---- pub fn insert_after(&'a self, new_sibling) *)
Definition insert_after (dbg : bool) (h : heap) (self new_sibling : id) : res heap :=
  (* new_sibling.detach(); *)
  let h := detach h new_sibling in
  (* new_sibling.parent.set(self.parent.get()); *)
  let h := set_parent h new_sibling (parent h self) in
  (* new_sibling.previous_sibling.set(Some(self)); *)
  let h := set_prev h new_sibling (Some self) in
  (* if let Some(next_sibling) = self.next_sibling.take() { *)
  let ns := next h self in
  let h := set_next h self None in
  do h <- match ns with
          | Some n =>
            (* debug_assert!(std::ptr::eq(next_sibling.previous_sibling.get().unwrap(), self)); *)
            do _ <- (if dbg then
                       match prev h n with
                       | None => Panic "arena_tree.rs:insert_after:unwrap1"
                       | Some q => if Nat.eqb q self then Ok tt else Panic "arena_tree.rs:insert_after:assert1"
                       end
                     else Ok tt);
            (* next_sibling.previous_sibling.set(Some(new_sibling)); *)
            let h := set_prev h n (Some new_sibling) in
            (* new_sibling.next_sibling.set(Some(next_sibling)); *)
            Ok (set_next h new_sibling (Some n))
          | None =>
            (* } else if let Some(parent) = self.parent.get() { *)
            match parent h self with
            | Some p =>
              (* debug_assert!(std::ptr::eq(parent.last_child.get().unwrap(), self)); *)
              do _ <- (if dbg then
                         match last h p with
                         | None => Panic "arena_tree.rs:insert_after:unwrap2"
                         | Some q => if Nat.eqb q self then Ok tt else Panic "arena_tree.rs:insert_after:assert2"
                         end
                       else Ok tt);
              (* parent.last_child.set(Some(new_sibling)); *)
              Ok (set_last h p (Some new_sibling))
            | None => Ok h
            end
          end;
  (* self.next_sibling.set(Some(new_sibling)); *)
  Ok (set_next h self (Some new_sibling)).

(* ---- pub fn insert_before(&'a self, new_sibling) *)
Definition insert_before (dbg : bool) (h : heap) (self new_sibling : id) : res heap :=
  let h := detach h new_sibling in
  (* new_sibling.parent.set(self.parent.get()); *)
  let h := set_parent h new_sibling (parent h self) in
  (* new_sibling.next_sibling.set(Some(self)); *)
  let h := set_next h new_sibling (Some self) in
  (* if let Some(previous_sibling) = self.previous_sibling.take() { *)
  let ps := prev h self in
  let h := set_prev h self None in
  do h <- match ps with
          | Some q =>
            (* new_sibling.previous_sibling.set(Some(previous_sibling)); *)
            let h := set_prev h new_sibling (Some q) in
            (* debug_assert!(std::ptr::eq(previous_sibling.next_sibling.get().unwrap(), self)); *)
            do _ <- (if dbg then
                       match next h q with
                       | None => Panic "arena_tree.rs:insert_before:unwrap1"
                       | Some r => if Nat.eqb r self then Ok tt else Panic "arena_tree.rs:insert_before:assert1"
                       end
                     else Ok tt);
            (* previous_sibling.next_sibling.set(Some(new_sibling)); *)
            Ok (set_next h q (Some new_sibling))
          | None =>
            (* } else if let Some(parent) = self.parent.get() { *)
            match parent h self with
            | Some p =>
              (* debug_assert!(std::ptr::eq(parent.first_child.get().unwrap(), self)); *)
              do _ <- (if dbg then
                         match first h p with
                         | None => Panic "arena_tree.rs:insert_before:unwrap2"
                         | Some r => if Nat.eqb r self then Ok tt else Panic "arena_tree.rs:insert_before:assert2"
                         end
                       else Ok tt);
              (* parent.first_child.set(Some(new_sibling)); *)
              Ok (set_first h p (Some new_sibling))
            | None => Ok h
            end
          end;
  (* self.previous_sibling.set(Some(new_sibling)); *)
  Ok (set_prev h self (Some new_sibling)).

(* ---- histories *)
Inductive op :=
| Detach (i : id)
| Append (i j : id)          (* node i .append(node j) *)
| Prepend (i j : id)
| InsertAfter (i j : id)     (* node i .insert_after(node j) *)
| InsertBefore (i j : id).

Definition apply (dbg : bool) (h : heap) (o : op) : res heap :=
  match o with
  | Detach i => Ok (detach h i)
  | Append i j => append dbg h i j
  | Prepend i j => prepend dbg h i j
  | InsertAfter i j => insert_after dbg h i j
  | InsertBefore i j => insert_before dbg h i j
  end.

Definition step (dbg : bool) (r : res heap) (o : op) : res heap := do h <- r; apply dbg h o.

Definition run (dbg : bool) (ops : list op) : res heap := fold_left (step dbg) ops (Ok init).

(* the same history with the heap after every step (what the correspondence compares);
   a panic ends the trace *)
Fixpoint trace (dbg : bool) (h : heap) (ops : list op) : list heap * option string :=
  match ops with
  | [] => ([], None)
  | o :: r => match apply dbg h o with
              | Ok h' => let (t, e) := trace dbg h' r in (h' :: t, e)
              | Panic s => ([], Some s)
              | OutOfFuel => ([], Some "fuel")
              end
  end.

(* dump of the first n nodes: parent, previous, next, first, last of node 0, of node 1, ... *)
Definition dump_cell (c : cell) : list (option id) := [c_parent c; c_prev c; c_next c; c_first c; c_last c].
Definition dump (n : nat) (h : heap) : list (list (option id)) := map (fun i => dump_cell (h i)) (seq 0 n).

(* ---- executable check of local consistency over the first n ids (Spec side: written from the
   property text, evaluated on the implementation's dumps) *)
Definition oeqb (a b : option id) : bool :=
  match a, b with
  | Some x, Some y => Nat.eqb x y
  | None, None => true
  | _, _ => false
  end.

Fixpoint ends_b (fuel : nat) (h : heap) (i : id) : bool :=
  match fuel with
  | O => false
  | S f => match next h i with None => true | Some j => ends_b f h j end
  end.

Definition in_range (n : nat) (o : option id) : bool := match o with Some j => Nat.ltb j n | None => true end.

Definition wf_node_b (n : nat) (h : heap) (x : id) : bool :=
  in_range n (parent h x) && in_range n (prev h x) && in_range n (next h x) && in_range n (first h x) && in_range n (last h x)
  && forallb (fun m => Bool.eqb (opt_is (next h x) m) (opt_is (prev h m) x)) (seq 0 n)
  && match first h x with Some c => opt_is (parent h c) x && negb (is_some (prev h c)) | None => true end
  && match last h x with Some c => opt_is (parent h c) x && negb (is_some (next h c)) | None => true end
  && match next h x with Some m => oeqb (parent h x) (parent h m) | None => true end
  && match parent h x with
     | Some p => (is_some (prev h x) || opt_is (first h p) x) && (is_some (next h x) || opt_is (last h p) x)
     | None => true
     end
  && Bool.eqb (is_some (first h x)) (is_some (last h x))
  && ends_b (S n) h x.

Definition wf_b (n : nat) (h : heap) : bool := forallb (wf_node_b n h) (seq 0 n).

(* heap from a dump (ids beyond the dump are detached) *)
Definition cell_of_dump (l : list (option id)) : cell :=
  match l with
  | [a; b; c; d; e] => mkcell a b c d e
  | _ => new_cell
  end.
Definition heap_of_dump (d : list (list (option id))) : heap := fun i => cell_of_dump (nth i d []).

(* no parent cycle through x within fuel steps: walking parent links from x reaches a root *)
Fixpoint rooted_b (fuel : nat) (h : heap) (i : id) : bool :=
  match fuel with
  | O => false
  | S f => match parent h i with None => true | Some j => rooted_b f h j end
  end.
Definition acyclic_b (n : nat) (h : heap) : bool := forallb (rooted_b (S n) h) (seq 0 n).
